#!/usr/bin/env python3
"""usage: mkmeta.py <seed-id> <verdict> <detected_by> [round-note]
Builds seeded/<seed-id>/meta.json from the agent's meta.agent.json and what seedcheck.sh recorded."""
import json, sys, os
sid, verdict, det = sys.argv[1:4]
note = sys.argv[4] if len(sys.argv) > 4 else "third round: told which mechanisms the earlier seeds used and asked for a different site and clause"
d = os.path.join(os.path.dirname(os.path.abspath(__file__)), "..", "seeded", sid)
a = json.load(open(os.path.join(d, "meta.agent.json")))
pid = sid.split("-")[0]
m = {
 "property": pid,
 "written_by": "independent sub-agent given only the property text and a scratch worktree (%s)" % note,
 "summary": a.get("summary", ""),
 "needs": a.get("needs", ""),
 "demonstration": "zz_demo/ (go test -tags verif -vet=off -count=1 ./zz_demo/): fails with patch.diff applied, passes without; pinned suite (7 packages) passes with it - confirmed by tools/seedcheck.sh",
 "ran": "tools/seedcheck.sh %s <worktree> %s  (= VERIF_REPO=<worktree> ./check %s --tier quick)" % (sid, pid, pid),
 "verdict": verdict,
 "detected_by": det,
}
json.dump(m, open(os.path.join(d, "meta.json"), "w"), indent=1)
os.remove(os.path.join(d, "meta.agent.json"))
