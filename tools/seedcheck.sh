#!/bin/bash
# usage: seedcheck.sh <seed-id> <worktree> <property> [more ./check args]
# Confirms an independently written breaking change (demo fails with it, passes without it, pinned suite passes),
# runs the property's quick check against the changed tree, and files the change under /verif/seeded/<seed-id>/.
set -u
SID=$1; WT=$2; PID=$3; shift 3
export GOFLAGS=-mod=mod GOPROXY=off GOSUMDB=off GOTOOLCHAIN=local
OUT=/verif/seeded/$SID; mkdir -p $OUT
cd $WT || exit 2
[ -f patch.diff ] || { echo "no patch.diff"; exit 2; }
git checkout -q -- . 2>/dev/null; git apply patch.diff || { echo "patch does not apply"; exit 2; }
echo "--- demo WITH change"; go test -tags verif -vet=off -count=1 ./zz_demo/ 2>&1 | tail -4 > $OUT/demo_with.txt; W=${PIPESTATUS[0]}; tail -2 $OUT/demo_with.txt
echo "--- pinned suite WITH change"; go test -mod=mod -vet=off -count=1 ./pkg/buffer/ ./pkg/tmutex/ ./pkg/waiter/ ./protocol/header/ ./protocol/network/fragmentation/ ./protocol/ports/ ./protocol/transport/tcpconntrack/ 2>&1 | grep -c "^ok" 
git checkout -q -- . ; echo "--- demo WITHOUT change"; go test -tags verif -vet=off -count=1 ./zz_demo/ 2>&1 | tail -2 > $OUT/demo_without.txt; tail -1 $OUT/demo_without.txt
git apply patch.diff
echo "--- ./check $PID against the changed tree"
cd /verif; VERIF_REPO=$WT ./check $PID "$@" 2>&1 | grep -v "^    \|^KNOWN" | head -8 | tee $OUT/check_output.txt
cp $WT/patch.diff $OUT/patch.diff; rm -rf $OUT/zz_demo; cp -r $WT/zz_demo $OUT/zz_demo; cp $WT/meta.json $OUT/meta.agent.json 2>/dev/null
