#!/bin/bash
# Runs every claimed check (quick tier by default) on the unchanged tree and reports exit codes;
# used to refresh /verif/evidence before committing.
TIER=${1:-quick}; shift
cd "$(dirname "$0")/.."
IDS=${@:-$(cat tools/ready.txt)}
for p in $IDS; do
  out=$(./check $p --tier $TIER 2>&1); rc=$?
  echo "$p rc=$rc $(echo "$out" | grep '^property=' | tail -1)"
  [ $rc -ne 0 ] && echo "$out" | grep -v "^    \|^KNOWN" | head -12
done
