#!/bin/bash
# usage: seedround.sh <suffix> <worktree-prefix> <ids...>   e.g. seedround.sh f /tmp/seed7- C01 C02
# Runs tools/seedcheck.sh for every delivered seed of a round and prints one verdict line each.
SUF=$1; PRE=$2; shift 2
cd /verif
for id in "$@"; do
  wt=$PRE$id
  [ -f $wt/patch.diff ] || { echo "$id-$SUF: not delivered"; continue; }
  out=$(tools/seedcheck.sh $id-$SUF $wt $id 2>&1)
  with=$(echo "$out" | grep -A2 "demo WITH" | grep -c "^FAIL")
  without=$(echo "$out" | grep -A1 "demo WITHOUT" | grep -c "^ok")
  viol=$(echo "$out" | grep -m1 "sig=" | sed 's/^ *//')
  inc=$(echo "$out" | grep -m1 "INCONCLUSIVE" | cut -c1-120)
  if [ -n "$viol" ]; then echo "$id-$SUF: CAUGHT ($viol) demo_with_fails=$with demo_without_ok=$without";
  else echo "$id-$SUF: MISSED $inc demo_with_fails=$with demo_without_ok=$without"; fi
done
