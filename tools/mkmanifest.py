#!/usr/bin/env python3
"""Regenerates /verif/MANIFEST.json from harness/cXX/plan.json (claimed checks) and properties.jsonl."""
import json, os, glob, subprocess
V = os.path.dirname(os.path.dirname(os.path.abspath(__file__)))
props = [json.loads(l) for l in open(os.path.join(V, "properties.jsonl"))]
plans = {}
for p in sorted(glob.glob(os.path.join(V, "harness", "c[0-9][0-9]", "plan.json"))):
    d = json.load(open(p)); plans[d["id"]] = d
try:
    hooks = subprocess.run(["git", "-C", "/repo", "log", "--format=%H %s"], capture_output=True, text=True).stdout.splitlines()
    hook_commits = [l.split()[0] for l in hooks if " verif hook " in " " + l]
except Exception:
    hook_commits = []
READY = set(open(os.path.join(V, "tools", "ready.txt")).read().split())
checks = []; na = []
for pr in props:
    pid = pr["id"]
    pl = plans.get(pid)
    if not pl or pid not in READY:
        na.append(dict(property_id=pid, reason=(pl or {}).get("disabled_reason", "check not built yet (work in progress)")))
        continue
    c = dict(property_id=pid,
             quick_cmd="./check %s --tier quick" % pid,
             thorough_cmd="./check %s --tier thorough" % pid,
             evidence_file="/verif/evidence/%s.json" % pid,
             replay_cmd_template="./check %s --replay {path}" % pid,
             engine=pl.get("engine", "rapid-harness"),
             level_claimed=dict(category=pl.get("level", "exploration"), text=pl["level_text"], design_ref="DESIGN.md §5 " + pid),
             level_note=pl["level_note"],
             technique=pl["technique"])
    checks.append(c)
m = dict(version=1,
         setup_cmd="cd /verif/harness && GOFLAGS=-mod=mod GOPROXY=off GOSUMDB=off GOTOOLCHAIN=local go vet -tags verif ./evid >/dev/null 2>&1; true",
         hooks=dict(guard="verif", enable="go test -tags verif (harness module /verif/harness has `replace github.com/brewlin/net-protocol => /repo`, so every check compiles /repo's working tree with the tag on)",
                    baseline_off_cmd="cd /repo && go test -mod=mod -vet=off -count=1 -timeout 25m ./...",
                    source_commits=hook_commits, add_only=False),
         engines=[dict(name="rapid-harness", path="/verif/harness", serves_properties=sorted(plans), kind_free_text="Go test binaries (pgregory.net/rapid generators + exhaustive small-scope enumerators + independent codec/model oracles) built against /repo with -tags verif, sharded and merged by /verif/check")],
         checks=checks,
         notes="Hooks H1-H4 live in /repo behind build tag `verif` (see DESIGN.md §3.1); add_only=false because H1 moves the two go:linkname declarations of pkg/sleep into a !verif file and H2/H1 add a `!verif` constraint line to rand.go and commit_amd64.s. Exit codes: 0 held, 1 VIOLATION, 2 INCONCLUSIVE (infrastructure).",
         not_applicable=na)
json.dump(m, open(os.path.join(V, "MANIFEST.json"), "w"), indent=1)
print("checks:", [c["property_id"] for c in checks], "n/a:", len(na))
