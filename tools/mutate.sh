#!/bin/bash
# usage: mutate.sh <PID> <file-relative-to-repo> <python-expr-old> <python-expr-new> [check args...]
# Applies a textual mutation in the scratch worktree /tmp/wt-main, runs ./check PID against it, reverts.
set -u
PID=$1; FILE=$2; OLD=$3; NEW=$4; shift 4
WT=/tmp/wt-main
[ -d $WT ] || git -C /repo worktree add -q --detach $WT HEAD
git -C $WT checkout -q -- . ; git -C $WT checkout -q --detach $(git -C /repo rev-parse HEAD)
python3 - "$WT/$FILE" "$OLD" "$NEW" <<'PY'
import sys
p,old,new=sys.argv[1:4]
s=open(p).read()
if s.count(old)<1:
    print("MUTATION SITE NOT FOUND"); sys.exit(3)
open(p,'w').write(s.replace(old,new,1))
PY
[ $? -eq 0 ] || exit 3
( cd $WT && GOFLAGS=-mod=mod GOPROXY=off GOSUMDB=off GOTOOLCHAIN=local go build -tags verif ./$(dirname $FILE)/ ) || { echo "MUTANT DOES NOT BUILD"; git -C $WT checkout -q -- .; exit 3; }
cd /verif && VERIF_REPO=$WT ./check $PID "$@" 2>&1 | grep -v "^    \|^KNOWN" | head -${MUT_LINES:-6}
echo "exit=${PIPESTATUS[0]}"
git -C $WT checkout -q -- .
