package c11

import (
	"os"
	"bytes"
	"encoding/json"
	"fmt"
	"testing"

	tcpip "github.com/brewlin/net-protocol/protocol"
	"pgregory.net/rapid"
	"verifharness/evid"
	"verifharness/netsim"
)

// ---------------------------------------------------------------------------
// Case: socket configurations + a history of operations on one stack.

type SockCfg struct {
	Net    int    `json:"net"`              // 4 | 6
	V6Only bool   `json:"v6only,omitempty"` // IPv6 socket that refuses IPv4
	Bind   int    `json:"bind"`             // 0 unbound, 1 wildcard, 2 one local address, 3 one local IPv4 address given as ::ffff:a.b.c.d (net 6)
	Addr   int    `json:"addr,omitempty"`   // which local address (0|1)
	Port   uint16 `json:"port,omitempty"`
}

// Op kinds: "inj" one datagram towards socket S (or deliberately past it),
// "burst" N datagrams from rotating senders, "read", "write", "conn",
// "shut" (Shutdown(read)), "close", "drain" (read until nothing is left).
type Op struct {
	K     string `json:"k"`
	S     int    `json:"s"`
	Fam   int    `json:"fam,omitempty"`   // inj/burst: family of the packet
	Snd   int    `json:"snd,omitempty"`   // inj: sender index; write/conn: destination index
	SPort uint16 `json:"sport,omitempty"` // inj: sender port; write/conn: destination port
	Dst   int    `json:"dst,omitempty"`   // inj: 0|1 local address, 2 an address the stack does not own
	DPort uint16 `json:"dport,omitempty"` // inj: destination port (0: the port of socket S)
	Len   int    `json:"len,omitempty"`
	Cuts  []int  `json:"cuts,omitempty"`  // inj IPv4: fragment boundaries in units of 8 bytes of the UDP datagram
	Order []int  `json:"order,omitempty"` // arrival order of the fragments
	Chunk int    `json:"chunk,omitempty"` // how the link cuts a packet into views (netsim.ChunkLikeLink)
	N     int    `json:"n,omitempty"`     // burst: number of datagrams
	Vary  bool   `json:"vary,omitempty"`  // burst: lengths Len, Len+1, ...
	To    int    `json:"to,omitempty"`    // write: 0 connected peer, 4 IPv4, 6 IPv6, 46 IPv4 as ::ffff:a.b.c.d ; conn: 4|6|46
	Fault int    `json:"fault,omitempty"` // write: the link endpoint refuses the frame with 1 no buffer space, 2 would block, 3 aborted
	// Twin > 0 (inj, IPv4, fragmented): a second datagram of the same size from another
	// sender (twinPool4[Twin-1]; the first then comes from twinPool4[Snd]) carries the same IP
	// identification and is cut alike; its fragments arrive between the first one's: A1..Ak-1,
	// B1..Bk, Ak. Reassembly is per (source, destination, protocol, identification): both
	// datagrams arrive whole, the second sender's first.
	Twin int `json:"twin,omitempty"`
}

type HistCase struct {
	MTU   int       `json:"mtu"`
	Pad   int       `json:"pad,omitempty"` // link padding of injected packets: 46 = up to the Ethernet minimum, other k = k trailing bytes
	Socks []SockCfg `json:"socks"`
	Ops   []Op      `json:"ops"`
}

// ---------------------------------------------------------------------------
// Model of one socket (written from the statement).

type msock struct {
	cfg  SockCfg
	sk   *netsim.Sock
	dead bool // could not be created / left the modelled domain

	bound     bool
	port      uint16
	laddr     []byte // nil: wildcard
	lfam      int    // family of laddr
	connected bool
	peerFam   int
	peer      []byte
	peerPort  uint16
	rclosed   bool
	closed    bool

	q       []*dgram // arrivals the socket accepted or may have accepted, in arrival order
	arrSrc  []string // senders of the arrivals (for the non-triviality rule)
	serials int
}

func (s *msock) queued() int {
	n := 0
	for _, d := range s.q {
		n += len(d.data)
	}
	return n
}

// takes reports whether a datagram with these addresses was sent to this
// socket (RFC 768 demultiplexing by destination port, narrowed by the bound
// address and, once connected, by the peer).
func (s *msock) takes(d *dgram) bool {
	if s.dead || s.closed || !s.bound || s.port != d.dport {
		return false
	}
	if !isLocal(d.fam, d.dst) {
		return false
	}
	if s.connected {
		return d.fam == s.peerFam && bytes.Equal(d.src, s.peer) && d.sport == s.peerPort && bytes.Equal(d.dst, s.laddr)
	}
	if s.laddr != nil {
		return d.fam == s.lfam && bytes.Equal(d.dst, s.laddr)
	}
	if s.cfg.Net == 4 {
		return d.fam == 4
	}
	return d.fam == 6 || !s.cfg.V6Only
}

type hist struct {
	w      *world
	socks  []*msock
	serial int
	all    []*dgram
	// non-triviality
	pressure, extreme, interleaved bool
}

func famOfTo(to int) int {
	if to == 6 {
		return 6
	}
	return 4
}

func fullAddr(to int, a []byte, port uint16) tcpip.FullAddress {
	if to == 46 {
		a = mapped(a)
	}
	return tcpip.FullAddress{Addr: tcpip.Address(a), Port: port}
}

// learnLocal reads back what the socket is bound to after an operation that
// may bind it implicitly (first Write, Connect).
func (h *hist) learnLocal(s *msock) *evid.Failure {
	la, err := s.sk.EP.GetLocalAddress()
	if err != nil || la.Port == 0 {
		return nil
	}
	if !s.bound {
		s.bound = true
		s.port = la.Port
		evid.Label("hist:implicit-bind")
	} else if s.port != la.Port {
		return evid.Failf("local-port-changed", "socket %d was on port %d and now reports %d", s.cfg.Port, s.port, la.Port)
	}
	if s.connected {
		a := []byte(la.Addr)
		if !isLocal(s.peerFam, a) {
			// outside the modelled domain: stop judging this socket
			evid.Label("hist:odd-local-address")
			s.dead = true
			return nil
		}
		s.laddr, s.lfam = a, s.peerFam
	}
	return nil
}

func (h *hist) open(cfg SockCfg) *msock {
	s := &msock{cfg: cfg}
	sk, err := h.w.newUDP(cfg.Net)
	if err != nil {
		s.dead = true
		return s
	}
	s.sk = sk
	if cfg.Net == 6 && cfg.V6Only {
		if e := sk.EP.SetSockOpt(tcpip.V6OnlyOption(1)); e != nil {
			s.cfg.V6Only = false
		}
	}
	var fa tcpip.FullAddress
	switch cfg.Bind {
	case 0:
		return s
	case 1:
		fa = tcpip.FullAddress{Port: cfg.Port}
	case 2:
		fa = tcpip.FullAddress{Addr: tcpip.Address(locals(cfg.Net)[mod(cfg.Addr, 2)]), Port: cfg.Port}
	case 3:
		fa = tcpip.FullAddress{Addr: tcpip.Address(mapped(local4[mod(cfg.Addr, 2)])), Port: cfg.Port}
	}
	if e := sk.EP.Bind(fa, nil); e != nil {
		evid.Label("hist:bind-refused")
		s.cfg.Bind = 0
		return s
	}
	s.bound, s.port = true, cfg.Port
	switch cfg.Bind {
	case 2:
		s.laddr, s.lfam = locals(cfg.Net)[mod(cfg.Addr, 2)], cfg.Net
	case 3:
		s.laddr, s.lfam = local4[mod(cfg.Addr, 2)], 4
	}
	return s
}

// arrive puts one datagram on the wire and updates the model of the socket
// it was sent to (if any).
func (h *hist) arrive(d *dgram, cuts, order []int, chunk int) {
	h.register(d)
	if n := h.w.inject(d, cuts, order, chunk); n > 1 {
		evid.Label("inj:fragmented")
		if n > 8 {
			evid.Label("inj:fragmented>8")
		}
	}
}

// arriveTwin: see Op.Twin.
func (h *hist) arriveTwin(a, b *dgram, cuts []int, chunk int) {
	h.register(b) // completes first
	h.register(a)
	a.ipid = uint16(b.serial*7 + 1)
	b.ipid = a.ipid
	proto, pa, _ := a.packets(cuts, nil)
	_, pb, _ := b.packets(cuts, nil)
	seq := append(append([][]byte{}, pb...), pa...)
	if len(pa) >= 2 && len(pb) >= 2 {
		seq = append(append(append([][]byte{}, pa[:len(pa)-1]...), pb...), pa[len(pa)-1])
		evid.Label("inj:interleaved-trains-sharing-an-ip-id")
	}
	for _, p := range seq {
		h.w.tap.InjectViews(proto, "", netsim.ChunkLikeLink(p, chunk))
	}
}

// register updates the model of the socket the datagram is sent to (if any).
func (h *hist) register(d *dgram) {
	h.serial++
	d.serial = h.serial
	d.data = pattern(uint32(d.serial), len(d.data))
	h.all = append(h.all, d)
	var rcv *msock
	for _, s := range h.socks {
		if s.takes(d) {
			rcv = s
			break
		}
	}
	if rcv == nil {
		evid.Label("inj:to-nobody")
	} else if rcv.rclosed {
		evid.Label("inj:after-shutdown")
	} else {
		hi := rcv.queued()
		// Must be accepted only if it fits next to everything that may be
		// queued; a buffer filled exactly to its limit is full.
		d.opt = !(hi+len(d.data) <= rcvBuf && hi < rcvBuf)
		if os.Getenv("C11_DBG") != "" {
			fmt.Printf("arrive #%d %v:%d len=%d to port %d: model hi=%d opt=%v qlen=%d\n", d.serial, d.src, d.sport, len(d.data), rcv.port, hi, !(hi+len(d.data) <= rcvBuf && hi < rcvBuf), len(rcv.q))
		}
		if d.opt {
			h.pressure = true
			evid.Label("inj:under-pressure")
			if hi == rcvBuf && len(d.data) == 0 {
				evid.Label("inj:zero-length-into-exactly-full-buffer")
			}
		} else {
			evid.Label("inj:must-accept")
		}
		rcv.q = append(rcv.q, d)
		rcv.arrSrc = append(rcv.arrSrc, fmt.Sprintf("%x:%d", d.src, d.sport))
	}
}

// read performs one Read and judges it. done=true: nothing was returned.
func (h *hist) read(s *msock) (done bool, f *evid.Failure) {
	var from tcpip.FullAddress
	v, _, err := s.sk.EP.Read(&from)
	if err != nil {
		for _, d := range s.q {
			if !d.opt {
				return true, evid.Failf("read:lost", "socket on port %d: Read fails (%v) although datagram %s arrived while the receive buffer had room for it (%d bytes may have been queued before it) and was never returned", s.port, err, d, h.queuedBefore(s, d))
			}
		}
		if len(s.q) > 0 {
			evid.Label("read:pressure-drops-resolved")
		}
		s.q = nil
		evid.Label("read:empty")
		return true, nil
	}
	got := []byte(v)
	if s.closed {
		return false, evid.Failf("read:after-close", "socket on port %d: Read returned %d bytes after Close", s.port, len(got))
	}
	// the head of the queue, skipping arrivals whose acceptance was optional
	for i, d := range s.q {
		if bytes.Equal(got, d.data) && sameSource(s.cfg.Net, from, d) {
			if d.opt {
				// d may have been dropped, and what was returned may be any later arrival that
				// Read cannot tell from it (same bytes, same sender) as long as only optional
				// arrivals lie in between: none of those is certain to be still queued
				for _, x := range s.q[i+1:] {
					if bytes.Equal(x.data, d.data) && bytes.Equal(x.src, d.src) && x.sport == d.sport && x.fam == d.fam {
						if !x.opt {
							x.opt = true
							evid.Label("read:indistinguishable-twin-made-optional")
						}
						continue
					}
					if !x.opt {
						break
					}
				}
			}
			s.q = s.q[i+1:]
			d.read = true
			evid.Label("read:datagram")
			if len(got) == 0 || len(got) >= maxPayload4 {
				h.extreme = true
				evid.Label(fmt.Sprintf("read:len-class-%s", lenClass(len(got))))
			}
			if d.fam == 4 && s.cfg.Net == 6 {
				evid.Label("read:v4-on-v6-socket")
			}
			return false, nil
		}
		if !d.opt {
			break
		}
	}
	return false, h.explain(s, got, from)
}

func (h *hist) queuedBefore(s *msock, d *dgram) int {
	n := 0
	for _, x := range s.q {
		if x == d {
			break
		}
		n += len(x.data)
	}
	return n
}

// explain classifies a Read result that is not the expected head.
func (h *hist) explain(s *msock, got []byte, from tcpip.FullAddress) *evid.Failure {
	where := fmt.Sprintf("socket on port %d: Read returned %d bytes from %v:%d", s.port, len(got), []byte(from.Addr), from.Port)
	head := "nothing"
	for _, d := range s.q {
		if !d.opt {
			head = d.String()
			break
		}
	}
	for _, d := range s.q {
		if bytes.Equal(got, d.data) && sameSource(s.cfg.Net, from, d) {
			return evid.Failf("read:reordered", "%s = %s, overtaking %s which arrived earlier and had to be accepted", where, d, head)
		}
	}
	for _, d := range s.q {
		if bytes.Equal(got, d.data) {
			return evid.Failf("read:wrong-source", "%s; the bytes are those of %s", where, d)
		}
	}
	for _, d := range h.all {
		if bytes.Equal(got, d.data) && len(got) >= 4 {
			if d.read && s.takes(d) {
				return evid.Failf("read:duplicate", "%s: datagram %s was already returned once", where, d)
			}
			if d.read {
				return evid.Failf("read:duplicate", "%s: datagram %s was already returned once (possibly by another socket)", where, d)
			}
			return evid.Failf("read:not-sent-to-socket", "%s: these are the bytes of %s, which was not sent to this socket (bound=%v laddr=%v connected=%v peer=%v:%d rclosed=%v) or arrived after its read side was closed", where, d, s.bound, s.laddr, s.connected, s.peer, s.peerPort, s.rclosed)
		}
	}
	for _, d := range h.all {
		if len(got) > 0 && len(got) < len(d.data) && (bytes.HasPrefix(d.data, got) || bytes.HasSuffix(d.data, got) || bytes.Contains(d.data, got)) && len(got) >= 4 {
			return evid.Failf("read:truncated-or-split", "%s: a proper part of %s", where, d)
		}
		if len(d.data) >= 4 && len(got) > len(d.data) && bytes.Contains(got, d.data) {
			return evid.Failf("read:merged", "%s: contains all of %s and more", where, d)
		}
	}
	return evid.Failf("read:unknown-bytes", "%s: no datagram sent in this history has these bytes; expected head %s", where, head)
}

func lenClass(n int) string {
	switch {
	case n == 0:
		return "0"
	case n < 4:
		return "1-3"
	case n <= 1472:
		return "le-mtu"
	case n < rcvBuf:
		return "lt-32k"
	case n < maxPayload4:
		return "ge-32k"
	case n == maxPayload4:
		return "max4"
	case n <= maxPayload6:
		return "max4..max6"
	default:
		return "beyond"
	}
}

// write performs one Write and judges the emission.
func (h *hist) write(s *msock, op Op) *evid.Failure {
	h.serial++
	payload := pattern(uint32(h.serial)|0x80000000, op.Len)
	var want wantPkt
	want.payload = payload
	wo := tcpip.WriteOptions{}
	what := ""
	if op.To == 0 {
		what = fmt.Sprintf("Write(%d bytes) on the socket connected to %v:%d", op.Len, s.peer, s.peerPort)
		want.fam, want.dst, want.dport = s.peerFam, s.peer, s.peerPort
	} else {
		fam := famOfTo(op.To)
		if op.To == 46 && s.cfg.Net != 6 || op.To == 4 && s.cfg.Net != 4 || op.To == 6 && s.cfg.Net != 6 {
			evid.Label("write:ill-typed-skipped")
			return nil
		}
		dst := senders(fam)[mod(op.Snd, 3)]
		port := op.SPort
		if port == 0 {
			port = 9
		}
		fa := fullAddr(op.To, dst, port)
		wo.To = &fa
		what = fmt.Sprintf("Write(%d bytes, To=%v:%d)", op.Len, []byte(fa.Addr), port)
		want.fam, want.dst, want.dport = fam, dst, port
	}
	if s.bound {
		want.sport = s.port
	}
	if s.laddr != nil && s.lfam == want.fam {
		want.src = s.laddr
	}
	before := h.w.tap.Len()
	if op.Fault > 0 {
		ferr := []*tcpip.Error{tcpip.ErrNoBufferSpace, tcpip.ErrWouldBlock, tcpip.ErrAborted}[mod(op.Fault-1, 3)]
		h.w.tap.Refuse = func(netsim.Frame) *tcpip.Error { return ferr }
	}
	n, _, err := s.sk.EP.Write(tcpip.SlicePayload(payload), wo)
	h.w.tap.Refuse = nil
	frames := h.w.tap.Trace()[before:]
	if op.Fault > 0 {
		refused := 0
		for _, f := range frames {
			if f.Refused {
				refused++
			}
		}
		if refused > 0 {
			// "a datagram written is emitted as one packet carrying exactly those bytes, or the write fails"
			evid.Label("write:frame-refused-by-link")
			if err == nil {
				return evid.Failf("write:success-although-not-emitted", "%s: the link endpoint refused the frame (transmit error), nothing was emitted, yet Write reports success (n=%d)", what, n)
			}
			if !s.closed {
				return h.learnLocal(s)
			}
			return nil
		}
	}
	if err == nil && op.To == 0 && !s.connected {
		return evid.Failf("write:no-destination", "Write(%d bytes) without destination on an unconnected socket succeeded", op.Len)
	}
	if f := judgeEmission(what, n, err, frames, want); f != nil {
		return f
	}
	if err == nil {
		evid.Label(fmt.Sprintf("write:ok-v%d-%s", want.fam, lenClass(op.Len)))
		if op.To == 46 {
			evid.Label("write:ok-v4mapped")
		}
		if op.Len == 0 || op.Len >= maxPayload4 {
			h.extreme = true
		}
	} else {
		evid.Label(fmt.Sprintf("write:refused-v%d-%s", want.fam, lenClass(op.Len)))
	}
	if !s.closed {
		return h.learnLocal(s)
	}
	return nil
}

func (h *hist) connect(s *msock, op Op) *evid.Failure {
	if s.closed || op.To == 0 {
		return nil
	}
	fam := famOfTo(op.To)
	if op.To == 46 && s.cfg.Net != 6 || op.To == 4 && s.cfg.Net != 4 || op.To == 6 && s.cfg.Net != 6 {
		return nil
	}
	dst := senders(fam)[mod(op.Snd, 3)]
	port := op.SPort
	if port == 0 {
		port = 9
	}
	if e := s.sk.EP.Connect(fullAddr(op.To, dst, port)); e != nil {
		evid.Label("conn:refused")
		return nil
	}
	evid.Label(fmt.Sprintf("conn:ok-v%d", fam))
	s.connected, s.peerFam, s.peer, s.peerPort = true, fam, dst, port
	return h.learnLocal(s)
}

func (h *hist) step(op Op) *evid.Failure {
	if len(h.socks) == 0 {
		return nil
	}
	s := h.socks[mod(op.S, len(h.socks))]
	if s.dead {
		return nil
	}
	switch op.K {
	case "inj", "burst":
		n := 1
		if op.K == "burst" {
			n = op.N
			if n < 1 {
				n = 1
			}
			if n > 40 {
				n = 40
			}
		}
		fam := op.Fam
		if fam != 6 {
			fam = 4
		}
		max := maxPayload4
		if fam == 6 {
			max = maxPayload6
		}
		for i := 0; i < n; i++ {
			d := &dgram{fam: fam}
			d.src = senders(fam)[mod(op.Snd+i, 3)]
			d.sport = op.SPort
			if op.K == "burst" && i%2 == 1 {
				d.sport = op.SPort + 1
			}
			switch {
			case op.Dst == 2 && fam == 4:
				d.dst = foreign4
			case op.Dst == 2:
				d.dst = foreign6
			default:
				d.dst = locals(fam)[mod(op.Dst, 2)]
			}
			d.dport = op.DPort
			if d.dport == 0 {
				d.dport = s.port
			}
			if d.dport == 0 {
				d.dport = 999
			}
			l := op.Len
			if op.Vary {
				l += i
			}
			if l < 0 {
				l = 0
			}
			if l > max {
				l = max
			}
			d.data = make([]byte, l)
			if fam == 4 && op.K == "inj" && op.Twin > 0 && len(op.Cuts) > 0 {
				d.src = twinPool4[mod(op.Snd, len(twinPool4))]
				b := *d
				b.src = twinPool4[mod(op.Twin-1, len(twinPool4))]
				if bytes.Equal(b.src, d.src) {
					b.src = twinPool4[mod(op.Twin, len(twinPool4))]
				}
				b.data = make([]byte, l)
				h.arriveTwin(d, &b, op.Cuts, op.Chunk)
			} else if fam == 4 {
				h.arrive(d, op.Cuts, op.Order, op.Chunk)
			} else {
				h.arrive(d, nil, nil, op.Chunk)
			}
		}
	case "read":
		_, f := h.read(s)
		return f
	case "drain":
		for i := 0; i < 5000; i++ {
			done, f := h.read(s)
			if f != nil || done {
				return f
			}
		}
	case "write":
		if op.Len < 0 {
			return nil
		}
		return h.write(s, op)
	case "conn":
		return h.connect(s, op)
	case "shut":
		if s.closed {
			return nil
		}
		if e := s.sk.EP.Shutdown(tcpip.ShutdownRead); e != nil {
			evid.Label("shut:refused")
			return nil
		}
		evid.Label("shut:ok")
		s.rclosed = true
		for _, d := range s.q {
			d.opt = true // what is still queued may be delivered or discarded, whole
		}
	case "close":
		if s.closed {
			return nil
		}
		s.sk.EP.Close()
		evid.Label("close")
		s.closed, s.rclosed = true, true
		s.q = nil
	}
	return nil
}

func runHist(c HistCase) *evid.Failure {
	if len(c.Socks) == 0 {
		return nil
	}
	h := &hist{w: newWorld(c.MTU)}
	if c.Pad == 46 {
		h.w.tap.PadMin = 46
	} else if c.Pad > 0 {
		h.w.tap.PadIn = c.Pad
	}
	if c.Pad > 0 {
		evid.Label("hist:link-padding")
	}
	defer h.w.close()
	for _, cfg := range c.Socks {
		h.socks = append(h.socks, h.open(cfg))
	}
	defer func() {
		for _, s := range h.socks {
			if s.sk != nil && !s.closed {
				s.sk.EP.Close()
			}
		}
	}()
	for i, op := range c.Ops {
		if f := h.step(op); f != nil {
			f.Msg = fmt.Sprintf("op %d (%s): %s", i, op.K, f.Msg)
			return f
		}
	}
	// everything still queued must come out in order; nothing else may
	for i := range h.socks {
		if f := h.step(Op{K: "drain", S: i}); f != nil {
			f.Msg = "final drain: " + f.Msg
			return f
		}
	}
	for _, s := range h.socks {
		distinct := map[string]bool{}
		changes := 0
		for i, a := range s.arrSrc {
			distinct[a] = true
			if i > 0 && s.arrSrc[i-1] != a {
				changes++
			}
		}
		if len(distinct) >= 2 && changes >= 2 {
			h.interleaved = true
		}
	}
	if h.interleaved {
		evid.Label("case:interleaved-senders")
	}
	if h.pressure {
		evid.Label("case:buffer-pressure")
	}
	if h.extreme {
		evid.Label("case:zero-or-max-length")
	}
	if h.interleaved || h.pressure || h.extreme {
		b, _ := json.Marshal(c)
		evid.NonTrivialKey("hist", b)
		if h.pressure {
			evid.Sample("hist:pressure", c)
		} else if h.interleaved {
			evid.Sample("hist:interleaved", c)
		}
	}
	return nil
}

// ---------------------------------------------------------------------------
// Generator

func genLen(rt *rapid.T, max int, beyond bool) int {
	classes := []int{0, 0, 1, 1, 2, 3, 3, 4, 5, 6, 7}
	if beyond {
		classes = append(classes, 8, 8, 8)
	}
	switch rapid.SampledFrom(classes).Draw(rt, "lenclass") {
	case 0:
		return rapid.SampledFrom([]int{0, 0, 1, 2, 3}).Draw(rt, "len")
	case 1:
		return rapid.IntRange(4, 64).Draw(rt, "len")
	case 2:
		return 2*rapid.IntRange(40, 700).Draw(rt, "len") + 1
	case 3:
		return rapid.IntRange(1440, 1520).Draw(rt, "len")
	case 4:
		return rapid.SampledFrom([]int{4096, 8192, 16384, 32768}).Draw(rt, "len")
	case 5:
		return rapid.IntRange(rcvBuf-40, rcvBuf+40).Draw(rt, "len")
	case 6:
		return rapid.IntRange(max-9, max).Draw(rt, "len")
	case 7:
		return rapid.IntRange(0, max).Draw(rt, "len")
	default:
		if rapid.Bool().Draw(rt, "edge") {
			return rapid.SampledFrom([]int{maxPayload4, maxPayload4 + 1, maxPayload6, maxPayload6 + 1, 65535, 65536, 70000}).Draw(rt, "len")
		}
		return rapid.IntRange(65480, 65560).Draw(rt, "len")
	}
}

type gsock struct {
	cfg               SockCfg
	bound, conn, shut bool
	closed            bool
	peerFam, peerSnd  int
	peerPort          uint16
}

func genCuts(rt *rapid.T, l4 int) ([]int, []int) {
	units := (l4 - 1) / 8 // boundaries 1..units are strictly inside
	if units < 1 {
		return nil, nil
	}
	maxCuts := 5
	if rapid.IntRange(0, 5).Draw(rt, "manyfrags") == 0 {
		maxCuts = 12
	}
	if maxCuts > units {
		maxCuts = units
	}
	k := rapid.IntRange(1, maxCuts).Draw(rt, "ncuts")
	set := map[int]bool{}
	var cuts []int
	for i := 0; i < k; i++ {
		c := rapid.IntRange(1, units).Draw(rt, "cut")
		if !set[c] {
			set[c] = true
			cuts = append(cuts, c)
		}
	}
	// ascending
	for i := range cuts {
		for j := i + 1; j < len(cuts); j++ {
			if cuts[j] < cuts[i] {
				cuts[i], cuts[j] = cuts[j], cuts[i]
			}
		}
	}
	order := rapid.Permutation(seq(len(cuts)+1)).Draw(rt, "order")
	return cuts, order
}

func seq(n int) []int {
	s := make([]int, n)
	for i := range s {
		s[i] = i
	}
	return s
}

func genHist(rt *rapid.T) HistCase {
	c := HistCase{MTU: rapid.SampledFrom([]int{1500, 1500, 65535, 576}).Draw(rt, "mtu")}
	c.Pad = rapid.SampledFrom([]int{0, 0, 0, 46, 46, 1, 7}).Draw(rt, "linkpad")
	// Sockets and operations are drawn through SliceOfN so that rapid can
	// drop whole elements when it shrinks; the closures keep a sketch of the
	// socket states (rebuilt on every replay of the draw sequence) to aim
	// most operations at something meaningful.
	var gs []*gsock
	c.Socks = rapid.SliceOfN(rapid.Custom(func(rt *rapid.T) SockCfg {
		cfg := SockCfg{Net: rapid.SampledFrom([]int{4, 6, 6}).Draw(rt, "net"), Port: uint16(1000 + 11*len(gs))}
		cfg.Bind = rapid.SampledFrom([]int{0, 1, 1, 1, 2, 2, 3}).Draw(rt, "bind")
		if cfg.Bind == 3 && cfg.Net == 4 {
			cfg.Bind = 2
		}
		if cfg.Net == 6 && cfg.Bind != 3 {
			cfg.V6Only = rapid.IntRange(0, 4).Draw(rt, "v6only") == 4
		}
		cfg.Addr = rapid.IntRange(0, 1).Draw(rt, "addr")
		gs = append(gs, &gsock{cfg: cfg, bound: cfg.Bind != 0})
		return cfg
	}), 1, 4).Draw(rt, "socks")
	ns := len(gs)
	kinds := []string{"write", "write", "write", "inj", "inj", "inj", "inj", "inj", "burst", "burst", "read", "read", "read", "conn", "shut", "close", "drain"}
	c.Ops = rapid.SliceOfN(rapid.Custom(func(rt *rapid.T) Op {
		op := Op{K: rapid.SampledFrom(kinds).Draw(rt, "kind"), S: rapid.IntRange(0, ns-1).Draw(rt, "sock")}
		g := gs[op.S]
		if g.closed && rapid.IntRange(0, 7).Draw(rt, "leave-closed") != 0 {
			// mostly leave closed sockets alone
			for i, x := range gs {
				if !x.closed {
					op.S, g = i, x
					break
				}
			}
		}
		switch op.K {
		case "inj", "burst":
			// family and destination that the socket listens on, most of the time
			fam := rapid.SampledFrom([]int{4, 6}).Draw(rt, "fam")
			aimed := rapid.IntRange(0, 9).Draw(rt, "aimed") != 0
			if aimed {
				switch {
				case g.conn:
					fam = g.peerFam
				case g.cfg.Net == 4 || g.cfg.Bind == 3:
					fam = 4
				case g.cfg.V6Only || g.cfg.Bind == 2:
					fam = 6
				}
			}
			op.Fam = fam
			op.Snd = rapid.IntRange(0, 2).Draw(rt, "snd")
			op.SPort = rapid.SampledFrom(portPool).Draw(rt, "sport")
			if rapid.IntRange(0, 30).Draw(rt, "sport0") == 0 {
				op.SPort = 0
			}
			if g.conn && aimed && rapid.IntRange(0, 5).Draw(rt, "frompeer") != 0 {
				op.Snd, op.SPort = g.peerSnd, g.peerPort
			}
			op.Dst = rapid.IntRange(0, 1).Draw(rt, "dst")
			if aimed && g.cfg.Bind >= 2 {
				op.Dst = g.cfg.Addr
			}
			if !aimed && rapid.IntRange(0, 2).Draw(rt, "foreign") == 0 {
				op.Dst = 2
			}
			if !aimed && rapid.IntRange(0, 2).Draw(rt, "otherport") == 0 {
				op.DPort = rapid.SampledFrom([]uint16{999, 1000, 1011, 1022, 1033, 20000}).Draw(rt, "dport")
			}
			max := maxPayload4
			if fam == 6 {
				max = maxPayload6
			}
			op.Chunk = rapid.SampledFrom([]int{0, 0, 1, 1, 700, 4096}).Draw(rt, "chunk")
			if op.K == "burst" {
				op.N = rapid.IntRange(2, 24).Draw(rt, "n")
				op.Vary = rapid.Bool().Draw(rt, "vary")
				switch rapid.IntRange(0, 3).Draw(rt, "burstlen") {
				case 0:
					op.Len = rapid.SampledFrom([]int{0, 1, 1024, 2048, 4096, 8192, 16384}).Draw(rt, "len")
				case 1:
					op.Len = rapid.IntRange(1000, 9000).Draw(rt, "len")
				default:
					op.Len = genLen(rt, max, false)
				}
			} else {
				op.Len = genLen(rt, max, false)
				if fam == 4 && rapid.IntRange(0, 2).Draw(rt, "frag") == 0 {
					op.Cuts, op.Order = genCuts(rt, 8+op.Len)
					if rapid.Bool().Draw(rt, "twin") {
						op.Twin = 1 + rapid.IntRange(0, 7).Draw(rt, "twin-sender")
						op.Snd = rapid.IntRange(0, 7).Draw(rt, "twin-first")
					}
				}
			}
		case "write":
			switch {
			case g.conn && rapid.IntRange(0, 2).Draw(rt, "topeer") != 0:
				op.To = 0
			case g.cfg.Net == 4:
				op.To = 4
			default:
				op.To = rapid.SampledFrom([]int{6, 46}).Draw(rt, "to")
			}
			if !g.conn && rapid.IntRange(0, 15).Draw(rt, "nodest") == 0 {
				op.To = 0
			}
			op.Snd = rapid.IntRange(0, 2).Draw(rt, "dsta")
			op.SPort = rapid.SampledFrom(portPool).Draw(rt, "dstp")
			op.Len = genLen(rt, maxPayload4, true)
			op.Fault = rapid.SampledFrom([]int{0, 0, 0, 0, 0, 1, 2, 3}).Draw(rt, "fault")
			g.bound = true
		case "conn":
			if g.cfg.Net == 4 {
				op.To = 4
			} else {
				op.To = rapid.SampledFrom([]int{6, 6, 46}).Draw(rt, "to")
			}
			op.Snd = rapid.IntRange(0, 2).Draw(rt, "dsta")
			op.SPort = rapid.SampledFrom(portPool).Draw(rt, "dstp")
			if !g.closed {
				g.conn, g.bound = true, true
				g.peerFam, g.peerSnd, g.peerPort = famOfTo(op.To), op.Snd, op.SPort
			}
		case "shut":
			g.shut = true
		case "close":
			g.closed = true
		}
		return op
	}), 1, 30).Draw(rt, "ops")
	return c
}

func TestHist(t *testing.T) {
	evid.Run(t, evid.Spec[HistCase]{Name: "hist", Gen: genHist, Run: runHist})
}
