// Package c11 decides property C11: UDP datagrams arrive whole, unmerged, at
// most once each, from the right sender; a datagram written is emitted as one
// packet carrying exactly those bytes, or the write fails.
//
// Everything the oracle expects is computed here from the statement and from
// RFC 768 / 791 / 8200 (through verifharness/codec); nothing of the
// repository's header package is used.
package c11

import (
	"bytes"
	"encoding/binary"
	"fmt"
	"strings"

	tcpip "github.com/brewlin/net-protocol/protocol"
	"github.com/brewlin/net-protocol/protocol/network/ipv4"
	"github.com/brewlin/net-protocol/protocol/network/ipv6"
	"github.com/brewlin/net-protocol/protocol/transport/udp"
	"github.com/brewlin/net-protocol/stack"
	"verifharness/codec"
	"verifharness/evid"
	"verifharness/netsim"
)

// rcvBuf is the default receive buffer of a UDP socket in bytes of payload
// (DESIGN §5 C11: "default 32 KiB"). The implementation charges a queued
// datagram with its payload length only, so the model does the same.
const rcvBuf = 32 * 1024

// Largest UDP payloads that the 16-bit length fields can describe.
const (
	maxPayload4 = 65535 - 20 - 8 // IPv4 total length covers the IP header
	maxPayload6 = 65535 - 8      // IPv6 payload length does not cover the fixed header
)

func ip4(a, b, c, d byte) []byte { return []byte{a, b, c, d} }
func ip6(hi uint16, lo byte) []byte {
	b := make([]byte, 16)
	binary.BigEndian.PutUint16(b, hi)
	b[15] = lo
	return b
}

var (
	// two local addresses per family, so that "bound to a specific address"
	// differs from "bound to the wildcard"
	local4 = [][]byte{[]byte(netsim.A4), []byte(netsim.C4)}
	local6 = [][]byte{[]byte(netsim.A6), []byte(netsim.C6)}
	// an address the stack does not own (mis-addressed datagrams)
	foreign4 = ip4(10, 0, 0, 77)
	foreign6 = ip6(0xfd00, 0x77)
	// pool of remote senders / write destinations
	senders4 = [][]byte{[]byte(netsim.B4), ip4(10, 0, 0, 9), ip4(192, 168, 7, 7)}
	senders6 = [][]byte{[]byte(netsim.B6), ip6(0xfd00, 9), ip6(0x2001, 5)}
	portPool = []uint16{53, 4000, 40000, 65535, 7}
	// senders of interleaved fragment trains that share an IP identification: addresses
	// that are octet permutations, octet shifts and single-bit neighbours of one another
	twinPool4 = [][]byte{ip4(10, 0, 1, 2), ip4(10, 0, 2, 1), []byte(netsim.B4), ip4(10, 0, 2, 0), ip4(10, 1, 0, 2), ip4(10, 0, 3, 1), ip4(192, 168, 7, 7), ip4(192, 168, 7, 6)}
)

func locals(fam int) [][]byte {
	if fam == 4 {
		return local4
	}
	return local6
}

func senders(fam int) [][]byte {
	if fam == 4 {
		return senders4
	}
	return senders6
}

func isLocal(fam int, a []byte) bool {
	for _, l := range locals(fam) {
		if bytes.Equal(l, a) {
			return true
		}
	}
	return false
}

func mapped(a4 []byte) []byte {
	b := make([]byte, 16)
	b[10], b[11] = 0xff, 0xff
	copy(b[12:], a4)
	return b
}

func mod(i, n int) int {
	i %= n
	if i < 0 {
		i += n
	}
	return i
}

// pattern returns n bytes that depend on serial (and on n), so that two
// datagrams of one case never carry the same bytes when n >= 4.
func pattern(serial uint32, n int) []byte {
	b := make([]byte, n)
	x := serial*2654435761 + uint32(n)*40503 + 0x9e3779b9
	if x == 0 {
		x = 1
	}
	i := 0
	if n >= 4 {
		binary.BigEndian.PutUint32(b, serial)
		i = 4
	}
	for ; i+4 <= n; i += 4 {
		x ^= x << 13
		x ^= x >> 17
		x ^= x << 5
		binary.LittleEndian.PutUint32(b[i:], x)
	}
	for ; i < n; i++ {
		x ^= x << 13
		x ^= x >> 17
		x ^= x << 5
		b[i] = byte(x >> 11)
	}
	return b
}

// world is one stack on a tap with two local addresses per family.
type world struct {
	tap *netsim.Tap
	st  *stack.Stack
}

func newWorld(mtu int) *world {
	if mtu <= 0 {
		mtu = 1500
	}
	w := &world{tap: netsim.NewTap(uint32(mtu))}
	w.st = netsim.NewStack(w.tap, netsim.StackCfg{
		Addrs4: []tcpip.Address{netsim.A4, netsim.C4},
		Addrs6: []tcpip.Address{netsim.A6, netsim.C6},
	})
	return w
}

// close releases the network endpoints (the IPv4 endpoint owns a goroutine).
func (w *world) close() {
	for _, a := range []tcpip.Address{netsim.A4, netsim.C4, netsim.A6, netsim.C6} {
		w.st.RemoveAddress(1, a)
	}
}

func (w *world) newUDP(net int) (*netsim.Sock, *tcpip.Error) {
	np := tcpip.NetworkProtocolNumber(ipv4.ProtocolNumber)
	if net == 6 {
		np = ipv6.ProtocolNumber
	}
	return netsim.NewSock(w.st, udp.ProtocolNumber, np)
}

// dgram is one well-formed datagram put on the wire towards the stack.
type dgram struct {
	serial int
	fam    int
	src    []byte
	dst    []byte
	sport  uint16
	dport  uint16
	data   []byte
	ipid   uint16 // IPv4 identification (0: derived from the serial)
	// model bookkeeping
	opt  bool // acceptance was not mandatory (buffer pressure / read side being closed)
	read bool // already returned by a Read
}

func (d *dgram) String() string {
	return fmt.Sprintf("#%d %v:%d>%v:%d len=%d", d.serial, d.src, d.sport, d.dst, d.dport, len(d.data))
}

// packets renders the datagram as network-layer packets: one packet, or (IPv4
// only) the fragments cut at cuts (multiples of 8 inside the UDP datagram), in
// the given arrival order. UDP length = IP payload length always.
func (d *dgram) packets(cuts []int, order []int) (proto tcpip.NetworkProtocolNumber, pkts [][]byte, nfrag int) {
	l4 := codec.BuildUDP(d.src, d.dst, d.sport, d.dport, d.data, true)
	if d.fam == 6 {
		return ipv6.ProtocolNumber, [][]byte{codec.BuildIPv6(codec.IPv6Hdr{Src: d.src, Dst: d.dst, NextHeader: codec.ProtoUDP}, l4)}, 1
	}
	id := uint16(d.serial*7 + 1)
	if d.ipid != 0 {
		id = d.ipid
	}
	// sanitize the cut list: ascending multiples of 8 strictly inside l4
	var cs []int
	prev := 0
	for _, c := range cuts {
		c *= 8
		if c > prev && c < len(l4) {
			cs = append(cs, c)
			prev = c
		}
	}
	if len(cs) == 0 {
		return ipv4.ProtocolNumber, [][]byte{codec.BuildIPv4(codec.IPv4Hdr{Src: d.src, Dst: d.dst, Proto: codec.ProtoUDP, ID: id}, l4)}, 1
	}
	cs = append(cs, len(l4))
	var frags [][]byte
	prev = 0
	for i, c := range cs {
		frags = append(frags, codec.BuildIPv4(codec.IPv4Hdr{Src: d.src, Dst: d.dst, Proto: codec.ProtoUDP, ID: id,
			MF: i != len(cs)-1, FragOff: prev}, l4[prev:c]))
		prev = c
	}
	// arrival order: order if it is a permutation of the fragments, else as cut
	ok := len(order) == len(frags)
	seen := make([]bool, len(frags))
	for _, o := range order {
		if o < 0 || o >= len(frags) || seen[o] {
			ok = false
			break
		}
		seen[o] = true
	}
	if ok {
		out := make([][]byte, len(frags))
		for i, o := range order {
			out[i] = frags[o]
		}
		frags = out
	}
	return ipv4.ProtocolNumber, frags, len(frags)
}

// inject hands the datagram to the stack (synchronously: when inject returns
// the socket has queued or dropped it).
func (w *world) inject(d *dgram, cuts, order []int, chunk int) int {
	proto, pkts, n := d.packets(cuts, order)
	for _, p := range pkts {
		w.tap.InjectViews(proto, "", netsim.ChunkLikeLink(p, chunk))
	}
	return n
}

// ---------------------------------------------------------------------------
// Emission oracle

type wantPkt struct {
	fam     int
	dst     []byte
	dport   uint16
	src     []byte // nil: any local address of the family
	sport   uint16 // 0: not known yet (socket bound by this very write)
	payload []byte
}

// judgeEmission decides one Write call: success => exactly one packet with
// exactly those bytes and consistent length fields, ports and addresses;
// failure => nothing emitted.
func judgeEmission(what string, n uintptr, err *tcpip.Error, frames []netsim.Frame, w wantPkt) *evid.Failure {
	if err != nil {
		if len(frames) != 0 {
			return evid.Failf("write:failed-but-emitted", "%s failed (%v) but %d packet(s) went out: %s", what, err, len(frames), frames[0].Pkt)
		}
		if n != 0 {
			return evid.Failf("write:failed-with-count", "%s failed (%v) but reports %d bytes written", what, err, n)
		}
		return nil
	}
	if int(n) != len(w.payload) {
		return evid.Failf("write:short", "%s succeeded but reports %d of %d bytes", what, n, len(w.payload))
	}
	if len(frames) != 1 {
		return evid.Failf("write:packet-count", "%s of %d bytes succeeded and put %d packets on the link (want exactly 1)", what, len(w.payload), len(frames))
	}
	f := frames[0]
	p := f.Pkt
	wantL3 := "ipv4"
	hl := 20
	if w.fam == 6 {
		wantL3 = "ipv6"
		hl = 40
	}
	if p.L3 != wantL3 {
		return evid.Failf("write:family", "%s towards an %s destination emitted an %s packet", what, wantL3, p.L3)
	}
	// length fields, read straight from the bytes (RFC 791 / 8200 / 768)
	raw := f.Raw
	if len(raw) < hl+8 {
		return evid.Failf("write:length-fields", "%s of %d bytes emitted a %d-byte packet", what, len(w.payload), len(raw))
	}
	var ipLen, wantIPLen int
	if w.fam == 4 {
		ipLen, wantIPLen = int(binary.BigEndian.Uint16(raw[2:])), len(raw)
	} else {
		ipLen, wantIPLen = int(binary.BigEndian.Uint16(raw[4:])), len(raw)-40
	}
	udpLen := int(binary.BigEndian.Uint16(raw[hl+4:]))
	if ipLen != wantIPLen || udpLen != 8+len(w.payload) || len(raw) != hl+8+len(w.payload) {
		return evid.Failf("write:length-fields", "%s succeeded; the %s packet is %d bytes long, its IP length field says %d (want %d), its UDP length field says %d (want %d)",
			what, wantL3, len(raw), ipLen, wantIPLen, udpLen, 8+len(w.payload))
	}
	for _, e := range p.Errs {
		if strings.Contains(e, "checksum") {
			continue // checksums are property C06's
		}
		return evid.Failf("write:malformed", "%s of %d bytes emitted a malformed packet: %s", what, len(w.payload), e)
	}
	if p.IsFrag || p.L4Kind != "udp" {
		return evid.Failf("write:not-one-udp-packet", "%s emitted %s (fragment=%v, kind %q)", what, p, p.IsFrag, p.L4Kind)
	}
	if !bytes.Equal(p.Payload, w.payload) {
		return evid.Failf("write:payload", "%s: the emitted payload (%d bytes) differs from the %d bytes written (first difference at %d)", what, len(p.Payload), len(w.payload), firstDiff(p.Payload, w.payload))
	}
	if !bytes.Equal(p.Dst, w.dst) || p.DstPort != w.dport {
		return evid.Failf("write:destination", "%s to %v:%d emitted a packet to %v:%d", what, w.dst, w.dport, p.Dst, p.DstPort)
	}
	if w.sport != 0 && p.SrcPort != w.sport {
		return evid.Failf("write:source-port", "%s from local port %d emitted a packet with source port %d", what, w.sport, p.SrcPort)
	}
	if w.src != nil && !bytes.Equal(p.Src, w.src) {
		return evid.Failf("write:source-address", "%s from local address %v emitted a packet with source %v", what, w.src, p.Src)
	}
	if w.src == nil && !isLocal(w.fam, p.Src) {
		return evid.Failf("write:source-address", "%s emitted a packet whose source %v is not an address of the stack", what, p.Src)
	}
	return nil
}

func firstDiff(a, b []byte) int {
	i := 0
	for i < len(a) && i < len(b) && a[i] == b[i] {
		i++
	}
	return i
}

// sameSource: the address a Read reports designates the sender. A socket of
// the IPv6 family may name an IPv4 sender by its 4 bytes or as ::ffff:a.b.c.d.
func sameSource(net int, got tcpip.FullAddress, d *dgram) bool {
	if got.Port != d.sport {
		return false
	}
	g := []byte(got.Addr)
	if bytes.Equal(g, d.src) {
		return true
	}
	return net == 6 && d.fam == 4 && bytes.Equal(g, mapped(d.src))
}
