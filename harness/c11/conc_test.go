package c11

import (
	"bytes"
	"encoding/json"
	"fmt"
	"runtime"
	"runtime/debug"
	"sync"
	"sync/atomic"
	"testing"
	"time"

	"github.com/brewlin/net-protocol/pkg/waiter"
	tcpip "github.com/brewlin/net-protocol/protocol"
	"pgregory.net/rapid"
	"verifharness/evid"
)

// ConcCase: several goroutines deliver datagrams to one socket while several
// goroutines read from it. The schedule is the Go scheduler's, so the oracle
// is stated over multisets and per-(reader, sender) order:
//   - every Read result is, bytes and source, one datagram that was delivered,
//     and no delivered datagram is returned twice (over all readers);
//   - what one reader gets from one sender is in that sender's sending order;
//   - if everything delivered fits the receive buffer at once, everything is
//     returned;
//   - nothing delivered after Shutdown(read) returned, or after Close, is
//     returned.
type CDgram struct {
	Len  int   `json:"len"`
	Cuts []int `json:"cuts,omitempty"`
}

type ConcCase struct {
	Sock      SockCfg    `json:"sock"`
	Fams      []int      `json:"fams"`      // family of each sender
	Lanes     [][]CDgram `json:"lanes"`     // what each sender sends, in order
	Readers   int        `json:"readers"`   // 2..4
	Late      int        `json:"late"`      // datagrams delivered after Shutdown(read)
	LateClose int        `json:"lateclose"` // datagrams delivered after Close
	Chunk     int        `json:"chunk"`
	Hold      bool       `json:"hold"` // the readers only start when everything was delivered (receive buffer under pressure)
	Reps      int        `json:"reps"`
}

type readRes struct {
	data []byte
	from tcpip.FullAddress
}

func runConc(c ConcCase) *evid.Failure {
	reps := c.Reps
	if reps < 1 {
		reps = 1
	}
	if reps > 20 {
		reps = 20
	}
	for r := 0; r < reps; r++ {
		if f := runConcOnce(c); f != nil {
			return f
		}
	}
	return nil
}

func runConcOnce(c ConcCase) *evid.Failure {
	if len(c.Lanes) == 0 || c.Sock.Bind == 0 {
		return nil
	}
	readers := c.Readers
	if readers < 1 {
		readers = 1
	}
	if readers > 8 {
		readers = 8
	}
	h := &hist{w: newWorld(1500)}
	defer h.w.close()
	s := h.open(c.Sock)
	if s.dead || !s.bound {
		evid.Label("conc:no-socket")
		return nil
	}
	defer func() {
		if !s.closed {
			s.sk.EP.Close()
		}
	}()
	// the datagrams of every lane; lane i sends from senders(fam)[i%3], port 5000+i
	type lane struct {
		fam  int
		ds   []*dgram
		cuts [][]int
	}
	lanes := make([]*lane, len(c.Lanes))
	serial := 0
	total := 0
	expectAny := false
	for i, l := range c.Lanes {
		fam := 4
		if i < len(c.Fams) && c.Fams[i] == 6 {
			fam = 6
		}
		ln := &lane{fam: fam}
		for _, cd := range l {
			serial++
			n := cd.Len
			if n < 0 {
				n = 0
			}
			if n > maxPayload4 {
				n = maxPayload4
			}
			d := &dgram{serial: serial, fam: fam, src: senders(fam)[i%3], sport: uint16(5000 + i), dport: s.port, data: pattern(uint32(serial), n)}
			d.dst = s.laddr
			if d.dst == nil || s.lfam != fam {
				d.dst = locals(fam)[0]
			}
			if s.takes(d) {
				expectAny = true
				total += n
			}
			ln.ds = append(ln.ds, d)
			ln.cuts = append(ln.cuts, cd.Cuts)
		}
		lanes[i] = ln
	}
	mustAll := total < rcvBuf // then every arrival finds room, whatever the schedule
	var injDone int32
	var wg, rwg sync.WaitGroup
	var pmu sync.Mutex
	var panicked *evid.Failure
	guard := func(who string) {
		if r := recover(); r != nil {
			pmu.Lock()
			if panicked == nil {
				panicked = evid.Failf("conc:panic", "%s panicked: %v\n%s", who, r, debug.Stack())
			}
			pmu.Unlock()
		}
	}
	results := make([][]readRes, readers)
	startReaders := make(chan struct{})
	sendersDone := make(chan struct{})
	if !c.Hold {
		close(startReaders)
	}
	for r := 0; r < readers; r++ {
		rwg.Add(1)
		go func(r int) {
			defer rwg.Done()
			defer guard("reader")
			<-startReaders
			// poll a few times, then sleep until the socket signals data
			// (or 1 ms passed, or the senders are done): notifications are
			// not part of the property, so they are never relied upon
			we, ch := waiter.NewChannelEntry(nil)
			s.sk.WQ.EventRegister(&we, waiter.EventIn)
			defer s.sk.WQ.EventUnregister(&we)
			idle := 0
			for {
				fin := atomic.LoadInt32(&injDone) == 1
				var from tcpip.FullAddress
				v, _, err := s.sk.EP.Read(&from)
				if err == nil {
					results[r] = append(results[r], readRes{append([]byte(nil), v...), from})
					idle = 0
					continue
				}
				if fin {
					return
				}
				if idle++; idle < 8 {
					runtime.Gosched()
					continue
				}
				tm := time.NewTimer(time.Millisecond)
				select {
				case <-ch:
				case <-sendersDone:
				case <-tm.C:
				}
				tm.Stop()
			}
		}(r)
	}
	for _, ln := range lanes {
		wg.Add(1)
		go func(ln *lane) {
			defer wg.Done()
			defer guard("sender")
			for k, d := range ln.ds {
				h.w.inject(d, ln.cuts[k], nil, c.Chunk)
				if k%3 == 2 {
					runtime.Gosched()
				}
			}
		}(ln)
	}
	wg.Wait()
	atomic.StoreInt32(&injDone, 1)
	close(sendersDone)
	if c.Hold {
		close(startReaders)
	}
	rwg.Wait()
	if panicked != nil {
		return panicked
	}

	// judge what the readers got
	type key struct {
		lane int
		idx  int
	}
	find := func(rr readRes, lane int, from int) int {
		ds := lanes[lane].ds
		for i := from; i < len(ds); i++ {
			if bytes.Equal(ds[i].data, rr.data) {
				return i
			}
		}
		return -1
	}
	type shortKey struct {
		lane int
		data string
	}
	claimed := map[key]int{}
	shortGot := map[shortKey]int{}
	nread := 0
	for r, rs := range results {
		cursor := make([]int, len(lanes))
		for _, rr := range rs {
			nread++
			li := -1
			for i, ln := range lanes {
				if len(ln.ds) > 0 && sameSource(c.Sock.Net, rr.from, ln.ds[0]) {
					li = i
				}
			}
			if li < 0 {
				return evid.Failf("conc:wrong-source", "reader %d got %d bytes from %v:%d, which is no sender of this case", r, len(rr.data), []byte(rr.from.Addr), rr.from.Port)
			}
			if !s.takes(lanes[li].ds[0]) {
				return evid.Failf("conc:not-sent-to-socket", "reader %d got %d bytes from %v:%d, whose datagrams were not sent to this socket", r, len(rr.data), []byte(rr.from.Addr), rr.from.Port)
			}
			if len(rr.data) < 4 {
				// too short to carry a serial: judged as a multiset (no more
				// returns of these bytes from this sender than were sent)
				sk := shortKey{li, string(rr.data)}
				shortGot[sk]++
				sent := 0
				for _, d := range lanes[li].ds {
					if bytes.Equal(d.data, rr.data) {
						sent++
					}
				}
				if sent == 0 {
					return evid.Failf("conc:unknown-bytes", "reader %d got %d bytes from %v:%d that are no datagram of that sender (split, merged or truncated?)", r, len(rr.data), []byte(rr.from.Addr), rr.from.Port)
				}
				if shortGot[sk] > sent {
					return evid.Failf("conc:duplicate", "the readers got a %d-byte datagram of sender %d %d times, it was sent %d times", len(rr.data), li, shortGot[sk], sent)
				}
				continue
			}
			idx := find(rr, li, 0)
			if idx < 0 {
				for oi := range lanes {
					if j := find(rr, oi, 0); j >= 0 {
						return evid.Failf("conc:wrong-source", "reader %d got the bytes of %s reported as coming from %v:%d", r, lanes[oi].ds[j], []byte(rr.from.Addr), rr.from.Port)
					}
				}
				return evid.Failf("conc:unknown-bytes", "reader %d got %d bytes from %v:%d that are no datagram of that sender (split, merged or truncated?)", r, len(rr.data), []byte(rr.from.Addr), rr.from.Port)
			}
			if who, dup := claimed[key{li, idx}]; dup {
				return evid.Failf("conc:duplicate", "datagram %s was returned to reader %d and to reader %d", lanes[li].ds[idx], who, r)
			}
			if idx < cursor[li] {
				return evid.Failf("conc:reordered", "reader %d got datagram %s of sender %d after datagram %s which that sender sent later", r, lanes[li].ds[idx], li, lanes[li].ds[cursor[li]-1])
			}
			claimed[key{li, idx}] = r
			cursor[li] = idx + 1
		}
	}
	want := 0
	for _, ln := range lanes {
		if len(ln.ds) > 0 && s.takes(ln.ds[0]) {
			want += len(ln.ds)
		}
	}
	if mustAll && nread != want {
		for li, ln := range lanes {
			if len(ln.ds) == 0 || !s.takes(ln.ds[0]) {
				continue
			}
			for i, d := range ln.ds {
				if _, ok := claimed[key{li, i}]; !ok && len(d.data) >= 4 {
					return evid.Failf("conc:lost", "all %d datagrams (%d bytes) fit the receive buffer together, but %s was never returned (%d of %d were)", want, total, d, nread, want)
				}
			}
		}
		return evid.Failf("conc:lost", "all %d datagrams (%d bytes) fit the receive buffer together, but only %d were returned (datagrams shorter than 4 bytes are missing)", want, total, nread)
	}
	if mustAll {
		evid.Label("conc:all-fit")
	} else {
		evid.Label("conc:pressure")
		if c.Hold {
			evid.Label("conc:pressure-readers-held")
		}
		evid.LabelN("conc:pressure-returned", int64(nread))
		evid.LabelN("conc:pressure-sent", int64(want))
	}
	used := 0
	for _, rs := range results {
		if len(rs) > 0 {
			used++
		}
	}
	evid.Label(fmt.Sprintf("conc:readers-that-got-something=%d", used))

	// read side closed: later arrivals must not be returned
	lateSrc := senders(4)[2]
	lateFam := 4
	if s.cfg.Net == 6 && (s.cfg.V6Only || s.cfg.Bind == 2) {
		lateFam, lateSrc = 6, senders(6)[2]
	}
	mk := func(n int, sport uint16) *dgram {
		serial++
		d := &dgram{serial: serial, fam: lateFam, src: lateSrc, sport: sport, dport: s.port, data: pattern(uint32(serial), 16+n)}
		d.dst = s.laddr
		if d.dst == nil {
			d.dst = locals(lateFam)[0]
		}
		return d
	}
	if c.Late > 0 {
		if e := s.sk.EP.Shutdown(tcpip.ShutdownRead); e == nil {
			for i := 0; i < c.Late && i < 8; i++ {
				h.w.inject(mk(i, 6000), nil, nil, 0)
			}
			var from tcpip.FullAddress
			if v, _, err := s.sk.EP.Read(&from); err == nil {
				return evid.Failf("conc:after-shutdown", "Read returned %d bytes from %v:%d that arrived after Shutdown(read)", len(v), []byte(from.Addr), from.Port)
			}
			evid.Label("conc:late-after-shutdown")
		}
	}
	if c.LateClose > 0 {
		s.sk.EP.Close()
		s.closed = true
		for i := 0; i < c.LateClose && i < 8; i++ {
			h.w.inject(mk(i, 6001), nil, nil, 0)
		}
		var from tcpip.FullAddress
		if v, _, err := s.sk.EP.Read(&from); err == nil {
			return evid.Failf("conc:after-close", "Read returned %d bytes after Close", len(v))
		}
		evid.Label("conc:late-after-close")
	}
	if expectAny && len(lanes) >= 2 {
		b, _ := json.Marshal(c)
		evid.NonTrivialKey("conc", b)
		evid.Sample("conc", c)
	}
	return nil
}

func genConc(rt *rapid.T) ConcCase {
	c := ConcCase{Readers: rapid.IntRange(2, 4).Draw(rt, "readers"), Reps: 3}
	c.Sock = SockCfg{Net: rapid.SampledFrom([]int{4, 6, 6}).Draw(rt, "net"), Port: 1000}
	c.Sock.Bind = rapid.SampledFrom([]int{1, 1, 2}).Draw(rt, "bind")
	c.Sock.Addr = rapid.IntRange(0, 1).Draw(rt, "addr")
	if c.Sock.Net == 6 && rapid.IntRange(0, 4).Draw(rt, "v6only") == 4 {
		c.Sock.V6Only = true
	}
	nl := rapid.IntRange(1, 4).Draw(rt, "lanes")
	small := rapid.Bool().Draw(rt, "small") // everything fits the buffer: loss is then a violation
	budget := rcvBuf - 1
	for i := 0; i < nl; i++ {
		fam := 4
		switch {
		case c.Sock.Net == 6 && (c.Sock.V6Only || c.Sock.Bind == 2):
			fam = 6
		case c.Sock.Net == 6:
			fam = rapid.SampledFrom([]int{4, 6}).Draw(rt, "fam")
		}
		if rapid.IntRange(0, 11).Draw(rt, "stray") == 0 {
			fam = 10 - fam // a sender of the other family (may or may not be listened to)
		}
		c.Fams = append(c.Fams, fam)
		n := rapid.IntRange(1, 30).Draw(rt, "n")
		var lane []CDgram
		for k := 0; k < n; k++ {
			var l int
			switch rapid.IntRange(0, 5).Draw(rt, "lc") {
			case 0:
				l = rapid.IntRange(0, 3).Draw(rt, "len")
			case 1, 2:
				l = rapid.IntRange(4, 200).Draw(rt, "len")
			case 3:
				l = rapid.IntRange(1000, 3000).Draw(rt, "len")
			case 4:
				l = rapid.IntRange(0, 12000).Draw(rt, "len")
			default:
				l = rapid.SampledFrom([]int{4096, 8192, 16384, 1472, 1473}).Draw(rt, "len")
			}
			if small {
				if l > budget {
					l = budget
				}
				budget -= l
			}
			cd := CDgram{Len: l}
			if fam == 4 && l > 8 && rapid.IntRange(0, 4).Draw(rt, "frag") == 0 {
				cd.Cuts, _ = genCuts(rt, 8+l)
			}
			lane = append(lane, cd)
		}
		c.Lanes = append(c.Lanes, lane)
	}
	c.Late = rapid.IntRange(0, 2).Draw(rt, "late")
	c.LateClose = rapid.IntRange(0, 2).Draw(rt, "lateclose")
	c.Chunk = rapid.SampledFrom([]int{0, 1, 700}).Draw(rt, "chunk")
	c.Hold = rapid.IntRange(0, 3).Draw(rt, "hold") == 3
	return c
}

func TestConc(t *testing.T) {
	evid.Run(t, evid.Spec[ConcCase]{Name: "conc", Gen: genConc, Run: runConc})
}
