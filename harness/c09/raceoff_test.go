//go:build !race

package c09

const raceEnabled = false

func raceErrors() int { return 0 }
