package c09

import (
	"fmt"
	"sort"
	"strings"

	tcpip "github.com/brewlin/net-protocol/protocol"
)

// ---------------------------------------------------------------------------
// Reference model, written from the property statement.
//
//   * An inbound packet is processed only if its destination address is
//     currently assigned to the receiving interface, or the interface is
//     promiscuous, or one of the interface's subnets contains the address.
//   * Among the open sockets of the packet's transport protocol that match its
//     addresses and ports, the most specific one receives it:
//       rank 0  connected, specific local address   (exact 4-tuple)
//       rank 1  connected, wildcard local address
//       rank 2  not connected, specific local address
//       rank 3  not connected, wildcard local address
//     ("a connected socket before a listener or bound socket, a specific local
//     address before the wildcard").
//   * Nobody else receives it; with no match nothing is delivered (TCP: reset).
//
// A socket's identity is what the API reported after the operation succeeded
// (GetLocalAddress / GetRemoteAddress, including the interface id they report:
// a socket that reports interface n only matches packets received on n).
// An IPv6 socket whose local address is the wildcard and that did not set
// V6Only also serves IPv4 (RFC 3493 section 5.3); otherwise the address family
// of the identity decides.

const (
	kUDP = iota
	kListener
	kConn
	kRaw
)

const (
	net4 = 1
	net6 = 2
)

type ident struct {
	Trans int
	NIC   int   // 0: any interface
	Nets  uint8 // net4 | net6: families the identity is reachable through
	LA    tcpip.Address
	LP    uint16
	RA    tcpip.Address
	RP    uint16
}

func (i ident) connected() bool { return i.RA != "" || i.RP != 0 }

func (i ident) rank() int {
	switch {
	case i.connected() && i.LA != "":
		return 0
	case i.connected():
		return 1
	case i.LA != "":
		return 2
	}
	return 3
}

func (i ident) String() string {
	la, ra := "*", "*"
	if i.LA != "" {
		la = i.LA.String()
	}
	if i.connected() {
		ra = fmt.Sprintf("%s:%d", i.RA, i.RP)
	}
	tr := "udp"
	if i.Trans == transTCP {
		tr = "tcp"
	}
	return fmt.Sprintf("%s nic%d nets%d %s:%d<-%s", tr, i.NIC, i.Nets, la, i.LP, ra)
}

// matches reports whether a packet of transport trans received on interface
// nic with 4-tuple t is addressed to the identity.
func (i ident) matches(trans, nic int, t tuple) bool {
	if i.Trans != trans || i.LP != t.DPort {
		return false
	}
	if i.NIC != 0 && i.NIC != nic {
		return false
	}
	fam := uint8(net4)
	if isV6(t.Dst) {
		fam = net6
	}
	if i.Nets&fam == 0 {
		return false
	}
	if i.LA != "" && i.LA != t.Dst {
		return false
	}
	if i.connected() && (i.RA != t.Src || i.RP != t.SPort) {
		return false
	}
	return true
}

// effNets: the families through which the identity can be reached at all: an
// identity that names an address is only reachable through that address's family.
func (i ident) effNets() uint8 {
	n := i.Nets
	for _, a := range []tcpip.Address{i.LA, i.RA} {
		switch len(a) {
		case 4:
			n &= net4
		case 16:
			n &= net6
		}
	}
	return n
}

// sameTable reports whether two identities would occupy the same slot: equal
// 4-tuple, same transport, same interface scope, a family in common.
func (i ident) sameSlot(o ident) bool {
	return i.Trans == o.Trans && i.NIC == o.NIC && i.effNets()&o.effNets() != 0 && i.LA == o.LA && i.LP == o.LP && i.RA == o.RA && i.RP == o.RP
}

type ifState struct {
	assigned map[tcpip.Address]bool
	promisc  bool
	subnets  map[int]bool // indices into the subnet pool
}

func contains(sn subnetDef, a tcpip.Address) bool {
	if len(a) != len(sn.ID) {
		return false
	}
	for k := 0; k < len(a); k++ {
		if a[k]&sn.Mask[k] != sn.ID[k] {
			return false
		}
	}
	return true
}

// processed: is a packet for dst, received on the interface, to be processed at all?
func (s *ifState) processed(dst tcpip.Address) (bool, string) {
	if s.assigned[dst] {
		return true, "assigned"
	}
	if s.promisc {
		return true, "promiscuous"
	}
	ids := make([]int, 0, len(s.subnets))
	for k := range s.subnets {
		ids = append(ids, k)
	}
	sort.Ints(ids)
	for _, k := range ids {
		if contains(subnets[k], dst) {
			return true, "subnet"
		}
	}
	return false, "not-owned"
}

// verdict is the model's answer for one packet over a set of identities.
type verdict struct {
	Processed bool
	Via       string
	Best      int // index into the identity list, -1: nobody
	Rank      int
	Levels    int  // number of distinct ranks among the matching identities
	SamePort  bool // some identity of that transport holds the destination port
	// Ambiguous: two matching identities of the best rank (they differ only in
	// interface scope): the statement does not order them.
	Ambiguous bool
	// NICFirst: the best match is registered for all interfaces while a less
	// specific match is registered for the receiving interface.
	NICFirst bool
}

func decide(ifs *ifState, ids []ident, trans, nic int, t tuple) verdict {
	v := verdict{Best: -1, Rank: 99}
	v.Processed, v.Via = ifs.processed(t.Dst)
	ranks := map[int]bool{}
	for k, id := range ids {
		if id.Trans == trans && id.LP == t.DPort {
			v.SamePort = true
		}
		if !id.matches(trans, nic, t) {
			continue
		}
		r := id.rank()
		ranks[r] = true
		switch {
		case r < v.Rank:
			v.Best, v.Rank, v.Ambiguous = k, r, false
		case r == v.Rank:
			v.Ambiguous = true
		}
	}
	v.Levels = len(ranks)
	if v.Best >= 0 && ids[v.Best].NIC == 0 {
		for _, id := range ids {
			if id.NIC == nic && id.matches(trans, nic, t) && id.rank() > v.Rank {
				v.NICFirst = true
			}
		}
	}
	return v
}

// canon renders a set of identities canonically (for distinct-case hashing).
func canon(ids []ident) string {
	s := make([]string, 0, len(ids))
	for _, id := range ids {
		s = append(s, id.String())
	}
	sort.Strings(s)
	return strings.Join(s, ";")
}
