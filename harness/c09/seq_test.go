package c09

import (
	"bytes"
	"fmt"
	"testing"
	"time"

	"github.com/brewlin/net-protocol/pkg/waiter"
	tcpip "github.com/brewlin/net-protocol/protocol"
	"github.com/brewlin/net-protocol/protocol/network/ipv4"
	"github.com/brewlin/net-protocol/protocol/network/ipv6"
	"github.com/brewlin/net-protocol/protocol/transport/tcp"
	"github.com/brewlin/net-protocol/protocol/transport/udp"
	"github.com/brewlin/net-protocol/stack"
	"pgregory.net/rapid"
	"verifharness/codec"
	"verifharness/evid"
	"verifharness/netsim"
	"verifharness/rawpeer"
)

// ---------------------------------------------------------------------------
// Sequential variant: a history of socket / address / interface operations
// with injections in between; after every injection the whole world is looked
// at (every socket is read, the wire is inspected).

const (
	opInject = iota
	opUDPBind
	opUDPConnect
	opTCPListen
	opTCPActive
	opRawReg
	opClose
	opAddAddr
	opRemoveAddr
	opPromisc
	opSubnet
	opSpoof
	nOps
)

var opNames = [nOps]string{"inject", "udp-bind", "udp-connect", "tcp-listen", "tcp-active", "raw-register", "close", "add-addr", "remove-addr", "promiscuous", "subnet", "spoofing"}

// Step is one operation. Fields that an operation does not use are ignored.
// Every index is reduced modulo its pool, so any file is a runnable case.
type Step struct {
	Op     int  `json:"op"`
	Trans  int  `json:"tr,omitempty"`     // 17 UDP, 6 TCP
	V6     bool `json:"v6,omitempty"`     // socket family
	V6Only bool `json:"v6only,omitempty"` // IPv6 socket: V6Only option
	Addr   int  `json:"a"`                // local address pool index; -1: wildcard
	Port   int  `json:"p"`                // local port pool index
	RAddr  int  `json:"ra"`               // remote address pool index
	RPort  int  `json:"rp"`               // remote port pool index
	Ref    int  `json:"ref"`              // reference to an open socket (-1 none), modulo the number of open sockets
	NIC    int  `json:"nic"`              // interface (inject: receiving interface when not the home of the destination)
	Shape  int  `json:"shape,omitempty"`  // raw: 0 exact 4-tuple, 1 connected with wildcard local address, 2 local address+port, 3 port only
	Nets   int  `json:"nets,omitempty"`   // raw: 1 IPv4, 2 IPv6, 3 both
	Mut    int  `json:"mut,omitempty"`    // which fields of the referenced socket's identity are replaced by the pool draws: 1 local addr, 2 local port, 4 remote addr, 8 remote port, 16 receive on interface NIC instead of the home interface, 32 keep own transport
	On     bool `json:"on,omitempty"`     // promiscuous on/off, subnet add/remove
	Sub    int  `json:"sub,omitempty"`    // subnet pool index
	Bind   int  `json:"bind,omitempty"`   // active open: 0 unbound, 1 wildcard + port, 2 address + port
	RFam   int  `json:"rfam,omitempty"`   // udp-connect: peer 0 of the socket's family, 1 IPv4-mapped (IPv6 sockets), 2 plain address of the other family
	Former bool `json:"former,omitempty"` // Ref selects a FORMER identity (of a closed or re-connected socket) instead of an open socket
	Mapped bool `json:"mapped,omitempty"` // udp-bind of a dual-stack IPv6 socket: the address is given in IPv4-mapped form (::ffff:a.b.c.d, or ::ffff:0.0.0.0 for the IPv4 wildcard): the binding is an IPv4 one
	Rst    int  `json:"rst,omitempty"`    // TCP inject on a 4-tuple without a connection: 1 the segment is a RST, 2 a RST|ACK (never answered, opens nothing)
}

type SeqCase struct {
	NICs  int    `json:"nics"`
	Init  []int  `json:"init"` // initially assigned addresses (pool indices < 5)
	Steps []Step `json:"steps"`
}

func mod(i, n int) int {
	i %= n
	if i < 0 {
		i += n
	}
	return i
}

// msock is a socket the model knows to be open.
type msock struct {
	kind    int
	id      ident
	v6      bool
	v6only  bool
	sock    *netsim.Sock
	raw     *rawEP
	rawNets []tcpip.NetworkProtocolNumber
	rawID   stack.TransportEndpointID
	peer    *rawpeer.Peer
	ord     int
	mapped4 bool // bound to ::ffff:0.0.0.0: while it has no address of its own it is an IPv4-only wildcard
}

func (m *msock) String() string {
	return fmt.Sprintf("#%d %s %s", m.ord, [...]string{"udp-socket", "tcp-listener", "tcp-connection", "raw-endpoint"}[m.kind], m.id)
}

const (
	xNothing = iota // not processed: silence
	xRST
	xSynAck
	xConn
	xRaw
	xListenerAny // a non-SYN segment whose best match is a listener: silence or a reset, nothing else
)

type tcpExp struct {
	step   int
	t      tuple
	seq    uint32
	seglen uint32
	kind   int
	rst    int
	synack int
}

func tkey(la tcpip.Address, lp uint16, ra tcpip.Address, rp uint16) string {
	return fmt.Sprintf("%s:%d|%s:%d", la, lp, ra, rp)
}

type seqRun struct {
	w       *world
	ifs     [3]*ifState
	open    []*msock
	allRaw  []*msock
	tainted map[string]bool // TCP 4-tuples whose endpoint may linger after the socket was closed / aborted
	pinned  map[tcpip.Address]bool
	spoofed bool            // address spoofing has been switched on for some interface
	former  []ident         // identities that sockets held and gave up (Close, Connect): nobody holds them now unless re-opened
	peers   map[string]bool // every 4-tuple a handshake was completed (or attempted by the stack) on
	exps    []*tcpExp
	step    int
	ord     int
	anyTCP  bool
	async   bool // a listener or a connection existed: reactions may come late
	hadNT   bool
}

const waitLong = 5 * time.Second

var dbg = false

func fail(sig, format string, a ...any) (*evid.Failure, bool) {
	return evid.Failf(sig, format, a...), false
}
func slow(sig, format string, a ...any) (*evid.Failure, bool) {
	return evid.Failf(sig, format, a...), true
}

func (r *seqRun) idents() []ident {
	ids := make([]ident, len(r.open))
	for i, m := range r.open {
		ids[i] = m.id
	}
	return ids
}

func (r *seqRun) world() string {
	s := ""
	for n := 1; n <= r.w.nics; n++ {
		s += fmt.Sprintf("  interface %d: promiscuous=%v addresses=", n, r.ifs[n].promisc)
		for _, l := range laddrs {
			if r.ifs[n].assigned[l.A] {
				s += l.A.String() + " "
			}
		}
		s += "subnets="
		for k := range subnets {
			if r.ifs[n].subnets[k] {
				s += fmt.Sprintf("%s/%s ", subnets[k].ID, subnets[k].Mask)
			}
		}
		s += "\n"
	}
	for _, m := range r.open {
		s += "  " + m.String() + "\n"
	}
	return s
}

// identOf reads the identity of a real socket back from the API.
func identOf(trans int, so *netsim.Sock, v6, v6only bool) (ident, *tcpip.Error) {
	la, err := so.EP.GetLocalAddress()
	if err != nil {
		return ident{}, err
	}
	id := ident{Trans: trans, NIC: int(la.NIC), LA: la.Addr, LP: la.Port}
	if ra, err := so.EP.GetRemoteAddress(); err == nil {
		id.RA, id.RP = ra.Addr, ra.Port
	}
	switch {
	case id.LA != "" || id.connected():
		id.Nets = net4 | net6 // the addresses of the identity decide
	case !v6:
		id.Nets = net4
	case v6only:
		id.Nets = net6
	default:
		id.Nets = net4 | net6
	}
	return id, nil
}

// adopt adds a successfully opened socket to the model (or refreshes it).
func (r *seqRun) adopt(m *msock, id ident) *evid.Failure {
	for _, o := range r.open {
		if o != m && o.id.sameSlot(id) {
			return evid.Failf("duplicate-identity-accepted", "step %d: the operation succeeded and the socket now has identity [%s], which open socket %s already holds; the single addressee of a packet is no longer defined\n%s", r.step, id, o, r.world())
		}
	}
	if r.isOpen(m) && m.id != id {
		r.remember(m.id)
	}
	m.id = id
	if m.kind != kRaw && id.connected() && id.LA != "" {
		r.pinned[id.LA] = true
	}
	for _, o := range r.open {
		if o == m {
			return nil
		}
	}
	if m.kind == kListener || m.kind == kConn {
		r.async = true
	}
	r.ord++
	m.ord = r.ord
	r.open = append(r.open, m)
	if m.kind == kRaw {
		r.allRaw = append(r.allRaw, m)
	}
	return nil
}

func (r *seqRun) remember(id ident) {
	r.former = append(r.former, id)
	if len(r.former) > 12 {
		r.former = r.former[1:]
	}
}

func (r *seqRun) drop(m *msock) {
	if r.isOpen(m) {
		r.remember(m.id)
	}
	for i, o := range r.open {
		if o == m {
			r.open = append(r.open[:i:i], r.open[i+1:]...)
			return
		}
	}
}

func netNum(v6 bool) tcpip.NetworkProtocolNumber {
	if v6 {
		return ipv6.ProtocolNumber
	}
	return ipv4.ProtocolNumber
}

func (r *seqRun) localArg(st Step, v6 bool) (tcpip.Address, bool) {
	if st.Addr < 0 {
		return "", true
	}
	a := laddrs[mod(st.Addr, nAssignable)].A
	if isV6(a) != v6 {
		return "", false
	}
	if r.spoofed {
		// with address spoofing enabled a socket operation that names a local address
		// the interface does not own creates a temporary address entry, which the
		// inbound path then serves while a route references it (the mechanism of F22):
		// injections to such an address are excluded by construction
		r.pinned[a] = true
	}
	return a, true
}

func (r *seqRun) remoteArg(st Step, v6 bool) tcpip.Address {
	k := mod(st.RAddr, 2)
	if v6 {
		k += 2
	}
	return raddrs[k]
}

// peerArg is remoteArg for UDP connect, where the peer may also be IPv4-mapped
// (IPv6 socket talking IPv4) or a plain address of the other family.
func (r *seqRun) peerArg(st Step, v6 bool) (tcpip.Address, string) {
	k := mod(st.RAddr, 2)
	switch mod(st.RFam, 3) {
	case 1:
		if v6 {
			return tcpip.Address("\x00\x00\x00\x00\x00\x00\x00\x00\x00\x00\xff\xff") + raddrs[k], "v4-mapped"
		}
	case 2:
		if v6 {
			return raddrs[k], "other-family"
		}
		return raddrs[k+2], "other-family"
	}
	return r.remoteArg(st, v6), "same-family"
}

func (r *seqRun) opUDPBind(st Step) *evid.Failure {
	mapped := st.Mapped && st.V6 && !st.V6Only
	addr, ok := r.localArg(st, st.V6 && !mapped)
	if !ok {
		evid.Label("skip:family-mismatch")
		return nil
	}
	if mapped {
		v4 := addr
		if v4 == "" {
			v4 = "\x00\x00\x00\x00"
		}
		addr = tcpip.Address("\x00\x00\x00\x00\x00\x00\x00\x00\x00\x00\xff\xff") + v4
	}
	so, err := netsim.NewSock(r.w.s, udp.ProtocolNumber, netNum(st.V6))
	if err != nil {
		return nil
	}
	if st.V6 && st.V6Only {
		so.EP.SetSockOpt(tcpip.V6OnlyOption(1))
	}
	port := lports[mod(st.Port, len(lports))]
	rebind := false
	if st.Former && st.Ref >= 0 && len(r.former) > 0 {
		// take the place a socket gave up: its port, and its address if it fits
		f := r.former[mod(st.Ref, len(r.former))]
		if f.Trans == transUDP && f.LP != 0 {
			port, rebind = f.LP, true
			if st.Addr >= 0 && f.LA != "" && isV6(f.LA) == st.V6 {
				addr = f.LA
			}
		}
	}
	if e := so.EP.Bind(tcpip.FullAddress{Addr: addr, Port: port}, nil); e != nil {
		so.EP.Close()
		evid.Label("refused:udp-bind:" + e.String())
		if e == tcpip.ErrPortInUse {
			held := false
			for _, o := range r.open {
				if o.id.Trans == transUDP && o.id.LP == port {
					held = true
				}
			}
			if !held {
				return evid.Failf("closed-socket-still-holds-identity", "step %d: Bind(%v:%d) of a new UDP socket was refused with %v although no open UDP socket or endpoint holds port %d in any form; identities given up earlier: %v\n%s", r.step, addr, port, e, port, r.former, r.world())
			}
		}
		return nil
	}
	id, e := identOf(transUDP, so, st.V6, st.V6 && st.V6Only)
	if e != nil {
		so.EP.Close()
		return nil
	}
	if mapped {
		evid.Label("opened:udp-bound-v4-mapped")
		if id.LA == "" {
			id.Nets = net4 // ::ffff:0.0.0.0 is the IPv4 wildcard only
		}
	}
	evid.Label("opened:udp-bound")
	if rebind {
		evid.Label("udp-bind:takes-over-former-identity")
	}
	return r.adopt(&msock{kind: kUDP, sock: so, v6: st.V6, v6only: st.V6 && st.V6Only, mapped4: mapped && id.LA == ""}, id)
}

func (r *seqRun) opUDPConnect(st Step) *evid.Failure {
	var m *msock
	if st.Ref >= 0 || st.Ref == -2 {
		var c []*msock
		for _, o := range r.open {
			if o.kind == kUDP {
				c = append(c, o)
			}
		}
		if len(c) > 0 && st.Ref == -2 {
			m = c[len(c)-1] // the UDP socket opened last
		} else if len(c) > 0 {
			m = c[mod(st.Ref, len(c))]
		}
	}
	fresh := m == nil
	if fresh {
		so, err := netsim.NewSock(r.w.s, udp.ProtocolNumber, netNum(st.V6))
		if err != nil {
			return nil
		}
		if st.V6 && st.V6Only {
			so.EP.SetSockOpt(tcpip.V6OnlyOption(1))
		}
		m = &msock{kind: kUDP, sock: so, v6: st.V6, v6only: st.V6 && st.V6Only}
	}
	peer, fam := r.peerArg(st, m.v6)
	nic := mod(st.NIC, 3)
	if nic > r.w.nics {
		nic = 0
	}
	was := m.id
	e := m.sock.EP.Connect(tcpip.FullAddress{NIC: tcpip.NICID(nic), Addr: peer, Port: rports[mod(st.RPort, len(rports))]})
	if e != nil {
		evid.Label("refused:udp-connect:" + e.String())
		if fresh {
			m.sock.EP.Close()
			return nil
		}
	} else {
		evid.Label("opened:udp-connected")
		cls := "udp-connect:" + fam
		if nic != 0 {
			cls += "+explicit-interface"
		}
		switch {
		case fresh:
			cls += ":unbound"
		case was.connected():
			cls += ":re-connect"
		case was.LA == "" && was.Nets == net4|net6:
			cls += ":dual-stack-wildcard-bound"
		case was.LA == "":
			cls += ":wildcard-bound"
		default:
			cls += ":address-bound"
		}
		evid.Label(cls)
	}
	id, ie := identOf(transUDP, m.sock, m.v6, m.v6only)
	if ie != nil {
		return nil
	}
	if m.mapped4 && id.LA == "" && !id.connected() {
		id.Nets = net4
	}
	return r.adopt(m, id)
}

func (r *seqRun) opTCPListen(st Step) *evid.Failure {
	addr, ok := r.localArg(st, st.V6)
	if !ok {
		evid.Label("skip:family-mismatch")
		return nil
	}
	so, err := netsim.NewSock(r.w.s, tcp.ProtocolNumber, netNum(st.V6))
	if err != nil {
		return nil
	}
	if st.V6 && st.V6Only {
		so.EP.SetSockOpt(tcpip.V6OnlyOption(1))
	}
	if e := so.EP.Bind(tcpip.FullAddress{Addr: addr, Port: lports[mod(st.Port, len(lports))]}, nil); e != nil {
		so.EP.Close()
		evid.Label("refused:tcp-bind:" + e.String())
		return nil
	}
	if e := so.EP.Listen(16); e != nil {
		so.EP.Close()
		evid.Label("refused:tcp-listen:" + e.String())
		return nil
	}
	id, e := identOf(transTCP, so, st.V6, st.V6 && st.V6Only)
	if e != nil {
		so.EP.Close()
		return nil
	}
	r.anyTCP = true
	evid.Label("opened:tcp-listener")
	return r.adopt(&msock{kind: kListener, sock: so, v6: st.V6, v6only: st.V6 && st.V6Only}, id)
}

func (r *seqRun) tapLens() [3]int {
	var l [3]int
	for n := 1; n <= r.w.nics; n++ {
		l[n] = r.w.taps[n].Len()
	}
	return l
}

// opTCPActive: the stack connects to a remote address; a scripted peer answers.
func (r *seqRun) opTCPActive(st Step) *evid.Failure {
	so, err := netsim.NewSock(r.w.s, tcp.ProtocolNumber, netNum(st.V6))
	if err != nil {
		return nil
	}
	remote, rport := r.remoteArg(st, st.V6), rports[mod(st.RPort, len(rports))]
	if st.Bind != 0 {
		addr := tcpip.Address("")
		if st.Bind == 2 {
			if a, ok := r.localArg(st, st.V6); ok {
				addr = a
			}
		}
		port := lports[mod(st.Port, len(lports))]
		for _, l := range laddrs {
			if r.tainted[tkey(l.A, port, remote, rport)] {
				so.EP.Close()
				evid.Label("skip:active-open-on-lingering-tuple")
				return nil
			}
		}
		if e := so.EP.Bind(tcpip.FullAddress{Addr: addr, Port: port}, nil); e != nil {
			so.EP.Close()
			evid.Label("refused:tcp-bind:" + e.String())
			return nil
		}
	}
	before := r.tapLens()
	we, ch := waiter.NewChannelEntry(nil)
	so.WQ.EventRegister(&we, waiter.EventOut)
	defer so.WQ.EventUnregister(&we)
	if e := so.EP.Connect(tcpip.FullAddress{Addr: remote, Port: rport}); e != tcpip.ErrConnectStarted {
		so.EP.Close()
		evid.Label("refused:tcp-connect:" + fmt.Sprint(e))
		return nil
	}
	r.anyTCP, r.async = true, true
	la, _ := so.EP.GetLocalAddress()
	key := tkey(la.Addr, la.Port, remote, rport)
	nic := homeOf(la.Addr)
	if nic == 0 || nic > r.w.nics || r.tainted[key] || r.peers[key] {
		r.tainted[key] = true
		r.peers[key] = true
		so.EP.Close()
		evid.Label("skip:active-open-unusable-local-end")
		return nil
	}
	r.peers[key] = true
	// The peer's SYN-ACK is an inbound packet like any other: the handshake is
	// only driven when the model says it reaches the connecting socket.
	self := ident{Trans: transTCP, NIC: int(la.NIC), Nets: net4 | net6, LA: la.Addr, LP: la.Port, RA: remote, RP: rport}
	ids := append(r.idents(), self)
	if v := decide(r.ifs[nic], ids, transTCP, nic, tuple{Src: remote, SPort: rport, Dst: la.Addr, DPort: la.Port}); !v.Processed || v.Best != len(ids)-1 || v.Ambiguous || v.NICFirst {
		r.tainted[key] = true
		so.EP.Close()
		evid.Label("skip:active-open-reply-not-addressed-to-socket")
		return nil
	}
	p := rawpeer.NewPeerFor(r.w.taps[nic], st.V6, la.Addr, remote, la.Port, rport, 0x20000000+uint32(r.step)<<16)
	p.Cur = before[nic]
	okHS := p.AcceptActive(rawpeer.SynOpts{MSS: 1460, WS: -1}, waitLong)
	if okHS {
		select {
		case <-ch:
		case <-time.After(waitLong):
			okHS = false
		}
	}
	if !okHS || so.EP.GetSockOpt(tcpip.ErrorOption{}) != nil {
		r.tainted[key] = true
		so.EP.Close()
		evid.Label("inconclusive:active-open-incomplete")
		return nil
	}
	id, e := identOf(transTCP, so, st.V6, false)
	if e != nil || !id.connected() {
		r.tainted[key] = true
		so.EP.Close()
		evid.Label("inconclusive:active-open-incomplete")
		return nil
	}
	evid.Label("opened:tcp-active-connection")
	return r.adopt(&msock{kind: kConn, sock: so, v6: st.V6, peer: p}, id)
}

// mixIdentity builds an identity from the pool draws of the step, with the
// fields of a referenced open socket substituted unless masked by Mut.
func (r *seqRun) mix(st Step, nLocal int) (trans int, la tcpip.Address, lp uint16, ra tcpip.Address, rp uint16) {
	trans = transUDP
	if st.Trans == transTCP {
		trans = transTCP
	}
	la = laddrs[mod(st.Addr, nLocal)].A
	lp = lports[mod(st.Port, len(lports))]
	ra = raddrs[mod(st.RAddr, len(raddrs))]
	rp = rports[mod(st.RPort, len(rports))]
	var tgt *ident
	if st.Ref >= 0 && st.Former && len(r.former) > 0 {
		tgt = &r.former[mod(st.Ref, len(r.former))]
	} else if st.Ref >= 0 && len(r.open) > 0 {
		tgt = &r.open[mod(st.Ref, len(r.open))].id
	}
	if tgt != nil {
		t := *tgt
		if st.Mut&32 == 0 {
			trans = t.Trans
		}
		if t.LA != "" && st.Mut&1 == 0 {
			la = t.LA
		}
		if st.Mut&2 == 0 {
			lp = t.LP
		}
		if t.connected() {
			if st.Mut&4 == 0 {
				ra = t.RA
			}
			if st.Mut&8 == 0 {
				rp = t.RP
			}
		}
	}
	if isV6(ra) != isV6(la) {
		k := mod(st.RAddr, 2)
		if isV6(la) {
			k += 2
		}
		ra = raddrs[k]
	}
	return
}

func (r *seqRun) opRawReg(st Step) *evid.Failure {
	trans, la, lp, ra, rp := r.mix(st, len(laddrs))
	switch mod(st.Shape, 4) {
	case 1:
		la = ""
	case 2:
		ra, rp = "", 0
	case 3:
		la, ra, rp = "", "", 0
	}
	nets := mod(st.Nets, 4)
	if nets == 0 {
		nets = 3
	}
	nic := mod(st.NIC, 3)
	if nic > r.w.nics {
		nic = 0
	}
	id := ident{Trans: trans, NIC: nic, Nets: uint8(nets), LA: la, LP: lp, RA: ra, RP: rp}
	if trans == transTCP && id.rank() == 0 && (r.tainted[tkey(la, lp, ra, rp)] || r.peers[tkey(la, lp, ra, rp)]) {
		evid.Label("skip:raw-on-connection-tuple")
		return nil
	}
	var np []tcpip.NetworkProtocolNumber
	if nets&net4 != 0 {
		np = append(np, ipv4.ProtocolNumber)
	}
	if nets&net6 != 0 {
		np = append(np, ipv6.ProtocolNumber)
	}
	// dup: an open identity occupies one of the tables this registration goes
	// into (for raw endpoints the tables are known: Nets as registered)
	dup := false
	for _, o := range r.open {
		if o.id.sameSlot(id) {
			dup = true
		}
		if o.kind == kRaw && o.id.Nets&id.Nets != 0 && o.id.Trans == id.Trans && o.id.NIC == id.NIC && o.id.LA == id.LA && o.id.LP == id.LP && o.id.RA == id.RA && o.id.RP == id.RP {
			dup = true
		}
	}
	tp := tcpip.TransportProtocolNumber(udp.ProtocolNumber)
	if trans == transTCP {
		tp = tcp.ProtocolNumber
	}
	sid := stack.TransportEndpointID{LocalPort: lp, LocalAddress: la, RemotePort: rp, RemoteAddress: ra}
	ep := &rawEP{}
	e := r.w.s.RegisterTransportEndpoint(tcpip.NICID(nic), np, tp, sid, ep)
	if e != nil {
		// a refused endpoint must stay silent for the rest of the case
		r.allRaw = append(r.allRaw, &msock{kind: kRaw, raw: ep, id: id, ord: -1})
		if dup {
			evid.Label("refused:raw-duplicate")
		} else {
			evid.Label("refused:raw-without-duplicate:" + e.String())
			evid.Note("a raw registration of [%s] was refused (%v) although the model holds no equal identity", id, e)
		}
		return nil
	}
	evid.Label(fmt.Sprintf("opened:raw-rank%d", id.rank()))
	return r.adopt(&msock{kind: kRaw, raw: ep, rawNets: np, rawID: sid, v6: isV6(la)}, id)
}

func (r *seqRun) send(nic int, proto tcpip.NetworkProtocolNumber, b []byte) {
	r.w.taps[nic].Inject(proto, b)
}

func (r *seqRun) closeSock(m *msock) {
	switch m.kind {
	case kUDP, kListener:
		m.sock.EP.Close()
	case kConn:
		k := tkey(m.id.LA, m.id.LP, m.id.RA, m.id.RP)
		r.tainted[k] = true
		// Abort the connection with a reset from the peer first, so that nothing
		// lingers in FIN-WAIT and keeps talking. The reset is itself an inbound
		// packet: it is only sent when the model says it reaches this connection.
		p := m.peer
		nic := 1
		for n := 1; n <= r.w.nics; n++ {
			if r.w.taps[n] == p.Tap {
				nic = n
			}
		}
		t := tuple{Src: m.id.RA, SPort: m.id.RP, Dst: m.id.LA, DPort: m.id.LP}
		v := decide(r.ifs[nic], r.idents(), transTCP, nic, t)
		if v.Processed && v.Best >= 0 && r.open[v.Best] == m && !v.Ambiguous && !v.NICFirst {
			proto, b := buildTCP(t, codec.TCPSeg{Seq: p.SndNxt, Flags: codec.RST, Wnd: 0}, 0xfff0)
			p.Tap.Inject(proto, b)
		} else {
			evid.Label("closed:tcp-connection-left-lingering")
		}
		m.sock.EP.Close()
	case kRaw:
		tp := tcpip.TransportProtocolNumber(udp.ProtocolNumber)
		if m.id.Trans == transTCP {
			tp = tcp.ProtocolNumber
		}
		r.w.s.UnregisterTransportEndpoint(tcpip.NICID(m.id.NIC), m.rawNets, tp, m.rawID)
	}
	r.drop(m)
}

func (r *seqRun) opAddr(st Step, add bool) {
	l := laddrs[mod(st.Addr, nAssignable)]
	if l.Home > r.w.nics {
		evid.Label("skip:address-of-absent-interface")
		return
	}
	if add {
		if e := r.w.s.AddAddress(tcpip.NICID(l.Home), netOf(l.A), l.A); e != nil {
			evid.Label("refused:add-address:" + e.String())
			return
		}
		r.ifs[l.Home].assigned[l.A] = true
		evid.Label("done:add-address")
		return
	}
	if e := r.w.s.RemoveAddress(tcpip.NICID(l.Home), l.A); e != nil {
		evid.Label("refused:remove-address:" + e.String())
		return
	}
	delete(r.ifs[l.Home].assigned, l.A)
	evid.Label("done:remove-address")
}

func (r *seqRun) nicArg(st Step) int {
	n := mod(st.NIC-1, 2) + 1
	if n > r.w.nics {
		n = 1
	}
	return n
}

func (r *seqRun) opSubnet(st Step) {
	n := r.nicArg(st)
	k := mod(st.Sub, len(subnets))
	sn, err := tcpip.NewSubnet(subnets[k].ID, tcpip.AddressMask(subnets[k].Mask))
	if err != nil {
		panic(err)
	}
	if st.On {
		if r.w.s.AddSubnet(tcpip.NICID(n), netOf(subnets[k].ID), sn) == nil {
			r.ifs[n].subnets[k] = true
			evid.Label("done:add-subnet")
		}
		return
	}
	if r.w.s.RemoveSubnet(tcpip.NICID(n), sn) == nil {
		delete(r.ifs[n].subnets, k)
		evid.Label("done:remove-subnet")
	}
}

// ---------------------------------------------------------------------------
// Injection and observation.

// checkRaw: exactly the expected raw endpoint (if any) saw exactly this packet.
func (r *seqRun) checkRaw(want *msock, trans, nic int, t tuple, seq uint32, payload []byte, desc string) *evid.Failure {
	for _, m := range r.allRaw {
		recs := m.raw.take()
		if m == want {
			if len(recs) != 1 {
				return evid.Failf("not-delivered-to-addressee", "step %d: %s: the most specific match %s received %d packets, expected exactly this one\n%s", r.step, desc, m, len(recs), r.world())
			}
			rc := recs[0]
			sp, dp, sq, _, pl, ok := parseL4(trans, rc.L4)
			if !ok || sp != t.SPort || dp != t.DPort || (trans == transTCP && sq != seq) || !bytes.Equal(pl, payload) {
				return evid.Failf("wrong-packet-delivered", "step %d: %s: %s was handed a different packet (ports %d>%d seq %d payload %q)", r.step, desc, m, sp, dp, sq, pl)
			}
			if rc.ID.LocalAddress != t.Dst || rc.ID.LocalPort != t.DPort || rc.ID.RemoteAddress != t.Src || rc.ID.RemotePort != t.SPort || rc.NIC != nic {
				return evid.Failf("wrong-source-reported", "step %d: %s: %s was handed the packet with identity %+v from interface %d", r.step, desc, m, rc.ID, rc.NIC)
			}
			continue
		}
		if len(recs) != 0 {
			return evid.Failf("delivered-to-wrong-socket", "step %d: %s: %s (open=%v) received %d packet(s) it is not the addressee of; expected addressee: %v\n%s", r.step, desc, m, r.isOpen(m), len(recs), want, r.world())
		}
	}
	return nil
}

func (r *seqRun) isOpen(m *msock) bool {
	for _, o := range r.open {
		if o == m {
			return true
		}
	}
	return false
}

func (r *seqRun) injectUDP(nic int, t tuple, v verdict, want *msock, desc string) *evid.Failure {
	payload := []byte(fmt.Sprintf("c09/%03d/%s", r.step, t))
	proto, b := buildUDP(t, payload, uint16(r.step))
	r.send(nic, proto, b)
	for _, m := range r.open {
		if m.kind != kUDP {
			continue
		}
		var from tcpip.FullAddress
		got, _, e := m.sock.EP.Read(&from)
		if m == want {
			if e != nil {
				return evid.Failf("not-delivered-to-addressee", "step %d: %s: the most specific match %s returned %v from Read\n%s", r.step, desc, m, e, r.world())
			}
			if !bytes.Equal(got, payload) {
				return evid.Failf("wrong-packet-delivered", "step %d: %s: %s read %q, injected %q", r.step, desc, m, got, payload)
			}
			if !sameAddr(from.Addr, t.Src) || from.Port != t.SPort || int(from.NIC) != nic {
				return evid.Failf("wrong-source-reported", "step %d: %s: %s reports sender %v:%d on interface %d", r.step, desc, m, from.Addr, from.Port, from.NIC)
			}
			if _, _, e2 := m.sock.EP.Read(nil); e2 != tcpip.ErrWouldBlock {
				return evid.Failf("delivered-twice", "step %d: %s: %s has a second datagram queued (Read: %v)", r.step, desc, m, e2)
			}
			continue
		}
		if e != tcpip.ErrWouldBlock {
			return evid.Failf("delivered-to-wrong-socket", "step %d: %s: %s is not the addressee but Read returned (%q, %v); expected addressee: %v\n%s", r.step, desc, m, got, e, want, r.world())
		}
	}
	var wantRaw *msock
	if want != nil && want.kind == kRaw {
		wantRaw = want
	}
	return r.checkRaw(wantRaw, transUDP, nic, t, 0, payload, desc)
}

func isFlags(k *codec.Packet, set, clear uint8) bool {
	return k.L4Kind == "tcp" && k.Flags&set == set && k.Flags&clear == 0
}

// replyOn looks for a segment from the stack on the reversed 4-tuple.
func (r *seqRun) replyOn(nic, from int, d time.Duration, t tuple, pred func(*codec.Packet) bool) (netsim.Frame, bool) {
	f, _, ok := r.w.taps[nic].Scan(from, d, func(f netsim.Frame) bool {
		k := f.Pkt
		return k.L4Kind == "tcp" && k.SrcPort == t.DPort && k.DstPort == t.SPort && string(k.Src) == string(t.Dst) && string(k.Dst) == string(t.Src) && pred(k)
	})
	return f, ok
}

func (r *seqRun) findConn(key string) *msock {
	for _, m := range r.open {
		if m.kind == kConn && tkey(m.id.LA, m.id.LP, m.id.RA, m.id.RP) == key {
			return m
		}
	}
	return nil
}

func (r *seqRun) injectTCP(nic int, t tuple, v verdict, want *msock, desc string, rst int) (*evid.Failure, bool) {
	key := tkey(t.Dst, t.DPort, t.Src, t.SPort)
	if r.tainted[key] {
		evid.Label("skip:tcp-on-lingering-tuple")
		return nil, false
	}
	r.anyTCP = true
	kind := xRST
	switch {
	case !v.Processed:
		kind = xNothing
	case want == nil:
		kind = xRST
	case want.kind == kListener:
		kind = xSynAck
	case want.kind == kConn:
		kind = xConn
	case want.kind == kRaw:
		kind = xRaw
	}
	var wantRaw *msock
	if kind == xRaw {
		wantRaw = want
	}
	from := r.w.taps[nic].Len()

	if conn := r.findConn(key); conn != nil {
		// the harness has a connection on that 4-tuple: the next in-order data segment
		p := conn.peer
		payload := []byte(fmt.Sprintf("c09/%03d/data", r.step))
		seq := p.SndNxt
		if kind == xSynAck {
			kind = xListenerAny
		}
		if kind == xConn && want != conn {
			return fail("harness", "step %d: model picked another connection for %s", r.step, t)
		}
		x := &tcpExp{step: r.step, t: t, seq: seq, seglen: uint32(len(payload)), kind: kind}
		r.exps = append(r.exps, x)
		proto, b := buildTCP(t, codec.TCPSeg{Seq: seq, Ack: p.RcvNxt, Flags: codec.ACK | codec.PSH, Wnd: 65535, Payload: payload}, uint16(r.step))
		r.send(nic, proto, b)
		if f := r.checkRaw(wantRaw, transTCP, nic, t, seq, payload, desc); f != nil {
			return f, false
		}
		switch kind {
		case xConn:
			var got []byte
			deadline := time.Now().Add(waitLong)
			for len(got) < len(payload) {
				b, e, ok := conn.sock.Read(time.Until(deadline), nil)
				if !ok || e != nil {
					if _, rst := r.replyOn(nic, from, 0, t, func(k *codec.Packet) bool { return k.Flags&codec.RST != 0 }); rst {
						return fail("reset-instead-of-delivery", "step %d: %s: the segment was answered with a reset although %s is open\n%s", r.step, desc, conn, r.world())
					}
					return slow("not-delivered-to-addressee", "step %d: %s: %s did not return the data within %v (Read: %v)\n%s", r.step, desc, conn, waitLong, e, r.world())
				}
				got = append(got, b...)
			}
			if !bytes.Equal(got, payload) {
				return fail("wrong-packet-delivered", "step %d: %s: %s read %q, injected %q", r.step, desc, conn, got, payload)
			}
			p.SndNxt += uint32(len(payload))
		case xRST:
			if _, ok := r.replyOn(nic, from, 2*time.Second, t, func(k *codec.Packet) bool { return k.Flags&codec.RST != 0 && k.Ack == seq+uint32(len(payload)) }); !ok {
				return slow("no-reset", "step %d: %s: no socket matches, but no reset was sent\n%s", r.step, desc, r.world())
			}
		}
		return nil, false
	}

	// no connection of the harness on that 4-tuple: a SYN with a fresh sequence number
	iss := 0x40000000 + uint32(r.step)<<16
	if kind == xConn {
		return fail("harness", "step %d: model expects a connection the harness has no peer for: %v", r.step, want)
	}
	if rst > 0 && kind != xRaw {
		// a stray reset: whoever matches (nobody, a listener), it is never answered and opens nothing
		fl, ack := uint8(codec.RST), uint32(0)
		if rst >= 2 {
			fl, ack = codec.RST|codec.ACK, 0x01020304+uint32(r.step)
		}
		r.exps = append(r.exps, &tcpExp{step: r.step, t: t, seq: iss, seglen: 0, kind: xNothing})
		p := rawpeer.NewPeerFor(r.w.taps[nic], isV6(t.Dst), t.Dst, t.Src, t.DPort, t.SPort, iss)
		p.Send(codec.TCPSeg{Seq: iss, Ack: ack, Flags: fl, Wnd: 0})
		evid.Label("inject:tcp-stray-reset")
		if kind == xSynAck {
			// a listener consumes the segment on its own goroutine; until then the
			// queued segment's route references the local address (the mechanism of
			// F22): give it a moment and treat the address as possibly referenced
			time.Sleep(3 * time.Millisecond)
			r.pinned[t.Dst] = true
		}
		if f, any := r.replyOn(nic, from, 0, t, func(k *codec.Packet) bool { return true }); any {
			return fail("reset-answered", "step %d: %s: a reset segment was answered with %s\n%s", r.step, desc, f.Pkt, r.world())
		}
		return r.noStrayAccepts(desc), false
	}
	x := &tcpExp{step: r.step, t: t, seq: iss, seglen: 1, kind: kind}
	r.exps = append(r.exps, x)
	p := rawpeer.NewPeerFor(r.w.taps[nic], isV6(t.Dst), t.Dst, t.Src, t.DPort, t.SPort, iss)
	p.Send(codec.TCPSeg{Seq: iss, Flags: codec.SYN, Wnd: 65535, Opts: codec.OptMSS(1460)})
	if f := r.checkRaw(wantRaw, transTCP, nic, t, iss, nil, desc); f != nil {
		return f, false
	}
	switch kind {
	case xRST:
		if _, ok := r.replyOn(nic, from, 2*time.Second, t, func(k *codec.Packet) bool { return k.Flags&codec.RST != 0 && k.Ack == iss+1 }); !ok {
			if _, sa := r.replyOn(nic, from, 0, t, func(k *codec.Packet) bool { return isFlags(k, codec.SYN|codec.ACK, 0) }); sa {
				return fail("accepted-by-wrong-socket", "step %d: %s: no socket matches, but a SYN-ACK came back\n%s", r.step, desc, r.world())
			}
			return slow("no-reset", "step %d: %s: no socket matches, but no reset was sent\n%s", r.step, desc, r.world())
		}
	case xSynAck:
		f, ok := r.replyOn(nic, from, waitLong, t, func(k *codec.Packet) bool { return isFlags(k, codec.SYN|codec.ACK, codec.RST) && k.Ack == iss+1 })
		if !ok {
			if _, rst := r.replyOn(nic, from, 0, t, func(k *codec.Packet) bool { return k.Flags&codec.RST != 0 }); rst {
				return fail("reset-instead-of-delivery", "step %d: %s: the SYN was answered with a reset although listener %s matches\n%s", r.step, desc, want, r.world())
			}
			return slow("not-delivered-to-addressee", "step %d: %s: listener %s did not answer the SYN from the addressed (address, port) within %v\n%s", r.step, desc, want, waitLong, r.world())
		}
		r.peers[key] = true
		p.IRS, p.RcvNxt, p.SndNxt = f.Pkt.Seq, f.Pkt.Seq+1, iss+1
		p.Send(codec.TCPSeg{Seq: p.SndNxt, Ack: p.RcvNxt, Flags: codec.ACK, Wnd: 65535})
		ns, e, ok := want.sock.Accept(waitLong)
		if !ok || e != nil {
			r.tainted[key] = true
			return slow("not-delivered-to-addressee", "step %d: %s: listener %s answered the SYN but Accept returned no connection within %v (%v)\n%s", r.step, desc, want, waitLong, e, r.world())
		}
		id, ie := identOf(transTCP, ns, isV6(t.Dst), false)
		if ie != nil || id.LA != t.Dst || id.LP != t.DPort || !sameAddr(id.RA, t.Src) || id.RP != t.SPort {
			return fail("wrong-source-reported", "step %d: %s: the accepted connection reports identity [%s] (%v)", r.step, desc, id, ie)
		}
		id.RA = t.Src
		evid.Label("opened:tcp-passive-connection")
		if f := r.adopt(&msock{kind: kConn, sock: ns, v6: isV6(t.Dst), peer: p}, id); f != nil {
			return f, false
		}
	}
	// nobody else may have accepted anything
	return r.noStrayAccepts(desc), false
}

func (r *seqRun) noStrayAccepts(desc string) *evid.Failure {
	for _, m := range r.open {
		if m.kind != kListener {
			continue
		}
		if ep, _, e := m.sock.EP.Accept(); e == nil {
			la, _ := ep.GetLocalAddress()
			ra, _ := ep.GetRemoteAddress()
			ep.Close()
			return evid.Failf("accepted-by-wrong-socket", "step %d: %s: listener %s holds a connection (%v:%d <- %v:%d) that the harness did not establish with it\n%s", r.step, desc, m, la.Addr, la.Port, ra.Addr, ra.Port, r.world())
		}
	}
	return nil
}

func (r *seqRun) opInject(st Step) (*evid.Failure, bool) {
	trans, dst, dport, src, sport := r.mix(st, len(laddrs))
	t := tuple{Src: src, SPort: sport, Dst: dst, DPort: dport}
	nic := homeOf(dst)
	if nic == 0 || nic > r.w.nics || st.Mut&16 != 0 {
		nic = r.nicArg(st)
	}
	ids := r.idents()
	v := decide(r.ifs[nic], ids, trans, nic, t)
	var want *msock
	if v.Processed && v.Best >= 0 {
		want = r.open[v.Best]
	}
	tr := "udp"
	if trans == transTCP {
		tr = "tcp"
	}
	desc := fmt.Sprintf("%s packet %s received on interface %d (destination %s)", tr, t, nic, v.Via)

	// classes excluded by construction
	if v.Ambiguous {
		evid.Exclude("two-equally-specific-matches-in-different-interface-scopes")
		return nil, false
	}
	if v.NICFirst && !probing(probeNICPrec) {
		evid.Exclude("less-specific-per-interface-socket-vs-more-specific-any-interface-socket")
		return nil, false
	}
	if !v.Processed && r.pinned[dst] && !probing(probePinned) {
		evid.Exclude("unassigned-address-still-referenced-by-a-connected-socket")
		return nil, false
	}

	cls := tr + ":"
	switch {
	case !v.Processed:
		cls += "dropped-" + v.Via
	case want == nil:
		cls += "no-match"
	default:
		cls += fmt.Sprintf("%s-rank%d", [...]string{"socket", "listener", "connection", "raw"}[want.kind], v.Rank)
	}
	evid.Label("inject:" + cls)
	if st.Former && st.Ref >= 0 && len(r.former) > 0 {
		evid.Label("inject:at-former-identity:" + cls)
	}
	if v.Processed && v.Via != "assigned" {
		evid.Label("inject:via-" + v.Via)
	}
	if homeOf(dst) != 0 && homeOf(dst) != nic {
		evid.Label("inject:on-foreign-interface")
	}
	evid.Eval(1) // an evaluation is one judged injection (plus one per history from the Spec runner)
	nt := v.Levels >= 2 || (v.Best < 0 && v.SamePort)
	if nt {
		r.hadNT = true
		if v.Levels >= 2 {
			evid.Label(fmt.Sprintf("nontrivial:levels-%d", v.Levels))
		} else {
			evid.Label("nontrivial:no-match-on-held-port")
		}
		evid.NonTrivialKey("seq", canon(ids), r.w.nics, nic, trans, t.String(), v.Processed)
	}

	if trans == transUDP {
		return r.injectUDP(nic, t, v, want, desc), false
	}
	return r.injectTCP(nic, t, v, want, desc, st.Rst)
}

// ---------------------------------------------------------------------------
// End of case: let asynchronous reactions surface, then account for every
// frame the stack emitted. Replies are attributed by 4-tuple and
// acknowledgement number (every injected segment has its own sequence
// numbers), never by position in time.

func (r *seqRun) settle() {
	last, same := -1, 0
	for i := 0; i < 80 && same < 2; i++ {
		time.Sleep(6 * time.Millisecond)
		n := 0
		for k := 1; k <= r.w.nics; k++ {
			n += r.w.taps[k].Len()
		}
		if n == last {
			same++
		} else {
			same = 0
		}
		last = n
	}
}

func (r *seqRun) finish() *evid.Failure {
	if !r.anyTCP {
		return nil
	}
	if r.async {
		r.settle()
	}
	if f := r.noStrayAccepts("end of case"); f != nil {
		return f
	}
	for _, m := range r.open {
		if m.kind != kConn {
			continue
		}
		if b, _, e := m.sock.EP.Read(nil); e == nil {
			return evid.Failf("delivered-to-wrong-socket", "end of case: %s has data queued that was never addressed to it: %q\n%s", m, b, r.world())
		}
	}
	for _, m := range r.allRaw {
		if n := len(m.raw.take()); n != 0 {
			return evid.Failf("delivered-to-wrong-socket", "end of case: %s received %d packet(s) outside any injection", m, n)
		}
	}
	for n := 1; n <= r.w.nics; n++ {
		for _, f := range r.w.taps[n].Trace() {
			k := f.Pkt
			if k.L4Kind != "tcp" {
				evid.Label("frame:non-tcp")
				continue
			}
			key := tkey(tcpip.Address(k.Src), k.SrcPort, tcpip.Address(k.Dst), k.DstPort)
			isRST := k.Flags&codec.RST != 0
			isSA := isFlags(k, codec.SYN|codec.ACK, codec.RST)
			if !isRST && !isSA {
				if !r.peers[key] {
					evid.Label("frame:unattributed")
				}
				continue
			}
			var cands []*tcpExp
			for _, e := range r.exps {
				if tkey(e.t.Dst, e.t.DPort, e.t.Src, e.t.SPort) == key && k.Ack == e.seq+e.seglen {
					cands = append(cands, e)
				}
			}
			if len(cands) == 0 {
				if r.tainted[key] {
					continue
				}
				return evid.Failf("unexpected-reply", "end of case: interface %d emitted %s, which answers nothing that was injected\n%s", n, k, r.world())
			}
			// several injections can share (4-tuple, sequence number): a data segment
			// that was not to be delivered does not advance the peer. Attribute the
			// reply to one that expects it and has not been answered yet.
			var x *tcpExp
			for _, e := range cands {
				if isRST && (e.kind == xRST || e.kind == xListenerAny) && e.rst == 0 && x == nil {
					x = e
				}
				if isSA && e.kind == xSynAck && x == nil {
					x = e
				}
			}
			switch {
			case x != nil && isRST:
				x.rst++
			case x != nil:
				x.synack++
			case r.tainted[key]:
			default:
				e := cands[0]
				for _, c := range cands {
					if isRST && (c.kind == xRST || c.kind == xListenerAny) {
						return evid.Failf("delivered-twice", "end of case: the segment of step %d (%s) was answered with more than one reset", c.step, c.t)
					}
				}
				what := [...]string{"silence (destination not owned)", "a reset", "a SYN-ACK", "delivery to the connection", "delivery to a raw endpoint", "silence or a reset"}[e.kind]
				return evid.Failf("unexpected-reply", "end of case: the segment of step %d (%s) was answered with %s; expected: %s\n%s", e.step, e.t, k, what, r.world())
			}
		}
	}
	return nil
}

func (r *seqRun) cleanup() {
	for len(r.open) > 0 {
		r.closeSock(r.open[len(r.open)-1])
	}
}

func runSeqOnce(c SeqCase) (f *evid.Failure, liveness bool) {
	nics := 1
	if c.NICs >= 2 {
		nics = 2
	}
	r := &seqRun{w: newWorld(nics), tainted: map[string]bool{}, pinned: map[tcpip.Address]bool{}, peers: map[string]bool{}}
	for n := 1; n <= 2; n++ {
		r.ifs[n] = &ifState{assigned: map[tcpip.Address]bool{}, subnets: map[int]bool{}}
	}
	defer r.cleanup()
	for _, k := range c.Init {
		l := laddrs[mod(k, nAssignable)]
		if l.Home > nics || r.ifs[l.Home].assigned[l.A] {
			continue
		}
		if e := r.w.s.AddAddress(tcpip.NICID(l.Home), netOf(l.A), l.A); e != nil {
			return evid.Failf("harness", "initial AddAddress(%v): %v", l.A, e), false
		}
		r.ifs[l.Home].assigned[l.A] = true
	}
	for i, st := range c.Steps {
		r.step = i
		if dbg {
			fmt.Printf("--- step %d %s %+v\n%s", i, opNames[mod(st.Op, nOps)], st, r.world())
		}
		var f *evid.Failure
		live := false
		switch mod(st.Op, nOps) {
		case opInject:
			f, live = r.opInject(st)
		case opUDPBind:
			f = r.opUDPBind(st)
		case opUDPConnect:
			f = r.opUDPConnect(st)
		case opTCPListen:
			f = r.opTCPListen(st)
		case opTCPActive:
			f = r.opTCPActive(st)
		case opRawReg:
			f = r.opRawReg(st)
		case opClose:
			if len(r.open) > 0 && st.Ref >= 0 {
				m := r.open[mod(st.Ref, len(r.open))]
				evid.Label("closed:" + [...]string{"udp-socket", "tcp-listener", "tcp-connection", "raw-endpoint"}[m.kind])
				r.closeSock(m)
			}
		case opAddAddr:
			r.opAddr(st, true)
		case opRemoveAddr:
			r.opAddr(st, false)
		case opPromisc:
			n := r.nicArg(st)
			if r.w.s.SetPromiscuousMode(tcpip.NICID(n), st.On) == nil {
				r.ifs[n].promisc = st.On
			}
		case opSubnet:
			r.opSubnet(st)
		case opSpoof:
			// address spoofing concerns the source addresses of what the stack sends; what
			// an interface accepts does not depend on it
			n := r.nicArg(st)
			if r.w.s.SetSpoofing(tcpip.NICID(n), st.On) == nil && st.On {
				evid.Label("op:spoofing-on")
				r.spoofed = true
			}
		}
		if f != nil {
			return f, live
		}
	}
	if f := r.finish(); f != nil {
		return f, false
	}
	if r.hadNT && evid.ShardIdx%4 == 0 {
		evid.Sample("seq-nontrivial", c)
	}
	return nil, false
}

// runSeq decides one case. A failure that rests on a deadline ("did not
// happen within 5 s") is only reported when two more runs of the same case in
// fresh stacks miss the same deadline (DESIGN 2.4). Once such a failure has
// been confirmed in this process, later ones (rapid is then minimising the
// case) are taken at face value: every confirmation costs 10 more seconds.
var livenessConfirmed bool

func runSeq(c SeqCase) *evid.Failure {
	evid.Journal("seq", c)
	f, live := runSeqOnce(c)
	if f == nil || !live || livenessConfirmed {
		return f
	}
	for k := 0; k < 2; k++ {
		f2, live2 := runSeqOnce(c)
		if f2 == nil {
			evid.Unconfirmed()
			return nil
		}
		if !live2 {
			return f2
		}
	}
	livenessConfirmed = true
	return f
}

// ---------------------------------------------------------------------------
// Generator.

func genStep(rt *rapid.T, op int) Step {
	st := Step{Op: op, Ref: -1}
	pick := func(name string, n int) int { return rapid.IntRange(0, n-1).Draw(rt, name) }
	fewBits := func(name string) int {
		return rapid.SampledFrom([]int{0, 0, 0, 0, 1, 2, 4, 8, 4 | 8, 1 | 2, 16, 16, 1 | 16, 32, 5, 10}).Draw(rt, name)
	}
	switch op {
	case opInject:
		st.Trans = rapid.SampledFrom([]int{transUDP, transUDP, transTCP}).Draw(rt, "trans")
		st.Addr = rapid.SampledFrom([]int{0, 0, 0, 0, 0, 1, 1, 1, 1, 2, 2, 2, 2, 3, 3, 3, 4, 4, 4, 5, 6, 7, 8, 9}).Draw(rt, "dst")
		st.Port, st.RAddr, st.RPort = pick("dport", len(lports)), pick("src", len(raddrs)), pick("sport", len(rports))
		st.NIC = rapid.IntRange(1, 2).Draw(rt, "nic")
		if rapid.IntRange(0, 7).Draw(rt, "targeted") > 0 {
			st.Ref = pick("ref", 12)
			st.Mut = fewBits("mut")
			st.Former = pick("former", 6) == 0
		}
		if st.Trans == transTCP {
			st.Rst = rapid.SampledFrom([]int{0, 0, 0, 0, 1, 2}).Draw(rt, "rst")
		}
	case opUDPBind, opTCPListen:
		st.V6 = pick("v6", 3) == 0
		st.V6Only = st.V6 && rapid.Bool().Draw(rt, "v6only")
		st.Addr = -1
		if rapid.Bool().Draw(rt, "specific") {
			if st.V6 {
				st.Addr = rapid.SampledFrom([]int{3, 4}).Draw(rt, "addr")
			} else {
				st.Addr = rapid.SampledFrom([]int{0, 1, 2}).Draw(rt, "addr")
			}
		}
		st.Port = pick("port", len(lports))
		if op == opUDPBind && st.V6 && !st.V6Only {
			st.Mapped = pick("mapped", 3) == 0
			if st.Mapped && st.Addr >= 0 {
				st.Addr = rapid.SampledFrom([]int{0, 1, 2}).Draw(rt, "mapped_addr")
			}
		}
		if op == opUDPBind && pick("takeover", 4) == 0 {
			st.Ref, st.Former = pick("ref", 12), true
		}
	case opUDPConnect:
		st.V6 = pick("v6", 5) < 2
		st.V6Only = st.V6 && pick("v6only", 3) == 0
		if pick("existing", 3) > 0 {
			st.Ref = pick("ref", 8)
		}
		st.RAddr, st.RPort = pick("raddr", 2), pick("rport", len(rports))
		st.NIC = rapid.SampledFrom([]int{0, 0, 0, 0, 1, 1, 2}).Draw(rt, "nic")
		st.RFam = rapid.SampledFrom([]int{0, 0, 0, 0, 1, 1, 2}).Draw(rt, "rfam")
	case opTCPActive:
		st.V6 = pick("v6", 3) == 0
		st.Bind = pick("bind", 3)
		st.Port = pick("port", len(lports))
		if st.V6 {
			st.Addr = rapid.SampledFrom([]int{3, 4}).Draw(rt, "addr")
		} else {
			st.Addr = rapid.SampledFrom([]int{0, 1, 2}).Draw(rt, "addr")
		}
		st.RAddr, st.RPort = pick("raddr", 2), pick("rport", len(rports))
	case opRawReg:
		st.Trans = rapid.SampledFrom([]int{transUDP, transTCP}).Draw(rt, "trans")
		st.Addr, st.Port, st.RAddr, st.RPort = pick("addr", len(laddrs)), pick("port", len(lports)), pick("raddr", len(raddrs)), pick("rport", len(rports))
		st.Shape = pick("shape", 4)
		st.Nets = rapid.SampledFrom([]int{3, 3, 3, 3, 1, 2}).Draw(rt, "nets")
		st.NIC = rapid.SampledFrom([]int{0, 0, 0, 0, 0, 0, 1, 2}).Draw(rt, "nic")
		if rapid.IntRange(0, 3).Draw(rt, "related") > 0 {
			st.Ref = pick("ref", 12)
			st.Mut = rapid.SampledFrom([]int{0, 0, 0, 1, 4, 8, 32, 32 | 1}).Draw(rt, "mut")
			st.Former = pick("former", 8) == 0
		}
	case opClose:
		st.Ref = pick("ref", 12)
	case opAddAddr, opRemoveAddr:
		st.Addr = pick("addr", nAssignable)
	case opPromisc:
		st.NIC = rapid.IntRange(1, 2).Draw(rt, "nic")
		st.On = pick("on", 3) > 0
	case opSubnet:
		st.NIC = rapid.IntRange(1, 2).Draw(rt, "nic")
		st.Sub = pick("sub", len(subnets))
		st.On = pick("on", 4) > 0
	case opSpoof:
		st.NIC = rapid.IntRange(1, 2).Draw(rt, "nic")
		st.On = pick("on", 4) > 0
	}
	return st
}

var opWeights = func() []int {
	w := map[int]int{opInject: 40, opUDPBind: 10, opUDPConnect: 9, opTCPListen: 8, opTCPActive: 3, opRawReg: 14, opClose: 7, opAddAddr: 3, opRemoveAddr: 3, opPromisc: 3, opSubnet: 4, opSpoof: 3}
	var out []int
	for op := 0; op < nOps; op++ {
		for k := 0; k < w[op]; k++ {
			out = append(out, op)
		}
	}
	return out
}()

func genSeq(rt *rapid.T) SeqCase {
	c := SeqCase{NICs: rapid.SampledFrom([]int{1, 2, 2}).Draw(rt, "nics")}
	for k := 0; k < nAssignable; k++ {
		if rapid.IntRange(0, 5).Draw(rt, "assigned") > 0 {
			c.Init = append(c.Init, k)
		}
	}
	n := rapid.IntRange(6, 40).Draw(rt, "steps")
	for i := 0; i < n; i++ {
		op := rapid.SampledFrom(opWeights).Draw(rt, "op")
		if op == opUDPConnect && rapid.IntRange(0, 2).Draw(rt, "bind-then-connect") == 0 {
			// Bind immediately followed by Connect of that socket: the shapes in which
			// Connect moves the socket's registration (to an interface, to another family)
			b := genStep(rt, opUDPBind)
			b.Former, b.Ref = false, -1
			b.V6 = rapid.Bool().Draw(rt, "v6")
			b.V6Only = b.V6 && rapid.IntRange(0, 3).Draw(rt, "v6only") == 0
			b.Addr = -1
			if rapid.IntRange(0, 2).Draw(rt, "specific") == 0 {
				b.Addr = rapid.SampledFrom([]int{0, 1, 2}).Draw(rt, "addr")
				if b.V6 {
					b.Addr = rapid.SampledFrom([]int{3, 4}).Draw(rt, "addr6")
				}
			}
			cn := genStep(rt, opUDPConnect)
			cn.Ref, cn.V6, cn.V6Only = -2, b.V6, b.V6Only
			cn.NIC = rapid.SampledFrom([]int{0, 1, 1, 2}).Draw(rt, "cnic")
			if b.V6 {
				cn.RFam = rapid.SampledFrom([]int{0, 1, 1, 2}).Draw(rt, "crfam")
			}
			c.Steps = append(c.Steps, b, cn)
			// and traffic for the identity it just gave up / the one it has now
			for k := rapid.IntRange(1, 3).Draw(rt, "probes"); k > 0; k-- {
				in := genStep(rt, opInject)
				in.Trans = transUDP
				in.Ref = rapid.IntRange(0, 3).Draw(rt, "pref")
				in.Former = rapid.Bool().Draw(rt, "pformer")
				c.Steps = append(c.Steps, in)
			}
			continue
		}
		if op == opTCPActive && rapid.IntRange(0, 2).Draw(rt, "listen-where-it-lives") == 0 {
			// an active open from a specific local address and port, then a listener on exactly
			// that address and port while the connection lives, then segments for both: the
			// connection (most specific) must keep receiving its own
			a := genStep(rt, opTCPActive)
			a.Bind = 2
			a.Addr = rapid.SampledFrom([]int{0, 1, 2}).Draw(rt, "laddr")
			if a.V6 {
				a.Addr = rapid.SampledFrom([]int{3, 4}).Draw(rt, "laddr6")
			}
			l := genStep(rt, opTCPListen)
			l.Former, l.Ref = false, -1
			l.V6, l.V6Only, l.Mapped, l.Addr, l.Port = a.V6, false, false, a.Addr, a.Port
			c.Steps = append(c.Steps, a, l)
			for k := rapid.IntRange(2, 4).Draw(rt, "probes-tcp"); k > 0; k-- {
				in := genStep(rt, opInject)
				in.Trans, in.Former, in.Rst, in.Mut = transTCP, false, 0, 0
				in.Ref = rapid.IntRange(0, 5).Draw(rt, "pref-tcp")
				c.Steps = append(c.Steps, in)
			}
			continue
		}
		c.Steps = append(c.Steps, genStep(rt, op))
	}
	return c
}

func TestSeq(t *testing.T) {
	evid.Run(t, evid.Spec[SeqCase]{Name: "seq", Gen: genSeq, Run: runSeq})
}
