//go:build race

package c09

import "runtime"

const raceEnabled = true

// raceErrors is the number of data races the detector has reported so far.
func raceErrors() int { return runtime.RaceErrors() }
