package c09

import (
	"fmt"
	"testing"
	"time"

	"github.com/brewlin/net-protocol/pkg/buffer"
	"github.com/brewlin/net-protocol/pkg/waiter"
	tcpip "github.com/brewlin/net-protocol/protocol"
	"github.com/brewlin/net-protocol/protocol/network/ipv4"
	"github.com/brewlin/net-protocol/protocol/network/ipv6"
	"github.com/brewlin/net-protocol/protocol/transport/tcp"
	"github.com/brewlin/net-protocol/protocol/transport/udp"
	"github.com/brewlin/net-protocol/stack"
	"verifharness/codec"
	"verifharness/netsim"
	"verifharness/rawpeer"
)

var _ = buffer.View{}
var _ = waiter.Queue{}

func a4(s string) tcpip.Address { return tcpip.Address(s) }

func mkStack(t *testing.T) (*stack.Stack, *netsim.Tap, *netsim.Tap) {
	s := stack.New([]string{ipv4.ProtocolName, ipv6.ProtocolName}, []string{tcp.ProtocolName, udp.ProtocolName}, stack.Options{})
	t1, t2 := netsim.NewTap(1500), netsim.NewTap(1500)
	if err := s.CreateNIC(1, stack.RegisterLinkEndpoint(t1)); err != nil {
		t.Fatal(err)
	}
	if err := s.CreateNIC(2, stack.RegisterLinkEndpoint(t2)); err != nil {
		t.Fatal(err)
	}
	s.AddAddress(1, ipv4.ProtocolNumber, a4("\x0a\x00\x00\x01"))
	s.AddAddress(1, ipv4.ProtocolNumber, a4("\x0a\x00\x00\x02"))
	s.AddAddress(2, ipv4.ProtocolNumber, a4("\x0a\x00\x01\x01"))
	s.SetRouteTable([]tcpip.Route{
		{Destination: a4("\x0a\x00\x01\x00"), Mask: tcpip.AddressMask("\xff\xff\xff\x00"), NIC: 2},
		{Destination: a4("\x00\x00\x00\x00"), Mask: tcpip.AddressMask("\x00\x00\x00\x00"), NIC: 1},
	})
	return s, t1, t2
}

func udp4(src, dst string, sp, dp uint16, pl string) []byte {
	l4 := codec.BuildUDP([]byte(src), []byte(dst), sp, dp, []byte(pl), true)
	return codec.BuildIPv4(codec.IPv4Hdr{Src: []byte(src), Dst: []byte(dst), Proto: codec.ProtoUDP}, l4)
}

func TestProbeUDP(t *testing.T) {
	s, t1, _ := mkStack(t)
	so, _ := netsim.NewSock(s, udp.ProtocolNumber, ipv4.ProtocolNumber)
	fmt.Println("bind", so.EP.Bind(tcpip.FullAddress{Port: 100}, nil))
	la, _ := so.EP.GetLocalAddress()
	fmt.Printf("local %+v\n", la)
	rd := func() {
		var from tcpip.FullAddress
		v, _, err := so.EP.Read(&from)
		fmt.Printf("read %q %v from %+v\n", string(v), err, from)
	}
	t1.Inject(ipv4.ProtocolNumber, udp4("\x0a\x00\x00\x63", "\x0a\x00\x00\x01", 7, 100, "own"))
	rd()
	t1.Inject(ipv4.ProtocolNumber, udp4("\x0a\x00\x00\x63", "\x0a\x00\x01\x01", 7, 100, "othernic"))
	rd()
	t1.Inject(ipv4.ProtocolNumber, udp4("\x0a\x00\x00\x63", "\x0a\x00\x00\x09", 7, 100, "unowned"))
	rd()
	s.SetPromiscuousMode(1, true)
	t1.Inject(ipv4.ProtocolNumber, udp4("\x0a\x00\x00\x63", "\x0a\x00\x00\x09", 7, 100, "promisc"))
	rd()
	fmt.Println(s.NICInfo()[1].ProtocolAddresses)
	s.SetPromiscuousMode(1, false)
	sn, _ := tcpip.NewSubnet(a4("\x0a\x00\x00\x08"), tcpip.AddressMask("\xff\xff\xff\xfc"))
	s.AddSubnet(1, ipv4.ProtocolNumber, sn)
	t1.Inject(ipv4.ProtocolNumber, udp4("\x0a\x00\x00\x63", "\x0a\x00\x00\x09", 7, 100, "subnet-in"))
	rd()
	t1.Inject(ipv4.ProtocolNumber, udp4("\x0a\x00\x00\x63", "\x0a\x00\x00\x0c", 7, 100, "subnet-out"))
	rd()
	fmt.Println("frames", t1.Len())
}

func TestProbeRemoveAddr(t *testing.T) {
	s, t1, _ := mkStack(t)
	A := a4("\x0a\x00\x00\x01")
	R := a4("\x0a\x00\x00\x63")
	so, _ := netsim.NewSock(s, udp.ProtocolNumber, ipv4.ProtocolNumber)
	fmt.Println("bind", so.EP.Bind(tcpip.FullAddress{Port: 100}, nil))
	l, _ := netsim.NewSock(s, tcp.ProtocolNumber, ipv4.ProtocolNumber)
	fmt.Println("bind", l.EP.Bind(tcpip.FullAddress{Port: 80}, nil), l.EP.Listen(4))
	p := rawpeer.NewPeerFor(t1, false, A, R, 80, 5000, 1000)
	fmt.Println("connect", p.Connect(rawpeer.SynOpts{MSS: 1460, WS: -1}, 2*time.Second))
	c, err, ok := l.Accept(2 * time.Second)
	fmt.Println("accept", err, ok)
	la, _ := c.EP.GetLocalAddress()
	ra, _ := c.EP.GetRemoteAddress()
	fmt.Printf("conn %+v %+v\n", la, ra)
	fmt.Println("remove", s.RemoveAddress(1, A))
	fmt.Println(s.NICInfo()[1].ProtocolAddresses)
	t1.Inject(ipv4.ProtocolNumber, udp4(string(R), string(A), 7, 100, "after-remove"))
	var from tcpip.FullAddress
	v, _, e := so.EP.Read(&from)
	fmt.Printf("read %q %v\n", string(v), e)
	fmt.Println("bind to removed:", func() *tcpip.Error {
		x, _ := netsim.NewSock(s, udp.ProtocolNumber, ipv4.ProtocolNumber)
		return x.EP.Bind(tcpip.FullAddress{Addr: A, Port: 101}, nil)
	}())
}

func TestProbeNICPrecedence(t *testing.T) {
	s, t1, _ := mkStack(t)
	A := a4("\x0a\x00\x00\x01")
	R := a4("\x0a\x00\x00\x63")
	c, _ := netsim.NewSock(s, tcp.ProtocolNumber, ipv4.ProtocolNumber)
	fmt.Println("bind", c.EP.Bind(tcpip.FullAddress{Port: 80}, nil))
	p := rawpeer.NewPeerFor(t1, false, A, R, 80, 5000, 1000)
	done := make(chan bool)
	go func() { done <- p.AcceptActive(rawpeer.SynOpts{MSS: 1460, WS: -1}, 2*time.Second) }()
	e, ok := c.Connect(tcpip.FullAddress{Addr: R, Port: 5000}, 2*time.Second)
	fmt.Println("connect", e, ok, <-done)
	la, _ := c.EP.GetLocalAddress()
	ra, _ := c.EP.GetRemoteAddress()
	fmt.Printf("conn %+v %+v\n", la, ra)
	l, _ := netsim.NewSock(s, tcp.ProtocolNumber, ipv4.ProtocolNumber)
	fmt.Println("bind", l.EP.Bind(tcpip.FullAddress{Addr: A, Port: 80}, nil), l.EP.Listen(4))
	lla, _ := l.EP.GetLocalAddress()
	fmt.Printf("listener %+v\n", lla)
	n0 := t1.Len()
	p.Data(0, []byte("hello"), codec.PSH)
	v, re, rok := c.Read(1*time.Second, nil)
	fmt.Printf("read %q %v %v\n", v, re, rok)
	for _, f := range t1.Trace()[n0:] {
		fmt.Println(" ", f.Pkt)
	}
}

func TestProbeTCPBasics(t *testing.T) {
	s, t1, _ := mkStack(t)
	A := a4("\x0a\x00\x00\x01")
	R := a4("\x0a\x00\x00\x63")
	l, _ := netsim.NewSock(s, tcp.ProtocolNumber, ipv4.ProtocolNumber)
	fmt.Println("bind", l.EP.Bind(tcpip.FullAddress{Port: 80}, nil), l.EP.Listen(4))
	t0 := time.Now()
	p := rawpeer.NewPeerFor(t1, false, A, R, 80, 5000, 1000)
	fmt.Println("connect", p.Connect(rawpeer.SynOpts{MSS: 1460, WS: -1}, 2*time.Second), time.Since(t0))
	c, err, ok := l.Accept(2 * time.Second)
	fmt.Println("accept", err, ok, time.Since(t0))
	// SYN on established connection
	n0 := t1.Len()
	p.Send(codec.TCPSeg{Seq: 777777, Flags: codec.SYN, Wnd: 1000})
	time.Sleep(50 * time.Millisecond)
	for _, f := range t1.Trace()[n0:] {
		fmt.Println(" synonconn:", f.Pkt)
	}
	// unknown port
	n0 = t1.Len()
	p2 := rawpeer.NewPeerFor(t1, false, A, R, 81, 5000, 1000)
	t0 = time.Now()
	p2.Send(codec.TCPSeg{Seq: 5, Flags: codec.SYN, Wnd: 1000})
	fmt.Println("sync rst?", t1.Len()-n0, time.Since(t0))
	for _, f := range t1.Trace()[n0:] {
		fmt.Println(" unknown:", f.Pkt)
	}
	// close conn
	n0 = t1.Len()
	c.EP.Close()
	time.Sleep(50 * time.Millisecond)
	for _, f := range t1.Trace()[n0:] {
		fmt.Println(" close:", f.Pkt)
	}
	_ = s
}
