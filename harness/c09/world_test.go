package c09

import (
	"encoding/binary"
	"fmt"
	"os"
	"strings"
	"sync"
	"verifharness/evid"

	"github.com/brewlin/net-protocol/pkg/buffer"
	tcpip "github.com/brewlin/net-protocol/protocol"
	"github.com/brewlin/net-protocol/protocol/network/ipv4"
	"github.com/brewlin/net-protocol/protocol/network/ipv6"
	"github.com/brewlin/net-protocol/protocol/transport/tcp"
	"github.com/brewlin/net-protocol/protocol/transport/udp"
	"github.com/brewlin/net-protocol/stack"
	"verifharness/codec"
	"verifharness/netsim"
)

// ---------------------------------------------------------------------------
// The small world every case lives in: 1-2 interfaces, a fixed pool of
// addresses (each assignable address has a home interface, so an address is
// never on two interfaces), a pool of never-assigned destination addresses
// placed inside / just outside the subnets of the subnet pool, two remote
// addresses per family and tiny port pools.

type laddr struct {
	A    tcpip.Address
	Home int // interface the address may be assigned to (0: never assigned)
}

func ip4(a, b, c, d byte) tcpip.Address { return tcpip.Address([]byte{a, b, c, d}) }
func ip6(hi uint16, lo uint16) tcpip.Address {
	b := make([]byte, 16)
	b[0], b[1] = 0xfd, 0
	binary.BigEndian.PutUint16(b[6:], hi) // 4th group: "subnet"
	binary.BigEndian.PutUint16(b[14:], lo)
	return tcpip.Address(b)
}

var laddrs = []laddr{
	0: {ip4(10, 0, 0, 1), 1},
	1: {ip4(10, 0, 0, 2), 1},
	2: {ip4(10, 0, 1, 1), 2},
	3: {ip6(0, 1), 1},
	4: {ip6(1, 1), 2},
	// destination-only addresses (never assigned)
	5: {ip4(10, 0, 0, 9), 0},  // inside 10.0.0.8/30 and 10.0.0.0/24
	6: {ip4(10, 0, 0, 12), 0}, // just outside 10.0.0.8/30, inside 10.0.0.0/24
	7: {ip4(10, 0, 3, 5), 0},  // inside 10.0.2.0/23 only
	8: {ip6(0, 9), 0},         // inside fd00::/64 and fd00::8/125
	9: {ip6(2, 9), 0},         // outside every v6 subnet of the pool
}

const nAssignable = 5

var raddrs = []tcpip.Address{ip4(10, 0, 0, 99), ip4(10, 0, 1, 99), ip6(0, 0x99), ip6(1, 0x99)}
var lports = []uint16{80, 81, 82}
var rports = []uint16{7, 9}

type subnetDef struct {
	ID, Mask tcpip.Address
}

func mask6(bits int) tcpip.Address {
	b := make([]byte, 16)
	for i := 0; i < bits; i++ {
		b[i/8] |= 0x80 >> uint(i%8)
	}
	return tcpip.Address(b)
}

var subnets = []subnetDef{
	0: {ip4(10, 0, 0, 8), ip4(255, 255, 255, 252)},
	1: {ip4(10, 0, 0, 0), ip4(255, 255, 255, 0)},
	2: {ip4(10, 0, 2, 0), ip4(255, 255, 254, 0)},
	3: {ip6(0, 0), mask6(64)},
	4: {ip6(0, 8), mask6(125)},
}

func isV6(a tcpip.Address) bool { return len(a) == 16 }

func netOf(a tcpip.Address) tcpip.NetworkProtocolNumber {
	if isV6(a) {
		return ipv6.ProtocolNumber
	}
	return ipv4.ProtocolNumber
}

func homeOf(a tcpip.Address) int {
	for _, l := range laddrs {
		if l.A == a {
			return l.Home
		}
	}
	return 0
}

// world is one stack with its interfaces.
type world struct {
	s    *stack.Stack
	nics int
	taps [3]*netsim.Tap // index = interface id
}

func newWorld(nics int) *world {
	w := &world{nics: nics}
	w.s = stack.New([]string{ipv4.ProtocolName, ipv6.ProtocolName}, []string{tcp.ProtocolName, udp.ProtocolName}, stack.Options{})
	for n := 1; n <= nics; n++ {
		w.taps[n] = netsim.NewTap(1500)
		if err := w.s.CreateNIC(tcpip.NICID(n), stack.RegisterLinkEndpoint(w.taps[n])); err != nil {
			panic(fmt.Sprint("CreateNIC: ", err))
		}
	}
	var rt []tcpip.Route
	if nics >= 2 {
		rt = append(rt,
			tcpip.Route{Destination: ip4(10, 0, 1, 0), Mask: tcpip.AddressMask(ip4(255, 255, 255, 0)), NIC: 2},
			tcpip.Route{Destination: ip6(1, 0), Mask: tcpip.AddressMask(mask6(64)), NIC: 2})
	}
	rt = append(rt,
		tcpip.Route{Destination: ip4(0, 0, 0, 0), Mask: tcpip.AddressMask(ip4(0, 0, 0, 0)), NIC: 1},
		tcpip.Route{Destination: tcpip.Address(make([]byte, 16)), Mask: tcpip.AddressMask(make([]byte, 16)), NIC: 1})
	w.s.SetRouteTable(rt)
	return w
}

// ---------------------------------------------------------------------------
// rawEP is a transport endpoint of the harness, registered directly with
// Stack.RegisterTransportEndpoint (the call every socket of the repository
// ends in). It lets a case hold identities that the port manager would not let
// two real sockets hold at once (wildcard + specific address on one port, a
// connected identity with a wildcard local address), which is where the
// specificity order is decided.

type rawRec struct {
	ID  stack.TransportEndpointID
	NIC int
	L4  []byte // transport header + payload as handed over
}

type rawEP struct {
	mu  sync.Mutex
	got []rawRec
}

func (e *rawEP) HandlePacket(r *stack.Route, id stack.TransportEndpointID, vv buffer.VectorisedView) {
	b := append([]byte(nil), vv.ToView()...)
	e.mu.Lock()
	e.got = append(e.got, rawRec{ID: id, NIC: int(r.NICID()), L4: b})
	e.mu.Unlock()
}

func (e *rawEP) HandleControlPacket(id stack.TransportEndpointID, typ stack.ControlType, extra uint32, vv buffer.VectorisedView) {
}

// take returns and clears what arrived.
func (e *rawEP) take() []rawRec {
	e.mu.Lock()
	defer e.mu.Unlock()
	g := e.got
	e.got = nil
	return g
}

// ---------------------------------------------------------------------------
// Packet construction (independent codec).

const (
	transUDP = 17
	transTCP = 6
)

type tuple struct {
	Src   tcpip.Address
	SPort uint16
	Dst   tcpip.Address
	DPort uint16
}

func (t tuple) String() string {
	return fmt.Sprintf("%s:%d -> %s:%d", t.Src, t.SPort, t.Dst, t.DPort)
}

func wrapIP(t tuple, proto uint8, l4 []byte, id uint16) (tcpip.NetworkProtocolNumber, []byte) {
	if isV6(t.Dst) {
		return ipv6.ProtocolNumber, codec.BuildIPv6(codec.IPv6Hdr{Src: []byte(t.Src), Dst: []byte(t.Dst), NextHeader: proto, HopLimit: 64}, l4)
	}
	return ipv4.ProtocolNumber, codec.BuildIPv4(codec.IPv4Hdr{Src: []byte(t.Src), Dst: []byte(t.Dst), Proto: proto, ID: id}, l4)
}

func buildUDP(t tuple, payload []byte, id uint16) (tcpip.NetworkProtocolNumber, []byte) {
	l4 := codec.BuildUDP([]byte(t.Src), []byte(t.Dst), t.SPort, t.DPort, payload, true)
	return wrapIP(t, codec.ProtoUDP, l4, id)
}

func buildTCP(t tuple, seg codec.TCPSeg, id uint16) (tcpip.NetworkProtocolNumber, []byte) {
	seg.SrcPort, seg.DstPort = t.SPort, t.DPort
	l4 := codec.BuildTCP([]byte(t.Src), []byte(t.Dst), seg)
	return wrapIP(t, codec.ProtoTCP, l4, id)
}

// parseL4 splits what a raw endpoint was handed (own parsing, RFC 768 / 793).
func parseL4(trans int, b []byte) (sp, dp uint16, seq uint32, flags uint8, payload []byte, ok bool) {
	if trans == transUDP {
		if len(b) < 8 {
			return
		}
		return binary.BigEndian.Uint16(b[0:]), binary.BigEndian.Uint16(b[2:]), 0, 0, b[8:], true
	}
	if len(b) < 20 {
		return
	}
	off := int(b[12]>>4) * 4
	if off < 20 || off > len(b) {
		return
	}
	return binary.BigEndian.Uint16(b[0:]), binary.BigEndian.Uint16(b[2:]), binary.BigEndian.Uint32(b[4:]), b[13], b[off:], true
}

// sameAddr compares an address reported by the API with a packet address; an
// IPv4 address may be reported plain or IPv4-mapped.
func sameAddr(reported, want tcpip.Address) bool {
	if reported == want {
		return true
	}
	if len(reported) == 16 && len(want) == 4 {
		return strings.HasPrefix(string(reported), "\x00\x00\x00\x00\x00\x00\x00\x00\x00\x00\xff\xff") && string(reported[12:]) == string(want)
	}
	return false
}

// ---------------------------------------------------------------------------
// Probe switches. Two behaviours of the unchanged tree contradict the property
// text for inputs this check can generate; both were reported. Until it is
// decided how to handle them, the classes are excluded by construction (and
// counted with evid.Exclude). C09_PROBE=nicprec,pinned (or "all") applies the
// pure oracle to them.
const (
	probeNICPrec = "nicprec" // a less specific socket registered per interface wins over a more specific one registered for all interfaces
	probePinned  = "pinned"  // an address that is no longer (or was never) assigned stays served while a connected socket's route references it
)

// knownID maps a probe class to the finding that records it in
// KNOWN_FINDINGS.json: while the finding is listed as known the class is
// excluded by construction and counted; once it is no longer listed (repaired)
// the pure oracle applies to it again.
var knownID = map[string]string{probeNICPrec: "F21", probePinned: "F22"}

func probing(class string) bool {
	if !evid.IsKnownListed(knownID[class]) {
		return true
	}
	v := os.Getenv("C09_PROBE")
	if v == "all" {
		return true
	}
	for _, p := range strings.Split(v, ",") {
		if p == class {
			return true
		}
	}
	return false
}
