package c09

import (
	"bytes"
	"fmt"
	"math"
	"runtime"
	"sync"
	"sync/atomic"
	"testing"

	tcpip "github.com/brewlin/net-protocol/protocol"
	"github.com/brewlin/net-protocol/protocol/network/ipv4"
	"github.com/brewlin/net-protocol/protocol/network/ipv6"
	"github.com/brewlin/net-protocol/protocol/transport/tcp"
	"github.com/brewlin/net-protocol/protocol/transport/udp"
	"github.com/brewlin/net-protocol/stack"
	"pgregory.net/rapid"
	"verifharness/codec"
	"verifharness/evid"
	"verifharness/netsim"
)

// ---------------------------------------------------------------------------
// Racing variant. Stable sockets are opened first. Then, concurrently:
//   * one injector per interface (a link endpoint delivers from one goroutine)
//     injects its packets in order;
//   * 1-3 churn goroutines open and close OTHER identities (raw registrations
//     of any shape, real UDP sockets that bind, optionally connect, and close).
// Every call that opens or closes an identity and every injection is bracketed
// by ticks of one atomic counter, so for every packet and every churned
// identity the harness knows "certainly open during the whole injection",
// "possibly open at some point of it" or "certainly closed" without a clock.
//
// Oracle, per packet (payloads / sequence numbers are unique):
//   * it is received at most once, by at most one socket;
//   * the receiver matches it and was possibly open;
//   * no socket that matches it more specifically than the receiver was
//     certainly open;
//   * it is received by somebody if a matching socket was certainly open
//     (exception: a real UDP socket discards what arrives while Bind is still
//     running - registered, not yet ready to receive - and between its last read
//     and the end of Close; a packet that may have gone there may be lost);
//   * a packet for an address the interface does not own reaches nobody;
//   * TCP: a packet nobody received is answered by exactly one reset, a received
//     one by none.
// Stable sockets are certainly open throughout, so traffic that only they
// match must be delivered exactly.

type RIdent struct {
	Real   bool `json:"real,omitempty"`   // a real UDP socket; otherwise a raw registration
	Trans  int  `json:"tr,omitempty"`     // raw: 17 | 6
	V6     bool `json:"v6,omitempty"`     // real: socket family
	V6Only bool `json:"v6only,omitempty"` // real
	Addr   int  `json:"a"`                // local address pool index, -1 wildcard (real); raw: pool index
	Port   int  `json:"p"`
	Conn   bool `json:"conn,omitempty"`   // real: Connect after Bind
	CNIC   int  `json:"cnic,omitempty"`   // real: interface id passed to Connect (0: none)
	Mapped bool `json:"mapped,omitempty"` // real IPv6 socket: connect to the IPv4-mapped form of an IPv4 peer
	RAddr  int  `json:"ra"`
	RPort  int  `json:"rp"`
	Shape  int  `json:"shape,omitempty"` // raw
	Nets   int  `json:"nets,omitempty"`  // raw
}

type RPkt struct {
	Trans int `json:"tr"`
	Addr  int `json:"a"`
	Port  int `json:"p"`
	RAddr int `json:"ra"`
	RPort int `json:"rp"`
	Ref   int `json:"ref"` // -1 or index into stable ++ churn identities
	Mut   int `json:"mut,omitempty"`
}

type RaceCase struct {
	NICs    int        `json:"nics"`
	Promisc []bool     `json:"promisc"` // per interface
	Subnet  int        `json:"subnet"`  // -1 or subnet pool index added to interface 1
	Stable  []RIdent   `json:"stable"`
	Churn   [][]RIdent `json:"churn"`
	Pkts    [][]RPkt   `json:"pkts"` // per interface
	Reps    int        `json:"reps"`
}

const inf = math.MaxInt64

type phase struct {
	id             ident
	posFrom, posTo int64 // possibly registered within (posFrom, posTo)
	defFrom, defTo int64 // certainly registered within (defFrom, defTo)
}

type recvd struct {
	pkt    int // index of the packet, -1 unknown
	srcOK  bool
	detail string
}

type inst struct {
	desc   string
	stable bool
	failed bool // the opening call was refused
	sock   *netsim.Sock
	raw    *rawEP
	rawNP  []tcpip.NetworkProtocolNumber
	rawID  stack.TransportEndpointID
	trans  int
	phases []phase
	// real churned sockets: what arrives within one of these tick intervals may be
	// discarded by the socket itself: during Bind (registered, not yet ready to
	// receive) and between the last read and the end of Close.
	loss [][2]int64
	got  []recvd
}

type rpacket struct {
	idx    int
	nic    int
	trans  int
	t      tuple
	proto  tcpip.NetworkProtocolNumber
	bytes  []byte
	tag    []byte
	iss    uint32
	ts, te int64
}

func racePayload(i int) []byte { return []byte(fmt.Sprintf("c09r/%04d", i)) }

func (c *RaceCase) allIdents() []RIdent {
	out := append([]RIdent(nil), c.Stable...)
	for _, g := range c.Churn {
		out = append(out, g...)
	}
	return out
}

func rawIdent(d RIdent) (ident, []tcpip.NetworkProtocolNumber, stack.TransportEndpointID) {
	trans := transUDP
	if d.Trans == transTCP {
		trans = transTCP
	}
	la := laddrs[mod(d.Addr, len(laddrs))].A
	lp := lports[mod(d.Port, len(lports))]
	k := mod(d.RAddr, 2)
	if isV6(la) {
		k += 2
	}
	ra, rp := raddrs[k], rports[mod(d.RPort, len(rports))]
	switch mod(d.Shape, 4) {
	case 1:
		la = ""
	case 2:
		ra, rp = "", 0
	case 3:
		la, ra, rp = "", "", 0
	}
	nets := mod(d.Nets, 4)
	if nets == 0 {
		nets = 3
	}
	var np []tcpip.NetworkProtocolNumber
	if nets&net4 != 0 {
		np = append(np, ipv4.ProtocolNumber)
	}
	if nets&net6 != 0 {
		np = append(np, ipv6.ProtocolNumber)
	}
	return ident{Trans: trans, Nets: uint8(nets), LA: la, LP: lp, RA: ra, RP: rp}, np,
		stack.TransportEndpointID{LocalPort: lp, LocalAddress: la, RemotePort: rp, RemoteAddress: ra}
}

func transNum(trans int) tcpip.TransportProtocolNumber {
	if trans == transTCP {
		return tcp.ProtocolNumber
	}
	return udp.ProtocolNumber
}

type raceRun struct {
	w     *world
	ifs   [3]*ifState
	clock atomic.Int64
	pkts  []*rpacket
	byTag map[string]int
	byISS map[uint32]int
}

func (r *raceRun) tick() int64 { return r.clock.Add(1) }

// drain reads everything a real UDP socket has queued.
func (r *raceRun) drain(in *inst) {
	for k := 0; k < 100000; k++ {
		var from tcpip.FullAddress
		b, _, e := in.sock.EP.Read(&from)
		if e != nil {
			return
		}
		g := recvd{pkt: -1, detail: fmt.Sprintf("%q from %v:%d nic %d", b, from.Addr, from.Port, from.NIC)}
		if i, ok := r.byTag[string(b)]; ok {
			p := r.pkts[i]
			g.pkt = i
			g.srcOK = sameAddr(from.Addr, p.t.Src) && from.Port == p.t.SPort && int(from.NIC) == p.nic
		}
		in.got = append(in.got, g)
	}
}

func (r *raceRun) collectRaw(in *inst) {
	for _, rc := range in.raw.take() {
		sp, dp, seq, _, pl, ok := parseL4(in.trans, rc.L4)
		g := recvd{pkt: -1, detail: fmt.Sprintf("ports %d>%d seq %#x payload %q id %+v nic %d", sp, dp, seq, pl, rc.ID, rc.NIC)}
		if ok {
			i, found := 0, false
			if in.trans == transUDP {
				i, found = r.byTag[string(pl)]
			} else {
				i, found = r.byISS[seq]
			}
			if found {
				p := r.pkts[i]
				g.pkt = i
				g.srcOK = sp == p.t.SPort && dp == p.t.DPort && rc.ID.LocalAddress == p.t.Dst && rc.ID.RemoteAddress == p.t.Src &&
					rc.ID.LocalPort == p.t.DPort && rc.ID.RemotePort == p.t.SPort && rc.NIC == p.nic && (in.trans == transTCP || bytes.Equal(pl, p.tag))
			}
		}
		in.got = append(in.got, g)
	}
}

// openReal binds (and optionally connects) a real UDP socket, recording phases.
func (r *raceRun) openReal(d RIdent, stable bool) *inst {
	so, err := netsim.NewSock(r.w.s, udp.ProtocolNumber, netNum(d.V6))
	if err != nil {
		return nil
	}
	if d.V6 && d.V6Only {
		so.EP.SetSockOpt(tcpip.V6OnlyOption(1))
	}
	addr := tcpip.Address("")
	if d.Addr >= 0 {
		a := laddrs[mod(d.Addr, nAssignable)].A
		if isV6(a) == d.V6 {
			addr = a
		}
	}
	in := &inst{desc: "udp-socket", stable: stable, sock: so, trans: transUDP}
	t0 := r.tick()
	e := so.EP.Bind(tcpip.FullAddress{Addr: addr, Port: lports[mod(d.Port, len(lports))]}, nil)
	t1 := r.tick()
	if e != nil {
		// A refused Bind may have been registered for a moment (two address
		// families: the first registration is rolled back when the second fails);
		// what it was handed then is discarded by the socket.
		so.EP.Close()
		if stable {
			return nil
		}
		id := ident{Trans: transUDP, LA: addr, LP: lports[mod(d.Port, len(lports))], Nets: net4}
		if d.V6 {
			id.Nets = net6
			if !d.V6Only && addr == "" {
				id.Nets = net4 | net6
			}
		}
		in.failed = true
		in.desc = "udp-socket (Bind refused)"
		in.phases = []phase{{id: id, posFrom: t0, posTo: t1, defFrom: inf, defTo: -1}}
		in.loss = append(in.loss, [2]int64{t0, t1})
		return in
	}
	id, ie := identOf(transUDP, so, d.V6, d.V6 && d.V6Only)
	if ie != nil {
		so.EP.Close()
		return nil
	}
	in.phases = []phase{{id: id, posFrom: t0, defFrom: t1, posTo: inf, defTo: inf}}
	in.loss = append(in.loss, [2]int64{t0, t1})
	if stable {
		in.phases[0].posFrom, in.phases[0].defFrom = -1, -1
	}
	if d.Conn {
		runtime.Gosched()
		k := mod(d.RAddr, 2)
		if d.V6 && !d.Mapped {
			k += 2
		}
		peer := raddrs[k] // as it appears in packets
		arg := peer
		if d.V6 && d.Mapped {
			arg = tcpip.Address("\x00\x00\x00\x00\x00\x00\x00\x00\x00\x00\xff\xff") + peer
		}
		cnic := mod(d.CNIC, 3)
		if cnic > r.w.nics {
			cnic = 0
		}
		t2 := r.tick()
		e := so.EP.Connect(tcpip.FullAddress{NIC: tcpip.NICID(cnic), Addr: arg, Port: rports[mod(d.RPort, len(rports))]})
		t3 := r.tick()
		id2, ie := identOf(transUDP, so, d.V6, d.V6 && d.V6Only)
		if e != nil && !stable {
			// a refused Connect may have held the connected identity for a moment
			for _, l := range laddrs[:nAssignable] {
				if isV6(l.A) == isV6(peer) && (id.LA == "" || id.LA == l.A) {
					att := ident{Trans: transUDP, NIC: cnic, Nets: net4 | net6, LA: l.A, LP: id.LP, RA: peer, RP: rports[mod(d.RPort, len(rports))]}
					in.phases = append(in.phases, phase{id: att, posFrom: t2, posTo: t3, defFrom: inf, defTo: -1})
				}
			}
		}
		if ie == nil && (e == nil || id2 != id) {
			in.phases[0].defTo, in.phases[0].posTo = t2, t3
			np := phase{id: id2, posFrom: t2, defFrom: t3, posTo: inf, defTo: inf}
			if stable {
				// both identities belonged to the socket before the race started
				in.phases[0].defTo, in.phases[0].posTo = -1, -1
				np.posFrom, np.defFrom = -1, -1
			}
			in.phases = append(in.phases, np)
		}
	}
	return in
}

func (r *raceRun) closeReal(in *inst) {
	last := &in.phases[0]
	for k := range in.phases {
		if in.phases[k].posTo == inf {
			last = &in.phases[k]
		}
	}
	td := r.tick()
	last.defTo = td
	r.drain(in)
	in.sock.EP.Close()
	tc := r.tick()
	last.posTo = tc
	in.loss = append(in.loss, [2]int64{td, tc})
}

func (r *raceRun) openRaw(d RIdent, stable bool) *inst {
	id, np, sid := rawIdent(d)
	ep := &rawEP{}
	t0 := r.tick()
	e := r.w.s.RegisterTransportEndpoint(0, np, transNum(id.Trans), sid, ep)
	t1 := r.tick()
	in := &inst{desc: "raw-endpoint", stable: stable, raw: ep, rawNP: np, rawID: sid, trans: id.Trans}
	if e != nil {
		// refused, but possibly registered for one family for a moment
		if stable {
			return nil
		}
		in.failed = true
		in.desc = "raw-endpoint (registration refused)"
		in.phases = []phase{{id: id, posFrom: t0, posTo: t1, defFrom: inf, defTo: -1}}
		return in
	}
	in.phases = []phase{{id: id, posFrom: t0, defFrom: t1, posTo: inf, defTo: inf}}
	if stable {
		in.phases[0].posFrom, in.phases[0].defFrom = -1, -1
	}
	return in
}

func (r *raceRun) closeRaw(in *inst) {
	t2 := r.tick()
	r.w.s.UnregisterTransportEndpoint(0, in.rawNP, transNum(in.trans), in.rawID)
	t3 := r.tick()
	in.phases[0].defTo, in.phases[0].posTo = t2, t3
}

func (in *inst) String() string {
	s := in.desc
	if in.stable {
		s = "stable " + s
	} else {
		s = "churned " + s
	}
	for _, ph := range in.phases {
		s += fmt.Sprintf(" [%s possibly(%d,%d) certainly(%d,%d)]", ph.id, ph.posFrom, ph.posTo, ph.defFrom, ph.defTo)
	}
	return s
}

func runRace(c RaceCase) *evid.Failure {
	evid.Journal("race", c)
	races0 := raceErrors()
	nics := 1
	if c.NICs >= 2 {
		nics = 2
	}
	r := &raceRun{w: newWorld(nics), byTag: map[string]int{}, byISS: map[uint32]int{}}
	for n := 1; n <= 2; n++ {
		r.ifs[n] = &ifState{assigned: map[tcpip.Address]bool{}, subnets: map[int]bool{}}
	}
	for k := 0; k < nAssignable; k++ {
		l := laddrs[k]
		if l.Home > nics {
			continue
		}
		if e := r.w.s.AddAddress(tcpip.NICID(l.Home), netOf(l.A), l.A); e != nil {
			return evid.Failf("harness", "AddAddress: %v", e)
		}
		r.ifs[l.Home].assigned[l.A] = true
	}
	for n := 1; n <= nics; n++ {
		if n-1 < len(c.Promisc) && c.Promisc[n-1] {
			r.w.s.SetPromiscuousMode(tcpip.NICID(n), true)
			r.ifs[n].promisc = true
		}
	}
	if c.Subnet >= 0 {
		k := mod(c.Subnet, len(subnets))
		sn, _ := tcpip.NewSubnet(subnets[k].ID, tcpip.AddressMask(subnets[k].Mask))
		r.w.s.AddSubnet(1, netOf(subnets[k].ID), sn)
		r.ifs[1].subnets[k] = true
	}

	// stable sockets
	var insts []*inst
	for _, d := range c.Stable {
		var in *inst
		if d.Real {
			in = r.openReal(d, true)
		} else {
			in = r.openRaw(d, true)
		}
		if in != nil {
			insts = append(insts, in)
		}
	}
	nStable := len(insts)

	// packets (static)
	all := c.allIdents()
	for q := 0; q < nics && q < len(c.Pkts); q++ {
		for _, d := range c.Pkts[q] {
			p := &rpacket{idx: len(r.pkts), nic: q + 1, trans: transUDP}
			if d.Trans == transTCP {
				p.trans = transTCP
			}
			dst := laddrs[mod(d.Addr, len(laddrs))].A
			dport := lports[mod(d.Port, len(lports))]
			sk, sport := mod(d.RAddr, 2), rports[mod(d.RPort, len(rports))]
			if d.Ref >= 0 && len(all) > 0 {
				t := all[mod(d.Ref, len(all))]
				if d.Mut&32 == 0 {
					p.trans = transUDP
					if !t.Real && t.Trans == transTCP {
						p.trans = transTCP
					}
				}
				if d.Mut&1 == 0 {
					if t.Real && t.Addr >= 0 && !(t.V6 && t.Mapped) {
						dst = laddrs[mod(t.Addr, nAssignable)].A
					} else if t.Real && t.V6 && t.Mapped {
						dst = laddrs[mod(d.Addr, 3)].A
					} else if s := mod(t.Shape, 4); !t.Real && (s == 0 || s == 2) {
						dst = laddrs[mod(t.Addr, len(laddrs))].A
					}
				}
				if d.Mut&2 == 0 {
					dport = lports[mod(t.Port, len(lports))]
				}
				if d.Mut&4 == 0 {
					sk = mod(t.RAddr, 2)
				}
				if d.Mut&8 == 0 {
					sport = rports[mod(t.RPort, len(rports))]
				}
			}
			// keep most traffic on the interface that owns the destination
			if h := homeOf(dst); h != 0 && h != p.nic && h <= nics && d.Mut&16 == 0 {
				for _, l := range laddrs[:nAssignable] {
					if l.Home == p.nic && isV6(l.A) == isV6(dst) {
						dst = l.A
						break
					}
				}
			}
			if isV6(dst) {
				sk += 2
			}
			p.t = tuple{Src: raddrs[sk], SPort: sport, Dst: dst, DPort: dport}
			if p.trans == transUDP {
				p.tag = racePayload(p.idx)
				p.proto, p.bytes = buildUDP(p.t, p.tag, uint16(p.idx))
				r.byTag[string(p.tag)] = p.idx
			} else {
				p.iss = 0x50000000 + uint32(p.idx)<<12
				p.proto, p.bytes = buildTCP(p.t, codec.TCPSeg{Seq: p.iss, Flags: codec.SYN, Wnd: 65535, Opts: codec.OptMSS(1460)}, uint16(p.idx))
				r.byISS[p.iss] = p.idx
			}
			r.pkts = append(r.pkts, p)
		}
	}

	// the race
	var injectors, churners sync.WaitGroup
	var stop atomic.Bool
	start := make(chan struct{})
	for n := 1; n <= nics; n++ {
		injectors.Add(1)
		go func(n int) {
			defer injectors.Done()
			<-start
			k := 0
			for _, p := range r.pkts {
				if p.nic != n {
					continue
				}
				p.ts = r.tick()
				r.w.taps[n].Inject(p.proto, p.bytes)
				p.te = r.tick()
				if k++; k%16 == 0 {
					runtime.Gosched()
				}
			}
		}(n)
	}
	churned := make([][]*inst, len(c.Churn))
	reps := c.Reps
	if reps < 1 {
		reps = 1
	}
	if reps > 64 {
		reps = 64
	}
	for g := range c.Churn {
		churners.Add(1)
		go func(g int) {
			defer churners.Done()
			<-start
			for rep := 0; rep < reps*8 && !stop.Load(); rep++ {
				for _, d := range c.Churn[g] {
					var in *inst
					if d.Real {
						in = r.openReal(d, false)
					} else {
						in = r.openRaw(d, false)
					}
					if in == nil {
						runtime.Gosched()
						continue
					}
					if in.failed {
						churned[g] = append(churned[g], in)
						runtime.Gosched()
						continue
					}
					if (rep+g)%3 == 0 {
						runtime.Gosched()
					}
					if d.Real {
						r.closeReal(in)
					} else {
						r.closeRaw(in)
					}
					churned[g] = append(churned[g], in)
				}
			}
		}(g)
	}
	close(start)
	injectors.Wait()
	stop.Store(true)
	churners.Wait()

	for _, l := range churned {
		insts = append(insts, l...)
	}
	for _, in := range insts {
		if in.raw != nil {
			r.collectRaw(in)
		} else if in.stable && !in.failed {
			r.drain(in)
		}
	}
	// resets, by acknowledgement number
	rsts := map[int]int{}
	for n := 1; n <= nics; n++ {
		for _, f := range r.w.taps[n].Trace() {
			k := f.Pkt
			if k.L4Kind != "tcp" {
				continue
			}
			i, ok := r.byISS[k.Ack-1]
			if !ok || k.Flags&codec.RST == 0 {
				return evid.Failf("unexpected-reply", "racing: interface %d emitted %s, which answers nothing that was injected", n, k)
			}
			p := r.pkts[i]
			if string(k.Src) != string(p.t.Dst) || string(k.Dst) != string(p.t.Src) || k.SrcPort != p.t.DPort || k.DstPort != p.t.SPort || n != p.nic {
				return evid.Failf("unexpected-reply", "racing: reset %s on interface %d does not mirror packet %d (%s on interface %d)", k, n, i, p.t, p.nic)
			}
			rsts[i]++
		}
	}
	// cleanup (after the observations)
	defer func() {
		for _, in := range insts[:nStable] {
			if in.sock != nil {
				in.sock.EP.Close()
			} else {
				r.w.s.UnregisterTransportEndpoint(0, in.rawNP, transNum(in.trans), in.rawID)
			}
		}
	}()

	// no identity may be held twice at the same time
	for a := 0; a < len(insts); a++ {
		for b := a + 1; b < len(insts); b++ {
			for _, pa := range insts[a].phases {
				for _, pb := range insts[b].phases {
					if pa.id.sameSlot(pb.id) && pa.defFrom < pb.defTo && pb.defFrom < pa.defTo && pa.defFrom < pa.defTo && pb.defFrom < pb.defTo {
						return evid.Failf("duplicate-identity-accepted", "racing: two sockets certainly held the same identity at the same time:\n  %s\n  %s", insts[a], insts[b])
					}
				}
			}
		}
	}

	// receivers per packet
	recv := make([][]*inst, len(r.pkts))
	for _, in := range insts {
		for _, g := range in.got {
			if g.pkt < 0 {
				return evid.Failf("wrong-packet-delivered", "racing: %s received something that was never injected: %s", in, g.detail)
			}
			if !g.srcOK {
				return evid.Failf("wrong-source-reported", "racing: %s received packet %d (%s) with wrong addressing: %s", in, g.pkt, r.pkts[g.pkt].t, g.detail)
			}
			recv[g.pkt] = append(recv[g.pkt], in)
		}
	}
	contended := 0
	for i, p := range r.pkts {
		processed, via := r.ifs[p.nic].processed(p.t.Dst)
		desc := fmt.Sprintf("packet %d (%s %s on interface %d, destination %s, injected during (%d,%d))", i, map[int]string{transUDP: "udp", transTCP: "tcp"}[p.trans], p.t, p.nic, via, p.ts, p.te)
		if len(recv[i]) > 1 {
			return evid.Failf("delivered-twice", "racing: %s was received %d times:\n  %s\n  %s", desc, len(recv[i]), recv[i][0], recv[i][1])
		}
		if !processed {
			if len(recv[i]) != 0 || rsts[i] != 0 {
				return evid.Failf("processed-unowned-destination", "racing: %s was processed (receivers %v, resets %d)", desc, recv[i], rsts[i])
			}
			evid.Label("race:dropped-" + via)
			continue
		}
		bestDef, racing := 99, false
		lossy := false
		for _, in := range insts {
			for k := range in.phases {
				ph := &in.phases[k]
				if !ph.id.matches(p.trans, p.nic, p.t) {
					continue
				}
				possible := ph.posFrom < p.te && p.ts < ph.posTo
				definite := ph.defFrom < p.ts && p.te < ph.defTo
				if definite && ph.id.rank() < bestDef {
					bestDef = ph.id.rank()
				}
				if possible && !definite {
					racing = true
				}
			}
		}
		for _, in := range insts {
			for k := range in.phases {
				ph := &in.phases[k]
				if in.sock != nil && !in.stable && ph.id.matches(p.trans, p.nic, p.t) && ph.posFrom < p.te && p.ts < ph.posTo && ph.id.rank() <= bestDef {
					for _, w := range in.loss {
						if w[0] < p.te && p.ts < w[1] {
							lossy = true
						}
					}
				}
			}
		}
		if racing {
			contended++
			evid.Label("race:packet-raced-with-open-or-close")
		}
		if len(recv[i]) == 1 {
			in := recv[i][0]
			rr := 99
			for _, ph := range in.phases {
				if ph.id.matches(p.trans, p.nic, p.t) && ph.posFrom < p.te && p.ts < ph.posTo && ph.id.rank() < rr {
					rr = ph.id.rank()
				}
			}
			if rr == 99 {
				return evid.Failf("delivered-to-wrong-socket", "racing: %s was received by %s, which does not match it or was closed", desc, in)
			}
			if rr > bestDef {
				return evid.Failf("delivered-to-wrong-socket", "racing: %s was received by %s (rank %d) although a more specific match (rank %d) was open throughout", desc, in, rr, bestDef)
			}
			if rsts[i] != 0 {
				return evid.Failf("delivered-twice", "racing: %s was received by %s and also answered with a reset", desc, in)
			}
			if in.stable {
				evid.Label(fmt.Sprintf("race:delivered-stable-rank%d", rr))
			} else {
				evid.Label(fmt.Sprintf("race:delivered-churned-rank%d", rr))
			}
			continue
		}
		// nobody received it
		if p.trans == transTCP {
			if rsts[i] != 1 {
				return evid.Failf("no-reset", "racing: %s was received by nobody and answered with %d resets", desc, rsts[i])
			}
			if bestDef != 99 {
				return evid.Failf("not-delivered-to-addressee", "racing: %s was reset although a matching socket (rank %d) was open throughout", desc, bestDef)
			}
			evid.Label("race:tcp-reset")
			continue
		}
		if bestDef != 99 {
			if lossy {
				evid.Label("race:possibly-discarded-by-socket-in-bind-or-close")
				continue
			}
			return evid.Failf("not-delivered-to-addressee", "racing: %s was received by nobody although a matching socket (rank %d) was open throughout", desc, bestDef)
		}
		evid.Label("race:udp-nobody")
	}
	if n := raceErrors() - races0; n > 0 {
		return evid.Failf("race-detector", "the race detector reported %d data race(s) during the case (re-run the replay to see the report in the log)", n)
	}
	if contended > 0 {
		evid.NonTrivialKey("race", fmt.Sprintf("%+v", c))
		evid.Sample("race-contended", c)
	}
	return nil
}

func genRIdent(rt *rapid.T, real bool) RIdent {
	d := RIdent{Real: real}
	pick := func(name string, n int) int { return rapid.IntRange(0, n-1).Draw(rt, name) }
	d.Port = pick("port", 2)
	d.RAddr, d.RPort = pick("raddr", 2), pick("rport", len(rports))
	if real {
		d.V6 = pick("v6", 4) == 0
		d.V6Only = d.V6 && rapid.Bool().Draw(rt, "v6only")
		d.Addr = -1
		if rapid.Bool().Draw(rt, "specific") {
			if d.V6 {
				d.Addr = 3
			} else {
				d.Addr = rapid.SampledFrom([]int{0, 0, 1, 2}).Draw(rt, "addr")
			}
		}
		d.Conn = pick("conn", 2) == 0
		if d.Conn {
			d.CNIC = rapid.SampledFrom([]int{0, 0, 0, 1, 1, 2}).Draw(rt, "cnic")
			d.Mapped = d.V6 && !d.V6Only && pick("mapped", 2) == 0
		}
		return d
	}
	d.Trans = rapid.SampledFrom([]int{transUDP, transUDP, transTCP}).Draw(rt, "trans")
	d.Addr = rapid.SampledFrom([]int{0, 0, 0, 0, 1, 1, 1, 2, 3, 5}).Draw(rt, "addr")
	d.Shape = pick("shape", 4)
	d.Nets = rapid.SampledFrom([]int{3, 3, 3, 1, 2}).Draw(rt, "nets")
	return d
}

func genRace(rt *rapid.T) RaceCase {
	c := RaceCase{NICs: rapid.SampledFrom([]int{1, 2, 2, 2}).Draw(rt, "nics"), Subnet: -1}
	for n := 0; n < 2; n++ {
		c.Promisc = append(c.Promisc, rapid.IntRange(0, 5).Draw(rt, "promisc") == 0)
	}
	if rapid.IntRange(0, 4).Draw(rt, "subnet") == 0 {
		c.Subnet = rapid.IntRange(0, len(subnets)-1).Draw(rt, "sub")
	}
	ns := rapid.IntRange(1, 5).Draw(rt, "nstable")
	for i := 0; i < ns; i++ {
		c.Stable = append(c.Stable, genRIdent(rt, rapid.IntRange(0, 2).Draw(rt, "real") == 0))
	}
	ng := rapid.IntRange(1, 3).Draw(rt, "churners")
	for g := 0; g < ng; g++ {
		var l []RIdent
		n := rapid.IntRange(1, 3).Draw(rt, "nchurn")
		for i := 0; i < n; i++ {
			l = append(l, genRIdent(rt, rapid.IntRange(0, 3).Draw(rt, "real") == 0))
		}
		c.Churn = append(c.Churn, l)
	}
	nid := len(c.allIdents())
	for q := 0; q < c.NICs; q++ {
		var l []RPkt
		n := rapid.IntRange(20, 120).Draw(rt, "npkts")
		for i := 0; i < n; i++ {
			p := RPkt{Trans: rapid.SampledFrom([]int{transUDP, transUDP, transTCP}).Draw(rt, "trans"), Ref: -1}
			p.Addr = rapid.SampledFrom([]int{0, 0, 0, 0, 1, 1, 1, 2, 2, 3, 3, 4, 5, 6}).Draw(rt, "dst")
			p.Port, p.RAddr, p.RPort = rapid.IntRange(0, 1).Draw(rt, "dport"), rapid.IntRange(0, 1).Draw(rt, "src"), rapid.IntRange(0, len(rports)-1).Draw(rt, "sport")
			if rapid.IntRange(0, 5).Draw(rt, "targeted") > 0 {
				p.Ref = rapid.IntRange(0, nid-1).Draw(rt, "ref")
				p.Mut = rapid.SampledFrom([]int{0, 0, 0, 0, 0, 1, 4, 8, 12, 2, 32, 16}).Draw(rt, "mut")
			}
			l = append(l, p)
		}
		c.Pkts = append(c.Pkts, l)
	}
	c.Reps = rapid.IntRange(2, 40).Draw(rt, "reps")
	return c
}

func TestRace(t *testing.T) {
	if !raceEnabled {
		evid.Note("racing unit ran without the race detector")
	}
	evid.Run(t, evid.Spec[RaceCase]{Name: "race", Gen: genRace, Run: runRace})
}
