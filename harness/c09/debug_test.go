package c09

import (
	"encoding/json"
	"fmt"
	"os"
	"testing"

	"verifharness/evid"
)

func TestDbg(t *testing.T) {
	p := os.Getenv("C09_DBG")
	if p == "" {
		t.Skip()
	}
	b, _ := os.ReadFile(p)
	var rf evid.ReplayFile
	json.Unmarshal(b, &rf)
	var c SeqCase
	json.Unmarshal(rf.Case, &c)
	dbg = true
	f, live := runSeqOnce(c)
	fmt.Println(f, live)
}
