package c18

// Check "sched": rapid draws a program and a schedule (choice sequence). A
// failing case shrinks (all-zero choices = the non-pre-emptive schedule) and
// replays deterministically; the enumerators report under the same name.

import (
	"strings"
	"testing"

	"pgregory.net/rapid"
	"verifharness/evid"
)

func genCase(rt *rapid.T) Case {
	g := rapid.IntRange(2, 4).Draw(rt, "goroutines")
	prog := make([]string, g)
	two := rapid.IntRange(0, 3).Draw(rt, "two-mutexes") == 1
	for i := range prog {
		n := rapid.IntRange(1, 3).Draw(rt, "ops")
		var sb strings.Builder
		for k := 0; k < n; k++ {
			// Lock twice as likely as TryLock: waiters are what makes schedules interesting
			op := byte('L')
			if rapid.IntRange(0, 2).Draw(rt, "op") == 2 {
				op = 'T'
			}
			if two && rapid.Bool().Draw(rt, "second") {
				op += 'a' - 'A' // the same operation on the second mutex instance
			}
			sb.WriteByte(op)
		}
		if two && i == g-1 && rapid.Bool().Draw(rt, "hold-for-good") {
			sb.WriteByte('h') // the last goroutine ends by taking the second mutex for good
		}
		prog[i] = sb.String()
	}
	// pre-emption density: most steps continue the running goroutine
	dens := rapid.SampledFrom([]int{2, 3, 5, 8}).Draw(rt, "density")
	n := rapid.IntRange(0, 80).Draw(rt, "len")
	ch := make([]int, n)
	for i := range ch {
		if rapid.IntRange(0, dens-1).Draw(rt, "pre") == 0 {
			ch[i] = rapid.IntRange(1, 3).Draw(rt, "alt")
		}
	}
	return Case{Prog: strings.Join(prog, "/"), Choices: ch}
}

func maxOpsOf(prog []string) int {
	mx := 0
	for _, s := range prog {
		if len(s) > mx {
			mx = len(s)
		}
	}
	return mx
}

// enumeratedBound returns the pre-emption bound up to which the enumerators of
// this tier cover the program (-1: completely, -2: not at all).
func enumeratedBound(prog []string) int {
	if inComplete(prog) {
		return -1
	}
	best := -2
	for _, sc := range boundedScopes() {
		if len(prog) == sc.g && maxOpsOf(prog) <= sc.ops && sc.preempt > best {
			best = sc.preempt
		}
	}
	return best
}

var randTally tally

func TestSchedRandom(t *testing.T) {
	evid.Run(t, evid.Spec[Case]{
		Name: "sched",
		Gen:  genCase,
		Run: func(c Case) *evid.Failure {
			w, res, f := runCase(c)
			if w == nil {
				evid.Label("random:unparsable_program_skipped")
				return nil
			}
			if w.zeroStepOps > 0 || w.totalHookHit == 0 {
				evid.Inconclusive("an operation of pkg/tmutex executed no instrumented step: the overlay instrumentation is not in effect")
				return nil
			}
			if f != nil {
				prog, _ := parseProg(c.Prog)
				tr := withTrace(prog, res.Choices)
				f.Msg += "\nprogram " + c.Prog + "; " + strings.Join(tr.Trace, "\n")
				return f
			}
			nt := randTally.add(w, &res)
			// counted as distinct non-trivial only outside what the enumerators of
			// this tier already cover (those count by construction)
			prog, _ := parseProg(c.Prog)
			if b := enumeratedBound(prog); nt && b != -1 && res.Preemptions > b {
				evid.NonTrivialKey(c.Prog, res.TraceString())
				evid.Label("random:nontrivial_outside_enumerated_scope")
				if res.Preemptions >= 4 {
					evid.Sample("random-nontrivial", Case{Prog: c.Prog, Choices: res.Choices})
				}
			}
			return nil
		},
	})
	randTally.flush("random:")
}
