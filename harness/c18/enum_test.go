package c18

// Systematic stateless enumeration of schedules (DESIGN §5 C18 G.(1)).

import (
	"fmt"
	"sort"
	"strings"
	"testing"

	"verifharness/evid"
	"verifharness/sched"
)

// seqs returns all operation sequences over {L,T} of length 1..maxOps.
func seqs(maxOps int) []string {
	var out []string
	var rec func(cur string)
	rec = func(cur string) {
		if len(cur) > 0 {
			out = append(out, cur)
		}
		if len(cur) == maxOps {
			return
		}
		rec(cur + "L")
		rec(cur + "T")
	}
	rec("")
	sort.Slice(out, func(i, j int) bool {
		if len(out[i]) != len(out[j]) {
			return len(out[i]) < len(out[j])
		}
		return out[i] < out[j]
	})
	return out
}

// programs returns every program of exactly g goroutines with 1..maxOps
// operations each, up to permutation of the goroutines (the mutex and the
// enumerated schedule sets are symmetric in the goroutine identities): the
// per-goroutine sequences appear in non-decreasing order of seqs().
func programs(g, maxOps int) [][]string {
	alpha := seqs(maxOps)
	var out [][]string
	var rec func(from int, cur []string)
	rec = func(from int, cur []string) {
		if len(cur) == g {
			out = append(out, append([]string(nil), cur...))
			return
		}
		for i := from; i < len(alpha); i++ {
			rec(i, append(cur, alpha[i]))
		}
	}
	rec(0, nil)
	return out
}

type scope struct {
	g, ops  int
	preempt int // -1 = complete
}

func (s scope) String() string {
	if s.preempt < 0 {
		return fmt.Sprintf("all schedules of every program of %d goroutines x 1..%d ops", s.g, s.ops)
	}
	return fmt.Sprintf("all schedules with <= %d pre-emptions of every program of %d goroutines x 1..%d ops", s.preempt, s.g, s.ops)
}

func completeScopes() []scope {
	// measured (schedules): 2x1: 37, 2x2: 15 296, 3x1: 13 698; 2x3 is > 10^7 (bounded instead)
	return []scope{{2, 2, -1}, {3, 1, -1}}
}

func inComplete(prog []string) bool {
	mx := 0
	for _, s := range prog {
		if len(s) > mx {
			mx = len(s)
		}
	}
	for _, sc := range completeScopes() {
		if len(prog) == sc.g && mx <= sc.ops {
			return true
		}
	}
	return false
}

func boundedScopes() []scope {
	if evid.Thorough() {
		// measured: 2x3<=6: 2.6e5, 3x2<=4: 7.0e5, 4x1<=4: 1.9e5, 3x3<=3: 6.4e6, 4x2<=3: 1.5e7,
		// 4x3<=1: 3.1e6 (4x3<=2 is 7e7: left to the random check)
		return []scope{{2, 3, 8}, {3, 2, 5}, {4, 1, 5}, {3, 3, 3}, {4, 2, 3}, {4, 3, 1}}
	}
	// measured: 2x3<=4: 5.2e4, 3x2<=3: 1.5e5, 4x1<=3: 4.8e4, 3x3<=2: 7.4e5, 4x2<=2: 1.4e6
	return []scope{{2, 3, 4}, {3, 2, 3}, {4, 1, 3}, {3, 3, 2}, {4, 2, 2}}
}

// twoMutexPrograms: contention on two mutex instances at once (lower case = the
// second mutex), explored with the pre-emption bound of the 4-goroutine scope.
func twoMutexPrograms() [][]string {
	return [][]string{{"L", "L", "l", "l"}, {"L", "L", "l"}, {"L", "l"}, {"L", "T", "l", "l"}, {"L", "L", "l", "t"}, {"LL", "L", "l"}, {"Ll", "lL"}, {"Ll", "L", "l"}, {"T", "l"}, {"Tt", "l", "L"},
		{"L", "L", "h", "l"}, {"L", "L", "h", "l", "l"}, {"LL", "L", "h", "l"}, {"L", "T", "h", "l"}, {"H", "L", "l", "l"}, {"L", "L", "L", "h", "l"}}
}

const prefixDepth = 6

// enumerate runs the scopes; work items are (program, choice prefix) pairs
// dealt round-robin to the shards.
func enumerate(t *testing.T, scopes []scope, label string, skip func([]string) bool) {
	if evid.ReplayMode() {
		t.Skip("replays of check sched are hosted by TestSchedRandom")
	}
	installHooks()
	defer removeHooks()
	// every program once, with the widest bound of any scope that contains it
	type job struct {
		prog    []string
		preempt int
	}
	var jobs []job
	idx := map[string]int{}
	for _, sc := range scopes {
		for _, prog := range programs(sc.g, sc.ops) {
			if skip != nil && skip(prog) {
				continue
			}
			key := strings.Join(prog, "/")
			if i, ok := idx[key]; ok {
				if jobs[i].preempt >= 0 && (sc.preempt < 0 || sc.preempt > jobs[i].preempt) {
					jobs[i].preempt = sc.preempt
				}
				continue
			}
			idx[key] = len(jobs)
			jobs = append(jobs, job{prog, sc.preempt})
		}
	}
	if label == "bounded" {
		pre := 3
		if evid.Thorough() {
			pre = 5
		}
		for _, prog := range twoMutexPrograms() {
			jobs = append(jobs, job{prog, pre})
		}
	}
	item := 0
	var tl tally
	hookHits := 0
	finish := func() {
		evid.Eval(tl.runs)
		evid.DistinctByConstruction(tl.nt)
		tl.flush(label + ":")
		t.Logf("%s: shard %d/%d: %d programs, %d schedules (%d non-trivial, %d deadlocks, %d pruned, max %d pre-emptions in one schedule)",
			label, evid.ShardIdx, evid.NShards, len(jobs), tl.runs, tl.nt, tl.deadlocks, tl.pruned, tl.maxPre)
	}
	for _, jb := range jobs {
		prog := jb.prog
		var w *world
		mk := func() []func() {
			var b []func()
			w, b = newWorld(prog, false)
			cur = w
			return b
		}
		cfg := sched.ExploreCfg{Opts: sched.Options{MaxSteps: maxSteps, EagerStart: true}, MaxPreempt: jb.preempt}
		prefixes := sched.Prefixes(cfg, prefixDepth, mk)
		cur = nil
		for _, pf := range prefixes {
			item++
			if item%evid.NShards != evid.ShardIdx {
				continue
			}
			c := cfg
			c.Prefix = pf // Explore recounts the pre-emptions spent inside the prefix
			stop := false
			sched.Explore(c, mk, func(res *sched.Result) bool {
				f := w.judge(res)
				hookHits += w.totalHookHit
				if tl.add(w, res) && tl.nt%50000 == 1 {
					evid.Sample(label+"-nontrivial", Case{Prog: strings.Join(prog, "/"), Choices: append([]int(nil), res.Choices...)})
				}
				if w.zeroStepOps > 0 {
					evid.Inconclusive("an operation of pkg/tmutex executed no instrumented step: the overlay instrumentation is not in effect")
					stop = true
					return false
				}
				if f != nil {
					cur = nil
					cs := withTrace(prog, res.Choices)
					installHooks()
					f.Msg += "\nprogram " + cs.Prog + "; " + strings.Join(cs.Trace, "\n")
					if evid.Direct(t, "sched", f, cs) {
						stop = true
						return false
					}
				}
				return true
			})
			cur = nil
			if stop {
				finish()
				return
			}
		}
	}
	finish()
	for _, sc := range scopes {
		evid.Exhaustive(sc.String())
	}
	if tl.runs > 0 && hookHits == 0 {
		evid.Inconclusive("no schedule point of pkg/tmutex was ever reached: the overlay instrumentation is not in effect")
	}
}

// TestEnumComplete enumerates EVERY schedule (no bound) of the small programs.
func TestEnumComplete(t *testing.T) {
	enumerate(t, completeScopes(), "complete", nil)
}

// TestEnumBounded enumerates every schedule with a bounded number of
// pre-emptions of the larger programs (those not already enumerated completely
// in this tier).
func TestEnumBounded(t *testing.T) {
	enumerate(t, boundedScopes(), "bounded", inComplete)
}
