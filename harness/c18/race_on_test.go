//go:build race

package c18

// raceEnabled reports whether the binary was built with the race detector.
const raceEnabled = true
