package c18

import (
	"os"
	"strings"
	"testing"
	"time"
	"fmt"

	"verifharness/sched"
)

func TestSizes(t *testing.T) {
	installHooks()
	defer removeHooks()
	for _, spec := range strings.Split(os.Getenv("C18_SCOPES"), ";") {
		var sc scope
		fmt.Sscanf(spec, "%d,%d,%d", &sc.g, &sc.ops, &sc.preempt)
		st := time.Now()
		var runs, dl, fails int64
		var big string
		var bigN int64
		for _, prog := range programs(sc.g, sc.ops) {
			var w *world
			mk := func() []func() { var b []func(); w, b = newWorld(prog, false); cur = w; return b }
			s := sched.Explore(sched.ExploreCfg{Opts: sched.Options{MaxSteps: maxSteps, EagerStart: true}, MaxPreempt: sc.preempt}, mk, func(r *sched.Result) bool {
				if f := w.judge(r); f != nil { fails++; if fails == 1 { t.Logf("first failure %v: %s %v: %s", prog, f.Sig, r.Choices, f.Msg) } }
				return true
			})
			runs += s.Runs; dl += s.Deadlocks
			if s.Runs > bigN { bigN = s.Runs; big = strings.Join(prog, "/") }
		}
		t.Logf("scope %v: programs=%d schedules=%d deadlocks=%d failures=%d biggest=%s(%d) in %v", sc, len(programs(sc.g, sc.ops)), runs, dl, fails, big, bigN, time.Since(st))
	}
}
