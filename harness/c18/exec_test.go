package c18

// Controlled execution of one (program, schedule) pair over the
// overlay-instrumented pkg/tmutex, and the oracle of C18.
//
// A program is a string such as "LT/L/TL": goroutines separated by '/', each a
// sequence of operations: 'L' = Lock(); Unlock()   'T' = if TryLock() { Unlock() }.
// Lower-case 'l' and 't' are the same operations on a SECOND mutex: every
// statement of the property is per mutex (a TryLock of one succeeds whatever
// happens on the other; an Unlock of one wakes a waiter of that one), so state
// shared between instances shows as a violation on one of them.
// 'H' / 'h' = Lock() of the first / second mutex that is never followed by an
// Unlock (a holder that keeps the mutex for good): goroutines waiting for THAT
// mutex then legitimately wait forever, and the execution ends with them
// parked; anybody parked on a mutex that nobody holds is a lost wake-up.
// Programs respect the API contract by construction: only the holder unlocks.
//
// Steps. The instrumented code calls tmutex.VerifYield immediately before every
// atomic operation (and before Unlock's non-blocking select) and
// tmutex.VerifBlockOn before the blocking receive. Both park the goroutine in
// verifharness/sched; one step = one such operation plus the local code up to
// the next schedule point. The hooks below also keep the oracle's bookkeeping,
// at the exact moment the step starts to execute (after the goroutine was
// resumed, before the atomic operation runs).

import (
	"fmt"
	"sort"
	"strings"

	"github.com/brewlin/net-protocol/pkg/tmutex"
	"verifharness/evid"
	"verifharness/sched"
)

// Case is one controlled execution; it is the replay file of check "sched".
type Case struct {
	Prog    string `json:"prog"`
	Choices []int  `json:"choices"`
	// Trace is informational (written with violations): the step log.
	Trace []string `json:"trace,omitempty"`
}

const maxSteps = 600

// trySpinBound: a TryLock that takes this many consecutive steps with no step
// of any other goroutine in between is spinning (there is no interference it
// could be retrying against), i.e. it does not "complete without blocking".
const trySpinBound = 16

type opRec struct {
	g         int
	kind      byte // 'L', 'T', 'U'
	ok        bool
	inv, resp int // first and last step number of the operation (1-based, global)
}

type gstate struct {
	mx       int  // which mutex the operation in progress acts on
	kind     byte // operation in progress: 'L','T','U', 0 = none
	active   bool // has executed at least one step of the current operation
	opSteps  int
	wakes    int // returns from the blocking receive within the current operation
	run      int // consecutive steps of this goroutine (no other goroutine stepping in between)
	inv      int
	holding  bool
	finished bool
	// TryLock bookkeeping
	contended0 bool
	epoch0     int
	// where it is parked
	parkBlock func() bool // non-nil: parked at a blocking point with this readiness predicate
	parkCap   int
	parkKind  string
}

type world struct {
	m       [2]tmutex.Mutex
	prog    []string
	gs      []gstate
	clock   int // number of steps started
	lastG   int
	holders [2]int
	epoch   [2]int // per mutex: number of operations that executed their first step
	hist    [2][]opRec
	// heldForGood: a goroutine locked the mutex and will never unlock it (op 'H'/'h')
	heldForGood [2]bool
	fail    *evid.Failure
	tracing bool
	log     []string

	waitersOfHeldForGood bool // the execution ended with goroutines legitimately parked on a mutex held for good

	// statistics of this execution (for labels / the non-trivial rule)
	ntPreempt    bool // a pre-emption inside Lock's slow path or inside Unlock after its first step
	everBlocked  bool // a goroutine reached the receive with no token present
	slowAcquire  bool // a Lock returned after more than one step
	tryFail      int
	tryOK        int
	zeroStepOps  int
	staleWake    bool // a Lock went round its loop more than once (woken without getting the mutex)
	totalHookHit int
}

// cur is the world of the execution in progress (hooks are process-global).
var cur *world

func installHooks() {
	tmutex.VerifYield = hookYield
	tmutex.VerifBlockOn = hookBlockOn
}

func removeHooks() {
	tmutex.VerifYield = nil
	tmutex.VerifBlockOn = nil
}

func hookYield() {
	w := cur
	if w == nil || !sched.Active() {
		return
	}
	g := sched.Gid()
	st := &w.gs[g]
	st.parkBlock = nil
	sched.Yield()
	w.stepBegins(g)
}

func hookBlockOn(kind string, chanCap int, ready func() bool) {
	w := cur
	if w == nil || !sched.Active() {
		return
	}
	g := sched.Gid()
	st := &w.gs[g]
	if st.kind == 'T' {
		w.failf("trylock-blocks", "g%d: TryLock reached a blocking %s (channel capacity %d)", g, kind, chanCap)
	}
	if !ready() {
		w.everBlocked = true
		if w.tracing {
			w.logf("        g%d %s parks at blocking %s (nothing buffered, cap %d)", g, opName(st.kind), kind, chanCap)
		}
	}
	if st.wakes > 0 {
		w.staleWake = true // woken before, did not get the mutex, waits again
	}
	st.parkBlock, st.parkCap, st.parkKind = ready, chanCap, kind
	sched.BlockOn(ready)
	st.parkBlock = nil
	st.wakes++
	w.stepBegins(g)
}

func opName(k byte) string {
	switch k {
	case 'L':
		return "Lock"
	case 'T':
		return "TryLock"
	case 'U':
		return "Unlock"
	}
	return "-"
}

func (w *world) logf(format string, a ...any) { w.log = append(w.log, fmt.Sprintf(format, a...)) }

func (w *world) failf(sig, format string, a ...any) {
	if w.fail == nil {
		w.fail = evid.Failf(sig, format, a...)
	}
	if w.tracing {
		w.logf("        !! %s: %s", sig, fmt.Sprintf(format, a...))
	}
}

// stepBegins runs on goroutine g right after the scheduler resumed it, before
// the operation of the step executes.
func (w *world) stepBegins(g int) {
	w.totalHookHit++
	w.clock++
	st := &w.gs[g]
	if p := w.lastG; p >= 0 && p != g {
		// the scheduler switched away from p: a pre-emption if p was still enabled
		ps := &w.gs[p]
		if !ps.finished && (ps.parkBlock == nil || ps.parkBlock()) {
			if (ps.kind == 'L' || ps.kind == 'U') && ps.opSteps >= 1 {
				w.ntPreempt = true
			}
		}
		st.run = 0
	}
	w.lastG = g
	st.run++
	st.opSteps++
	if !st.active {
		st.active = true
		st.inv = w.clock
		w.epoch[st.mx]++
		if st.kind == 'T' {
			st.contended0 = w.holders[st.mx] > 0 || w.otherActive(g, st.mx)
			st.epoch0 = w.epoch[st.mx]
		}
	}
	if st.kind == 'U' && st.holding {
		// the holder's Unlock executes its first atomic operation now: from here
		// on it no longer counts as being inside the critical section
		st.holding = false
		w.holders[st.mx]--
	}
	if st.kind == 'T' && st.run > trySpinBound {
		w.failf("trylock-spins", "g%d: TryLock took %d consecutive steps with no other goroutine running in between: it spins instead of returning", g, st.run)
	}
	if w.tracing {
		w.logf("step %2d: g%d %s step %d", w.clock, g, opName(st.kind), st.opSteps)
	}
}

func (w *world) otherActive(g, mx int) bool {
	for i := range w.gs {
		if i != g && w.gs[i].active && w.gs[i].mx == mx {
			return true
		}
	}
	return false
}

func (w *world) begin(g int, kind byte, mx int) {
	st := &w.gs[g]
	st.mx = mx
	st.kind, st.active, st.opSteps, st.inv, st.wakes = kind, false, 0, 0, 0
}

func (w *world) end(g int, kind byte, ok bool) {
	st := &w.gs[g]
	if !st.active {
		// the operation executed no instrumented step at all
		w.zeroStepOps++
		st.inv = w.clock
	}
	mx := st.mx
	w.hist[mx] = append(w.hist[mx], opRec{g: g, kind: kind, ok: ok, inv: st.inv, resp: w.clock})
	if w.tracing {
		switch kind {
		case 'T':
			w.logf("        g%d TryLock returns %v", g, ok)
		default:
			w.logf("        g%d %s returns", g, opName(kind))
		}
	}
	switch kind {
	case 'T':
		if ok {
			w.tryOK++
		} else {
			w.tryFail++
			if st.active && !st.contended0 && w.epoch[mx] == st.epoch0 {
				w.failf("trylock-spurious-fail", "g%d: TryLock returned false although, from its first step to its return, no goroutine held the mutex and no other goroutine was inside a mutex operation", g)
			}
		}
	case 'L':
		if st.opSteps > 1 {
			w.slowAcquire = true
		}
	}
	if ok && kind != 'U' {
		w.holders[mx]++
		st.holding = true
		if w.holders[mx] > 1 {
			var hs []string
			for i := range w.gs {
				if w.gs[i].holding && w.gs[i].mx == mx {
					hs = append(hs, fmt.Sprintf("g%d", i))
				}
			}
			w.failf("mutex:two-holders", "%s hold the mutex at the same time (g%d's %s just returned success)", strings.Join(hs, " and "), g, opName(kind))
		}
	}
	st.kind, st.active = 0, false
}

func parseProg(p string) ([]string, bool) {
	gs := strings.Split(p, "/")
	if len(gs) < 1 || len(gs) > 8 {
		return nil, false
	}
	for _, s := range gs {
		if len(s) == 0 || len(s) > 8 || strings.Trim(s, "LTltHh") != "" {
			return nil, false
		}
	}
	return gs, true
}

func newWorld(prog []string, tracing bool) (*world, []func()) {
	w := &world{prog: prog, gs: make([]gstate, len(prog)), lastG: -1, tracing: tracing}
	tmutex.VerifResetGlobals() // package-level state must not leak from one execution into the next
	w.m[0].Init()
	w.m[1].Init()
	bodies := make([]func(), len(prog))
	for g := range prog {
		g := g
		bodies[g] = func() {
			for i := 0; i < len(prog[g]); i++ {
				kind, mx := prog[g][i], 0
				if kind == 'l' || kind == 't' || kind == 'h' {
					kind, mx = kind-'a'+'A', 1
				}
				if kind == 'H' {
					w.begin(g, 'L', mx)
					w.m[mx].Lock()
					w.end(g, 'L', true)
					w.heldForGood[mx] = true
					continue
				}
				w.begin(g, kind, mx)
				ok := true
				if kind == 'L' {
					w.m[mx].Lock()
				} else {
					ok = w.m[mx].TryLock()
				}
				w.end(g, kind, ok)
				if ok {
					w.begin(g, 'U', mx)
					w.m[mx].Unlock()
					w.end(g, 'U', true)
				}
			}
			w.gs[g].finished = true
		}
	}
	return w, bodies
}

// judge decides one finished execution.
func (w *world) judge(res *sched.Result) *evid.Failure {
	if res.Panic != nil {
		return evid.Failf("panic", "g%d panicked: %v", res.PanicGid, res.Panic)
	}
	if w.fail != nil {
		return w.fail
	}
	if res.Deadlock {
		lost := false
		for _, g := range res.Blocked {
			if st := &w.gs[g]; !(w.heldForGood[st.mx] && w.holders[st.mx] > 0) {
				lost = true
			}
		}
		if !lost {
			// everybody still parked waits for a mutex whose holder keeps it for good
			w.waitersOfHeldForGood = true
			res.Deadlock = false
		}
	}
	if res.Deadlock {
		var bl []string
		for _, g := range res.Blocked {
			st := &w.gs[g]
			where := "a schedule point"
			if st.parkBlock != nil {
				where = fmt.Sprintf("the blocking %s on the wake-up channel (nothing buffered, capacity %d)", st.parkKind, st.parkCap)
				if st.parkCap == 0 {
					where += " [note: the scheduler models a receive as enabled iff a value is buffered; with an unbuffered channel a waiter can only be woken while it is already parked in the receive]"
				}
			}
			bl = append(bl, fmt.Sprintf("g%d in %s of mutex %d (step %d of the call) at %s", g, opName(st.kind), st.mx, st.opSteps, where))
		}
		holder := "nobody holds a mutex"
		if w.holders[0]+w.holders[1] > 0 {
			holder = "a mutex is held" // cannot happen: a holder is always enabled
		}
		return evid.Failf("lost-wakeup", "no goroutine can run but %d have not finished (%s): %s", len(res.Blocked), holder, strings.Join(bl, "; "))
	}
	if res.Pruned {
		return nil
	}
	for mx := range w.hist {
		if f := linearizable(w.hist[mx]); f != nil {
			return f
		}
	}
	return nil
}

// linearizable checks the completed history against the sequential mutex
// specification (state: free or held by g; Lock / successful TryLock need free;
// failed TryLock needs held; Unlock needs held by the caller), with every
// operation taking effect between its first step and its return. Real-time
// order: a precedes b iff a.resp < b.inv.
func linearizable(h []opRec) *evid.Failure {
	n := len(h)
	if n == 0 || n > 30 {
		return nil
	}
	order := make([]int, n)
	for i := range order {
		order[i] = i
	}
	sort.Slice(order, func(a, b int) bool { return h[order[a]].inv < h[order[b]].inv })
	dead := map[uint32]bool{}
	var rec func(mask uint32, holder int) bool
	rec = func(mask uint32, holder int) bool {
		if mask == 1<<uint(n)-1 {
			return true
		}
		if dead[mask] {
			return false
		}
		// earliest response among the not yet linearized operations
		minResp := 1 << 30
		for i := 0; i < n; i++ {
			if mask&(1<<uint(i)) == 0 && h[i].resp < minResp {
				minResp = h[i].resp
			}
		}
		for _, i := range order {
			if mask&(1<<uint(i)) != 0 {
				continue
			}
			o := h[i]
			if o.inv > minResp {
				break // this and all later ones start after some pending operation returned
			}
			nh := holder
			switch {
			case o.kind == 'U':
				if holder != o.g {
					continue
				}
				nh = -1
			case o.ok:
				if holder != -1 {
					continue
				}
				nh = o.g
			default: // failed TryLock
				if holder == -1 {
					continue
				}
			}
			if rec(mask|1<<uint(i), nh) {
				return true
			}
		}
		dead[mask] = true
		return false
	}
	if rec(0, -1) {
		return nil
	}
	var sb strings.Builder
	for _, o := range h {
		r := ""
		if o.kind == 'T' {
			r = fmt.Sprintf("=%v", o.ok)
		}
		fmt.Fprintf(&sb, " g%d.%s%s[%d,%d]", o.g, opName(o.kind), r, o.inv, o.resp)
	}
	return evid.Failf("not-linearizable", "the completed history has no linearization w.r.t. the mutex specification:%s", sb.String())
}

// runControlled executes prog under the chooser and judges it.
func runControlled(prog []string, choose sched.Chooser, tracing bool) (*world, sched.Result, *evid.Failure) {
	w, bodies := newWorld(prog, tracing)
	cur = w
	res := sched.Run(bodies, sched.Options{MaxSteps: maxSteps, EagerStart: true}, choose)
	cur = nil
	return w, res, w.judge(&res)
}

// runCase is the pure decision function of check "sched".
func runCase(c Case) (*world, sched.Result, *evid.Failure) {
	prog, ok := parseProg(c.Prog)
	if !ok {
		return nil, sched.Result{}, nil
	}
	installHooks()
	defer removeHooks()
	return runControlled(prog, sched.Replay(c.Choices), false)
}

// withTrace re-executes a failing case with the step log switched on.
func withTrace(prog []string, choices []int) Case {
	installHooks()
	defer removeHooks()
	w, res, _ := runControlled(prog, sched.Replay(choices), true)
	lg := append([]string{"schedule (goroutine per step): " + res.TraceString()}, w.log...)
	return Case{Prog: strings.Join(prog, "/"), Choices: append([]int(nil), choices...), Trace: lg}
}

// account records labels / non-trivial counters of one judged execution and
// returns whether it was non-trivial.
type tally struct {
	runs, nt, deadlocks, pruned, blocked, slow, stale, tryFail, tryOK, completed, steps int64
	maxPre                                                                              int
}

func (t *tally) add(w *world, res *sched.Result) bool {
	t.runs++
	t.steps += int64(len(res.Trace))
	if res.Deadlock {
		t.deadlocks++
	}
	if res.Pruned {
		t.pruned++
	}
	if !res.Deadlock && !res.Pruned {
		t.completed++
	}
	if w.everBlocked {
		t.blocked++
	}
	if w.slowAcquire {
		t.slow++
	}
	if w.staleWake {
		t.stale++
	}
	t.tryFail += int64(w.tryFail)
	t.tryOK += int64(w.tryOK)
	if res.Preemptions > t.maxPre {
		t.maxPre = res.Preemptions
	}
	if w.ntPreempt {
		t.nt++
		return true
	}
	return false
}

func (t *tally) flush(prefix string) {
	evid.LabelN(prefix+"schedules", t.runs)
	evid.LabelN(prefix+"schedules_completed", t.completed)
	evid.LabelN(prefix+"schedules_nontrivial(preempt_in_Lock_slowpath_or_mid_Unlock)", t.nt)
	evid.LabelN(prefix+"schedules_pruned_by_step_cap", t.pruned)
	evid.LabelN(prefix+"schedules_with_a_waiter_parked_on_empty_channel", t.blocked)
	evid.LabelN(prefix+"schedules_with_slow_path_acquire", t.slow)
	evid.LabelN(prefix+"schedules_with_waiter_woken_without_acquiring", t.stale)
	evid.LabelN(prefix+"trylock_returned_false", t.tryFail)
	evid.LabelN(prefix+"trylock_returned_true", t.tryOK)
	evid.LabelN(prefix+"steps", t.steps)
}
