package c18

// Check "stress": real goroutines, the Go scheduler and the race detector over
// pkg/tmutex with the scheduler hooks UNSET (the overlay-instrumented code then
// executes exactly the original statements) or, for a part of the cases, with
// VerifYield set to a pre-emption injector (runtime.Gosched at a pseudo-random
// subset of the atomic operations; the blocking receive stays a real receive).
// No schedule is controlled here; the oracle is occupancy <= 1, no lost update
// of a plain counter written inside the critical section, no data race, and
// every goroutine finishes (watchdog; a hang is re-run before it is reported).

import (
	"fmt"
	"runtime"
	"strings"
	"sync"
	"sync/atomic"
	"testing"
	"time"

	"github.com/brewlin/net-protocol/pkg/tmutex"
	"pgregory.net/rapid"
	"verifharness/evid"
)

type StressCase struct {
	Progs  []string `json:"progs"`  // one op string per goroutine ('L','T')
	Seed   uint64   `json:"seed"`   // seeds the Gosched pattern
	Yield  int      `json:"yield"`  // a goroutine yields before an operation / inside the critical section with probability 1/Yield (0 = never)
	Inject int      `json:"inject"` // 0: hooks unset; k>0: VerifYield = Gosched at about 1/k of the atomic operations
	Reps   int      `json:"reps"`
}

func splitmix(x *uint64) uint64 {
	*x += 0x9e3779b97f4a7c15
	z := *x
	z = (z ^ (z >> 30)) * 0xbf58476d1ce4e5b9
	z = (z ^ (z >> 27)) * 0x94d049bb133111eb
	return z ^ (z >> 31)
}

// hangDeadline is three to four orders of magnitude above what a case takes
// (milliseconds); it is not an assertion about speed: a case that misses it is
// re-run twice and reported only if it hangs again.
const hangDeadline = 20 * time.Second

// hangConfirmed: once a hang was confirmed in this process no further case is
// executed (each shrink attempt of a hanging case would cost three deadlines;
// the unshrunk case is reported).
var hangConfirmed bool

type stressOut struct {
	hung       bool
	fail       *evid.Failure
	contended  int64
	tryFail    int64
	acquired   int64
	unfinished int
}

func execStress(c StressCase, rep int) stressOut {
	var m tmutex.Mutex
	m.Init()
	var occ, maxOcc int32
	var contended, tryFail, acquired, finished int64
	shared := 0 // plain variable: protected by the mutex only
	var injCtr uint64
	if c.Inject > 0 {
		k := uint64(c.Inject)
		seed := c.Seed ^ uint64(rep)*0x5851f42d4c957f2d
		tmutex.VerifYield = func() {
			x := atomic.AddUint64(&injCtr, 1) + seed
			if splitmix(&x)%k == 0 {
				runtime.Gosched()
			}
		}
	} else {
		tmutex.VerifYield = nil
	}
	tmutex.VerifBlockOn = nil
	start := make(chan struct{})
	var wg sync.WaitGroup
	for g := range c.Progs {
		wg.Add(1)
		go func(g int) {
			defer wg.Done()
			rng := c.Seed + uint64(g)*0x100000001b3 + uint64(rep)*7919
			maybeYield := func() {
				if c.Yield > 0 && splitmix(&rng)%uint64(c.Yield) == 0 {
					runtime.Gosched()
				}
			}
			<-start
			for i := 0; i < len(c.Progs[g]); i++ {
				maybeYield()
				if atomic.LoadInt32(&occ) > 0 {
					atomic.AddInt64(&contended, 1)
				}
				ok := true
				if c.Progs[g][i] == 'L' {
					m.Lock()
				} else {
					ok = m.TryLock()
				}
				if !ok {
					atomic.AddInt64(&tryFail, 1)
					continue
				}
				n := atomic.AddInt32(&occ, 1)
				if n > 1 {
					for {
						o := atomic.LoadInt32(&maxOcc)
						if n <= o || atomic.CompareAndSwapInt32(&maxOcc, o, n) {
							break
						}
					}
				}
				shared++
				maybeYield()
				atomic.AddInt32(&occ, -1)
				atomic.AddInt64(&acquired, 1)
				m.Unlock()
			}
			atomic.AddInt64(&finished, 1)
		}(g)
	}
	done := make(chan struct{})
	go func() { wg.Wait(); close(done) }()
	close(start)
	var out stressOut
	select {
	case <-done:
	case <-time.After(hangDeadline):
		out.hung = true
		out.unfinished = len(c.Progs) - int(atomic.LoadInt64(&finished))
		return out // the stuck goroutines are abandoned
	}
	out.contended, out.tryFail, out.acquired = contended, tryFail, acquired
	if mo := atomic.LoadInt32(&maxOcc); mo > 1 {
		out.fail = evid.Failf("mutex:two-holders", "%d goroutines were inside the critical section at the same time", mo)
	} else if int64(shared) != acquired {
		out.fail = evid.Failf("mutex:lost-update", "a plain counter incremented once per critical section reads %d after %d critical sections", shared, acquired)
	}
	return out
}

// stressT is the running test; under the race detector every execution is a
// sub-test of it, which is how a data race is attributed to one execution.
var stressT *testing.T

func runStress(c StressCase) *evid.Failure {
	if len(c.Progs) < 1 || len(c.Progs) > 128 {
		return nil
	}
	for _, p := range c.Progs {
		if strings.Trim(p, "LT") != "" {
			return nil
		}
	}
	if hangConfirmed {
		return nil
	}
	defer removeHooks()
	reps := c.Reps
	if reps < 1 {
		reps = 1
	}
	if evid.ReplayMode() {
		reps *= 20
	}
	for rep := 0; rep < reps; rep++ {
		var out stressOut
		ok := true
		if raceEnabled && stressT != nil {
			ok = stressT.Run("exec", func(*testing.T) { out = execStress(c, rep) })
		} else {
			out = execStress(c, rep)
		}
		if rep > 0 {
			evid.Eval(1)
		}
		if out.hung {
			// confirm: the same case again, twice, on fresh mutexes
			again := 0
			for k := 1; k <= 2; k++ {
				if execStress(c, rep+1000*k).hung {
					again++
				}
			}
			if again == 0 {
				evid.Unconfirmed()
				evid.Label("stress:hang_not_reproduced")
				continue
			}
			hangConfirmed = true
			return evid.Failf("lost-wakeup:hang", "%d of %d goroutines never finished within %v although every critical section is finite; the hang reproduced in %d of 2 re-runs of the same case", out.unfinished, len(c.Progs), hangDeadline, again)
		}
		if out.fail != nil {
			return out.fail
		}
		if !ok {
			return evid.Failf("race:data-race", "the race detector reported a data race while this program ran (the report is in the unit's log)")
		}
		evid.Label("stress:executions")
		if c.Inject > 0 {
			evid.Label("stress:executions_with_injected_preemption")
		} else {
			evid.Label("stress:executions_hooks_unset")
		}
		evid.LabelN("stress:critical_sections", out.acquired)
		evid.LabelN("stress:trylock_returned_false", out.tryFail)
		evid.LabelN("stress:operations_started_while_mutex_held", out.contended)
		if out.contended > 0 {
			evid.Label("stress:executions_with_contention")
			evid.NonTrivialKey("stress", fmt.Sprint(c.Progs), c.Seed, c.Yield, c.Inject, rep)
		}
	}
	return nil
}

func genStress(rt *rapid.T) StressCase {
	g := rapid.SampledFrom([]int{2, 2, 3, 4, 6, 8, 12, 16, 24, 32, 48, 64}).Draw(rt, "goroutines")
	maxOps := 40
	if g > 16 {
		maxOps = 12
	}
	tryPct := rapid.SampledFrom([]int{0, 10, 30, 60}).Draw(rt, "tryPct")
	progs := make([]string, g)
	for i := range progs {
		n := rapid.IntRange(1, maxOps).Draw(rt, "ops")
		b := make([]byte, n)
		for k := range b {
			if rapid.IntRange(0, 99).Draw(rt, "op") < tryPct {
				b[k] = 'T'
			} else {
				b[k] = 'L'
			}
		}
		progs[i] = string(b)
	}
	return StressCase{
		Progs:  progs,
		Seed:   rapid.Uint64().Draw(rt, "seed"),
		Yield:  rapid.SampledFrom([]int{0, 1, 2, 4}).Draw(rt, "yield"),
		Inject: rapid.SampledFrom([]int{0, 0, 1, 2, 4}).Draw(rt, "inject"),
		Reps:   3,
	}
}

func TestStress(t *testing.T) {
	stressT = t
	defer func() { stressT = nil }()
	evid.Run(t, evid.Spec[StressCase]{Name: "stress", Gen: genStress, Run: runStress})
}
