// Package evid collects what a check process actually explored (evaluations,
// distinct non-trivial cases, labels, samples, violations, known findings) and
// writes it as one JSON "shard" file that the ./check driver merges into
// /verif/evidence/<ID>.json. It also owns replay files and the crash journal.
package evid

import (
	"crypto/sha256"
	"encoding/binary"
	"encoding/hex"
	"encoding/json"
	"fmt"
	"io"
	"log"
	"os"
	"path/filepath"
	"runtime"
	"runtime/debug"
	"sort"
	"strconv"
	"strings"
	"sync"
	"sync/atomic"
	"testing"
	"time"

	"pgregory.net/rapid"
)

// Failure describes one violation of the property by one concrete case.
type Failure struct {
	// Sig is a short stable signature of *what* failed (used to match
	// KNOWN_FINDINGS.json entries and to count root causes).
	Sig string `json:"sig"`
	// Msg is the human readable explanation.
	Msg string `json:"msg"`
}

func Failf(sig, format string, a ...any) *Failure {
	return &Failure{Sig: sig, Msg: fmt.Sprintf(format, a...)}
}

type violation struct {
	Check  string `json:"check"`
	Sig    string `json:"sig"`
	Msg    string `json:"msg"`
	Replay string `json:"replay"`
}

type knownFinding struct {
	Property string `json:"property"`
	ID       string `json:"id"`
	Status   string `json:"status"` // "known" | "fixed"
	Sig      string `json:"sig"`    // prefix match against Failure.Sig
	What     string `json:"what"`
}

type shard struct {
	Property     string            `json:"property"`
	Unit         string            `json:"unit"`
	Tier         string            `json:"tier"`
	Seed         int64             `json:"seed"`
	Evaluations  int64             `json:"evaluations"`
	Hashes       []string          `json:"hashes"`          // distinct non-trivial case hashes (hex, 64 bit)
	ByConstruct  int64             `json:"by_construction"` // distinct non-trivial cases counted by an enumerator that visits each once
	Labels       map[string]int64  `json:"labels"`
	Samples      []json.RawMessage `json:"samples"`
	Violations   []violation       `json:"violations"`
	KnownHits    map[string]int64  `json:"known_hits"`
	Excluded     map[string]int64  `json:"excluded"`
	Exhaustive   []string          `json:"exhaustive"` // names of sub-domains enumerated completely
	Notes        []string          `json:"notes"`
	WallS        float64           `json:"wall_s"`
	Unconfirmed  int64             `json:"unconfirmed_timeouts"`
	Inconclusive []string          `json:"inconclusive"`
}

var (
	mu       sync.Mutex
	sh       shard
	hashes   = map[uint64]struct{}{}
	start    = time.Now()
	known    []knownFinding
	maxSamp  = 12
	sampSeen = map[string]int{}
)

// Env.
var (
	Property string
	Tier           = "quick"
	Seed     int64 = 1
	ShardIdx int
	NShards  = 1
	outPath  string
	verifDir = "/verif"
)

// Thorough reports whether the thorough tier is requested.
func Thorough() bool { return Tier == "thorough" }

// Pick returns q in the quick tier and th in the thorough tier.
func Pick[T any](q, th T) T {
	if Thorough() {
		return th
	}
	return q
}

// Main is called from TestMain of every check package.
func Main(m *testing.M, property string) {
	if v := os.Getenv("VERIF_PROPERTY"); v != "" {
		// a unit of another property's plan may host this package's tests
		// (C14 re-runs TCP scenarios with wrap-adjacent sequence numbers)
		property = v
	}
	Property = property
	log.SetOutput(io.Discard)
	if v := os.Getenv("VERIF_TIER"); v != "" {
		Tier = v
	}
	if v := os.Getenv("VERIF_SEED"); v != "" {
		if n, err := strconv.ParseInt(v, 10, 64); err == nil {
			Seed = n
		}
	}
	if v := os.Getenv("VERIF_SHARD"); v != "" {
		ShardIdx, _ = strconv.Atoi(v)
	}
	if v := os.Getenv("VERIF_NSHARDS"); v != "" {
		NShards, _ = strconv.Atoi(v)
		if NShards < 1 {
			NShards = 1
		}
	}
	if v := os.Getenv("VERIF_DIR"); v != "" {
		verifDir = v
	}
	outPath = os.Getenv("VERIF_EVID_OUT")
	if outPath != "" && os.Getenv("VERIF_EVID_PERPID") != "" {
		// children of a native fuzz campaign (coordinator and workers) each write their own file
		outPath += "." + strconv.Itoa(os.Getpid())
	}
	sh = shard{Property: property, Unit: os.Getenv("VERIF_UNIT"), Tier: Tier, Seed: Seed,
		Labels: map[string]int64{}, KnownHits: map[string]int64{}, Excluded: map[string]int64{}}
	loadKnown()
	code := m.Run()
	Flush()
	mu.Lock()
	nv := len(sh.Violations)
	mu.Unlock()
	if nv > 0 && code == 0 {
		code = 1
	}
	os.Exit(code)
}

func loadKnown() {
	b, err := os.ReadFile(filepath.Join(verifDir, "KNOWN_FINDINGS.json"))
	if err != nil {
		return
	}
	var f struct {
		Findings []knownFinding `json:"findings"`
	}
	if json.Unmarshal(b, &f) == nil {
		for _, k := range f.Findings {
			if k.Property == Property && k.Status == "known" {
				known = append(known, k)
			}
		}
	}
}

// KnownSig reports whether sig matches a listed (unrepaired) known finding of
// this property and, if so, counts the hit.
func KnownSig(sig string) bool {
	for _, k := range known {
		if k.Sig != "" && strings.HasPrefix(sig, k.Sig) {
			mu.Lock()
			sh.KnownHits[k.ID]++
			mu.Unlock()
			return true
		}
	}
	return false
}

// IsKnownListed reports whether a known finding with that id is listed (so a
// generator may exclude the class by construction and count it with Exclude).
func IsKnownListed(id string) bool {
	for _, k := range known {
		if k.ID == id {
			return true
		}
	}
	return false
}

func Eval(n int64) {
	mu.Lock()
	sh.Evaluations += n
	mu.Unlock()
}

// Hash64 hashes a canonical rendering of a case.
func Hash64(parts ...any) uint64 {
	h := sha256.New()
	for _, p := range parts {
		switch v := p.(type) {
		case []byte:
			h.Write(v)
		case string:
			h.Write([]byte(v))
		default:
			fmt.Fprintf(h, "%v", v)
		}
		h.Write([]byte{0})
	}
	return binary.BigEndian.Uint64(h.Sum(nil)[:8])
}

// NonTrivial records one distinct non-trivial case by its hash.
func NonTrivial(hash uint64) {
	mu.Lock()
	hashes[hash] = struct{}{}
	mu.Unlock()
}

// NonTrivialKey is NonTrivial(Hash64(parts...)).
func NonTrivialKey(parts ...any) { NonTrivial(Hash64(parts...)) }

// DistinctByConstruction adds n cases that an enumerator visited exactly once
// each (so they are distinct without hashing) and that are non-trivial by the
// check's rule.
func DistinctByConstruction(n int64) {
	mu.Lock()
	sh.ByConstruct += n
	mu.Unlock()
}

func Label(name string) { LabelN(name, 1) }
func LabelN(name string, n int64) {
	mu.Lock()
	sh.Labels[name] += n
	mu.Unlock()
}

func Exclude(class string) {
	mu.Lock()
	sh.Excluded[class]++
	mu.Unlock()
}

func Exhaustive(name string) {
	mu.Lock()
	sh.Exhaustive = append(sh.Exhaustive, name)
	mu.Unlock()
}

func Note(format string, a ...any) {
	mu.Lock()
	if len(sh.Notes) < 50 {
		sh.Notes = append(sh.Notes, fmt.Sprintf(format, a...))
	}
	mu.Unlock()
}

func Unconfirmed() {
	mu.Lock()
	sh.Unconfirmed++
	mu.Unlock()
}

// Inconclusive marks the run as not having completed its exploration for an
// infrastructure reason (never a violation).
func Inconclusive(format string, a ...any) {
	mu.Lock()
	sh.Inconclusive = append(sh.Inconclusive, fmt.Sprintf(format, a...))
	mu.Unlock()
}

// Sample keeps up to a few samples per class.
func Sample(class string, v any) {
	mu.Lock()
	defer mu.Unlock()
	if sampSeen[class] >= 3 || len(sh.Samples) >= maxSamp {
		return
	}
	b, err := json.Marshal(map[string]any{"class": class, "case": v})
	if err != nil {
		return
	}
	if len(b) > 4000 {
		b, _ = json.Marshal(map[string]any{"class": class, "case_truncated": string(b[:4000])})
	}
	sampSeen[class]++
	sh.Samples = append(sh.Samples, b)
}

// ReplayFile is the on-disk format of a replay / corpus / journal file.
type ReplayFile struct {
	Property string          `json:"property"`
	Check    string          `json:"check"`
	Sig      string          `json:"sig,omitempty"`
	Msg      string          `json:"msg,omitempty"`
	Case     json.RawMessage `json:"case"`
}

// Violation writes a replay file and records the violation. It returns the
// replay path.
func Violation(check string, f *Failure, c any) string {
	cb, _ := json.Marshal(c)
	rf := ReplayFile{Property: Property, Check: check, Sig: f.Sig, Msg: f.Msg, Case: cb}
	b, _ := json.MarshalIndent(rf, "", " ")
	sum := sha256.Sum256(cb)
	dir := filepath.Join(verifDir, "replays", Property)
	os.MkdirAll(dir, 0o755)
	p := filepath.Join(dir, fmt.Sprintf("%s-%s.json", check, hex.EncodeToString(sum[:6])))
	os.WriteFile(p, b, 0o644)
	mu.Lock()
	dup := false
	for _, v := range sh.Violations {
		if v.Replay == p {
			dup = true
		}
	}
	if !dup {
		sh.Violations = append(sh.Violations, violation{Check: check, Sig: f.Sig, Msg: f.Msg, Replay: p})
	}
	mu.Unlock()
	Flush()
	return p
}

// Watchdog for CPU-bound cases that run on the test goroutine (pure in-memory
// operation sequences that take microseconds): WatchBegin/WatchEnd bracket a
// case with two atomic increments; a background goroutine samples the counter
// and, when one and the same case has been running for more than a minute,
// records it as a violation (signature "hang") and ends the process - the
// goroutine that spins cannot be stopped. Single-goroutine use only.
var (
	watchSeq   atomic.Uint64
	watchCheck string
	watchCase  any
	watchOnce  sync.Once
)

func WatchBegin(check string, c any) {
	watchOnce.Do(func() {
		go func() {
			var last uint64
			same := 0
			for {
				time.Sleep(2 * time.Second)
				s := watchSeq.Load()
				if s%2 == 1 && s == last {
					same++
				} else {
					same = 0
				}
				last = s
				if same >= 30 {
					f := Failf("hang", "the case has been running for more than 60 s although every operation in it is a handful of slice operations: an operation does not terminate")
					p := Violation(watchCheck, f, watchCase)
					fmt.Printf("violation: hang (replay %s)\n", p)
					os.Exit(1)
				}
			}
		}()
	})
	watchCheck, watchCase = check, c
	watchSeq.Add(1)
}

func WatchEnd() { watchSeq.Add(1) }

// Journal records the case about to be run, so that the driver can replay it
// if the process dies (a panic on one of the stack's own goroutines).
func Journal(check string, c any) {
	if outPath == "" {
		return
	}
	cb, _ := json.Marshal(c)
	rf := ReplayFile{Property: Property, Check: check, Case: cb}
	b, _ := json.Marshal(rf)
	os.WriteFile(outPath+".journal", b, 0o644)
}

func Flush() {
	if outPath == "" {
		return
	}
	mu.Lock()
	defer mu.Unlock()
	sh.WallS = time.Since(start).Seconds()
	sh.Hashes = sh.Hashes[:0]
	ks := make([]uint64, 0, len(hashes))
	for k := range hashes {
		ks = append(ks, k)
	}
	sort.Slice(ks, func(i, j int) bool { return ks[i] < ks[j] })
	for _, k := range ks {
		sh.Hashes = append(sh.Hashes, strconv.FormatUint(k, 16))
	}
	b, _ := json.Marshal(&sh)
	tmp := outPath + ".tmp"
	if os.WriteFile(tmp, b, 0o644) == nil {
		os.Rename(tmp, outPath)
	}
}

// Absorb adds the counters of another process's shard file (a fuzz worker's)
// to this process's: evaluations, distinct non-trivial hashes, labels, known
// hits, exclusions and a few samples. Violations are not absorbed: the caller
// re-decides crashers itself.
func Absorb(path string) {
	b, err := os.ReadFile(path)
	if err != nil {
		return
	}
	var o shard
	if json.Unmarshal(b, &o) != nil {
		return
	}
	mu.Lock()
	defer mu.Unlock()
	sh.Evaluations += o.Evaluations
	sh.ByConstruct += o.ByConstruct
	sh.Unconfirmed += o.Unconfirmed
	for _, h := range o.Hashes {
		if v, err := strconv.ParseUint(h, 16, 64); err == nil {
			hashes[v] = struct{}{}
		}
	}
	for k, v := range o.Labels {
		sh.Labels[k] += v
	}
	for k, v := range o.KnownHits {
		sh.KnownHits[k] += v
	}
	for k, v := range o.Excluded {
		sh.Excluded[k] += v
	}
	for _, smp := range o.Samples {
		if len(sh.Samples) < maxSamp {
			sh.Samples = append(sh.Samples, smp)
		}
	}
}

// ReplayRequested returns the replay file given via VERIF_REPLAY if it is for
// the named check.
func ReplayRequested(check string) (*ReplayFile, bool) {
	p := os.Getenv("VERIF_REPLAY")
	if p == "" {
		return nil, false
	}
	b, err := os.ReadFile(p)
	if err != nil {
		return nil, false
	}
	var rf ReplayFile
	if json.Unmarshal(b, &rf) != nil || rf.Check != check {
		return nil, false
	}
	return &rf, true
}

// ReplayMode reports whether the process was started to replay one file.
func ReplayMode() bool { return os.Getenv("VERIF_REPLAY") != "" }

// Corpus returns the committed regression cases of the named check
// (/verif/corpus/<ID>/*.json).
func Corpus(check string) []ReplayFile {
	var out []ReplayFile
	files, _ := filepath.Glob(filepath.Join(verifDir, "corpus", Property, "*.json"))
	sort.Strings(files)
	for _, p := range files {
		b, err := os.ReadFile(p)
		if err != nil {
			continue
		}
		var rf ReplayFile
		if json.Unmarshal(b, &rf) == nil && rf.Check == check {
			out = append(out, rf)
		}
	}
	return out
}

// Spec describes one generated check: a generator of JSON-serialisable cases
// and a runner that decides one case.
type Spec[C any] struct {
	Name string
	Gen  func(rt *rapid.T) C
	Run  func(c C) *Failure
}

// Run drives a Spec: replay file if requested, else corpus + rapid search.
// A failure that matches a listed known finding is counted and does not fail.
func Run[C any](t *testing.T, s Spec[C]) {
	t.Helper()
	decide := func(c C) (f *Failure) {
		defer func() {
			if r := recover(); r != nil {
				f = &Failure{Sig: "panic:" + panicSite(), Msg: fmt.Sprintf("panic: %v\n%s", r, debug.Stack())}
				if KnownSig(f.Sig) {
					f = nil
				}
			}
		}()
		f = s.Run(c)
		Eval(1)
		if f != nil && KnownSig(f.Sig) {
			return nil
		}
		return f
	}
	if ReplayMode() {
		rf, ok := ReplayRequested(s.Name)
		if !ok {
			t.Skip("replay is for another check")
		}
		var c C
		if err := json.Unmarshal(rf.Case, &c); err != nil {
			t.Fatalf("bad replay file: %v", err)
		}
		if f := decide(c); f != nil {
			p := Violation(s.Name, f, c)
			t.Fatalf("replay fails: %s: %s (%s)", f.Sig, f.Msg, p)
		}
		return
	}
	if ShardIdx == 0 {
		for _, rf := range Corpus(s.Name) {
			var c C
			if json.Unmarshal(rf.Case, &c) != nil {
				continue
			}
			Label("corpus_case")
			if f := decide(c); f != nil {
				p := Violation(s.Name, f, c)
				t.Errorf("corpus case fails: %s: %s (%s)", f.Sig, f.Msg, p)
				return
			}
		}
	}
	var lastFail *Failure
	var lastCase C
	t.Run("rapid", func(t *testing.T) {
		rapid.Check(t, func(rt *rapid.T) {
			c := s.Gen(rt)
			if f := decide(c); f != nil {
				lastFail, lastCase = f, c
				rt.Fatalf("%s: %s", f.Sig, f.Msg)
			}
		})
	})
	if lastFail != nil {
		p := Violation(s.Name, lastFail, lastCase)
		t.Errorf("violation: %s: %s (replay %s)", lastFail.Sig, lastFail.Msg, p)
	}
}

// panicSite returns the innermost frame inside the repository under test.
func panicSite() string {
	pcs := make([]uintptr, 64)
	n := runtime.Callers(3, pcs)
	fr := runtime.CallersFrames(pcs[:n])
	for {
		f, more := fr.Next()
		if strings.Contains(f.Function, "brewlin/net-protocol") {
			i := strings.LastIndex(f.Function, "/")
			return f.Function[i+1:]
		}
		if !more {
			break
		}
	}
	return "harness"
}

// Guard runs fn and converts a panic into a Failure.
func Guard(fn func() *Failure) (f *Failure) {
	defer func() {
		if r := recover(); r != nil {
			f = &Failure{Sig: "panic:" + panicSite(), Msg: fmt.Sprintf("panic: %v\n%s", r, debug.Stack())}
		}
	}()
	return fn()
}

// Direct reports a violation found outside rapid (enumerators).
func Direct(t testing.TB, check string, f *Failure, c any) bool {
	if f == nil {
		return false
	}
	if KnownSig(f.Sig) {
		return false
	}
	p := Violation(check, f, c)
	t.Errorf("violation: %s: %s (replay %s)", f.Sig, f.Msg, p)
	return true
}
