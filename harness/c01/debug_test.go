package c01

import (
	"os"
	"testing"
	"time"

	"pgregory.net/rapid"
)

func TestDebugTimes(t *testing.T) {
	if os.Getenv("C01_DEBUG") == "" {
		t.Skip()
	}
	rapid.Check(t, func(rt *rapid.T) {
		c := genCase(rt)
		t0 := time.Now()
		f := runCase(c)
		d := time.Since(t0)
		if d > 6*time.Second || f != nil {
			t.Logf("%.1fs fail=%v case=%+v", d.Seconds(), f, c)
		}
	})
}
