package c01

import (
	"fmt"
	"testing"
	"time"

	"verifharness/codec"
	"verifharness/evid"
	"verifharness/netsim"
	"verifharness/rawpeer"
)

// Translation invariance of the receiver (C14: "every TCP property above holds
// unchanged when initial sequence numbers sit just below 2^31 or 2^32"): the
// same scripted sender plays the same segments to two fresh stacks, once with
// its initial sequence number in the middle of the space and once next to a
// wrap point. After every injected segment the stack's answer is recorded as
// (acknowledged stream offset, SACK blocks as stream offsets); the two
// recordings must be equal. The oracle needs no model of what the right answer
// is: whatever the receiver does (cumulative ACK, SACK bookkeeping, reassembly
// queue order), it may not depend on where the numbers sit.

type ackState struct {
	Ack  uint32
	SACK [][2]uint32
}

func (a ackState) String() string { return fmt.Sprintf("ack=%d sack=%v", a.Ack, a.SACK) }

func sameState(a, b ackState) bool {
	if a.Ack != b.Ack || len(a.SACK) != len(b.SACK) {
		return false
	}
	for i := range a.SACK {
		if a.SACK[i] != b.SACK[i] {
			return false
		}
	}
	return true
}

// playRecv plays c.Segs one at a time and returns the stack's state after each.
func playRecv(c RecvCase, iss uint32) ([]ackState, bool) {
	env := rawpeer.NewEnv(c.Env)
	defer env.Close()
	l, s, p, err := env.Passive(80, 50000, iss, rawpeer.SynOpts{MSS: 1460, WS: c.WS, TS: c.TS, SACKPerm: c.Env.SACK}, 65535)
	if l != nil {
		defer l.EP.Close()
	}
	if err != nil {
		return nil, false
	}
	defer s.EP.Close()
	p.Chunk = c.Chunk
	want := pattern(c.DataSeed, c.Stream)
	var out []ackState
	covered := make([]bool, c.Stream+1)
	edge, finAt := 0, -1
	for _, sg := range c.Segs {
		if finAt >= 0 && edge >= finAt {
			break // the FIN has been consumed: the receive side is closed and answers nothing more
		}
		for i := sg.Off; i < sg.Off+sg.Len; i++ {
			covered[i] = true
		}
		for edge < c.Stream && covered[edge] {
			edge++
		}
		if sg.Fin {
			finAt = sg.Off + sg.Len
		}
		fl := uint8(codec.PSH)
		if sg.Fin {
			fl |= codec.FIN
		}
		from := env.Tap.Len()
		p.Data(uint32(sg.Off), want[sg.Off:sg.Off+sg.Len], fl)
		// every data segment draws an acknowledgement; wait for it, then for quiet
		env.Tap.Scan(from, 300*time.Millisecond, func(f netsim.Frame) bool { return p.Mine(f) && f.Pkt.Flags&codec.ACK != 0 })
		env.Tap.Quiesce(2*time.Millisecond, 100*time.Millisecond)
		var last *codec.Packet
		for _, f := range env.Tap.Trace() {
			if p.Mine(f) && f.Pkt.Flags&codec.ACK != 0 && f.Pkt.Flags&codec.RST == 0 {
				last = f.Pkt
			}
		}
		st := ackState{}
		if last != nil {
			st.Ack = last.Ack - (iss + 1)
			if d, ok := last.Opt(5); ok {
				for i := 0; i+8 <= len(d); i += 8 {
					a := uint32(d[i])<<24 | uint32(d[i+1])<<16 | uint32(d[i+2])<<8 | uint32(d[i+3])
					b := uint32(d[i+4])<<24 | uint32(d[i+5])<<16 | uint32(d[i+6])<<8 | uint32(d[i+7])
					st.SACK = append(st.SACK, [2]uint32{a - (iss + 1), b - (iss + 1)})
				}
			}
		}
		out = append(out, st)
	}
	return out, true
}

func runShiftOnce(c RecvCase) *evid.Failure {
	// the application does not read during the play: window values are not compared anyway
	mid := uint32(0x3a000000) + uint32(c.DataSeed%1000)
	ref, ok1 := playRecv(c, mid)
	got, ok2 := playRecv(c, c.ISS)
	if !ok1 || !ok2 {
		evid.Label("shift:no-connection")
		return nil
	}
	for i := range ref {
		if i >= len(got) || !sameState(ref[i], got[i]) {
			g := ackState{}
			if i < len(got) {
				g = got[i]
			}
			return evid.Failf("shift-variance", "after segment %d of %d ([%d,%d) fin=%v) the receiver answers %s when the peer's initial sequence number is %#x, but %s when it is %#x: the answer depends on where the sequence numbers sit",
				i+1, len(c.Segs), c.Segs[i].Off, c.Segs[i].Off+c.Segs[i].Len, c.Segs[i].Fin, ref[i], mid, g, c.ISS)
		}
	}
	crossed := (c.ISS+1+uint32(c.Stream)) < c.ISS+1 || (c.ISS+1 < 1<<31 && c.ISS+1+uint32(c.Stream) >= 1<<31)
	sacks := 0
	for _, st := range ref {
		if len(st.SACK) > 0 {
			sacks++
		}
	}
	if sacks > 0 {
		evid.Label("shift:sack-blocks-compared")
	}
	if crossed {
		evid.Label("shift:crossed-a-wrap-point")
		evid.NonTrivialKey("shift", fmt.Sprintf("%+v", c))
		if sacks > 1 {
			evid.Sample("raw-recv-shift", c)
		}
	}
	return nil
}

// runShift confirms a difference by a second pair of plays (the recording waits
// for the stack's answers with deadlines).
func runShift(c RecvCase) *evid.Failure {
	f := runShiftOnce(c)
	if f == nil {
		return nil
	}
	if f2 := runShiftOnce(c); f2 != nil {
		return f2
	}
	evid.Label("shift:difference-not-confirmed")
	evid.Unconfirmed()
	return nil
}

func TestRawRecvShift(t *testing.T) {
	evid.Run(t, evid.Spec[RecvCase]{Name: "raw-recv-shift", Gen: genRecv, Run: runShift})
}
