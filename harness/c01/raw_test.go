package c01

import (
	"bytes"
	"fmt"
	"os"
	"sync/atomic"
	"testing"
	"time"

	tcpip "github.com/brewlin/net-protocol/protocol"
	"github.com/brewlin/net-protocol/stack"
	"pgregory.net/rapid"
	"verifharness/codec"
	"verifharness/evid"
	"verifharness/netsim"
	"verifharness/rawpeer"
)

// ---------------------------------------------------------------------------
// Variant 1: the stack RECEIVES from a perverse but legal sender: overlapping
// retransmissions with consistent content, segments straddling the left window
// edge, out-of-order delivery, FIN first.

type RSeg struct {
	Off int  `json:"off"`
	Len int  `json:"len"`
	Fin bool `json:"fin"`
}

type RecvCase struct {
	Env      rawpeer.EnvCfg `json:"env"`
	ISS      uint32         `json:"iss"`
	Stream   int            `json:"stream"`
	Segs     []RSeg         `json:"segs"`
	TS       bool           `json:"ts"`
	WS       int            `json:"ws"`
	Chunk    int            `json:"chunk"`
	ReadLate bool           `json:"read_late"` // the application only starts reading after all segments were injected
	DataSeed uint64         `json:"data_seed"`
	// Active: the stack is the active opener (Connect) and the scripted sender
	// answers its SYN; SynData bytes of the stream ride on that SYN-ACK (legal;
	// the stack may take them or leave them to the retransmission, but what it
	// acknowledges it must deliver)
	Active  bool `json:"active,omitempty"`
	SynData int  `json:"syn_data,omitempty"`
}

// openActive lets the stack connect to the scripted peer, whose SYN-ACK carries
// the first synData bytes of the stream.
func openActive(env *rawpeer.Env, c RecvCase, synData []byte) (*netsim.Sock, *rawpeer.Peer, bool) {
	cs, serr := netsim.NewSock(env.Stack, 6, env.Net())
	if serr != nil {
		return nil, nil, false
	}
	p := env.Peer(0, 80, c.ISS)
	p.Wnd = 65535
	done := make(chan bool, 1)
	go func() {
		e, ok := cs.ConnectNotify(tcpip.FullAddress{Addr: env.PeerAddr(), Port: 80}, 5*time.Second, nil)
		done <- ok && e == nil
	}()
	f, _, ok := env.Tap.Scan(0, 3*time.Second, func(f netsim.Frame) bool {
		return f.Pkt.L4Kind == "tcp" && f.Pkt.Flags&codec.SYN != 0
	})
	if !ok {
		cs.EP.Close()
		<-done
		return nil, nil, false
	}
	p.StackPort = f.Pkt.SrcPort
	p.Cur = 0
	p.SynAckPayload = synData
	if !p.AcceptActive(rawpeer.SynOpts{MSS: 1460, WS: c.WS, TS: c.TS, SACKPerm: c.Env.SACK}, 3*time.Second) || !<-done {
		cs.EP.Close()
		return nil, nil, false
	}
	return cs, p, true
}

func runRecv(c RecvCase) *evid.Failure {
	env := rawpeer.NewEnv(c.Env)
	defer env.Close()
	want := pattern(c.DataSeed, c.Stream)
	var s *netsim.Sock
	var p *rawpeer.Peer
	if c.Active {
		if c.SynData > c.Stream {
			c.SynData = c.Stream
		}
		var ok bool
		s, p, ok = openActive(env, c, want[:c.SynData])
		if !ok {
			evid.Label("raw-recv:no-connection")
			return nil
		}
		evid.Label("raw-recv:active-open")
		if c.SynData > 0 {
			evid.Label(fmt.Sprintf("raw-recv:data-on-syn-ack:stack-took-%v", p.SynAckTaken > 0))
		}
	} else {
		l, s2, p2, err := env.Passive(80, 50000, c.ISS, rawpeer.SynOpts{MSS: 1460, WS: c.WS, TS: c.TS, SACKPerm: c.Env.SACK}, 65535)
		if l != nil {
			defer l.EP.Close()
		}
		if err != nil {
			evid.Label("raw-recv:no-connection")
			return nil
		}
		s, p = s2, p2
	}
	defer s.EP.Close()
	p.Chunk = c.Chunk
	var got []byte
	eof := false
	readSome := func(wait time.Duration) *evid.Failure {
		for {
			v, rerr, ok := s.Read(wait, nil)
			if !ok {
				return nil
			}
			if rerr == tcpip.ErrClosedForReceive {
				eof = true
				return nil
			}
			if rerr != nil {
				return nil
			}
			if eof {
				return evid.Failf("data-after-eof", "Read returned %d bytes after end of stream", len(v))
			}
			got = append(got, v...)
			if len(got) > len(want) || !bytes.Equal(got, want[:len(got)]) {
				at := 0
				for at < len(got) && at < len(want) && got[at] == want[at] {
					at++
				}
				return evid.Failf("prefix", "raw sender: received stream (%d bytes) is not a prefix of the sent stream (%d bytes), first difference at %d", len(got), len(want), at)
			}
			wait = 0
		}
	}
	covered := make([]bool, c.Stream+1) // index Stream = FIN
	edge := 0
	for ; c.Active && edge < p.SynAckTaken; edge++ {
		covered[edge] = true // what the handshake ACK acknowledged of the SYN-ACK's payload counts as sent
	}
	straddle, ooo, dupOverlap := false, false, false
	for _, sg := range c.Segs {
		if sg.Off < edge && sg.Off+sg.Len > edge {
			straddle = true
		}
		if sg.Off > edge {
			ooo = true
		}
		if sg.Off+sg.Len <= edge && sg.Len > 0 {
			dupOverlap = true
		}
		fl := uint8(codec.PSH)
		if sg.Fin {
			fl |= codec.FIN
		}
		p.Data(uint32(sg.Off), want[sg.Off:sg.Off+sg.Len], fl)
		for i := sg.Off; i < sg.Off+sg.Len; i++ {
			covered[i] = true
		}
		if sg.Fin {
			covered[c.Stream] = true
		}
		for edge < c.Stream && covered[edge] {
			edge++
		}
		if !c.ReadLate {
			if f := readSome(0); f != nil {
				return f
			}
		}
	}
	// Reassembly is complete without any retransmission: once the wire is quiet
	// the stack must have acknowledged the whole contiguous prefix of what it was
	// sent (everything lies inside the window it advertised and, the total being
	// below the receive buffer, inside its out-of-order store): data parked out
	// of order that has become in-order is "in-order data inside the advertised
	// window" and must be accepted and delivered (C04, and C14 at the wrap points).
	total := 0
	for _, sg := range c.Segs {
		total += sg.Len + 1
	}
	if total < c.Env.RcvBuf/2 {
		wantAck := uint32(edge)
		if edge == c.Stream && covered[c.Stream] {
			wantAck++
		}
		lastAck := func() (uint32, bool) {
			var last *codec.Packet
			for _, f := range env.Tap.Trace() {
				if p.Mine(f) && f.Pkt.Flags&codec.ACK != 0 && f.Pkt.Flags&codec.RST == 0 {
					last = f.Pkt
				}
			}
			if last == nil {
				return 0, false
			}
			return last.Ack - (p.ISS + 1), true
		}
		// the stack works through its segment queue on its own goroutine: wait for
		// the acknowledgement (nothing else is sent meanwhile, so no progress within
		// 2 s means none will come); a miss is confirmed by running the case again
		dl := time.Now().Add(2 * time.Second)
		acked, have := lastAck()
		for (!have || int32(acked-uint32(edge)) < 0) && time.Now().Before(dl) {
			env.Tap.Scan(env.Tap.Len(), 20*time.Millisecond, func(netsim.Frame) bool { return true })
			acked, have = lastAck()
		}
		if have {
			// (judged on data only: a FIN riding on a segment whose data is entirely
			// duplicate is not taken by this receiver and comes again with the peer's
			// retransmission; the property speaks of data)
			if int32(acked-uint32(edge)) < 0 || int32(acked-wantAck) > 0 {
				return evid.Failf("reassembly-incomplete", "raw sender: every byte of stream offsets [0,%d) has been sent (in %d segments, some out of order) and nothing more for 2 s, but the stack acknowledges only %d: out-of-order data that has become in-order was not taken from the reassembly queue (peer ISS %#x)", edge, len(c.Segs), acked, p.ISS)
			}
			evid.Label("raw-recv:reassembly-judged")
		}
	}
	// cleanup pass: the whole stream in order, then FIN (a retransmitting sender)
	for off := 0; off < c.Stream; off += 1000 {
		n := 1000
		if off+n > c.Stream {
			n = c.Stream - off
		}
		p.Data(uint32(off), want[off:off+n], codec.PSH)
	}
	p.Data(uint32(c.Stream), nil, codec.FIN)
	deadline := time.Now().Add(5 * time.Second)
	for !eof && time.Now().Before(deadline) {
		if f := readSome(200 * time.Millisecond); f != nil {
			return f
		}
	}
	if f := readSome(20 * time.Millisecond); f != nil { // nothing may follow the end of stream
		return f
	}
	if eof && len(got) != len(want) {
		return evid.Failf("truncated", "raw sender: end of stream after %d of %d bytes", len(got), len(want))
	}
	if !eof {
		evid.Label("raw-recv:incomplete")
		evid.Unconfirmed()
	}
	if straddle {
		evid.Label("raw-recv:straddles-left-edge")
	}
	if ooo {
		evid.Label("raw-recv:out-of-order")
	}
	if dupOverlap {
		evid.Label("raw-recv:stale-duplicate")
	}
	if (p.ISS + 1 + uint32(c.Stream)) < p.ISS+1 {
		evid.Label("raw-recv:crossed_2^32")
	}
	wrapCrossed := (p.ISS+1+uint32(c.Stream)) < p.ISS+1 || (p.ISS+1 < 1<<31 && p.ISS+1+uint32(c.Stream) >= 1<<31)
	if (!forceWrap && (straddle || ooo || dupOverlap)) || (forceWrap && wrapCrossed) {
		evid.NonTrivialKey("recv", fmt.Sprintf("%+v", c))
		evid.Sample("raw-recv", c)
	}
	return nil
}

func genRecv(rt *rapid.T) RecvCase {
	var c RecvCase
	c.Env.V6 = rapid.Bool().Draw(rt, "v6")
	c.Env.SACK = rapid.Bool().Draw(rt, "sack")
	c.Env.RcvBuf = rapid.SampledFrom([]int{8192, 65536, 1 << 20}).Draw(rt, "rcvbuf")
	c.Env.MTU = 1500
	c.Env.Pad = rapid.SampledFrom([]int{0, 0, 0, 46, 46, 1, 6}).Draw(rt, "linkpad")
	c.TS = rapid.Bool().Draw(rt, "ts")
	c.WS = rapid.SampledFrom([]int{-1, 0, 2, 7}).Draw(rt, "ws")
	c.Chunk = rapid.SampledFrom([]int{0, 0, 1, 16}).Draw(rt, "chunk")
	c.ReadLate = rapid.Bool().Draw(rt, "read_late")
	c.DataSeed = rapid.Uint64().Draw(rt, "seed")
	if rapid.IntRange(0, 3).Draw(rt, "active-open") == 1 {
		c.Active = true
		c.SynData = rapid.SampledFrom([]int{0, 1, 10, 10, 100, 1400}).Draw(rt, "syn-data")
	}
	max := c.Env.RcvBuf/2 - 1
	if max > 6000 {
		max = 6000
	}
	c.Stream = rapid.OneOf(rapid.IntRange(1, 40), rapid.IntRange(1, max)).Draw(rt, "stream")
	k := uint32(rapid.IntRange(0, c.Stream+2).Draw(rt, "iss_k"))
	c.ISS = rapid.OneOf(rapid.Uint32(), rapid.Just(uint32(0)-k), rapid.Just(uint32(1<<31)-k)).Draw(rt, "iss")
	if forceWrap {
		c.ISS = rapid.OneOf(rapid.Just(uint32(0)-k), rapid.Just(uint32(1<<31)-k)).Draw(rt, "iss_wrap")
	}
	n := rapid.IntRange(1, 14).Draw(rt, "nsegs")
	for i := 0; i < n; i++ {
		off := rapid.IntRange(0, c.Stream-1).Draw(rt, "off")
		ln := rapid.OneOf(rapid.IntRange(1, 8), rapid.IntRange(1, 1400)).Draw(rt, "len")
		if off+ln > c.Stream {
			ln = c.Stream - off
		}
		fin := off+ln == c.Stream && rapid.Bool().Draw(rt, "fin")
		c.Segs = append(c.Segs, RSeg{Off: off, Len: ln, Fin: fin})
	}
	return c
}

// runRecvConfirmed: the reassembly verdict rests on a deadline and is confirmed
// by a second run of the same case.
func runRecvConfirmed(c RecvCase) *evid.Failure {
	f := runRecv(c)
	if f == nil || f.Sig != "reassembly-incomplete" {
		return f
	}
	if f2 := runRecv(c); f2 != nil {
		return f2
	}
	evid.Label("raw-recv:reassembly-verdict-not-confirmed")
	evid.Unconfirmed()
	return nil
}

func TestRawRecv(t *testing.T) {
	evid.Run(t, evid.Spec[RecvCase]{Name: "raw-recv", Gen: genRecv, Run: runRecvConfirmed})
}

// ---------------------------------------------------------------------------
// Variant 2: the stack SENDS to a perverse but legal receiver: acknowledges in
// the middle of segments, advertises tiny / zero / growing windows (forcing
// the sender to split segments), ignores some segments to force
// retransmission, sends duplicate ACKs.

type AckStep struct {
	Mode int `json:"mode"` // 0 ack everything contiguous; 1 ack up to the middle of the newest segment; 2 no ack; 3 ignore the segment (as if lost) and dup-ack; 4 ack all, three dup acks
	Wnd  int `json:"wnd"`  // window to advertise (bytes, before scaling)
}

type SendCase struct {
	Env      rawpeer.EnvCfg `json:"env"`
	PeerISS  uint32         `json:"peer_iss"`
	StackISS uint32         `json:"stack_iss"`
	PlaceISS bool           `json:"place_iss"`
	MSS      int            `json:"mss"`
	WS       int            `json:"ws"`
	TS       bool           `json:"ts"`
	Data     int            `json:"data"`
	WChunk   int            `json:"wchunk"`
	Steps    []AckStep      `json:"steps"`
	DataSeed uint64         `json:"data_seed"`
}

func runSend(c SendCase) *evid.Failure {
	env := rawpeer.NewEnv(c.Env)
	defer env.Close()
	if os.Getenv("C01_DBG") != "" {
		tp := time.Now()
		env.Stack.AddTCPProbe(func(st stack.TCPEndpointState) {
			fmt.Printf("%8.1fms probe: una=%d nxt=%d wnd=%d outstanding=%d cwnd=%d rto=%v frActive=%v dupacks=? segflags\n", float64(time.Since(tp).Microseconds())/1000, uint32(st.Sender.SndUna)-c.StackISS-1, uint32(st.Sender.SndNxt)-c.StackISS-1, st.Sender.SndWnd, st.Sender.Outstanding, st.Sender.SndCwnd, st.Sender.RTO, st.Sender.FastRecovery.Active)
		})
	}
	// the stack is the active opener so that H2 can place its ISS
	cs, serr := netsim.NewSock(env.Stack, 6, env.Net())
	if serr != nil {
		return nil
	}
	defer cs.EP.Close()
	p := env.Peer(0, 80, c.PeerISS)
	p.Wnd = 65535
	done := make(chan bool, 1)
	if c.PlaceISS {
		netsim.PlaceISSBegin(c.StackISS)
	}
	go func() {
		e, ok := cs.ConnectNotify(tcpip.FullAddress{Addr: env.PeerAddr(), Port: 80}, 5*time.Second, nil)
		done <- ok && e == nil
	}()
	// learn the ephemeral port from the SYN
	f, _, ok := env.Tap.Scan(0, 3*time.Second, func(f netsim.Frame) bool {
		return f.Pkt.L4Kind == "tcp" && f.Pkt.Flags&codec.SYN != 0
	})
	if c.PlaceISS {
		netsim.PlaceISSEnd()
	}
	if !ok {
		evid.Label("raw-send:no-syn")
		return nil
	}
	p.StackPort = f.Pkt.SrcPort
	p.Cur = 0
	if !p.AcceptActive(rawpeer.SynOpts{MSS: c.MSS, WS: c.WS, TS: c.TS, SACKPerm: c.Env.SACK}, 3*time.Second) || !<-done {
		evid.Label("raw-send:no-connection")
		return nil
	}
	want := pattern(c.DataSeed, c.Data)
	offered := make(chan int, 1)
	written := int64(-1)
	go func() {
		rem := want
		for len(rem) > 0 {
			k := c.WChunk
			if k > len(rem) {
				k = len(rem)
			}
			n, werr, ok := cs.Write(rem[:k], 20*time.Second)
			rem = rem[n:]
			if werr != nil || !ok {
				break
			}
		}
		// what the application really handed over before it shut the write side down (a
		// write that found no buffer space for 20 s gives up: the FIN then follows that much)
		atomic.StoreInt64(&written, int64(len(want)-len(rem)))
		cs.EP.Shutdown(tcpip.ShutdownWrite)
		offered <- len(want) - len(rem)
	}()
	// receiver loop
	have := make([]bool, c.Data+1)
	edge := uint32(0) // contiguous bytes received
	finSeen := false
	step := 0
	scale := uint(0)
	if p.WS >= 0 {
		scale = uint(p.WS)
	}
	partialAcks, splits, ignored, zeroWnd := 0, 0, 0, 0
	rightEdge := uint32(0)
	maxAcked := uint32(0) // highest stream offset acknowledged so far
	deadline := time.Now().Add(20 * time.Second)
	t0 := time.Now()
	lastLen := -1
	for time.Now().Before(deadline) {
		fr, ok := p.Next(700 * time.Millisecond)
		if !ok {
			if finSeen && int(edge) == c.Data {
				break
			}
			// quiet: open the window fully and ack what we have, so the case terminates
			if int32(edge-maxAcked) > 0 {
				maxAcked = edge
			}
			p.RcvNxt = p.IRS + 1 + maxAcked
			if finSeen && int(edge) == c.Data {
				p.RcvNxt++
			}
			p.Wnd = 65535
			p.Ack()
			continue
		}
		k := fr.Pkt
		if k.Flags&codec.RST != 0 {
			break
		}
		off := k.Seq - (p.IRS + 1)
		if os.Getenv("C01_DBG") != "" {
			fmt.Printf("%8.1fms <- off=%d len=%d fl=%s step=%d edge=%d wnd=%d\n", float64(time.Since(t0).Microseconds())/1000, off, len(k.Payload), codec.FlagString(k.Flags), step, edge, p.Wnd)
		}
		if len(k.Payload) > 0 || k.Flags&codec.FIN != 0 {
			if int(off)+len(k.Payload) > c.Data {
				return evid.Failf("invented", "raw receiver: segment covers stream offsets [%d,%d) but only %d bytes were ever written", off, int(off)+len(k.Payload), c.Data)
			}
			if !bytes.Equal(k.Payload, want[off:int(off)+len(k.Payload)]) {
				at := 0
				for at < len(k.Payload) && k.Payload[at] == want[int(off)+at] {
					at++
				}
				return evid.Failf("wire-content", "raw receiver: segment at stream offset %d (len %d) carries wrong bytes from offset %d on (misplaced, duplicated or lost data)", off, len(k.Payload), int(off)+at)
			}
			if w := atomic.LoadInt64(&written); k.Flags&codec.FIN != 0 && int64(int(off)+len(k.Payload)) != w {
				return evid.Failf("fin-position", "raw receiver: FIN at stream offset %d but %d bytes were written before the shutdown", int(off)+len(k.Payload), w)
			}
			if k.Flags&codec.FIN != 0 && int(off)+len(k.Payload) != c.Data {
				evid.Label("raw-send:application-gave-up-writing")
			}
		}
		if len(k.Payload) == 0 && k.Flags&codec.FIN == 0 {
			continue // pure ACK of the stack
		}
		st := AckStep{Mode: 0, Wnd: 65535}
		if step < len(c.Steps) {
			st = c.Steps[step]
		}
		step++
		if lastLen > 0 && len(k.Payload) > 0 && len(k.Payload) < lastLen && len(k.Payload) < c.MSS {
			splits++
		}
		lastLen = len(k.Payload)
		if st.Mode == 3 {
			ignored++
		} else {
			for i := 0; i < len(k.Payload); i++ {
				have[int(off)+i] = true
			}
			if k.Flags&codec.FIN != 0 {
				finSeen = true
			}
			for int(edge) < c.Data && have[edge] {
				edge++
			}
		}
		ackTo := edge
		if st.Mode == 1 && len(k.Payload) > 1 && off+uint32(len(k.Payload)) == edge {
			ackTo = edge - uint32(len(k.Payload))/2
			if int32(ackTo-maxAcked) < 0 {
				// (the segment is a retransmission of data acknowledged before: a cumulative
				// acknowledgement is never taken back)
				ackTo = maxAcked
			}
			partialAcks++
			// un-receive the tail so that it must be retransmitted / resent
			for i := ackTo; i < edge; i++ {
				have[i] = false
			}
			edge = ackTo
		}
		if st.Mode == 2 {
			continue
		}
		if int32(ackTo-maxAcked) > 0 {
			maxAcked = ackTo
		}
		p.RcvNxt = p.IRS + 1 + ackTo
		if finSeen && int(edge) == c.Data && ackTo == edge {
			p.RcvNxt++
		}
		// legal advertisement: the right edge never moves left
		w := uint32(st.Wnd)
		if ackTo+w < rightEdge {
			w = rightEdge - ackTo
		}
		field := w >> scale
		if field > 65535 {
			field = 65535
		}
		rightEdge = ackTo + field<<scale
		if field == 0 {
			zeroWnd++
		}
		p.Wnd = uint16(field)
		p.Ack()
		if st.Mode == 3 || st.Mode == 4 {
			p.Ack()
			p.Ack()
			p.Ack()
		}
		if finSeen && int(edge) == c.Data && ackTo == edge {
			break // everything including the FIN is acknowledged
		}
	}
	if c.PlaceISS && p.IRS == c.StackISS {
		evid.Label("raw-send:iss-placed")
		if p.IRS+1+uint32(c.Data) < p.IRS+1 {
			evid.Label("raw-send:crossed_2^32")
		}
		if p.IRS+1 < 1<<31 && p.IRS+1+uint32(c.Data) >= 1<<31 {
			evid.Label("raw-send:crossed_2^31")
		}
	}
	if int(edge) != c.Data || !finSeen {
		evid.Label("raw-send:incomplete")
	}
	if partialAcks > 0 {
		evid.Label("raw-send:partial-ack")
	}
	if ignored > 0 {
		evid.Label("raw-send:forced-retransmit")
	}
	if zeroWnd > 0 {
		evid.Label("raw-send:zero-window")
	}
	if splits > 0 {
		evid.Label("raw-send:split-segments")
	}
	sendCrossed := c.PlaceISS && p.IRS == c.StackISS && (p.IRS+1+uint32(c.Data) < p.IRS+1 || (p.IRS+1 < 1<<31 && p.IRS+1+uint32(c.Data) >= 1<<31))
	if (!forceWrap && partialAcks+ignored+zeroWnd+splits > 0) || (forceWrap && sendCrossed) {
		evid.NonTrivialKey("send", fmt.Sprintf("%+v", c))
		evid.Sample("raw-send", c)
	}
	return nil
}

func genSend(rt *rapid.T) SendCase {
	var c SendCase
	c.Env.V6 = rapid.Bool().Draw(rt, "v6")
	c.Env.SACK = rapid.Bool().Draw(rt, "sack")
	c.Env.CC = rapid.SampledFrom([]string{"reno", "cubic"}).Draw(rt, "cc")
	c.Env.SndBuf = rapid.SampledFrom([]int{4096, 65536, 1 << 20}).Draw(rt, "sndbuf")
	c.Env.MTU = rapid.SampledFrom([]int{1280, 1500, 9000}).Draw(rt, "mtu")
	c.MSS = rapid.SampledFrom([]int{-1, 100, 536, 1000, 1460, 8000}).Draw(rt, "mss")
	c.WS = rapid.SampledFrom([]int{-1, 0, 1, 5}).Draw(rt, "ws")
	c.TS = rapid.Bool().Draw(rt, "ts")
	c.Data = rapid.OneOf(rapid.IntRange(1, 50), rapid.IntRange(1, 20000)).Draw(rt, "data")
	c.WChunk = rapid.OneOf(rapid.IntRange(1, 32), rapid.IntRange(1, 4000), rapid.Just(65536)).Draw(rt, "wchunk")
	if c.Data/c.WChunk > 1500 {
		c.WChunk = c.Data/1500 + 1
	}
	c.PeerISS = rapid.Uint32().Draw(rt, "peer_iss")
	c.DataSeed = rapid.Uint64().Draw(rt, "seed")
	if forceWrap || rapid.Bool().Draw(rt, "place") {
		c.PlaceISS = true
		c.StackISS = wrapNear(rt, "stack", c.Data, 65535)
	}
	n := rapid.IntRange(0, 25).Draw(rt, "nsteps")
	for i := 0; i < n; i++ {
		st := AckStep{Mode: rapid.SampledFrom([]int{0, 0, 1, 1, 2, 3, 4}).Draw(rt, "mode")}
		st.Wnd = rapid.OneOf(rapid.Just(0), rapid.IntRange(1, 10), rapid.IntRange(1, 2000), rapid.Just(65535)).Draw(rt, "wnd")
		c.Steps = append(c.Steps, st)
	}
	return c
}

func TestRawSend(t *testing.T) {
	evid.Run(t, evid.Spec[SendCase]{Name: "raw-send", Gen: genSend, Run: runSend})
}
