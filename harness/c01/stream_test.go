// Package c01 decides property C01: on every TCP connection the bytes returned
// by reads on one side are at all times a prefix of the bytes accepted by
// writes on the other side, whatever a non-altering network does.
package c01

import (
	"bytes"
	"fmt"
	"os"
	"sort"
	"strings"
	"sync"
	"sync/atomic"
	"testing"
	"time"

	tcpip "github.com/brewlin/net-protocol/protocol"
	"pgregory.net/rapid"
	"verifharness/evid"
	"verifharness/netsim"
)

// Sub = configuration x workload x fault program.
type Sub struct {
	Cfg        netsim.PairCfg `json:"cfg"`
	AtoB       int            `json:"a_to_b"`
	BtoA       int            `json:"b_to_a"`
	WChunkA    int            `json:"wchunk_a"`
	WChunkB    int            `json:"wchunk_b"`
	PauseBms   int            `json:"pause_b_ms"` // B's reader sleeps this long every PauseEvery reads
	PauseAms   int            `json:"pause_a_ms"`
	PauseEvery int            `json:"pause_every"`
	DataSeed   uint64         `json:"data_seed"`
	// ZeroW > 0: after every ZeroW-th chunk the writers also issue a zero-length
	// write (alternately an empty non-nil slice and a nil one): it must not show
	// in the stream
	ZeroW int `json:"zero_w,omitempty"`
}

// forceWrap is set by the C14 units of the plan: every connection then starts
// next to 2^31 or 2^32 and a case counts only if its stream crossed the point.
var forceWrap = os.Getenv("C01_FORCE_WRAP") == "1"

func pattern(seed uint64, n int) []byte {
	b := make([]byte, n)
	x := seed*0x9e3779b97f4a7c15 + 1
	for i := range b {
		x ^= x << 13
		x ^= x >> 7
		x ^= x << 17
		b[i] = byte(x >> 24)
	}
	return b
}

type dirResult struct {
	got     int
	eof     bool
	werr    string
	rerr    string
	stalled bool
	fail    *evid.Failure
}

// transfer runs one direction: w writes want in chunks then shuts down its
// write side; r reads with pacing and checks the prefix property after every
// read.
func transfer(name string, w, r *netsim.Sock, want []byte, chunk int, pauseMs, pauseEvery int, deadline time.Duration, res *dirResult, wg *sync.WaitGroup, zeroW int, aborted *atomic.Bool) {
	var offered int64 // bytes handed to Write calls that have begun
	var mu sync.Mutex
	var shutCalled atomic.Bool
	wg.Add(2)
	go func() {
		defer wg.Done()
		rem := want
		nw := 0
		for len(rem) > 0 {
			k := chunk
			if k > len(rem) {
				k = len(rem)
			}
			mu.Lock()
			offered += int64(k)
			mu.Unlock()
			n, err, ok := w.Write(rem[:k], deadline)
			if err != nil {
				res.werr = err.String()
				return
			}
			if !ok {
				res.stalled = true
				return
			}
			if n != k {
				res.fail = evid.Failf("write-accounting", "%s: Write accepted %d of %d bytes without error", name, n, k)
				return
			}
			rem = rem[k:]
			if nw++; zeroW > 0 && nw%zeroW == 0 {
				empty := []byte{}
				if (nw/zeroW)%2 == 0 {
					empty = nil
				}
				w.EP.Write(tcpip.SlicePayload(empty), tcpip.WriteOptions{})
			}
		}
		shutCalled.Store(true)
		if err := w.EP.Shutdown(tcpip.ShutdownWrite); err != nil {
			res.werr = "shutdown: " + err.String()
		}
	}()
	go func() {
		defer wg.Done()
		var got []byte
		reads := 0
		for {
			v, err, ok := r.Read(deadline, nil)
			if !ok {
				res.stalled = true
				break
			}
			if err == tcpip.ErrClosedForReceive {
				res.eof = true
				if !shutCalled.Load() && !aborted.Load() {
					res.fail = evid.Failf("truncated:eof-before-shutdown", "%s: the reader saw a clean end of stream after %d bytes although the writer has not shut down its side (it is still writing: %d of %d bytes handed to Write so far)", name, len(got), func() int64 { mu.Lock(); defer mu.Unlock(); return offered }(), len(want))
				}
				break
			}
			if err != nil {
				res.rerr = err.String()
				break
			}
			reads++
			got = append(got, v...)
			mu.Lock()
			off := offered
			mu.Unlock()
			if len(got) > len(want) || !bytes.Equal(got[len(got)-len(v):], want[len(got)-len(v):len(got)]) {
				at := len(got) - len(v)
				for at < len(got) && at < len(want) && got[at] == want[at] {
					at++
				}
				res.fail = evid.Failf("prefix", "%s: after %d reads the received stream (%d bytes) is not a prefix of the written stream (%d bytes): first difference at offset %d", name, reads, len(got), len(want), at)
				break
			}
			if int64(len(got)) > off {
				res.fail = evid.Failf("invented", "%s: received %d bytes but only %d were offered to Write so far", name, len(got), off)
				break
			}
			if pauseMs > 0 && pauseEvery > 0 && reads%pauseEvery == 0 && reads/pauseEvery <= 40 {
				time.Sleep(time.Duration(pauseMs) * time.Millisecond)
			}
		}
		res.got = len(got)
	}()
}

// Case is a small batch of independent connections run concurrently (the
// cases are timer-bound, so overlapping them buys throughput; rapid shrinks the
// batch down to the failing connection).
type Case struct {
	Subs []Sub `json:"subs"`
}

func runCase(c Case) *evid.Failure {
	res := make([]*evid.Failure, len(c.Subs))
	var wg sync.WaitGroup
	for i := range c.Subs {
		wg.Add(1)
		go func(i int) {
			defer wg.Done()
			res[i] = evid.Guard(func() *evid.Failure { return runSub(c.Subs[i]) })
		}(i)
	}
	wg.Wait()
	evid.Eval(int64(len(c.Subs)) - 1) // evid.Run counts one per Case
	for i, f := range res {
		if f != nil {
			f.Msg = fmt.Sprintf("connection %d of the batch: %s", i, f.Msg)
			return f
		}
	}
	return nil
}

func runSub(c Sub) *evid.Failure {
	p := netsim.NewPair(c.Cfg)
	defer p.Close()
	if msg := p.Establish(30 * time.Second); msg != "" {
		evid.Label("no_connection:" + strings.SplitN(msg, ":", 2)[0])
		return nil // C01 is a safety property of established connections
	}
	wantAB := pattern(c.DataSeed, c.AtoB)
	wantBA := pattern(c.DataSeed+1, c.BtoA)
	var ab, ba dirResult
	var wg sync.WaitGroup
	dl := 60 * time.Second
	var aborted atomic.Bool
	transfer("A->B", p.C, p.S, wantAB, c.WChunkA, c.PauseBms, c.PauseEvery, dl, &ab, &wg, c.ZeroW, &aborted)
	transfer("B->A", p.S, p.C, wantBA, c.WChunkB, c.PauseAms, c.PauseEvery, dl, &ba, &wg, c.ZeroW, &aborted)
	// Watchdog: C01 is a safety property, so a connection that went quiet
	// (e.g. finding F3: no persist timer) is aborted and counted, not waited for.
	done := make(chan struct{})
	go func() {
		for {
			select {
			case <-done:
				return
			case <-time.After(250 * time.Millisecond):
			}
			if p.W.SilentFor() > 8*time.Second && !p.W.PendingFaults() {
				aborted.Store(true)
				p.C.EP.Close()
				p.S.EP.Close()
				return
			}
		}
	}()
	wg.Wait()
	close(done)
	for _, r := range []*dirResult{&ab, &ba} {
		if r.fail != nil {
			r.fail.Msg += "\ncase: " + fmt.Sprintf("%+v", c) + "\nlast wire events:\n" + p.TraceTail(40)
			return r.fail
		}
	}
	clean := func(r *dirResult) bool { return r.werr == "" && r.rerr == "" && !r.stalled }
	if aborted.Load() {
		evid.Label("incomplete:wire-quiet-8s")
	} else if clean(&ab) && clean(&ba) {
		if !ab.eof || ab.got != len(wantAB) {
			return evid.Failf("truncated", "A->B: end of stream after %d of %d bytes with no error on either endpoint\n%s", ab.got, len(wantAB), p.TraceTail(40))
		}
		if !ba.eof || ba.got != len(wantBA) {
			return evid.Failf("truncated", "B->A: end of stream after %d of %d bytes with no error on either endpoint\n%s", ba.got, len(wantBA), p.TraceTail(40))
		}
		evid.Label("completed")
	} else {
		if ab.stalled || ba.stalled {
			evid.Label("incomplete:deadline")
			evid.Unconfirmed()
		} else {
			evid.Label("incomplete:endpoint-error")
		}
	}
	// classify what the network did
	ev := p.W.Events()
	faultsOnData, segs := 0, 0
	crossed := false
	seen := map[string]bool{}
	var applied []string
	for _, e := range ev {
		if e.Pkt.L4Kind != "tcp" {
			continue
		}
		isData := strings.HasPrefix(e.Key, "DATA") || strings.HasPrefix(e.Key, "ACK") || strings.HasPrefix(e.Key, "WUPD") || e.Key == "FIN"
		if e.Action == "" {
			if strings.HasPrefix(e.Key, "DATA") {
				segs++
			}
		} else {
			if isData {
				faultsOnData++
			}
			applied = append(applied, fmt.Sprintf("%d%s:%s", e.Dir, e.Key, e.Action))
			seen[strings.TrimPrefix(e.Action, "bg")] = true
		}
		if strings.HasPrefix(e.Key, "DATA") {
			// did the stream cross a wrap point?
			end := e.Pkt.Seq + uint32(len(e.Pkt.Payload))
			if end < e.Pkt.Seq {
				evid.Label("crossed_2^32")
				crossed = true
			}
			if e.Pkt.Seq < 1<<31 && end >= 1<<31 {
				evid.Label("crossed_2^31")
				crossed = true
			}
			if len(e.Pkt.SACKBlocks()) > 0 {
				seen["sackblocks"] = true
			}
		}
		if len(e.Pkt.SACKBlocks()) > 0 {
			seen["sackblocks"] = true
		}
		if e.Pkt.Wnd == 0 && e.Key != "RST" {
			seen["zerowindow"] = true
		}
	}
	for k := range seen {
		evid.Label("seen:" + k)
	}
	if c.Cfg.V6 {
		evid.Label("ipv6")
	} else {
		evid.Label("ipv4")
	}
	if c.Cfg.PlacePassive {
		if p.PassivePlaced {
			evid.Label("passive_iss_placed")
		} else {
			evid.Label("passive_iss_placement_missed")
		}
	}
	if (!forceWrap && faultsOnData >= 1 && segs >= 2) || (forceWrap && crossed) {
		sort.Strings(applied)
		cfg := c.Cfg
		cfg.Prog = netsim.Program{}
		evid.NonTrivialKey(fmt.Sprintf("%+v", cfg), c.AtoB, c.BtoA, c.WChunkA, c.WChunkB, strings.Join(applied, ","))
		evid.Sample("two-stack", map[string]any{"case": c, "applied_faults": applied, "a_to_b_received": ab.got, "b_to_a_received": ba.got})
	}
	return nil
}

func genCase(rt *rapid.T) Case {
	n := rapid.IntRange(1, 4).Draw(rt, "batch")
	var c Case
	for i := 0; i < n; i++ {
		c.Subs = append(c.Subs, genSub(rt))
	}
	return c
}

func genSub(rt *rapid.T) Sub {
	var c Sub
	c.Cfg.V6 = rapid.Bool().Draw(rt, "v6")
	c.Cfg.SACK = rapid.Bool().Draw(rt, "sack")
	c.Cfg.CC = rapid.SampledFrom([]string{"reno", "cubic"}).Draw(rt, "cc")
	mtus := []int{296, 576, 1280, 1500, 9000, 65535}
	if c.Cfg.V6 {
		mtus = []int{1280, 1500, 9000, 65535}
	}
	c.Cfg.MTU = rapid.SampledFrom(mtus).Draw(rt, "mtu")
	bufs := []int{4096, 8192, 65536, 1 << 20}
	c.Cfg.SndBuf = rapid.SampledFrom(bufs).Draw(rt, "sndbuf")
	c.Cfg.RcvBuf = rapid.SampledFrom(bufs).Draw(rt, "rcvbuf")
	c.Cfg.Chunk = rapid.SampledFrom([]int{0, 0, 1, 1, 2, 7, 64, 512}).Draw(rt, "viewchunk")
	c.Cfg.Pad = rapid.SampledFrom([]int{0, 0, 0, 46, 46, 1, 4, 18}).Draw(rt, "linkpad")
	c.Cfg.KeepaliveMs = rapid.SampledFrom([]int{0, 0, 0, 2, 10, 40}).Draw(rt, "keepalive")
	size := func(label string) int {
		return rapid.OneOf(rapid.IntRange(0, 3), rapid.IntRange(1, 3000), rapid.IntRange(1, 20000), rapid.IntRange(20000, 120000)).Draw(rt, label)
	}
	c.AtoB, c.BtoA = size("a_to_b"), size("b_to_a")
	chunk := func(label string) int {
		return rapid.OneOf(rapid.IntRange(1, 16), rapid.IntRange(1, 2000), rapid.IntRange(2000, 65536)).Draw(rt, label)
	}
	c.WChunkA, c.WChunkB = chunk("wchunk_a"), chunk("wchunk_b")
	// keep the number of Write calls bounded
	if c.AtoB/c.WChunkA > 3000 {
		c.WChunkA = c.AtoB/3000 + 1
	}
	if c.BtoA/c.WChunkB > 3000 {
		c.WChunkB = c.BtoA/3000 + 1
	}
	c.PauseEvery = rapid.IntRange(1, 8).Draw(rt, "pause_every")
	c.PauseBms = rapid.SampledFrom([]int{0, 0, 1, 5, 30}).Draw(rt, "pause_b")
	c.PauseAms = rapid.SampledFrom([]int{0, 0, 1, 5}).Draw(rt, "pause_a")
	c.DataSeed = rapid.Uint64().Draw(rt, "data_seed")
	c.ZeroW = rapid.SampledFrom([]int{0, 0, 0, 1, 2, 5}).Draw(rt, "zero_w")
	// ISS placement (C14's scenario units force a wrap-adjacent placement)
	lo := 0
	if forceWrap {
		lo = 1
	}
	switch rapid.IntRange(lo, 3).Draw(rt, "iss_mode") {
	case 1:
		c.Cfg.PlaceActive = true
		c.Cfg.ActiveISS = wrapNear(rt, "active", c.AtoB, c.Cfg.RcvBuf)
	case 2:
		c.Cfg.PlacePassive = true
		c.Cfg.PassiveISS = wrapNear(rt, "passive", c.BtoA, c.Cfg.RcvBuf)
	case 3:
		c.Cfg.PlaceActive = true
		c.Cfg.ActiveISS = wrapNear(rt, "active", c.AtoB, c.Cfg.RcvBuf)
	}
	// fault program
	mss := c.Cfg.MTU - 40
	if c.Cfg.V6 {
		mss = c.Cfg.MTU - 60
	}
	nr := rapid.IntRange(0, 6).Draw(rt, "nrules")
	for i := 0; i < nr; i++ {
		var r netsim.Rule
		r.Dir = rapid.IntRange(0, 1).Draw(rt, "dir")
		total := c.AtoB
		other := c.BtoA
		if r.Dir == 1 {
			total, other = c.BtoA, c.AtoB
		}
		kind := rapid.SampledFrom([]string{"DATA", "DATA", "DATA", "DATA", "DATA", "ACK", "ACK", "ACK", "SYN", "SYNACK", "FIN", "FIN", "WUPD0", "WUPD0"}).Draw(rt, "kind")
		switch kind {
		case "DATA":
			// segment boundaries depend on the negotiated MSS (timestamps take 12 bytes)
			per := mss - 12
			if per < 1 {
				per = 1
			}
			nseg := total/per + 1
			r.Key = fmt.Sprintf("DATA@%d", per*rapid.IntRange(0, nseg).Draw(rt, "segidx"))
		case "ACK":
			per := mss - 12
			if per < 1 {
				per = 1
			}
			nseg := other/per + 1
			k := rapid.IntRange(0, nseg).Draw(rt, "ackidx")
			a := per * k
			if a > other {
				a = other
			}
			r.Key = fmt.Sprintf("ACK@%d", a)
		default:
			r.Key = kind
			if kind == "SYN" && r.Dir == 1 {
				r.Key = "SYNACK"
			}
			if kind == "SYNACK" {
				r.Dir = 1
			}
		}
		r.Skip = rapid.SampledFrom([]int{0, 0, 0, 1}).Draw(rt, "skip")
		r.Count = rapid.SampledFrom([]int{1, 1, 1, 2}).Draw(rt, "count")
		r.Action = rapid.SampledFrom([]string{"drop", "drop", "dup", "hold", "replay"}).Draw(rt, "action")
		r.N = rapid.SampledFrom([]int{1, 2, 3, 10, 50}).Draw(rt, "n")
		c.Cfg.Prog.Rules = append(c.Cfg.Prog.Rules, r)
	}
	// transmit faults: the sending link endpoint refuses a frame (WritePacket returns an error)
	if rapid.SampledFrom([]int{0, 0, 0, 1, 1, 2}).Draw(rt, "nrefuse") > 0 {
		for i, n := 0, rapid.IntRange(1, 2).Draw(rt, "nrefuse2"); i < n; i++ {
			c.Cfg.Prog.Rules = append(c.Cfg.Prog.Rules, netsim.Rule{Dir: rapid.IntRange(0, 1).Draw(rt, "rdir"),
				Key:  rapid.SampledFrom([]string{"DATA", "DATA", "ACK", "FIN", "SYN", "SYNACK", "ANY"}).Draw(rt, "rkind"),
				Skip: rapid.SampledFrom([]int{0, 0, 1, 3, 8}).Draw(rt, "rskip"), Count: rapid.IntRange(1, 3).Draw(rt, "rcount"), Action: "refuse"})
		}
	}
	rate := rapid.SampledFrom([]int{0, 0, 10, 50, 200}).Draw(rt, "bgrate")
	if rate > 0 {
		c.Cfg.Prog.DropPM = rate / 2
		c.Cfg.Prog.DupPM = rate / 4
		c.Cfg.Prog.HoldPM = rate / 4
		c.Cfg.Prog.Budget = rapid.IntRange(1, 40).Draw(rt, "bgbudget")
		c.Cfg.Prog.Seed = rapid.Uint64().Draw(rt, "bgseed")
	}
	return c
}

// wrapNear picks an ISS such that a stream of `size` bytes crosses 2^31 or 2^32.
// wrapNear places a sequence number at most size (the bytes that will be sent) below a wrap
// point, or up to window further below it, so that the right edge of the window crosses the
// point before the data does.
func wrapNear(rt *rapid.T, label string, size int, window int) uint32 {
	if window <= 0 {
		window = 1 << 20
	}
	k := uint32(rapid.OneOf(rapid.IntRange(0, size+2), rapid.IntRange(window+1, window+size+1), rapid.IntRange(0, size+window+2)).Draw(rt, label+"_k"))
	if rapid.Bool().Draw(rt, label+"_32") {
		return 0 - k
	}
	return 1<<31 - k
}

func TestStream(t *testing.T) {
	evid.Run(t, evid.Spec[Case]{Name: "stream", Gen: genCase, Run: runCase})
}
