package c17

import (
	"fmt"
	"runtime"
	"runtime/debug"
	"sort"
	"strings"
	"sync"
	"sync/atomic"
	"testing"
	"time"

	"github.com/brewlin/net-protocol/pkg/waiter"
	"pgregory.net/rapid"
	"verifharness/evid"
)

// ---------------------------------------------------------------------------
// Concurrent check: worker goroutines register/unregister the entries they own
// (and take tokens of their channel entries) while notifier goroutines call
// Notify/Events/IsEmpty on the same queue. Every operation takes a begin and an
// end ticket from ONE atomic counter, every counting callback takes a ticket
// when it begins. The oracle only uses the order of those tickets (interval
// order), never time.
// ---------------------------------------------------------------------------

// COp is one step of a goroutine's program.
//
//	workers:   reg(E,M) unreg(E) take(E) yield
//	notifiers: notify(M) events empty yield
type COp struct {
	K string `json:"k"`
	E int    `json:"e,omitempty"`
	M uint16 `json:"m,omitempty"`
}

// ConcCase is the replayable program. A replay re-runs the same program many
// times (the interleaving is up to the Go scheduler); History is the recorded
// operation history of the failing execution (output only, ignored on input).
type ConcCase struct {
	Kinds     []string `json:"kinds"` // per entry: "cb" counting callback, "ch" NewChannelEntry(nil)
	Owner     []int    `json:"owner"` // per entry: index of the worker that owns it
	Workers   [][]COp  `json:"workers"`
	Notifiers [][]COp  `json:"notifiers"`
	CbYield   int      `json:"cb_yield"` // a counting callback yields the processor when its ticket %CbYield==0 (0: never)
	Reps      int      `json:"reps"`
	History   *Hist    `json:"history,omitempty"`
}

// HCb is one recorded callback: entry and the ticket taken when it began.
type HCb struct {
	E     int   `json:"e"`
	T     int64 `json:"t"`
	Wrong bool  `json:"wrong_entry_arg,omitempty"`
}

// HOp is one recorded operation with its begin/end tickets.
type HOp struct {
	G   string `json:"g"` // goroutine: w<i>, n<i>, main (closing sweep)
	K   string `json:"k"`
	E   int    `json:"e,omitempty"`
	M   uint16 `json:"m,omitempty"`
	B   int64  `json:"b"`
	End int64  `json:"end"`
	Got uint16 `json:"got,omitempty"` // take: 1 = got a token; events: mask; empty: 1 = true
	Cbs []HCb  `json:"cbs,omitempty"` // notify: callbacks that ran inside it
}

// Hist is an operation history, sorted by begin ticket.
type Hist struct {
	Rep   int   `json:"rep"`
	Ops   []HOp `json:"ops"`
	Stray []HCb `json:"callbacks_outside_any_notify,omitempty"`
}

func validConc(c *ConcCase) bool {
	if c == nil || len(c.Kinds) == 0 || len(c.Kinds) != len(c.Owner) || len(c.Workers) == 0 || len(c.Notifiers) == 0 || c.Reps < 1 || c.CbYield < 0 {
		return false
	}
	if len(c.Workers)+len(c.Notifiers) > 64 || len(c.Kinds) > 256 {
		return false
	}
	for e, k := range c.Kinds {
		if (k != "cb" && k != "ch") || c.Owner[e] < 0 || c.Owner[e] >= len(c.Workers) {
			return false
		}
	}
	reg := make([]bool, len(c.Kinds))
	for w, prog := range c.Workers {
		for _, o := range prog {
			if o.K == "yield" {
				continue
			}
			if o.E < 0 || o.E >= len(reg) || c.Owner[o.E] != w {
				return false
			}
			switch o.K {
			case "reg":
				if reg[o.E] {
					return false
				}
				reg[o.E] = true
			case "unreg":
				if !reg[o.E] {
					return false
				}
				reg[o.E] = false
			case "take":
				if c.Kinds[o.E] != "ch" {
					return false
				}
			default:
				return false
			}
		}
	}
	for _, prog := range c.Notifiers {
		for _, o := range prog {
			switch o.K {
			case "notify", "events", "empty", "yield":
			default:
				return false
			}
		}
	}
	return true
}

type stormPanic struct{}

type concRun struct {
	c       *ConcCase
	q       waiter.Queue
	ents    []waiter.Entry
	chans   []chan struct{}
	ticket  atomic.Int64
	start   atomic.Int32
	startCh chan struct{}
	// notifier slots: one per notifier goroutine plus one for the main
	// goroutine's closing sweep. Callbacks find their slot by goroutine id.
	ngid  []atomic.Int64
	cbBuf [][]HCb

	mu      sync.Mutex
	stray   []HCb
	fatal   *evid.Failure
	fatalCh chan struct{}
}

type concCB struct {
	r  *concRun
	id int
}

func (cb *concCB) Callback(e *waiter.Entry) {
	r := cb.r
	t := r.ticket.Add(1) // begin ticket first, before any slow work
	rec := HCb{E: cb.id, T: t, Wrong: e != &r.ents[cb.id]}
	gid := curGID()
	slot := -1
	for i := range r.ngid {
		if r.ngid[i].Load() == gid {
			slot = i
			break
		}
	}
	if slot < 0 {
		r.mu.Lock()
		if len(r.stray) < 64 {
			r.stray = append(r.stray, rec)
		}
		r.mu.Unlock()
		return
	}
	r.cbBuf[slot] = append(r.cbBuf[slot], rec)
	if len(r.cbBuf[slot]) > 4*len(r.ents)+16 {
		panic(stormPanic{}) // a Notify that never ends (cyclic list)
	}
	if y := r.c.CbYield; y > 0 && t%int64(y) == 0 {
		runtime.Gosched()
	}
}

// awaitStart is the start barrier: a short spin so that the participants leave
// it as simultaneously as possible, then a blocking wait (so that an
// overloaded machine is not loaded further).
func (r *concRun) awaitStart() {
	for i := 0; i < 64; i++ {
		if r.start.Load() != 0 {
			return
		}
		runtime.Gosched()
	}
	<-r.startCh
}

func (r *concRun) fail(f *evid.Failure) {
	r.mu.Lock()
	if r.fatal == nil {
		r.fatal = f
		close(r.fatalCh)
	}
	r.mu.Unlock()
}

func (r *concRun) guard(name string) {
	if x := recover(); x != nil {
		if _, ok := x.(stormPanic); ok {
			r.fail(evid.Failf("conc:notify-duplicate", "%s: one Notify invoked more than %d callbacks for %d entries (callback storm / cyclic list)", name, 4*len(r.ents)+16, len(r.ents)))
			return
		}
		stk := string(debug.Stack())
		site := repoFrame(stk)
		if site == "" {
			site = "harness"
		}
		r.fail(&evid.Failure{Sig: "panic:" + site, Msg: fmt.Sprintf("%s: panic: %v\n%s", name, x, stk)})
	}
}

func (r *concRun) doWorkerOp(g string, o COp, log *[]HOp) {
	h := HOp{G: g, K: o.K, E: o.E, M: o.M}
	switch o.K {
	case "yield":
		runtime.Gosched()
		return
	case "reg":
		h.B = r.ticket.Add(1)
		r.q.EventRegister(&r.ents[o.E], waiter.EventMask(o.M))
		h.End = r.ticket.Add(1)
	case "unreg":
		h.B = r.ticket.Add(1)
		r.q.EventUnregister(&r.ents[o.E])
		h.End = r.ticket.Add(1)
	case "take":
		h.B = r.ticket.Add(1)
		select {
		case <-r.chans[o.E]:
			h.Got = 1
		default:
		}
		h.End = r.ticket.Add(1)
	}
	*log = append(*log, h)
}

func (r *concRun) doNotifierOp(g string, slot int, o COp, log *[]HOp) {
	h := HOp{G: g, K: o.K, M: o.M}
	switch o.K {
	case "yield":
		runtime.Gosched()
		return
	case "notify":
		r.cbBuf[slot] = r.cbBuf[slot][:0]
		h.B = r.ticket.Add(1)
		r.q.Notify(waiter.EventMask(o.M))
		h.End = r.ticket.Add(1)
		h.Cbs = append([]HCb(nil), r.cbBuf[slot]...)
		r.cbBuf[slot] = r.cbBuf[slot][:0]
	case "events":
		h.B = r.ticket.Add(1)
		got := r.q.Events()
		h.End = r.ticket.Add(1)
		h.Got = uint16(got)
	case "empty":
		h.B = r.ticket.Add(1)
		got := r.q.IsEmpty()
		h.End = r.ticket.Add(1)
		if got {
			h.Got = 1
		}
	}
	*log = append(*log, h)
}

// execConc runs the program once on a fresh queue and returns the history.
// The only failures it reports itself are a panic in the code under test and
// a deadlock (every unfinished participant parked on a synchronisation
// primitive inside the code under test, seen in one stop-the-world snapshot).
func execConc(c *ConcCase, rep int) (*Hist, *evid.Failure) {
	nw, nn, ne := len(c.Workers), len(c.Notifiers), len(c.Kinds)
	r := &concRun{c: c, ents: make([]waiter.Entry, ne), chans: make([]chan struct{}, ne),
		ngid: make([]atomic.Int64, nn+1), cbBuf: make([][]HCb, nn+1), fatalCh: make(chan struct{}), startCh: make(chan struct{})}
	for e, k := range c.Kinds {
		if k == "cb" {
			r.ents[e] = waiter.Entry{Callback: &concCB{r, e}}
		} else {
			r.ents[e], r.chans[e] = waiter.NewChannelEntry(nil)
		}
	}
	logs := make([][]HOp, nw+nn)
	gids := make([]atomic.Int64, nw+nn)
	finished := make([]atomic.Bool, nw+nn)
	var ready, wg sync.WaitGroup
	ready.Add(nw + nn)
	wg.Add(nw + nn)
	for w := 0; w < nw; w++ {
		go func(w int) {
			defer wg.Done()
			defer finished[w].Store(true)
			name := fmt.Sprintf("w%d", w)
			defer r.guard(name)
			gids[w].Store(curGID())
			ready.Done()
			r.awaitStart()
			for _, o := range c.Workers[w] {
				r.doWorkerOp(name, o, &logs[w])
			}
		}(w)
	}
	for n := 0; n < nn; n++ {
		go func(n int) {
			defer wg.Done()
			defer finished[nw+n].Store(true)
			name := fmt.Sprintf("n%d", n)
			defer r.guard(name)
			id := curGID()
			gids[nw+n].Store(id)
			r.ngid[n].Store(id)
			ready.Done()
			r.awaitStart()
			for _, o := range c.Notifiers[n] {
				r.doNotifierOp(name, n, o, &logs[nw+n])
			}
		}(n)
	}
	ready.Wait()
	r.start.Store(1)
	close(r.startCh)
	done := make(chan struct{})
	go func() { wg.Wait(); close(done) }()

	collect := func(extra []HOp) *Hist {
		h := &Hist{Rep: rep}
		for _, l := range logs {
			h.Ops = append(h.Ops, l...)
		}
		h.Ops = append(h.Ops, extra...)
		sort.SliceStable(h.Ops, func(i, j int) bool { return h.Ops[i].B < h.Ops[j].B })
		r.mu.Lock()
		h.Stray = append(h.Stray, r.stray...)
		r.mu.Unlock()
		return h
	}

	tk := time.NewTicker(200 * time.Millisecond)
	defer tk.Stop()
	lastTicket := int64(-1)
wait:
	for {
		select {
		case <-done:
			break wait
		case <-r.fatalCh:
			// the participants may be stuck behind a lock the panicking call
			// still holds: abandon them (no history: they may still be writing)
			return nil, r.fatal
		case <-tk.C:
			// the ticker only decides how often to look; the verdict below is a
			// structural one (all participants parked for ever), not a timing one
			if cur := r.ticket.Load(); cur != lastTicket {
				lastTicket = cur
				continue
			}
			byID := map[int64]gInfo{}
			for _, g := range allGoroutines() {
				byID[g.id] = g
			}
			stuck, free := []string{}, 0
			for i := range gids {
				if finished[i].Load() {
					continue
				}
				g, ok := byID[gids[i].Load()]
				if !ok {
					continue // exited between the two looks
				}
				if fr := blockSite(g.stack); parked[g.state] && fr != "" {
					stuck = append(stuck, fmt.Sprintf("goroutine %d [%s] in %s", g.id, g.state, fr))
				} else {
					free++
				}
			}
			if free == 0 && len(stuck) > 0 {
				return nil, evid.Failf("hang:deadlock", "every unfinished participant is parked inside the code under test and nobody is left to wake them:\n%s", strings.Join(stuck, "\n"))
			}
		}
	}
	r.mu.Lock()
	f := r.fatal
	r.mu.Unlock()
	if f != nil {
		return nil, f
	}

	// closing sweep on the now quiescent queue, sequentially on one goroutine
	var extra []HOp
	closeFail := watch(func() *evid.Failure {
		defer r.guard("main")
		r.ngid[nn].Store(curGID())
		for _, o := range []COp{{K: "notify", M: 0xffff}, {K: "events"}, {K: "empty"}} {
			r.doNotifierOp("main", nn, o, &extra)
		}
		regd := make([]bool, ne)
		for _, prog := range c.Workers {
			for _, o := range prog {
				if o.K == "reg" {
					regd[o.E] = true
				} else if o.K == "unreg" {
					regd[o.E] = false
				}
			}
		}
		for e := 0; e < ne; e++ {
			if c.Kinds[e] == "ch" {
				r.doWorkerOp("main", COp{K: "take", E: e}, &extra)
			}
		}
		for e := 0; e < ne; e++ {
			if regd[e] {
				r.doWorkerOp("main", COp{K: "unreg", E: e}, &extra)
			}
		}
		for _, o := range []COp{{K: "empty"}, {K: "events"}, {K: "notify", M: 0xffff}} {
			r.doNotifierOp("main", nn, o, &extra)
		}
		return nil
	})
	r.mu.Lock()
	if closeFail == nil {
		closeFail = r.fatal
	}
	r.mu.Unlock()
	if closeFail != nil {
		return nil, closeFail
	}
	return collect(extra), nil
}

// ---- interval-order oracle -------------------------------------------------

type period struct {
	rb, re int64
	m      uint16
	hasU   bool
	ub, ue int64
}

type concStats struct {
	overlapNotifies                              int // notifies overlapping a register/unregister
	must, mustNot, racingCalled, racingNotCalled int // (notify, counting entry) pairs by class
	takeToken, takeEmpty, takeMustToken          int
	eventsRacing                                 int
}

// checkHistory decides one recorded history. It is a pure function of the
// history and of the entry kinds.
//
// For a notify N=[nb,ne] with mask nm and an entry x with registration periods
// k = (register [rb,re] with mask m, optional unregister [ub,ue]):
//
//	firm(x,N)     : some k with re < nb, m&nm != 0 and no unregister or ub > ne
//	                -> x MUST be called exactly once by N
//	possible(x,N) : some k with rb < ne, m&nm != 0 and no unregister or ue > nb
//	                -> otherwise x MUST NOT be called by N
//	never more than one callback of x per N;
//	a callback of x that began at ticket t needs some k with rb < t, m&nm != 0
//	and no unregister or t < ue (it did not begin after the unregistration returned).
func checkHistory(kinds []string, h *Hist) (concStats, *evid.Failure) {
	var st concStats
	ne := len(kinds)
	per := make([][]period, ne)
	var regOps []HOp
	for _, o := range h.Ops {
		switch o.K {
		case "reg":
			per[o.E] = append(per[o.E], period{rb: o.B, re: o.End, m: o.M})
			regOps = append(regOps, o)
		case "unreg":
			l := len(per[o.E])
			if l == 0 || per[o.E][l-1].hasU {
				return st, evid.Failf("harness:history", "unregister of e%d without a registration in the recorded history", o.E)
			}
			per[o.E][l-1].hasU, per[o.E][l-1].ub, per[o.E][l-1].ue = true, o.B, o.End
			regOps = append(regOps, o)
		}
	}
	firm := func(x int, b, e int64, nm uint16) bool {
		for _, k := range per[x] {
			if k.re < b && k.m&nm != 0 && (!k.hasU || k.ub > e) {
				return true
			}
		}
		return false
	}
	possible := func(x int, b, e int64, nm uint16) bool {
		for _, k := range per[x] {
			if k.rb < e && k.m&nm != 0 && (!k.hasU || k.ue > b) {
				return true
			}
		}
		return false
	}
	if len(h.Stray) > 0 {
		s := h.Stray[0]
		return st, evid.Failf("conc:callback-outside-notify", "the callback of e%d ran (ticket %d) on a goroutine that is not inside any Notify of the harness", s.E, s.T)
	}
	var notifies []HOp
	for _, o := range h.Ops {
		switch o.K {
		case "notify":
			notifies = append(notifies, o)
			for _, ro := range regOps {
				if o.B < ro.End && ro.B < o.End {
					st.overlapNotifies++
					break
				}
			}
			cnt := make([]int, ne)
			for _, cb := range o.Cbs {
				if cb.E < 0 || cb.E >= ne || kinds[cb.E] != "cb" {
					return st, evid.Failf("harness:history", "callback record for entry %d", cb.E)
				}
				if cb.Wrong {
					return st, evid.Failf("conc:wrong-entry-arg", "notify %s[%d,%d] mask %#x: the callback of e%d was invoked with another *Entry", o.G, o.B, o.End, o.M, cb.E)
				}
				cnt[cb.E]++
				inWindow, maskMismatch, afterUnreg := false, false, false
				for _, k := range per[cb.E] {
					if k.rb < cb.T && (!k.hasU || cb.T < k.ue) {
						if k.m&o.M != 0 {
							inWindow = true
						} else {
							maskMismatch = true
						}
					}
					if k.hasU && k.ue < cb.T {
						afterUnreg = true
					}
				}
				if !inWindow {
					sig := "conc:callback-before-register"
					if maskMismatch {
						sig = "conc:callback-mask-mismatch"
					} else if afterUnreg {
						sig = "conc:callback-after-unregister"
					}
					return st, evid.Failf(sig, "notify %s[%d,%d] mask %#x: the callback of e%d began at ticket %d, when no registration of e%d with an intersecting mask was in effect (registrations of e%d: %s)", o.G, o.B, o.End, o.M, cb.E, cb.T, cb.E, cb.E, fmtPeriods(per[cb.E]))
				}
			}
			for x := 0; x < ne; x++ {
				if kinds[x] != "cb" {
					continue
				}
				fm, ps := firm(x, o.B, o.End, o.M), possible(x, o.B, o.End, o.M)
				switch {
				case cnt[x] > 1:
					return st, evid.Failf("conc:notify-duplicate", "notify %s[%d,%d] mask %#x called e%d %d times (registrations of e%d: %s)", o.G, o.B, o.End, o.M, x, cnt[x], x, fmtPeriods(per[x]))
				case fm && cnt[x] == 0:
					return st, evid.Failf("conc:notify-missed", "notify %s[%d,%d] mask %#x did not call e%d although its registration had returned before the notify began and no unregistration began before it ended (registrations of e%d: %s)", o.G, o.B, o.End, o.M, x, x, fmtPeriods(per[x]))
				case !ps && cnt[x] > 0:
					return st, evid.Failf("conc:notify-spurious", "notify %s[%d,%d] mask %#x called e%d although no registration of e%d with an intersecting mask overlaps the notify (registrations of e%d: %s)", o.G, o.B, o.End, o.M, x, x, x, fmtPeriods(per[x]))
				}
				switch {
				case fm:
					st.must++
				case !ps:
					st.mustNot++
				case cnt[x] == 1:
					st.racingCalled++
				default:
					st.racingNotCalled++
				}
			}
		case "events":
			var lo, hi uint16
			for x := 0; x < ne; x++ {
				for _, k := range per[x] {
					if k.re < o.B && (!k.hasU || k.ub > o.End) {
						lo |= k.m
					}
					if k.rb < o.End && (!k.hasU || k.ue > o.B) {
						hi |= k.m
					}
				}
			}
			if lo&^o.Got != 0 || o.Got&^hi != 0 {
				return st, evid.Failf("conc:events", "Events() %s[%d,%d] = %#x; masks registered throughout the call: %#x, masks of registrations overlapping the call: %#x", o.G, o.B, o.End, o.Got, lo, hi)
			}
			if lo != hi {
				st.eventsRacing++
			}
		case "empty":
			anyFirm, anyPossible := false, false
			for x := 0; x < ne; x++ {
				for _, k := range per[x] {
					if k.re < o.B && (!k.hasU || k.ub > o.End) {
						anyFirm = true
					}
					if k.rb < o.End && (!k.hasU || k.ue > o.B) {
						anyPossible = true
					}
				}
			}
			if (o.Got == 1 && anyFirm) || (o.Got == 0 && !anyPossible) {
				return st, evid.Failf("conc:isempty", "IsEmpty() %s[%d,%d] = %v; an entry registered throughout the call: %v, a registration overlapping the call: %v", o.G, o.B, o.End, o.Got == 1, anyFirm, anyPossible)
			}
		}
	}
	// channel entries: the owner's takes are sequential, so between two takes
	// nobody removes a token
	for x := 0; x < ne; x++ {
		if kinds[x] != "ch" {
			continue
		}
		var prevTakeEnd, prevSuccB int64
		for _, o := range h.Ops {
			if o.K != "take" || o.E != x {
				continue
			}
			if o.Got == 0 {
				st.takeEmpty++
				for _, n := range notifies {
					if n.B > prevTakeEnd && n.End < o.B && firm(x, n.B, n.End, n.M) {
						return st, evid.Failf("conc:chan-token-lost", "take %s[%d,%d] of channel entry e%d found no token although notify %s[%d,%d] mask %#x ran entirely between the previous take (ended %d) and this one while e%d was registered (registrations: %s)", o.G, o.B, o.End, x, n.G, n.B, n.End, n.M, prevTakeEnd, x, fmtPeriods(per[x]))
					}
				}
			} else {
				st.takeToken++
				src := false
				for _, n := range notifies {
					if n.B < o.End && n.End > prevSuccB && possible(x, n.B, n.End, n.M) {
						src = true
						if n.B > prevTakeEnd && n.End < o.B && firm(x, n.B, n.End, n.M) {
							st.takeMustToken++
							break
						}
					}
				}
				if !src {
					return st, evid.Failf("conc:chan-token-spurious", "take %s[%d,%d] of channel entry e%d got a token although no notify that could have called e%d ran since the previous successful take (began %d) (registrations: %s)", o.G, o.B, o.End, x, x, prevSuccB, fmtPeriods(per[x]))
				}
				prevSuccB = o.B
			}
			prevTakeEnd = o.End
		}
	}
	return st, nil
}

func fmtPeriods(ps []period) string {
	var sb strings.Builder
	for i, k := range ps {
		if i > 0 {
			sb.WriteString(" ")
		}
		fmt.Fprintf(&sb, "reg[%d,%d]mask=%#x", k.rb, k.re, k.m)
		if k.hasU {
			fmt.Fprintf(&sb, "/unreg[%d,%d]", k.ub, k.ue)
		}
	}
	if len(ps) == 0 {
		return "none"
	}
	return sb.String()
}

func histKey(h *Hist) string {
	var sb strings.Builder
	for _, o := range h.Ops {
		fmt.Fprintf(&sb, "%s %s %d %d %d %d %d", o.G, o.K, o.E, o.M, o.B, o.End, o.Got)
		for _, cb := range o.Cbs {
			fmt.Fprintf(&sb, " %d@%d", cb.E, cb.T)
		}
		sb.WriteByte(';')
	}
	return sb.String()
}

// stressT is the *testing.T of the running TestConcStress. Under the race
// detector every execution runs as a sub-test of it, which is how testing
// attributes a detected data race to one execution.
var stressT *testing.T

// stressBegan/stressBudget bound the wall time the stress unit spends
// exploring: on an overloaded machine lock hand-offs get slow and the planned
// number of programs could exceed the unit's time-out. Once the budget is used
// up the remaining generated programs are skipped (and not counted). This is
// an exploration budget, not an assertion.
var (
	stressBegan  time.Time
	stressBudget time.Duration
	budgetNote   sync.Once
)

func runConc(c *ConcCase) *evid.Failure {
	if !validConc(c) {
		evid.Label("conc_invalid_case_skipped")
		evid.Note("conc: a case that breaks the register/unregister precondition was skipped")
		return nil
	}
	c.History = nil
	reps := c.Reps
	if evid.ReplayMode() {
		reps *= 25
	} else if stressBudget > 0 && time.Since(stressBegan) > stressBudget {
		evid.Label("conc_program_skipped_time_budget_used_up")
		budgetNote.Do(func() {
			evid.Note("conc: the stress unit used up its wall-time budget (%v) before all planned programs ran; the rest was skipped and is not counted", stressBudget)
		})
		evid.Eval(-1) // evid.Run counts every generated case; this one was not executed
		return nil
	}
	for rep := 0; rep < reps; rep++ {
		var h *Hist
		var f *evid.Failure
		var st concStats
		body := func() {
			h, f = execConc(c, rep)
			if f == nil {
				st, f = checkHistory(c.Kinds, h)
			}
		}
		ok := true
		if raceEnabled && stressT != nil {
			ok = stressT.Run("exec", func(*testing.T) { body() })
		} else {
			body()
		}
		if f == nil && !ok {
			f = evid.Failf("race:data-race", "the race detector reported a data race while this program ran (the report is in the unit's log)")
		}
		if rep > 0 {
			evid.Eval(1) // evid.Run counts one evaluation per case; every further execution is one more
		}
		if f != nil {
			c.History = h
			return f
		}
		evid.Label("conc_executions")
		if st.overlapNotifies > 0 {
			evid.NonTrivialKey(histKey(h))
			evid.Label("conc_exec_with_notify_overlapping_regunreg")
			if len(h.Ops) <= 40 {
				evid.Sample("conc-history", map[string]any{"kinds": c.Kinds, "history": h})
			}
		}
		evid.LabelN("conc_notifies_overlapping_regunreg", int64(st.overlapNotifies))
		evid.LabelN("conc_pairs_must_be_called(checked)", int64(st.must))
		evid.LabelN("conc_pairs_must_not_be_called(checked)", int64(st.mustNot))
		evid.LabelN("conc_pairs_racing_called", int64(st.racingCalled))
		evid.LabelN("conc_pairs_racing_not_called", int64(st.racingNotCalled))
		evid.LabelN("conc_take_token", int64(st.takeToken))
		evid.LabelN("conc_take_token_required_by_oracle", int64(st.takeMustToken))
		evid.LabelN("conc_take_empty", int64(st.takeEmpty))
		evid.LabelN("conc_events_call_racing_with_regunreg", int64(st.eventsRacing))
	}
	return nil
}

func genConc(rt *rapid.T) *ConcCase {
	c := &ConcCase{}
	nw := rapid.IntRange(1, 8).Draw(rt, "workers")
	nn := rapid.IntRange(1, 3).Draw(rt, "notifiers")
	bits := rapid.IntRange(1, 3).Draw(rt, "maskbits")
	genMask := func(label string) uint16 {
		if rapid.IntRange(0, 19).Draw(rt, label+"-zero") == 0 {
			return 0
		}
		return uint16(rapid.IntRange(1, 1<<uint(bits)-1).Draw(rt, label))
	}
	for w := 0; w < nw; w++ {
		k := rapid.IntRange(1, 3).Draw(rt, "entries")
		var own []int
		for i := 0; i < k; i++ {
			own = append(own, len(c.Kinds))
			c.Kinds = append(c.Kinds, rapid.SampledFrom([]string{"cb", "cb", "cb", "ch"}).Draw(rt, "kind"))
			c.Owner = append(c.Owner, w)
		}
		reg := map[int]bool{}
		nops := rapid.IntRange(2, 40).Draw(rt, "wops")
		var prog []COp
		for i := 0; i < nops; i++ {
			e := rapid.SampledFrom(own).Draw(rt, "e")
			switch rapid.IntRange(0, 9).Draw(rt, "wop") {
			case 0:
				prog = append(prog, COp{K: "yield"})
			case 1, 2:
				if c.Kinds[e] == "ch" {
					prog = append(prog, COp{K: "take", E: e})
					continue
				}
				fallthrough
			default:
				if reg[e] {
					prog = append(prog, COp{K: "unreg", E: e})
					reg[e] = false
				} else {
					prog = append(prog, COp{K: "reg", E: e, M: genMask("regmask")})
					reg[e] = true
				}
			}
		}
		c.Workers = append(c.Workers, prog)
	}
	for n := 0; n < nn; n++ {
		nops := rapid.IntRange(1, 40).Draw(rt, "nops")
		var prog []COp
		for i := 0; i < nops; i++ {
			switch rapid.IntRange(0, 11).Draw(rt, "nop") {
			case 0:
				prog = append(prog, COp{K: "yield"})
			case 1:
				prog = append(prog, COp{K: "events"})
			case 2:
				prog = append(prog, COp{K: "empty"})
			default:
				prog = append(prog, COp{K: "notify", M: genMask("notifymask")})
			}
		}
		c.Notifiers = append(c.Notifiers, prog)
	}
	c.CbYield = rapid.SampledFrom([]int{0, 0, 1, 2, 5}).Draw(rt, "cbyield")
	c.Reps = rapid.IntRange(2, 8).Draw(rt, "reps")
	return c
}

// TestConcStress is the concurrent stress check (run with the race detector).
// It also hosts replays of check "conc".
func TestConcStress(t *testing.T) {
	stressT = t
	defer func() { stressT = nil }()
	stressBegan, stressBudget = time.Now(), evid.Pick(90*time.Second, 12*time.Minute)
	evid.Run(t, evid.Spec[*ConcCase]{Name: "conc", Gen: genConc, Run: runConc})
}

// TestConcOracleSelf feeds hand-written histories to the interval-order oracle:
// a harness self-test (a failure here is a harness bug, never a verdict).
func TestConcOracleSelf(t *testing.T) {
	if evid.ReplayMode() {
		t.Skip()
	}
	reg := func(e int, m uint16, b, en int64) HOp { return HOp{G: "w0", K: "reg", E: e, M: m, B: b, End: en} }
	unreg := func(e int, b, en int64) HOp { return HOp{G: "w0", K: "unreg", E: e, B: b, End: en} }
	notify := func(m uint16, b, en int64, cbs ...HCb) HOp {
		return HOp{G: "n0", K: "notify", M: m, B: b, End: en, Cbs: cbs}
	}
	take := func(e int, got uint16, b, en int64) HOp {
		return HOp{G: "w0", K: "take", E: e, Got: got, B: b, End: en}
	}
	cases := []struct {
		name  string
		kinds []string
		ops   []HOp
		want  string
	}{
		{"ok-called", []string{"cb"}, []HOp{reg(0, 1, 1, 2), notify(1, 3, 5, HCb{E: 0, T: 4})}, ""},
		{"ok-mask-miss", []string{"cb"}, []HOp{reg(0, 2, 1, 2), notify(1, 3, 4)}, ""},
		{"ok-racing-called", []string{"cb"}, []HOp{reg(0, 1, 1, 4), notify(1, 2, 5, HCb{E: 0, T: 3})}, ""},
		{"ok-racing-not-called", []string{"cb"}, []HOp{reg(0, 1, 1, 4), notify(1, 2, 5)}, ""},
		{"ok-unreg-racing", []string{"cb"}, []HOp{reg(0, 1, 1, 2), notify(1, 3, 7), unreg(0, 4, 6)}, ""},
		{"missed", []string{"cb"}, []HOp{reg(0, 1, 1, 2), notify(1, 3, 4)}, "conc:notify-missed"},
		{"missed-with-later-unreg", []string{"cb"}, []HOp{reg(0, 1, 1, 2), notify(1, 3, 4), unreg(0, 5, 6)}, "conc:notify-missed"},
		{"duplicate", []string{"cb"}, []HOp{reg(0, 1, 1, 2), notify(1, 3, 6, HCb{E: 0, T: 4}, HCb{E: 0, T: 5})}, "conc:notify-duplicate"},
		{"spurious-mask", []string{"cb"}, []HOp{reg(0, 2, 1, 2), notify(1, 3, 5, HCb{E: 0, T: 4})}, "conc:callback-mask-mismatch"},
		{"spurious-before-reg", []string{"cb"}, []HOp{notify(1, 1, 3, HCb{E: 0, T: 2}), reg(0, 1, 4, 5)}, "conc:callback-before-register"},
		{"spurious-after-unreg", []string{"cb"}, []HOp{reg(0, 1, 1, 2), unreg(0, 3, 4), notify(1, 5, 7, HCb{E: 0, T: 6})}, "conc:callback-after-unregister"},
		{"callback-after-unreg-returned-inside-notify", []string{"cb"}, []HOp{reg(0, 1, 1, 2), notify(1, 3, 8, HCb{E: 0, T: 7}), unreg(0, 4, 6)}, "conc:callback-after-unregister"},
		{"ok-reregistered", []string{"cb"}, []HOp{reg(0, 1, 1, 2), unreg(0, 3, 4), reg(0, 1, 5, 6), notify(1, 7, 9, HCb{E: 0, T: 8})}, ""},
		{"token-ok", []string{"ch"}, []HOp{reg(0, 1, 1, 2), notify(1, 3, 4), take(0, 1, 5, 6), take(0, 0, 7, 8)}, ""},
		{"token-lost", []string{"ch"}, []HOp{reg(0, 1, 1, 2), notify(1, 3, 4), take(0, 0, 5, 6)}, "conc:chan-token-lost"},
		{"token-spurious", []string{"ch"}, []HOp{reg(0, 2, 1, 2), notify(1, 3, 4), take(0, 1, 5, 6)}, "conc:chan-token-spurious"},
		{"token-twice-from-one-notify", []string{"ch"}, []HOp{reg(0, 1, 1, 2), notify(1, 3, 4), take(0, 1, 5, 6), take(0, 1, 7, 8)}, "conc:chan-token-spurious"},
		{"token-racing-take", []string{"ch"}, []HOp{reg(0, 1, 1, 2), notify(1, 3, 6), take(0, 0, 4, 5), take(0, 1, 7, 8)}, ""},
		{"events-ok", []string{"cb", "cb"}, []HOp{reg(0, 1, 1, 2), reg(1, 2, 3, 6), {G: "n0", K: "events", B: 4, End: 5, Got: 3}}, ""},
		{"events-missing", []string{"cb"}, []HOp{reg(0, 1, 1, 2), {G: "n0", K: "events", B: 4, End: 5, Got: 0}}, "conc:events"},
		{"events-extra", []string{"cb"}, []HOp{reg(0, 1, 1, 2), {G: "n0", K: "events", B: 4, End: 5, Got: 3}}, "conc:events"},
		{"empty-wrong", []string{"cb"}, []HOp{reg(0, 1, 1, 2), {G: "n0", K: "empty", B: 4, End: 5, Got: 1}}, "conc:isempty"},
		{"nonempty-wrong", []string{"cb"}, []HOp{reg(0, 1, 1, 2), unreg(0, 3, 4), {G: "n0", K: "empty", B: 5, End: 6, Got: 0}}, "conc:isempty"},
	}
	for _, tc := range cases {
		h := &Hist{Ops: append([]HOp(nil), tc.ops...)}
		sort.SliceStable(h.Ops, func(i, j int) bool { return h.Ops[i].B < h.Ops[j].B })
		_, f := checkHistory(tc.kinds, h)
		got := ""
		if f != nil {
			got = f.Sig
		}
		if got != tc.want {
			t.Errorf("oracle self-test %s: got %q want %q (%v)", tc.name, got, tc.want, f)
		}
	}
}
