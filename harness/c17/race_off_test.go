//go:build !race

package c17

// raceEnabled reports whether the binary was built with the race detector.
const raceEnabled = false
