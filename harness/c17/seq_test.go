package c17

import (
	"encoding/json"
	"fmt"
	"sync"
	"testing"

	"github.com/brewlin/net-protocol/pkg/ilist"
	"github.com/brewlin/net-protocol/pkg/waiter"
	"pgregory.net/rapid"
	"verifharness/evid"
)

// ---------------------------------------------------------------------------
// Sequential check: operation sequences on one goroutine against a reference
// model written from the property statement.
// ---------------------------------------------------------------------------

// SOp is one sequential operation.
//
//	reg    EventRegister(entry E, mask M) on queue Q   (E must be unregistered)
//	unreg  EventUnregister(entry E) on the queue it is registered on
//	notify Notify(M) on queue Q
//	events Events() on queue Q
//	empty  IsEmpty() on queue Q
//	take   non-blocking receive on the channel of channel entry E
type SOp struct {
	K string `json:"k"`
	Q int    `json:"q,omitempty"`
	E int    `json:"e,omitempty"`
	M uint16 `json:"m,omitempty"`
}

func (o SOp) String() string {
	switch o.K {
	case "reg":
		return fmt.Sprintf("reg(q%d,e%d,%#x)", o.Q, o.E, o.M)
	case "unreg":
		return fmt.Sprintf("unreg(e%d)", o.E)
	case "notify":
		return fmt.Sprintf("notify(q%d,%#x)", o.Q, o.M)
	case "take":
		return fmt.Sprintf("take(e%d)", o.E)
	}
	return fmt.Sprintf("%s(q%d)", o.K, o.Q)
}

// SeqCase is a replayable sequential case.
//
// Kinds: "cb"  entry with a counting callback of the harness,
//
//	"ch"  waiter.NewChannelEntry(nil),
//	"chs" waiter.NewChannelEntry(c) with one 1-buffered channel c shared by all "chs" entries.
type SeqCase struct {
	Kinds []string `json:"kinds"`
	NQ    int      `json:"nq"`
	Ops   []SOp    `json:"ops"`
	// Close appends a closing sweep: Notify(all bits), Events, IsEmpty on every
	// queue, then every registered entry is unregistered and every queue must be empty.
	Close bool `json:"close,omitempty"`
}

type dupPanic struct{ id int }

type seqRun struct {
	qs    []waiter.Queue
	ents  []waiter.Entry
	calls []int
	wrong int
	chans []chan struct{} // per entry; nil for "cb"
}

type countCB struct {
	r  *seqRun
	id int
}

func (c *countCB) Callback(e *waiter.Entry) {
	if e != &c.r.ents[c.id] {
		c.r.wrong++
	}
	c.r.calls[c.id]++
	if c.r.calls[c.id] > 1 {
		// a second call within one Notify is already a violation; leaving by
		// panic also ends a Notify that walks a cyclic list
		panic(dupPanic{c.id})
	}
}

func (r *seqRun) notify(q int, m uint16) (dup int) {
	dup = -1
	defer func() {
		if x := recover(); x != nil {
			d, ok := x.(dupPanic)
			if !ok {
				panic(x)
			}
			dup = d.id
		}
	}()
	r.qs[q].Notify(waiter.EventMask(m))
	return
}

// validSeq reports whether the case keeps the documented preconditions (only
// unregistered entries are registered, only registered ones unregistered, an
// entry is on at most one queue, take only on channel entries).
func validSeq(c SeqCase) bool {
	if c.NQ < 1 || len(c.Kinds) < 1 {
		return false
	}
	reg := make([]bool, len(c.Kinds))
	for _, k := range c.Kinds {
		if k != "cb" && k != "ch" && k != "chs" {
			return false
		}
	}
	for _, o := range c.Ops {
		switch o.K {
		case "reg":
			if o.E < 0 || o.E >= len(reg) || o.Q < 0 || o.Q >= c.NQ || reg[o.E] {
				return false
			}
			reg[o.E] = true
		case "unreg":
			if o.E < 0 || o.E >= len(reg) || !reg[o.E] {
				return false
			}
			reg[o.E] = false
		case "take":
			if o.E < 0 || o.E >= len(reg) || c.Kinds[o.E] == "cb" {
				return false
			}
		case "notify", "events", "empty":
			if o.Q < 0 || o.Q >= c.NQ {
				return false
			}
		default:
			return false
		}
	}
	return true
}

// runSeqOps executes the case against the real queue and the model on the
// calling goroutine. nt reports whether the case is non-trivial by the rule of
// plan.json.
func runSeqOps(c SeqCase) (nt bool, f *evid.Failure) {
	n := len(c.Kinds)
	r := &seqRun{qs: make([]waiter.Queue, c.NQ), ents: make([]waiter.Entry, n), calls: make([]int, n), chans: make([]chan struct{}, n)}
	// model
	regQ := make([]int, n)     // queue the entry is registered on, -1 if none
	mask := make([]uint16, n)  // mask of the current registration
	chanID := make([]int, n)   // token slot of the entry's channel, -1 for "cb"
	token := make([]bool, n+1) // model: does the channel hold a token
	chanOf := make([]chan struct{}, n+1)
	var shared chan struct{}
	for i, k := range c.Kinds {
		regQ[i] = -1
		chanID[i] = -1
		switch k {
		case "cb":
			r.ents[i] = waiter.Entry{Callback: &countCB{r, i}}
		case "ch":
			r.ents[i], r.chans[i] = waiter.NewChannelEntry(nil)
			chanID[i] = i
			chanOf[i] = r.chans[i]
		case "chs":
			if shared == nil {
				shared = make(chan struct{}, 1)
			}
			var got chan struct{}
			r.ents[i], got = waiter.NewChannelEntry(shared)
			if got != shared {
				return false, evid.Failf("seq:newchannelentry", "NewChannelEntry(c) returned a different channel than the one passed in")
			}
			r.chans[i] = shared
			chanID[i] = n
			chanOf[n] = shared
		}
		if k == "ch" && (r.chans[i] == nil || cap(r.chans[i]) != 1) {
			return false, evid.Failf("seq:newchannelentry", "NewChannelEntry(nil) did not allocate a 1-buffered channel")
		}
	}
	sawUnreg := false
	// after every operation: no callback ran that the model did not expect, and
	// every channel holds exactly the token the model says
	settle := func(i int, o SOp, want []int) *evid.Failure {
		if r.wrong > 0 {
			return evid.Failf("seq:wrong-entry-arg", "op %d %v: a callback was invoked with an *Entry that is not its own entry; history %v", i, o, c.Ops[:min(i+1, len(c.Ops))])
		}
		for e := 0; e < n; e++ {
			w := 0
			if want != nil {
				w = want[e]
			}
			if c.Kinds[e] == "cb" && r.calls[e] != w {
				sig := "seq:notify-missed"
				if r.calls[e] > w {
					sig = "seq:notify-spurious"
				}
				if o.K != "notify" {
					sig = "seq:callback-outside-notify"
				}
				return evid.Failf(sig, "op %d %v: entry e%d (registered on q%d, mask %#x) got %d callback(s), the model expects %d; kinds %v history %v", i, o, e, regQ[e], mask[e], r.calls[e], w, c.Kinds, c.Ops[:min(i+1, len(c.Ops))])
			}
			r.calls[e] = 0
		}
		for s, ch := range chanOf {
			if ch == nil {
				continue
			}
			w := 0
			if token[s] {
				w = 1
			}
			if len(ch) != w {
				sig := "seq:chan-token-lost"
				if len(ch) > w {
					sig = "seq:chan-token-spurious"
				}
				return evid.Failf(sig, "op %d %v: channel of slot %d holds %d token(s), the model expects %d; kinds %v history %v", i, o, s, len(ch), w, c.Kinds, c.Ops[:min(i+1, len(c.Ops))])
			}
		}
		return nil
	}
	// guard against a call that cannot return: Notify and Events walk the
	// list from the front to a nil Next(). The links are readable through the
	// exported Next() of the embedded ilist.Entry; on a sound list the chain
	// from any registered entry ends within n steps. A longer chain is a
	// cycle: the walk would never end (or call entries over and over).
	acyclic := func(i int, o SOp) *evid.Failure {
		for e := 0; e < n; e++ {
			if regQ[e] < 0 {
				continue
			}
			steps := 0
			for it := ilist.Element(&r.ents[e]); it != nil; it = it.Next() {
				if steps++; steps > n {
					return evid.Failf("seq:list-cycle", "before op %d %v: following Next() from the registered entry e%d does not reach the end of the list within %d steps: the list is cyclic, Notify/Events cannot terminate; kinds %v history %v", i, o, e, n, c.Kinds, c.Ops[:min(i, len(c.Ops))])
				}
			}
		}
		return nil
	}
	do := func(i int, o SOp) *evid.Failure {
		switch o.K {
		case "reg":
			r.qs[o.Q].EventRegister(&r.ents[o.E], waiter.EventMask(o.M))
			regQ[o.E], mask[o.E] = o.Q, o.M
			return settle(i, o, nil)
		case "unreg":
			r.qs[regQ[o.E]].EventUnregister(&r.ents[o.E])
			regQ[o.E] = -1
			sawUnreg = true
			return settle(i, o, nil)
		case "notify":
			if f := acyclic(i, o); f != nil {
				return f
			}
			want := make([]int, n)
			hit, miss := false, false
			for e := 0; e < n; e++ {
				if regQ[e] != o.Q {
					continue
				}
				if mask[e]&o.M != 0 {
					hit = true
					want[e] = 1
					if chanID[e] >= 0 {
						token[chanID[e]] = true
					}
				} else {
					miss = true
				}
			}
			if (hit && miss) || sawUnreg {
				nt = true
			}
			if d := r.notify(o.Q, o.M); d >= 0 {
				return evid.Failf("seq:notify-duplicate", "op %d %v: entry e%d was called twice by one Notify; kinds %v history %v", i, o, d, c.Kinds, c.Ops[:min(i+1, len(c.Ops))])
			}
			return settle(i, o, want)
		case "events":
			if f := acyclic(i, o); f != nil {
				return f
			}
			var u uint16
			for e := 0; e < n; e++ {
				if regQ[e] == o.Q {
					u |= mask[e]
				}
			}
			got := uint16(r.qs[o.Q].Events())
			if got != u {
				return evid.Failf("seq:events", "op %d %v: Events() = %#x, the union of the registered masks is %#x; kinds %v history %v", i, o, got, u, c.Kinds, c.Ops[:min(i+1, len(c.Ops))])
			}
			return settle(i, o, nil)
		case "empty":
			want := true
			for e := 0; e < n; e++ {
				if regQ[e] == o.Q {
					want = false
				}
			}
			if got := r.qs[o.Q].IsEmpty(); got != want {
				return evid.Failf("seq:isempty", "op %d %v: IsEmpty() = %v, the model says %v; kinds %v history %v", i, o, got, want, c.Kinds, c.Ops[:min(i+1, len(c.Ops))])
			}
			return settle(i, o, nil)
		case "take":
			got := false
			select {
			case <-r.chans[o.E]:
				got = true
			default:
			}
			if got != token[chanID[o.E]] {
				sig := "seq:chan-token-lost"
				if got {
					sig = "seq:chan-token-spurious"
				}
				return evid.Failf(sig, "op %d %v: take got token=%v, the model says %v; kinds %v history %v", i, o, got, token[chanID[o.E]], c.Kinds, c.Ops[:min(i+1, len(c.Ops))])
			}
			token[chanID[o.E]] = false
			return settle(i, o, nil)
		}
		return nil
	}
	for i, o := range c.Ops {
		if f := do(i, o); f != nil {
			return nt, f
		}
	}
	if c.Close {
		i := len(c.Ops)
		for q := 0; q < c.NQ; q++ {
			for _, o := range []SOp{{K: "notify", Q: q, M: 0xffff}, {K: "events", Q: q}, {K: "empty", Q: q}} {
				if f := do(i, o); f != nil {
					f.Msg = "closing sweep: " + f.Msg
					return nt, f
				}
				i++
			}
		}
		for e := 0; e < n; e++ {
			if regQ[e] >= 0 {
				if f := do(i, SOp{K: "unreg", E: e}); f != nil {
					f.Msg = "closing sweep: " + f.Msg
					return nt, f
				}
				i++
			}
		}
		for q := 0; q < c.NQ; q++ {
			for _, o := range []SOp{{K: "empty", Q: q}, {K: "notify", Q: q, M: 0xffff}} {
				if f := do(i, o); f != nil {
					f.Msg = "closing sweep after unregistering everything: " + f.Msg
					return nt, f
				}
				i++
			}
		}
	}
	return nt, nil
}

// runSeq is the Spec runner: one case, guarded against a blocked call.
func runSeq(c SeqCase) *evid.Failure {
	if !validSeq(c) {
		evid.Label("seq_invalid_case_skipped")
		evid.Note("seq: a case that breaks the register/unregister precondition was skipped")
		return nil
	}
	var nt bool
	f := watch(func() *evid.Failure {
		var f *evid.Failure
		nt, f = runSeqOps(c)
		return f
	})
	if f != nil {
		return f
	}
	classifySeq(c, nt)
	return nil
}

func classifySeq(c SeqCase, nt bool) {
	if nt {
		b, _ := json.Marshal(c)
		evid.NonTrivialKey(b)
		evid.Label("seq_random_nontrivial")
		evid.Sample("random-seq", c)
	}
	hasCh, hasShared, untaken, rereg := false, false, false, false
	for _, k := range c.Kinds {
		if k == "ch" {
			hasCh = true
		}
		if k == "chs" {
			hasShared, hasCh = true, true
		}
	}
	// a token is "left untaken" when two matching notifies reach a channel with no take between
	regd := map[int]uint16{}
	pendingNotify := map[int]bool{}
	seenReg := map[int]bool{}
	for _, o := range c.Ops {
		switch o.K {
		case "reg":
			if seenReg[o.E] {
				rereg = true
			}
			seenReg[o.E] = true
			regd[o.E] = o.M
		case "unreg":
			delete(regd, o.E)
		case "notify":
			for e, m := range regd {
				if c.Kinds[e] != "cb" && m&o.M != 0 {
					if pendingNotify[e] {
						untaken = true
					}
					pendingNotify[e] = true
				}
			}
		case "take":
			pendingNotify[o.E] = false
		}
	}
	if hasCh {
		evid.Label("seq_random_with_channel_entry")
	}
	if hasShared {
		evid.Label("seq_random_with_shared_channel")
	}
	if untaken {
		evid.Label("seq_random_token_left_untaken_across_notifies")
	}
	if rereg {
		evid.Label("seq_random_entry_reregistered")
	}
	if c.NQ > 1 {
		evid.Label("seq_random_two_queues")
	}
}

func genSeq(rt *rapid.T) SeqCase {
	var c SeqCase
	n := rapid.IntRange(1, 8).Draw(rt, "entries")
	for i := 0; i < n; i++ {
		c.Kinds = append(c.Kinds, rapid.SampledFrom([]string{"cb", "cb", "cb", "ch", "ch", "chs"}).Draw(rt, "kind"))
	}
	c.NQ = rapid.SampledFrom([]int{1, 1, 1, 2}).Draw(rt, "queues")
	width := rapid.SampledFrom([]int{2, 3, 6, 16}).Draw(rt, "maskbits")
	genMask := func(label string) uint16 {
		switch rapid.IntRange(0, 9).Draw(rt, label+"-class") {
		case 0:
			return 0
		case 1:
			return 0xffff
		case 2, 3, 4:
			return 1 << uint(rapid.IntRange(0, width-1).Draw(rt, label+"-bit"))
		default:
			return uint16(rapid.Uint64Range(0, 1<<uint(width)-1).Draw(rt, label))
		}
	}
	var chEnts []int
	for i, k := range c.Kinds {
		if k != "cb" {
			chEnts = append(chEnts, i)
		}
	}
	reg := make([]bool, n)
	nops := rapid.IntRange(1, 40).Draw(rt, "nops")
	for i := 0; i < nops; i++ {
		k := rapid.SampledFrom([]string{"reg", "reg", "reg", "reg", "unreg", "unreg", "unreg", "notify", "notify", "notify", "notify", "notify", "events", "empty", "take", "take"}).Draw(rt, "op")
		o := SOp{K: k}
		switch k {
		case "reg", "unreg":
			e := rapid.IntRange(0, n-1).Draw(rt, "e")
			// keep the precondition: flip the operation if the entry's state requires it
			if reg[e] {
				o = SOp{K: "unreg", E: e}
				reg[e] = false
			} else {
				o = SOp{K: "reg", E: e, Q: rapid.IntRange(0, c.NQ-1).Draw(rt, "q"), M: genMask("regmask")}
				reg[e] = true
			}
		case "notify":
			o.Q = rapid.IntRange(0, c.NQ-1).Draw(rt, "q")
			o.M = genMask("notifymask")
		case "events", "empty":
			o.Q = rapid.IntRange(0, c.NQ-1).Draw(rt, "q")
		case "take":
			if len(chEnts) == 0 {
				o = SOp{K: "notify", Q: rapid.IntRange(0, c.NQ-1).Draw(rt, "q"), M: genMask("notifymask")}
			} else {
				o.E = rapid.SampledFrom(chEnts).Draw(rt, "chentry")
			}
		}
		c.Ops = append(c.Ops, o)
	}
	c.Close = rapid.IntRange(0, 3).Draw(rt, "close") > 0
	return c
}

// TestSeqRandom: rapid-generated sequences with up to 8 entries of all kinds,
// masks up to 16 bits and up to two queues. It also hosts replays of check "seq".
func TestSeqRandom(t *testing.T) {
	evid.Run(t, evid.Spec[SeqCase]{Name: "seq", Gen: genSeq, Run: runSeq})
}

// TestSeqExhaustive enumerates every precondition-respecting sequence up to
// the length bound over 3 entries, one queue and all masks over 2 bits
// (0..3, for registrations and for notifications), once with three counting
// entries and once with two counting entries and one channel entry (plus the
// take operation).
func TestSeqExhaustive(t *testing.T) {
	if evid.ReplayMode() {
		t.Skip("replays of check seq are hosted by TestSeqRandom")
	}
	maxLen := evid.Pick(5, 6)
	for _, kinds := range [][]string{{"cb", "cb", "cb"}, {"cb", "cb", "ch"}} {
		var evals, nts int64
		var curMu sync.Mutex
		cur := SeqCase{Kinds: kinds, NQ: 1}
		var fail *evid.Failure
		var failCase SeqCase
		hang := watch(func() *evid.Failure {
			ops := make([]SOp, 0, maxLen)
			reg := make([]bool, len(kinds))
			idx := 0
			var rec func(depth int) bool
			rec = func(depth int) bool {
				if depth == 2 {
					idx++
					if idx%evid.NShards != evid.ShardIdx {
						return true
					}
				}
				if depth > 1 || (depth == 1 && evid.ShardIdx == 0) {
					curMu.Lock()
					cur.Ops = append(cur.Ops[:0], ops...)
					curMu.Unlock()
					nt, f := runSeqOps(SeqCase{Kinds: kinds, NQ: 1, Ops: ops})
					evals++
					if nt {
						nts++
						if nts%70001 == 35000 {
							evid.Sample("exhaustive-seq", SeqCase{Kinds: kinds, NQ: 1, Ops: append([]SOp(nil), ops...)})
						}
					}
					if f != nil && !evid.KnownSig(f.Sig) {
						fail, failCase = f, SeqCase{Kinds: kinds, NQ: 1, Ops: append([]SOp(nil), ops...)}
						return false
					}
				}
				if depth == maxLen {
					return true
				}
				try := func(o SOp) bool {
					ops = append(ops, o)
					ok := rec(depth + 1)
					ops = ops[:len(ops)-1]
					return ok
				}
				// observing operations first and wide masks first: if the list
				// is ever corrupted, the first continuation tried is the one
				// most likely to show it at once
				for m := 3; m >= 0; m-- {
					if !try(SOp{K: "notify", M: uint16(m)}) {
						return false
					}
				}
				for e := range kinds {
					if reg[e] {
						reg[e] = false
						ok := try(SOp{K: "unreg", E: e})
						reg[e] = true
						if !ok {
							return false
						}
					} else {
						for m := 3; m >= 0; m-- {
							reg[e] = true
							ok := try(SOp{K: "reg", E: e, M: uint16(m)})
							reg[e] = false
							if !ok {
								return false
							}
						}
					}
					if kinds[e] != "cb" {
						if !try(SOp{K: "take", E: e}) {
							return false
						}
					}
				}
				return try(SOp{K: "events"}) && try(SOp{K: "empty"})
			}
			rec(0)
			return nil
		})
		evid.Eval(evals)
		if hang != nil {
			curMu.Lock()
			fc := SeqCase{Kinds: kinds, NQ: 1, Ops: append([]SOp(nil), cur.Ops...)}
			curMu.Unlock()
			evid.Direct(t, "seq", hang, fc)
			return
		}
		if fail != nil {
			evid.Direct(t, "seq", fail, failCase)
			return
		}
		evid.DistinctByConstruction(nts)
		evid.LabelN(fmt.Sprintf("seq_exhaustive_%v_len<=%d", kinds, maxLen), evals)
		evid.LabelN(fmt.Sprintf("seq_exhaustive_%v_nontrivial", kinds), nts)
		evid.Exhaustive(fmt.Sprintf("sequential: every precondition-respecting sequence of length<=%d of register/unregister/notify/events/isempty%s over 3 entries %v, one queue, masks 0..3", maxLen, map[bool]string{true: "/take", false: ""}[kinds[2] != "cb"], kinds))
	}
}
