package c17

import (
	"runtime"
	"strings"
	"sync/atomic"
	"time"

	"verifharness/evid"
)

// curGID returns the id of the calling goroutine, read from the
// "goroutine N [running]:" header that runtime.Stack prints. It is the only
// way a callback (which gets no per-call argument) can tell on which notifier
// goroutine it runs.
func curGID() int64 {
	var buf [64]byte
	n := runtime.Stack(buf[:], false)
	const p = "goroutine "
	if n <= len(p) || string(buf[:len(p)]) != p {
		return -1
	}
	var id int64
	for i := len(p); i < n; i++ {
		ch := buf[i]
		if ch < '0' || ch > '9' {
			break
		}
		id = id*10 + int64(ch-'0')
	}
	return id
}

type gInfo struct {
	id    int64
	state string // wait reason without the ", N minutes" suffix
	stack string
}

// allGoroutines takes a stop-the-world snapshot of all goroutines.
func allGoroutines() []gInfo {
	buf := make([]byte, 1<<18)
	for {
		n := runtime.Stack(buf, true)
		if n < len(buf) {
			buf = buf[:n]
			break
		}
		buf = make([]byte, 2*len(buf))
	}
	var out []gInfo
	for _, blk := range strings.Split(string(buf), "\n\n") {
		blk = strings.TrimLeft(blk, "\n")
		if !strings.HasPrefix(blk, "goroutine ") {
			continue
		}
		hdr := blk
		if i := strings.IndexByte(blk, '\n'); i >= 0 {
			hdr = blk[:i]
		}
		var g gInfo
		rest := hdr[len("goroutine "):]
		i := 0
		for i < len(rest) && rest[i] >= '0' && rest[i] <= '9' {
			g.id = g.id*10 + int64(rest[i]-'0')
			i++
		}
		if a := strings.IndexByte(rest, '['); a >= 0 {
			if b := strings.IndexByte(rest[a:], ']'); b >= 0 {
				st := rest[a+1 : a+b]
				if c := strings.IndexByte(st, ','); c >= 0 {
					st = st[:c]
				}
				g.state = st
			}
		}
		g.stack = blk
		out = append(out, g)
	}
	return out
}

// parked lists goroutine wait reasons that mean "blocked on a Go
// synchronisation primitive": nothing but another goroutine can end them (no
// timer, no I/O).
var parked = map[string]bool{
	"chan send": true, "chan receive": true, "select": true,
	"chan send (nil chan)": true, "chan receive (nil chan)": true, "select (no cases)": true,
	"sync.Mutex.Lock": true, "sync.RWMutex.Lock": true, "sync.RWMutex.RLock": true,
	"sync.Cond.Wait": true,
	// NOT "semacquire": the runtime parks a goroutine with that reason when an
	// allocation starts a GC cycle (gcStart), with the allocating frames on the stack.
}

// blockSite returns the function of the code under test whose own channel or
// lock operation the goroutine is parked in: the first frame that is not of
// runtime/sync must belong to pkg/waiter or pkg/ilist ("" otherwise, e.g. when
// a harness callback called from Notify is what blocks).
func blockSite(stack string) string {
	lines := strings.Split(stack, "\n")
	for _, ln := range lines[1:] {
		if ln == "" || strings.HasPrefix(ln, "\t") {
			continue
		}
		if strings.HasPrefix(ln, "runtime.") || strings.HasPrefix(ln, "sync.") || strings.HasPrefix(ln, "internal/") {
			continue
		}
		return repoFrame(ln)
	}
	return ""
}

// repoFrame returns the innermost frame of the code under test in a goroutine
// stack ("" if none).
func repoFrame(stack string) string {
	for _, ln := range strings.Split(stack, "\n") {
		if strings.HasPrefix(ln, "\t") {
			continue
		}
		if strings.Contains(ln, "net-protocol/pkg/waiter.") || strings.Contains(ln, "net-protocol/pkg/ilist.") {
			if i := strings.LastIndexByte(ln, '('); i > 0 {
				ln = ln[:i]
			}
			if i := strings.LastIndexByte(ln, '/'); i >= 0 {
				ln = ln[i+1:]
			}
			return ln
		}
	}
	return ""
}

// watch runs fn on a fresh goroutine. fn only makes sequential calls into the
// code under test and nobody else touches the objects it uses, so if its
// goroutine is ever seen parked in a channel or lock operation made *by the code
// under test itself* it is blocked for ever. That verdict does not depend on timing:
// the ticker only decides how often to look, a slow machine just keeps waiting.
func watch(fn func() *evid.Failure) *evid.Failure {
	done := make(chan *evid.Failure, 1)
	var gid atomic.Int64
	go func() {
		gid.Store(curGID())
		done <- evid.Guard(fn)
	}()
	tk := time.NewTicker(100 * time.Millisecond)
	defer tk.Stop()
	for {
		select {
		case f := <-done:
			return f
		case <-tk.C:
			id := gid.Load()
			if id <= 0 {
				continue
			}
			for _, g := range allGoroutines() {
				if g.id != id || !parked[g.state] {
					continue
				}
				if fr := blockSite(g.stack); fr != "" {
					return evid.Failf("hang:"+fr, "the calling goroutine is blocked for ever (%s) inside %s although no other goroutine uses the queue:\n%s", g.state, fr, g.stack)
				}
			}
		}
	}
}
