package c17

import (
	"testing"

	"verifharness/evid"
)

func TestMain(m *testing.M) { evid.Main(m, "C17") }
