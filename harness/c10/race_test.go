package c10

import (
	"fmt"
	"sync"
	"testing"

	"github.com/brewlin/net-protocol/protocol/ports"
	"pgregory.net/rapid"
	"verifharness/evid"
)

// ---- part 3: reservations racing from many goroutines -----------------------

// RaceCase: goroutine g performs its attempts G[g] in order; all goroutines
// start together. Attempts are reservations (Port 0 = ephemeral, 1..2 = fixed
// port 80 / 443, outside the ephemeral range so that an ephemeral result can
// never collide with a fixed request) and availability queries (K = 2).
// Afterwards every goroutine releases what it obtained, again concurrently.
type RaceCase struct {
	G [][]Op `json:"g"`
}

var racePorts = [3]int{0, 80, 443}

type attempt struct {
	g, i int
	op   Op
	r    resv // Port filled in with the obtained port for a successful ephemeral reservation
	ok   bool
	eph  bool
}

func genRace(rt *rapid.T) RaceCase {
	ng := rapid.IntRange(2, 16).Draw(rt, "goroutines")
	// few distinct keys, so that goroutines really compete
	nports := rapid.IntRange(1, 2).Draw(rt, "nports")
	ntr := rapid.IntRange(0, 1).Draw(rt, "ntr")
	var c RaceCase
	for g := 0; g < ng; g++ {
		n := rapid.IntRange(1, 6).Draw(rt, "n")
		var ops []Op
		for i := 0; i < n; i++ {
			o := Op{
				K:    rapid.SampledFrom([]int{opReserve, opReserve, opReserve, opReserve, opAvail}).Draw(rt, "k"),
				Nets: rapid.IntRange(1, 3).Draw(rt, "nets"),
				Tr:   rapid.IntRange(0, ntr).Draw(rt, "tr"),
				Addr: rapid.IntRange(0, 2).Draw(rt, "addr"),
				Port: rapid.IntRange(1, nports).Draw(rt, "port"),
			}
			if o.Nets == 3 {
				o.Rev = rapid.Bool().Draw(rt, "rev")
			}
			if o.K == opReserve && rapid.IntRange(0, 7).Draw(rt, "eph") == 0 {
				o.Port = 0
			}
			ops = append(ops, o)
		}
		c.G = append(c.G, ops)
	}
	return c
}

func runRace(c RaceCase) *evid.Failure {
	evid.Journal("race", c)
	races0 := raceErrors()
	pm := ports.NewPortManager()
	res := make([][]attempt, len(c.G))
	var ready, done sync.WaitGroup
	start := make(chan struct{})
	for g := range c.G {
		res[g] = make([]attempt, 0, len(c.G[g]))
		ready.Add(1)
		done.Add(1)
		go func(g int) {
			defer done.Done()
			ready.Done()
			<-start
			for i, o := range c.G[g] {
				if o.Nets < 1 || o.Nets > 3 || o.Tr < 0 || o.Tr > 1 || o.Addr < 0 || o.Addr > 2 || o.Port < 0 || o.Port > 2 {
					continue
				}
				a := attempt{g: g, i: i, op: o, r: resv{o.Nets, o.Tr, o.Addr, racePorts[o.Port]}}
				switch o.K {
				case opReserve:
					a.eph = o.Port == 0
					p, err := apiReserve(pm, a.r, o.Rev)
					a.ok = err == nil
					if a.ok {
						a.r.Port = p
					}
				case opAvail:
					if o.Port == 0 {
						continue
					}
					a.ok = apiAvail(pm, a.r, o.Rev)
				default:
					continue
				}
				res[g] = append(res[g], a)
			}
		}(g)
	}
	ready.Wait()
	close(start)
	done.Wait()

	var all, won []attempt
	for g := range res {
		for _, a := range res[g] {
			all = append(all, a)
			if a.op.K == opReserve && a.ok {
				won = append(won, a)
			}
		}
	}
	who := func(a attempt) string { return fmt.Sprintf("goroutine %d attempt %d %v", a.g, a.i, a.r) }
	// (a) exclusivity: no two successful reservations conflict
	for i := range won {
		if won[i].eph && !inRange(won[i].r.Port) {
			return evid.Failf("race-eph-range", "%s: ephemeral port outside [16000, 65535]", who(won[i]))
		}
		for j := i + 1; j < len(won); j++ {
			if conflicts(won[i].r, won[j].r) {
				return evid.Failf("race-both-succeeded", "conflicting reservations both succeeded: %s and %s", who(won[i]), who(won[j]))
			}
		}
	}
	// (b) nothing is released in this phase, so a refusal must be explained by a
	// reservation that succeeded (in particular an attempt without a conflicting
	// competitor must succeed); an ephemeral request always succeeds (<= 96 reservations).
	contended := false
	for _, a := range all {
		hasWinner := false
		for _, w := range won {
			if !(w.g == a.g && w.i == a.i) && conflicts(w.r, a.r) {
				hasWinner = true
			}
		}
		switch {
		case a.op.K == opReserve && a.eph && !a.ok:
			return evid.Failf("race-eph-failed", "%s: ephemeral reservation failed", who(a))
		case a.op.K == opReserve && !a.ok && !hasWinner:
			return evid.Failf("race-refused-without-holder", "%s was refused although no conflicting reservation succeeded", who(a))
		case a.op.K == opAvail && !a.ok && !hasWinner:
			return evid.Failf("race-unavailable-without-holder", "%s reported unavailable although no conflicting reservation succeeded", who(a))
		}
		if a.op.K == opReserve && !a.ok {
			contended = true
			evid.Label("race_attempt_lost")
		} else if a.op.K == opReserve {
			evid.Label("race_attempt_won")
		}
	}
	// (c) concurrent release by the owners; afterwards everything is available
	// again and reservable.
	var rel sync.WaitGroup
	start2 := make(chan struct{})
	for g := range res {
		rel.Add(1)
		go func(g int) {
			defer rel.Done()
			<-start2
			for _, a := range res[g] {
				if a.op.K == opReserve && a.ok {
					apiRelease(pm, a.r, a.op.Rev)
				}
			}
		}(g)
	}
	close(start2)
	rel.Wait()
	for _, a := range all {
		if !apiAvail(pm, a.r, false) {
			return evid.Failf("race-not-released", "after all owners released, %v is still unavailable", a.r)
		}
	}
	if n := raceErrors() - races0; n > 0 {
		return evid.Failf("race-detector", "the race detector reported %d data race(s) while %d goroutines reserved/released concurrently (re-run the replay to see the report in the log)", n, len(c.G))
	}
	evid.Label(fmt.Sprintf("race_goroutines_%02d", len(c.G)))
	if contended {
		evid.NonTrivialKey("race", fmt.Sprint(c.G))
		evid.Sample("race", c)
	}
	return nil
}

func TestRacingReservations(t *testing.T) {
	if !raceEnabled {
		evid.Note("race unit ran without the race detector")
	}
	evid.Run(t, evid.Spec[RaceCase]{Name: "race", Gen: genRace, Run: runRace})
}
