package c10

import (
	"fmt"
	"math/rand"
	"sort"
	"sync"
	"testing"

	tcpip "github.com/brewlin/net-protocol/protocol"
	"github.com/brewlin/net-protocol/protocol/ports"
	"pgregory.net/rapid"
	"verifharness/evid"
)

// ---- part 2: PickEphemeralPort against a tester that accepts exactly F ------

// EphCase: the set F of acceptable ports is Abs ∪ Ranges ∪ {ports at the cyclic
// distances Rel from the first port the search offers}. The start offset of
// the search is whatever the code under test draws from the global math/rand
// after rand.Seed(Seed); it is never predicted, only observed as the first
// port offered to the tester.
type EphCase struct {
	Seed   int64    `json:"seed"`
	Abs    []int    `json:"abs,omitempty"`    // acceptable ports, absolute, in [16000, 65535]
	Rel    []int    `json:"rel,omitempty"`    // acceptable ports at cyclic distance r in [0, 49535] ahead of the first offered port
	Ranges [][2]int `json:"ranges,omitempty"` // acceptable inclusive port ranges within [16000, 65535]
	// Via: 0 = call PickEphemeralPort with the tester directly; 1 = go through
	// ReservePort(port 0) on a manager in which every port of the range except F is
	// reserved (Rel is not available there: nothing can be observed before the call).
	Via int `json:"via,omitempty"`
}

type ephObs struct {
	first     int // first port offered, -1 if none
	calls     int
	outOfRng  int // an offered port outside the range, -1 if none
	dupOffers int
	acc       [1 << 16]bool
	seen      [1 << 16]bool
	nfree     int
}

// The two 64 KiB tables are recycled (zeroed on reuse) to keep the allocator out of the measurement.
var obsPool = sync.Pool{New: func() any { return new(ephObs) }}

func newObs() *ephObs {
	o := obsPool.Get().(*ephObs)
	*o = ephObs{first: -1, outOfRng: -1}
	return o
}

func inRange(p int) bool { return p >= firstEph && p <= lastEph }

func (o *ephObs) addFree(p int) {
	if inRange(p) && !o.acc[p] {
		o.acc[p] = true
		o.nfree++
	}
}

func absFree(c EphCase, o *ephObs) {
	for _, p := range c.Abs {
		o.addFree(p)
	}
	for _, r := range c.Ranges {
		for p := r[0]; p <= r[1] && p <= lastEph; p++ {
			o.addFree(p)
		}
	}
}

func runEph(c EphCase) *evid.Failure {
	if c.Via == 1 {
		return runEphReserve(c)
	}
	o := newObs()
	defer obsPool.Put(o)
	absFree(c, o)
	rand.Seed(c.Seed)
	pm := ports.NewPortManager()
	port, err := pm.PickEphemeralPort(func(p16 uint16) (bool, *tcpip.Error) {
		p := int(p16)
		if o.first < 0 {
			o.first = p
			// F is completed relative to the observed start of the search.
			off := ((p-firstEph)%ephCount + ephCount) % ephCount
			for _, r := range c.Rel {
				if r >= 0 && r < ephCount {
					o.addFree(firstEph + (off+r)%ephCount)
				}
			}
		}
		o.calls++
		if !inRange(p) && o.outOfRng < 0 {
			o.outOfRng = p
		}
		if o.seen[p] {
			o.dupOffers++
		}
		o.seen[p] = true
		return o.acc[p], nil
	})
	if o.first < 0 {
		// the tester was never consulted, so Rel could not be placed; only the absolute part of F counts
		if err == nil {
			return evid.Failf("eph-untested-port", "PickEphemeralPort returned port %d without consulting the tester", port)
		}
		if o.nfree > 0 {
			return evid.Failf("eph-false-exhaustion", "PickEphemeralPort = error %q without consulting the tester; %d ports were acceptable", err.String(), o.nfree)
		}
		return nil
	}
	classifyEph(c, o)
	if o.outOfRng >= 0 {
		// a tester like the one ReservePort uses accepts any free port, so an offered port is a possible result
		return evid.Failf("eph-offer-out-of-range", "tester was offered port %d outside [16000, 65535] (first offered %d)", o.outOfRng, o.first)
	}
	if o.nfree == 0 {
		if err == nil {
			return evid.Failf("eph-not-free", "no port acceptable, yet PickEphemeralPort returned port %d (first offered %d)", port, o.first)
		}
		return nil
	}
	if err != nil {
		return evid.Failf("eph-false-exhaustion",
			"PickEphemeralPort = error %q although %d port(s) of the range are acceptable (%s); search started at port %d (offset %d), tester consulted %d times on %d distinct ports, %d repeated offers",
			err.String(), o.nfree, describeFree(o), o.first, o.first-firstEph, o.calls, o.calls-o.dupOffers, o.dupOffers)
	}
	if !inRange(int(port)) {
		return evid.Failf("eph-range", "PickEphemeralPort returned port %d outside [16000, 65535]", port)
	}
	if !o.acc[port] {
		return evid.Failf("eph-not-free", "PickEphemeralPort returned port %d which the tester does not accept (acceptable: %s)", port, describeFree(o))
	}
	return nil
}

func describeFree(o *ephObs) string {
	var ps []int
	for p := firstEph; p <= lastEph && len(ps) < 6; p++ {
		if o.acc[p] {
			ps = append(ps, p)
		}
	}
	s := fmt.Sprint(ps)
	if o.nfree > len(ps) {
		s += fmt.Sprintf(" and %d more", o.nfree-len(ps))
	}
	return s
}

// classifyEph records the class histogram and the distinct non-trivial cases:
// non-trivial = the nearest acceptable port lies behind the start of the search
// (port < first offered), so the search has to wrap around the end of the range.
func classifyEph(c EphCase, o *ephObs) {
	off := o.first - firstEph
	switch {
	case o.nfree == 0:
		evid.Label("eph_F_empty")
	case o.nfree == 1:
		evid.Label("eph_F_single")
	case o.nfree == 2:
		evid.Label("eph_F_two")
	default:
		evid.Label("eph_F_many")
	}
	if !inRange(o.first) || o.nfree == 0 {
		if o.nfree == 0 {
			evid.NonTrivialKey("eph-empty", off) // the whole range has to be offered
		}
		return
	}
	// cyclic distance from the start to the first acceptable port
	dist := -1
	for d := 0; d < ephCount; d++ {
		if o.acc[firstEph+(off+d)%ephCount] {
			dist = d
			break
		}
	}
	wraps := off+dist >= ephCount
	switch {
	case dist == 0:
		evid.Label("eph_free_at_start")
	case dist == ephCount-1:
		evid.Label("eph_free_last_probed")
	case wraps:
		evid.Label("eph_free_behind_start")
	default:
		evid.Label("eph_free_ahead_of_start")
	}
	if off == 0 {
		evid.Label("eph_offset_first")
	}
	if off == ephCount-1 {
		evid.Label("eph_offset_last")
	}
	if wraps {
		if off+dist >= 1<<16 {
			evid.Label("eph_wrap_sum_ge_65536")
		} else {
			evid.Label("eph_wrap_sum_lt_65536")
		}
		evid.NonTrivialKey("eph", off, dist, o.nfree, describeFree(o))
		evid.Sample("ephemeral-wrap", map[string]any{"case": c, "first_offered": o.first, "distance": dist})
	}
}

func genFreeAbs(rt *rapid.T) int {
	return rapid.OneOf(
		rapid.Just(firstEph), rapid.Just(lastEph), rapid.Just(firstEph+1), rapid.Just(lastEph-1),
		rapid.IntRange(firstEph, lastEph),
		rapid.Map(rapid.IntRange(0, 256), func(k int) int { return firstEph + k*(ephCount-1)/256 }), // grid over the whole range
	).Draw(rt, "abs")
}

func genRel(rt *rapid.T) int {
	return rapid.OneOf(
		rapid.Just(0), rapid.Just(1), rapid.Just(ephCount-1), rapid.Just(ephCount-2),
		rapid.IntRange(0, ephCount-1),
		rapid.Map(rapid.IntRange(0, 256), func(k int) int { return k * (ephCount - 1) / 256 }),
	).Draw(rt, "rel")
}

// hintSeeds are seeds after which the search was seen to start at a remarkable
// offset (0, 1, 15999, 16000, 16001, 24768, 31999, 32000, 33535, 33536, 49534,
// 49535). They are only hints: every case still observes where the search
// really starts.
var hintSeeds = []int64{34725, 67425, 11520, 52275, 144917, 60851, 28601, 32793, 20697, 13286, 3143, 108193}

var hintOffsets = []int{0, 1, 15999, 16000, 16001, 24768, 31999, 32000, 33535, 33536, 49534, 49535}

func genSeed(rt *rapid.T) int64 {
	return rapid.OneOf(rapid.Int64Range(0, 1<<31-2), rapid.Int64Range(0, 1<<31-2), rapid.Int64Range(0, 1<<31-2), rapid.SampledFrom(hintSeeds)).Draw(rt, "seed")
}

func genEph(rt *rapid.T) EphCase {
	c := EphCase{Seed: genSeed(rt)}
	one := func() {
		if rapid.Bool().Draw(rt, "relative") {
			c.Rel = append(c.Rel, genRel(rt))
		} else {
			c.Abs = append(c.Abs, genFreeAbs(rt))
		}
	}
	switch rapid.SampledFrom([]int{0, 1, 1, 1, 1, 1, 1, 2, 2, 3, 4}).Draw(rt, "size") {
	case 0: // nothing acceptable
	case 1:
		one()
	case 2:
		one()
		one()
	case 3: // many single ports
		n := rapid.IntRange(3, 24).Draw(rt, "n")
		for i := 0; i < n; i++ {
			one()
		}
	case 4: // a block of the range, possibly everything
		lo := rapid.IntRange(firstEph, lastEph).Draw(rt, "lo")
		hi := rapid.IntRange(lo, lastEph).Draw(rt, "hi")
		if lo == hi {
			c.Abs = append(c.Abs, lo)
		} else {
			c.Ranges = append(c.Ranges, [2]int{lo, hi})
		}
	}
	return c
}

func TestEphemeralRandom(t *testing.T) {
	evid.Run(t, evid.Spec[EphCase]{Name: "ephemeral", Gen: genEph, Run: runEph})
}

// TestEphemeralGrid: (start offset, single acceptable port) pairs on a G x G grid
// over the whole range including both ends, plus the four placements relative
// to the start (at it, just after it, just before it = probed last, opposite).
// Offsets are obtained by scanning seeds and observing where the search starts.
func TestEphemeralGrid(t *testing.T) {
	if evid.ReplayMode() {
		t.Skip()
	}
	G := evid.Pick(96, 320)
	nseeds := evid.Pick(30000, 400000)
	type so struct {
		seed int64
		off  int
	}
	obs := make([]so, 0, nseeds)
	pm := ports.NewPortManager()
	seeds := append([]int64(nil), hintSeeds...)
	for s := int64(0); s < int64(nseeds); s++ {
		seeds = append(seeds, s)
	}
	for _, s := range seeds {
		rand.Seed(s)
		first := -1
		pm.PickEphemeralPort(func(p uint16) (bool, *tcpip.Error) { first = int(p); return true, nil })
		if inRange(first) {
			obs = append(obs, so{s, first - firstEph})
		}
	}
	if len(obs) == 0 {
		evid.Inconclusive("grid: no seed produced an in-range start")
		return
	}
	sort.Slice(obs, func(i, j int) bool {
		if obs[i].off != obs[j].off {
			return obs[i].off < obs[j].off
		}
		return obs[i].seed < obs[j].seed
	})
	nearest := func(target int) so {
		i := sort.Search(len(obs), func(i int) bool { return obs[i].off >= target })
		if i == len(obs) {
			return obs[len(obs)-1]
		}
		if i > 0 && target-obs[i-1].off < obs[i].off-target {
			return obs[i-1]
		}
		return obs[i]
	}
	var evals int64
	exact := 0
	targets := make([]int, 0, G+len(hintOffsets))
	for k := 0; k < G; k++ {
		targets = append(targets, k*(ephCount-1)/(G-1))
	}
	targets = append(targets, hintOffsets[1:len(hintOffsets)-1]...) // 0 and 49535 are grid points already
	for k, target := range targets {
		if k%evid.NShards != evid.ShardIdx {
			continue
		}
		s := nearest(target)
		if s.off == target {
			exact++
		}
		run := func(c EphCase) bool {
			evals++
			return evid.Direct(t, "ephemeral", evid.Guard(func() *evid.Failure { return runEph(c) }), c)
		}
		for j := 0; j < G; j++ {
			if run(EphCase{Seed: s.seed, Abs: []int{firstEph + j*(ephCount-1)/(G-1)}}) {
				evid.Eval(evals)
				return
			}
		}
		for _, r := range []int{0, 1, ephCount - 1, ephCount / 2} {
			if run(EphCase{Seed: s.seed, Rel: []int{r}}) {
				evid.Eval(evals)
				return
			}
		}
		if run(EphCase{Seed: s.seed}) { // nothing acceptable
			evid.Eval(evals)
			return
		}
	}
	evid.Eval(evals)
	evid.LabelN("grid_offsets_exactly_on_target", int64(exact))
	if evid.ShardIdx == 0 {
		evid.Exhaustive(fmt.Sprintf("ephemeral search: %d x %d grid of (start offset nearest to the grid point among %d scanned seeds, single acceptable port), both ends of the range and the start offsets 1, 15999..16001, 24768, 31999, 32000, 33535, 33536, 49534 included, plus placements at/after/before/opposite the start and the empty set", G, G, nseeds))
	}
}

// ---- the same through ReservePort(port 0) on a nearly full manager -------------

func runEphReserve(c EphCase) *evid.Failure {
	o := newObs()
	defer obsPool.Put(o)
	absFree(c, o)
	pm := ports.NewPortManager()
	nets := netsOf(netV4, false)
	for p := firstEph; p <= lastEph; p++ {
		if !o.acc[p] {
			if _, err := pm.ReservePort(nets, trNum[0], addrOf[1], uint16(p)); err != nil {
				return evid.Failf("reserve-mismatch", "filling the range: ReservePort(port %d) on an unreserved port = %q", p, err.String())
			}
		}
	}
	rand.Seed(c.Seed)
	// wildcard request: conflicts with every port reserved above for address a
	port, err := pm.ReservePort(nets, trNum[0], addrOf[0], 0)
	switch {
	case o.nfree == 0:
		evid.Label("ephreserve_full")
	case o.nfree == 1:
		evid.Label("ephreserve_single")
	default:
		evid.Label("ephreserve_several")
	}
	evid.NonTrivialKey("ephreserve", c.Seed, describeFree(o), o.nfree)
	if o.nfree == 0 {
		if err == nil {
			return evid.Failf("eph-not-free", "every port of the range is reserved, yet ReservePort(ephemeral) returned port %d", port)
		}
		return nil
	}
	if err != nil {
		return evid.Failf("eph-false-exhaustion", "ReservePort(ephemeral) = error %q although %d port(s) of the range are unreserved (%s); seed %d", err.String(), o.nfree, describeFree(o), c.Seed)
	}
	if !inRange(int(port)) {
		return evid.Failf("eph-range", "ReservePort(ephemeral) returned port %d outside [16000, 65535]", port)
	}
	if !o.acc[port] {
		return evid.Failf("eph-not-free", "ReservePort(ephemeral) returned port %d which was already reserved (free: %s)", port, describeFree(o))
	}
	// it is now held: the same request for that port must be refused, and a second ephemeral request must not return it
	if pm.IsPortAvailable(nets, trNum[0], addrOf[0], port) {
		return evid.Failf("state-mismatch", "port %d returned by ReservePort(ephemeral) is still reported available", port)
	}
	p2, err2 := pm.ReservePort(nets, trNum[0], addrOf[0], 0)
	if o.nfree == 1 {
		if err2 == nil {
			return evid.Failf("eph-not-free", "second ReservePort(ephemeral) returned %d after the only free port %d was taken", p2, port)
		}
	} else if err2 == nil && (p2 == port || !inRange(int(p2)) || !o.acc[p2]) {
		return evid.Failf("eph-not-free", "second ReservePort(ephemeral) returned %d (first returned %d; free were %s)", p2, port, describeFree(o))
	} else if err2 != nil {
		return evid.Failf("eph-false-exhaustion", "second ReservePort(ephemeral) = %q with %d ports still free", err2.String(), o.nfree-1)
	}
	return nil
}

func genEphReserve(rt *rapid.T) EphCase {
	c := EphCase{Seed: genSeed(rt), Via: 1}
	n := rapid.SampledFrom([]int{0, 1, 1, 1, 1, 2, 3}).Draw(rt, "n")
	for i := 0; i < n; i++ {
		c.Abs = append(c.Abs, genFreeAbs(rt))
	}
	return c
}

func TestEphemeralReserve(t *testing.T) {
	evid.Run(t, evid.Spec[EphCase]{Name: "ephreserve", Gen: genEphReserve, Run: runEph})
}
