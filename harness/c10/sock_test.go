package c10

import (
	"fmt"
	"math/rand"
	"sync"
	"testing"

	"github.com/brewlin/net-protocol/pkg/waiter"
	tcpip "github.com/brewlin/net-protocol/protocol"
	"github.com/brewlin/net-protocol/protocol/link/channel"
	"github.com/brewlin/net-protocol/protocol/network/ipv4"
	"github.com/brewlin/net-protocol/protocol/network/ipv6"
	"github.com/brewlin/net-protocol/protocol/transport/tcp"
	"github.com/brewlin/net-protocol/protocol/transport/udp"
	"github.com/brewlin/net-protocol/stack"
	"pgregory.net/rapid"
	"verifharness/evid"
)

// ---- part 4: the same through sockets: Bind / Connect / Close ---------------
//
// One stack (IPv4 + IPv6, TCP + UDP) with one NIC on the repository's channel
// link endpoint and two local addresses per family. The model says which
// reservations every live socket holds:
//   - a bound socket holds the reservation of its bind (definite);
//   - a UDP socket that binds and then connects keeps holding it (definite);
//   - a socket that connects without bind (an ephemeral local port is chosen), and
//     a TCP socket that connects after bind, hold something the statement does
//     not determine ("unknown": no expectation for requests that conflict only
//     with these);
//   - a closed socket holds nothing: everything it held is available again.
// A failed Bind/Connect changes nothing.

const (
	famV4     = 0
	famV6Dual = 1 // IPv6 socket that also serves IPv4 (v6only off)
	famV6Only = 2

	skBind    = 1
	skConnect = 2
	skClose   = 3
)

var (
	v4Local  = [3]tcpip.Address{"", "\x0a\x00\x00\x01", "\x0a\x00\x00\x02"}
	v6Local  = [3]tcpip.Address{"", "\xfd\x00\x00\x00\x00\x00\x00\x00\x00\x00\x00\x00\x00\x00\x00\x01", "\xfd\x00\x00\x00\x00\x00\x00\x00\x00\x00\x00\x00\x00\x00\x00\x02"}
	v4Remote = tcpip.Address("\x0a\x00\x00\x63")
	v6Remote = tcpip.Address("\xfd\x00\x00\x00\x00\x00\x00\x00\x00\x00\x00\x00\x00\x00\x00\x63")
	// fixed ports of the socket histories (one of them inside the ephemeral range)
	sockPorts = [3]int{0, 8080, 20000}
)

// Known-finding ids (KNOWN_FINDINGS.json, property C10) that switch a class of
// steps off by construction; every skipped step is counted with evid.Exclude.
const (
	kfUDPBindConnect = "C10-udp-wildcard-bind-connect-leak" // UDP: Bind(wildcard) + Connect + Close never releases the port
	kfUDPReconnect   = "C10-udp-reconnect-drops-reservation" // UDP: a second Connect to the same peer fails and releases the port of the live socket
	kfTCPFailedConn  = "C10-tcp-failed-connect-leak"         // TCP: Bind(wildcard) + Connect that fails at registration + Close never releases the port
)

const mappedPrefix = "\x00\x00\x00\x00\x00\x00\x00\x00\x00\x00\xff\xff"

// SockSpec describes the socket that lives in one slot of a history.
type SockSpec struct {
	Tr  int `json:"tr"`  // 0 TCP, 1 UDP
	Fam int `json:"fam"` // 0 IPv4, 1 IPv6 dual-stack, 2 IPv6 v6only
}

// SockOp is one step of a socket history. It acts on the socket of slot S; the
// socket is created on first use, and again (a fresh one) after it was closed.
type SockOp struct {
	K      int  `json:"k"`                // 1 bind, 2 connect, 3 close
	S      int  `json:"s"`                // slot
	Addr   int  `json:"addr,omitempty"`   // bind: 0 wildcard, 1, 2 (local addresses of the socket's family)
	Port   int  `json:"port,omitempty"`   // bind: 0 ephemeral, 1..2 = sockPorts
	Mapped bool `json:"mapped,omitempty"` // dual-stack socket: use the IPv4-mapped form (bind: of the IPv4 local address; connect: of the IPv4 remote)
	// NonLocal: bind to an address of the socket's family (or its IPv4-mapped
	// form) that no interface has. The Bind fails, and a failed Bind must leave
	// nothing reserved: "a released reservation becomes available again" covers
	// the reservation the failing call made on its way.
	NonLocal bool `json:"nonlocal,omitempty"`
}

type SockCase struct {
	Seed  int64      `json:"seed"`
	Socks []SockSpec `json:"socks"`
	Ops   []SockOp   `json:"ops"`
}

type sock struct {
	ep      tcpip.Endpoint
	tr, fam int
	slot    int
	// history flags used only to make violation signatures specific
	failedConnect    bool
	udpWildConnected bool
	state   int // 0 initial, 1 bound, 2 connected, 3 closed
	held    []resv
	unknown []resv
}

func genSock(rt *rapid.T) SockCase {
	c := SockCase{Seed: rapid.Int64Range(0, 1<<31-2).Draw(rt, "seed")}
	onlyTr := rapid.IntRange(0, 2).Draw(rt, "trs") // 0 TCP only, 1 UDP only, 2 both: same-transport histories conflict more often
	nslots := rapid.IntRange(1, 6).Draw(rt, "nslots")
	for i := 0; i < nslots; i++ {
		sp := SockSpec{Tr: onlyTr, Fam: rapid.IntRange(0, 2).Draw(rt, "fam")}
		if onlyTr == 2 {
			sp.Tr = rapid.IntRange(0, 1).Draw(rt, "tr")
		}
		c.Socks = append(c.Socks, sp)
	}
	n := rapid.IntRange(1, 30).Draw(rt, "nops")
	nports := rapid.IntRange(1, 2).Draw(rt, "nports")
	for i := 0; i < n; i++ {
		o := SockOp{S: rapid.IntRange(0, nslots-1).Draw(rt, "s")}
		switch k := rapid.IntRange(0, 9).Draw(rt, "k"); {
		case k <= 5:
			o.K = skBind
			o.Addr = rapid.IntRange(0, 2).Draw(rt, "addr")
			o.Port = rapid.SampledFrom([]int{0, 1, 1, 1, 2, 2}).Draw(rt, "port")
			if o.Port > nports {
				o.Port = nports
			}
			o.Mapped = rapid.IntRange(0, 3).Draw(rt, "mapped") == 3
			o.NonLocal = rapid.IntRange(0, 6).Draw(rt, "nonlocal") == 1
		case k <= 7:
			o.K = skConnect
			o.Mapped = rapid.IntRange(0, 2).Draw(rt, "mapped") == 2
		default:
			o.K = skClose
		}
		c.Ops = append(c.Ops, o)
	}
	return c
}

var (
	linkOnce sync.Once
	linkID   tcpip.LinkEndpointID
)

func newSockStack() (*stack.Stack, *evid.Failure) {
	s := stack.New([]string{ipv4.ProtocolName, ipv6.ProtocolName}, []string{tcp.ProtocolName, udp.ProtocolName}, stack.Options{})
	// One link endpoint object for the whole process: the repository keeps every
	// registered link endpoint (and through it the stack it is attached to) alive
	// forever, so a fresh one per case would retain every stack ever built. It
	// carries no state between cases: nothing is injected, and outbound frames are
	// dropped once its queue is full.
	linkOnce.Do(func() { linkID, _ = channel.New(64, 1500, "") })
	id := linkID
	if err := s.CreateNIC(1, id); err != nil {
		return nil, evid.Failf("harness", "CreateNIC: %v", err)
	}
	for i := 1; i <= 2; i++ {
		if err := s.AddAddress(1, ipv4.ProtocolNumber, v4Local[i]); err != nil {
			return nil, evid.Failf("harness", "AddAddress: %v", err)
		}
		if err := s.AddAddress(1, ipv6.ProtocolNumber, v6Local[i]); err != nil {
			return nil, evid.Failf("harness", "AddAddress: %v", err)
		}
	}
	s.SetRouteTable([]tcpip.Route{
		{Destination: "\x00\x00\x00\x00", Mask: "\x00\x00\x00\x00", Gateway: "", NIC: 1},
		{Destination: tcpip.Address(make([]byte, 16)), Mask: tcpip.AddressMask(make([]byte, 16)), Gateway: "", NIC: 1},
	})
	return s, nil
}

const (
	stFree    = 0
	stHeld    = 1
	stUnknown = 2
)

// status of a request against what all live sockets except `self` hold.
func sockStatus(socks []*sock, self *sock, q resv) int {
	st := stFree
	for _, s := range socks {
		if s == self || s.state == 3 {
			continue
		}
		for _, h := range s.held {
			if conflicts(h, q) {
				return stHeld
			}
		}
		for _, h := range s.unknown {
			if conflicts(h, q) {
				st = stUnknown
			}
		}
	}
	return st
}

func sockSweep(s *stack.Stack, socks []*sock, ports []int) *evid.Failure {
	for _, p := range ports {
		for nets := 1; nets <= 2; nets++ {
			for tr := 0; tr <= 1; tr++ {
				for a := 0; a <= 2; a++ {
					q := resv{nets, tr, a, p}
					st := sockStatus(socks, nil, q)
					if st == stUnknown {
						continue
					}
					addr := v4Local[a]
					if nets == netV6 {
						addr = v6Local[a]
					}
					got := s.IsPortAvailable(netsOf(nets, false), sockTr(tr), addr, uint16(p))
					if got != (st == stFree) {
						sig := "sock-reservation-lost" // a live socket's port became available to others
						if got == false {
							sig = "sock-port-not-released" // nobody holds it any more, yet it stays unavailable
						}
						return evid.Failf(sig, "IsPortAvailable%v = %v, but the live sockets %s", q, got, map[bool]string{true: "hold nothing that conflicts with it", false: "hold a conflicting reservation"}[st == stFree])
					}
				}
			}
		}
	}
	return nil
}

func sockTr(tr int) tcpip.TransportProtocolNumber {
	if tr == 0 {
		return tcp.ProtocolNumber
	}
	return udp.ProtocolNumber
}

func describeSocks(socks []*sock) string {
	out := ""
	for _, s := range socks {
		if s.state == 3 || (s.slot < 0 && len(s.unknown) == 0) {
			continue
		}
		if s.slot < 0 {
			out += fmt.Sprintf(" excluded-by-known-finding%v", s.unknown)
			continue
		}
		out += fmt.Sprintf(" slot%d{%s %s %s held%v unknown%v}", s.slot, [...]string{"tcp", "udp"}[s.tr], [...]string{"v4", "v6-dual", "v6only"}[s.fam],
			[...]string{"initial", "bound", "connected", "closed"}[s.state], s.held, s.unknown)
	}
	if out == "" {
		out = " (no live socket)"
	}
	return out
}

func runSock(c SockCase) *evid.Failure {
	evid.Journal("sockets", c)
	rand.Seed(c.Seed)
	st, f := newSockStack()
	if f != nil {
		return f
	}
	var socks []*sock
	defer func() {
		for _, s := range socks {
			if s.state != 3 && s.ep != nil {
				s.ep.Close()
			}
		}
	}()
	portsSeen := []int{sockPorts[1], sockPorts[2]}
	var released []resv // what closed sockets had held
	decisionAfterClose, conflictSeen := false, false
	slot := make([]*sock, len(c.Socks))
	// limbo never closes: it takes over reservations whose fate a listed known finding leaves open
	limbo := &sock{slot: -1}
	ctx := "" // the latest remarkable step so far; appended to the signature of a state mismatch to tell root causes apart
	socks = append(socks, limbo)
	for i, o := range c.Ops {
		if o.S < 0 || o.S >= len(c.Socks) {
			continue
		}
		sp := c.Socks[o.S]
		if sp.Tr < 0 || sp.Tr > 1 || sp.Fam < 0 || sp.Fam > 2 {
			continue
		}
		s := slot[o.S]
		if s == nil || s.state == 3 {
			if o.K == skClose {
				continue // nothing to close
			}
			np := ipv4.ProtocolNumber
			if sp.Fam != famV4 {
				np = ipv6.ProtocolNumber
			}
			ep, err := st.NewEndpoint(sockTr(sp.Tr), np, &waiter.Queue{})
			if err != nil {
				return evid.Failf("harness", "NewEndpoint: %v", err)
			}
			if sp.Fam != famV4 {
				v := tcpip.V6OnlyOption(0)
				if sp.Fam == famV6Only {
					v = 1
				}
				if err := ep.SetSockOpt(v); err != nil {
					return evid.Failf("harness", "SetSockOpt(V6Only): %v", err)
				}
			}
			s = &sock{ep: ep, tr: sp.Tr, fam: sp.Fam, slot: o.S}
			slot[o.S] = s
			socks = append(socks, s)
		}
		switch o.K {
		case skBind:
			if s.state != 0 || o.Addr < 0 || o.Addr > 2 || o.Port < 0 || o.Port > 2 {
				continue
			}
			if o.NonLocal {
				addr := tcpip.Address("\x0a\x09\x09\x09")
				if s.fam != famV4 {
					addr = tcpip.Address("\xfd\x00\x00\x00\x00\x00\x00\x00\x00\x00\x00\x00\x00\x00\x09\x09")
					if s.fam == famV6Dual && o.Mapped {
						addr = tcpip.Address(mappedPrefix) + "\x0a\x09\x09\x09"
						if o.Addr == 0 {
							addr = tcpip.Address(mappedPrefix) + "\xc0\xa8\x63\x63"
						}
					}
				}
				if err := s.ep.Bind(tcpip.FullAddress{Addr: addr, Port: uint16(sockPorts[o.Port])}, nil); err == nil {
					// not this property's business; the model no longer knows what the socket holds
					evid.Label("sock_bind_nonlocal_succeeded")
					s.unknown = append(s.unknown, resv{netV4 | netV6, s.tr, 0, sockPorts[o.Port]})
					s.state = 1
				} else {
					evid.Label("sock_bind_nonlocal_failed")
				}
				continue
			}
			var r resv
			var addr tcpip.Address
			switch {
			case s.fam == famV4:
				r, addr = resv{netV4, s.tr, o.Addr, 0}, v4Local[o.Addr]
			case s.fam == famV6Dual && o.Mapped:
				// the IPv4-mapped form of an IPv4 address (or of 0.0.0.0) means that IPv4 address
				r = resv{netV4, s.tr, o.Addr, 0}
				a4 := v4Local[o.Addr]
				if o.Addr == 0 {
					a4 = "\x00\x00\x00\x00"
				}
				addr = tcpip.Address(mappedPrefix) + a4
			case s.fam == famV6Dual && o.Addr == 0:
				r, addr = resv{netV4 | netV6, s.tr, 0, 0}, ""
			default:
				r, addr = resv{netV6, s.tr, o.Addr, 0}, v6Local[o.Addr]
			}
			r.Port = sockPorts[o.Port]
			want := stFree
			if o.Port != 0 {
				want = sockStatus(socks, s, r)
			}
			err := s.ep.Bind(tcpip.FullAddress{Addr: addr, Port: uint16(r.Port)}, nil)
			evid.Label(fmt.Sprintf("sock_bind_%s", [...]string{"free", "conflict", "unknown"}[want]))
			switch {
			case want == stFree && err != nil:
				sig := "sock-bind-refused"
				if o.Port == 0 {
					sig = "sock-eph-bind-failed"
				}
				return evid.Failf(sig, "step %d: Bind%v on the socket of slot %d = %q although no live socket holds a conflicting reservation;%s", i, r, o.S, err.String(), describeSocks(socks))
			case want == stHeld && err == nil:
				return evid.Failf("sock-both-bound", "step %d: Bind%v on the socket of slot %d succeeded although a live socket holds a conflicting reservation;%s", i, r, o.S, describeSocks(socks))
			}
			if want == stHeld {
				conflictSeen = true
			}
			for _, x := range released {
				if o.Port != 0 && x.Tr == r.Tr && x.Port == r.Port && x.Nets&r.Nets != 0 {
					decisionAfterClose = true // a bind decided on a (protocol, port) that a closed socket had held
				}
			}
			if err != nil {
				break
			}
			if o.Port == 0 {
				la, lerr := s.ep.GetLocalAddress()
				if lerr != nil {
					return evid.Failf("harness", "GetLocalAddress: %v", lerr)
				}
				r.Port = int(la.Port)
				if !inRange(r.Port) {
					return evid.Failf("sock-eph-range", "step %d: Bind to port 0 obtained port %d outside [16000, 65535]", i, r.Port)
				}
				if sockStatus(socks, s, r) == stHeld {
					return evid.Failf("sock-eph-not-free", "step %d: Bind to port 0 obtained %v which conflicts with a live socket's reservation;%s", i, r, describeSocks(socks))
				}
				portsSeen = append(portsSeen, r.Port)
				evid.Label("sock_bind_ephemeral")
			}
			s.held = append(s.held, r)
			s.state = 1
		case skConnect:
			remote := v4Remote
			switch {
			case s.fam == famV6Dual && o.Mapped:
				remote = tcpip.Address(mappedPrefix) + v4Remote
			case s.fam != famV4:
				remote = v6Remote
			}
			if s.tr == 0 && s.state == 2 {
				continue // a second connect on a TCP socket is not about ports
			}
			if s.tr == 1 && s.state == 2 && evid.IsKnownListed(kfUDPReconnect) {
				evid.Exclude("udp_connect_when_connected")
				continue
			}
			if s.tr == 1 && s.state == 1 && len(s.held) > 0 && s.held[0].Addr == 0 && evid.IsKnownListed(kfUDPBindConnect) {
				evid.Exclude("udp_connect_after_wildcard_bind")
				continue
			}
			err := s.ep.Connect(tcpip.FullAddress{Addr: remote, Port: 9000})
			if err != nil && err != tcpip.ErrConnectStarted {
				// refused (family mismatch with the bound address, 4-tuple in use, ...): must change nothing; the sweep checks
				evid.Label(fmt.Sprintf("sock_connect_failed_%s_from_state%d", [...]string{"tcp", "udp"}[s.tr], s.state))
				s.failedConnect = true
				if s.tr == 1 && s.state == 2 {
					ctx = "udp-reconnect"
				}
				if s.tr == 0 && s.state == 1 && len(s.held) > 0 && s.held[0].Addr == 0 && evid.IsKnownListed(kfTCPFailedConn) {
					evid.Exclude("tcp_failed_connect_after_wildcard_bind")
					limbo.unknown = append(limbo.unknown, s.held...)
				}
				break
			}
			if s.tr == 1 && s.state == 1 && len(s.held) > 0 && s.held[0].Addr == 0 {
				s.udpWildConnected = true
			}
			evid.Label(fmt.Sprintf("sock_connect_%s_from_state%d", [...]string{"tcp", "udp"}[s.tr], s.state))
			la, lerr := s.ep.GetLocalAddress()
			if lerr != nil {
				return evid.Failf("harness", "GetLocalAddress: %v", lerr)
			}
			lp := int(la.Port)
			switch {
			case s.state == 0:
				// an ephemeral local port was chosen
				if !inRange(lp) {
					return evid.Failf("sock-eph-range", "step %d: Connect without Bind obtained local port %d outside [16000, 65535]", i, lp)
				}
				portsSeen = append(portsSeen, lp)
				s.unknown = append(s.unknown, resv{netV4 | netV6, s.tr, 0, lp})
			case s.tr == 0:
				// TCP: what a connected socket still reserves is not determined by the statement
				s.unknown, s.held = append(s.unknown, s.held...), nil
			}
			s.state = 2
		case skClose:
			released = append(append(released, s.held...), s.unknown...)
			switch {
			case s.udpWildConnected:
				ctx = "udp-wildcard-bind-connect-close"
			case s.tr == 0 && s.failedConnect && s.state == 1:
				ctx = "tcp-bind-failed-connect-close"
			}
			s.ep.Close()
			s.state = 3
			s.held, s.unknown = nil, nil
			evid.Label("sock_close")
		default:
			continue
		}
		if f := sockSweep(st, socks, portsSeen); f != nil {
			f.Msg = fmt.Sprintf("after step %d (%+v): %s;%s", i, o, f.Msg, describeSocks(socks))
			if ctx != "" {
				f.Sig += ":" + ctx
			}
			return f
		}
	}
	if conflictSeen {
		evid.Label("sock_history_with_refused_bind")
	}
	if decisionAfterClose {
		evid.NonTrivialKey("sock", c.Seed, fmt.Sprint(c.Socks), fmt.Sprint(c.Ops))
		evid.Sample("sockets", c)
	}
	return nil
}

func TestSocketHistories(t *testing.T) {
	evid.Run(t, evid.Spec[SockCase]{Name: "sockets", Gen: genSock, Run: runSock})
}
