//go:build !race

package c10

const raceEnabled = false

func raceErrors() int { return 0 }
