package c10

import (
	"fmt"
	"sync"
	"testing"

	"github.com/brewlin/net-protocol/protocol/ports"
	"pgregory.net/rapid"
	"verifharness/evid"
)

// ---- part 3b: ephemeral reservations racing on a nearly full range ----------
//
// On an empty manager two concurrent ephemeral requests start their search at
// random offsets of a 49 536-port range and practically never look at the same
// port. Here all but 1..4 ports of the range are held beforehand (transport 0,
// both networks, wildcard address: in conflict with every request), so that
// all concurrent searches end on the same few ports; nothing is released while
// the goroutines run.

type RaceEphCase struct {
	Free []int   `json:"free"` // the ports of the ephemeral range left unreserved
	G    [][]Req `json:"g"`    // goroutine g issues its requests in order
}

// Req is one ReservePort(port 0) request (transport 0).
type Req struct {
	Nets int  `json:"nets"`
	Addr int  `json:"addr"`
	Rev  bool `json:"rev,omitempty"`
}

func genRaceEph(rt *rapid.T) RaceEphCase {
	var c RaceEphCase
	nfree := rapid.SampledFrom([]int{1, 1, 2, 2, 3, 4}).Draw(rt, "nfree")
	for i := 0; i < nfree; i++ {
		c.Free = append(c.Free, genFreeAbs(rt))
	}
	ng := rapid.IntRange(2, 12).Draw(rt, "goroutines")
	// mostly one kind of request, so that the goroutines really compete
	common := Req{Nets: rapid.IntRange(1, 3).Draw(rt, "nets0"), Addr: rapid.IntRange(0, 2).Draw(rt, "addr0")}
	for g := 0; g < ng; g++ {
		n := rapid.IntRange(1, 3).Draw(rt, "n")
		var rs []Req
		for i := 0; i < n; i++ {
			r := common
			if rapid.IntRange(0, 3).Draw(rt, "other") == 0 {
				r = Req{Nets: rapid.IntRange(1, 3).Draw(rt, "nets"), Addr: rapid.IntRange(0, 2).Draw(rt, "addr")}
			}
			if r.Nets == 3 {
				r.Rev = rapid.Bool().Draw(rt, "rev")
			}
			rs = append(rs, r)
		}
		c.G = append(c.G, rs)
	}
	return c
}

func runRaceEph(c RaceEphCase) *evid.Failure {
	evid.Journal("raceeph", c)
	races0 := raceErrors()
	free := map[int]bool{}
	for _, p := range c.Free {
		if inRange(p) {
			free[p] = true
		}
	}
	if len(free) == 0 || len(c.G) < 2 {
		return nil
	}
	pm := ports.NewPortManager()
	both := netsOf(netV4|netV6, false)
	for p := firstEph; p <= lastEph; p++ {
		if !free[p] {
			if _, err := pm.ReservePort(both, trNum[0], addrOf[0], uint16(p)); err != nil {
				return evid.Failf("reserve-mismatch", "filling the range: ReservePort(port %d) on an unreserved port = %q", p, err.String())
			}
		}
	}
	type try struct {
		g, i int
		r    resv
		rev  bool
		ok   bool
		err  string
	}
	res := make([][]try, len(c.G))
	var ready, done sync.WaitGroup
	start := make(chan struct{})
	for g := range c.G {
		ready.Add(1)
		done.Add(1)
		go func(g int) {
			defer done.Done()
			ready.Done()
			<-start
			for i, q := range c.G[g] {
				if q.Nets < 1 || q.Nets > 3 || q.Addr < 0 || q.Addr > 2 {
					continue
				}
				a := try{g: g, i: i, r: resv{q.Nets, 0, q.Addr, 0}, rev: q.Rev}
				p, err := apiReserve(pm, a.r, q.Rev)
				if a.ok = err == nil; a.ok {
					a.r.Port = p
				} else {
					a.err = err.String()
				}
				res[g] = append(res[g], a)
			}
		}(g)
	}
	ready.Wait()
	close(start)
	done.Wait()

	var all, won []try
	for g := range res {
		for _, a := range res[g] {
			all = append(all, a)
			if a.ok {
				won = append(won, a)
			}
		}
	}
	who := func(a try) string { return fmt.Sprintf("goroutine %d request %d %v", a.g, a.i, a.r) }
	fl := fmt.Sprint(c.Free)
	for i := range won {
		switch p := won[i].r.Port; {
		case !inRange(p):
			return evid.Failf("race-eph-range", "%s: ephemeral port outside [16000, 65535]", who(won[i]))
		case !free[p]:
			return evid.Failf("race-eph-not-free", "%s: the returned port was reserved (wildcard, both networks) before the goroutines started; unreserved were %s", who(won[i]), fl)
		}
		for j := i + 1; j < len(won); j++ {
			if conflicts(won[i].r, won[j].r) {
				return evid.Failf("race-both-succeeded", "conflicting ephemeral reservations both succeeded: %s and %s (unreserved before the start: %s)", who(won[i]), who(won[j]), fl)
			}
		}
	}
	// nothing is released while the goroutines run: a request may fail only if,
	// at the end, every port that was left free is held by a reservation that
	// conflicts with it
	lost := 0
	for _, a := range all {
		if a.ok {
			continue
		}
		lost++
		for p := range free {
			q := a.r
			q.Port = p
			held := false
			for _, w := range won {
				if conflicts(w.r, q) {
					held = true
				}
			}
			if !held {
				return evid.Failf("race-eph-failed", "%s failed with %q although port %d was unreserved before the start and no successful reservation conflicts with the request there", who(a), a.err, p)
			}
		}
	}
	// every obtained port is held now
	for _, w := range won {
		if apiAvail(pm, w.r, w.rev) {
			return evid.Failf("state-mismatch", "%s succeeded, yet the port is reported available afterwards", who(w))
		}
	}
	if n := raceErrors() - races0; n > 0 {
		return evid.Failf("race-detector", "the race detector reported %d data race(s) while %d goroutines requested ephemeral ports concurrently (re-run the replay to see the report in the log)", n, len(c.G))
	}
	evid.Label(fmt.Sprintf("raceeph_free_%d", len(free)))
	evid.LabelN("raceeph_request_won", int64(len(won)))
	evid.LabelN("raceeph_request_lost", int64(lost))
	if len(all) > len(free) {
		evid.NonTrivialKey("raceeph", fmt.Sprint(c.Free), fmt.Sprint(c.G))
		if len(free) == 1 {
			evid.Sample("raceeph", c)
		}
	}
	return nil
}

func TestRacingEphemeral(t *testing.T) {
	evid.Run(t, evid.Spec[RaceEphCase]{Name: "raceeph", Gen: genRaceEph, Run: runRaceEph})
}
