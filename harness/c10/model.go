// Package c10 checks property C10: port reservations are exclusive and
// ephemeral ports are found when free.
//
// model.go is the reference model, written from the property statement only:
// "two reservations conflict when they are for the same protocol and port and
// either is for the wildcard address or both are for the same address".
package c10

import (
	"fmt"
	"sort"
)

const (
	firstEph = 16000 // statement: ephemeral ports lie in [16000, 65535]
	lastEph  = 65535
	ephCount = lastEph - firstEph + 1

	netV4 = 1 // bits of a network set
	netV6 = 2
)

// resv is one reservation request: a set of network protocols (bit mask), a
// transport (0/1), an address (0 = wildcard, 1, 2 = two distinct addresses)
// and a concrete port.
type resv struct {
	Nets int
	Tr   int
	Addr int
	Port int
}

func (r resv) String() string {
	return fmt.Sprintf("{nets:%s tr:%d addr:%s port:%d}", [...]string{"-", "v4", "v6", "v4+v6"}[r.Nets&3], r.Tr, [...]string{"*", "a", "b"}[r.Addr], r.Port)
}

// addrsConflict is the statement's rule for two addresses on the same protocol and port.
func addrsConflict(a, b int) bool { return a == 0 || b == 0 || a == b }

// conflicts reports whether two reservations cannot both be held.
func conflicts(x, y resv) bool {
	return x.Tr == y.Tr && x.Port == y.Port && x.Nets&y.Nets != 0 && addrsConflict(x.Addr, y.Addr)
}

// overlaps reports whether the two touch the same (network, transport, port, address) element.
func overlaps(x, y resv) bool {
	return x.Tr == y.Tr && x.Port == y.Port && x.Nets&y.Nets != 0 && x.Addr == y.Addr
}

// model is the set of reservations currently held, in order of acquisition.
type model struct {
	held []resv
}

func (m *model) free(r resv) bool {
	for _, h := range m.held {
		if conflicts(h, r) {
			return false
		}
	}
	return true
}

func (m *model) add(r resv) { m.held = append(m.held, r) }

func (m *model) index(r resv) int {
	for i, h := range m.held {
		if h == r {
			return i
		}
	}
	return -1
}

func (m *model) remove(i int) { m.held = append(m.held[:i:i], m.held[i+1:]...) }

// touches reports whether r shares an element with some held reservation.
func (m *model) touches(r resv) bool {
	for _, h := range m.held {
		if overlaps(h, r) {
			return true
		}
	}
	return false
}

// ports returns the distinct ports that appear in held reservations, sorted.
func (m *model) ports() []int {
	seen := map[int]bool{}
	var out []int
	for _, h := range m.held {
		if !seen[h.Port] {
			seen[h.Port] = true
			out = append(out, h.Port)
		}
	}
	sort.Ints(out)
	return out
}
