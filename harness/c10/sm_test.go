package c10

import (
	"fmt"
	"math/rand"
	"testing"

	tcpip "github.com/brewlin/net-protocol/protocol"
	"github.com/brewlin/net-protocol/protocol/ports"
	"pgregory.net/rapid"
	"verifharness/evid"
)

// ---- adapter from the abstract universe to the repository's API -------------

var (
	netNum = [3]tcpip.NetworkProtocolNumber{0, 0x0800, 0x86dd}
	trNum  = [2]tcpip.TransportProtocolNumber{6, 17}
	addrOf = [3]tcpip.Address{"", "\x0a\x00\x00\x01", "\x0a\x00\x00\x02"}
	// fixed ports of the state machine: one below the ephemeral range, both
	// ends of it and one in the middle.
	fixedPorts = [5]int{0, 80, firstEph, 40000, lastEph}
)

func netsOf(bits int, rev bool) []tcpip.NetworkProtocolNumber {
	switch bits & 3 {
	case netV4:
		return []tcpip.NetworkProtocolNumber{netNum[1]}
	case netV6:
		return []tcpip.NetworkProtocolNumber{netNum[2]}
	case netV4 | netV6:
		if rev {
			return []tcpip.NetworkProtocolNumber{netNum[2], netNum[1]}
		}
		return []tcpip.NetworkProtocolNumber{netNum[1], netNum[2]}
	}
	return nil
}

func apiReserve(pm *ports.PortManager, r resv, rev bool) (int, *tcpip.Error) {
	p, err := pm.ReservePort(netsOf(r.Nets, rev), trNum[r.Tr], addrOf[r.Addr], uint16(r.Port))
	return int(p), err
}
func apiRelease(pm *ports.PortManager, r resv, rev bool) {
	pm.ReleasePort(netsOf(r.Nets, rev), trNum[r.Tr], addrOf[r.Addr], uint16(r.Port))
}
func apiAvail(pm *ports.PortManager, r resv, rev bool) bool {
	return pm.IsPortAvailable(netsOf(r.Nets, rev), trNum[r.Tr], addrOf[r.Addr], uint16(r.Port))
}

// ---- part 1: histories of reserve / release / availability queries ----------

const (
	opReserve = 0
	opRelease = 1
	opAvail   = 2
)

// Op is one step of a history.
type Op struct {
	K    int  `json:"k"`             // 0 reserve, 1 release, 2 availability query
	Nets int  `json:"nets"`          // 1 IPv4, 2 IPv6, 3 both
	Rev  bool `json:"rev,omitempty"` // both networks listed as (v6, v4) instead of (v4, v6)
	Tr   int  `json:"tr"`            // transport 0/1
	Addr int  `json:"addr"`          // 0 wildcard, 1, 2
	// Port: 0 = ask for an ephemeral port (reserve only); 1..4 = fixedPorts[Port];
	// -k = the port that the k-th ephemeral reservation of this history obtained.
	Port int `json:"port"`
	// Ref (release only): >= 0 releases the held reservation number Ref mod
	// #held (what every caller does: release exactly what it reserved);
	// -1 releases the literal tuple above.
	Ref int `json:"ref"`
}

// SMCase is one history. Seed seeds the global math/rand, which the ephemeral
// search of the code under test draws its start offset from.
type SMCase struct {
	Seed int64 `json:"seed"`
	Ops  []Op  `json:"ops"`
}

func genSM(rt *rapid.T) SMCase {
	c := SMCase{Seed: rapid.Int64Range(0, 1<<31-2).Draw(rt, "seed")}
	n := rapid.IntRange(1, 40).Draw(rt, "nops")
	// A small port universe per history makes conflicts and re-reservations frequent.
	nports := rapid.IntRange(1, 4).Draw(rt, "nports")
	for i := 0; i < n; i++ {
		o := Op{
			K:    rapid.SampledFrom([]int{opReserve, opReserve, opReserve, opRelease, opRelease, opAvail}).Draw(rt, "k"),
			Nets: rapid.IntRange(1, 3).Draw(rt, "nets"),
			Tr:   rapid.IntRange(0, 1).Draw(rt, "tr"),
			Addr: rapid.IntRange(0, 2).Draw(rt, "addr"),
			Ref:  -1,
		}
		if o.Nets == 3 {
			o.Rev = rapid.Bool().Draw(rt, "rev")
		}
		switch pk := rapid.IntRange(0, 9).Draw(rt, "pk"); {
		case pk == 0 && o.K == opReserve:
			o.Port = 0
		case pk <= 2:
			o.Port = -rapid.IntRange(1, 3).Draw(rt, "ephref")
		default:
			o.Port = rapid.IntRange(1, nports).Draw(rt, "port")
		}
		if o.K == opRelease && rapid.IntRange(0, 4).Draw(rt, "lit") != 0 {
			o.Ref = rapid.IntRange(0, 7).Draw(rt, "ref")
		}
		c.Ops = append(c.Ops, o)
	}
	return c
}

// sweep compares the complete observable reservation state with the model:
// every single-network (network, transport, address, port) query over the
// ports the history has touched.
func sweep(pm *ports.PortManager, m *model, universe []int) *evid.Failure {
	for _, p := range universe {
		for nets := 1; nets <= 2; nets++ {
			for tr := 0; tr <= 1; tr++ {
				for a := 0; a <= 2; a++ {
					q := resv{nets, tr, a, p}
					if got, want := apiAvail(pm, q, false), m.free(q); got != want {
						return evid.Failf("state-mismatch", "IsPortAvailable%v = %v, model says %v; held: %v", q, got, want, m.held)
					}
				}
			}
		}
	}
	return nil
}

func runSM(c SMCase) *evid.Failure {
	rand.Seed(c.Seed)
	pm := ports.NewPortManager()
	m := &model{}
	var ephPorts []int
	universe := append([]int(nil), fixedPorts[1:]...)
	var released []resv // reservations released so far
	decisionAfterRelease := false
	hasEph := false
	nmut := 0
	for i, o := range c.Ops {
		if o.Nets < 1 || o.Nets > 3 || o.Tr < 0 || o.Tr > 1 || o.Addr < 0 || o.Addr > 2 || o.Port > 4 {
			continue
		}
		r := resv{Nets: o.Nets, Tr: o.Tr, Addr: o.Addr}
		switch {
		case o.Port > 0:
			r.Port = fixedPorts[o.Port]
		case o.Port < 0:
			if -o.Port > len(ephPorts) {
				continue // refers to an ephemeral reservation that has not happened
			}
			r.Port = ephPorts[-o.Port-1]
		}
		afterRel := false
		for _, x := range released {
			if x.Tr == r.Tr && x.Port == r.Port && x.Nets&r.Nets != 0 {
				afterRel = true
			}
		}
		switch o.K {
		case opReserve:
			if o.Port == 0 {
				// ephemeral: must succeed (at most 40 reservations exist, the range has 49536 ports),
				// with a port of the range that was free for this (nets, transport, address).
				p, err := apiReserve(pm, r, o.Rev)
				if err != nil {
					return evid.Failf("eph-reserve-failed", "step %d ReservePort%v (ephemeral) = error %q with only %d reservations held", i, r, err.String(), len(m.held))
				}
				if p < firstEph || p > lastEph {
					return evid.Failf("eph-reserve-range", "step %d ReservePort%v (ephemeral) returned port %d outside [16000, 65535]", i, r, p)
				}
				r.Port = p
				if !m.free(r) {
					return evid.Failf("eph-reserve-not-free", "step %d ephemeral ReservePort returned %v which conflicts with a held reservation; held: %v", i, r, m.held)
				}
				m.add(r)
				ephPorts = append(ephPorts, p)
				universe = append(universe, p)
				evid.Label("sm_reserve_ephemeral")
				hasEph = true
				nmut++
				break
			}
			want := m.free(r)
			p, err := apiReserve(pm, r, o.Rev)
			if (err == nil) != want {
				return evid.Failf("reserve-mismatch", "step %d ReservePort%v: err=%v, model says free=%v; held: %v", i, r, errStr(err), want, m.held)
			}
			if err == nil && p != r.Port {
				return evid.Failf("reserve-port", "step %d ReservePort%v returned port %d", i, r, p)
			}
			if want {
				m.add(r)
				evid.Label("sm_reserve_ok")
			} else {
				evid.Label("sm_reserve_conflict")
			}
			if afterRel {
				decisionAfterRelease = true
				evid.Label("sm_reserve_decision_after_release")
			}
			nmut++
		case opRelease:
			if o.Ref >= 0 {
				if len(m.held) == 0 {
					continue
				}
				k := o.Ref % len(m.held)
				r = m.held[k]
				apiRelease(pm, r, o.Rev)
				m.remove(k)
				released = append(released, r)
				evid.Label("sm_release_held")
				nmut++
				break
			}
			if o.Port == 0 {
				continue
			}
			if k := m.index(r); k >= 0 {
				apiRelease(pm, r, o.Rev)
				m.remove(k)
				released = append(released, r)
				evid.Label("sm_release_held")
				nmut++
			} else if m.touches(r) {
				// part of somebody else's reservation: no caller releases what it does not hold
				evid.Label("sm_skipped_partial_release")
				continue
			} else {
				// nothing like it is held (e.g. a second release): must change nothing
				apiRelease(pm, r, o.Rev)
				evid.Label("sm_release_unheld")
				nmut++
			}
		case opAvail:
			if o.Port == 0 {
				continue
			}
			want := m.free(r)
			if got := apiAvail(pm, r, o.Rev); got != want {
				return evid.Failf("avail-mismatch", "step %d IsPortAvailable%v = %v, model says %v; held: %v", i, r, got, want, m.held)
			}
			if afterRel {
				decisionAfterRelease = true
			}
			evid.Label(fmt.Sprintf("sm_avail_%v", want))
			continue // a query changes nothing; the next sweep checks that too
		}
		if f := sweep(pm, m, universe); f != nil {
			f.Msg = fmt.Sprintf("after step %d (%+v): %s", i, o, f.Msg)
			return f
		}
	}
	if decisionAfterRelease && nmut >= 3 {
		seed := int64(-1) // the seed only matters to histories that ask for an ephemeral port
		if hasEph {
			seed = c.Seed
		}
		evid.NonTrivialKey("sm", seed, fmt.Sprint(c.Ops))
		evid.Sample("history", c)
	}
	return nil
}

func errStr(e *tcpip.Error) string {
	if e == nil {
		return "nil"
	}
	return e.String()
}

func TestReserveReleaseHistories(t *testing.T) {
	evid.Run(t, evid.Spec[SMCase]{Name: "history", Gen: genSM, Run: runSM})
}
