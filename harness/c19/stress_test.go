package c19

// Stress mode: the hooks stay nil, so this is the real runtime gopark/goready
// and the real commitSleep assembly, run under the race detector. Schedules are
// whatever the Go scheduler produces on the machine, perturbed by injected
// runtime.Gosched calls.
//
// Every blocking fetch is guaranteed an assertion: an extra STOP waker is
// attached to every sleeper, and a stopper goroutine keeps it asserted from the
// moment all waker goroutines have finished until the fetching goroutine is
// done. The STOP waker's operations are part of the history like any other.

import (
	"fmt"
	"runtime"
	"strings"
	"sync"
	"sync/atomic"
	"testing"
	"time"
	"unsafe"

	"github.com/brewlin/net-protocol/pkg/sleep"
	"pgregory.net/rapid"
	"verifharness/evid"
)

type stressRun struct {
	p          *Prog
	ctr        atomic.Int64
	sl         [2]*sleep.Sleeper
	ws         []sleep.Waker // NW program wakers + the STOP waker (index NW)
	hists      [][]HOp       // per goroutine: 0 fetching, 1..n wakers, n+1 stopper
	wakersDone atomic.Bool
	fetchDone  atomic.Bool
	abort      atomic.Bool
	progress   atomic.Int64 // operations completed by the fetching goroutine
	stopSeen   atomic.Int64 // times the stopper saw STOP asserted
	gid        atomic.Int64
	keepWG     bool // do not overwrite waitingG when retiring a sleeper
}

func (x *stressRun) rec(g int, o HOp, call func() int) {
	o.G = g
	o.B = x.ctr.Add(1)
	o.R = call()
	o.E = x.ctr.Add(1)
	x.hists[g] = append(x.hists[g], o)
}

// retireStress overwrites a sleeper whose Done has returned with PLAIN stores:
// any later access by a waker is then a data race that the detector reports.
func (x *stressRun) retireStress(s *sleep.Sleeper) {
	n := int(unsafe.Sizeof(*s) / unsafe.Sizeof(uintptr(0)))
	words := unsafe.Slice((*uintptr)(unsafe.Pointer(s)), n)
	wg := -1
	if x.keepWG && waitingGOffset >= 0 {
		wg = waitingGOffset / int(unsafe.Sizeof(uintptr(0)))
	}
	for i := range words {
		if i != wg {
			words[i] = 0
		}
	}
}

func (x *stressRun) fetcher() {
	p := x.p
	x.gid.Store(curGID())
	for k := 0; k < 2; k++ {
		if k == 1 && !p.Reattach {
			break
		}
		s := x.sl[k]
		for w := 0; w <= p.NW; w++ {
			w := w
			x.rec(0, HOp{K: KAdd, W: w, S: k}, func() int { s.AddWaker(&x.ws[w], wakerID(k, w)); return 0 })
			x.progress.Add(1)
		}
		script := p.Fetch
		if k == 1 {
			script = p.Fetch2
		}
		for _, f := range script {
			if f == "y" {
				runtime.Gosched()
				continue
			}
			block := f == "b"
			kind := KTryFetch
			if block {
				kind = KFetch
			}
			// the begin ticket is published before the call so that a hang can be described
			x.rec(0, HOp{K: kind, S: k}, func() int {
				id, ok := s.Fetch(block)
				if !ok {
					return RNone
				}
				return wakerOfID(k, p.NW+1, id)
			})
			x.progress.Add(1)
		}
		x.rec(0, HOp{K: KDone, S: k}, func() int { s.Done(); return 0 })
		x.progress.Add(1)
		x.retireStress(s)
	}
}

func (x *stressRun) waker(g int) {
	for _, o := range x.p.Wakers[g] {
		w := &x.ws[o.W]
		switch o.K {
		case "a":
			x.rec(g+1, HOp{K: KAssert, W: o.W}, func() int { w.Assert(); return 0 })
		case "c":
			x.rec(g+1, HOp{K: KClear, W: o.W}, func() int { return b2i(w.Clear()) })
		case "i":
			x.rec(g+1, HOp{K: KIsAssert, W: o.W}, func() int { return b2i(w.IsAsserted()) })
		case "y":
			runtime.Gosched()
		}
	}
}

// stopper keeps the STOP waker asserted until the fetching goroutine is done.
// Its IsAsserted polls are reads without effect and are not recorded.
func (x *stressRun) stopper(g int) {
	stop := &x.ws[x.p.NW]
	for spins := 0; !x.fetchDone.Load() && !x.abort.Load(); spins++ {
		if stop.IsAsserted() {
			x.stopSeen.Add(1)
		} else {
			x.rec(g, HOp{K: KAssert, W: x.p.NW}, func() int { stop.Assert(); return 0 })
			spins = 0
		}
		if spins < 5000 {
			runtime.Gosched()
		} else {
			time.Sleep(50 * time.Microsecond)
		}
	}
}

// fetcherParked reports whether the fetching goroutine is parked by the
// sleeper's gopark (stop-the-world snapshot).
func fetcherParked(gid int64) (bool, string) {
	for _, g := range allGoroutines() {
		if g.id != gid {
			continue
		}
		if g.state == "running" || g.state == "runnable" || g.state == "" {
			return false, g.stack
		}
		return strings.Contains(g.stack, "pkg/sleep.(*Sleeper).nextWaker"), g.stack
	}
	return false, ""
}

// execStress runs the program once. hung: the fetching goroutine is parked for
// ever (see the verdict rule in the code).
func execStress(p *Prog, keepWG bool) (hist []HOp, f *evid.Failure) {
	ng := len(p.Wakers)
	x := &stressRun{p: p, ws: make([]sleep.Waker, p.NW+1), hists: make([][]HOp, ng+2), keepWG: keepWG}
	x.sl[0], x.sl[1] = new(sleep.Sleeper), new(sleep.Sleeper)
	for _, w := range p.Pre { // before any other goroutine exists
		w := w
		x.rec(0, HOp{K: KAssert, W: w}, func() int { x.ws[w].Assert(); return 0 })
	}
	start := make(chan struct{})
	var wg sync.WaitGroup
	for g := 0; g < ng; g++ {
		g := g
		wg.Add(1)
		go func() {
			defer wg.Done()
			<-start
			x.waker(g)
		}()
	}
	stopperDone := make(chan struct{})
	go func() {
		defer close(stopperDone)
		wg.Wait()
		x.wakersDone.Store(true)
		x.stopper(ng + 1)
	}()
	done := make(chan any, 1)
	go func() {
		defer func() {
			r := recover()
			x.fetchDone.Store(true)
			done <- r
		}()
		<-start
		x.fetcher()
	}()
	close(start)

	tk := time.NewTicker(250 * time.Millisecond)
	defer tk.Stop()
	began := time.Now()
	var lastProg, lastSeen int64 = -1, -1
	strikes := 0
	for {
		select {
		case r := <-done:
			<-stopperDone
			for _, h := range x.hists {
				hist = append(hist, h...)
			}
			if r != nil {
				return hist, evid.Failf("panic", "the fetching goroutine panicked: %v\nhistory:\n%s", r, HistString(hist))
			}
			return hist, nil
		case <-tk.C:
			// Verdict rule for a hang (no timing involved beyond "when to look"): all
			// waker goroutines have finished, the stopper sees the STOP waker asserted
			// (so it will never call Assert again: nobody is left who could call
			// goready), the fetching goroutine made no progress between two looks and
			// is parked in the sleeper's gopark at both. Nothing can change that state.
			prog, seen := x.progress.Load(), x.stopSeen.Load()
			parked := false
			var stack string
			if x.wakersDone.Load() && prog == lastProg && seen > lastSeen && lastSeen >= 0 {
				parked, stack = fetcherParked(x.gid.Load())
			}
			if parked {
				strikes++
			} else {
				strikes = 0
			}
			lastProg, lastSeen = prog, seen
			if strikes >= 3 {
				x.abort.Store(true)
				<-stopperDone
				// the fetching goroutine is parked for ever and leaks; its history slice is quiescent
				for _, h := range x.hists {
					hist = append(hist, h...)
				}
				return hist, evid.Failf("lost-wakeup:stress", "all waker goroutines have finished, the STOP waker is asserted, and the fetching goroutine stays parked in the sleeper (after %d completed operations):\n%s\ncompleted history:\n%s", prog, stack, HistString(hist))
			}
			if time.Since(began) > 90*time.Second {
				x.abort.Store(true)
				evid.Unconfirmed()
				evid.Inconclusive("stress: an execution of %s did not finish within 90 s but the fetching goroutine was not seen parked (starvation or livelock?); abandoned", p.String())
				return nil, nil
			}
		}
	}
}

// StressCase is the replayable form of a stress case: the program and how
// often to execute it.
type StressCase struct {
	Prog Prog `json:"prog"`
	Reps int  `json:"reps"`
}

var (
	stressT      *testing.T
	stressBegan  time.Time
	stressBudget time.Duration
	budgetNote   sync.Once
	lateNote     sync.Once
)

func judgeStress(p *Prog, hist []HOp) (*evid.Failure, bool) {
	lr := Linearize(hist, 0, false)
	if lr.OK {
		return nil, false
	}
	sig := "lin:" + stuckSig(&lr)
	why := ""
	inflight := false
	if rl := LinearizeRelaxed(hist, 0, false); rl.OK {
		sig = sigInflightAssert + stuckSig(&lr)
		inflight = true
		why = "\n(classification: the history becomes linearizable if a Fetch(false) may miss a waker while another goroutine's Assert of that same waker is still in flight)"
	}
	var stuck string
	for _, o := range lr.Stuck {
		stuck += "\n    " + o.String()
	}
	return evid.Failf(sig, "stress history (tickets of one atomic counter) is not linearizable against the flag specification: after placing %d operations (flags %#b) none of the next operations is allowed:%s%s\nhistory:\n%s",
		lr.StuckAt, lr.Flags, stuck, why, HistString(hist)), inflight
}

func runStress(c StressCase) *evid.Failure {
	p := &c.Prog
	if !p.Valid() || p.NW > 8 || c.Reps < 1 || c.Reps > 1000 {
		evid.Label("stress_invalid_case_skipped")
		return nil
	}
	reps := c.Reps
	if evid.ReplayMode() {
		reps *= 25
	} else if stressBudget > 0 && time.Since(stressBegan) > stressBudget {
		evid.Label("stress_program_skipped_time_budget_used_up")
		budgetNote.Do(func() {
			evid.Note("stress: the unit used up its wall-time budget (%v) before all planned programs ran; the rest was skipped and is not counted", stressBudget)
		})
		evid.Eval(-1)
		return nil
	}
	keepWG := knownListed(sigLateProbe)
	if keepWG {
		lateNote.Do(func() {
			evid.Exclude("stress: waitingG of a retired sleeper is not overwritten (a late load of it is the listed known finding " + sigLateProbe + "); the other words are")
		})
	}
	for rep := 0; rep < reps; rep++ {
		var hist []HOp
		var f *evid.Failure
		body := func() {
			hist, f = execStress(p, keepWG)
			if f == nil && hist != nil {
				var infl bool
				f, infl = judgeStress(p, hist)
				if infl {
					evid.Label("stress_exec_inflight_assert_anomaly")
				}
			}
		}
		ok := true
		if raceEnabled && stressT != nil {
			ok = stressT.Run("exec", func(*testing.T) { body() })
		} else {
			body()
		}
		if f == nil && !ok {
			f = evid.Failf("race:data-race", "the race detector reported a data race while this program ran (a waker touching a sleeper that the harness overwrote with plain stores after Done() returned shows up here); the report is in the unit's log\nhistory:\n%s", HistString(hist))
		}
		if rep > 0 {
			evid.Eval(1)
		}
		if f != nil {
			if rep+1 < reps && evid.KnownSig(f.Sig) {
				continue // a listed known finding: counted, keep executing
			}
			return f
		}
		if hist == nil {
			continue
		}
		evid.Label("stress_executions_judged")
		evid.LabelN("stress_ops", int64(len(hist)))
		classifyStress(p, hist)
	}
	return nil
}

// classifyStress feeds the histograms; non-trivial = some Assert overlaps a
// blocking fetch that returned its waker (the wake-up travelled while the
// fetcher was inside Fetch), or Done overlaps an Assert.
func classifyStress(p *Prog, hist []HOp) {
	overlapFetch, overlapDone, woke := false, false, 0
	for i := range hist {
		o := &hist[i]
		if o.G != 0 {
			continue
		}
		for j := range hist {
			a := &hist[j]
			if a.K != KAssert || a.G == 0 {
				continue
			}
			if a.B < o.E && a.E > o.B {
				if o.K == KFetch && o.R == a.W {
					overlapFetch = true
					woke++
				}
				if o.K == KDone {
					overlapDone = true
				}
			}
		}
	}
	if overlapFetch {
		evid.Label("stress_exec_assert_overlaps_blocking_fetch_that_returned_it")
	}
	if overlapDone {
		evid.Label("stress_exec_done_overlaps_assert")
	}
	if overlapFetch || overlapDone {
		var b strings.Builder
		for _, o := range hist {
			fmt.Fprintf(&b, "%d %s %d %d %d %d;", o.G, o.K, o.W, o.B, o.E, o.R)
		}
		evid.NonTrivialKey("stress", b.String())
		if len(hist) <= 30 {
			evid.Sample("stress-history", map[string]any{"prog": p, "history": strings.Split(strings.TrimSpace(HistString(hist)), "\n")})
		}
	}
}

func genStress(rt *rapid.T) StressCase {
	var p Prog
	p.NW = rapid.IntRange(1, 8).Draw(rt, "nw")
	ng := rapid.IntRange(1, 8).Draw(rt, "goroutines")
	own := rapid.IntRange(0, 2).Draw(rt, "ownership")
	for g := 0; g < ng; g++ {
		n := rapid.IntRange(1, 30).Draw(rt, "wops")
		var s []WOp
		for i := 0; i < n; i++ {
			w := g % p.NW
			if own != 0 {
				w = rapid.IntRange(0, p.NW-1).Draw(rt, "w")
			}
			k := rapid.SampledFrom([]string{"a", "a", "a", "a", "c", "i", "y", "y"}).Draw(rt, "k")
			s = append(s, WOp{K: k, W: w})
		}
		p.Wakers = append(p.Wakers, s)
	}
	if rapid.IntRange(0, 3).Draw(rt, "pre") == 0 {
		p.Pre = []int{rapid.IntRange(0, p.NW-1).Draw(rt, "prew")}
	}
	fs := func(label string, max int) []string {
		return rapid.SliceOfN(rapid.SampledFrom([]string{"b", "b", "b", "n", "y"}), 0, max).Draw(rt, label)
	}
	// short fetch scripts make Done race with the asserts; long ones exercise repeated sleeps
	p.Fetch = fs("fetch", rapid.SampledFrom([]int{0, 2, 6, 40}).Draw(rt, "fetchmax"))
	p.Reattach = rapid.Bool().Draw(rt, "reattach")
	if p.Reattach {
		p.Fetch2 = fs("fetch2", 20)
	}
	return StressCase{Prog: p, Reps: rapid.IntRange(4, 16).Draw(rt, "reps")}
}

// TestStress is the stress check (run with -race); it hosts replays of check
// "stress".
func TestStress(t *testing.T) {
	stressT = t
	defer func() { stressT = nil }()
	stressBegan, stressBudget = time.Now(), evid.Pick(15*time.Second, 3*time.Minute)
	evid.Run(t, evid.Spec[StressCase]{Name: "stress", Gen: genStress, Run: runStress})
}
