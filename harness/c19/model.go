// Package c19 checks property C19 (pkg/sleep: Sleeper/Waker never lose or
// invent a wake-up). This file is the ORACLE: the sequential specification
// written from the property statement and a direct linearizability search over
// recorded histories. It calls nothing of the code under test.
//
// Sequential specification. Every waker is a flag.
//
//	Assert(w)              sets flag w (idempotent: several asserts collapse)
//	Clear(w) -> r          r == "flag w was set"; clears it
//	IsAsserted(w) -> r     r == "flag w is set"
//	Fetch(block) -> id     flag id must be set; clears it
//	Fetch(false) -> none   every flag must be clear
//	Fetch(true)  -> none   never allowed
//	AddWaker, Done         no effect on the flags (a waker keeps its assertion
//	                       across Done and delivers it to the next sleeper)
//
// A history is a set of operations with begin/end tickets of one global
// counter; it is accepted iff some total order that respects "a's end ticket <
// b's begin ticket => a before b" is a run of the specification.
package c19

import (
	"fmt"
	"sort"
	"strings"
)

// Operation kinds.
const (
	KAssert   = "assert"
	KClear    = "clear"
	KIsAssert = "isasserted"
	KFetch    = "fetch"    // Fetch(true)
	KTryFetch = "tryfetch" // Fetch(false)
	KAdd      = "add"      // AddWaker
	KDone     = "done"
)

// Results of fetches that are not a waker index.
const (
	RNone     = -1 // ok == false
	RInvented = -2 // ok == true with an id that no attached waker has
)

// HOp is one recorded operation.
type HOp struct {
	G int    `json:"g"` // goroutine: 0 = the fetching goroutine, 1.. = waker goroutines
	K string `json:"k"`
	W int    `json:"w"`           // waker index (assert/clear/isasserted/add)
	S int    `json:"s,omitempty"` // sleeper number (0 first, 1 second) for the fetching goroutine's operations
	B int64  `json:"b"`           // begin ticket
	E int64  `json:"e"`           // end ticket, 0 = the operation never returned
	R int    `json:"r"`           // clear/isasserted: 0|1; fetch: waker index, RNone or RInvented
}

func (o HOp) String() string {
	end := "pending"
	if o.E != 0 {
		end = fmt.Sprint(o.E)
	}
	switch o.K {
	case KAssert:
		return fmt.Sprintf("g%d Assert(w%d) [%d,%s]", o.G, o.W, o.B, end)
	case KClear, KIsAssert:
		n := "Clear"
		if o.K == KIsAssert {
			n = "IsAsserted"
		}
		return fmt.Sprintf("g%d %s(w%d)=%v [%d,%s]", o.G, n, o.W, o.R == 1, o.B, end)
	case KFetch, KTryFetch:
		r := "none"
		if o.R >= 0 {
			r = fmt.Sprintf("w%d", o.R)
		} else if o.R == RInvented {
			r = "UNKNOWN-ID"
		}
		if o.E == 0 {
			r = "?"
		}
		return fmt.Sprintf("g%d s%d.Fetch(%v)=%s [%d,%s]", o.G, o.S, o.K == KFetch, r, o.B, end)
	case KAdd:
		return fmt.Sprintf("g%d s%d.AddWaker(w%d) [%d,%s]", o.G, o.S, o.W, o.B, end)
	case KDone:
		return fmt.Sprintf("g%d s%d.Done() [%d,%s]", o.G, o.S, o.B, end)
	}
	return fmt.Sprintf("g%d %s?", o.G, o.K)
}

// HistString renders a history, one operation per line, by begin ticket.
func HistString(h []HOp) string {
	s := append([]HOp(nil), h...)
	sort.SliceStable(s, func(i, j int) bool { return s[i].B < s[j].B })
	var b strings.Builder
	for _, o := range s {
		b.WriteString("  ")
		b.WriteString(o.String())
		b.WriteByte('\n')
	}
	return b.String()
}

// apply runs one completed operation on the flags; ok=false if the
// specification does not allow that result in that state.
func apply(flags uint32, o *HOp) (uint32, bool) {
	switch o.K {
	case KAssert:
		return flags | 1<<uint(o.W), true
	case KClear:
		set := flags&(1<<uint(o.W)) != 0
		if set != (o.R == 1) {
			return flags, false
		}
		return flags &^ (1 << uint(o.W)), true
	case KIsAssert:
		set := flags&(1<<uint(o.W)) != 0
		return flags, set == (o.R == 1)
	case KFetch, KTryFetch:
		if o.R >= 0 {
			if flags&(1<<uint(o.R)) == 0 {
				return flags, false
			}
			return flags &^ (1 << uint(o.R)), true
		}
		if o.R == RNone && o.K == KTryFetch {
			return flags, flags == 0
		}
		return flags, false
	case KAdd, KDone:
		return flags, true
	}
	return flags, false
}

// LinResult is the verdict of the search.
type LinResult struct {
	OK bool
	// Stuck describes, for a rejected history, the operations that could not
	// be placed at the deepest point the search reached.
	Stuck    []HOp
	StuckAt  int    // number of operations placed there
	Flags    uint32 // flags there
	Explored int
}

type linKey struct {
	a, b  uint64
	flags uint32
}

// Linearize decides whether the completed operations of h (operations with
// E == 0 are ignored: the callers only pass histories whose pending operations
// are blocked fetches/Done of the fetching goroutine, which have no effect)
// have a linearization from the initial flags. If finalClear is set the
// linearization must also end with every flag clear (used to decide whether a
// fetch that is blocked for ever is entitled to be).
func Linearize(h []HOp, init uint32, finalClear bool) LinResult {
	return linearize(h, init, finalClear, false)
}

// LinearizeRelaxed is used ONLY to classify a history that Linearize rejected
// (never to accept one). It additionally lets a Fetch(false) report nothing
// while a flag is set, provided an Assert of that same waker was in flight
// during the fetch. If it accepts, the rejection is explained by: "an Assert
// returned (or a Clear+Assert pair completed) while another goroutine's Assert
// of the same waker had marked the waker but not queued it yet, and the
// non-blocking fetch ran inside that window".
func LinearizeRelaxed(h []HOp, init uint32, finalClear bool) LinResult {
	return linearize(h, init, finalClear, true)
}

func linearize(h []HOp, init uint32, finalClear, relaxed bool) LinResult {
	// per-goroutine queues in program order
	maxG := 0
	for i := range h {
		if h[i].G > maxG {
			maxG = h[i].G
		}
	}
	qs := make([][]*HOp, maxG+1)
	total := 0
	for i := range h {
		if h[i].E == 0 {
			continue
		}
		qs[h[i].G] = append(qs[h[i].G], &h[i])
		total++
	}
	for g := range qs {
		q := qs[g]
		sort.SliceStable(q, func(i, j int) bool { return q[i].B < q[j].B })
	}
	idx := make([]int, len(qs))
	failed := map[linKey]struct{}{}
	res := LinResult{StuckAt: -1}
	key := func(flags uint32) linKey {
		var k linKey
		k.flags = flags
		for g, i := range idx {
			if g < 8 {
				k.a |= uint64(i&0xff) << (8 * uint(g))
			} else {
				k.b |= uint64(i&0xff) << (8 * uint(g-8))
			}
		}
		return k
	}
	var rec func(placed int, flags uint32) bool
	rec = func(placed int, flags uint32) bool {
		res.Explored++
		if placed == total {
			if finalClear && flags != 0 {
				if placed > res.StuckAt {
					res.StuckAt, res.Flags, res.Stuck = placed, flags, nil
				}
				return false
			}
			return true
		}
		k := key(flags)
		if _, bad := failed[k]; bad {
			return false
		}
		var stuck []HOp
		for g := range qs {
			if idx[g] >= len(qs[g]) {
				continue
			}
			o := qs[g][idx[g]]
			minimal := true
			for h2 := range qs {
				if h2 == g || idx[h2] >= len(qs[h2]) {
					continue
				}
				if qs[h2][idx[h2]].E < o.B {
					minimal = false
					break
				}
			}
			if !minimal {
				continue
			}
			nf, ok := apply(flags, o)
			if !ok && relaxed && o.K == KTryFetch && o.R == RNone && flags&^inflightMask(h, o) == 0 {
				nf, ok = flags, true
			}
			if !ok {
				stuck = append(stuck, *o)
				continue
			}
			idx[g]++
			if rec(placed+1, nf) {
				return true
			}
			idx[g]--
		}
		if placed > res.StuckAt && len(stuck) > 0 {
			res.StuckAt, res.Flags, res.Stuck = placed, flags, stuck
		}
		failed[k] = struct{}{}
		return false
	}
	if len(qs) > 16 {
		panic("c19: too many goroutines for the linearizability search key")
	}
	for _, q := range qs {
		if len(q) > 255 {
			panic("c19: history too long for the linearizability search key")
		}
	}
	res.OK = rec(0, init)
	return res
}

// stuckSig derives a short stable signature from a rejected history: the
// fetching goroutine's stuck operation if there is one (it is the observer the
// property talks about), else the first stuck operation.
func stuckSig(r *LinResult) string {
	if len(r.Stuck) == 0 {
		return "flag-left-set"
	}
	o := r.Stuck[0]
	for _, s := range r.Stuck {
		if s.G == 0 {
			o = s
			break
		}
	}
	switch o.K {
	case KFetch, KTryFetch:
		switch {
		case o.R >= 0:
			return o.K + "-returned-unasserted-waker"
		case o.R == RInvented:
			return o.K + "-returned-unknown-id"
		case o.K == KFetch:
			return "blocking-fetch-returned-nothing"
		default:
			return "tryfetch-missed-completed-assert"
		}
	case KClear:
		return fmt.Sprintf("clear-reported-%v", o.R == 1)
	case KIsAssert:
		return fmt.Sprintf("isasserted-reported-%v", o.R == 1)
	}
	return o.K
}

// inflightMask returns, for a Fetch(false) that reported nothing, the set of
// wakers for which some Assert of ANOTHER operation interval overlaps the fetch
// (began before the fetch ended and ended after the fetch began).
func inflightMask(h []HOp, tf *HOp) uint32 {
	var m uint32
	for i := range h {
		o := &h[i]
		if o.K == KAssert && o.B < tf.E && (o.E == 0 || o.E > tf.B) {
			m |= 1 << uint(o.W)
		}
	}
	return m
}
