//go:build !race

package c19

// raceEnabled reports whether the binary was built with the race detector.
const raceEnabled = false
