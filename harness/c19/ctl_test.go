package c19

// Controlled mode: the overlay-instrumented pkg/sleep (one schedule point in
// front of every atomic operation) runs under verifharness/sched; parking is
// simulated through hook H1 (VerifPark/VerifReady): VerifPark runs the REAL
// commit (the commitSleep CAS, its own schedule point) with a fake g token; if
// it commits, the fetching goroutine is disabled until some step calls
// goready(token).

import (
	"fmt"
	"reflect"
	"unsafe"

	"github.com/brewlin/net-protocol/pkg/sleep"
	"verifharness/evid"
	"verifharness/sched"
)

const (
	parkToken   = uintptr(0xC19000)
	poisonToken = uintptr(0xDEAD00)
)

// ctlStats is what one execution contributed to the class histograms.
type ctlStats struct {
	steps          int
	preemptions    int
	pruned         bool
	benignBlock    bool // the blocked fetch was entitled to block (no flag set)
	commitAborts   int  // commitSleep failed: a waker cleared waitingG between the preparingG store and the commit
	parks          int  // committed sleeps
	wakes          int  // goready calls
	doneOverlap    bool // Done overlapped an Assert
	fetchedSome    int
	tryNone        int
	histLen        int
	knownDelegated bool
	lateProbe      bool
}

type ctlExec struct {
	p    *Prog
	tick int64
	hist []HOp
	// per goroutine: index in hist of the operation in progress (-1: none) and
	// whether its begin ticket is still to be taken
	cur       []int
	needBegin []bool
	parked    bool
	st        ctlStats
	fail      *evid.Failure
	sl        [2]*sleep.Sleeper
	ws        []sleep.Waker
	snap      [2][]uintptr // sleeper memory right after its Done returned (poisoned)
	lateReady int          // goready(poisonToken) calls
	preCommit bool         // the fetching goroutine stands at the schedule point in front of the commit CAS
}

func (x *ctlExec) next() int64 { x.tick++; return x.tick }

func (x *ctlExec) failf(sig, format string, a ...any) {
	if x.fail == nil {
		x.fail = evid.Failf(sig, format, a...)
	}
}

// yield is installed as sleep.VerifYield: the schedule point in front of every
// atomic operation. The begin ticket of an operation is taken when the
// goroutine is resumed for the operation's FIRST atomic step: whatever the
// operation did before is local, so the invocation may be taken to happen
// there (this keeps the recorded intervals tight).
func (x *ctlExec) yield() {
	sched.Yield()
	g := sched.Gid()
	if g < 0 {
		g = 0 // prologue, outside the scheduler
	}
	if x.needBegin[g] {
		x.needBegin[g] = false
		x.hist[x.cur[g]].B = x.next()
	}
}

func (x *ctlExec) op(g int, o HOp, call func() int) {
	o.G = g
	i := len(x.hist)
	x.hist = append(x.hist, o)
	x.cur[g], x.needBegin[g] = i, true
	r := call()
	if x.needBegin[g] { // no atomic step at all
		x.needBegin[g] = false
		x.hist[i].B = x.next()
	}
	x.hist[i].R = r
	x.hist[i].E = x.next()
	x.cur[g] = -1
}

func b2i(b bool) int {
	if b {
		return 1
	}
	return 0
}

func sleeperWords(s *sleep.Sleeper) []uintptr {
	n := int(unsafe.Sizeof(*s) / unsafe.Sizeof(uintptr(0)))
	return append([]uintptr(nil), unsafe.Slice((*uintptr)(unsafe.Pointer(s)), n)...)
}

// waitingGOffset is the offset of the uintptr field that holds the parked g
// (used only to poison it after Done; -1 if the struct no longer has it).
var waitingGOffset = func() int {
	f, ok := reflect.TypeOf(sleep.Sleeper{}).FieldByName("waitingG")
	if !ok || f.Type.Kind() != reflect.Uintptr {
		return -1
	}
	return int(f.Offset)
}()

// retire is called right after Done returned: from now on no waker may touch
// the sleeper. waitingG is poisoned with a token nobody is parked with (a late
// waker would hand it to goready), and the memory is compared at the end.
func (x *ctlExec) retire(k int) {
	s := x.sl[k]
	if waitingGOffset >= 0 {
		*(*uintptr)(unsafe.Add(unsafe.Pointer(s), waitingGOffset)) = poisonToken
	}
	x.snap[k] = sleeperWords(s)
}

func (x *ctlExec) fetchScript(k int, script []string) {
	s := x.sl[k]
	for _, f := range script {
		if f == "y" {
			continue
		}
		block := f == "b"
		kind := KTryFetch
		if block {
			kind = KFetch
		}
		x.op(0, HOp{K: kind, S: k}, func() int {
			id, ok := s.Fetch(block)
			if !ok {
				return RNone
			}
			return wakerOfID(k, x.p.NW, id)
		})
	}
}

func (x *ctlExec) bodies() []func() {
	p := x.p
	bs := []func(){func() {
		for k := 0; k < 2; k++ {
			if k == 1 && !p.Reattach {
				break
			}
			s := x.sl[k]
			for w := 0; w < p.NW; w++ {
				w := w
				x.op(0, HOp{K: KAdd, W: w, S: k}, func() int { s.AddWaker(&x.ws[w], wakerID(k, w)); return 0 })
			}
			if k == 0 {
				x.fetchScript(0, p.Fetch)
			} else {
				x.fetchScript(1, p.Fetch2)
			}
			x.op(0, HOp{K: KDone, S: k}, func() int { s.Done(); return 0 })
			x.retire(k)
		}
	}}
	for g := range p.Wakers {
		g := g
		bs = append(bs, func() {
			for _, o := range p.Wakers[g] {
				w := &x.ws[o.W]
				switch o.K {
				case "a":
					x.op(g+1, HOp{K: KAssert, W: o.W}, func() int { w.Assert(); return 0 })
				case "c":
					x.op(g+1, HOp{K: KClear, W: o.W}, func() int { return b2i(w.Clear()) })
				case "i":
					x.op(g+1, HOp{K: KIsAssert, W: o.W}, func() int { return b2i(w.IsAsserted()) })
				}
			}
		})
	}
	return bs
}

// newCtlExec builds a fresh instance of the program and installs the hooks.
func newCtlExec(p *Prog) *ctlExec {
	n := len(p.Wakers) + 1
	x := &ctlExec{p: p, cur: make([]int, n), needBegin: make([]bool, n), ws: make([]sleep.Waker, p.NW)}
	for i := range x.cur {
		x.cur[i] = -1
	}
	x.sl[0], x.sl[1] = new(sleep.Sleeper), new(sleep.Sleeper)
	sleep.VerifYield = x.yield
	sleep.VerifPark = func(commit func(g uintptr) bool) {
		x.preCommit = true
		x.yield() // the commit CAS is an atomic step of the algorithm
		x.preCommit = false
		if !commit(parkToken) {
			x.st.commitAborts++
			return
		}
		x.parked = true
		x.st.parks++
		sched.BlockOn(func() bool { return !x.parked })
	}
	sleep.VerifReady = func(g uintptr) {
		x.st.wakes++
		switch {
		case g == poisonToken:
			x.lateReady++ // judged in memCheck
		case g != parkToken:
			x.failf("goready:unknown-g", "goready(%#x): not the g of the fetching goroutine", g)
		case !x.parked:
			x.failf("goready:not-parked", "goready on the fetching goroutine although it is not parked (the runtime would crash: bad g status)")
		}
		if g == parkToken {
			x.parked = false
		}
	}
	// prologue: assertions that exist before anything is attached
	for _, w := range p.Pre {
		w := w
		x.op(0, HOp{K: KAssert, W: w}, func() int { x.ws[w].Assert(); return 0 })
	}
	return x
}

func clearHooks() {
	sleep.VerifYield, sleep.VerifPark, sleep.VerifReady = nil, nil, nil
}

// judge is the oracle of one controlled execution.
func (x *ctlExec) judge(r *sched.Result) *evid.Failure {
	x.st.steps, x.st.preemptions, x.st.histLen = r.Steps(), r.Preemptions, len(x.hist)
	if r.Panic != nil {
		return evid.Failf("panic", "goroutine g%d panicked: %v\nhistory:\n%s", r.PanicGid, r.Panic, HistString(x.hist))
	}
	if x.fail != nil {
		x.fail.Msg += "\nhistory:\n" + HistString(x.hist)
		return x.fail
	}
	if r.Pruned {
		x.st.pruned = true
		return nil
	}
	for i := range x.hist {
		o := &x.hist[i]
		if o.K == KDone && o.E != 0 {
			for j := range x.hist {
				a := &x.hist[j]
				if a.K == KAssert && a.B != 0 && a.B < o.E && (a.E == 0 || a.E > o.B) {
					x.st.doneOverlap = true
				}
			}
		}
		if (o.K == KFetch || o.K == KTryFetch) && o.E != 0 {
			if o.R >= 0 {
				x.st.fetchedSome++
			} else if o.R == RNone {
				x.st.tryNone++
			}
		}
	}
	if r.Deadlock {
		// Only the fetching goroutine can block (wakers never park).
		var pend *HOp
		for i := range x.hist {
			o := &x.hist[i]
			if o.E == 0 {
				if o.G != 0 || pend != nil {
					return evid.Failf("harness:deadlock-shape", "unexpected blocked operation %v\n%s", *o, HistString(x.hist))
				}
				pend = o
			}
		}
		if pend == nil || !x.parked {
			return evid.Failf("harness:deadlock-shape", "no enabled goroutine but the fetching goroutine is not parked\n%s", HistString(x.hist))
		}
		switch pend.K {
		case KDone:
			return evid.Failf("hang:done", "every waker goroutine has finished and s%d.Done() is parked for ever\nhistory:\n%s", pend.S, HistString(x.hist))
		case KFetch:
			lr := Linearize(x.hist, 0, false)
			if !lr.OK {
				return x.linFailure(&lr)
			}
			lr = Linearize(x.hist, 0, true)
			if !lr.OK {
				if rl := LinearizeRelaxed(x.hist, 0, true); rl.OK {
					// The completed operations are linearizable, and linearizable with
					// every flag clear at the end once a Fetch(false) is allowed to miss a
					// waker whose Assert was in flight: the strict search only "passed" by
					// ordering a Clear before that Fetch(false), which then leaves a later
					// Assert unconsumed. It is the in-flight-Assert deviation, not a lost
					// wake-up (the fetch is blocked rightly).
					x.st.knownDelegated = true
					return evid.Failf(sigInflightAssert+"tryfetch-missed-completed-assert(blocked-fetch-history)", "the history with the blocked s%d.Fetch(true) has no linearization that ends with every waker clear, but it has one if a Fetch(false) may miss a waker while another goroutine's Assert of that same waker is still in flight\nhistory:\n%s", pend.S, HistString(x.hist))
				}
				return evid.Failf("lost-wakeup", "every waker goroutine has finished, s%d.Fetch(true) is parked for ever, and in every linearization of the completed operations some waker is left asserted (flags %#b in the best attempt)\nhistory:\n%s", pend.S, lr.Flags, HistString(x.hist))
			}
			x.st.benignBlock = true
			return x.memCheck()
		default:
			return evid.Failf("hang:"+pend.K, "operation %v is parked for ever\n%s", *pend, HistString(x.hist))
		}
	}
	lr := Linearize(x.hist, 0, false)
	if !lr.OK {
		f := x.linFailure(&lr)
		if x.st.knownDelegated {
			// a classified failure must not hide a different one in the same execution
			if m := x.memCheck(); m != nil && !x.st.lateProbe {
				return m
			}
		}
		return f
	}
	return x.memCheck()
}

func (x *ctlExec) linFailure(lr *LinResult) *evid.Failure {
	sig := "lin:" + stuckSig(lr)
	why := ""
	if rl := LinearizeRelaxed(x.hist, 0, false); rl.OK {
		sig = sigInflightAssert + stuckSig(lr)
		x.st.knownDelegated = true
		why = "\n(classification: the history becomes linearizable if a Fetch(false) may miss a waker while another goroutine's Assert of that same waker is still in flight)"
	}
	var stuck string
	for _, o := range lr.Stuck {
		stuck += "\n    " + o.String()
	}
	return evid.Failf(sig, "history is not linearizable against the flag specification: after placing %d operations (flags %#b) none of the next operations is allowed:%s%s\nhistory:\n%s",
		lr.StuckAt, lr.Flags, stuck, why, HistString(x.hist))
}

// memCheck: after Done returned nobody may touch the sleeper. A write shows
// as a changed word. A read of waitingG shows because the word was poisoned
// with a non-zero g: the late reader then "wakes" that g (CAS to 0 and
// goready(poisonToken)), which on the real, unpoisoned memory would have been
// a read of 0 and nothing else. That one pattern gets its own signature.
func (x *ctlExec) memCheck() *evid.Failure {
	for k := 0; k < 2; k++ {
		if x.snap[k] == nil {
			continue
		}
		now := sleeperWords(x.sl[k])
		var diff []int
		for i := range now {
			if now[i] != x.snap[k][i] {
				diff = append(diff, i)
			}
		}
		if len(diff) == 0 {
			continue
		}
		wg := waitingGOffset / int(unsafe.Sizeof(uintptr(0)))
		if len(diff) == 1 && waitingGOffset >= 0 && diff[0] == wg && x.snap[k][wg] == poisonToken && now[wg] == 0 && x.lateReady > 0 {
			x.st.lateProbe = true
			return evid.Failf(sigLateProbe, "after s%d.Done() had returned, a waker goroutine that was still inside Assert (its assertion had already been fetched, so Done did not wait for it) loaded the retired sleeper's waitingG in enqueueAssertedWaker's wake-up loop; the harness had poisoned that word with a non-zero g, which the waker then cleared and passed to goready. On unpoisoned memory this is a read of 0 from a sleeper that Done has released (harmless only while the memory is neither reused nor freed)\nhistory:\n%s", k, HistString(x.hist))
		}
		i := diff[0]
		return evid.Failf("after-done:sleeper-written", "word %d of sleeper s%d changed from %#x to %#x after its Done() had returned (words changed: %v; goready on the poisoned g: %d): a waker still used the sleeper\nhistory:\n%s",
			i, k, x.snap[k][i], now[i], diff, x.lateReady, HistString(x.hist))
	}
	if x.lateReady > 0 {
		return evid.Failf("after-done:goready", "goready was called with the g that the harness stored in a retired sleeper\nhistory:\n%s", HistString(x.hist))
	}
	return nil
}

// runCtl executes the program once under the chooser and judges it.
func runCtl(p *Prog, maxSteps int, mkChoose func(x *ctlExec) sched.Chooser) (*evid.Failure, *ctlStats, *sched.Result) {
	x := newCtlExec(p)
	defer clearHooks()
	r := sched.Run(x.bodies(), sched.Options{MaxSteps: maxSteps}, mkChoose(x))
	f := x.judge(&r)
	return f, &x.st, &r
}

// Case is the replayable form of one controlled execution.
type Case struct {
	Prog    Prog  `json:"prog"`
	Choices []int `json:"choices"` // canonical choice indexes (sched.Replay); 0 past the end
	// AtCommit overrides Choices at the steps where the fetching goroutine stands
	// in front of its commit CAS (after it stored preparingG and re-checked the
	// shared list): the k-th such decision takes alternative AtCommit[k] (mod the
	// number of alternatives). This aims pre-emptions at the prepare/commit window.
	AtCommit []int `json:"at_commit,omitempty"`
	MaxSteps int   `json:"max_steps"`
}

func runCase(c Case) *evid.Failure {
	if !c.Prog.Valid() || c.MaxSteps <= 0 || c.MaxSteps > 100000 {
		evid.Label("ctl_invalid_case_skipped")
		return nil
	}
	f, st, r := runCtl(&c.Prog, c.MaxSteps, func(x *ctlExec) sched.Chooser {
		base := sched.Replay(c.Choices)
		k := 0
		return func(step int, alts []int, defIsCur bool) int {
			if x.preCommit && defIsCur && alts[0] == 0 && k < len(c.AtCommit) {
				k++
				return c.AtCommit[k-1] % len(alts)
			}
			return base(step, alts, defIsCur)
		}
	})
	a := newAgg()
	account(a, &c.Prog, st, r, true)
	a.flush()
	return f
}

// agg accumulates class counters locally (the enumerator runs millions of
// executions; evid's counters take a lock) and flushes them to evid.
type agg struct {
	n      map[string]int64
	pruned int64
	nt     int64
}

func newAgg() *agg { return &agg{n: map[string]int64{}} }

func (a *agg) flush() {
	for k, v := range a.n {
		evid.LabelN(k, v)
	}
	for i := int64(0); i < a.pruned; i++ {
		evid.Exclude("ctl_execution_pruned_at_step_cap(unfair schedule; not judged)")
	}
	evid.DistinctByConstruction(a.nt)
	a.n, a.pruned, a.nt = map[string]int64{}, 0, 0
}

var preLabels = [...]string{"ctl_preemptions=0", "ctl_preemptions=1", "ctl_preemptions=2", "ctl_preemptions=3", "ctl_preemptions=4", "ctl_preemptions=5", "ctl_preemptions>=6"}

// account feeds the class histograms. Non-trivial (DESIGN C19 NT): an assert
// landed between the sleeper's preparingG store and its commit (observed as a
// failed commit), or Done overlapped an Assert. hashNT: count distinct
// non-trivial executions by hash of (program, schedule) instead of by
// construction (rapid may draw the same case twice).
func account(a *agg, p *Prog, st *ctlStats, r *sched.Result, hashNT bool) {
	if st.pruned {
		a.pruned++
		return
	}
	a.n["ctl_steps"] += int64(st.steps)
	a.n["ctl_executions_judged"]++
	if st.benignBlock {
		a.n["ctl_exec_fetch_blocked_rightly(no assertion left)"]++
	}
	if st.commitAborts > 0 {
		a.n["ctl_exec_assert_between_prepare_and_commit(commit aborted)"]++
	}
	if st.parks > 0 {
		a.n["ctl_exec_sleeper_parked"]++
	}
	if st.wakes > 0 {
		a.n["ctl_exec_goready"]++
	}
	if st.doneOverlap {
		a.n["ctl_exec_done_overlaps_assert"]++
	}
	if st.fetchedSome > 0 {
		a.n["ctl_exec_fetch_returned_id"]++
	}
	if st.tryNone > 0 {
		a.n["ctl_exec_tryfetch_none"]++
	}
	if st.knownDelegated {
		a.n["ctl_exec_inflight_assert_anomaly"]++
	}
	if st.lateProbe {
		a.n["ctl_exec_late_waitingG_probe_after_done"]++
	}
	a.n[preLabels[min(st.preemptions, 6)]]++
	if st.commitAborts > 0 || st.doneOverlap {
		if hashNT {
			evid.NonTrivialKey("ctl", p.String(), fmt.Sprint(r.Choices))
		} else {
			a.nt++
		}
	}
}
