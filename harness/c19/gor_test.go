package c19

import (
	"runtime"
	"strings"
)

// curGID returns the id of the calling goroutine ("goroutine N [running]:").
func curGID() int64 {
	var buf [64]byte
	n := runtime.Stack(buf[:], false)
	const p = "goroutine "
	if n <= len(p) || string(buf[:len(p)]) != p {
		return -1
	}
	var id int64
	for i := len(p); i < n; i++ {
		ch := buf[i]
		if ch < '0' || ch > '9' {
			break
		}
		id = id*10 + int64(ch-'0')
	}
	return id
}

type gInfo struct {
	id    int64
	state string // wait reason without the ", N minutes" suffix
	stack string
}

// allGoroutines takes a stop-the-world snapshot of all goroutines.
func allGoroutines() []gInfo {
	buf := make([]byte, 1<<18)
	for {
		n := runtime.Stack(buf, true)
		if n < len(buf) {
			buf = buf[:n]
			break
		}
		buf = make([]byte, 2*len(buf))
	}
	var out []gInfo
	for _, blk := range strings.Split(string(buf), "\n\n") {
		blk = strings.TrimLeft(blk, "\n")
		if !strings.HasPrefix(blk, "goroutine ") {
			continue
		}
		hdr := blk
		if i := strings.IndexByte(blk, '\n'); i >= 0 {
			hdr = blk[:i]
		}
		var g gInfo
		rest := hdr[len("goroutine "):]
		i := 0
		for i < len(rest) && rest[i] >= '0' && rest[i] <= '9' {
			g.id = g.id*10 + int64(rest[i]-'0')
			i++
		}
		if a := strings.IndexByte(rest, '['); a >= 0 {
			if b := strings.IndexByte(rest[a:], ']'); b >= 0 {
				st := rest[a+1 : a+b]
				if c := strings.IndexByte(st, ','); c >= 0 {
					st = st[:c]
				}
				g.state = st
			}
		}
		g.stack = blk
		out = append(out, g)
	}
	return out
}
