package c19

import (
	"encoding/json"
	"os"
	"path/filepath"
	"strings"
)

// Signatures of the two deviations of the unchanged tree (see plan.json).
const (
	sigInflightAssert = "lin-inflight-assert:"
	sigLateProbe      = "after-done:late-waitingG-probe"
)

// knownListed reports whether /verif/KNOWN_FINDINGS.json lists an unrepaired
// ("known") C19 finding whose signature prefix covers sig. Used where a class
// has to be excluded BY CONSTRUCTION (stress mode cannot tell which word of a
// retired sleeper the race detector complained about).
func knownListed(sig string) bool {
	dir := os.Getenv("VERIF_DIR")
	if dir == "" {
		dir = "/verif"
	}
	b, err := os.ReadFile(filepath.Join(dir, "KNOWN_FINDINGS.json"))
	if err != nil {
		return false
	}
	var f struct {
		Findings []struct {
			Property, Status, Sig string
		} `json:"findings"`
	}
	if json.Unmarshal(b, &f) != nil {
		return false
	}
	for _, k := range f.Findings {
		if k.Property == "C19" && k.Status == "known" && k.Sig != "" && strings.HasPrefix(sig, k.Sig) {
			return true
		}
	}
	return false
}
