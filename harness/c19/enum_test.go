package c19

import (
	"fmt"
	"testing"

	"pgregory.net/rapid"
	"verifharness/evid"
	"verifharness/sched"
)

// wakerScripts: every script of 1-2 operations on one waker that is not a
// pure repetition of a read.
var wakerScripts = []string{"a", "c", "i", "aa", "ac", "ca", "ai", "ia"}

// fetchVariant is what the fetching goroutine does.
type fetchVariant struct {
	pre      []int
	fetch    string
	reattach bool
	fetch2   string
}

var fetchVariants = []fetchVariant{
	{fetch: "b"},
	{fetch: "n"},
	{fetch: "nb"},
	{fetch: "bn"},
	{fetch: "bb"},
	{fetch: ""},
	{fetch: "b", reattach: true, fetch2: "n"},
	{fetch: "", reattach: true, fetch2: "b"},
	{pre: []int{0}, fetch: "bn"},
}

func split(s string) []string {
	out := make([]string, 0, len(s))
	for _, c := range s {
		out = append(out, string(c))
	}
	return out
}

// smallPrograms enumerates, up to symmetry, every program of k waker
// goroutines (each a script of wakerScripts on ONE waker; goroutines may share
// a waker) x fetchVariants that contains at least one Assert.
func smallPrograms(k int) []Prog {
	var assigns [][]int
	switch k {
	case 1:
		assigns = [][]int{{0}}
	case 2:
		assigns = [][]int{{0, 0}, {0, 1}}
	case 3:
		assigns = [][]int{{0, 0, 0}, {0, 0, 1}, {0, 1, 2}}
	}
	var out []Prog
	for _, as := range assigns {
		nw := as[len(as)-1] + 1
		idx := make([]int, k)
		var rec func(g int)
		rec = func(g int) {
			if g == k {
				for _, fv := range fetchVariants {
					hasAssert := len(fv.pre) > 0
					p := Prog{NW: nw, Pre: fv.pre, Fetch: split(fv.fetch), Reattach: fv.reattach, Fetch2: split(fv.fetch2)}
					for gi, si := range idx {
						var s []WOp
						for _, c := range wakerScripts[si] {
							s = append(s, WOp{K: string(c), W: as[gi]})
							if c == 'a' {
								hasAssert = true
							}
						}
						p.Wakers = append(p.Wakers, s)
					}
					if hasAssert {
						out = append(out, p)
					}
				}
				return
			}
			lo := 0
			// symmetry: goroutines in the same role are interchangeable. Goroutines
			// on the same waker always are; goroutines on different wakers are when
			// all wakers have exactly one goroutine.
			if g > 0 && (as[g] == as[g-1] || nw == k) {
				lo = idx[g-1]
			}
			for i := lo; i < len(wakerScripts); i++ {
				idx[g] = i
				rec(g + 1)
			}
		}
		rec(0)
	}
	return out
}

const ctlStepCap = 400

// exploreProgram runs the pre-emption-bounded DFS over one program. It returns
// false if a violation was reported.
func exploreProgram(t *testing.T, p *Prog, maxPre int, a *agg) (sched.Stats, bool) {
	var x *ctlExec
	ok := true
	known := 0
	st := sched.Explore(sched.ExploreCfg{Opts: sched.Options{MaxSteps: ctlStepCap}, MaxPreempt: maxPre},
		func() []func() { x = newCtlExec(p); return x.bodies() },
		func(r *sched.Result) bool {
			f := x.judge(r)
			account(a, p, &x.st, r, false)
			if f != nil {
				c := Case{Prog: *p, Choices: append([]int(nil), r.Choices...), MaxSteps: ctlStepCap}
				if evid.Direct(t, "ctl", f, c) {
					ok = false
					return false
				}
				known++
			}
			return true
		})
	clearHooks()
	if known > 0 {
		a.n["ctl_exec_failing_only_by_known_finding"] += int64(known)
	}
	return st, ok
}

// TestCtlEnumerate: DFS with a pre-emption bound over the small programs.
func TestCtlEnumerate(t *testing.T) {
	if evid.ReplayMode() {
		t.Skip("replays of check ctl are hosted by TestCtlRandom")
	}
	type scope struct {
		k, maxPre int
		oneIn     int // 1 = every program; n = a seed-dependent 1-in-n sample
	}
	scopes := evid.Pick(
		[]scope{{1, 3, 1}, {2, 2, 1}, {3, 2, 120}},
		[]scope{{1, 4, 1}, {2, 3, 1}, {3, 2, 6}, {3, 3, 200}})
	a := newAgg()
	job := 0
	for _, sc := range scopes {
		progs := smallPrograms(sc.k)
		var runs, nprog int64
		complete := true
		for pi := range progs {
			p := &progs[pi]
			if sc.oneIn > 1 && evid.Hash64("c19-sample", evid.Seed, sc.k, sc.maxPre, pi)%uint64(sc.oneIn) != 0 {
				continue
			}
			job++
			if job%evid.NShards != evid.ShardIdx {
				continue
			}
			st, ok := exploreProgram(t, p, sc.maxPre, a)
			evid.Eval(st.Runs)
			runs += st.Runs
			nprog++
			if st.Truncated {
				complete = false
			}
			if pi%97 == 0 {
				evid.Sample(fmt.Sprintf("enumerated-program(k=%d,preemptions<=%d)", sc.k, sc.maxPre), map[string]any{"prog": p, "schedules": st.Runs, "deadlocks(fetch blocked)": st.Deadlocks})
			}
			a.flush()
			if !ok {
				return
			}
		}
		evid.LabelN(fmt.Sprintf("ctl_programs(k=%d,preemptions<=%d)", sc.k, sc.maxPre), nprog)
		evid.LabelN(fmt.Sprintf("ctl_schedules(k=%d,preemptions<=%d)", sc.k, sc.maxPre), runs)
		if complete && sc.oneIn == 1 {
			evid.Exhaustive(fmt.Sprintf("all schedules with <= %d pre-emptions (one schedule point per atomic operation; step cap %d, capped executions counted as excluded) of all %d programs with %d waker goroutine(s) x scripts %v on one waker each (shared or own) x %d fetch-side variants",
				sc.maxPre, ctlStepCap, len(progs), sc.k, wakerScripts, len(fetchVariants)))
		}
	}
}

// genCase draws a larger program and a schedule (choice sequence).
func genCase(rt *rapid.T) Case {
	var p Prog
	p.NW = rapid.IntRange(1, 8).Draw(rt, "nw")
	ng := rapid.IntRange(1, 8).Draw(rt, "goroutines")
	own := rapid.IntRange(0, 2).Draw(rt, "ownership") // 0: goroutine g only touches waker g mod nw; else any waker
	for g := 0; g < ng; g++ {
		n := rapid.IntRange(1, 6).Draw(rt, "wops")
		var s []WOp
		for i := 0; i < n; i++ {
			w := g % p.NW
			if own != 0 {
				w = rapid.IntRange(0, p.NW-1).Draw(rt, "w")
			}
			k := rapid.SampledFrom([]string{"a", "a", "a", "c", "i"}).Draw(rt, "k")
			s = append(s, WOp{K: k, W: w})
		}
		p.Wakers = append(p.Wakers, s)
	}
	if rapid.IntRange(0, 3).Draw(rt, "pre") == 0 {
		p.Pre = []int{rapid.IntRange(0, p.NW-1).Draw(rt, "prew")}
	}
	fs0 := func(label string) []string {
		return rapid.SliceOfN(rapid.SampledFrom([]string{"b", "b", "n"}), 0, 8).Draw(rt, label)
	}
	nAssert := len(p.Pre)
	for _, s := range p.Wakers {
		for _, o := range s {
			if o.K == "a" {
				nAssert++
			}
		}
	}
	fs := func(label string) []string {
		raw := fs0(label)
		var out []string
		for _, f := range raw { // a blocking fetch per possible assertion at most (it may still block rightly)
			if f == "b" {
				if nAssert == 0 {
					continue
				}
				nAssert--
			}
			out = append(out, f)
		}
		return out
	}
	p.Fetch = fs("fetch")
	p.Reattach = rapid.Bool().Draw(rt, "reattach")
	if p.Reattach {
		p.Fetch2 = fs("fetch2")
	}
	ch := rapid.SliceOfN(rapid.OneOf(rapid.Just(0), rapid.Just(0), rapid.Just(0), rapid.IntRange(0, 8)), 0, 250).Draw(rt, "choices")
	ac := rapid.SliceOfN(rapid.IntRange(0, 8), 0, 6).Draw(rt, "at_commit")
	return Case{Prog: p, Choices: ch, AtCommit: ac, MaxSteps: 3000}
}

// TestCtlRandom: rapid draws program + schedule; it also hosts the replays of
// every controlled-mode failure (check "ctl").
func TestCtlRandom(t *testing.T) {
	evid.Run(t, evid.Spec[Case]{Name: "ctl", Gen: genCase, Run: runCase})
}
