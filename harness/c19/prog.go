package c19

import (
	"fmt"
	"strings"
)

// WOp is one operation of a waker goroutine: K is "a" (Assert), "c" (Clear),
// "i" (IsAsserted), "y" (stress mode only: runtime.Gosched); W the waker index.
type WOp struct {
	K string `json:"k"`
	W int    `json:"w"`
}

// Prog is one test program: a fetching goroutine that owns the sleeper(s) and
// 1-8 waker goroutines.
//
// The fetching goroutine: asserts the wakers listed in Pre (before anything
// is attached and before any other goroutine runs), attaches wakers 0..NW-1 to
// sleeper 0 with AddWaker, runs script Fetch ("b" = Fetch(true), "n" =
// Fetch(false), "y" = runtime.Gosched in stress mode, nothing in controlled
// mode), calls Done; if Reattach, it then attaches the same wakers to
// sleeper 1, runs Fetch2 and calls Done on it.
type Prog struct {
	NW       int      `json:"nw"`
	Pre      []int    `json:"pre,omitempty"`
	Fetch    []string `json:"fetch"`
	Reattach bool     `json:"reattach,omitempty"`
	Fetch2   []string `json:"fetch2,omitempty"`
	Wakers   [][]WOp  `json:"wakers"`
}

func (p *Prog) String() string {
	var b strings.Builder
	fmt.Fprintf(&b, "nw=%d pre=%v fetch=%s", p.NW, p.Pre, strings.Join(p.Fetch, ""))
	if p.Reattach {
		fmt.Fprintf(&b, " reattach fetch2=%s", strings.Join(p.Fetch2, ""))
	}
	for g, s := range p.Wakers {
		fmt.Fprintf(&b, " | g%d:", g+1)
		for _, o := range s {
			fmt.Fprintf(&b, " %s%d", o.K, o.W)
		}
	}
	return b.String()
}

// Valid reports whether the program is well-formed (replay files are data).
func (p *Prog) Valid() bool {
	if p.NW < 1 || p.NW > 9 || len(p.Wakers) < 1 || len(p.Wakers) > 8 {
		return false
	}
	okf := func(fs []string) bool {
		for _, f := range fs {
			if f != "b" && f != "n" && f != "y" {
				return false
			}
		}
		return len(fs) <= 64
	}
	if !okf(p.Fetch) || !okf(p.Fetch2) {
		return false
	}
	for _, w := range p.Pre {
		if w < 0 || w >= p.NW {
			return false
		}
	}
	for _, s := range p.Wakers {
		if len(s) > 200 {
			return false
		}
		for _, o := range s {
			if o.W < 0 || o.W >= p.NW {
				return false
			}
			switch o.K {
			case "a", "c", "i", "y":
			default:
				return false
			}
		}
	}
	return true
}

// sharedAssert reports whether some waker is asserted by two different
// goroutines (the fetching goroutine's Pre asserts happen before the others
// start and do not count).
func (p *Prog) sharedAssert() bool {
	by := map[int]int{}
	for g, s := range p.Wakers {
		for _, o := range s {
			if o.K != "a" {
				continue
			}
			if h, ok := by[o.W]; ok && h != g {
				return true
			}
			by[o.W] = g
		}
	}
	return false
}

// The ids handed to AddWaker: distinct per waker and per sleeper, and never a
// small integer, so that a mixed-up id is recognisable.
func wakerID(sleeper, w int) int { return 100*(sleeper+1) + 7*w + 3 }

func wakerOfID(sleeper, nw, id int) int {
	for w := 0; w < nw; w++ {
		if wakerID(sleeper, w) == id {
			return w
		}
	}
	return RInvented
}
