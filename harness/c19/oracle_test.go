package c19

import "testing"

// TestOracleSelf feeds hand-written histories to the linearizability search: a
// harness self-test (a failure here is a harness bug, never a verdict).
func TestOracleSelf(t *testing.T) {
	a := func(g, w int, b, e int64) HOp { return HOp{G: g, K: KAssert, W: w, B: b, E: e} }
	c := func(g, w, r int, b, e int64) HOp { return HOp{G: g, K: KClear, W: w, R: r, B: b, E: e} }
	i := func(g, w, r int, b, e int64) HOp { return HOp{G: g, K: KIsAssert, W: w, R: r, B: b, E: e} }
	f := func(r int, b, e int64) HOp { return HOp{G: 0, K: KFetch, R: r, B: b, E: e} }
	n := func(r int, b, e int64) HOp { return HOp{G: 0, K: KTryFetch, R: r, B: b, E: e} }
	cases := []struct {
		name       string
		h          []HOp
		finalClear bool
		want       bool
		relaxed    bool // verdict of LinearizeRelaxed when want == false
	}{
		{"fetch-after-assert", []HOp{a(1, 0, 1, 2), f(0, 3, 4)}, false, true, false},
		{"fetch-without-assert", []HOp{f(0, 1, 2)}, false, false, false},
		{"fetch-concurrent-assert", []HOp{f(0, 1, 4), a(1, 0, 2, 3)}, false, true, false},
		{"fetch-before-assert-began", []HOp{f(0, 1, 2), a(1, 0, 3, 4)}, false, false, false},
		{"asserts-collapse", []HOp{a(1, 0, 1, 2), a(1, 0, 3, 4), f(0, 5, 6), n(RNone, 7, 8)}, false, true, false},
		{"one-assert-two-fetches", []HOp{a(1, 0, 1, 2), f(0, 3, 4), n(0, 5, 6)}, false, false, false},
		{"tryfetch-none-misses", []HOp{a(1, 0, 1, 2), n(RNone, 3, 4)}, false, false, false},
		{"tryfetch-none-concurrent", []HOp{a(1, 0, 1, 4), n(RNone, 2, 3)}, false, true, false},
		{"clear-true-then-none", []HOp{a(1, 0, 1, 2), c(2, 0, 1, 3, 4), n(RNone, 5, 6)}, false, true, false},
		{"clear-false-while-set", []HOp{a(1, 0, 1, 2), c(2, 0, 0, 3, 4)}, false, false, false},
		{"fetch-cleared-waker", []HOp{a(1, 0, 1, 2), c(1, 0, 1, 3, 4), f(0, 5, 6)}, false, false, false},
		{"isasserted-then-none(inflight)", []HOp{a(1, 0, 1, 6), i(2, 0, 1, 2, 3), n(RNone, 4, 5)}, false, false, true},
		{"early-return-assert-then-none(inflight)", []HOp{a(1, 0, 1, 6), a(2, 0, 2, 3), n(RNone, 4, 5)}, false, false, true},
		{"wrong-waker", []HOp{a(1, 1, 1, 2), f(0, 3, 4)}, false, false, false},
		{"invented-id", []HOp{a(1, 0, 1, 2), f(RInvented, 3, 4)}, false, false, false},
		{"blocking-fetch-none", []HOp{f(RNone, 1, 2)}, false, false, false},
		{"blocked-rightly", []HOp{a(1, 0, 1, 2), f(0, 3, 4), {G: 0, K: KFetch, B: 5}}, true, true, false},
		{"blocked-wrongly", []HOp{a(1, 0, 1, 2), {G: 0, K: KFetch, B: 3}}, true, false, false},
		{"blocked-cleared", []HOp{a(1, 0, 1, 2), c(1, 0, 1, 3, 4), {G: 0, K: KFetch, B: 5}}, true, true, false},
	}
	for _, tc := range cases {
		got := Linearize(append([]HOp(nil), tc.h...), 0, tc.finalClear)
		if got.OK != tc.want {
			t.Errorf("oracle self-test %s: linearizable=%v, want %v", tc.name, got.OK, tc.want)
		}
		if !tc.want && !tc.finalClear {
			if r := LinearizeRelaxed(append([]HOp(nil), tc.h...), 0, false); r.OK != tc.relaxed {
				t.Errorf("oracle self-test %s: relaxed classification=%v, want %v", tc.name, r.OK, tc.relaxed)
			}
		}
	}
}
