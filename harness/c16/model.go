// Package c16 decides property C16 (buffer views behave like the byte string
// they represent) by comparing pkg/buffer against a plain []byte model over
// enumerated and generated operation sequences.
package c16

import (
	"bytes"
	"fmt"

	"github.com/brewlin/net-protocol/pkg/buffer"
	"verifharness/evid"
)

// Op is one operation on the "current" vectorised view.
type Op struct {
	K string `json:"k"` // tf, cl, rf, clone, cloneSwitch, first, toview
	N int    `json:"n"` // count for tf/cl; capacity of the provided buffer for clone (-1 = nil)
}

// Case is one operation sequence over one chunking of one content.
type Case struct {
	Chunks []int `json:"chunks"` // chunk lengths (0 allowed; -1 = an empty chunk that is a nil View); content is 1,2,3,...
	Ops    []Op  `json:"ops"`
}

type obj struct {
	vv     buffer.VectorisedView
	shadow []byte
}

const poison = 0xEE

// build lays the content out in one backing array, every chunk followed by
// poison bytes that stay reachable through the chunk's capacity, so that a
// two-index cap (or an over-long read) becomes visible.
func build(chunks []int) (buffer.VectorisedView, []byte) {
	total := 0
	for _, c := range chunks {
		if c > 0 {
			total += c
		}
	}
	back := make([]byte, 0, total+4*len(chunks)+4)
	views := make([]buffer.View, 0, len(chunks))
	var shadow []byte
	next := byte(1)
	for _, c := range chunks {
		if c < 0 {
			// an empty chunk may just as well be a nil View (View(nil), NewViewFromBytes(nil))
			views = append(views, nil)
			continue
		}
		st := len(back)
		for i := 0; i < c; i++ {
			back = append(back, next)
			shadow = append(shadow, next)
			next++
			if next == poison {
				next++
			}
		}
		back = append(back, poison, poison, poison, poison)
		views = append(views, buffer.View(back[st:st+c:cap(back)]))
	}
	return buffer.NewVectorisedView(total, views), shadow
}

func checkObj(where string, o *obj) *evid.Failure {
	if o.vv.Size() != len(o.shadow) {
		return evid.Failf("size", "%s: Size()=%d, model %d", where, o.vv.Size(), len(o.shadow))
	}
	sum := 0
	for _, v := range o.vv.Views() {
		sum += len(v)
	}
	if sum != len(o.shadow) {
		return evid.Failf("chunksum", "%s: chunks sum to %d, model size %d", where, sum, len(o.shadow))
	}
	if got := o.vv.ToView(); !bytes.Equal(got, o.shadow) {
		return evid.Failf("content", "%s: ToView()=%v, model %v", where, []byte(got), o.shadow)
	}
	f := o.vv.First()
	vs := o.vv.Views()
	if len(vs) == 0 {
		if f != nil {
			return evid.Failf("first", "%s: First() non-nil on chunkless view", where)
		}
	} else if len(f) != len(vs[0]) || (len(f) > 0 && &f[0] != &vs[0][0]) {
		return evid.Failf("first", "%s: First() is not the first chunk", where)
	}
	return nil
}

// RunCase executes the sequence against pkg/buffer and the model.
func RunCase(c Case) (nontrivial bool, fail *evid.Failure) {
	// every operation here is a few slice operations: a case that does not
	// return is a violation (evid's watchdog reports it with the case)
	evid.WatchBegin("vv", &c)
	defer evid.WatchEnd()
	vv, shadow := build(c.Chunks)
	cur := &obj{vv: vv, shadow: shadow}
	all := []*obj{cur}
	if f := checkObj("initial", cur); f != nil {
		return false, f
	}
	mutating, afterClone, cloned := 0, false, false
	for i, op := range c.Ops {
		where := fmt.Sprintf("step %d %s(%d)", i, op.K, op.N)
		switch op.K {
		case "tf":
			cur.vv.TrimFront(op.N)
			n := op.N
			if n < 0 {
				n = 0
			}
			if n > len(cur.shadow) {
				n = len(cur.shadow)
			}
			cur.shadow = cur.shadow[n:]
			mutating++
			afterClone = afterClone || cloned
		case "cl":
			before := len(cur.shadow)
			cur.vv.CapLength(op.N)
			n := op.N
			if n < 0 {
				n = 0
			}
			if n <= len(cur.shadow) {
				cur.shadow = cur.shadow[:n]
			}
			mutating++
			afterClone = afterClone || cloned
			// the cut chunk must not be re-extensible beyond the cap
			if n > 0 && n < before {
				vs := cur.vv.Views()
				if len(vs) == 0 {
					return false, evid.Failf("cap-chunks", "%s: no chunk left after cap to %d", where, n)
				}
				last := vs[len(vs)-1]
				if cap(last) != len(last) {
					return false, evid.Failf("cap-reextend", "%s: last chunk has len %d cap %d: re-slicing exposes %v", where, len(last), cap(last), []byte(last[:cap(last)]))
				}
			}
		case "rf":
			vs := cur.vv.Views()
			n := 0
			if len(vs) > 0 {
				n = len(vs[0])
			}
			cur.vv.RemoveFirst()
			cur.shadow = cur.shadow[n:]
			if len(vs) > 0 && len(cur.vv.Views()) != len(vs)-1 {
				return false, evid.Failf("removefirst", "%s: chunk count %d -> %d", where, len(vs), len(cur.vv.Views()))
			}
			mutating++
			afterClone = afterClone || cloned
		case "clone", "cloneSwitch":
			var buf []buffer.View
			if op.N >= 0 {
				buf = make([]buffer.View, op.N)
			}
			cl := &obj{vv: cur.vv.Clone(buf), shadow: cur.shadow}
			all = append(all, cl)
			cloned = true
			if op.K == "cloneSwitch" {
				cur = cl
			}
		case "first", "toview":
			// observers: covered by checkObj below
		default:
			panic("bad op " + op.K)
		}
		for j, o := range all {
			if f := checkObj(fmt.Sprintf("%s, object %d", where, j), o); f != nil {
				return false, f
			}
		}
	}
	return (mutating >= 2 && len(c.Chunks) >= 2) || afterClone, nil
}
