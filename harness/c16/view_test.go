package c16

import (
	"bytes"
	"fmt"
	"testing"

	"github.com/brewlin/net-protocol/pkg/buffer"
	"pgregory.net/rapid"
	"verifharness/evid"
)

// VCase: operations on a plain View and on a Prependable.
type VCase struct {
	Len   int   `json:"len"`   // View: content length. Prependable: capacity.
	FromV bool  `json:"fromv"` // Prependable built by NewPrependableFromView
	// FromV: the adopted view is a window of a larger buffer: Front bytes before
	// it (as after TrimFront) and Spare bytes of capacity behind it (as a prefix
	// slice of a receive buffer, or a view whose length was capped)
	Front int `json:"front,omitempty"`
	Spare int `json:"spare,omitempty"`
	Kinds []int `json:"kinds"` // 0 TrimFront, 1 CapLength, 2 NextBytes, 3 ToVectorisedView / Prepend
	Ns    []int `json:"ns"`
}

func runView(c VCase) *evid.Failure {
	back := make([]byte, c.Len+8)
	for i := range back {
		back[i] = poison
	}
	for i := 0; i < c.Len; i++ {
		back[i] = byte(i + 1)
	}
	v := buffer.View(back[:c.Len])
	shadow := append([]byte(nil), back[:c.Len]...)
	muts := 0
	for i, k := range c.Kinds {
		n := c.Ns[i]
		if n < 0 || n > len(shadow) {
			continue // callers' precondition: count within bounds (b[n:] semantics otherwise)
		}
		switch k {
		case 0:
			v.TrimFront(n)
			shadow = shadow[n:]
			muts++
		case 1:
			v.CapLength(n)
			shadow = shadow[:n]
			muts++
			if cap(v) != len(v) {
				return evid.Failf("view-cap-reextend", "step %d CapLength(%d): len %d cap %d", i, n, len(v), cap(v))
			}
		case 2:
			got := v.NextBytes(n)
			if !bytes.Equal(got, shadow[:n]) {
				return evid.Failf("view-nextbytes", "step %d NextBytes(%d)=%v want %v", i, n, got, shadow[:n])
			}
			shadow = shadow[n:]
			muts++
		case 3:
			vv := v.ToVectorisedView()
			if vv.Size() != len(shadow) || !bytes.Equal(vv.ToView(), shadow) {
				return evid.Failf("view-tovv", "step %d ToVectorisedView: size %d content %v, want %v", i, vv.Size(), []byte(vv.ToView()), shadow)
			}
		}
		if !bytes.Equal(v, shadow) {
			return evid.Failf("view-content", "step %d kind %d n %d: view %v model %v", i, k, n, []byte(v), shadow)
		}
	}
	if muts >= 2 {
		evid.NonTrivialKey("view", c.Len, fmt.Sprint(c.Kinds), fmt.Sprint(c.Ns))
		evid.Sample("view", c)
	}
	return nil
}

func runPrep(c VCase) *evid.Failure {
	var p buffer.Prependable
	var model []byte // used part
	free := c.Len
	var backing []byte
	if c.FromV {
		if c.Front < 0 || c.Spare < 0 || c.Front > 64 || c.Spare > 64 {
			return nil
		}
		backing = make([]byte, c.Front+c.Len+c.Spare)
		for i := range backing {
			backing[i] = poison
		}
		v := buffer.View(backing[c.Front : c.Front+c.Len])
		for i := range v {
			v[i] = byte(i + 1)
		}
		if c.Front+c.Spare > 0 {
			evid.Label("prependable:adopted-window-of-a-larger-buffer")
		}
		p = buffer.NewPrependableFromView(v)
		model = append([]byte(nil), v...)
		free = 0
	} else {
		p = buffer.NewPrependable(c.Len)
	}
	next := byte(100)
	refused, granted := 0, 0
	for i, n := range c.Ns {
		if n < 0 {
			continue
		}
		before := append([]byte(nil), p.View()...)
		w := p.Prepend(n)
		if n > free {
			if w != nil {
				return evid.Failf("prepend-overflow", "step %d Prepend(%d) with %d free returned %d bytes", i, n, free, len(w))
			}
			refused++
		} else {
			if w == nil && n > 0 {
				return evid.Failf("prepend-refused", "step %d Prepend(%d) with %d free returned nil", i, n, free)
			}
			if len(w) != n {
				return evid.Failf("prepend-len", "step %d Prepend(%d) returned %d bytes", i, n, len(w))
			}
			if n > 0 && cap(w) != n {
				return evid.Failf("prepend-cap", "step %d Prepend(%d): window cap %d lets the caller overwrite the used part", i, n, cap(w))
			}
			nb := make([]byte, n)
			for j := range nb {
				nb[j] = next
				next++
			}
			copy(w, nb)
			model = append(nb, model...)
			free -= n
			granted++
			// the previously used part must be unchanged and directly behind the window
			if got := p.View(); len(got) < len(before) || !bytes.Equal(got[len(got)-len(before):], before) {
				return evid.Failf("prepend-clobber", "step %d Prepend(%d): earlier content changed", i, n)
			}
		}
		if p.UsedLength() != len(model) {
			return evid.Failf("prepend-usedlength", "step %d: UsedLength %d model %d", i, p.UsedLength(), len(model))
		}
		if !bytes.Equal(p.View(), model) {
			return evid.Failf("prepend-view", "step %d: View %v model %v", i, []byte(p.View()), model)
		}
		for j, b := range backing {
			if (j < c.Front || j >= c.Front+c.Len) && b != poison {
				return evid.Failf("prepend-outside", "step %d Prepend(%d): byte %d of the buffer the adopted view is a window of was written (window [%d,%d))", i, n, j, c.Front, c.Front+c.Len)
			}
		}
	}
	if granted >= 2 || (granted >= 1 && refused >= 1) {
		evid.NonTrivialKey("prep", c.Len, c.FromV, fmt.Sprint(c.Ns))
		evid.Sample("prependable", c)
	}
	return nil
}

func genV(rt *rapid.T) VCase {
	c := VCase{Len: rapid.IntRange(0, 40).Draw(rt, "len")}
	n := rapid.IntRange(1, 8).Draw(rt, "nops")
	rem := c.Len
	for i := 0; i < n; i++ {
		k := rapid.IntRange(0, 3).Draw(rt, "kind")
		x := rapid.IntRange(0, rem).Draw(rt, "n")
		c.Kinds = append(c.Kinds, k)
		c.Ns = append(c.Ns, x)
		switch k {
		case 0, 2:
			rem -= x
		case 1:
			rem = x
		}
	}
	return c
}

func genP(rt *rapid.T) VCase {
	c := VCase{Len: rapid.IntRange(0, 64).Draw(rt, "cap"), FromV: rapid.IntRange(0, 5).Draw(rt, "fromv") == 0}
	if c.FromV {
		c.Front = rapid.SampledFrom([]int{0, 0, 1, 8, 20}).Draw(rt, "front")
		c.Spare = rapid.SampledFrom([]int{0, 1, 8, 44}).Draw(rt, "spare")
	}
	n := rapid.IntRange(1, 8).Draw(rt, "nops")
	for i := 0; i < n; i++ {
		c.Ns = append(c.Ns, rapid.OneOf(rapid.IntRange(0, 8), rapid.IntRange(0, c.Len+2)).Draw(rt, "k"))
	}
	return c
}

func TestViewRandom(t *testing.T) {
	evid.Run(t, evid.Spec[VCase]{Name: "view", Gen: genV, Run: runView})
}

func TestPrependableRandom(t *testing.T) {
	evid.Run(t, evid.Spec[VCase]{Name: "prependable", Gen: genP, Run: runPrep})
}

// TestPrependableExhaustive: every capacity 0..6 and every sequence of <=4
// Prepend sizes 0..cap+1.
func TestPrependableExhaustive(t *testing.T) {
	if evid.ReplayMode() {
		t.Skip()
	}
	if evid.ShardIdx != 0 {
		return
	}
	var evals int64
	for capa := 0; capa <= 6; capa++ {
		var ns []int
		var rec func(d int) bool
		rec = func(d int) bool {
			if d > 0 {
				c := VCase{Len: capa, Ns: append([]int(nil), ns...)}
				evals++
				if evid.Direct(t, "prependable", evid.Guard(func() *evid.Failure { return runPrep(c) }), c) {
					return false
				}
			}
			if d == 4 {
				return true
			}
			for k := 0; k <= capa+1; k++ {
				ns = append(ns, k)
				ok := rec(d + 1)
				ns = ns[:len(ns)-1]
				if !ok {
					return false
				}
			}
			return true
		}
		if !rec(0) {
			break
		}
	}
	evid.Eval(evals)
	evid.Exhaustive("Prependable: capacities 0..6, all sequences of <=4 Prepend sizes 0..cap+1")
}
