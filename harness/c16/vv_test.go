package c16

import (
	"fmt"
	"testing"

	"pgregory.net/rapid"
	"verifharness/evid"
)

// chunkings returns every way of splitting n content bytes into non-empty
// chunks, each additionally with one empty chunk (once as an empty slice, once
// as a nil View) inserted at the front, at the back, and after the first chunk.
func chunkings(n int) [][]int {
	var comps [][]int
	var rec func(rem int, cur []int)
	rec = func(rem int, cur []int) {
		if rem == 0 {
			comps = append(comps, append([]int(nil), cur...))
			return
		}
		for k := 1; k <= rem; k++ {
			rec(rem-k, append(cur, k))
		}
	}
	rec(n, nil)
	var out [][]int
	for _, c := range comps {
		out = append(out, c)
		out = append(out, append([]int{0}, c...))
		out = append(out, append(append([]int(nil), c...), 0))
		if len(c) >= 1 {
			m := append([]int{c[0], 0}, c[1:]...)
			out = append(out, m)
		}
		// the same with the empty chunk being a nil View
		out = append(out, append([]int{-1}, c...))
		out = append(out, append(append([]int(nil), c...), -1))
		if len(c) >= 1 {
			out = append(out, append([]int{c[0], -1}, c[1:]...))
		}
	}
	return out
}

func alphabet(maxN int) []Op {
	var a []Op
	for n := -1; n <= maxN+2; n++ {
		a = append(a, Op{"tf", n}, Op{"cl", n})
	}
	a = append(a, Op{"rf", 0}, Op{"clone", -1}, Op{"clone", 1}, Op{"cloneSwitch", -1}, Op{"cloneSwitch", 8})
	return a
}

// TestVVExhaustive enumerates every operation sequence up to a length bound
// over every chunking up to a content-size bound.
func TestVVExhaustive(t *testing.T) {
	if evid.ReplayMode() {
		t.Skip("replays of check vv are hosted by TestVVRandom")
	}
	type scope struct{ maxBytes, maxOps int }
	scopes := evid.Pick([]scope{{5, 3}, {3, 4}}, []scope{{5, 4}, {3, 5}})
	idx := 0
	for _, sc := range scopes {
		var evals, nts int64
		for n := 0; n <= sc.maxBytes; n++ {
			alpha := alphabet(n)
			for _, ch := range chunkings(n) {
				idx++
				if idx%evid.NShards != evid.ShardIdx {
					continue
				}
				ops := make([]Op, 0, sc.maxOps)
				var rec func(depth int) bool
				rec = func(depth int) bool {
					if depth > 0 {
						c := Case{Chunks: ch, Ops: ops}
						nt, f := RunCase(c)
						evals++
						if nt {
							nts++
							if nts%200000 == 1 {
								evid.Sample("exhaustive", Case{Chunks: append([]int(nil), ch...), Ops: append([]Op(nil), ops...)})
							}
						}
						if evid.Direct(t, "vv", f, c) {
							return false
						}
					}
					if depth == sc.maxOps {
						return true
					}
					for _, op := range alpha {
						ops = append(ops, op)
						ok := rec(depth + 1)
						ops = ops[:len(ops)-1]
						if !ok {
							return false
						}
					}
					return true
				}
				if !rec(0) {
					evid.Eval(evals)
					return
				}
			}
		}
		evid.Eval(evals)
		evid.DistinctByConstruction(nts)
		evid.LabelN(fmt.Sprintf("exhaustive_bytes<=%d_ops<=%d", sc.maxBytes, sc.maxOps), evals)
		evid.Exhaustive(fmt.Sprintf("VectorisedView: all op sequences of length<=%d over all chunkings (with empty chunks) of <=%d bytes", sc.maxOps, sc.maxBytes))
	}
}

func genVV(rt *rapid.T) Case {
	nch := rapid.IntRange(0, 6).Draw(rt, "nchunks")
	var c Case
	total := 0
	for i := 0; i < nch; i++ {
		l := rapid.OneOf(rapid.Just(0), rapid.Just(-1), rapid.IntRange(1, 4), rapid.IntRange(1, 24)).Draw(rt, "chunk")
		c.Chunks = append(c.Chunks, l)
		if l > 0 {
			total += l
		}
	}
	nops := rapid.IntRange(1, 12).Draw(rt, "nops")
	for i := 0; i < nops; i++ {
		k := rapid.SampledFrom([]string{"tf", "tf", "cl", "cl", "rf", "clone", "cloneSwitch"}).Draw(rt, "op")
		n := 0
		switch k {
		case "tf", "cl":
			n = rapid.OneOf(rapid.IntRange(-1, 5), rapid.IntRange(-1, total+2)).Draw(rt, "n")
		case "clone", "cloneSwitch":
			n = rapid.IntRange(-1, nch+2).Draw(rt, "bufcap")
		}
		c.Ops = append(c.Ops, Op{k, n})
	}
	return c
}

func runVV(c Case) *evid.Failure {
	nt, f := RunCase(c)
	if nt {
		evid.NonTrivialKey(fmt.Sprint(c.Chunks), fmt.Sprint(c.Ops))
		evid.Sample("random-vv", c)
	}
	return f
}

func TestVVRandom(t *testing.T) {
	evid.Run(t, evid.Spec[Case]{Name: "vv", Gen: genVV, Run: runVV})
}
