package rawpeer

import (
	"fmt"
	"time"

	tcpip "github.com/brewlin/net-protocol/protocol"
	"github.com/brewlin/net-protocol/protocol/network/ipv4"
	"github.com/brewlin/net-protocol/protocol/network/ipv6"
	"github.com/brewlin/net-protocol/protocol/transport/tcp"
	"github.com/brewlin/net-protocol/stack"
	"verifharness/netsim"
)

// Env is one stack on a tap, addressed A4/A6, with remote peers at B4/B6.
type Env struct {
	Tap   *netsim.Tap
	Stack *stack.Stack
	V6    bool
}

type EnvCfg struct {
	V6     bool   `json:"v6"`
	MTU    int    `json:"mtu"`
	SACK   bool   `json:"sack"`
	CC     string `json:"cc"`
	RcvBuf int    `json:"rcvbuf"`
	SndBuf int    `json:"sndbuf"`
	// Pad: 0 none; 46: injected packets are padded to the Ethernet minimum; other k>0: k trailing bytes
	Pad int `json:"pad,omitempty"`
}

func NewEnv(c EnvCfg) *Env {
	mtu := c.MTU
	if mtu == 0 {
		mtu = 1500
	}
	tap := netsim.NewTap(uint32(mtu))
	if c.Pad == 46 {
		tap.PadMin = 46
	} else if c.Pad > 0 {
		tap.PadIn = c.Pad
	}
	sack := c.SACK
	s := netsim.NewStack(tap, netsim.StackCfg{Addrs4: []tcpip.Address{netsim.A4}, Addrs6: []tcpip.Address{netsim.A6}, SACK: &sack, CC: c.CC, RcvBuf: c.RcvBuf, SndBuf: c.SndBuf})
	return &Env{Tap: tap, Stack: s, V6: c.V6}
}

func (e *Env) Net() tcpip.NetworkProtocolNumber {
	if e.V6 {
		return ipv6.ProtocolNumber
	}
	return ipv4.ProtocolNumber
}

func (e *Env) StackAddr() tcpip.Address {
	if e.V6 {
		return netsim.A6
	}
	return netsim.A4
}

func (e *Env) PeerAddr() tcpip.Address {
	if e.V6 {
		return netsim.B6
	}
	return netsim.B4
}

// Listen opens a TCP listener on the stack.
func (e *Env) Listen(port uint16, backlog int) (*netsim.Sock, error) {
	l, err := netsim.NewSock(e.Stack, tcp.ProtocolNumber, e.Net())
	if err != nil {
		return nil, fmt.Errorf("new endpoint: %v", err)
	}
	if err := l.EP.Bind(tcpip.FullAddress{Port: port}, nil); err != nil {
		return nil, fmt.Errorf("bind: %v", err)
	}
	if err := l.EP.Listen(backlog); err != nil {
		return nil, fmt.Errorf("listen: %v", err)
	}
	return l, nil
}

// Peer creates a scripted peer at (PeerAddr, peerPort) talking to (StackAddr, stackPort).
func (e *Env) Peer(stackPort, peerPort uint16, iss uint32) *Peer {
	return NewPeerFor(e.Tap, e.V6, e.StackAddr(), e.PeerAddr(), stackPort, peerPort, iss)
}

// Passive establishes a connection in which the stack is the passive side:
// listener on stackPort, scripted peer connects, Accept returns the socket.
func (e *Env) Passive(stackPort, peerPort uint16, iss uint32, o SynOpts, wnd uint16) (*netsim.Sock, *netsim.Sock, *Peer, error) {
	l, err := e.Listen(stackPort, 8)
	if err != nil {
		return nil, nil, nil, err
	}
	p := e.Peer(stackPort, peerPort, iss)
	p.Wnd = wnd
	if !p.Connect(o, 3*time.Second) {
		return l, nil, p, fmt.Errorf("no SYN-ACK")
	}
	s, aerr, ok := l.Accept(3 * time.Second)
	if !ok || aerr != nil {
		return l, nil, p, fmt.Errorf("accept: %v ok=%v", aerr, ok)
	}
	return l, s, p, nil
}

// Close lets the stack of a finished case be collected.
func (e *Env) Close() { netsim.ReleaseStack(e.Stack, e.Tap) }
