// Package rawpeer is a scripted TCP peer that talks to one stack through a
// netsim.Tap, building its segments with the independent codec. It keeps only
// the state a script needs and exposes the stack's emissions as decoded,
// timestamped frames.
package rawpeer

import (
	"time"

	tcpip "github.com/brewlin/net-protocol/protocol"
	"github.com/brewlin/net-protocol/protocol/network/ipv4"
	"github.com/brewlin/net-protocol/protocol/network/ipv6"
	"verifharness/codec"
	"verifharness/netsim"
)

// Peer is one remote TCP endpoint (address, port) talking to the stack's
// (address, port).
type Peer struct {
	Tap       *netsim.Tap
	V6        bool
	Addr      []byte // peer address
	StackAddr []byte
	Port      uint16 // peer port
	StackPort uint16
	ISS       uint32 // peer's initial sequence number
	IRS       uint32 // the stack's initial sequence number (learned)
	SndNxt    uint32
	RcvNxt    uint32
	Wnd       uint16 // window the peer advertises (unscaled field value)
	WS        int    // window scale the peer announced (-1: none)
	StackWS   int    // window scale the stack announced (-1: none)
	StackMSS  int    // MSS the stack announced (-1: none)
	StackTS   bool   // the stack sent a timestamp option on its SYN / SYN-ACK
	StackSACK bool
	TSVal     uint32 // peer's timestamp clock (if UseTS)
	TSEcr     uint32
	UseTS     bool
	Chunk     int // delivery chunking mode (netsim.ChunkLikeLink)
	Sent      []SentSeg
	Cur       int // index into the tap trace consumed so far
	// SynAckPayload rides on the SYN-ACK of AcceptActive (legal, RFC 793 p. 30);
	// SynAckTaken is how much of it the stack's handshake ACK acknowledged (a
	// receiver may take it or leave it to the retransmission)
	SynAckPayload []byte
	SynAckTaken   int
}

// SentSeg records a segment the peer injected.
type SentSeg struct {
	T   time.Time
	Seg codec.TCPSeg
}

// Send injects one TCP segment from the peer to the stack.
func (p *Peer) Send(s codec.TCPSeg) {
	s.SrcPort, s.DstPort = p.Port, p.StackPort
	if p.UseTS && s.Flags&codec.RST == 0 && s.Opts == nil {
		p.TSVal++
		s.Opts = append(append(codec.OptNOP(), codec.OptNOP()...), codec.OptTS(p.TSVal, p.TSEcr)...)
	}
	l4 := codec.BuildTCP(p.Addr, p.StackAddr, s)
	p.Sent = append(p.Sent, SentSeg{T: time.Now(), Seg: s})
	p.SendL4(codec.ProtoTCP, l4)
}

// SendL4 wraps a transport payload in IP and injects it.
func (p *Peer) SendL4(proto uint8, l4 []byte) {
	if p.V6 {
		b := codec.BuildIPv6(codec.IPv6Hdr{Src: p.Addr, Dst: p.StackAddr, NextHeader: proto}, l4)
		p.Tap.InjectViews(ipv6.ProtocolNumber, "", netsim.ChunkLikeLink(b, p.Chunk))
	} else {
		b := codec.BuildIPv4(codec.IPv4Hdr{Src: p.Addr, Dst: p.StackAddr, Proto: proto, ID: uint16(len(p.Sent))}, l4)
		p.Tap.InjectViews(ipv4.ProtocolNumber, "", netsim.ChunkLikeLink(b, p.Chunk))
	}
}

// Mine reports whether a frame emitted by the stack belongs to this peer's
// 4-tuple.
func (p *Peer) Mine(f netsim.Frame) bool {
	k := f.Pkt
	return k.L4Kind == "tcp" && k.SrcPort == p.StackPort && k.DstPort == p.Port && string(k.Dst) == string(p.Addr) && string(k.Src) == string(p.StackAddr)
}

// Next returns the next frame of this connection emitted by the stack.
func (p *Peer) Next(d time.Duration) (netsim.Frame, bool) {
	f, n, ok := p.Tap.Scan(p.Cur, d, p.Mine)
	p.Cur = n
	if ok {
		p.noteTS(f.Pkt)
	}
	return f, ok
}

// noteTS keeps the timestamp the peer echoes the way RFC 7323 4.3 has it: TS.Recent
// takes the TSval of a segment that does not start beyond what has been acknowledged
// (Last.ACK.sent, kept in RcvNxt by the scripts) and is not older than the value held.
// (A peer that echoes the SYN's value for ever makes the stack measure ever longer
// round trips and inflates its retransmission timeout.)
func (p *Peer) noteTS(k *codec.Packet) {
	if !p.UseTS || k.L4Kind != "tcp" || k.Flags&codec.SYN != 0 {
		return
	}
	if d, ok := k.Opt(8); ok && len(d) == 8 && int32(k.Seq-p.RcvNxt) <= 0 {
		if v := uint32(d[0])<<24 | uint32(d[1])<<16 | uint32(d[2])<<8 | uint32(d[3]); int32(v-p.TSEcr) >= 0 {
			p.TSEcr = v
		}
	}
}

// NextWhere returns the next frame of this connection satisfying pred.
func (p *Peer) NextWhere(d time.Duration, pred func(*codec.Packet) bool) (netsim.Frame, bool) {
	f, n, ok := p.Tap.Scan(p.Cur, d, func(f netsim.Frame) bool { return p.Mine(f) && pred(f.Pkt) })
	p.Cur = n
	if ok {
		p.noteTS(f.Pkt)
	}
	return f, ok
}

// learnSyn records what the stack's SYN / SYN-ACK announced.
func (p *Peer) learnSyn(k *codec.Packet) {
	p.IRS = k.Seq
	p.RcvNxt = k.Seq + 1
	p.StackWS, p.StackMSS = -1, -1
	if d, ok := k.Opt(3); ok && len(d) == 1 {
		p.StackWS = int(d[0])
	}
	if d, ok := k.Opt(2); ok && len(d) == 2 {
		p.StackMSS = int(d[0])<<8 | int(d[1])
	}
	if d, ok := k.Opt(8); ok && len(d) == 8 {
		p.StackTS = true
		p.TSEcr = uint32(d[0])<<24 | uint32(d[1])<<16 | uint32(d[2])<<8 | uint32(d[3])
	}
	_, p.StackSACK = k.Opt(4)
}

// SynOpts describes the options the peer puts on its SYN / SYN-ACK.
type SynOpts struct {
	MSS      int // -1: none
	WS       int // -1: none
	TS       bool
	SACKPerm bool
	Raw      []byte // if non-nil, used verbatim
}

func (o SynOpts) bytes(tsval, tsecr uint32) []byte {
	if o.Raw != nil {
		return o.Raw
	}
	var b []byte
	if o.MSS >= 0 {
		b = append(b, codec.OptMSS(uint16(o.MSS))...)
	}
	if o.WS >= 0 {
		b = append(b, codec.OptNOP()...)
		b = append(b, codec.OptWS(uint8(o.WS))...)
	}
	if o.SACKPerm {
		b = append(b, codec.OptNOP()...)
		b = append(b, codec.OptNOP()...)
		b = append(b, codec.OptSACKPerm()...)
	}
	if o.TS {
		b = append(b, codec.OptNOP()...)
		b = append(b, codec.OptNOP()...)
		b = append(b, codec.OptTS(tsval, tsecr)...)
	}
	return b
}

// Connect performs an active open towards a listener of the stack.
// Returns false if no SYN-ACK arrived.
func (p *Peer) Connect(o SynOpts, d time.Duration) bool {
	p.WS = o.WS
	p.UseTS = false
	p.Send(codec.TCPSeg{Seq: p.ISS, Flags: codec.SYN, Wnd: p.Wnd, Opts: o.bytes(1, 0)})
	f, ok := p.NextWhere(d, func(k *codec.Packet) bool { return k.Flags&(codec.SYN|codec.ACK) == codec.SYN|codec.ACK })
	if !ok {
		return false
	}
	p.learnSyn(f.Pkt)
	if p.StackWS < 0 {
		p.WS = -1
	}
	p.UseTS = o.TS && p.StackTS
	p.TSVal = 1
	p.SndNxt = p.ISS + 1
	p.Send(codec.TCPSeg{Seq: p.SndNxt, Ack: p.RcvNxt, Flags: codec.ACK, Wnd: p.Wnd})
	return true
}

// AcceptActive answers an active open by the stack (the caller has already
// called Connect on a stack endpoint): waits for the SYN, replies SYN-ACK and
// waits for the final ACK.
func (p *Peer) AcceptActive(o SynOpts, d time.Duration) bool {
	f, ok := p.NextWhere(d, func(k *codec.Packet) bool { return k.Flags&(codec.SYN|codec.ACK) == codec.SYN })
	if !ok {
		return false
	}
	p.learnSyn(f.Pkt)
	p.WS = o.WS
	if p.StackWS < 0 {
		p.WS = -1
	}
	useTS := o.TS && p.StackTS
	oo := o
	oo.TS = useTS
	p.UseTS = false
	p.Send(codec.TCPSeg{Seq: p.ISS, Ack: p.RcvNxt, Flags: codec.SYN | codec.ACK, Wnd: p.Wnd, Opts: oo.bytes(1, p.TSEcr), Payload: p.SynAckPayload})
	p.SndNxt = p.ISS + 1
	p.UseTS = useTS
	p.TSVal = 1
	f, ok = p.NextWhere(d, func(k *codec.Packet) bool {
		return k.Flags&codec.ACK != 0 && k.Flags&codec.SYN == 0 && k.Ack-(p.ISS+1) <= uint32(len(p.SynAckPayload))
	})
	if ok {
		p.SynAckTaken = int(f.Pkt.Ack - (p.ISS + 1))
	}
	return ok
}

// Ack sends a pure ACK for RcvNxt with the current window.
func (p *Peer) Ack() {
	p.Send(codec.TCPSeg{Seq: p.SndNxt, Ack: p.RcvNxt, Flags: codec.ACK, Wnd: p.Wnd})
}

// Data sends payload at stream offset off (relative to ISS+1) with flags.
func (p *Peer) Data(off uint32, payload []byte, flags uint8) {
	p.Send(codec.TCPSeg{Seq: p.ISS + 1 + off, Ack: p.RcvNxt, Flags: flags | codec.ACK, Wnd: p.Wnd, Payload: payload})
}

// NewPeerFor builds a peer for the standard harness addresses.
func NewPeerFor(tap *netsim.Tap, v6 bool, stackAddr tcpip.Address, peerAddr tcpip.Address, stackPort, peerPort uint16, iss uint32) *Peer {
	return &Peer{Cur: tap.Len(), Tap: tap, V6: v6, Addr: []byte(peerAddr), StackAddr: []byte(stackAddr), Port: peerPort, StackPort: stackPort, ISS: iss, Wnd: 65535, WS: -1, StackWS: -1, StackMSS: -1}
}
