package c13

import (
	"os"
	"runtime"
	"runtime/debug"
	"strconv"
	"testing"

	"verifharness/evid"
)

var ballast []byte

func TestMain(m *testing.M) {
	gc, _ := strconv.Atoi(os.Getenv("C13_GC"))
	bl, _ := strconv.Atoi(os.Getenv("C13_BALLAST"))
	if gc > 0 {
		debug.SetGCPercent(gc)
	}
	if bl > 0 {
		ballast = make([]byte, bl<<20)
	}
	evid.Main(m, "C13")
	runtime.KeepAlive(ballast)
}
