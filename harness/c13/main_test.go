package c13

import (
	"runtime/debug"
	"testing"

	"verifharness/evid"
)

func TestMain(m *testing.M) {
	// Every case builds a fresh stack (its neighbour cache alone is a few
	// hundred KB that must be zeroed) while the live heap stays tiny: with the
	// default GC percentage a collection would run for almost every case.
	debug.SetGCPercent(400)
	evid.Main(m, "C13")
}
