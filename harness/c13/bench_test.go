package c13

import (
	"testing"
	"time"

	tcpip "github.com/brewlin/net-protocol/protocol"
	"verifharness/netsim"
)

func TestBenchTmp(t *testing.T) {
	var a, b, c, d time.Duration
	for i := 0; i < 300; i++ {
		t0 := time.Now()
		tap := netsim.NewTap(1500)
		addrs := netsim.StackCfg{Addrs4: []tcpip.Address{netsim.A4, netsim.B4}, Addrs6: []tcpip.Address{netsim.A6, netsim.B6}}
		st := netsim.NewStack(tap, addrs)
		t1 := time.Now()
		r := Req{V6: false, Kind: "echo", PLen: 20, PMode: 2, TTL: 64, Chunk: Chunking{Mode: "single"}}
		for _, w := range r.packets(1) {
			tap.InjectViews(0x0800, "", w.views(r.Chunk))
		}
		tap.Scan(0, time.Second, func(netsim.Frame) bool { return true })
		t2 := time.Now()
		tap.Quiesce(2*time.Millisecond, 200*time.Millisecond)
		t3 := time.Now()
		for _, x := range append(addrs.Addrs4, addrs.Addrs6...) {
			st.RemoveAddress(1, x)
		}
		t4 := time.Now()
		a += t1.Sub(t0)
		b += t2.Sub(t1)
		c += t3.Sub(t2)
		d += t4.Sub(t3)
	}
	t.Logf("new %v inject+reply %v quiesce %v teardown %v", a/300, b/300, c/300, d/300)
}
