package c13

import (
	"fmt"
	"testing"

	"verifharness/evid"
)

// The sweeps enumerate small sub-domains completely: every payload length up
// to a bound, for both families, with every single cut position of the
// payload (and a few multi-cut / link-like chunkings), and IPv4 requests cut
// into fragments. Requests travel in cases of 3 bursts x 9; a failing case is
// re-run request by request so that the replay holds one request.

func sweepReq(k int, v6 bool, plen int, ch Chunking) Req {
	r := Req{V6: v6, Kind: "echo", Dst: k % 2, Src: (k / 2) % 4, PLen: plen, PMode: 2, PSeed: uint32(k)*2246822519 + 1, TTL: 64, Chunk: ch}
	if k%11 == 10 {
		r.PMode = []int{0, 1, 3}[(k/11)%3]
	}
	r.ID = uint16(k*40503 + 7)
	r.Seq = uint16(k*2477 + plen)
	switch k % 4 {
	case 0:
		r.Seq = bounds[(k/4)%len(bounds)]
	case 1:
		r.ID = bounds[(k/4)%len(bounds)]
	}
	return r
}

type sweeper struct {
	failed   int
	hold     bool
	per      int
	t        *testing.T
	reported map[string]int
	pending  []Req
	group    int
	noOdd6   bool
}

func newSweeper(t *testing.T) *sweeper {
	return &sweeper{t: t, reported: map[string]int{}, noOdd6: evid.IsKnownListed("F7")}
}

func (s *sweeper) add(r Req) {
	if s.noOdd6 && r.V6 {
		for _, c := range r.Chunk.Cuts {
			if c%2 == 1 {
				evid.Exclude("F7:ipv6-odd-nonfinal-payload-view")
				return
			}
		}
		if r.Chunk.Mode == "link" && r.Chunk.K > 1 && r.Chunk.K%2 == 1 {
			evid.Exclude("F7:ipv6-odd-nonfinal-payload-view")
			return
		}
	}
	s.pending = append(s.pending, r)
	if len(s.pending) == 27 && s.per == 0 {
		s.flush()
	}
}

func (s *sweeper) report(f *evid.Failure, c Case) {
	s.reported[f.Sig]++
	if s.reported[f.Sig] > 1 {
		evid.Label("sweep:further-failures:" + f.Sig) // one replay per signature and process is enough
		return
	}
	evid.Direct(s.t, checkName, f, c)
}

func (s *sweeper) flush() {
	reqs := s.pending
	s.pending = nil
	if len(reqs) == 0 {
		return
	}
	g := s.group
	s.group++
	if g%evid.NShards != evid.ShardIdx {
		return
	}
	if s.failed >= 3 {
		evid.Label("sweep:cases-skipped-after-3-failing-cases")
		return
	}
	c := Case{MTU: 1500}
	per := 9
	if s.per > 0 {
		per = s.per
	}
	for i := 0; i < len(reqs); i += per {
		j := i + per
		if j > len(reqs) {
			j = len(reqs)
		}
		c.Bursts = append(c.Bursts, reqs[i:j])
		c.Hold = append(c.Hold, s.hold)
	}
	f := evid.Guard(func() *evid.Failure { return runCase(c) })
	evid.Eval(1)
	if f == nil {
		return
	}
	s.failed++
	for _, r := range reqs {
		c1 := Case{MTU: 1500, Bursts: [][]Req{{r}}}
		if f1 := evid.Guard(func() *evid.Failure { return runCase(c1) }); f1 != nil {
			s.report(f1, c1)
			return
		}
	}
	s.report(f, c) // only the combination fails
}

// TestSweepLengths: every payload length 0..130 (thorough: up to the largest
// unfragmented one at MTU 1500) x IPv4/IPv6 x chunkings.
func TestSweepLengths(t *testing.T) {
	if evid.ReplayMode() {
		t.Skip()
	}
	s := newSweeper(t)
	k := 0
	add := func(v6 bool, n int, ch Chunking) { s.add(sweepReq(k, v6, n, ch)); k++ }
	for _, v6 := range []bool{false, true} {
		hdrs := 28
		if v6 {
			hdrs = 48
		}
		for n := 0; n <= 130; n++ {
			add(v6, n, Chunking{Mode: "single"})
			if hdrs+n > 114 {
				for _, lk := range []int{1, 2, 7} {
					add(v6, n, Chunking{Mode: "link", K: lk})
				}
			}
			for c := 0; c < n; c++ { // every single cut position, odd and even
				add(v6, n, Chunking{Mode: "split", Cuts: []int{c}})
			}
			if n >= 4 {
				add(v6, n, Chunking{Mode: "split", Cuts: []int{1, n - 2}})
				add(v6, n, Chunking{Mode: "split", Cuts: []int{0, 2, n - 1}})
				add(v6, n, Chunking{Mode: "split", Cuts: []int{n / 3, n / 2, n - 1}})
			}
		}
		if evid.Thorough() {
			for n := 2; n <= 40; n++ { // every pair of cut positions
				for a := 0; a < n; a++ {
					for b := a + 1; b < n; b++ {
						add(v6, n, Chunking{Mode: "split", Cuts: []int{a, b}})
					}
				}
			}
			for n := 131; n <= 1500-hdrs; n++ {
				add(v6, n, Chunking{Mode: "single"})
				add(v6, n, Chunking{Mode: "link", K: 1})
				add(v6, n, Chunking{Mode: "link", K: []int{2, 7, 16, 64, 256}[n%5]})
				add(v6, n, Chunking{Mode: "split", Cuts: []int{(n / 2) | 1}})
				add(v6, n, Chunking{Mode: "split", Cuts: []int{(n / 2) &^ 1}})
				add(v6, n, Chunking{Mode: "split", Cuts: []int{n % 7, n/2 + n%3, n - 1 - n%5}})
			}
		}
	}
	s.flush()
	if t.Failed() {
		return
	}
	evid.Exhaustive("echo requests, IPv4 and IPv6, payload length 0..130, one view and every single cut position inside the payload" +
		map[bool]string{true: " (IPv6 cuts that leave an odd non-final view excluded: F7 listed as known)", false: ""}[s.noOdd6])
	if evid.Thorough() {
		evid.Exhaustive("echo requests, IPv4 and IPv6, payload length 2..40, every pair of cut positions; every payload length 131..MTU-28/-48 at MTU 1500 with six chunkings")
	}
}

// TestSweepFragments: IPv4 requests cut into consistent fragments, every
// payload length 1..130 with 8/16/24-byte fragments in four arrival orders,
// plus large datagrams up to the IPv4 maximum.
func TestSweepFragments(t *testing.T) {
	if evid.ReplayMode() {
		t.Skip()
	}
	s := newSweeper(t)
	k := 0
	frag := func(n, sz, order int, ch Chunking) {
		r := sweepReq(k, false, n, ch)
		k++
		for c := sz; c < 8+n; c += sz {
			r.FragAt = append(r.FragAt, c)
		}
		r.FragOrder = order
		if k%5 == 0 {
			r.Opt = 4
		}
		s.add(r)
	}
	for n := 1; n <= 130; n++ {
		orders := []int{n % 4}
		if evid.Thorough() {
			orders = []int{0, 1, 2, 3}
		}
		for _, o := range orders {
			for _, sz := range []int{8, 16, 24} {
				frag(n, sz, o, Chunking{Mode: "single"})
			}
			frag(n, 8*(1+n%5), o, Chunking{Mode: "split", Cuts: []int{n / 2, (n / 2) | 1, n - 1}})
		}
	}
	big := []int{1473, 1481, 2952, 4000, 8192, 20001, 65506, 65507}
	if evid.Thorough() {
		for n := 131; n <= 3000; n += 1 + n%3 {
			big = append(big, n)
		}
	}
	for i, n := range big {
		for o := 0; o < 4; o++ {
			sz := []int{1480, 1000, 552, 1480}[(i+o)%4]
			if evid.Thorough() && n <= 3000 {
				sz = 8 * (1 + (n+o)%185)
			}
			frag(n, sz, o, Chunking{Mode: []string{"single", "link", "split"}[(i+o)%3], K: 1 + 6*(i%2), Cuts: []int{n / 3, n - 1}})
		}
	}
	s.flush()
	if !t.Failed() {
		evid.Note("fragment sweep: %d fragmented requests built", k)
	}
}

// TestSweepPending: 1..9 requests to one owned address are pending together
// (the link endpoint holds the first reply until the burst is injected), for
// both families and both addresses, then released: all must be answered once.
func TestSweepPending(t *testing.T) {
	if evid.ReplayMode() {
		t.Skip()
	}
	s := newSweeper(t)
	s.hold = true
	k := 0
	lens := []int{0, 1, 56, 57, 1472}
	if evid.Thorough() {
		lens = []int{0, 1, 2, 7, 8, 56, 57, 130, 1000, 1451, 1452, 1472}
	}
	for _, v6 := range []bool{false, true} {
		for dst := 0; dst <= 1; dst++ {
			for n := 1; n <= 9; n++ {
				for li, ln := range lens {
					if v6 && ln > 1452 {
						ln = 1452
					}
					s.per = n
					for i := 0; i < n; i++ {
						r := sweepReq(k, v6, ln, Chunking{Mode: []string{"single", "split", "link"}[(i+li)%3], K: 16, Cuts: []int{(ln / 2) &^ 1, ln/2 + 2}})
						k++
						r.Dst = dst
						if i%4 == 3 && len(s.pending) > 0 { // the same request twice
							p := s.pending[len(s.pending)-1]
							r.ID, r.Seq, r.PSeed, r.PMode, r.Src = p.ID, p.Seq, p.PSeed, p.PMode, p.Src
						}
						s.add(r)
					}
					s.flush()
				}
			}
		}
	}
	if !t.Failed() {
		evid.Exhaustive(fmt.Sprintf("1..9 echo requests pending together at one owned address, IPv4 and IPv6, both addresses, payload lengths %v", lens))
	}
}
