// C13 — echo requests are answered once, mirroring identifier, sequence and
// payload.
//
// One case = one fresh stack (NIC 1 with two IPv4 and two IPv6 addresses on a
// harness tap) that receives a few bursts of at most nine ICMP messages. The
// oracle reads the tap's trace: every echo reply must pair with a distinct,
// earlier, not yet answered echo request to an owned address, mirror id / seq /
// payload, come from the pinged address, go to the requester and decode cleanly
// under verifharness/codec (checksums included); requests to addresses the NIC
// does not own draw nothing; every request to an owned address is answered.
// Expected values come from the request the harness built itself, never from
// the repository's header package.
package c13

import (
	"bytes"
	"encoding/binary"
	"encoding/json"
	"fmt"
	"github.com/brewlin/net-protocol/stack"
	"net"
	"runtime"
	"sort"
	"strings"
	"sync"
	"testing"
	"time"

	"github.com/brewlin/net-protocol/pkg/waiter"
	tcpip "github.com/brewlin/net-protocol/protocol"
	"github.com/brewlin/net-protocol/protocol/network/ipv4"
	"github.com/brewlin/net-protocol/protocol/network/ipv6"
	"github.com/brewlin/net-protocol/protocol/transport/ping"
	"pgregory.net/rapid"

	"verifharness/codec"
	"verifharness/evid"
	"verifharness/netsim"
)

const checkName = "echo"

// Chunking says how one injected packet is cut into views.
type Chunking struct {
	Mode string `json:"mode"`           // "single" | "link" | "split"
	K    int    `json:"k,omitempty"`    // link: netsim.ChunkLikeLink mode (1 = fd-based sizes, k>1 = 114 bytes then k-byte views)
	Cuts []int  `json:"cuts,omitempty"` // split: offsets inside the ICMP payload (bytes after the 8-byte ICMP header) at which a new view starts; 0 = the first view holds the headers only
}

// Req is one injected ICMP message.
type Req struct {
	V6        bool     `json:"v6"`
	Kind      string   `json:"kind"`           // "echo" (request) | "other" (any non-request ICMP type)
	Type      uint8    `json:"type,omitempty"` // other: ICMP type
	Code      uint8    `json:"code,omitempty"` // other: ICMP code
	Dst       int      `json:"dst"`            // 0 first own address, 1 other own address, 2 unassigned (same prefix), 3 foreign
	DstV      int      `json:"dstv,omitempty"` // variant inside classes 2 and 3
	Src       int      `json:"src"`            // requester (index into a fixed list of unicast addresses the NIC does not own)
	ID        uint16   `json:"id"`
	Seq       uint16   `json:"seq"`
	PLen      int      `json:"plen"`
	PMode     int      `json:"pmode"` // 0 zeros, 1 0xff, 2 pseudo-random, 3 counter
	PSeed     uint32   `json:"pseed"`
	TTL       uint8    `json:"ttl"`
	TOS       uint8    `json:"tos,omitempty"`
	DF        bool     `json:"df,omitempty"`
	Opt       int      `json:"opt,omitempty"`        // IPv4: bytes of (NOP… EOL) options, first fragment only
	FragAt    []int    `json:"frag_at,omitempty"`    // IPv4: offsets (multiples of 8) in the ICMP message at which a new fragment starts
	FragOrder int      `json:"frag_order,omitempty"` // 0 in order, 1 reversed, 2 last first, 3 even-indexed then odd-indexed
	Chunk     Chunking `json:"chunk"`
	// BadCk != 0: the request's ICMP checksum field is XORed with it (a damaged
	// request: the stack need not answer, but what it sends must be right)
	BadCk uint16 `json:"bad_ck,omitempty"`
}

// Case is a JSON-serialisable scenario.
type Case struct {
	MTU    int     `json:"mtu"`
	Bursts [][]Req `json:"bursts"`
	// Hold[i]: while burst i is injected the link endpoint blocks in
	// WritePacket (a slow device) for every frame emitted by a goroutine other
	// than the injecting one, so the requests of the burst really are pending
	// together; the frames are released when the burst is complete.
	Hold []bool `json:"hold,omitempty"`
	// Ops[i], applied before burst i once the previous burst has drained:
	// 1 removes the second own address (both families) from the interface,
	// 2 assigns it again. A request to that address counts as addressed to
	// someone else while the address is removed.
	Ops []int `json:"ops,omitempty"`
	// Pings: ICMP messages an application writes through a ping socket before
	// burst At. Whatever the application hands in, the stack must not emit an
	// echo reply for it (a reply that corresponds to no request).
	Pings []PingW `json:"pings,omitempty"`
	// Pad: link padding of injected packets (46 = up to the Ethernet minimum, other k = k trailing
	// bytes): what follows the datagram is not payload and must not be mirrored
	Pad int `json:"pad,omitempty"`
	// Refuse: the link endpoint refuses these echo replies (1-based, in order of emission)
	// with a transmit error. Such a reply is lost (its request counts as optional); every
	// other request must still be answered.
	Refuse []int `json:"refuse,omitempty"`
	// Offload: the link advertises checksum offload (as the loopback and an fd-based endpoint
	// with ChecksumOffload do). That exempts TCP and UDP checksums, nothing else: an echo
	// reply still needs a valid ICMP checksum.
	Offload bool `json:"offload,omitempty"`
}

// PingW is one Write on a ping socket.
type PingW struct {
	At   int    `json:"at"`
	V6   bool   `json:"v6"`
	Type uint8  `json:"type"`
	Code uint8  `json:"code"`
	ID   uint16 `json:"id"`
	Seq  uint16 `json:"seq"`
	PLen int    `json:"plen"`
	Conn bool   `json:"conn"` // Connect first and Write without address
}

// ---------------------------------------------------------------------------
// Addresses

func ip6(s string) []byte { return []byte(net.ParseIP(s).To16()) }

var (
	own4  = [][]byte{[]byte(netsim.A4), []byte(netsim.B4)}
	own6  = [][]byte{[]byte(netsim.A6), []byte(netsim.B6)}
	unas4 = [][]byte{{10, 0, 0, 77}, {10, 0, 0, 4}, {10, 0, 1, 1}}
	unas6 = [][]byte{ip6("fd00::77"), ip6("fd00::4"), ip6("fd00::1:1")}
	fore4 = [][]byte{{172, 16, 5, 5}, {8, 8, 4, 4}, {1, 0, 0, 10}}
	fore6 = [][]byte{ip6("2001:db8:1::1"), ip6("fe80::1"), ip6("100::fd")}
	reqr4 = [][]byte{{10, 0, 0, 3}, {10, 0, 0, 200}, {192, 168, 7, 9}, {8, 8, 8, 8}}
	reqr6 = [][]byte{ip6("fd00::3"), ip6("fd00::c8"), ip6("2001:db8::5"), ip6("fe80::9")}
)

func (r Req) fam() string {
	if r.V6 {
		return "v6"
	}
	return "v4"
}

func (r Req) owned() bool { return r.Dst == 0 || r.Dst == 1 }

func (r Req) dstAddr() []byte {
	o, u, f := own4, unas4, fore4
	if r.V6 {
		o, u, f = own6, unas6, fore6
	}
	switch r.Dst {
	case 0, 1:
		return o[r.Dst]
	case 2:
		return u[mod(r.DstV, len(u))]
	default:
		return f[mod(r.DstV, len(f))]
	}
}

func (r Req) srcAddr() []byte {
	if r.V6 {
		return reqr6[mod(r.Src, len(reqr6))]
	}
	return reqr4[mod(r.Src, len(reqr4))]
}

func mod(a, n int) int {
	a %= n
	if a < 0 {
		a += n
	}
	return a
}

var dstClass = []string{"own-first", "own-other", "unassigned", "foreign"}

// ---------------------------------------------------------------------------
// Building the injected packets (verifharness/codec only)

func payload(mode int, seed uint32, n int) []byte {
	b := make([]byte, n)
	switch mode {
	case 0:
	case 1:
		for i := range b {
			b[i] = 0xff
		}
	case 3:
		for i := range b {
			b[i] = byte(uint32(i) + seed)
		}
	default:
		s := seed*2654435761 + 0x9e3779b9
		if s == 0 {
			s = 1
		}
		for i := range b {
			s ^= s << 13
			s ^= s >> 17
			s ^= s << 5
			b[i] = byte(s >> 11)
		}
	}
	return b
}

func icmp4(typ, code uint8, body []byte) []byte {
	b := make([]byte, 4+len(body))
	b[0], b[1] = typ, code
	copy(b[4:], body)
	binary.BigEndian.PutUint16(b[2:], ^codec.Sum1071(b, 0))
	return b
}

func idseq(id, seq uint16, rest []byte) []byte {
	b := make([]byte, 4+len(rest))
	binary.BigEndian.PutUint16(b[0:], id)
	binary.BigEndian.PutUint16(b[2:], seq)
	copy(b[4:], rest)
	return b
}

// l4 returns the ICMP message of r (always at least 8 bytes).
func (r Req) l4() []byte {
	src, dst := r.srcAddr(), r.dstAddr()
	pl := payload(r.PMode, r.PSeed, r.PLen)
	if r.Kind == "echo" {
		var m []byte
		if r.V6 {
			m = codec.BuildICMPv6Echo(src, dst, 128, r.ID, r.Seq, pl)
		} else {
			m = codec.BuildICMPv4Echo(8, r.ID, r.Seq, pl)
		}
		if r.BadCk != 0 {
			m[2] ^= byte(r.BadCk >> 8)
			m[3] ^= byte(r.BadCk)
		}
		return m
	}
	mac := []byte{2, 0, 0, 0, 0, 9}
	if !r.V6 {
		switch r.Type {
		case 3, 4, 5, 11, 12: // error messages: 4 bytes + the offending datagram's header + 8 bytes
			inner := codec.BuildIPv4(codec.IPv4Hdr{Src: dst, Dst: src, Proto: []uint8{codec.ProtoUDP, codec.ProtoTCP, codec.ProtoICMP}[r.PSeed%3], ID: r.ID, TTL: 1},
				idseq(r.ID, r.Seq, payload(2, r.PSeed, 4+r.PLen%24)))
			first := []byte{0, 0, 0, 0}
			if r.Type == 3 && r.Code == 4 {
				binary.BigEndian.PutUint16(first[2:], uint16(68+r.PSeed%1400))
			}
			if r.Type == 5 {
				copy(first, src)
			}
			return icmp4(r.Type, r.Code, append(first, inner...))
		case 13, 14: // timestamp / reply
			return icmp4(r.Type, 0, idseq(r.ID, r.Seq, payload(2, r.PSeed, 12)))
		case 17, 18: // address mask request / reply
			return icmp4(r.Type, 0, idseq(r.ID, r.Seq, []byte{255, 255, 255, 0}))
		default: // 0 = echo reply, anything else: id, seq, payload
			return icmp4(r.Type, r.Code, idseq(r.ID, r.Seq, pl))
		}
	}
	switch r.Type {
	case 1, 2, 3, 4: // error messages: 4 bytes + as much of the offending packet as fits
		inner := codec.BuildIPv6(codec.IPv6Hdr{Src: dst, Dst: src, NextHeader: []uint8{codec.ProtoUDP, codec.ProtoTCP, codec.ProtoICMPv6}[r.PSeed%3], HopLimit: 1},
			idseq(r.ID, r.Seq, payload(2, r.PSeed, 4+r.PLen%64)))
		first := []byte{0, 0, 0, 0}
		if r.Type == 2 {
			binary.BigEndian.PutUint32(first, 1280+r.PSeed%8000)
		}
		return codec.BuildICMPv6(src, dst, r.Type, r.Code, append(first, inner...))
	case 133: // router solicitation
		return codec.BuildICMPv6(src, dst, 133, 0, append([]byte{0, 0, 0, 0, 1, 1}, mac...))
	case 134: // router advertisement
		return codec.BuildICMPv6(src, dst, 134, 0, []byte{64, 0, 0, 30, 0, 0, 0, 0, 0, 0, 0, 0})
	case 135, 136: // neighbour solicitation / advertisement about the destination address
		body := make([]byte, 4, 28)
		opt := byte(1)
		if r.Type == 136 {
			body[0] = 0x60
			opt = 2
		}
		body = append(body, dst...)
		body = append(body, opt, 1)
		body = append(body, mac...)
		return codec.BuildICMPv6(src, dst, r.Type, 0, body)
	default: // 129 = echo reply, anything else: id, seq, payload
		return codec.BuildICMPv6(src, dst, r.Type, r.Code, idseq(r.ID, r.Seq, pl))
	}
}

// wirePkt is one network-layer packet to inject.
type wirePkt struct {
	b    []byte
	hdr  int // bytes at the front (IP header, plus the 8-byte ICMP header when present) that stay in the first view
	pOff int // offset inside the ICMP payload of b[hdr]
}

func (r Req) options() []byte {
	if r.V6 || r.Opt <= 0 {
		return nil
	}
	o := bytes.Repeat([]byte{1}, r.Opt) // NOP … EOL
	o[len(o)-1] = 0
	return o
}

// packets builds the IP packet(s) of r in injection order.
func (r Req) packets(ipid uint16) []wirePkt {
	src, dst := r.srcAddr(), r.dstAddr()
	l4 := r.l4()
	ttl := r.TTL
	if ttl == 0 {
		ttl = 64
	}
	if r.V6 {
		if (r.Type == 135 || r.Type == 136) && r.Kind != "echo" {
			ttl = 255
		}
		return []wirePkt{{b: codec.BuildIPv6(codec.IPv6Hdr{Src: src, Dst: dst, NextHeader: codec.ProtoICMPv6, HopLimit: ttl, TC: r.TOS, Flow: r.PSeed & 0xfffff}, l4), hdr: 48}}
	}
	opts := r.options()
	var cuts []int
	for _, c := range r.FragAt {
		if c > 0 && c < len(l4) && c%8 == 0 && (len(cuts) == 0 || c > cuts[len(cuts)-1]) {
			cuts = append(cuts, c)
		}
	}
	if len(cuts) == 0 {
		return []wirePkt{{b: codec.BuildIPv4(codec.IPv4Hdr{Src: src, Dst: dst, Proto: codec.ProtoICMP, ID: ipid, DF: r.DF, TTL: ttl, TOS: r.TOS, Options: opts}, l4), hdr: 20 + len(opts) + 8}}
	}
	var frs []wirePkt
	bounds := append(append([]int{0}, cuts...), len(l4))
	for i := 0; i+1 < len(bounds); i++ {
		a, b := bounds[i], bounds[i+1]
		h := codec.IPv4Hdr{Src: src, Dst: dst, Proto: codec.ProtoICMP, ID: ipid, TTL: ttl, TOS: r.TOS, MF: b < len(l4), FragOff: a}
		w := wirePkt{hdr: 20, pOff: a - 8}
		if a == 0 {
			h.Options = opts
			w.hdr, w.pOff = 20+len(opts)+8, 0
		}
		w.b = codec.BuildIPv4(h, l4[a:b])
		frs = append(frs, w)
	}
	n := len(frs)
	out := make([]wirePkt, 0, n)
	switch mod(r.FragOrder, 4) {
	case 0:
		out = frs
	case 1:
		for i := n - 1; i >= 0; i-- {
			out = append(out, frs[i])
		}
	case 2:
		out = append(out, frs[n-1])
		out = append(out, frs[:n-1]...)
	default:
		for i := 0; i < n; i += 2 {
			out = append(out, frs[i])
		}
		for i := 1; i < n; i += 2 {
			out = append(out, frs[i])
		}
	}
	return out
}

// views cuts one packet as the chunking says; the headers always stay in the
// first view (the network layer relies on that for every link endpoint).
func (w wirePkt) views(ch Chunking) [][]byte {
	switch ch.Mode {
	case "link":
		return netsim.ChunkLikeLink(w.b, ch.K)
	case "split":
		var cuts []int
		for _, c := range ch.Cuts {
			if c >= w.pOff {
				cuts = append(cuts, w.hdr+c-w.pOff)
			}
		}
		sort.Ints(cuts)
		return netsim.Split(w.b, cuts)
	}
	return [][]byte{w.b}
}

// oddNonFinal reports whether a view other than the last one holds an odd
// number of ICMP payload bytes (the class of finding F7).
func oddNonFinal(w wirePkt, vs [][]byte) bool {
	for i := 0; i+1 < len(vs); i++ {
		n := len(vs[i])
		if i == 0 {
			n -= w.hdr
		}
		if n%2 != 0 {
			return true
		}
	}
	return false
}

// ---------------------------------------------------------------------------
// Oracle

type sent struct {
	r        Req
	burst, i int
	src, dst []byte
	payload  []byte
	at       int // frames in the trace when the last packet of the request was injected
	odd      bool
	nviews   int
	answered bool
	owned    bool // the destination was assigned to the interface when the request was injected
	required bool // owned, and fewer than ten requests can have been pending when it arrived
}

func (s *sent) String() string {
	j, _ := json.Marshal(s.r)
	return fmt.Sprintf("burst %d #%d %s %s -> %s (%s) id=%#04x seq=%#04x payload %d bytes, %d view(s)%s, request %s",
		s.burst, s.i, s.r.fam(), net.IP(s.src), net.IP(s.dst), dstClass[s.r.Dst], s.r.ID, s.r.Seq, len(s.payload), s.nviews,
		map[bool]string{true: ", a non-final view holds an odd number of payload bytes", false: ""}[s.odd], j)
}

func frameStr(f netsim.Frame) string {
	p := f.Pkt
	s := fmt.Sprintf("frame %d %s %s -> %s proto %d %s type %d code %d id=%#04x seq=%#04x payload %d bytes",
		f.Seq, p.L3, net.IP(p.Src), net.IP(p.Dst), p.Proto, p.L4Kind, p.ICMPType, p.ICMPCode, p.ICMPID, p.ICMPSeq, len(p.Payload))
	if len(p.Errs) > 0 {
		s += " DECODE ERRORS: " + strings.Join(p.Errs, "; ")
	}
	return s
}

func isEchoReply(p *codec.Packet) bool {
	return (p.L3 == "ipv4" && p.L4Kind == "icmp4" && p.ICMPType == 0) || (p.L3 == "ipv6" && p.L4Kind == "icmp6" && p.ICMPType == 129)
}

// judge pairs every echo reply of the trace with a request and returns the
// first safety violation, else the owned requests still unanswered.
func judge(trace []netsim.Frame, sents []*sent) (*evid.Failure, []*sent) {
	for _, s := range sents {
		s.answered = false
	}
	for _, f := range trace {
		p := f.Pkt
		if f.Refused {
			continue // never left the link endpoint
		}
		if !isEchoReply(p) {
			icmp := (p.L3 == "ipv4" && p.Proto == codec.ProtoICMP) || (p.L3 == "ipv6" && p.Proto == codec.ProtoICMPv6)
			if icmp && (p.L4Kind == "" || len(p.L4) < 8) {
				return evid.Failf("emission-undecodable", "the stack emitted an ICMP packet that cannot be classified: %s", frameStr(f)), nil
			}
			continue // not an echo reply: outside this property
		}
		fam := "v4"
		if p.L3 == "ipv6" {
			fam = "v6"
		}
		if len(p.L4) < 8 {
			return evid.Failf("reply-malformed:"+fam, "echo reply shorter than its header: %s", frameStr(f)), nil
		}
		var exact, dup, unowned, wsrc, wdst, wpay, wseq, wid *sent
		for _, s := range sents {
			if s.r.Kind != "echo" || s.r.fam() != fam || s.at > f.Seq {
				continue
			}
			id, seq, pay := s.r.ID == p.ICMPID, s.r.Seq == p.ICMPSeq, bytes.Equal(s.payload, p.Payload)
			fromPinged, toRequester := bytes.Equal(s.dst, p.Src), bytes.Equal(s.src, p.Dst)
			pick := func(dst **sent) {
				if *dst == nil || ((*dst).answered && !s.answered) {
					*dst = s
				}
			}
			switch {
			case id && seq && pay && toRequester && !s.owned:
				pick(&unowned)
			case id && seq && pay && toRequester && fromPinged && !s.answered:
				// identical requests are interchangeable: credit one that must be
				// answered before one that may have been dropped (beyond nine pending)
				if exact == nil || (s.required && !exact.required) {
					exact = s
				}
			case id && seq && pay && toRequester && fromPinged:
				pick(&dup)
			case id && seq && pay && toRequester:
				pick(&wsrc)
			case id && seq && pay && fromPinged:
				pick(&wdst)
			case id && seq && toRequester && fromPinged:
				pick(&wpay)
			case id && pay && toRequester && fromPinged:
				pick(&wseq)
			case seq && pay && toRequester && fromPinged:
				pick(&wid)
			}
		}
		if exact != nil {
			exact.answered = true
			if !p.OK() {
				sig := "reply-malformed:" + fam
				if exact.odd {
					sig += ":oddsplit"
				}
				return evid.Failf(sig, "the echo reply does not decode cleanly: %s\n  it answers %s", frameStr(f), exact), nil
			}
			continue
		}
		switch {
		case unowned != nil:
			return evid.Failf("answered-unowned:"+fam, "echo reply to a request for an address the NIC does not own: %s\n  request: %s", frameStr(f), unowned), nil
		case dup != nil:
			return evid.Failf("duplicate-reply:"+fam, "second echo reply to one request: %s\n  request (already answered): %s", frameStr(f), dup), nil
		case wsrc != nil:
			return evid.Failf("reply-source:"+fam, "echo reply not sent from the address that was pinged: %s\n  request: %s", frameStr(f), wsrc), nil
		case wdst != nil:
			return evid.Failf("reply-destination:"+fam, "echo reply not sent to the requester: %s\n  request: %s", frameStr(f), wdst), nil
		case wpay != nil:
			return evid.Failf("mirror-payload:"+fam, "echo reply carries a different payload (%d bytes, first difference at %d): %s\n  request: %s", len(p.Payload), firstDiff(wpay.payload, p.Payload), frameStr(f), wpay), nil
		case wseq != nil:
			return evid.Failf("mirror-seq:"+fam, "echo reply carries a different sequence number: %s\n  request: %s", frameStr(f), wseq), nil
		case wid != nil:
			return evid.Failf("mirror-id:"+fam, "echo reply carries a different identifier: %s\n  request: %s", frameStr(f), wid), nil
		}
		return evid.Failf("unsolicited-reply:"+fam, "echo reply that corresponds to no injected request: %s", frameStr(f)), nil
	}
	var un []*sent
	for _, s := range sents {
		if s.r.Kind == "echo" && s.required && !s.answered {
			un = append(un, s)
		}
	}
	return nil, un
}

func firstDiff(a, b []byte) int {
	for i := 0; i < len(a) && i < len(b); i++ {
		if a[i] != b[i] {
			return i
		}
	}
	if len(a) < len(b) {
		return len(a)
	}
	return len(b)
}

// ---------------------------------------------------------------------------
// Running a case

func lenClass(n int) string {
	switch {
	case n == 0:
		return "0"
	case n <= 130 && n%2 == 1:
		return "1-130-odd"
	case n <= 130:
		return "1-130-even"
	case n <= 1472:
		return "131-1472"
	case n <= 9000:
		return "1473-9000"
	}
	return ">9000"
}

func boundary(v uint16) bool {
	switch v {
	case 0, 1, 0x7fff, 0x8000, 0xfffe, 0xffff, 0x00ff, 0xff00:
		return true
	}
	return false
}

var dbgTrace bool

// runOnce plays the case on a fresh stack. fail is a safety violation (final),
// miss an owned request still unanswered when the deadline passed (to confirm).
func runOnce(c Case, deadline time.Duration, rec bool) (fail, miss *evid.Failure) {
	mtu := c.MTU
	if mtu < 576 {
		mtu = 1500
	}
	tap := netsim.NewTap(uint32(mtu))
	if c.Offload {
		tap.Caps |= stack.CapabilityChecksumOffload
		evid.Label("link-advertises-checksum-offload")
	}
	if c.Pad == 46 {
		tap.PadMin = 46
	} else if c.Pad > 0 {
		tap.PadIn = c.Pad
	}
	if rec && c.Pad > 0 {
		evid.Label("link-padding")
	}
	addrs := netsim.StackCfg{Addrs4: []tcpip.Address{netsim.A4, netsim.B4}, Addrs6: []tcpip.Address{netsim.A6, netsim.B6}, Ping: len(c.Pings) > 0}
	st := netsim.NewStack(tap, addrs)
	defer func() { // lets the per-address echo goroutines end
		for _, a := range append(addrs.Addrs4, addrs.Addrs6...) {
			st.RemoveAddress(1, a)
		}
	}()
	var (
		gmu  sync.Mutex
		gate chan struct{}
		me   = goid()
		// holdStart is when the current held burst began (diagnostics only)
		holdStart time.Time
	)
	tap.SetForward(func(netsim.Frame) {
		gmu.Lock()
		g := gate
		gmu.Unlock()
		if g == nil || goid() == me {
			return // not holding, or emitted synchronously from inside the injection
		}
		select {
		case <-g:
		case <-time.After(2 * time.Second): // never wedge the stack should injection depend on emission
			if rec {
				evid.Label("hold:released-by-timeout")
				gmu.Lock()
				evid.Note("hold released by timeout: the burst had been under injection for %v", time.Since(holdStart))
				gmu.Unlock()
			}
		}
	})
	var sents []*sent
	n := 0
	removedB := false
	if len(c.Refuse) > 0 {
		var rmu sync.Mutex
		nrep := 0
		tap.Refuse = func(f netsim.Frame) *tcpip.Error {
			if f.Pkt == nil || !isEchoReply(f.Pkt) {
				return nil
			}
			rmu.Lock()
			defer rmu.Unlock()
			nrep++
			for _, k := range c.Refuse {
				if k == nrep {
					// the request this reply answers is not owed an answer any more
					gmu.Lock()
					for _, s := range sents {
						if s.r.Kind == "echo" && s.r.ID == f.Pkt.ICMPID && s.r.Seq == f.Pkt.ICMPSeq {
							s.required = false
						}
					}
					gmu.Unlock()
					if rec {
						evid.Label("reply-refused-by-link")
					}
					return tcpip.ErrNoBufferSpace
				}
			}
			return nil
		}
	}
	for bi, burst := range c.Bursts {
		if len(burst) > 40 {
			burst = burst[:40]
		}
		if bi < len(c.Ops) && c.Ops[bi] != 0 {
			// the previous burst has drained (see below); let the repliers drop their route references
			time.Sleep(30 * time.Millisecond)
			switch {
			case c.Ops[bi] == 1 && !removedB:
				e4, e6 := st.RemoveAddress(1, netsim.B4), st.RemoveAddress(1, netsim.B6)
				if e4 != nil || e6 != nil {
					return evid.Failf("remove-address", "RemoveAddress of an assigned address failed: %v / %v", e4, e6), nil
				}
				removedB = true
				if rec {
					evid.Label("op:remove-address")
				}
			case c.Ops[bi] == 2 && removedB:
				e4, e6 := st.AddAddress(1, ipv4.ProtocolNumber, netsim.B4), st.AddAddress(1, ipv6.ProtocolNumber, netsim.B6)
				if e4 != nil || e6 != nil {
					return evid.Failf("add-address", "AddAddress of an address that had been removed failed: %v / %v (a removed address is not released)", e4, e6), nil
				}
				removedB = false
				if rec {
					evid.Label("op:re-add-address")
				}
			}
		}
		for _, pw := range c.Pings {
			if pw.At != bi {
				continue
			}
			trans, netp, to := tcpip.TransportProtocolNumber(ping.ProtocolNumber4), tcpip.NetworkProtocolNumber(ipv4.ProtocolNumber), tcpip.Address(reqr4[0])
			if pw.V6 {
				trans, netp, to = ping.ProtocolNumber6, ipv6.ProtocolNumber, tcpip.Address(reqr6[0])
			}
			var wq waiter.Queue
			ep, perr := st.NewEndpoint(trans, netp, &wq)
			if perr != nil {
				continue
			}
			n := pw.PLen
			if n > 1400 {
				n = 1400
			}
			msg := make([]byte, 8+n)
			msg[0], msg[1] = pw.Type, pw.Code
			msg[4], msg[5], msg[6], msg[7] = byte(pw.ID>>8), byte(pw.ID), byte(pw.Seq>>8), byte(pw.Seq)
			copy(msg[8:], payload(2, uint32(pw.ID)<<16|uint32(pw.Seq), n))
			wo := tcpip.WriteOptions{To: &tcpip.FullAddress{Addr: to}}
			if pw.Conn {
				if ep.Connect(tcpip.FullAddress{Addr: to}) == nil {
					wo = tcpip.WriteOptions{}
				}
			}
			ep.Write(tcpip.SlicePayload(msg), wo)
			ep.Close()
			if rec {
				evid.Label(fmt.Sprintf("ping-socket-write:type%d", pw.Type))
			}
		}
		hold := bi < len(c.Hold) && c.Hold[bi]
		if hold {
			gmu.Lock()
			gate = make(chan struct{})
			holdStart = time.Now()
			gmu.Unlock()
			if rec {
				evid.Label(fmt.Sprintf("hold:burst-of-%d", len(burst)))
			}
		}
		for i, r := range burst {
			if r.Kind != "echo" {
				r.Kind = "other"
				if (!r.V6 && r.Type == 8) || (r.V6 && r.Type == 128) {
					r.Type = 0 // "other" never is an echo request
					if r.V6 {
						r.Type = 129
					}
				}
			}
			s := &sent{r: r, burst: bi, i: i, src: r.srcAddr(), dst: r.dstAddr(), payload: payload(r.PMode, r.PSeed, r.PLen)}
			s.owned = r.Dst == 0 || (r.Dst == 1 && !removedB)
			// "while fewer than ten requests are pending every request is answered":
			// the i-th message of a burst finds at most i earlier ones pending
			s.required = s.owned && i < 9 && r.BadCk == 0
			if rec && r.Kind == "echo" && r.BadCk != 0 {
				evid.Label("req:damaged-checksum(optional)")
			}
			if rec && r.Kind == "echo" && r.Dst == 1 && removedB {
				evid.Label("req:to-removed-address")
			}
			if rec && r.Kind == "echo" && s.owned && !s.required {
				evid.Label("req:beyond-nine-pending(optional)")
			}
			n++
			pk := r.packets(uint16(0x4000 + 131*n))
			proto := tcpip.NetworkProtocolNumber(ipv4.ProtocolNumber)
			if r.V6 {
				proto = ipv6.ProtocolNumber
			}
			for k, w := range pk {
				vs := w.views(r.Chunk)
				s.nviews += len(vs)
				if oddNonFinal(w, vs) {
					s.odd = true
				}
				if k == len(pk)-1 {
					s.at = tap.Len()
					gmu.Lock()
					sents = append(sents, s)
					gmu.Unlock()
				}
				tap.InjectViews(proto, "", vs)
			}
			if rec {
				recordReq(s, len(burst), len(pk))
			}
		}
		if hold {
			gmu.Lock()
			close(gate)
			gate = nil
			gmu.Unlock()
		}
		// wait until every request to an owned address has its reply
		end := time.Now().Add(deadline)
		for {
			tr := tap.Trace()
			f, un := judge(tr, sents)
			if f != nil {
				return f, nil
			}
			if len(un) == 0 {
				break
			}
			rem := time.Until(end)
			if rem <= 0 {
				if dbgTrace {
					for _, s := range sents {
						fmt.Printf("sent burst %d #%d at=%d answered=%v owned=%v required=%v %s plen=%d\n", s.burst, s.i, s.at, s.answered, s.owned, s.required, s.r.fam(), s.r.PLen)
					}
					for _, f := range tr {
						fmt.Println("  ", frameStr(f))
					}
				}
				return nil, evid.Failf("unanswered:"+un[0].r.fam(), "no echo reply within %v for a request to an owned address with only %d messages in the burst: %s\n  stack counters: %s",
					deadline, len(burst), un[0], netsim.StatsString(st))
			}
			tap.Scan(len(tr), rem, func(netsim.Frame) bool { return true })
		}
		if len(burst) > 9 || (bi+1 < len(c.Ops) && c.Ops[bi+1] != 0) {
			// optional requests (beyond nine pending) are answered or dropped: wait until the wire is quiet
			tap.Quiesce(5*time.Millisecond, 500*time.Millisecond)
		}
	}
	// anything that still trickles out (second replies, replies for someone else)
	tap.Quiesce(evid.Pick(2*time.Millisecond, 4*time.Millisecond), 200*time.Millisecond)
	f, _ := judge(tap.Trace(), sents)
	if rec && len(sents) > 1 {
		// an evaluation is one injected request (the Spec / sweep wrapper counts one per case)
		evid.Eval(int64(len(sents) - 1))
	}
	if f == nil && rec {
		for _, s := range sents {
			if s.r.Kind == "echo" && s.answered && len(s.payload) >= 1 {
				ch, _ := json.Marshal(s.r.Chunk)
				evid.NonTrivialKey(s.r.fam(), s.r.ID, s.r.Seq, s.r.PLen, string(ch), fmt.Sprint(s.r.FragAt, s.r.FragOrder))
			}
		}
	}
	return f, nil
}

// goid returns the current goroutine's number (from the stack header; the
// harness only compares it with the injecting goroutine's).
func goid() string {
	var buf [40]byte
	b := buf[:runtime.Stack(buf[:], false)]
	b = bytes.TrimPrefix(b, []byte("goroutine "))
	if i := bytes.IndexByte(b, ' '); i > 0 {
		b = b[:i]
	}
	return string(b)
}

func recordReq(s *sent, burstLen, npk int) {
	r := s.r
	evid.Label("req:total")
	evid.Label("req:" + r.fam() + ":" + r.Kind)
	evid.Label(fmt.Sprintf("burst-size:%d", burstLen))
	if r.Kind != "echo" {
		evid.Label(fmt.Sprintf("other:%s:type%d", r.fam(), r.Type))
		return
	}
	evid.Label("dst:" + r.fam() + ":" + dstClass[r.Dst])
	evid.Label("len:" + r.fam() + ":" + lenClass(r.PLen))
	mode := r.Chunk.Mode
	if mode != "link" && mode != "split" {
		mode = "single"
	}
	if s.nviews == npk {
		mode = "single"
	}
	evid.Label("chunk:" + r.fam() + ":" + mode)
	if s.odd {
		evid.Label("chunk:" + r.fam() + ":odd-nonfinal-payload-view")
	} else if s.nviews > npk {
		evid.Label("chunk:" + r.fam() + ":multi-view-even-only")
	}
	if npk > 1 {
		evid.Label("fragmented:v4")
		evid.Label(fmt.Sprintf("fragmented:v4:order%d", mod(r.FragOrder, 4)))
	}
	if boundary(r.Seq) {
		evid.Label("seq:boundary")
	}
	if boundary(r.ID) {
		evid.Label("id:boundary")
	}
	if r.Opt > 0 && !r.V6 {
		evid.Label("v4:ip-options")
	}
	if r.PLen >= 1 && r.owned() {
		par := "even"
		if r.PLen%2 == 1 {
			par = "odd"
		}
		evid.Sample(fmt.Sprintf("%s/%s/frag=%v/%s", r.fam(), par, npk > 1, mode), r)
	}
}

// runCase decides one case: safety violations at once, a missed deadline only
// when two re-runs with a longer deadline miss as well.
func runCase(c Case) *evid.Failure {
	evid.Journal(checkName, c)
	f, miss := runOnce(c, 3*time.Second, true)
	if f != nil {
		return f
	}
	if miss == nil {
		return nil
	}
	for k := 0; k < 2; k++ {
		f2, m2 := runOnce(c, 6*time.Second, false)
		if f2 != nil {
			return f2
		}
		if m2 == nil {
			evid.Label("deadline-miss-not-confirmed")
			evid.Unconfirmed()
			return nil
		}
		miss = m2
	}
	return miss
}

// ---------------------------------------------------------------------------
// Generator

var (
	mtus    = []int{1500, 1500, 1500, 1500, 1500, 576, 1280, 9000, 65535}
	bounds  = []uint16{0, 1, 0x7fff, 0x8000, 0xfffe, 0xffff, 0x00ff, 0xff00}
	others4 = []uint8{0, 0, 0, 3, 4, 5, 11, 12, 13, 14, 17, 18, 9, 40}
	others6 = []uint8{129, 129, 129, 1, 2, 3, 4, 133, 134, 135, 136, 130, 200}
	linkKs  = []int{1, 1, 1, 2, 7, 16, 64, 256}
)

func genU16(rt *rapid.T, label string) uint16 {
	if rapid.IntRange(0, 2).Draw(rt, label+"-boundary") == 0 {
		return rapid.SampledFrom(bounds).Draw(rt, label)
	}
	return rapid.Uint16().Draw(rt, label)
}

// focus pins family and destination of every request of a burst.
type focus struct {
	v6  bool
	dst int
}

// protoReq is a generated request plus an optional instruction to repeat the
// request `back` positions earlier in the case instead (resolved in genCase).
type protoReq struct {
	r       Req
	back    int
	asReply bool
}

func genReq(rt *rapid.T, mtu int, noOdd6 bool, fo *focus) protoReq {
	var pr protoReq
	if fo == nil && rapid.IntRange(0, 11).Draw(rt, "repeat") == 11 {
		// the same request again, or an echo *reply* that looks like an earlier request
		pr.back = rapid.IntRange(1, 9).Draw(rt, "repeat-back")
		pr.asReply = rapid.Bool().Draw(rt, "as-reply")
	}
	var r Req
	if fo != nil {
		r.V6 = fo.v6
	} else {
		r.V6 = rapid.Bool().Draw(rt, "v6")
	}
	r.Kind = "echo"
	if fo == nil && rapid.IntRange(0, 6).Draw(rt, "other") == 0 {
		r.Kind = "other"
		if r.V6 {
			r.Type = rapid.SampledFrom(others6).Draw(rt, "type6")
		} else {
			r.Type = rapid.SampledFrom(others4).Draw(rt, "type4")
		}
		r.Code = uint8(rapid.IntRange(0, 5).Draw(rt, "code"))
	}
	if fo != nil {
		r.Dst = fo.dst
	} else {
		r.Dst = rapid.SampledFrom([]int{0, 0, 0, 1, 1, 1, 2, 3}).Draw(rt, "dst")
	}
	if r.Dst >= 2 {
		r.DstV = rapid.IntRange(0, 2).Draw(rt, "dstv")
	}
	r.Src = rapid.IntRange(0, 3).Draw(rt, "src")
	r.ID = genU16(rt, "id")
	r.Seq = genU16(rt, "seq")
	r.PMode = rapid.SampledFrom([]int{2, 2, 2, 2, 3, 0, 1}).Draw(rt, "pmode")
	r.PSeed = rapid.Uint32().Draw(rt, "pseed")
	r.TTL = uint8(rapid.SampledFrom([]int{64, 1, 255, 128}).Draw(rt, "ttl"))
	if rapid.SampledFrom([]int{0, 0, 0, 0, 0, 0, 0, 1}).Draw(rt, "bad-ck") == 1 {
		r.BadCk = rapid.SampledFrom([]uint16{1, 0x0100, 0x8000, 0xffff, 0x5aa5}).Draw(rt, "bad-ck-mask")
	}
	r.TOS = uint8(rapid.SampledFrom([]int{0, 0, 0x10, 0xfc}).Draw(rt, "tos"))
	if !r.V6 {
		r.Opt = rapid.SampledFrom([]int{0, 0, 0, 0, 0, 4, 8}).Draw(rt, "ipopt")
	}
	maxU := mtu - 20 - r.Opt - 8
	if r.V6 {
		maxU = mtu - 48
	}
	r.PLen = rapid.OneOf(rapid.IntRange(0, 130), rapid.IntRange(0, 130), rapid.IntRange(0, 130), rapid.IntRange(0, 130),
		rapid.IntRange(0, maxU), rapid.IntRange(maxU-5, maxU)).Draw(rt, "plen")
	if r.Kind == "echo" && !r.V6 && maxU < 65000 && rapid.IntRange(0, 24).Draw(rt, "huge") == 0 {
		r.PLen = rapid.OneOf(rapid.IntRange(maxU+1, 65507), rapid.IntRange(65500, 65507)).Draw(rt, "plen-huge")
	}
	if r.PLen > 65507 {
		r.PLen = 65507
	}
	if r.Kind == "other" && r.PLen > 400 {
		r.PLen = 400
	}
	// IPv4 fragmentation (consistent: no overlap, no duplicate, every fragment within the MTU)
	if !r.V6 && r.Kind == "echo" {
		l4 := 8 + r.PLen
		need := r.PLen > maxU
		if need || (l4 >= 16 && rapid.IntRange(0, 4).Draw(rt, "fragment") == 0) {
			maxFD := (mtu - 20 - r.Opt) &^ 7
			if need || rapid.Bool().Draw(rt, "frag-uniform") {
				lo := (l4/60 + 7) / 8
				if lo < 1 {
					lo = 1
				}
				hi := maxFD / 8
				if hi > (l4-1)/8 {
					hi = (l4 - 1) / 8
				}
				if lo > hi {
					lo = hi
				}
				sz := 8 * rapid.IntRange(lo, hi).Draw(rt, "frag-size8")
				for c := sz; c < l4; c += sz {
					r.FragAt = append(r.FragAt, c)
				}
			} else {
				k := rapid.IntRange(1, 4).Draw(rt, "frag-cuts")
				set := map[int]bool{}
				for i := 0; i < k; i++ {
					set[8*rapid.IntRange(1, (l4-1)/8).Draw(rt, "frag-at8")] = true
				}
				for c := range set {
					r.FragAt = append(r.FragAt, c)
				}
				sort.Ints(r.FragAt)
			}
			r.FragOrder = rapid.IntRange(0, 3).Draw(rt, "frag-order")
		} else {
			r.DF = rapid.Bool().Draw(rt, "df")
		}
	}
	// chunking into views
	span := r.PLen
	if r.Kind == "other" {
		span = r.PLen + 48
	}
	switch m := rapid.IntRange(0, 9).Draw(rt, "chunk"); {
	case m <= 2 || (m >= 6 && span < 1):
		r.Chunk.Mode = "single"
	case m <= 5:
		r.Chunk.Mode = "link"
		r.Chunk.K = rapid.SampledFrom(linkKs).Draw(rt, "link-k")
	default:
		r.Chunk.Mode = "split"
		k := rapid.IntRange(1, 4).Draw(rt, "cuts")
		set := map[int]bool{}
		for i := 0; i < k; i++ {
			hi := span - 1
			if rapid.Bool().Draw(rt, "cut-near-front") && hi > 9 {
				hi = 9
			}
			set[rapid.IntRange(0, hi).Draw(rt, "cut")] = true
		}
		for c := range set {
			r.Chunk.Cuts = append(r.Chunk.Cuts, c)
		}
		sort.Ints(r.Chunk.Cuts)
	}
	if noOdd6 && r.V6 {
		// finding F7 is listed as known: keep every non-final payload view even (excluded by construction, counted)
		changed := false
		if r.Chunk.Mode == "link" && r.Chunk.K > 1 && r.Chunk.K%2 == 1 {
			r.Chunk.K++
			changed = true
		}
		for i, c := range r.Chunk.Cuts {
			if c%2 == 1 {
				r.Chunk.Cuts[i] = c - 1
				changed = true
			}
		}
		if changed {
			evid.Exclude("F7:ipv6-odd-nonfinal-payload-view")
		}
	}
	pr.r = r
	return pr
}

type protoBurst struct {
	hold bool
	reqs []protoReq
}

func genCase(rt *rapid.T) Case {
	var c Case
	c.MTU = rapid.SampledFrom(mtus).Draw(rt, "mtu")
	c.Pad = rapid.SampledFrom([]int{0, 0, 0, 46, 46, 1, 7}).Draw(rt, "linkpad")
	c.Offload = rapid.IntRange(0, 3).Draw(rt, "offload") == 0
	noOdd6 := evid.IsKnownListed("F7")
	reqGen := func(fo *focus) *rapid.Generator[protoReq] {
		return rapid.Custom(func(rt *rapid.T) protoReq { return genReq(rt, c.MTU, noOdd6, fo) })
	}
	burstGen := rapid.Custom(func(rt *rapid.T) protoBurst {
		var b protoBurst
		switch rapid.IntRange(0, 6).Draw(rt, "burst-kind") {
		case 6: // flood: more than the echo queue holds, held or not, to one owned address
			b.hold = rapid.Bool().Draw(rt, "flood-held")
			fo := &focus{v6: rapid.Bool().Draw(rt, "focus-v6"), dst: rapid.IntRange(0, 1).Draw(rt, "focus-dst")}
			n := rapid.SampledFrom([]int{10, 11, 12, 15, 24, 40}).Draw(rt, "flood-size")
			b.reqs = rapid.SliceOfN(reqGen(fo), n, n).Draw(rt, "flood-requests")
		case 5: // held, all requests to one owned address: they queue up behind the first reply
			b.hold = true
			fo := &focus{v6: rapid.Bool().Draw(rt, "focus-v6"), dst: rapid.IntRange(0, 1).Draw(rt, "focus-dst")}
			n := rapid.SampledFrom([]int{2, 5, 8, 9, 9, 9}).Draw(rt, "held-size")
			b.reqs = rapid.SliceOfN(reqGen(fo), n, n).Draw(rt, "held-requests")
		case 4:
			b.hold = true
			fallthrough
		default:
			b.reqs = rapid.SliceOfN(reqGen(nil), 1, 9).Draw(rt, "requests")
		}
		return b
	})
	var all []Req
	for _, b := range rapid.SliceOfN(burstGen, 1, 5).Draw(rt, "bursts") {
		var burst []Req
		for _, pr := range b.reqs {
			r := pr.r
			if pr.back > 0 && len(all) >= pr.back {
				r = all[len(all)-pr.back]
				if pr.asReply && r.Kind == "echo" {
					r.Kind, r.Type, r.FragAt = "other", 0, nil
					if r.V6 {
						r.Type = 129
					}
				}
			}
			burst = append(burst, r)
			all = append(all, r)
		}
		c.Bursts = append(c.Bursts, burst)
		c.Hold = append(c.Hold, b.hold)
		c.Ops = append(c.Ops, rapid.SampledFrom([]int{0, 0, 0, 0, 0, 1, 1, 2}).Draw(rt, "addr-op"))
	}
	// transmit faults on echo replies
	if rapid.SampledFrom([]int{0, 0, 0, 1}).Draw(rt, "refuse") == 1 {
		for i, n := 0, rapid.IntRange(1, 2).Draw(rt, "nrefuse"); i < n; i++ {
			c.Refuse = append(c.Refuse, rapid.IntRange(1, 8).Draw(rt, "refuse_k"))
		}
	}
	// ping-socket writes (an application hands arbitrary ICMP messages to the stack)
	for i, n := 0, rapid.SampledFrom([]int{0, 0, 0, 1, 2, 3}).Draw(rt, "npings"); i < n; i++ {
		v6 := rapid.Bool().Draw(rt, "ping-v6")
		typ := uint8(rapid.SampledFrom([]int{8, 0, 0, 3, 13, 255}).Draw(rt, "ping-type"))
		if v6 {
			typ = uint8(rapid.SampledFrom([]int{128, 129, 129, 1, 135, 255}).Draw(rt, "ping-type6"))
		}
		c.Pings = append(c.Pings, PingW{At: rapid.IntRange(0, len(c.Bursts)-1).Draw(rt, "ping-at"), V6: v6, Type: typ,
			Code: uint8(rapid.SampledFrom([]int{0, 0, 0, 1, 255}).Draw(rt, "ping-code")), ID: 0xabc0 + uint16(i), Seq: 0xdef0 + uint16(i),
			PLen: rapid.SampledFrom([]int{0, 1, 8, 56, 1400}).Draw(rt, "ping-plen"), Conn: rapid.Bool().Draw(rt, "ping-conn")})
	}
	return c
}

// TestEcho is the rapid-driven check (and the replay entry point of every
// C13 case).
func TestEcho(t *testing.T) {
	evid.Run(t, evid.Spec[Case]{Name: checkName, Gen: genCase, Run: runCase})
}
