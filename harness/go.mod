module verifharness

go 1.23

require (
	github.com/brewlin/net-protocol v0.0.0
	pgregory.net/rapid v1.3.0
)

replace github.com/brewlin/net-protocol => /repo
