package c04

import (
	"bytes"
	"fmt"
	"testing"
	"time"

	tcpip "github.com/brewlin/net-protocol/protocol"
	"pgregory.net/rapid"
	"verifharness/codec"
	"verifharness/evid"
	"verifharness/netsim"
	"verifharness/rawpeer"
)

// RStep is one action of the receive-direction script.
type RStep struct {
	Kind string `json:"kind"` // inorder | straddle | beyond | left | read | readall | wait
	Len  int    `json:"len"`
	Gap  int    `json:"gap"` // beyond: distance past the advertised right edge; left: distance below rcvNxt
}

type RecvCase struct {
	Env   rawpeer.EnvCfg `json:"env"`
	WS    int            `json:"ws"` // peer's window scale option (-1 none): enables the stack's own scaling
	TS    bool           `json:"ts"`
	ISS   uint32         `json:"iss"`
	Steps []RStep        `json:"steps"`
	Seed  uint64         `json:"seed"`
}

const poisonByte = 0xA5

func runRecv(c RecvCase) *evid.Failure {
	env := rawpeer.NewEnv(c.Env)
	defer env.Close()
	l, s, p, err := env.Passive(80, 50000, c.ISS, rawpeer.SynOpts{MSS: 1460, WS: c.WS, TS: c.TS, SACKPerm: c.Env.SACK}, 65535)
	if l != nil {
		defer l.EP.Close()
	}
	if err != nil {
		evid.Label("recv:no-connection")
		return nil
	}
	defer s.EP.Close()
	rcvScale := uint(0)
	if p.StackWS >= 0 && c.WS >= 0 {
		rcvScale = uint(p.StackWS)
	}
	stream := pattern(c.Seed, 1<<17)
	for i := range stream {
		if stream[i] == poisonByte {
			stream[i] = poisonByte ^ 1
		}
	}
	// --- tracking the stack's advertisements: the right edge must not retreat
	// by more than the scale quantum
	cur := 0
	var maxEdge uint32
	haveEdge := false
	lastWnd := uint32(0)
	sawZero, sawReopen := false, false
	scan := func() *evid.Failure {
		tr := env.Tap.Trace()
		for ; cur < len(tr); cur++ {
			f := tr[cur]
			if !p.Mine(f) || f.Pkt.Flags&codec.ACK == 0 || f.Pkt.Flags&codec.RST != 0 {
				continue
			}
			sc := rcvScale
			if f.Pkt.Flags&codec.SYN != 0 {
				sc = 0
			}
			edge := f.Pkt.Ack + uint32(f.Pkt.Wnd)<<sc - (p.ISS + 1)
			if haveEdge && int32(edge-maxEdge) < 0 && maxEdge-edge > (1<<rcvScale)-1 {
				return evid.Failf("recv-edge-retreat", "advertised right edge moved left from stream offset %d to %d (ack=%d wnd=%d scale=%d): more than the %d bytes window-scale quantisation allows", maxEdge, edge, f.Pkt.Ack-(p.ISS+1), f.Pkt.Wnd, rcvScale, (1<<rcvScale)-1)
			}
			if !haveEdge || int32(edge-maxEdge) > 0 {
				maxEdge, haveEdge = edge, true
			}
			if f.Pkt.Flags&codec.SYN == 0 {
				w := uint32(f.Pkt.Wnd) << sc
				if w == 0 {
					sawZero = true
				} else if sawZero && lastWnd == 0 {
					sawReopen = true
				}
				lastWnd = w
			}
		}
		return nil
	}
	lastAck := func() uint32 { // highest cumulative ack seen from the stack (stream offset)
		tr := env.Tap.Trace()
		var a uint32
		for _, f := range tr {
			if p.Mine(f) && f.Pkt.Flags&codec.ACK != 0 && f.Pkt.Flags&codec.SYN == 0 {
				if x := f.Pkt.Ack - (p.ISS + 1); int32(x-a) > 0 {
					a = x
				}
			}
		}
		return a
	}
	var sentEdgeRef func() uint32
	settle := func() { time.Sleep(300 * time.Microsecond) }
	var evlog []string
	logf := func(format string, a ...any) {
		evlog = append(evlog, fmt.Sprintf("%s  [maxEdge=%d sentEdge=%d]", fmt.Sprintf(format, a...), maxEdge, sentEdgeRef()))
	}
	dump := func() string {
		out := "harness log:\n"
		for _, l := range evlog {
			out += "  " + l + "\n"
		}
		out += "frames from the stack:\n"
		for _, f := range env.Tap.Trace() {
			if p.Mine(f) {
				out += fmt.Sprintf("  %s ack=+%d wnd=%d len=%d\n", codec.FlagString(f.Pkt.Flags), f.Pkt.Ack-(p.ISS+1), f.Pkt.Wnd, len(f.Pkt.Payload))
			}
		}
		return out
	}
	var got []byte
	sentEdge := uint32(0) // in-order bytes the peer has sent so far (stream offset)
	sentEdgeRef = func() uint32 { return sentEdge }
	offeredEdge := uint32(0) // highest stream offset up to which true bytes were offered contiguously
	var lastRead time.Time
	poisonEnd := uint32(0) // highest stream offset at which poison was ever sent
	// edgeIsFinal reports whether the right edge seen on the tap cannot have
	// grown unnoticed: the edge only grows at an emission that follows an
	// application read, and emissions are serialised, so after two emissions
	// later than the last read it is final.
	edgeTainted := false
	edgeIsFinal := func() bool {
		if edgeTainted {
			return false
		}
		n := 0
		for _, f := range env.Tap.Trace() {
			if p.Mine(f) && f.T.After(lastRead) {
				n++
			}
		}
		return n >= 2
	}
	read := func(all bool) *evid.Failure {
		for {
			v, _, rerr := s.EP.Read(nil)
			lastRead = time.Now()
			if rerr != nil {
				return nil
			}
			got = append(got, v...)
			if bytes.IndexByte(v, poisonByte) >= 0 {
				return evid.Failf("recv-poison", "the application read bytes that were only ever sent wholly outside the advertised window (read so far %d bytes)\n%s", len(got), dump())
			}
			if len(got) > int(offeredEdge) || !bytes.Equal(got, stream[:len(got)]) {
				return evid.Failf("recv-content", "the application read %d bytes which are not the in-order bytes sent (offered in order so far: %d)\n%s", len(got), offeredEdge, dump())
			}
			if !all {
				return nil
			}
		}
	}
	beyond, nearBeyond, straddle, left, zeroEpisodes, resized := 0, 0, 0, 0, 0, 0
	// a real sender retransmits what is not acknowledged (the stack may drop
	// segments, e.g. when its segment queue limit shrinks with the buffer)
	lastRtx := time.Now()
	retransmit := func() {
		if time.Since(lastRtx) < 20*time.Millisecond {
			return
		}
		lastRtx = time.Now()
		a := lastAck()
		for n := 0; int32(sentEdge-a) > 0 && n < 8; n++ {
			k := sentEdge - a
			if k > 1400 {
				k = 1400
			}
			p.Data(a, stream[a:a+k], codec.PSH)
			a += k
		}
	}
	time.Sleep(time.Millisecond)
	if f := scan(); f != nil {
		return f
	}
	for _, st := range c.Steps {
		if f := scan(); f != nil {
			return f
		}
		avail := int32(maxEdge - sentEdge) // what the advertised window still allows
		switch st.Kind {
		case "inorder":
			n := st.Len
			if int32(n) > avail {
				n = int(avail)
			}
			if n <= 0 || int(sentEdge)+n > len(stream) {
				continue
			}
			logf("inorder %d", n)
			if sentEdge+uint32(n) > offeredEdge {
				offeredEdge = sentEdge + uint32(n)
			}
			p.Data(sentEdge, stream[sentEdge:int(sentEdge)+n], codec.PSH)
			sentEdge += uint32(n)
			settle()
		case "straddle":
			// starts inside the window, ends beyond it: true content (it may be accepted)
			if avail <= 0 || int(sentEdge)+int(avail)+st.Len > len(stream) || st.Len <= 0 {
				continue
			}
			n := int(avail) + st.Len
			logf("straddle %d", n)
			if sentEdge+uint32(n) > offeredEdge {
				offeredEdge = sentEdge + uint32(n)
			}
			p.Data(sentEdge, stream[sentEdge:int(sentEdge)+n], codec.PSH)
			straddle++
			// the stack decides how much it takes: follow its acknowledgement
			// (a straddling segment that is taken whole moves rcvNxt past the old
			// right edge, so the edge grows without a read: wait for that ACK)
			taken := false
			for dl := time.Now().Add(time.Second); time.Now().Before(dl); time.Sleep(200 * time.Microsecond) {
				if a := lastAck(); int32(a-sentEdge) > 0 {
					sentEdge = a
					taken = true
					break
				}
			}
			if !taken {
				edgeTainted = true
			}
		case "beyond":
			// wholly outside: at least one scale quantum past the advertised edge.
			// If the edge on the tap may be stale, go past anything the receive
			// buffer could ever allow from here.
			if st.Len <= 0 {
				continue
			}
			start := maxEdge + uint32(1<<rcvScale) + uint32(st.Gap)
			if edgeIsFinal() {
				if f := scan(); f != nil {
					return f
				}
				start = maxEdge + uint32(1<<rcvScale) + uint32(st.Gap)
				nearBeyond++
			} else {
				start = offeredEdge + uint32(c.Env.RcvBuf) + uint32(1<<rcvScale) + uint32(st.Gap%2000)
			}
			if int(start)+st.Len+1500 > len(stream) {
				continue
			}
			logf("poison at %d len %d (near=%v)", start, st.Len, edgeIsFinal())
			p.Data(start, bytes.Repeat([]byte{poisonByte}, st.Len), codec.PSH)
			if e := start + uint32(st.Len); e > poisonEnd {
				poisonEnd = e
			}
			beyond++
			settle()
		case "closedstraddle":
			// the window is closed (everything up to the advertised edge has been sent and
			// that edge is final): a segment that repeats the last Gap bytes already
			// received and goes on beyond the edge brings only data from outside the window
			if st.Len <= 0 || !edgeIsFinal() {
				continue
			}
			if f := scan(); f != nil {
				return f
			}
			if maxEdge != sentEdge || edgeTainted {
				continue
			}
			back := uint32(st.Gap%200 + 1)
			if back > sentEdge {
				back = sentEdge
			}
			if int(sentEdge)+st.Len+1500 > len(stream) {
				continue
			}
			a := sentEdge - back
			seg := append(append([]byte(nil), stream[a:sentEdge]...), bytes.Repeat([]byte{poisonByte}, st.Len)...)
			logf("closed-window straddle at %d: %d old bytes + %d beyond the edge", a, back, st.Len)
			p.Data(a, seg, codec.PSH)
			if e := sentEdge + uint32(st.Len); e > poisonEnd {
				poisonEnd = e
			}
			evid.Label("recv:straddle-into-closed-window")
			beyond++
			settle()
		case "left":
			if st.Len <= 0 || uint32(st.Gap+st.Len) > sentEdge {
				continue
			}
			a := sentEdge - uint32(st.Gap+st.Len)
			p.Data(a, stream[a:a+uint32(st.Len)], codec.PSH)
			left++
			settle()
		case "read":
			logf("read")
			if f := read(false); f != nil {
				return f
			}
		case "readall":
			logf("readall")
			if f := read(true); f != nil {
				return f
			}
		case "setbuf":
			// the application resizes its receive buffer (never above the initial size)
			n := c.Env.RcvBuf * st.Len / 4
			if n < 1 {
				n = 1
			}
			logf("setbuf %d", n)
			s.EP.SetSockOpt(tcpip.ReceiveBufferSizeOption(n))
			lastRead = time.Now()
			resized++
			settle()
		case "wait":
			time.Sleep(time.Duration(st.Len) * time.Microsecond)
		}
	}
	// closing phase: fill the window completely with the reader stopped, expect
	// a zero window; then drain and expect it to reopen and all in-window bytes
	// to be delivered.
	fillDeadline := time.Now().Add(3 * time.Second)
	for time.Now().Before(fillDeadline) {
		if f := scan(); f != nil {
			return f
		}
		avail := int32(maxEdge - sentEdge)
		if avail <= 0 {
			if lastAck() == sentEdge {
				break
			}
			time.Sleep(time.Millisecond)
			retransmit()
			continue
		}
		n := int(avail)
		if n > 1400 {
			n = 1400
		}
		if int(sentEdge)+n > len(stream) {
			break
		}
		if sentEdge+uint32(n) > offeredEdge {
			offeredEdge = sentEdge + uint32(n)
		}
		p.Data(sentEdge, stream[sentEdge:int(sentEdge)+n], codec.PSH)
		sentEdge += uint32(n)
		settle()
	}
	time.Sleep(5 * time.Millisecond)
	if f := scan(); f != nil {
		return f
	}
	filled := int32(maxEdge-sentEdge) <= 0 && lastAck() == sentEdge
	if filled {
		zeroEpisodes++
		// everything offered was sent and acknowledged with the reader stopped: the last advertisement must be zero
		dl := time.Now().Add(2 * time.Second)
		for lastWnd != 0 && time.Now().Before(dl) {
			time.Sleep(2 * time.Millisecond)
			if f := scan(); f != nil {
				return f
			}
		}
		if lastWnd != 0 && int32(maxEdge-sentEdge) <= 0 {
			return evid.Failf("recv-no-zero-window", "the window was filled to its advertised right edge (offset %d) with the application not reading, everything was acknowledged, but the last advertised window is %d, not 0", maxEdge, lastWnd)
		}
	}
	closedNow := filled && sawZero && lastWnd == 0
	sawReopen = false
	if f := read(true); f != nil {
		return f
	}
	if closedNow && len(got) > 0 {
		dl := time.Now().Add(3 * time.Second)
		for !sawReopen && time.Now().Before(dl) {
			time.Sleep(2 * time.Millisecond)
			if f := scan(); f != nil {
				return f
			}
		}
		if !sawReopen {
			return evid.Failf("recv-no-reopen", "the application drained a closed window (advertised 0 at right edge %d) but no segment advertising a non-zero window followed within 3 s", maxEdge)
		}
	}
	// keep sending (and reading) until the in-order stream has passed every
	// position at which poison was offered: had any of it been kept, it would
	// surface now
	pushDeadline := time.Now().Add(6 * time.Second)
	for sentEdge < poisonEnd && int(sentEdge)+1400 < len(stream) && time.Now().Before(pushDeadline) {
		if f := scan(); f != nil {
			return f
		}
		avail := int32(maxEdge - sentEdge)
		if avail <= 0 {
			if f := read(true); f != nil {
				return f
			}
			time.Sleep(200 * time.Microsecond)
			retransmit()
			continue
		}
		n := int(avail)
		if n > 1400 {
			n = 1400
		}
		if sentEdge+uint32(n) > offeredEdge {
			offeredEdge = sentEdge + uint32(n)
		}
		p.Data(sentEdge, stream[sentEdge:int(sentEdge)+n], codec.PSH)
		sentEdge += uint32(n)
		settle()
		if f := read(true); f != nil {
			return f
		}
	}
	if sentEdge >= poisonEnd && poisonEnd > 0 {
		evid.Label("recv:stream-passed-poisoned-offsets")
	}
	// everything sent in order and in window must have been delivered
	dl := time.Now().Add(4 * time.Second)
	for len(got) < int(sentEdge) && time.Now().Before(dl) {
		time.Sleep(time.Millisecond)
		retransmit()
		if f := read(true); f != nil {
			return f
		}
	}
	if len(got) != int(sentEdge) {
		return evid.Failf("recv-undelivered", "%d bytes were sent in order inside the advertised window (and acknowledged up to %d) but the application could read only %d", sentEdge, lastAck(), len(got))
	}
	if f := scan(); f != nil {
		return f
	}
	if resized > 0 {
		evid.Label("recv:buffer-resized")
	}
	if beyond > 0 {
		evid.Label("recv:beyond-window-offered")
	}
	if nearBeyond > 0 {
		evid.Label("recv:beyond-window-right-at-the-edge")
	}
	if straddle > 0 {
		evid.Label("recv:straddling-offered")
	}
	if left > 0 {
		evid.Label("recv:left-of-window-offered")
	}
	if zeroEpisodes > 0 {
		evid.Label("recv:zero-window-episode")
	}
	if rcvScale > 0 {
		evid.Label(fmt.Sprintf("recv:scale-%d", rcvScale))
	}
	if beyond+straddle+zeroEpisodes > 0 {
		evid.NonTrivialKey("recv", fmt.Sprintf("%+v", c))
		evid.Sample("recv", c)
	}
	return nil
}

func genRecv(rt *rapid.T) RecvCase {
	var c RecvCase
	c.Env.V6 = rapid.Bool().Draw(rt, "v6")
	c.Env.SACK = rapid.Bool().Draw(rt, "sack")
	c.Env.MTU = 1500
	c.Env.RcvBuf = rapid.SampledFrom([]int{4096, 8192, 16384, 65536}).Draw(rt, "rcvbuf")
	c.WS = rapid.SampledFrom([]int{-1, -1, 0, 3, 7}).Draw(rt, "ws")
	c.TS = rapid.Bool().Draw(rt, "ts")
	// the peer's initial sequence number: anywhere, or below a wrap point by at most what will
	// be sent plus the receive buffer (the data, or first the right edge of the window, crosses
	// the point); always near a wrap point when hosted by C14's plan (C04_FORCE_WRAP=1)
	below := uint32(rapid.OneOf(rapid.IntRange(0, 20000), rapid.IntRange(c.Env.RcvBuf+1, c.Env.RcvBuf+20000), rapid.IntRange(0, c.Env.RcvBuf+20000)).Draw(rt, "iss_below"))
	if rapid.Bool().Draw(rt, "iss_32") {
		below = 0 - below
	} else {
		below = 1<<31 - below
	}
	c.ISS = below
	if !forceWrap && rapid.Bool().Draw(rt, "iss_anywhere") {
		c.ISS = rapid.Uint32().Draw(rt, "iss")
	}
	c.Seed = rapid.Uint64().Draw(rt, "seed")
	n := rapid.IntRange(1, 25).Draw(rt, "nsteps")
	for i := 0; i < n; i++ {
		var st RStep
		st.Kind = rapid.SampledFrom([]string{"inorder", "inorder", "inorder", "inorder", "straddle", "beyond", "beyond", "closedstraddle", "closedstraddle", "left", "read", "readall", "wait", "setbuf"}).Draw(rt, "kind")
		st.Len = rapid.OneOf(rapid.IntRange(1, 10), rapid.IntRange(1, 1400)).Draw(rt, "len")
		st.Gap = rapid.OneOf(rapid.Just(0), rapid.IntRange(0, 5), rapid.IntRange(0, 70000)).Draw(rt, "gap")
		if st.Kind == "setbuf" {
			st.Len = rapid.IntRange(0, 4).Draw(rt, "quarters")
		}
		if st.Kind == "wait" {
			st.Len = rapid.SampledFrom([]int{100, 1000, 3000}).Draw(rt, "waitus")
		}
		c.Steps = append(c.Steps, st)
	}
	return c
}

func TestRecv(t *testing.T) {
	evid.Run(t, evid.Spec[RecvCase]{Name: "recv", Gen: genRecv, Run: runRecv})
}

var _ = tcpip.ErrWouldBlock
var _ netsim.Frame
