package c04

import (
	"testing"

	"verifharness/evid"
)

func TestMain(m *testing.M) { evid.Main(m, "C04") }
