// Package c04 decides property C04: the stack never sends beyond the window
// the peer offered (after scaling) nor segments larger than the peer's MSS or
// the MTU allows; the right edge it advertises never moves left; in-window
// data is delivered, data wholly outside is not; the window closes when the
// application stops reading and reopens when it reads again.
package c04

import (
	"bytes"
	"fmt"
	"os"
	"testing"
	"time"

	tcpip "github.com/brewlin/net-protocol/protocol"
	"github.com/brewlin/net-protocol/protocol/transport/tcp"
	"github.com/brewlin/net-protocol/stack"
	"pgregory.net/rapid"
	"verifharness/codec"
	"verifharness/evid"
	"verifharness/netsim"
	"verifharness/rawpeer"
)

func pattern(seed uint64, n int) []byte {
	b := make([]byte, n)
	x := seed*0x9e3779b97f4a7c15 + 1
	for i := range b {
		x ^= x << 13
		x ^= x >> 7
		x ^= x << 17
		b[i] = byte(x >> 24)
	}
	return b
}

// Adv is one advertisement step of the scripted receiver: after the next data
// segment(s) arrive it acknowledges and offers a window.
type Adv struct {
	Wnd     int  `json:"wnd"`      // bytes offered beyond the ack (before quantisation to the scale)
	Shrink  bool `json:"shrink"`   // allow the right edge to move left (legal but discouraged)
	HoldAck bool `json:"hold_ack"` // acknowledge nothing new this time (pure window update)
	DelayUs int  `json:"delay_us"` // wait before answering
	Every   int  `json:"every"`    // answer after this many data segments (1..3)
	Lose    bool `json:"lose"`     // pretend the segment(s) just received were lost: no ACK, not recorded (forces retransmission)
	PMTU    int  `json:"pmtu"`     // >0: before answering, a router reports "packet too big" with this path MTU, quoting the segment just received
	// Replay > 0: after this answer an exact copy of the segment the peer sent
	// Replay segments earlier arrives once more (the network reordered or
	// duplicated it): an old acknowledgement carries an old window and offers nothing new
	Replay int `json:"replay,omitempty"`
	// OldSeq: this answer travels as a keep-alive probe (RFC 1122 4.2.3.6: sequence
	// number one below the peer's SND.NXT), i.e. on a segment older than the last
	// one by sequence number although its acknowledgement and window are current
	OldSeq bool `json:"old_seq,omitempty"`
	// Data > 0: the answer carries that many bytes of the peer's own data (its
	// sequence numbers advance, and with PeerISS placed they cross a wrap point)
	Data int `json:"data,omitempty"`
	// Repeat > 0: the plain answer is followed by that many identical copies of itself
	// (what a receiver answers to zero-window probes and keep-alives, or what the network
	// duplicates): same acknowledgement, same window, no data
	Repeat int `json:"repeat,omitempty"`
}

type SendCase struct {
	Env     rawpeer.EnvCfg `json:"env"`
	Active  bool           `json:"active"` // the stack is the active opener
	MSS     int            `json:"mss"`    // -1: no MSS option
	WS      int            `json:"ws"`     // -1: no window scale option
	InitWnd int            `json:"init_wnd"`
	TS      bool           `json:"ts"`
	Writes  []int          `json:"writes"`
	Advs    []Adv          `json:"advs"`
	Seed    uint64         `json:"seed"`
	// PlaceISS (active opens): the stack's initial sequence number is set to StackISS (hook
	// H2), at most the bytes written below 2^31 / 2^32: always when hosted by C14's plan
	PlaceISS bool   `json:"place_iss,omitempty"`
	StackISS uint32 `json:"stack_iss,omitempty"`
	// PlacePeer: the scripted peer's initial sequence number is PeerISS (next to a wrap
	// point) instead of a random one: the stack's SND.WL1 bookkeeping meets the wrap
	PlacePeer bool   `json:"place_peer,omitempty"`
	PeerISS   uint32 `json:"peer_iss,omitempty"`
}

type offer struct {
	at   time.Time
	edge uint32 // ack + (wnd<<ws) relative to IRS+1 (mod 2^32)
}

var dbg = os.Getenv("C04_DBG") != ""

// forceWrap is set by the C14 unit of the plan that hosts this package's send test.
var forceWrap = os.Getenv("C04_FORCE_WRAP") == "1"

// cookieMode (plan unit with C04_COOKIE=1): every passive open goes through the
// listener's SYN-cookie path (the endpoint is rebuilt from the final ACK: MSS
// from the cookie's table, no window scaling).
func cookieMode() bool { return os.Getenv("C04_COOKIE") == "1" }

func runSend(c SendCase) *evid.Failure {
	if cookieMode() {
		tcp.SynRcvdCountThreshold = 0
		c.Active = false
		evid.Label("send:cookie-handshake")
	}
	env := rawpeer.NewEnv(c.Env)
	if dbg {
		env.Stack.AddTCPProbe(func(st stack.TCPEndpointState) {
			fmt.Printf("probe: maxpayload=%d una=%d nxt=%d wnd=%d outstanding=%d cwnd=%d\n", st.Sender.MaxPayloadSize, st.Sender.SndUna, st.Sender.SndNxt, st.Sender.SndWnd, st.Sender.Outstanding, st.Sender.SndCwnd)
		})
	}
	defer env.Close()
	var s *netsim.Sock
	var p *rawpeer.Peer
	o := rawpeer.SynOpts{MSS: c.MSS, WS: c.WS, TS: c.TS, SACKPerm: c.Env.SACK}
	var offers []offer
	peerISS := uint32(c.Seed)
	if c.PlacePeer {
		peerISS = c.PeerISS
		evid.Label("send:peer-iss-placed-next-to-a-wrap-point")
	}
	if c.Active {
		cs, err := netsim.NewSock(env.Stack, 6, env.Net())
		if err != nil {
			return nil
		}
		s = cs
		p = env.Peer(0, 80, peerISS)
		p.Wnd = uint16(c.InitWnd)
		done := make(chan bool, 1)
		if c.PlaceISS {
			netsim.PlaceISSBegin(c.StackISS)
		}
		go func() {
			e, ok := cs.Connect(tcpip.FullAddress{Addr: env.PeerAddr(), Port: 80}, 5*time.Second)
			done <- ok && e == nil
		}()
		f, _, ok := env.Tap.Scan(0, 3*time.Second, func(f netsim.Frame) bool { return f.Pkt.L4Kind == "tcp" && f.Pkt.Flags&codec.SYN != 0 })
		if c.PlaceISS {
			netsim.PlaceISSEnd()
			if ok && f.Pkt.Seq == c.StackISS {
				evid.Label("send:stack-iss-placed-next-to-a-wrap-point")
			}
		}
		if !ok {
			return nil
		}
		p.StackPort = f.Pkt.SrcPort
		p.Cur = 0
		tInj := time.Now()
		if !p.AcceptActive(o, 3*time.Second) || !<-done {
			evid.Label("send:no-connection")
			return nil
		}
		// the SYN-ACK's window is never scaled
		offers = append(offers, offer{tInj, uint32(c.InitWnd)})
	} else {
		tInj := time.Now()
		l, as, pp, err := env.Passive(80, 50000, peerISS, o, uint16(c.InitWnd))
		if l != nil {
			defer l.EP.Close()
		}
		if err != nil {
			evid.Label("send:no-connection")
			return nil
		}
		s, p = as, pp
		// SYN window unscaled; the final ACK of the handshake repeats the field, now scaled
		offers = append(offers, offer{tInj, uint32(c.InitWnd)})
		sc := uint(0)
		if p.WS >= 0 {
			sc = uint(p.WS)
		}
		offers = append(offers, offer{tInj, uint32(c.InitWnd) << sc})
	}
	defer s.EP.Close()
	scale := uint(0)
	if p.WS >= 0 {
		scale = uint(p.WS)
	}
	mssLimit := c.MSS
	if c.MSS < 0 {
		mssLimit = 536
	}
	total := 0
	for _, w := range c.Writes {
		total += w
	}
	want := pattern(c.Seed, total)
	go func() {
		off := 0
		for _, w := range c.Writes {
			if _, err, ok := s.Write(want[off:off+w], 15*time.Second); err != nil || !ok {
				return
			}
			off += w
			time.Sleep(200 * time.Microsecond)
		}
	}()
	// receiver loop
	have := make([]bool, total)
	edgeRcv := uint32(0) // contiguous bytes received
	acked := uint32(0)
	rightEdge := offers[len(offers)-1].edge
	maxOffer := func(t time.Time) uint32 {
		var m uint32
		first := true
		for _, of := range offers {
			if !of.at.After(t) {
				if first || int32(of.edge-m) > 0 {
					m, first = of.edge, false
				}
			}
		}
		return m
	}
	// path-MTU reports: segments emitted well after a report must fit the reported MTU
	type pmtuEv struct {
		at  time.Time
		mtu int
	}
	var pmtus []pmtuEv
	pmtuBound := 0
	losses := 0
	step, segsSinceAck := 0, 0
	windowBound, tiny, zero := 0, 0, 0
	deadline := time.Now().Add(12 * time.Second)
	for int(edgeRcv) < total && time.Now().Before(deadline) {
		fr, ok := p.Next(600 * time.Millisecond)
		if !ok {
			// quiet: if the window is closed or small, open it so that the case terminates
			p.RcvNxt = p.IRS + 1 + edgeRcv
			acked = edgeRcv
			w := uint32(65535)
			field := w >> scale
			if field == 0 {
				field = 1
			}
			if field > 65535 {
				field = 65535
			}
			p.Wnd = uint16(field)
			offers = append(offers, offer{time.Now(), acked + field<<scale})
			rightEdge = acked + field<<scale
			p.Ack()
			continue
		}
		k := fr.Pkt
		if k.Flags&codec.RST != 0 {
			break
		}
		if len(k.Payload) == 0 {
			continue
		}
		off := k.Seq - (p.IRS + 1)
		end := off + uint32(len(k.Payload))
		if dbg {
			fmt.Printf("data off=%d len=%d total=%d\n", off, len(k.Payload), fr.Pkt.IPTotal)
		}
		// --- oracle on every data segment
		if fr.Pkt.IPTotal > c.Env.MTU {
			return evid.Failf("send-over-mtu", "IP packet of %d bytes on a link with MTU %d", fr.Pkt.IPTotal, c.Env.MTU)
		}
		for _, pe := range pmtus {
			// the report is processed asynchronously: only segments emitted well after it are judged
			if fr.T.Sub(pe.at) > 150*time.Millisecond && fr.Pkt.IPTotal > pe.mtu {
				return evid.Failf("send-over-path-mtu", "IP packet of %d bytes (TCP header %d, payload %d) emitted %v after a packet-too-big report announced a path MTU of %d", fr.Pkt.IPTotal, fr.Pkt.TCPHdrLen, len(k.Payload), fr.T.Sub(pe.at), pe.mtu)
			}
			if fr.T.Sub(pe.at) > 150*time.Millisecond && fr.Pkt.IPTotal == pe.mtu {
				pmtuBound++
			}
		}
		if len(k.Payload) > mssLimit {
			sig := "send-over-mss"
			if cookieMode() && c.MSS > 0 && c.MSS < 536 && len(k.Payload) <= 536 {
				// F25: the SYN cookie carries a 2-bit index into {536, 1300, 1440, 1460};
				// an announced MSS below 536 comes back as 536
				sig = "send-over-mss:cookie-sub-536"
			}
			if f := evid.Failf(sig, "data segment of %d bytes although the peer announced MSS %d (536 if absent)", len(k.Payload), c.MSS); !evid.KnownSig(f.Sig) {
				return f
			}
		}
		if m := maxOffer(fr.T); int32(end-m) > 0 {
			return evid.Failf("send-beyond-window", "data segment covers stream offsets [%d,%d) but the largest right edge the peer has offered so far is %d (ws=%d)\n%s", off, end, m, p.WS, renderOffers(offers, fr.T))
		}
		if int(end) > total || !bytes.Equal(k.Payload, want[off:end]) {
			return evid.Failf("send-content", "data segment at offset %d len %d does not carry the written bytes", off, len(k.Payload))
		}
		if end == maxOffer(fr.T) {
			windowBound++
		}
		for i := off; i < end; i++ {
			have[i] = true
		}
		for int(edgeRcv) < total && have[edgeRcv] {
			edgeRcv++
		}
		segsSinceAck++
		adv := Adv{Wnd: 65535, Every: 1}
		if step < len(c.Advs) {
			adv = c.Advs[step]
		}
		if adv.Every < 1 {
			adv.Every = 1
		}
		if segsSinceAck < adv.Every && int(edgeRcv) < total {
			continue
		}
		segsSinceAck = 0
		step++
		if adv.Lose && losses < 4 {
			losses++
			// (only what has not been acknowledged yet can be un-received: a receiver
			// never takes an acknowledgement back)
			lo := off
			if int32(acked-lo) > 0 {
				lo = acked
			}
			for i := lo; i < end; i++ {
				have[i] = false
			}
			if edgeRcv > lo {
				edgeRcv = lo
			}
			evid.Label("send:segment-treated-as-lost")
			continue
		}
		if adv.PMTU > 0 && adv.PMTU < fr.Pkt.IPTotal {
			// ICMP "fragmentation needed" / ICMPv6 "packet too big" quoting the head of the segment just received
			quote := fr.Raw
			if len(quote) > fr.Pkt.IPHdrLen+8 {
				quote = quote[:fr.Pkt.IPHdrLen+8]
			}
			router := []byte(netsim.C4)
			if c.Env.V6 {
				router = []byte(netsim.C6)
				body := append([]byte{0, 0, byte(adv.PMTU >> 8), byte(adv.PMTU)}, quote...)
				env.Tap.Inject(0x86dd, codec.BuildIPv6(codec.IPv6Hdr{Src: router, Dst: []byte(env.StackAddr()), NextHeader: codec.ProtoICMPv6}, codec.BuildICMPv6(router, []byte(env.StackAddr()), 2, 0, body)))
			} else {
				m := make([]byte, 8+len(quote))
				m[0], m[1] = 3, 4
				m[6], m[7] = byte(adv.PMTU>>8), byte(adv.PMTU)
				copy(m[8:], quote)
				ck := ^codec.Sum1071(m, 0)
				m[2], m[3] = byte(ck>>8), byte(ck)
				env.Tap.Inject(0x0800, codec.BuildIPv4(codec.IPv4Hdr{Src: router, Dst: []byte(env.StackAddr()), Proto: codec.ProtoICMP}, m))
			}
			pmtus = append(pmtus, pmtuEv{time.Now(), adv.PMTU})
			if dbg {
				fmt.Printf("PMTU report %d quoting off=%d len=%d total=%d\n", adv.PMTU, off, len(k.Payload), fr.Pkt.IPTotal)
			}
			// a router that reports "too big" has dropped the packet: treat it as not received
			lo := off
			if int32(acked-lo) > 0 {
				lo = acked
			}
			for i := lo; i < end; i++ {
				have[i] = false
			}
			if edgeRcv > lo {
				edgeRcv = lo
			}
			evid.Label("send:path-mtu-reduced")
			continue
		}
		if adv.DelayUs > 0 {
			time.Sleep(time.Duration(adv.DelayUs) * time.Microsecond)
		}
		if !adv.HoldAck && int32(edgeRcv-acked) > 0 {
			acked = edgeRcv
		}
		w := uint32(adv.Wnd)
		if !adv.Shrink && int32(acked+w-rightEdge) < 0 {
			w = rightEdge - acked
		}
		field := w >> scale
		if field > 65535 {
			field = 65535
		}
		newEdge := acked + field<<scale
		if !adv.Shrink && int32(newEdge-rightEdge) < 0 {
			// quantisation would move the edge left: round the field up
			field++
			if field > 65535 {
				field = 65535
			}
			newEdge = acked + field<<scale
		}
		switch {
		case field == 0:
			zero++
		case int(field<<scale) < mssLimit:
			tiny++
		}
		rightEdge = newEdge
		p.RcvNxt = p.IRS + 1 + acked
		p.Wnd = uint16(field)
		offers = append(offers, offer{time.Now(), newEdge})
		if dbg {
			fmt.Printf("ack acked=%d field=%d scale=%d edge=%d (adv %+v)\n", acked, field, scale, newEdge, adv)
		}
		if adv.Data > 0 && !adv.OldSeq {
			p.Send(codec.TCPSeg{Seq: p.SndNxt, Ack: p.RcvNxt, Flags: codec.ACK | codec.PSH, Wnd: p.Wnd, Payload: make([]byte, adv.Data)})
			p.SndNxt += uint32(adv.Data)
			evid.Label("send:answer-carries-peer-data")
		} else if adv.OldSeq {
			p.Send(codec.TCPSeg{Seq: p.SndNxt - 1, Ack: p.RcvNxt, Flags: codec.ACK, Wnd: p.Wnd})
			evid.Label("send:answer-on-a-keepalive-probe")
		} else {
			p.Ack()
			for r := 0; r < adv.Repeat; r++ {
				p.Ack()
			}
			if adv.Repeat >= 2 {
				evid.Label("send:answer-repeated-3-times-or-more")
				if field == 0 {
					evid.Label("send:closed-window-answer-repeated-3-times-or-more")
				}
			}
		}
		if adv.Replay > 0 && len(p.Sent) > adv.Replay {
			if old := p.Sent[len(p.Sent)-1-adv.Replay].Seg; old.Flags == codec.ACK && len(old.Payload) == 0 {
				p.Send(old)
				evid.Label("send:stale-ack-replayed")
				if dbg {
					fmt.Printf("replayed old ack=%d wnd=%d\n", old.Ack-(p.IRS+1), old.Wnd)
				}
			}
		}
	}
	if int(edgeRcv) < total {
		evid.Label("send:incomplete")
	}
	if windowBound > 0 {
		evid.Label("send:window-was-binding")
	}
	if zero > 0 {
		evid.Label("send:zero-window")
	}
	if tiny > 0 {
		evid.Label("send:window-below-mss")
	}
	if p.WS > 0 {
		evid.Label("send:scaled")
	}
	if pmtuBound > 0 {
		evid.Label("send:path-mtu-was-binding")
	}
	if windowBound+zero+tiny+pmtuBound > 0 {
		evid.NonTrivialKey("send", fmt.Sprintf("%+v", c))
		evid.Sample("send", c)
	}
	return nil
}

func renderOffers(of []offer, t time.Time) string {
	s := ""
	for _, o := range of {
		s += fmt.Sprintf("  offer at %+.3fms: right edge %d\n", float64(o.at.Sub(t).Microseconds())/1000, o.edge)
	}
	return s
}

func genSend(rt *rapid.T) SendCase {
	var c SendCase
	c.Env.V6 = rapid.Bool().Draw(rt, "v6")
	c.Env.SACK = rapid.Bool().Draw(rt, "sack")
	c.Env.MTU = rapid.SampledFrom([]int{576, 1500, 9000}).Draw(rt, "mtu")
	if c.Env.V6 && c.Env.MTU < 1280 {
		c.Env.MTU = 1280
	}
	c.Env.SndBuf = rapid.SampledFrom([]int{4096, 65536, 1 << 20}).Draw(rt, "sndbuf")
	c.Active = rapid.Bool().Draw(rt, "active")
	c.MSS = rapid.OneOf(rapid.Just(-1), rapid.IntRange(1, 100), rapid.IntRange(100, 1460), rapid.IntRange(1460, 65535)).Draw(rt, "mss")
	c.WS = rapid.OneOf(rapid.Just(-1), rapid.IntRange(0, 14)).Draw(rt, "ws")
	c.InitWnd = rapid.OneOf(rapid.Just(0), rapid.IntRange(1, 100), rapid.IntRange(100, 65535)).Draw(rt, "init_wnd")
	c.TS = rapid.Bool().Draw(rt, "ts")
	c.Seed = rapid.Uint64().Draw(rt, "seed")
	n := rapid.IntRange(1, 5).Draw(rt, "nwrites")
	total := 0
	for i := 0; i < n; i++ {
		w := rapid.OneOf(rapid.IntRange(1, 50), rapid.IntRange(1, 3000), rapid.IntRange(3000, 30000)).Draw(rt, "write")
		if c.MSS > 0 && c.MSS < 20 && w > 600 {
			w = 600 // keep the segment count bounded for tiny MSS
		}
		if total+w > 40000 {
			break
		}
		total += w
		c.Writes = append(c.Writes, w)
	}
	if len(c.Writes) == 0 {
		c.Writes = []int{100}
	}
	if forceWrap || rapid.SampledFrom([]int{0, 0, 0, 0, 1}).Draw(rt, "place") == 1 {
		c.Active, c.PlaceISS = true, true
		// (mostly early in the transfer, so that window changes follow the crossing)
		k := uint32(rapid.OneOf(rapid.IntRange(0, total/8+2), rapid.IntRange(0, total/8+2), rapid.IntRange(0, total+2)).Draw(rt, "iss_k"))
		if rapid.Bool().Draw(rt, "iss_32") {
			c.StackISS = 0 - k
		} else {
			c.StackISS = 1<<31 - k
		}
	}
	if forceWrap || rapid.IntRange(0, 4).Draw(rt, "place-peer") == 1 {
		c.PlacePeer = true
		k := uint32(rapid.OneOf(rapid.IntRange(0, 3), rapid.IntRange(0, 600)).Draw(rt, "peer_iss_k"))
		if rapid.Bool().Draw(rt, "peer_iss_32") {
			c.PeerISS = 0 - k
		} else {
			c.PeerISS = 1<<31 - k
		}
	}
	m := rapid.IntRange(0, 30).Draw(rt, "nadvs")
	for i := 0; i < m; i++ {
		var a Adv
		a.Wnd = rapid.OneOf(rapid.Just(0), rapid.IntRange(1, 4), rapid.IntRange(1, 1500), rapid.IntRange(1500, 70000), rapid.Just(1<<20)).Draw(rt, "wnd")
		a.Shrink = rapid.IntRange(0, 9).Draw(rt, "shrink") == 0
		a.HoldAck = rapid.IntRange(0, 7).Draw(rt, "hold") == 0
		a.DelayUs = rapid.SampledFrom([]int{0, 0, 0, 100, 1000, 5000}).Draw(rt, "delay")
		a.Every = rapid.IntRange(1, 3).Draw(rt, "every")
		a.Lose = rapid.IntRange(0, 9).Draw(rt, "lose") == 0
		a.Replay = rapid.SampledFrom([]int{0, 0, 0, 0, 1, 2, 5}).Draw(rt, "replay")
		a.OldSeq = rapid.IntRange(0, 5).Draw(rt, "old-seq") == 1
		if rp := rapid.IntRange(0, 9).Draw(rt, "repeat"); rp == 0 || (a.Wnd < 5 && rp < 4) {
			a.Repeat = rapid.SampledFrom([]int{1, 2, 2, 3, 5}).Draw(rt, "repeat-n")
		}
		if c.PlacePeer && rapid.IntRange(0, 2).Draw(rt, "peer-data") == 1 {
			a.Data = rapid.SampledFrom([]int{1, 10, 200}).Draw(rt, "peer-data-len")
		}
		if rapid.IntRange(0, 5).Draw(rt, "pmtu") == 0 {
			lo := 576
			if c.Env.V6 {
				lo = 1280
			}
			if c.Env.MTU > lo+40 {
				a.PMTU = rapid.IntRange(lo, c.Env.MTU-40).Draw(rt, "pmtu_val")
			}
		}
		c.Advs = append(c.Advs, a)
	}
	return c
}

// the path-MTU verdict depends on the stack having processed the report (150 ms
// are allowed): it is confirmed by re-running the case
func runSendConfirmed(c SendCase) *evid.Failure {
	f := runSend(c)
	if f == nil || f.Sig != "send-over-path-mtu" {
		return f
	}
	for i := 0; i < 2; i++ {
		if g := runSend(c); g == nil || g.Sig != f.Sig {
			evid.Unconfirmed()
			return nil
		}
	}
	return f
}

func TestSend(t *testing.T) {
	evid.Run(t, evid.Spec[SendCase]{Name: "send", Gen: genSend, Run: runSendConfirmed})
}
