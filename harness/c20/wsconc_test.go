package c20

import (
	"fmt"
	"strings"
	"sync"
	"testing"

	"pgregory.net/rapid"

	"verifharness/evid"
)

// Concurrent WebSocket sessions: 2..3 sessions are opened and driven at the
// same time against the same or different bundled servers. Inside a session the
// messages stay in lock step; across sessions upgrades, frames and handler
// invocations interleave as the scheduler has it. Each session is judged on its
// own at its two ends (handshake values, every message byte for byte, in
// order); state that the bundled layers share between connections (buffers,
// recycled request objects, keys) shows up as one session's bytes in another.
type ConcWSCase struct {
	Sessions []WSCase
}

func genConcWS(rt *rapid.T) ConcWSCase {
	n := rapid.IntRange(2, 3).Draw(rt, "nsessions")
	var c ConcWSCase
	mode0 := false
	for i := 0; i < n; i++ {
		s := genWS(rt)
		if s.Mode == 0 {
			// the bundled client cannot carry the harness's id header: at most one
			// such session can be attributed at a time
			if mode0 {
				s.Mode = 1
				s.Key = rfcSampleKey
			}
			mode0 = true
		}
		total := 0
		for k := range s.Msgs {
			if total+s.Msgs[k].N > 400000 {
				s.Msgs[k].N %= 300
			}
			total += s.Msgs[k].N
			if s.Mode == 0 {
				s.Msgs[k].Masked, s.Msgs[k].Key = false, 0
			}
		}
		if i > 0 && rapid.IntRange(0, 2).Draw(rt, "same-server") > 0 {
			s.Port, s.Addr = c.Sessions[0].Port, c.Sessions[0].Addr
		}
		if i > 0 && rapid.IntRange(0, 3).Draw(rt, "same-shape") == 0 {
			// the same lengths and directions with other content: a mix-up of two
			// sessions cannot hide behind a length check
			s.Msgs = append([]WSMsg(nil), c.Sessions[0].Msgs...)
			for k := range s.Msgs {
				s.Msgs[k].Seed += uint64(i) * 7919
				if s.Mode == 0 || s.Msgs[k].Dir == 1 {
					s.Msgs[k].Masked, s.Msgs[k].Key = false, 0
				}
			}
		}
		c.Sessions = append(c.Sessions, s)
	}
	return c
}

func runConcWSOnce(ss []WSCase) *evid.Failure {
	out := make([]*evid.Failure, len(ss))
	var wg sync.WaitGroup
	for i := range ss {
		wg.Add(1)
		go func(i int) {
			defer wg.Done()
			out[i] = runWSSession(ss[i], true)
		}(i)
	}
	wg.Wait()
	var fs []*evid.Failure
	for i, f := range out {
		if f != nil {
			fs = append(fs, &evid.Failure{Sig: "conc:" + f.Sig, Msg: fmt.Sprintf("session %d of %d concurrent ones (mode %d, %d messages): %s", i+1, len(ss), ss[i].Mode, len(ss[i].Msgs), f.Msg)})
		}
	}
	return pick(fs)
}

func runConcWS(c ConcWSCase) *evid.Failure {
	env()
	var ss []WSCase
	mode0 := 0
	for _, s := range c.Sessions {
		if s.outside() != "" {
			continue
		}
		if s.Mode == 0 {
			if mode0++; mode0 > 1 {
				continue
			}
		}
		ss = append(ss, s)
	}
	if len(ss) < 2 {
		evid.Label("wsconc_fewer_than_two_sessions")
		return nil
	}
	evid.Journal("ws-conc", c)
	orph0 := orphanCount()
	f := runConcWSOnce(ss)
	if f != nil && strings.HasPrefix(f.Sig, "conc:ws-timeout") {
		// timing policy of DESIGN 2.4: a missed deadline counts only if the same case misses it again
		if f = runConcWSOnce(ss); f == nil {
			evid.Unconfirmed()
		}
	}
	if f == nil {
		if o := orphansFrom(orph0); len(o) > 0 {
			f = evid.Failf("conc:ws-handler-lost-headers", "a handler ran but did not find the %s header its upgrade request carried: %v", idHeader, o)
		}
	}
	evid.Eval(int64(len(ss) - 1))
	evid.Label(fmt.Sprintf("wsconc_sessions_%d", len(ss)))
	same := true
	msgs := 0
	for _, s := range ss {
		if portOf(s.Port) != portOf(ss[0].Port) {
			same = false
		}
		msgs += len(s.Msgs)
	}
	if same {
		evid.Label("wsconc_all_on_one_server")
	}
	if mode0 > 0 {
		evid.Label("wsconc_with_bundled_client")
	}
	if f != nil {
		return f
	}
	if msgs >= 2*len(ss) {
		evid.NonTrivialKey(fmt.Sprintf("wsconc %+v", ss))
	}
	return nil
}

func TestWSConcurrent(t *testing.T) {
	evid.Run(t, evid.Spec[ConcWSCase]{Name: "ws-conc", Gen: genConcWS, Run: runConcWS})
}
