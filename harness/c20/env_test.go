package c20

import (
	"fmt"
	"runtime/debug"
	"sort"
	"strconv"
	"sync"
	"sync/atomic"
	"time"

	"github.com/brewlin/net-protocol/pkg/buffer"
	tcpip "github.com/brewlin/net-protocol/protocol"
	"github.com/brewlin/net-protocol/protocol/application/http"
	"github.com/brewlin/net-protocol/protocol/application/websocket"
	"github.com/brewlin/net-protocol/protocol/link/loopback"
	"github.com/brewlin/net-protocol/protocol/network/ipv4"
	"github.com/brewlin/net-protocol/protocol/transport/tcp"
	"github.com/brewlin/net-protocol/stack"
	"verifharness/codec"
	"verifharness/evid"
)

// ---------------------------------------------------------------------------
// The one stack of this process.
//
// stack.New makes it stack.Pstack, which the bundled TCP client and http.NewHTTP
// pick up. NIC 1 is the repository's loopback link endpoint behind a sniffing
// wrapper owned by the harness; it carries two local addresses. Four bundled
// HTTP servers (one per URL port class of buffer.ParseUrl: none -> 80, two,
// three and four digits) share the process-global mux, on which every handler
// is registered exactly once.

var (
	localAddrs = []string{"10.0.0.1", "10.0.0.2"}
	// portClasses[i] is what goes into the URL; "" means "no port" (-> 80).
	portClasses = []string{"", "81", "808", "8080"}
	listenPorts = []string{"80", "81", "808", "8080"}

	// httpPaths are the registered plain-HTTP paths, wsPath the WebSocket one.
	httpPaths = []string{"/", "/echo", "/a/b", "/index.html", "/A", "/x-y_z.~1", "/echo/long/path/with/many/segments/0123456789"}
	wsPath    = "/ws"

	envOnce sync.Once
	tapEP   *sniffEP
)

func env() {
	envOnce.Do(func() {
		s := stack.New([]string{ipv4.ProtocolName}, []string{tcp.ProtocolName}, stack.Options{})
		lower := stack.FindLinkEndpoint(loopback.New())
		tapEP = &sniffEP{lower: lower, flows: map[flowKey]*flow{}}
		if err := s.CreateNIC(1, stack.RegisterLinkEndpoint(tapEP)); err != nil {
			panic(fmt.Sprint("CreateNIC: ", err))
		}
		for _, a := range localAddrs {
			if err := s.AddAddress(1, ipv4.ProtocolNumber, tcpip.Address(parseIP4(a))); err != nil {
				panic(fmt.Sprint("AddAddress: ", err))
			}
		}
		s.SetRouteTable([]tcpip.Route{{Destination: "\x00\x00\x00\x00", Mask: "\x00\x00\x00\x00", NIC: 1}})
		if stack.Pstack != s {
			panic("stack.New did not publish the stack as stack.Pstack")
		}
		var first *http.Server
		for _, p := range listenPorts {
			srv := http.NewHTTP("", "", localAddrs[0], p)
			if first == nil {
				first = srv
			}
			go srv.ListenAndServ()
		}
		for _, p := range httpPaths {
			p := p
			first.HandleFunc(p, func(r *http.Request, w *http.Response) { httpHandler(p, r, w) })
		}
		first.HandleFunc(wsPath, wsHandler)
		time.Sleep(100 * time.Millisecond) // let the four listeners bind
	})
}

func parseIP4(s string) []byte {
	var a, b, c, d int
	fmt.Sscanf(s, "%d.%d.%d.%d", &a, &b, &c, &d)
	return []byte{byte(a), byte(b), byte(c), byte(d)}
}

func urlFor(addrIdx, portIdx int, path string) string {
	u := "http://" + localAddrs[addrIdx%len(localAddrs)]
	if p := portClasses[portIdx%len(portClasses)]; p != "" {
		u += ":" + p
	}
	return u + path
}

func portOf(portIdx int) uint16 {
	n, _ := strconv.Atoi(listenPorts[portIdx%len(listenPorts)])
	return uint16(n)
}

// ---------------------------------------------------------------------------
// Sniffing link endpoint: passes everything to the repository's loopback
// endpoint and reassembles, per TCP flow, the byte stream of each direction
// from an independent decoding of the packets.

type flowKey struct{ sport, dport uint16 }

type flow struct {
	key     flowKey
	isn     uint32
	haveISN bool
	data    []byte
	gap     bool // a segment arrived beyond the contiguous prefix (never expected on a loopback)
	segs    int  // data segments
	maxSeg  int
}

type sniffEP struct {
	lower stack.LinkEndpoint

	mu     sync.Mutex
	flows  map[flowKey]*flow
	synLog []flowKey // client-side keys of SYNs (no ACK) in order of appearance
	bad    []string  // packets the independent decoder objected to
}

func (e *sniffEP) MTU() uint32 { return e.lower.MTU() }
func (e *sniffEP) Capabilities() stack.LinkEndpointCapabilities {
	return e.lower.Capabilities()
}
func (e *sniffEP) MaxHeaderLength() uint16          { return e.lower.MaxHeaderLength() }
func (e *sniffEP) LinkAddress() tcpip.LinkAddress   { return e.lower.LinkAddress() }
func (e *sniffEP) Attach(d stack.NetworkDispatcher) { e.lower.Attach(d) }
func (e *sniffEP) IsAttached() bool                 { return e.lower.IsAttached() }

func (e *sniffEP) WritePacket(r *stack.Route, hdr buffer.Prependable, payload buffer.VectorisedView, p tcpip.NetworkProtocolNumber) *tcpip.Error {
	h := hdr.View()
	b := make([]byte, 0, len(h)+payload.Size())
	b = append(b, h...)
	for _, v := range payload.Views() {
		b = append(b, v...)
	}
	e.record(uint16(p), b)
	return e.lower.WritePacket(r, hdr, payload, p)
}

func (e *sniffEP) record(proto uint16, b []byte) {
	pkt := codec.DecodeNet(proto, b, codec.DecodeOpts{L4ChecksumOffload: true})
	e.mu.Lock()
	defer e.mu.Unlock()
	if !pkt.OK() {
		if len(e.bad) < 20 {
			e.bad = append(e.bad, fmt.Sprint(pkt.Errs))
		}
		return
	}
	if pkt.L4Kind != "tcp" {
		return
	}
	k := flowKey{pkt.SrcPort, pkt.DstPort}
	const fSYN, fACK = 0x02, 0x10
	if pkt.Flags&fSYN != 0 {
		if f := e.flows[k]; f != nil && f.isn == pkt.Seq {
			return // retransmitted SYN
		}
		e.flows[k] = &flow{key: k, isn: pkt.Seq, haveISN: true}
		if pkt.Flags&fACK == 0 {
			e.synLog = append(e.synLog, k)
		}
		return
	}
	f := e.flows[k]
	if f == nil || len(pkt.Payload) == 0 {
		return
	}
	off := int(int32(pkt.Seq - (f.isn + 1)))
	switch {
	case off < 0:
		return
	case off > len(f.data):
		f.gap = true
	case off+len(pkt.Payload) > len(f.data):
		f.data = append(f.data, pkt.Payload[len(f.data)-off:]...)
	}
	f.segs++
	if len(pkt.Payload) > f.maxSeg {
		f.maxSeg = len(pkt.Payload)
	}
}

// mark returns a cursor into the SYN log.
func (e *sniffEP) mark() int {
	e.mu.Lock()
	defer e.mu.Unlock()
	return len(e.synLog)
}

// newFlowSince returns the client-side key of the only connection opened to
// dport since the mark.
func (e *sniffEP) newFlowSince(mark int, dport uint16) (flowKey, error) {
	e.mu.Lock()
	defer e.mu.Unlock()
	var got []flowKey
	for _, k := range e.synLog[mark:] {
		if k.dport == dport {
			got = append(got, k)
		}
	}
	if len(got) != 1 {
		return flowKey{}, fmt.Errorf("%d connections opened to port %d since the mark (want 1)", len(got), dport)
	}
	return got[0], nil
}

type streamView struct {
	data   []byte
	gap    bool
	segs   int
	maxSeg int
}

// streams returns copies of the two byte streams of a connection: client to
// server and server to client.
func (e *sniffEP) streams(k flowKey) (c2s, s2c streamView) {
	e.mu.Lock()
	defer e.mu.Unlock()
	cp := func(f *flow) streamView {
		if f == nil {
			return streamView{}
		}
		return streamView{append([]byte(nil), f.data...), f.gap, f.segs, f.maxSeg}
	}
	return cp(e.flows[k]), cp(e.flows[flowKey{k.dport, k.sport}])
}

// forget drops what was recorded about a connection.
func (e *sniffEP) forget(k flowKey) {
	e.mu.Lock()
	defer e.mu.Unlock()
	delete(e.flows, k)
	delete(e.flows, flowKey{k.dport, k.sport})
}

func (e *sniffEP) badPackets() []string {
	e.mu.Lock()
	defer e.mu.Unlock()
	return append([]string(nil), e.bad...)
}

// ---------------------------------------------------------------------------
// Attempts: what the handlers are told to do and what they saw.

// hrec is one handler invocation.
type hrec struct {
	Handler string // the path the invoked handler was registered for
	Method  string
	Body    string
	Hdr     map[string]string
}

// attempt is one connection + request made by the harness. Handlers find it
// through the X-Verif-Id request header (or, for the bundled WebSocket client
// which does not let the caller add headers, through the current-attempt slot).
type attempt struct {
	id       string
	names    []string // header names the handler is to read back
	respBody string   // what the handler passes to End
	errCode  int      // if non-zero the handler calls Error(errCode) instead of End

	mu   sync.Mutex
	recs []hrec

	wsConn chan *websocket.Conn // the upgraded server-side connection
	wsErr  chan error           // Upgrade's error
	wsDone chan struct{}        // closed by the harness when the session is over
}

const idHeader = "X-Verif-Id"

var (
	attemptSeq int64
	attempts   sync.Map // id -> *attempt
	currentWS  atomic.Pointer[attempt]
	orphanMu   sync.Mutex
	orphans    []string
)

func newAttempt() *attempt {
	a := &attempt{id: strconv.FormatInt(atomic.AddInt64(&attemptSeq, 1), 10),
		wsConn: make(chan *websocket.Conn, 1), wsErr: make(chan error, 1), wsDone: make(chan struct{})}
	attempts.Store(a.id, a)
	return a
}

func (a *attempt) release() { attempts.Delete(a.id) }

func (a *attempt) records() []hrec {
	a.mu.Lock()
	defer a.mu.Unlock()
	return append([]hrec(nil), a.recs...)
}

func lookup(r *http.Request, ws bool) *attempt {
	if id := r.GetHeader(idHeader); id != "" {
		if v, ok := attempts.Load(id); ok {
			return v.(*attempt)
		}
		return nil
	}
	if ws {
		return currentWS.Load()
	}
	return nil
}

func (a *attempt) record(handler string, r *http.Request) {
	rec := hrec{Handler: handler, Method: r.GetMethod(), Body: r.GetBody(), Hdr: map[string]string{}}
	for _, n := range a.names {
		rec.Hdr[n] = r.GetHeader(n)
	}
	a.mu.Lock()
	a.recs = append(a.recs, rec)
	a.mu.Unlock()
}

func noteOrphan(handler string, r *http.Request) {
	orphanMu.Lock()
	if len(orphans) < 20 {
		orphans = append(orphans, fmt.Sprintf("handler %s invoked for unknown attempt id %q", handler, r.GetHeader(idHeader)))
	}
	orphanMu.Unlock()
}

func httpHandler(path string, r *http.Request, w *http.Response) {
	a := lookup(r, false)
	if a == nil {
		noteOrphan(path, r)
		return
	}
	a.record(path, r)
	if a.errCode != 0 {
		w.Error(a.errCode)
		return
	}
	w.End(a.respBody)
}

// wsHandler upgrades like cmd/application/websocket/websocketserver.go does and
// hands the connection to the harness, which drives both ends in lock step.
func wsHandler(r *http.Request, w *http.Response) {
	a := lookup(r, true)
	if a == nil {
		noteOrphan(wsPath, r)
		return
	}
	a.record(wsPath, r)
	c, err := websocket.Upgrade(r, w)
	if err != nil {
		a.wsErr <- err
		return
	}
	defer c.Close()
	a.wsConn <- c
	<-a.wsDone
}

func sortedKeys(m map[string]string) []string {
	ks := make([]string, 0, len(m))
	for k := range m {
		ks = append(ks, k)
	}
	sort.Strings(ks)
	return ks
}

// within runs fn on its own goroutine and waits at most d for it. A panic on
// that goroutine (the bundled websocket.NewClient panics on a failed connect)
// is returned as text.
func within(d time.Duration, fn func()) (ok bool, panicked string) {
	ok, panicked, _ = withinMore(d, fn)
	return
}

// withinMore is within that also returns a function to keep waiting for the
// same goroutine (used to tell "slow" from "never").
func withinMore(d time.Duration, fn func()) (ok bool, panicked string, more func(time.Duration) (bool, string)) {
	done := make(chan string, 1)
	go func() {
		defer func() {
			if r := recover(); r != nil {
				done <- fmt.Sprintf("panic: %v\n%s", r, debug.Stack())
				return
			}
			done <- ""
		}()
		fn()
	}()
	wait := func(d time.Duration) (bool, string) {
		select {
		case p := <-done:
			return true, p
		case <-time.After(d):
			return false, ""
		}
	}
	ok, panicked = wait(d)
	return ok, panicked, wait
}

// noteBadPackets records (as a note, not a verdict: packet well-formedness is
// other properties' business) what the independent decoder objected to.
func noteBadPackets() {
	if tapEP == nil {
		return
	}
	for _, b := range tapEP.badPackets() {
		evid.Note("packet on the loopback NIC rejected by the independent decoder: %s", b)
	}
}
