// Package c20 checks property C20: HTTP requests and WebSocket messages
// survive the round trip through the bundled client, the stack's own TCP and
// the bundled server.
//
// This file holds the reference side: an RFC 6455 frame encoder / strict
// decoder, the accept-key function and a plain HTTP/1.x message splitter. None
// of it uses the repository's http / websocket / header packages.
package c20

import (
	"bytes"
	"crypto/sha1"
	"encoding/base64"
	"errors"
	"fmt"
	"strconv"
	"strings"
)

// wsGUID is the constant of RFC 6455 section 1.3.
const wsGUID = "258EAFA5-E914-47DA-95CA-C5AB0DC85B11"

// acceptKey is the RFC 6455 section 4.2.2 function of the client's key.
func acceptKey(key string) string {
	sum := sha1.Sum([]byte(key + wsGUID))
	return base64.StdEncoding.EncodeToString(sum[:])
}

// Length classes of RFC 6455 section 5.2.
const (
	lenClass7  = 7
	lenClass16 = 16
	lenClass64 = 64
)

func lenClassOf(n int) int {
	switch {
	case n <= 125:
		return lenClass7
	case n <= 65535:
		return lenClass16
	}
	return lenClass64
}

// encodeFrame builds one final frame (RFC 6455 section 5.2) with the minimal
// length encoding; when masked, the payload is XORed with key[i mod 4].
func encodeFrame(opcode byte, masked bool, key [4]byte, payload []byte) []byte {
	n := len(payload)
	out := make([]byte, 0, n+14)
	out = append(out, 0x80|opcode&0x0f)
	mb := byte(0)
	if masked {
		mb = 0x80
	}
	switch lenClassOf(n) {
	case lenClass7:
		out = append(out, mb|byte(n))
	case lenClass16:
		out = append(out, mb|126, byte(n>>8), byte(n))
	default:
		out = append(out, mb|127)
		for s := 56; s >= 0; s -= 8 {
			out = append(out, byte(uint64(n)>>uint(s)))
		}
	}
	if masked {
		out = append(out, key[:]...)
		for i, b := range payload {
			out = append(out, b^key[i%4])
		}
	} else {
		out = append(out, payload...)
	}
	return out
}

// wsFrame is one decoded frame.
type wsFrame struct {
	Fin      bool
	Opcode   byte
	Masked   bool
	Key      [4]byte
	LenClass int
	Payload  []byte // unmasked
}

var errShort = errors.New("short")

// decodeFrame reads one frame through next(n), which must return exactly n
// bytes or an error. It is strict: reserved bits must be zero, the length must
// use the minimal encoding and the 64-bit form must have its top bit clear
// (RFC 6455 section 5.2: "in all cases, the minimal number of bytes MUST be
// used to encode the length").
func decodeFrame(next func(n int) ([]byte, error)) (wsFrame, error) {
	var f wsFrame
	h, err := next(2)
	if err != nil {
		return f, err
	}
	f.Fin = h[0]&0x80 != 0
	if h[0]&0x70 != 0 {
		return f, fmt.Errorf("reserved bits set in first byte %#02x", h[0])
	}
	f.Opcode = h[0] & 0x0f
	f.Masked = h[1]&0x80 != 0
	l7 := int(h[1] & 0x7f)
	var n uint64
	switch l7 {
	case 126:
		e, err := next(2)
		if err != nil {
			return f, err
		}
		n = uint64(e[0])<<8 | uint64(e[1])
		f.LenClass = lenClass16
		if n <= 125 {
			return f, fmt.Errorf("length %d encoded in the 16-bit form (not minimal)", n)
		}
	case 127:
		e, err := next(8)
		if err != nil {
			return f, err
		}
		for _, b := range e {
			n = n<<8 | uint64(b)
		}
		f.LenClass = lenClass64
		if n>>63 != 0 {
			return f, fmt.Errorf("64-bit length with the most significant bit set")
		}
		if n <= 65535 {
			return f, fmt.Errorf("length %d encoded in the 64-bit form (not minimal)", n)
		}
	default:
		n = uint64(l7)
		f.LenClass = lenClass7
	}
	if n > 64<<20 {
		return f, fmt.Errorf("frame announces %d payload bytes", n)
	}
	if f.Masked {
		k, err := next(4)
		if err != nil {
			return f, err
		}
		copy(f.Key[:], k)
	}
	p, err := next(int(n))
	if err != nil {
		return f, err
	}
	f.Payload = append([]byte(nil), p...)
	if f.Masked {
		for i := range f.Payload {
			f.Payload[i] ^= f.Key[i%4]
		}
	}
	return f, nil
}

// decodeFrames parses a byte stream into frames; rest is what follows the last
// complete frame (a partial frame is not an error here).
func decodeFrames(b []byte) (frames []wsFrame, rest []byte, err error) {
	for len(b) > 0 {
		pos := 0
		f, e := decodeFrame(func(n int) ([]byte, error) {
			if pos+n > len(b) {
				return nil, errShort
			}
			s := b[pos : pos+n]
			pos += n
			return s, nil
		})
		if e == errShort {
			return frames, b, nil
		}
		if e != nil {
			return frames, b, e
		}
		frames = append(frames, f)
		b = b[pos:]
	}
	return frames, nil, nil
}

// httpMsg is an HTTP/1.x message split at its syntactic joints only: start
// line, header lines (verbatim, without CRLF), and everything after the empty
// line.
type httpMsg struct {
	Start string
	Lines []string
	Body  []byte
}

// splitHTTP splits a byte stream holding one message head (RFC 7230 section 3:
// start-line CRLF *(header-field CRLF) CRLF [message-body]). ok is false while
// the empty line has not been seen.
func splitHTTP(b []byte) (m httpMsg, ok bool) {
	end := bytes.Index(b, []byte("\r\n\r\n"))
	if end < 0 {
		return m, false
	}
	head := string(b[:end])
	lines := strings.Split(head, "\r\n")
	m.Start = lines[0]
	m.Lines = lines[1:]
	m.Body = b[end+4:]
	return m, true
}

// field returns the value of the header field with that exact name as RFC 7230
// section 3.2 reads a line: name ":" OWS value OWS.
func (m httpMsg) field(name string) (string, int) {
	val, n := "", 0
	for _, l := range m.Lines {
		i := strings.IndexByte(l, ':')
		if i < 0 || l[:i] != name {
			continue
		}
		n++
		val = strings.Trim(l[i+1:], " \t")
	}
	return val, n
}

// statusLine parses "HTTP-version SP 3DIGIT SP reason-phrase".
func statusLine(s string) (version string, code int, reason string, err error) {
	p := strings.SplitN(s, " ", 3)
	if len(p) < 3 {
		return "", 0, "", fmt.Errorf("status line %q does not have three parts", s)
	}
	if len(p[1]) != 3 {
		return "", 0, "", fmt.Errorf("status code %q is not 3 digits", p[1])
	}
	c, e := strconv.Atoi(p[1])
	if e != nil {
		return "", 0, "", fmt.Errorf("status code %q is not a number", p[1])
	}
	return p[0], c, p[2], nil
}

// genBytes expands (seed, n, alphabet class) into n payload bytes; a pure
// function, so that replay files stay small.
//
//	class 0: printable ASCII      class 1: letters with CR LF and ':' sprinkled in
//	class 2: multi-byte UTF-8     class 3: one repeated byte (low entropy)
func genBytes(seed uint64, n int, class int) []byte {
	out := make([]byte, 0, n+4)
	x := seed*0x9E3779B97F4A7C15 + 0x2545F4914F6CDD1D
	rnd := func() uint64 {
		x ^= x << 13
		x ^= x >> 7
		x ^= x << 17
		return x
	}
	switch class {
	case 1:
		const al = "abcdefghijklmnopqrstuvwxyz\r\n:;=&{}\" \t"
		for len(out) < n {
			out = append(out, al[rnd()%uint64(len(al))])
		}
	case 2:
		runes := []string{"é", "ß", "日", "本", "€", "𝄞", "a", "Z", "0", " "}
		for len(out) < n {
			r := runes[rnd()%uint64(len(runes))]
			if len(out)+len(r) > n {
				r = "~"
			}
			out = append(out, r...)
		}
	case 3:
		b := byte(0x21 + rnd()%94)
		for len(out) < n {
			out = append(out, b)
		}
	default:
		for len(out) < n {
			out = append(out, byte(0x20+rnd()%95))
		}
	}
	return out[:n]
}

// firstDiff describes where two byte strings start to differ.
func firstDiff(want, got []byte) string {
	n := len(want)
	if len(got) < n {
		n = len(got)
	}
	i := 0
	for i < n && want[i] == got[i] {
		i++
	}
	if i == n && len(want) == len(got) {
		return "equal"
	}
	ctx := func(b []byte) string {
		lo, hi := i-8, i+8
		if lo < 0 {
			lo = 0
		}
		if hi > len(b) {
			hi = len(b)
		}
		if lo > hi {
			lo = hi
		}
		return fmt.Sprintf("%q", b[lo:hi])
	}
	return fmt.Sprintf("lengths want %d got %d, first difference at offset %d (want …%s… got …%s…)", len(want), len(got), i, ctx(want), ctx(got))
}
