package c20

import (
	"fmt"
	"sync"
	"testing"
	"time"

	"github.com/brewlin/net-protocol/protocol/application/http"
	"pgregory.net/rapid"
	"verifharness/evid"
)

// Concurrent requests: 2..4 bundled clients send their requests at the same
// moment to the bundled servers (same or different ports, same or different
// paths). The statement is per request, so every one of them must reach its
// handler with its own method, path, headers and body and get its own
// response back: state shared between the connections of one server (parse
// buffers, the mux, response objects) would show as a cross-over. The wire is
// not inspected here (flows of simultaneous connections are not told apart);
// messages stay below one segment (F24).

type ConcCase struct {
	Reqs []HTTPCase `json:"reqs"`
}

func runOneLight(c HTTPCase, start <-chan struct{}) []*evid.Failure {
	var fs []*evid.Failure
	add := func(f *evid.Failure) { fs = append(fs, f) }
	body, resp := c.body(), c.resp()
	registered := isRegistered(c.Path)
	sent := map[string]string{}
	var names []string
	for _, h := range c.Headers {
		sent[h[0]] = h[1]
		names = append(names, h[0])
	}
	a := newAttempt()
	defer a.release()
	a.names = append([]string{idHeader}, names...)
	a.respBody = resp
	if registered {
		a.errCode = c.ErrCode
	}
	var res string
	var cerr error
	var cli *http.Client
	ok, pan, more := withinMore(5*time.Second, func() {
		var err error
		cli, err = http.NewClient(urlFor(c.Addr, c.Port, c.Path))
		if err != nil {
			cerr = err
			return
		}
		<-start // all clients are connected: the requests go out together
		cli.SetMethod(c.Method)
		h := map[string]string{idHeader: a.id}
		for k, v := range sent {
			h[k] = v
		}
		cli.SetHeaders(h)
		cli.SetData(body)
		res, cerr = cli.GetResult()
	})
	if !ok {
		ok, pan = more(15 * time.Second)
	}
	if pan != "" {
		return []*evid.Failure{evid.Failf("http-client-panic", "the bundled client panicked: %s", pan)}
	}
	if !ok {
		return []*evid.Failure{evid.Failf("http-conc-timeout", "%s %s: no result from the bundled client within 20 s while other requests were in progress (handler invocations: %d)", c.Method, c.Path, len(a.records()))}
	}
	if cli != nil {
		cli.GetConnection().Close()
	}
	if cerr != nil {
		return []*evid.Failure{evid.Failf("http-client-error", "%s %s: bundled client returned error %v", c.Method, c.Path, cerr)}
	}
	recs := a.records()
	if !registered {
		if len(recs) != 0 {
			add(evid.Failf("http-handler-for-unregistered-path", "%s %s: nobody registered this path, yet the handler of %q was invoked", c.Method, c.Path, recs[0].Handler))
		}
		return fs
	}
	if len(recs) != 1 {
		add(evid.Failf("http-handler-count", "%s %s: the handler registered for the path was invoked %d times, want exactly once", c.Method, c.Path, len(recs)))
		return fs
	}
	r := recs[0]
	if r.Handler != c.Path {
		add(evid.Failf("http-dispatch-wrong-handler", "%s %s: the handler registered for %q was invoked", c.Method, c.Path, r.Handler))
	}
	if r.Method != c.Method {
		add(evid.Failf("http-method", "%s %s: handler saw method %q", c.Method, c.Path, r.Method))
	}
	for _, n := range names {
		if r.Hdr[n] != sent[n] {
			add(evid.Failf("http-header", "%s %s: header %q sent with value %q, handler's GetHeader returned %q", c.Method, c.Path, n, sent[n], r.Hdr[n]))
			break
		}
	}
	if r.Body != body {
		add(bodyFailure("request", "request body seen by the handler (GetBody)", body, r.Body))
	}
	if c.ErrCode == 0 && res != resp {
		add(bodyFailure("response", "response body returned by the client (GetResult)", resp, res))
	}
	return fs
}

func runConc(c ConcCase) *evid.Failure {
	env()
	var reqs []HTTPCase
	for _, r := range c.Reqs {
		if r.outside() == "" && !r.mayNotFitOneSegment() {
			reqs = append(reqs, r)
		}
	}
	if len(reqs) < 2 {
		evid.Label("conc_fewer_than_two_requests")
		return nil
	}
	evid.Journal("http-conc", c)
	orph0 := orphanCount()
	start := make(chan struct{})
	out := make([][]*evid.Failure, len(reqs))
	var wg sync.WaitGroup
	for i := range reqs {
		wg.Add(1)
		go func(i int) {
			defer wg.Done()
			out[i] = runOneLight(reqs[i], start)
		}(i)
	}
	time.Sleep(2 * time.Millisecond) // let the clients connect
	close(start)
	wg.Wait()
	var fs []*evid.Failure
	for i, o := range out {
		for _, f := range o {
			fs = append(fs, &evid.Failure{Sig: "conc:" + f.Sig, Msg: fmt.Sprintf("request %d of %d concurrent ones: %s", i+1, len(reqs), f.Msg)})
		}
	}
	if o := orphansFrom(orph0); len(o) > 0 {
		fs = append(fs, evid.Failf("conc:http-handler-lost-headers", "a handler ran but did not find the %s header its request carried: %v", idHeader, o))
	}
	evid.Eval(int64(len(reqs) - 1))
	evid.Label(fmt.Sprintf("conc_requests_%d", len(reqs)))
	samePort, samePath := true, true
	for _, r := range reqs[1:] {
		if portOf(r.Port) != portOf(reqs[0].Port) {
			samePort = false
		}
		if r.Path != reqs[0].Path {
			samePath = false
		}
	}
	if samePort {
		evid.Label("conc_all_on_one_server")
	}
	if samePath {
		evid.Label("conc_all_on_one_path")
	}
	if f := pick(fs); f != nil {
		return f
	}
	evid.NonTrivialKey(fmt.Sprintf("%+v", reqs))
	return nil
}

func genConc(rt *rapid.T) ConcCase {
	n := rapid.IntRange(2, 4).Draw(rt, "nreq")
	var c ConcCase
	for i := 0; i < n; i++ {
		r := genHTTP(rt)
		if i > 0 && rapid.IntRange(0, 2).Draw(rt, "same-server") > 0 {
			r.Port, r.Addr = c.Reqs[0].Port, c.Reqs[0].Addr
		}
		if i > 0 && rapid.IntRange(0, 3).Draw(rt, "same-path") == 0 {
			r.Path = c.Reqs[0].Path
			if !isRegistered(r.Path) {
				r.Resp, r.RespPad, r.ErrCode = "", nil, 0
			} else if r.ErrCode == 0 && r.resp() == "" {
				r.Resp = "r"
			}
		}
		c.Reqs = append(c.Reqs, r)
	}
	return c
}

func TestHTTPConcurrent(t *testing.T) {
	evid.Run(t, evid.Spec[ConcCase]{Name: "http-conc", Gen: genConc, Run: runConc})
}
