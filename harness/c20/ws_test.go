package c20

import (
	"bytes"
	"encoding/base64"
	"fmt"
	"strings"
	"testing"
	"time"

	"github.com/brewlin/net-protocol/protocol/application/http"
	"github.com/brewlin/net-protocol/protocol/application/websocket"
	"pgregory.net/rapid"
	"verifharness/evid"
)

// ---------------------------------------------------------------------------
// WebSocket cases: one session = upgrade + a sequence of text messages sent in
// lock step (the next message only after the previous one was received: the
// bundled socket helpers ignore partial writes).
//
// Mode 0  both ends bundled: websocket.Client (Upgrade / Push / Recv) against
//         websocket.Upgrade + Conn.ReadData / SendData in the handler.
// Mode 1  the client end is the bundled http.Client (which performs the
//         upgrade request with a Sec-WebSocket-Key chosen by the case) plus the
//         harness's own RFC 6455 codec on the bundled connection's Write/Readn:
//         client frames can be MASKED with a chosen key (the bundled sender
//         never masks), server frames are read by a strict decoder.
//
// In both modes the two byte streams of the connection, reassembled from the
// packets seen on the loopback NIC, are afterwards parsed by the strict decoder
// and compared with the script.

type WSMsg struct {
	Dir    int    `json:"dir"` // 0 client->server, 1 server->client
	N      int    `json:"n"`
	Seed   uint64 `json:"seed"`
	Class  int    `json:"class"`            // see genBytes
	Masked bool   `json:"masked,omitempty"` // mode 1, client->server only
	Key    uint32 `json:"key,omitempty"`    // masking key (big endian on the wire)
	// Burst: the next message (if it goes the same way) is written before this
	// one is read; a burst stays far below the 1 MiB send buffer, so that the
	// bundled helpers' ignoring of partial writes does not come into play.
	Burst bool `json:"burst,omitempty"`
}

type WSCase struct {
	Addr int     `json:"addr"`
	Port int     `json:"port"`
	Mode int     `json:"mode"`
	Key  string  `json:"key,omitempty"` // mode 1: the Sec-WebSocket-Key
	Msgs []WSMsg `json:"msgs"`
}

const (
	rfcSampleKey    = "dGhlIHNhbXBsZSBub25jZQ=="
	rfcSampleAccept = "s3pPLMBiTxaQ9kYGzzhZRbK+xOo="
	maxWSMsg        = 320000
	maxWSSession    = 3 << 20
	maxWSBurst      = 200000
)

func (m WSMsg) payload() []byte { return genBytes(m.Seed, m.N, m.Class) }
func (m WSMsg) key() [4]byte {
	return [4]byte{byte(m.Key >> 24), byte(m.Key >> 16), byte(m.Key >> 8), byte(m.Key)}
}

func (c WSCase) outside() string {
	if c.Mode != 0 && c.Mode != 1 {
		return "mode"
	}
	if c.Mode == 1 {
		k := c.Key
		if k == "" || strings.ContainsAny(k, "\r\n\x00") || k[0] == ' ' || k[0] == '\t' || k[len(k)-1] == ' ' || k[len(k)-1] == '\t' || len(k) > 200 {
			return "key"
		}
	} else if c.Key != "" {
		return "key given in mode 0"
	}
	total := 0
	for _, m := range c.Msgs {
		if m.N < 0 || m.N > maxWSMsg || (m.Dir != 0 && m.Dir != 1) || m.Class < 0 || m.Class > 3 {
			return "message"
		}
		if m.Masked && (c.Mode != 1 || m.Dir != 0) {
			return "masked message that the harness does not send"
		}
		if !m.Masked && m.Key != 0 {
			return "masking key without masking"
		}
		total += m.N
	}
	if total > maxWSSession {
		return "session too large"
	}
	return ""
}

func nearBoundary(n int) bool {
	d := func(a, b int) bool { return a-b <= 2 && b-a <= 2 }
	return d(n, 125) || d(n, 126) || d(n, 65535) || d(n, 65536)
}

const wsStepDeadline = 10 * time.Second

// wsSession is one established session.
type wsSession struct {
	a    *attempt
	flow flowKey
	wire bool
	sc   *websocket.Conn   // server end
	wc   *websocket.Client // mode 0 client end
	hc   *http.Client      // mode 1 client end
}

func (s *wsSession) close() {
	close(s.a.wsDone)
	within(2*time.Second, func() {
		if s.wc != nil {
			s.wc.Close()
		}
		if s.hc != nil {
			s.hc.GetConnection().Close()
		}
	})
	if s.wire {
		tapEP.forget(s.flow)
	}
	s.a.release()
}

// wsOpen connects and upgrades; a timed-out attempt is retried with the same
// input (F10, see runHTTP).
func wsOpen(c WSCase, light bool) (*wsSession, *evid.Failure) {
	for try := 0; try < len(httpTimeouts); try++ {
		a := newAttempt()
		a.names = []string{"Sec-WebSocket-Key"}
		if c.Mode == 0 {
			currentWS.Store(a)
		}
		mark := tapEP.mark()
		s := &wsSession{a: a}
		var uerr error
		ok, pan, more := withinMore(httpTimeouts[try], func() {
			url := urlFor(c.Addr, c.Port, wsPath)
			if c.Mode == 0 {
				wc, _ := websocket.NewClient(url)
				if uerr = wc.Upgrade(); uerr == nil {
					s.wc = wc
				}
				return
			}
			hc, err := http.NewClient(url)
			if err != nil {
				uerr = err
				return
			}
			hc.SetMethod("GET")
			hc.SetHeaders(map[string]string{idHeader: a.id, "Upgrade": "websocket", "Connection": "Upgrade",
				"Sec-WebSocket-Key": c.Key, "Sec-WebSocket-Version": "13"})
			if uerr = hc.Push(); uerr == nil {
				s.hc = hc
			}
		})
		if !ok && !light {
			// slow or lost? (see runHTTP)
			if k, ferr := tapEP.newFlowSince(mark, portOf(c.Port)); ferr == nil {
				c2s, s2c := tapEP.streams(k)
				if _, whole := splitHTTP(c2s.data); whole && len(s2c.data) == 0 {
					ok, pan = more(12 * time.Second)
					_, s2c = tapEP.streams(k)
					if !ok && len(s2c.data) == 0 {
						if c.Mode == 0 {
							currentWS.Store(nil)
						}
						a.release()
						return nil, evid.Failf("ws-upgrade-request-lost", "the upgrade request (%d bytes) was on the wire completely %v ago, yet the server has emitted no byte of a response and the client is still waiting: the request is lost inside the server", len(c2s.data), httpTimeouts[try]+12*time.Second)
					}
					if ok {
						evid.Label("ws_upgrade_slow_but_answered")
					}
				}
			}
		}
		if c.Mode == 0 {
			currentWS.Store(nil)
		}
		if pan != "" {
			return nil, evid.Failf("ws-client-panic", "the bundled client panicked during connect/upgrade: %s", pan)
		}
		if !ok {
			evid.Label("ws_upgrade_attempt_timed_out")
			continue // leave the connection alone, see runHTTP
		}
		if uerr != nil {
			return nil, evid.Failf("ws-upgrade-error", "the bundled client could not upgrade: %v", uerr)
		}
		if !light {
			// (concurrent sessions cannot tell their flows apart by "new since the mark": no wire view there)
			var ferr error
			s.flow, ferr = tapEP.newFlowSince(mark, portOf(c.Port))
			s.wire = ferr == nil
		}
		select {
		case s.sc = <-a.wsConn:
			return s, nil
		case err := <-a.wsErr:
			s.close()
			return nil, evid.Failf("ws-upgrade-refused", "websocket.Upgrade refused a well-formed upgrade request (mode %d, key %q): %v", c.Mode, c.Key, err)
		case <-time.After(3 * time.Second):
			s.close()
			return nil, evid.Failf("ws-upgrade-no-handler", "the client completed its upgrade but the handler registered for %s did not run", wsPath)
		}
	}
	return nil, evid.Failf("ws-timeout:upgrade", "no answer to the upgrade request within %v, three attempts", httpTimeouts)
}

func runWSOnce(c WSCase) *evid.Failure { return runWSSession(c, false) }

// runWSSession runs one session; light sessions (run concurrently with others)
// are judged at the two ends only, without the wire view.
func runWSSession(c WSCase, light bool) *evid.Failure {
	s, f := wsOpen(c, light)
	if f != nil {
		return f
	}
	defer s.close()
	var fs []*evid.Failure
	add := func(f *evid.Failure) { fs = append(fs, f) }

	// The handshake.
	recs := s.a.records()
	if len(recs) != 1 {
		add(evid.Failf("ws-handler-count", "the handler of %s ran %d times for one upgrade request", wsPath, len(recs)))
	}
	key := c.Key
	var reqEnd, respEnd int
	if s.wire {
		c2s, s2c := tapEP.streams(s.flow)
		req, ok1 := splitHTTP(c2s.data)
		resp, ok2 := splitHTTP(s2c.data)
		if !ok1 || !ok2 {
			add(evid.Failf("ws-handshake-wire", "upgrade exchange on the wire is incomplete: request %q response %q", clip(string(c2s.data)), clip(string(s2c.data))))
		} else {
			reqEnd, respEnd = len(c2s.data)-len(req.Body), len(s2c.data)-len(resp.Body)
			k, n := req.field("Sec-WebSocket-Key")
			if n != 1 || (c.Mode == 1 && k != c.Key) {
				add(evid.Failf("ws-handshake-wire", "Sec-WebSocket-Key on the wire: %d fields, value %q (case key %q)", n, k, c.Key))
			}
			key = k
			if _, code, _, err := statusLine(resp.Start); err != nil || code != 101 {
				add(evid.Failf("ws-handshake-status", "status line of the upgrade response is %q, want 101 (%v)", resp.Start, err))
			}
			acc, n := resp.field("Sec-WebSocket-Accept")
			if want := acceptKey(key); n != 1 || acc != want {
				add(evid.Failf("ws-accept-key", "Sec-WebSocket-Key %q: Sec-WebSocket-Accept on the wire is %q (%d fields), want base64(SHA-1(key + GUID)) = %q", key, acc, n, want))
			}
			if key == rfcSampleKey && acc != rfcSampleAccept {
				add(evid.Failf("ws-accept-key", "RFC 6455 sample key %q: accept %q, want %q", key, acc, rfcSampleAccept))
			}
		}
	} else if !light {
		evid.Label("ws_flow_not_identified")
	}
	if len(recs) == 1 && key != "" && recs[0].Hdr["Sec-WebSocket-Key"] != key {
		add(evid.Failf("ws-handshake-key", "Sec-WebSocket-Key sent %q, handler saw %q", key, recs[0].Hdr["Sec-WebSocket-Key"]))
	}
	if c.Mode == 1 {
		got := s.hc.GetRequest().GetHeader("Sec-WebSocket-Accept")
		if want := acceptKey(c.Key); got != want {
			add(evid.Failf("ws-accept-key", "Sec-WebSocket-Key %q: the client's parsed response has Sec-WebSocket-Accept %q, want %q", c.Key, got, want))
		}
		if c.Key == rfcSampleKey && got != rfcSampleAccept {
			add(evid.Failf("ws-accept-key", "RFC 6455 sample key: the client's parsed response has accept %q, want %q", got, rfcSampleAccept))
		}
	}
	if f := pick(fs); f != nil {
		return f
	}

	// The messages, in lock step.
	conn := (*http.Connection)(nil)
	if c.Mode == 1 {
		conn = s.hc.GetConnection()
	}
	readn := func(n int) ([]byte, error) {
		b := make([]byte, n)
		if _, err := conn.Readn(b); err != nil {
			return nil, err
		}
		return b, nil
	}
	howOf := func(m WSMsg) string {
		switch {
		case m.Dir == 0 && c.Mode == 0:
			return "bundled Client.Push -> bundled Conn.ReadData"
		case m.Dir == 0 && m.Masked:
			return fmt.Sprintf("frame masked with key %08x by the harness -> bundled Conn.ReadData", m.Key)
		case m.Dir == 0:
			return "unmasked frame written by the harness -> bundled Conn.ReadData"
		case c.Mode == 0:
			return "bundled Conn.SendData -> bundled Client.Recv"
		}
		return "bundled Conn.SendData -> strict RFC 6455 decoder of the harness"
	}
	send := func(m WSMsg, payload []byte) error {
		switch {
		case m.Dir == 1:
			return s.sc.SendData(payload)
		case c.Mode == 0:
			return s.wc.Push(string(payload))
		}
		return conn.Write(encodeFrame(1, m.Masked, m.key(), payload))
	}
	recv := func(m WSMsg) ([]byte, error) {
		switch {
		case m.Dir == 0:
			return s.sc.ReadData()
		case c.Mode == 0:
			r, err := s.wc.Recv()
			return []byte(r), err
		}
		f, err := decodeFrame(readn)
		switch {
		case err != nil:
			return nil, err
		case !f.Fin || f.Opcode != 1:
			return nil, fmt.Errorf("frame is not a final text frame (fin=%v opcode=%d)", f.Fin, f.Opcode)
		case f.Masked:
			return nil, fmt.Errorf("server frame is masked")
		}
		return f.Payload, nil
	}
	for i := 0; i < len(c.Msgs) && len(fs) == 0; {
		// a group: messages of one direction written back to back before any
		// of them is read (Burst), small enough for one send buffer
		j, size := i, c.Msgs[i].N
		for c.Msgs[j].Burst && j+1 < len(c.Msgs) && c.Msgs[j+1].Dir == c.Msgs[i].Dir && size+c.Msgs[j+1].N <= maxWSBurst {
			j++
			size += c.Msgs[j].N
		}
		group := c.Msgs[i : j+1]
		wants := make([][]byte, len(group))
		gots := make([][]byte, len(group))
		errs := make([]error, len(group))
		for k, m := range group {
			wants[k] = m.payload()
		}
		ok, pan := within(wsStepDeadline, func() {
			if c.Mode == 1 && group[0].Dir == 0 && len(group) > 1 && c.Msgs[i].Seed%2 == 0 {
				// the frames of the group leave in ONE write: TCP carries the end of one frame
				// and the start of the next in the same segment (and splits frame headers
				// across segments when the group exceeds one)
				var all []byte
				for k, m := range group {
					all = append(all, encodeFrame(1, m.Masked, m.key(), wants[k])...)
				}
				evid.Label("ws_frames_coalesced_in_one_write")
				if errs[0] = conn.Write(all); errs[0] != nil {
					return
				}
			} else {
				for k, m := range group {
					if errs[k] = send(m, wants[k]); errs[k] != nil {
						return
					}
				}
			}
			for k, m := range group {
				if gots[k], errs[k] = recv(m); errs[k] != nil {
					return
				}
			}
		})
		dir := map[int]string{0: "client->server", 1: "server->client"}[group[0].Dir]
		burst := ""
		if len(group) > 1 {
			burst = fmt.Sprintf(" [written back to back with messages %d..%d]", i, j)
		}
		if pan != "" {
			return evid.Failf("ws-panic", "messages %d..%d (%s, %s)%s: %s", i, j, dir, howOf(group[0]), burst, pan)
		}
		if !ok {
			return evid.Failf("ws-timeout:message", "messages %d..%d (%s, lengths from %d, %s)%s were not all received within %v", i, j, dir, group[0].N, howOf(group[0]), burst, wsStepDeadline)
		}
		for k, m := range group {
			switch {
			case errs[k] != nil:
				add(evid.Failf("ws-message-error", "message %d (%s, %d bytes, %s)%s: %v", i+k, dir, m.N, howOf(m), burst, errs[k]))
			case !bytes.Equal(gots[k], wants[k]):
				add(evid.Failf("ws-message-mismatch", "message %d (%s, %d bytes, %s)%s was received altered: %s", i+k, dir, m.N, howOf(m), burst, firstDiff(wants[k], gots[k])))
			}
			if len(fs) > 0 {
				break
			}
		}
		i = j + 1
	}

	// The frames as they crossed the NIC.
	if s.wire && respEnd > 0 {
		c2s, s2c := tapEP.streams(s.flow)
		for d, st := range []streamView{c2s, s2c} {
			dir := map[int]string{0: "client->server", 1: "server->client"}[d]
			off := reqEnd
			if d == 1 {
				off = respEnd
			}
			if st.gap || off > len(st.data) {
				evid.Label("ws_stream_gap")
				continue
			}
			frames, rest, err := decodeFrames(st.data[off:])
			var wantMsgs []WSMsg
			for _, m := range c.Msgs {
				if m.Dir == d {
					wantMsgs = append(wantMsgs, m)
				}
			}
			if err != nil {
				add(evid.Failf("ws-wire-frame", "%s stream: frame %d does not parse under RFC 6455: %v", dir, len(frames), err))
				continue
			}
			if len(fs) > 0 {
				continue // the session was cut short above
			}
			if len(rest) != 0 || len(frames) != len(wantMsgs) {
				add(evid.Failf("ws-wire-frame", "%s stream holds %d complete frames and %d further bytes, %d messages were sent", dir, len(frames), len(rest), len(wantMsgs)))
				continue
			}
			for i, f := range frames {
				m := wantMsgs[i]
				switch {
				case !f.Fin || f.Opcode != 1:
					add(evid.Failf("ws-wire-frame", "%s frame %d: fin=%v opcode=%d, want a final text frame", dir, i, f.Fin, f.Opcode))
				case f.Masked != m.Masked || (f.Masked && f.Key != m.key()):
					add(evid.Failf("ws-wire-frame", "%s frame %d: masked=%v key=%x, sent masked=%v key=%08x", dir, i, f.Masked, f.Key, m.Masked, m.Key))
				case f.LenClass != lenClassOf(m.N):
					add(evid.Failf("ws-wire-frame", "%s frame %d: %d bytes encoded in the %d-bit length form", dir, i, m.N, f.LenClass))
				case !bytes.Equal(f.Payload, m.payload()):
					add(evid.Failf("ws-wire-frame", "%s frame %d: payload on the wire differs: %s", dir, i, firstDiff(m.payload(), f.Payload)))
				}
			}
		}
	}
	return pick(fs)
}

// runWS confirms a missed deadline by running the same case once more (timing
// policy of DESIGN 2.4).
func runWS(c WSCase) *evid.Failure {
	env()
	if why := c.outside(); why != "" {
		evid.Label("ws_outside_quantifier:" + why)
		return nil
	}
	evid.Journal("ws", c)
	f := runWSOnce(c)
	if f != nil && strings.HasPrefix(f.Sig, "ws-timeout") {
		if f2 := runWSOnce(c); f2 != nil {
			return f2
		}
		evid.Unconfirmed()
		return nil
	}
	return f
}

func labelWS(c WSCase) {
	evid.Label(fmt.Sprintf("ws_session_mode_%d", c.Mode))
	if c.Key == rfcSampleKey {
		evid.Label("ws_rfc_sample_key")
	}
	evid.Eval(int64(len(c.Msgs)))
	for _, m := range c.Msgs {
		d := map[int]string{0: "c2s", 1: "s2c"}[m.Dir]
		evid.Label(fmt.Sprintf("ws_msg_%s_len%d", d, lenClassOf(m.N)))
		if m.N == 0 {
			evid.Label("ws_msg_empty")
		}
		if m.N > 150000 {
			evid.Label("ws_msg_over_150k")
		}
		if m.Masked {
			evid.Label("ws_msg_masked")
		}
		if m.Burst {
			evid.Label("ws_msg_burst_flag")
		}
		if nearBoundary(m.N) {
			evid.Label("ws_msg_near_boundary_" + d)
		}
		if nearBoundary(m.N) || m.Masked {
			evid.NonTrivialKey("ws", c.Mode, m.Dir, m.N, m.Seed, m.Class, m.Masked, m.Key, m.Burst)
		}
	}
}

// ---------------------------------------------------------------------------
// Generator.

var (
	boundaryLens = []int{0, 1, 2, 123, 124, 125, 126, 127, 128, 65533, 65534, 65535, 65536, 65537, 65538}
	specialKeys  = []uint32{0, 0xffffffff, 0x01020304, 0xaa55aa55, 0x00ff00ff, 0x80000000, 0x00000001, 0x12340000}
)

func genLen(rt *rapid.T) int {
	switch k := rapid.IntRange(0, 19).Draw(rt, "lenkind"); {
	case k < 8:
		return rapid.SampledFrom(boundaryLens).Draw(rt, "boundary")
	case k < 13:
		return rapid.IntRange(0, 300).Draw(rt, "small")
	case k < 16:
		return rapid.IntRange(129, 65532).Draw(rt, "mid")
	case k < 19:
		return rapid.IntRange(65539, 150000).Draw(rt, "large")
	}
	return rapid.SampledFrom([]int{rapid.IntRange(150000, 310000).Draw(rt, "huge"), 300000, 307200, 262144}).Draw(rt, "hugepick")
}

func genWS(rt *rapid.T) WSCase {
	c := WSCase{
		Addr: rapid.IntRange(0, len(localAddrs)-1).Draw(rt, "addr"),
		Port: rapid.IntRange(0, len(portClasses)-1).Draw(rt, "port"),
	}
	if rapid.IntRange(0, 2).Draw(rt, "mode") > 0 { // mode 1 has three kinds of client messages: weight 2 of 3
		c.Mode = 1
	}
	if c.Mode == 1 {
		switch k := rapid.IntRange(0, 9).Draw(rt, "keykind"); {
		case k == 0:
			c.Key = rfcSampleKey
		case k < 8:
			c.Key = base64.StdEncoding.EncodeToString(rapid.SliceOfN(rapid.Byte(), 16, 16).Draw(rt, "nonce"))
		default:
			b := []rune(rapid.StringOfN(rapid.RuneFrom(valueRunes), 1, 40, -1).Draw(rt, "keystr"))
			if b[0] == ' ' || b[0] == '\t' {
				b[0] = 'k'
			}
			if l := len(b) - 1; b[l] == ' ' || b[l] == '\t' {
				b[l] = 'k'
			}
			c.Key = string(b)
		}
	}
	n := rapid.IntRange(1, 10).Draw(rt, "nmsgs")
	total := 0
	for i := 0; i < n; i++ {
		m := WSMsg{
			Dir:   rapid.IntRange(0, 1).Draw(rt, "dir"),
			N:     genLen(rt),
			Seed:  rapid.Uint64Range(0, 1<<20).Draw(rt, "seed"),
			Class: rapid.IntRange(0, 3).Draw(rt, "class"),
		}
		if total+m.N > 1500000 {
			m.N %= 300
		}
		total += m.N
		if c.Mode == 1 && m.Dir == 0 && rapid.IntRange(0, 3).Draw(rt, "masked") > 0 {
			m.Masked = true
			if rapid.IntRange(0, 4).Draw(rt, "keyspecial") == 0 {
				m.Key = rapid.SampledFrom(specialKeys).Draw(rt, "maskkey")
			} else {
				m.Key = rapid.Uint32().Draw(rt, "maskkey")
			}
		}
		m.Burst = rapid.IntRange(0, 3).Draw(rt, "burst") == 3
		c.Msgs = append(c.Msgs, m)
	}
	return c
}

func TestWS(t *testing.T) {
	defer noteBadPackets()
	evid.Run(t, evid.Spec[WSCase]{
		Name: "ws",
		Gen:  genWS,
		Run: func(c WSCase) *evid.Failure {
			f := runWS(c)
			if c.outside() == "" {
				labelWS(c)
				if len(c.Msgs) > 0 && len(c.Msgs) <= 4 {
					evid.Sample("ws", c)
				}
			}
			return f
		},
	})
}

// TestWSBoundary visits every length of the windows around the frame-length
// class boundaries once per sender/receiver combination.
func TestWSBoundary(t *testing.T) {
	if evid.ReplayMode() {
		t.Skip("replays of check ws are hosted by TestWS")
	}
	type win struct{ lo, hi int }
	wins := evid.Pick([]win{{0, 130}, {65531, 65541}}, []win{{0, 1000}, {65036, 66036}})
	var lens []int
	for _, w := range wins {
		for n := w.lo; n <= w.hi; n++ {
			lens = append(lens, n)
		}
	}
	// combos: mode, dir, masked
	type combo struct {
		mode, dir int
		masked    bool
		name      string
	}
	combos := []combo{
		{0, 0, false, "bundled sender -> bundled receiver, client->server"},
		{0, 1, false, "bundled sender -> bundled receiver, server->client"},
		{1, 0, true, "harness masked frame -> bundled receiver"},
		{1, 0, false, "harness unmasked frame -> bundled receiver"},
		{1, 1, false, "bundled sender -> harness strict decoder"},
	}
	const perSession = 12
	idx := 0
	var visited int64
	for ci, cb := range combos {
		for start := 0; start < len(lens); start += perSession {
			idx++
			if idx%evid.NShards != evid.ShardIdx {
				continue
			}
			end := start + perSession
			if end > len(lens) {
				end = len(lens)
			}
			c := WSCase{Addr: idx % len(localAddrs), Port: idx % len(portClasses), Mode: cb.mode}
			if cb.mode == 1 {
				c.Key = rfcSampleKey
				if idx%3 != 0 {
					c.Key = base64.StdEncoding.EncodeToString([]byte(fmt.Sprintf("verif-nonce-%04d", idx)))
				}
			}
			for _, n := range lens[start:end] {
				m := WSMsg{Dir: cb.dir, N: n, Seed: uint64(n*7 + ci), Class: n % 4, Masked: cb.masked, Burst: idx%2 == 1}
				if cb.masked {
					m.Key = uint32(n+1) * 0x9E3779B9
				}
				c.Msgs = append(c.Msgs, m)
			}
			f := runWS(c)
			evid.Eval(1)
			labelWSBoundary(c)
			visited += int64(len(c.Msgs))
			if evid.Direct(t, "ws", f, c) {
				return
			}
		}
	}
	evid.DistinctByConstruction(visited)
	if evid.ShardIdx == 0 {
		var ws []string
		for _, w := range wins {
			ws = append(ws, fmt.Sprintf("%d..%d", w.lo, w.hi))
		}
		evid.Exhaustive("every WebSocket message length in " + strings.Join(ws, ", ") + " for each of: bundled->bundled both directions, harness-masked->bundled, harness-unmasked->bundled, bundled->strict decoder")
	}
}

func labelWSBoundary(c WSCase) {
	evid.Eval(int64(len(c.Msgs)))
	evid.Label(fmt.Sprintf("ws_session_mode_%d", c.Mode))
	for _, m := range c.Msgs {
		d := map[int]string{0: "c2s", 1: "s2c"}[m.Dir]
		evid.Label(fmt.Sprintf("ws_msg_%s_len%d", d, lenClassOf(m.N)))
		if m.Masked {
			evid.Label("ws_msg_masked")
		}
		if m.Burst {
			evid.Label("ws_msg_burst_flag")
		}
		if nearBoundary(m.N) {
			evid.Label("ws_msg_near_boundary_" + d)
		}
	}
}

// TestSelf checks the reference side against the vectors printed in RFC 6455
// (a failure here is a harness fault, not a verdict).
func TestSelf(t *testing.T) {
	if evid.ReplayMode() {
		t.Skip()
	}
	if got := acceptKey(rfcSampleKey); got != rfcSampleAccept {
		t.Fatalf("harness: acceptKey(sample) = %q", got)
	}
	// RFC 6455 section 5.7
	if got := encodeFrame(1, false, [4]byte{}, []byte("Hello")); !bytes.Equal(got, []byte{0x81, 0x05, 0x48, 0x65, 0x6c, 0x6c, 0x6f}) {
		t.Fatalf("harness: unmasked Hello = %x", got)
	}
	if got := encodeFrame(1, true, [4]byte{0x37, 0xfa, 0x21, 0x3d}, []byte("Hello")); !bytes.Equal(got, []byte{0x81, 0x85, 0x37, 0xfa, 0x21, 0x3d, 0x7f, 0x9f, 0x4d, 0x51, 0x58}) {
		t.Fatalf("harness: masked Hello = %x", got)
	}
	h := encodeFrame(2, false, [4]byte{}, make([]byte, 256))
	if !bytes.Equal(h[:4], []byte{0x82, 0x7E, 0x01, 0x00}) {
		t.Fatalf("harness: 256 byte frame header %x", h[:4])
	}
	h = encodeFrame(2, false, [4]byte{}, make([]byte, 65536))
	if !bytes.Equal(h[:10], []byte{0x82, 0x7F, 0, 0, 0, 0, 0, 1, 0, 0}) {
		t.Fatalf("harness: 64KiB frame header %x", h[:10])
	}
	for _, n := range []int{0, 1, 125, 126, 127, 65535, 65536, 70000} {
		for _, masked := range []bool{false, true} {
			p := genBytes(uint64(n), n, n%4)
			fr, rest, err := decodeFrames(encodeFrame(1, masked, [4]byte{1, 2, 3, 4}, p))
			if err != nil || len(rest) != 0 || len(fr) != 1 || !bytes.Equal(fr[0].Payload, p) || fr[0].LenClass != lenClassOf(n) || fr[0].Masked != masked {
				t.Fatalf("harness: frame codec round trip n=%d masked=%v: %v", n, masked, err)
			}
		}
	}
	// the strict decoder refuses non-minimal lengths
	if _, _, err := decodeFrames([]byte{0x81, 126, 0, 125}); err == nil {
		t.Fatalf("harness: non-minimal 16-bit length accepted")
	}
	if _, _, err := decodeFrames([]byte{0x81, 127, 0, 0, 0, 0, 0, 0, 0xff, 0xff}); err == nil {
		t.Fatalf("harness: non-minimal 64-bit length accepted")
	}
}
