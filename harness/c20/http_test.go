package c20

import (
	"encoding/json"
	"fmt"
	"strings"
	"testing"
	"time"

	"github.com/brewlin/net-protocol/protocol/application/http"
	"pgregory.net/rapid"
	"verifharness/evid"
)

// ---------------------------------------------------------------------------
// HTTP cases.
//
// The grammar below is what the bundled parser (request.go: parse, pkg.go:
// match_until) can carry, derived from its code:
//
//   request line  method SP uri SP version CRLF, each cut at the FIRST
//                 occurrence of its delimiter: method and uri hold no SP, the
//                 uri no CR LF either (buffer.ParseUrl's `/.*` stops at LF);
//   header        name ": " value CRLF, name cut at the first ": ", value at the
//                 first CRLF; an EMPTY value ends header parsing, names are map
//                 keys (unique, case-sensitive). Generated: RFC 7230 tokens,
//                 unique without regard to case; values non-empty, no CR / LF /
//                 NUL, first and last byte visible (surrounding blanks are
//                 optional white space for RFC 7230, not part of the value);
//   body          whatever follows the header block. (Before the repair of F8
//                 the header loop did not stop at the empty line and took a
//                 body holding ": " for a header line; bodies were generated
//                 without ": " then. They are generated verbatim now, JSON-like
//                 bodies included.)
//   size          the HTTP layer reads a message with one receive, so request
//                 and response are kept below one loopback segment (65483).
//
// Methods are the four of the statement. The handler signals a failure status
// with Response.Error(code) (the only status API there is) or a body with
// Response.End(body); an empty End("") is indistinguishable from "no body
// set" for the bundled response writer and is excluded.

type Pad struct {
	N     int    `json:"n"`
	Seed  uint64 `json:"seed"`
	Class int    `json:"class"`
}

type HTTPCase struct {
	Addr    int         `json:"addr"` // index of the local address in the URL
	Port    int         `json:"port"` // URL port class: 0 none(80) 1 "81" 2 "808" 3 "8080"
	Method  string      `json:"method"`
	Path    string      `json:"path"`
	Headers [][2]string `json:"headers,omitempty"`
	Body    string      `json:"body"`
	BodyPad *Pad        `json:"body_pad,omitempty"` // generated filler appended to Body
	Resp    string      `json:"resp"`
	RespPad *Pad        `json:"resp_pad,omitempty"`
	ErrCode int         `json:"err_code,omitempty"` // handler calls Error(code) and produces no body
}

// maxHTTPMsg bounds request and response size (several loopback segments of 65483 bytes)
const maxHTTPMsg = 250000

// sanitize used to make b free of ": " (see the grammar above).
func sanitize(b []byte) bool {
	return false // no longer needed, see the grammar above
}

func expand(lit string, p *Pad) (string, bool) {
	b := []byte(lit)
	if p != nil && p.N > 0 {
		b = append(b, genBytes(p.Seed, p.N, p.Class)...)
	}
	ch := sanitize(b)
	return string(b), ch
}

func (c HTTPCase) body() string { s, _ := expand(c.Body, c.BodyPad); return s }
func (c HTTPCase) resp() string { s, _ := expand(c.Resp, c.RespPad); return s }

func isTokenByte(b byte) bool {
	switch {
	case b >= 'a' && b <= 'z', b >= 'A' && b <= 'Z', b >= '0' && b <= '9':
		return true
	}
	return strings.IndexByte("!#$%&'*+-.^_`|~", b) >= 0
}

func isRegistered(p string) bool {
	for _, q := range httpPaths {
		if p == q {
			return true
		}
	}
	return false
}

// outside says why a case is outside the quantifier ("" if it is inside).
func (c HTTPCase) outside() string {
	switch c.Method {
	case "GET", "HEAD", "POST", "PUT":
	default:
		return "method"
	}
	if len(c.Path) == 0 || c.Path[0] != '/' || c.Path == wsPath || strings.ContainsAny(c.Path, " \r\n\x00?#") {
		return "path"
	}
	seen := map[string]bool{strings.ToLower(idHeader): true}
	hsize := 0
	for _, h := range c.Headers {
		n, v := h[0], h[1]
		if n == "" || v == "" {
			return "empty header name or value"
		}
		for i := 0; i < len(n); i++ {
			if !isTokenByte(n[i]) {
				return "header name is not a token"
			}
		}
		if seen[strings.ToLower(n)] {
			return "duplicate header name"
		}
		seen[strings.ToLower(n)] = true
		if strings.ContainsAny(v, "\r\n\x00") || v[0] == ' ' || v[0] == '\t' || v[len(v)-1] == ' ' || v[len(v)-1] == '\t' {
			return "header value"
		}
		hsize += len(n) + len(v) + 4
	}
	if c.ErrCode == 0 && isRegistered(c.Path) && c.resp() == "" {
		return "empty response body"
	}
	if c.ErrCode != 0 && (c.ErrCode < 400 || c.ErrCode > 599) {
		return "error status"
	}
	if 200+len(c.Path)+hsize+len(c.body()) > maxHTTPMsg || 200+len(c.resp()) > maxHTTPMsg {
		return "message larger than one segment"
	}
	return ""
}

// pick returns the first failure that is not a listed known finding, so that
// an unrepaired known defect does not hide what else a case shows (KnownSig
// counts the hits of the listed ones); the other unlisted failures of the same
// case are appended to its message.
// mayNotFitOneSegment: request or response may exceed one loopback TCP
// segment (65483 payload bytes); estimated generously from the case.
func (c HTTPCase) mayNotFitOneSegment() bool {
	hsize := 0
	for _, h := range c.Headers {
		hsize += len(h[0]) + len(h[1]) + 4
	}
	return 400+len(c.Path)+hsize+len(c.body()) > 65000 || 400+len(c.resp()) > 65000
}

func pick(fs []*evid.Failure) *evid.Failure {
	var first *evid.Failure
	for _, f := range fs {
		if evid.KnownSig(f.Sig) {
			continue
		}
		if first == nil {
			first = &evid.Failure{Sig: f.Sig, Msg: f.Msg}
		} else if len(first.Msg) < 3000 {
			first.Msg += "\nalso [" + f.Sig + "]: " + f.Msg
		}
	}
	return first
}

func orphanCount() int {
	orphanMu.Lock()
	defer orphanMu.Unlock()
	return len(orphans)
}

func orphansFrom(n int) []string {
	orphanMu.Lock()
	defer orphanMu.Unlock()
	if n > len(orphans) {
		n = len(orphans)
	}
	return append([]string(nil), orphans[n:]...)
}

var clientDefaults = []string{"Host", "User-Agent", "Accept"}

var httpTimeouts = []time.Duration{3 * time.Second, 6 * time.Second, 12 * time.Second}

// bodySig classifies a body mismatch; the blank-line symptom gets its own
// signature because it is one root cause with a precise shape.
func bodyFailure(key, where, want, got string) *evid.Failure {
	if got == "\r\n"+want {
		return evid.Failf("http-body-keeps-blank-line:"+key,
			"%s: the body is %q but what arrives is %q: the CRLF of the empty line that separates header block and body was not consumed by the parser (request.go parse) and is delivered as the first two body bytes",
			where, clip(want), clip(got))
	}
	return evid.Failf("http-body-mismatch:"+key, "%s: body sent/produced %q, received %q (%s)", where, clip(want), clip(got), firstDiff([]byte(want), []byte(got)))
}

func clip(s string) string {
	if len(s) > 120 {
		return s[:60] + "…(" + fmt.Sprint(len(s)) + " bytes)…" + s[len(s)-40:]
	}
	return s
}

func runHTTP(c HTTPCase) *evid.Failure {
	env()
	if why := c.outside(); why != "" {
		evid.Label("http_outside_quantifier:" + why)
		return nil
	}
	evid.Journal("http", c)
	body, resp := c.body(), c.resp()
	registered := isRegistered(c.Path)
	sent := map[string]string{}
	var names []string
	for _, h := range c.Headers {
		sent[h[0]] = h[1]
		names = append(names, h[0])
	}

	var (
		a       *attempt
		res     string
		cerr    error
		flowK   flowKey
		flowErr error
		done    bool
		orph0   int
	)
	for try := 0; try < len(httpTimeouts) && !done; try++ {
		a = newAttempt()
		a.names = append([]string{idHeader}, names...)
		for _, d := range clientDefaults { // headers the bundled client adds by itself
			if _, over := sent[d]; !over {
				a.names = append(a.names, d)
			}
		}
		a.respBody = resp
		if registered {
			a.errCode = c.ErrCode
		}
		orph0 = orphanCount()
		mark := tapEP.mark()
		// r is only read when the goroutine finished in time
		r := &struct {
			cli *http.Client
			res string
			err error
		}{}
		ok, pan, more := withinMore(httpTimeouts[try], func() {
			cli, err := http.NewClient(urlFor(c.Addr, c.Port, c.Path))
			if err != nil {
				r.err = err
				return
			}
			r.cli = cli
			// the request follows the connect at once, as the bundled
			// client's users do (F10: the server used to lose a request that
			// arrived before it had registered for read events)
			cli.SetMethod(c.Method)
			h := map[string]string{idHeader: a.id}
			for k, v := range sent {
				h[k] = v
			}
			cli.SetHeaders(h)
			cli.SetData(body)
			r.res, r.err = cli.GetResult()
		})
		if pan != "" {
			return evid.Failf("http-client-panic", "the bundled client panicked: %s", pan)
		}
		flowK, flowErr = tapEP.newFlowSince(mark, portOf(c.Port))
		if !ok && flowErr == nil {
			// Slow or lost? The request is lost if it is completely on the
			// wire (so the server's TCP has it), no byte of a response has
			// been emitted, and that is still so after another 12 s of an
			// otherwise idle process.
			c2s, s2c := tapEP.streams(flowK)
			if m, whole := splitHTTP(c2s.data); whole && len(m.Body) >= len(body) && len(s2c.data) == 0 {
				ok, pan = more(12 * time.Second)
				_, s2c = tapEP.streams(flowK)
				if !ok && len(s2c.data) == 0 {
					nrec := len(a.records())
					a.release()
					return evid.Failf("http-request-lost", "%s %s: the request (%d bytes) was on the wire completely %v ago, yet the server has emitted no byte of a response and the client is still waiting (handler invocations for this request: %d): the request is lost inside the server", c.Method, c.Path, len(c2s.data), httpTimeouts[try]+12*time.Second, nrec)
				}
				if ok {
					evid.Label("http_attempt_slow_but_answered")
				}
			}
		}
		if pan != "" {
			return evid.Failf("http-client-panic", "the bundled client panicked: %s", pan)
		}
		if ok {
			done = true
			res, cerr = r.res, r.err
			if r.cli != nil {
				r.cli.GetConnection().Close()
			}
			break
		}
		// Timed out: leave the connection alone (closing it would wake the
		// server late) and try the same input again.
		evid.Label("http_attempt_timed_out")
		if flowErr == nil {
			c2s, s2c := tapEP.streams(flowK)
			evid.Note("http attempt %d timed out after %v (retried): request on the wire %d bytes, response on the wire %d bytes", try+1, httpTimeouts[try], len(c2s.data), len(s2c.data))
		}
	}
	if flowErr == nil {
		defer tapEP.forget(flowK)
	}
	if !done {
		w := ""
		if flowErr == nil {
			c2s, s2c := tapEP.streams(flowK)
			w = fmt.Sprintf("; last attempt on the wire: request %d bytes, response %d bytes", len(c2s.data), len(s2c.data))
		}
		return evid.Failf("http-timeout", "%s %s: no result from the bundled client within %v, three attempts%s", c.Method, c.Path, httpTimeouts, w)
	}
	defer a.release()
	if cerr != nil {
		return evid.Failf("http-client-error", "%s %s: bundled client returned error %v", c.Method, c.Path, cerr)
	}

	var fs []*evid.Failure
	multi := c.mayNotFitOneSegment()
	add := func(f *evid.Failure) {
		if multi {
			f = &evid.Failure{Sig: "http-multiseg:" + f.Sig, Msg: f.Msg}
		}
		fs = append(fs, f)
	}

	// 1. What the bundled client put on the wire.
	var c2s, s2c streamView
	wire := flowErr == nil
	if wire {
		c2s, s2c = tapEP.streams(flowK)
		if multi {
			// the client returns after the first receive: let the rest of the response reach the wire
			for i, last := 0, -1; i < 50 && len(s2c.data) != last; i++ {
				last = len(s2c.data)
				time.Sleep(20 * time.Millisecond)
				c2s, s2c = tapEP.streams(flowK)
			}
		}
		if c2s.gap || s2c.gap {
			evid.Label("http_gap_on_loopback") // never expected; the wire view cannot be trusted
			return nil
		}
		if c2s.segs > 1 || s2c.segs > 1 || c.mayNotFitOneSegment() {
			// (judged by size too: when the client returns after the first
			// segment of the response, the second one may not be on the wire yet)
			// The HTTP layer reads a message with one receive and has no
			// framing (no Content-Length): a message carried in several TCP
			// segments may be cut at a segment boundary (F24, known finding).
			// Failures of such a case carry the prefix http-multiseg:.
			multi = true
			evid.Label("http_multi_segment_message")
		}
		m, ok := splitHTTP(c2s.data)
		want := c.Method + " " + c.Path + " HTTP/1.1"
		switch {
		case !ok:
			add(evid.Failf("http-wire-request", "the request on the wire has no empty line: %q", clip(string(c2s.data))))
		case m.Start != want:
			add(evid.Failf("http-wire-request", "request line on the wire %q, want %q", m.Start, want))
		default:
			for _, n := range a.names {
				v, mine := sent[n]
				if n == idHeader {
					v, mine = a.id, true
				}
				if !mine {
					continue
				}
				cnt := 0
				for _, l := range m.Lines {
					if l == n+": "+v {
						cnt++
					}
				}
				if cnt != 1 {
					add(evid.Failf("http-wire-request", "header line %q appears %d times in the request on the wire (lines %q)", n+": "+v, cnt, m.Lines))
					break
				}
			}
			if string(m.Body) != body {
				add(evid.Failf("http-wire-request", "body on the wire differs from the body given to the client: %s", firstDiff([]byte(body), m.Body)))
			}
		}
	} else {
		evid.Label("http_flow_not_identified")
	}

	// 2. What the handlers saw.
	recs := a.records()
	if o := orphansFrom(orph0); len(o) > 0 {
		add(evid.Failf("http-handler-lost-headers", "%s %s: a handler ran but did not find the %s header the request carried: %v", c.Method, c.Path, idHeader, o))
	}
	if !registered {
		if len(recs) != 0 {
			add(evid.Failf("http-handler-for-unregistered-path", "%s %s: nobody registered this path, yet the handler of %q was invoked (%d invocations)", c.Method, c.Path, recs[0].Handler, len(recs)))
		}
	} else if len(recs) != 1 {
		add(evid.Failf("http-handler-count", "%s %s: the handler registered for the path was invoked %d times, want exactly once", c.Method, c.Path, len(recs)))
	} else {
		r := recs[0]
		if r.Handler != c.Path {
			add(evid.Failf("http-dispatch-wrong-handler", "%s %s: the handler registered for %q was invoked", c.Method, c.Path, r.Handler))
		}
		if r.Method != c.Method {
			add(evid.Failf("http-method", "%s %s: handler saw method %q", c.Method, c.Path, r.Method))
		}
		for _, n := range names {
			if r.Hdr[n] != sent[n] {
				add(evid.Failf("http-header", "%s %s: header %q sent with value %q, handler's GetHeader returned %q", c.Method, c.Path, n, sent[n], r.Hdr[n]))
				break
			}
		}
		// the headers the client added by itself count as sent, too: what the
		// handler sees must be what the independent reader finds on the wire
		if m, ok := splitHTTP(c2s.data); wire && ok {
			for _, d := range clientDefaults {
				if _, over := sent[d]; over {
					continue
				}
				if v, n := m.field(d); n == 1 && r.Hdr[d] != v {
					add(evid.Failf("http-header", "%s %s: the client sent its own header %q with value %q, handler's GetHeader returned %q", c.Method, c.Path, d, v, r.Hdr[d]))
					break
				}
			}
		}
		if r.Body != body {
			add(bodyFailure("request", "request body seen by the handler (GetBody)", body, r.Body))
		}
	}

	// 3. What came back.
	if registered && len(recs) == 1 {
		wantCode := 200
		if c.ErrCode != 0 {
			wantCode = c.ErrCode
		}
		if wire {
			m, ok := splitHTTP(s2c.data)
			if !ok {
				add(evid.Failf("http-wire-response", "the response on the wire has no empty line: %q", clip(string(s2c.data))))
			} else if ver, code, _, err := statusLine(m.Start); err != nil {
				add(evid.Failf("http-wire-response", "%v", err))
			} else {
				if ver != "HTTP/1.1" {
					add(evid.Failf("http-wire-response", "status line %q: version is not HTTP/1.1", m.Start))
				}
				if code != wantCode {
					if c.ErrCode != 0 && code == 200 {
						add(evid.Failf("http-status-ignored", "%s %s: the handler called Response.Error(%d); the status line received is %q: Error() goes through set_status_code, which only assigns when the code is still 0, but NewCon initialises it to 200", c.Method, c.Path, c.ErrCode, m.Start))
					} else {
						add(evid.Failf("http-status", "%s %s: status line %q, want code %d", c.Method, c.Path, m.Start, wantCode))
					}
				}
				if c.ErrCode == 0 && string(m.Body) != resp {
					sig := "http-wire-response"
					if multi {
						// the client returns after its first receive and the connection is closed:
						// the rest of a multi-segment response may never reach the wire (F24)
						sig = "http-body-mismatch:wire-response"
					}
					add(evid.Failf(sig, "response body on the wire differs from what the handler passed to End: %s", firstDiff([]byte(resp), m.Body)))
				}
			}
		}
		if c.ErrCode == 0 && res != resp {
			add(bodyFailure("response", "response body returned by the client (GetResult)", resp, res))
		}
	}
	return pick(fs)
}

// ---------------------------------------------------------------------------
// Generator.

var (
	tokenRunes = []rune("abcdefghijklmnopqrstuvwxyzABCDEFGHIJKLMNOPQRSTUVWXYZ0123456789!#$%&'*+-.^_`|~")
	valueRunes = []rune("abcdefghijklmnopqrstuvwxyzABCDEFGHIJKLMNOPQRSTUVWXYZ0123456789 \t!\"#$%&'()*+,-./:;<=>?@[\\]^_`{|}~é日")
	pathRunes  = []rune("abcdefghijklmnopqrstuvwxyzABCDEFGHIJKLMNOPQRSTUVWXYZ0123456789/._~-%:@!$&'()*+,;=")
	bodyRunes  = []rune("abcdefghijklmnopqrstuvwxyz0123456789\r\n\r\n:: \t=&{}[]\",;/\x00\x7fé日€")

	namePool = []string{"X-Test", "Content-Type", "Accept", "Host", "User-Agent", "Cookie", "Authorization", "X-Forwarded-For",
		"If-None-Match", "Accept-Encoding", "x", "A", "X-1", "Referer", "Cache-Control", "Connection", "Upgrade", "Sec-WebSocket-Key"}
	valuePool = []string{"v", "0", "a: b", "a:b", ":", ": x", "x :", "text/html; charset=utf-8", "*/*", "gzip, deflate", "a\tb", "k=v; k2=v2",
		"Basic dXNlcjpwYXNz", "\"quoted\"", "HTTP/1.1", "GET / HTTP/1.1", "é", "日本", "a  b"}
	bodyPool = []string{"", "", "a", "hello", "\r\n", "\r\nabc", "\r\n\r\n", "\n", "\nabc", "\r", "a\r\nb", "a\r\n\r\nb", "k:v", "k :v", ":", " ", " :",
		"a=1&b=2", "{\"a\":1}", "{\"a\": 1, \"b\": \"x: y\"}", "k: v", "Host: evil\r\n", "\r\nX-Injected: 1\r\n\r\nbody", "line\r\n", "x\r", "GET / HTTP/1.1\r\n", "name:value\r\n\r\n", "\x00", "é日€"}
	missPool = []string{"/nope", "/ech", "/echo/", "/echo2", "/ECHO", "/a", "/a/", "/a/b/", "/a/b/c", "//", "/index.htm", "/index.html/", "/B",
		"/x-y_z.~", "/ws/", "/w", "/GET", "/POST", "/HTTP/1.1", "/%2F", "/echo%20"}
	errCodes = []int{400, 401, 403, 404, 405, 409, 410, 418, 500, 501, 503}
)

func genPad(rt *rapid.T, label string, allowBig bool) *Pad {
	k := rapid.IntRange(0, 9).Draw(rt, label+"_padkind")
	n := 0
	switch {
	case k < 5:
		return nil
	case k < 8:
		n = rapid.IntRange(1, 300).Draw(rt, label+"_padn")
	case k < 9 || !allowBig:
		n = rapid.IntRange(300, 4000).Draw(rt, label+"_padn")
	default:
		n = rapid.IntRange(4000, 40000).Draw(rt, label+"_padn")
		if rapid.IntRange(0, 3).Draw(rt, label+"_huge") == 0 {
			// more than one loopback segment
			n = rapid.OneOf(rapid.IntRange(65000, 66000), rapid.IntRange(66000, 200000)).Draw(rt, label+"_hugen")
		}
	}
	return &Pad{N: n, Seed: rapid.Uint64Range(0, 1<<20).Draw(rt, label+"_padseed"), Class: rapid.IntRange(0, 3).Draw(rt, label+"_padclass")}
}

func genText(rt *rapid.T, label string, pool []string, runes []rune, max int) string {
	if rapid.IntRange(0, 2).Draw(rt, label+"_kind") > 0 {
		return rapid.SampledFrom(pool).Draw(rt, label+"_pool")
	}
	return rapid.StringOfN(rapid.RuneFrom(runes), 0, max, -1).Draw(rt, label+"_str")
}

func genHTTP(rt *rapid.T) HTTPCase {
	c := HTTPCase{
		Addr:   rapid.IntRange(0, len(localAddrs)-1).Draw(rt, "addr"),
		Port:   rapid.IntRange(0, len(portClasses)-1).Draw(rt, "port"),
		Method: rapid.SampledFrom([]string{"GET", "HEAD", "POST", "PUT"}).Draw(rt, "method"),
	}
	switch k := rapid.IntRange(0, 9).Draw(rt, "pathkind"); {
	case k < 6:
		c.Path = rapid.SampledFrom(httpPaths).Draw(rt, "path")
	case k < 8:
		c.Path = rapid.SampledFrom(missPool).Draw(rt, "miss")
	default:
		c.Path = "/" + rapid.StringOfN(rapid.RuneFrom(pathRunes), 0, 40, -1).Draw(rt, "rndpath")
		for isRegistered(c.Path) || c.Path == wsPath {
			c.Path += "_"
		}
	}
	nh := rapid.SampledFrom([]int{0, 0, 1, 1, 2, 3, 4, 6, 12, 24}).Draw(rt, "nheaders")
	seen := map[string]bool{strings.ToLower(idHeader): true}
	for i := 0; i < nh; i++ {
		var n string
		if rapid.Bool().Draw(rt, "name_from_pool") {
			n = rapid.SampledFrom(namePool).Draw(rt, "name")
		} else {
			n = rapid.StringOfN(rapid.RuneFrom(tokenRunes), 1, 24, -1).Draw(rt, "token")
		}
		if seen[strings.ToLower(n)] {
			continue
		}
		seen[strings.ToLower(n)] = true
		var v string
		if rapid.IntRange(0, 2).Draw(rt, "value_kind") == 0 {
			v = rapid.SampledFrom(valuePool).Draw(rt, "value")
		} else {
			max := 40
			if rapid.IntRange(0, 15).Draw(rt, "long_value") == 0 {
				max = 600
			}
			b := []rune(rapid.StringOfN(rapid.RuneFrom(valueRunes), 1, max, -1).Draw(rt, "valuestr"))
			if b[0] == ' ' || b[0] == '\t' {
				b[0] = 'x'
			}
			if l := len(b) - 1; b[l] == ' ' || b[l] == '\t' {
				b[l] = 'x'
			}
			v = string(b)
		}
		c.Headers = append(c.Headers, [2]string{n, v})
	}
	c.Body = genText(rt, "body", bodyPool, bodyRunes, 80)
	c.BodyPad = genPad(rt, "body", true)
	if isRegistered(c.Path) {
		if rapid.IntRange(0, 7).Draw(rt, "use_error") == 7 {
			c.ErrCode = rapid.SampledFrom(errCodes).Draw(rt, "errcode")
		} else {
			c.Resp = genText(rt, "resp", bodyPool, bodyRunes, 80)
			c.RespPad = genPad(rt, "resp", true)
			if c.resp() == "" {
				c.Resp = "r" + c.Resp
				evid.Exclude("empty_response_body")
			}
		}
	}
	return c
}

func sizeClass(n int) string {
	switch {
	case n == 0:
		return "0"
	case n <= 100:
		return "1-100"
	case n <= 1460:
		return "101-1460"
	case n <= 10000:
		return "1461-10000"
	}
	return ">10000"
}

func labelHTTP(c HTTPCase) {
	evid.Label("http_method_" + c.Method)
	if isRegistered(c.Path) {
		evid.Label("http_path_registered")
		if c.ErrCode != 0 {
			evid.Label("http_handler_error_status")
		} else {
			evid.Label("http_resp_body_" + sizeClass(len(c.resp())))
		}
	} else {
		evid.Label("http_path_unregistered")
	}
	if p := portClasses[c.Port%len(portClasses)]; p == "" {
		evid.Label("http_url_port_none(80)")
	} else {
		evid.Label("http_url_port_" + p)
	}
	evid.Label("http_req_body_" + sizeClass(len(c.body())))
	if strings.Contains(c.body(), ": ") {
		evid.Label("http_req_body_with_colon_space")
	}
	if strings.Contains(c.resp(), ": ") {
		evid.Label("http_resp_body_with_colon_space")
	}
	switch n := len(c.Headers); {
	case n == 0:
		evid.Label("http_extra_headers_0")
	case n <= 4:
		evid.Label("http_extra_headers_1-4")
	default:
		evid.Label("http_extra_headers_5+")
	}
	b := c.body()
	if strings.HasPrefix(b, "\r\n") || strings.HasPrefix(b, "\n") {
		evid.Label("http_req_body_starts_with_newline")
	}
	if len(c.Headers) >= 1 && b != "" {
		j, _ := json.Marshal(c)
		evid.NonTrivialKey("http", j)
		evid.Sample("http", c)
	}
}

func TestHTTP(t *testing.T) {
	defer noteBadPackets()
	evid.Run(t, evid.Spec[HTTPCase]{
		Name: "http",
		Gen:  genHTTP,
		Run: func(c HTTPCase) *evid.Failure {
			f := runHTTP(c)
			if c.outside() == "" {
				labelHTTP(c)
			}
			return f
		},
	})
}
