// Package c06 decides property C06: every frame the stack emits decodes under
// an independent RFC-derived decoder (lengths, checksums, options, IP
// identification), is sourced from an address of the interface the first
// matching route selects, carries the socket's (or the answered packet's)
// addresses and ports, and on Ethernet links goes to the resolved next hop.
package c06

import (
	"bytes"
	"encoding/binary"
	"fmt"
	"strings"
	"testing"
	"time"

	tcpip "github.com/brewlin/net-protocol/protocol"
	"github.com/brewlin/net-protocol/protocol/network/ipv4"
	"github.com/brewlin/net-protocol/protocol/network/ipv6"
	"github.com/brewlin/net-protocol/protocol/transport/tcp"
	"github.com/brewlin/net-protocol/protocol/transport/udp"
	"github.com/brewlin/net-protocol/stack"
	"pgregory.net/rapid"
	"verifharness/codec"
	"verifharness/evid"
	"verifharness/netsim"
	"verifharness/rawpeer"
)

// Case selects one traffic scenario and its parameters.
type Case struct {
	Kind  string `json:"kind"` // tcp-pair | tcp-raw | udp | echo | stray | fd | routes
	V6    bool   `json:"v6"`
	MTU   int    `json:"mtu"`
	SACK  bool   `json:"sack"`
	Sizes []int  `json:"sizes"` // payload sizes (tcp writes / udp datagrams / echo payloads)
	Opts  []byte `json:"opts"`  // SYN options of the scripted peer (tcp-raw)
	Zero  bool   `json:"zero"`  // udp: construct the payload so that the checksum computes to zero
	Loss  int    `json:"loss"`  // tcp-pair: background loss per mille (elicits SACK blocks, retransmissions)
	Seed  uint64 `json:"seed"`
	NIC   int    `json:"nic"` // routes: which destination class
	// udp: per datagram, destination and how it is given: v%3 peer, (v/3)%3 port,
	// (v/9)%3 mode (0 sendto with an explicit address, 1 Connect to it and Write
	// without address, 2 Write without address on the connection as it is)
	UDPDst []int `json:"udp_dst,omitempty"`
	// udp, v6 only: the socket is dual-stack (v6only off) and the second peer is
	// the IPv4 peer written as an IPv4-mapped address (::ffff:10.0.0.2), so
	// connects and sendtos alternate between the two network protocols
	Dual bool `json:"dual,omitempty"`
}

type frameCtx struct {
	class map[string]bool
	n     int
}

func (fc *frameCtx) note(p *codec.Packet, link string) {
	fc.n++
	k := link + "/" + p.L3
	switch p.L4Kind {
	case "tcp":
		var on []string
		for _, o := range p.Opts {
			on = append(on, fmt.Sprint(o.Kind))
		}
		k += fmt.Sprintf("/tcp/%s/opts%s/len%s", codec.FlagString(p.Flags), strings.Join(on, "."), lenClass(len(p.Payload)))
	case "udp":
		k += "/udp/len" + lenClass(len(p.Payload))
	case "icmp4", "icmp6":
		k += fmt.Sprintf("/%s/%d/len%s", p.L4Kind, p.ICMPType, lenClass(len(p.Payload)))
	default:
		if p.L3 == "arp" {
			k += fmt.Sprintf("/op%d", p.ARPOp)
		}
	}
	if fc.class == nil {
		fc.class = map[string]bool{}
	}
	fc.class[k] = true
}

func lenClass(n int) string {
	switch {
	case n == 0:
		return "0"
	case n == 1:
		return "1"
	case n < 64:
		return fmt.Sprintf("<64%s", parity(n))
	case n < 1400:
		return fmt.Sprintf("<1400%s", parity(n))
	default:
		return fmt.Sprintf(">=1400%s", parity(n))
	}
}

func parity(n int) string {
	if n%2 == 1 {
		return "odd"
	}
	return "even"
}

// judgeFrames applies the decoder and the IP identification rule to a tap trace.
func judgeFrames(fc *frameCtx, link string, frames []netsim.Frame, ownAddrs [][]byte) *evid.Failure {
	lastID := map[string]uint16{}
	haveID := map[string]bool{}
	for i, f := range frames {
		p := f.Pkt
		fc.note(p, link)
		if !p.OK() {
			return evid.Failf("malformed:"+p.L3+":"+p.L4Kind, "emitted frame %d does not decode cleanly: %s: %v", i, p, p.Errs)
		}
		if p.L3 == "ipv4" || p.L3 == "ipv6" {
			own := false
			for _, a := range ownAddrs {
				if bytes.Equal(a, p.Src) {
					own = true
				}
			}
			if !own {
				return evid.Failf("source-not-own", "emitted frame %d has source address %v which is not an address of the emitting interface: %s", i, p.Src, p)
			}
		}
		if p.L3 == "ipv4" && p.IPTotal > 68 && !p.IsFrag {
			key := fmt.Sprintf("%v>%v/%d", p.Src, p.Dst, p.Proto)
			if haveID[key] && lastID[key] == p.IPID {
				return evid.Failf("ipid-repeated", "two consecutive large IPv4 packets of flow %s carry the same identification %d (frame %d)", key, p.IPID, i)
			}
			lastID[key], haveID[key] = p.IPID, true
		}
	}
	return nil
}

func pattern(seed uint64, n int) []byte {
	b := make([]byte, n)
	x := seed*0x9e3779b97f4a7c15 + 1
	for i := range b {
		x ^= x << 13
		x ^= x >> 7
		x ^= x << 17
		b[i] = byte(x >> 24)
	}
	return b
}

func runCase(c Case) *evid.Failure {
	fc := &frameCtx{}
	var f *evid.Failure
	switch c.Kind {
	case "tcp-pair":
		f = scTCPPair(c, fc)
	case "tcp-raw":
		f = scTCPRaw(c, fc)
	case "udp":
		f = scUDP(c, fc)
	case "echo":
		f = scEcho(c, fc)
	case "stray":
		f = scStray(c, fc)
	case "fd":
		f = scFD(c, fc)
	case "routes":
		f = scRoutes(c, fc)
	}
	if f != nil {
		return f
	}
	evid.Eval(int64(fc.n))
	for k := range fc.class {
		evid.NonTrivialKey(k)
	}
	evid.LabelN("frames:"+c.Kind, int64(fc.n))
	if fc.n > 0 {
		evid.Sample(c.Kind, c)
	}
	return nil
}

// --- scenarios

func scTCPPair(c Case, fc *frameCtx) *evid.Failure {
	cfg := netsim.PairCfg{V6: c.V6, SACK: c.SACK, CC: "reno", MTU: c.MTU}
	if c.Loss > 0 {
		cfg.Prog = netsim.Program{DropPM: c.Loss, DupPM: c.Loss / 2, HoldPM: c.Loss / 2, Budget: 12, Seed: c.Seed}
	}
	p := netsim.NewPair(cfg)
	defer p.Close()
	if msg := p.Establish(10 * time.Second); msg != "" {
		return nil
	}
	done := make(chan struct{}, 2)
	go func() {
		for _, n := range c.Sizes {
			p.C.Write(pattern(c.Seed, n), 5*time.Second)
		}
		p.C.EP.Shutdown(tcpip.ShutdownWrite)
		done <- struct{}{}
	}()
	go func() {
		for _, n := range c.Sizes {
			p.S.Write(pattern(c.Seed+1, n/2+1), 5*time.Second)
		}
		p.S.EP.Shutdown(tcpip.ShutdownWrite)
		done <- struct{}{}
	}()
	drain := func(s *netsim.Sock) {
		for {
			_, err, ok := s.Read(3*time.Second, nil)
			if !ok || err != nil {
				return
			}
		}
	}
	go drain(p.S)
	drain(p.C)
	<-done
	<-done
	time.Sleep(5 * time.Millisecond)
	if f := judgeFrames(fc, "tap", p.TA.Trace(), [][]byte{[]byte(p.AddrA)}); f != nil {
		return f
	}
	if f := judgeFrames(fc, "tap", p.TB.Trace(), [][]byte{[]byte(p.AddrB)}); f != nil {
		return f
	}
	// ports and addresses are the sockets'
	for _, f := range p.TA.Trace() {
		if f.Pkt.L4Kind == "tcp" && (f.Pkt.SrcPort != netsim.PairClientPort || f.Pkt.DstPort != netsim.PairPort || !bytes.Equal(f.Pkt.Dst, []byte(p.AddrB))) {
			return evid.Failf("tcp-addressing", "segment of the client socket carries wrong addressing: %s", f.Pkt)
		}
	}
	return nil
}

func scTCPRaw(c Case, fc *frameCtx) *evid.Failure {
	env := rawpeer.NewEnv(rawpeer.EnvCfg{V6: c.V6, MTU: c.MTU, SACK: c.SACK})
	defer env.Close()
	l, err := env.Listen(80, 8)
	if err != nil {
		return nil
	}
	defer l.EP.Close()
	p := env.Peer(80, 50000, uint32(c.Seed))
	if p.Connect(rawpeer.SynOpts{Raw: c.Opts}, time.Second) {
		if s, aerr, ok := l.Accept(time.Second); ok && aerr == nil {
			for _, n := range c.Sizes {
				s.Write(pattern(c.Seed, n), time.Second)
				// acknowledge whatever arrives
				for {
					fr, ok := p.Next(3 * time.Millisecond)
					if !ok {
						break
					}
					if len(fr.Pkt.Payload) > 0 {
						p.RcvNxt = fr.Pkt.Seq + uint32(len(fr.Pkt.Payload))
						p.Ack()
					}
				}
			}
			// out-of-order data towards the stack elicits SACK blocks
			p.Data(10, []byte("abcdef"), codec.PSH)
			p.Data(30, []byte("ghi"), codec.PSH)
			p.Data(0, []byte("0123456789"), codec.PSH)
			time.Sleep(2 * time.Millisecond)
			s.EP.Close()
		}
	}
	time.Sleep(3 * time.Millisecond)
	if f := judgeFrames(fc, "tap", env.Tap.Trace(), [][]byte{[]byte(env.StackAddr())}); f != nil {
		return f
	}
	for _, f := range env.Tap.Trace() {
		if f.Pkt.L4Kind == "tcp" && (f.Pkt.SrcPort != 80 || f.Pkt.DstPort != 50000 || !bytes.Equal(f.Pkt.Dst, []byte(env.PeerAddr()))) {
			return evid.Failf("tcp-addressing", "segment answering peer port 50000 carries wrong addressing: %s", f.Pkt)
		}
	}
	return nil
}

// zeroSumPayload returns an n-byte payload (n >= 2) for which the UDP checksum
// over (pseudo header, UDP header, payload) computes to zero.
func zeroSumPayload(src, dst []byte, sp, dp uint16, n int, seed uint64) []byte {
	pl := pattern(seed, n)
	pl[0], pl[1] = 0, 0
	hdr := make([]byte, 8)
	binary.BigEndian.PutUint16(hdr[0:], sp)
	binary.BigEndian.PutUint16(hdr[2:], dp)
	binary.BigEndian.PutUint16(hdr[4:], uint16(8+n))
	sum := codec.Sum1071(append(hdr, pl...), codec.PseudoSum(src, dst, codec.ProtoUDP, 8+n))
	// we need the total to be 0xffff: add the one's-complement difference in the first word
	need := uint16(0xffff) - sum
	pl[0], pl[1] = byte(need>>8), byte(need)
	return pl
}

func scUDP(c Case, fc *frameCtx) *evid.Failure {
	tap := netsim.NewTap(uint32(c.MTU))
	st := netsim.NewStack(tap, netsim.StackCfg{Addrs4: []tcpip.Address{netsim.A4}, Addrs6: []tcpip.Address{netsim.A6}})
	defer netsim.ReleaseStack(st, tap)
	net := tcpip.NetworkProtocolNumber(ipv4.ProtocolNumber)
	me, peer := netsim.A4, netsim.B4
	if c.V6 {
		net, me, peer = ipv6.ProtocolNumber, netsim.A6, netsim.B6
	}
	s, err := netsim.NewSock(st, udp.ProtocolNumber, net)
	if err != nil {
		return nil
	}
	defer s.EP.Close()
	if e := s.EP.Bind(tcpip.FullAddress{Port: 4000}, nil); e != nil {
		return nil
	}
	sent := 0
	peers := []tcpip.Address{peer, tcpip.Address([]byte{10, 0, 0, 3}), tcpip.Address([]byte{10, 0, 0, 200})}
	if c.V6 {
		peers = []tcpip.Address{peer, tcpip.Address(append(append([]byte(nil), []byte(netsim.B6)[:15]...), 3)), tcpip.Address(append(append([]byte(nil), []byte(netsim.B6)[:15]...), 200))}
	}
	if c.V6 && c.Dual {
		peers[1] = tcpip.Address(append([]byte{0, 0, 0, 0, 0, 0, 0, 0, 0, 0, 0xff, 0xff}, []byte(netsim.B4)...))
		evid.Label("udp:dual-stack-socket")
	}
	// wire addresses of a destination: an IPv4-mapped one travels as IPv4 from the stack's IPv4 address
	wire := func(a tcpip.Address) (src, dst []byte) {
		if b := []byte(a); len(b) == 16 && bytes.Equal(b[:12], []byte{0, 0, 0, 0, 0, 0, 0, 0, 0, 0, 0xff, 0xff}) {
			return []byte(netsim.A4), b[12:]
		}
		return []byte(me), []byte(a)
	}
	ports := []uint16{5000, 5001, 7}
	var conn *tcpip.FullAddress // the socket's current remote address
	for i, n := range c.Sizes {
		d := 0
		if i < len(c.UDPDst) {
			d = c.UDPDst[i]
			if d < 0 {
				d = -d
			}
		}
		dst := tcpip.FullAddress{Addr: peers[d%3], Port: ports[(d/3)%3]}
		mode := (d / 9) % 3
		if mode == 2 && conn == nil {
			mode = 0
		}
		peer, dport := dst.Addr, dst.Port
		wopts := tcpip.WriteOptions{To: &dst}
		switch mode {
		case 1:
			if conn != nil && conn.Addr == dst.Addr && conn.Port == dst.Port {
				// connecting again to the very same address is refused by the stack
				// (duplicate registration); not this property's business
				mode = 2
				wopts = tcpip.WriteOptions{}
				evid.Label("udp:write-on-connection")
				break
			}
			if e := s.EP.Connect(dst); e != nil {
				evid.Label("udp:connect-failed")
				evid.Note("udp Connect(%v:%d) failed: %v", []byte(dst.Addr), dst.Port, e)
				return judgeFrames(fc, "tap", tap.Trace(), [][]byte{[]byte(me), []byte(netsim.A4)})
			}
			conn = &tcpip.FullAddress{Addr: dst.Addr, Port: dst.Port}
			wopts = tcpip.WriteOptions{}
			evid.Label("udp:write-after-connect")
		case 2:
			peer, dport = conn.Addr, conn.Port
			wopts = tcpip.WriteOptions{}
			evid.Label("udp:write-on-connection")
		default:
			if conn != nil {
				evid.Label("udp:sendto-on-connected-socket")
			}
		}
		wsrc, wdst := wire(peer)
		pl := pattern(c.Seed+uint64(i), n)
		if c.Zero && n >= 2 {
			pl = zeroSumPayload(wsrc, wdst, 4000, dport, n, c.Seed+uint64(i))
		}
		if len(wdst) == 4 && c.V6 {
			evid.Label("udp:dual-stack-ipv4-destination")
		}
		before := tap.Len()
		_, _, werr := s.EP.Write(tcpip.SlicePayload(pl), wopts)
		if werr != nil {
			if tap.Len() != before {
				return evid.Failf("udp-failed-write-emitted", "Write of %d bytes failed with %v but a frame was emitted", n, werr)
			}
			continue
		}
		sent++
		fr := tap.Trace()[before:]
		if len(fr) != 1 {
			return evid.Failf("udp-one-packet", "Write of %d bytes emitted %d frames", n, len(fr))
		}
		k := fr[0].Pkt
		if k.L4Kind != "udp" || k.SrcPort != 4000 || k.DstPort != dport || !bytes.Equal(k.Dst, wdst) || !bytes.Equal(k.Src, wsrc) || !bytes.Equal(k.Payload, pl) {
			if k.OK() || len(k.Dst) != len(wdst) {
				return evid.Failf("udp-addressing", "datagram of %d bytes to %v:%d (%s) from port 4000 was emitted as %s", n, []byte(peer), dport,
					[]string{"explicit address", "address of the Connect just made", "address the socket is connected to"}[mode], k)
			}
		}
		if c.Zero && n >= 2 && k.OK() {
			evid.Label("udp:zero-sum-payload")
		}
	}
	return judgeFrames(fc, "tap", tap.Trace(), [][]byte{[]byte(me), []byte(netsim.A4)})
}

func scEcho(c Case, fc *frameCtx) *evid.Failure {
	tap := netsim.NewTap(uint32(c.MTU))
	est := netsim.NewStack(tap, netsim.StackCfg{Addrs4: []tcpip.Address{netsim.A4, netsim.C4}, Addrs6: []tcpip.Address{netsim.A6, netsim.C6}})
	defer netsim.ReleaseStack(est, tap)
	for i, n := range c.Sizes {
		target4, target6 := []byte(netsim.A4), []byte(netsim.A6)
		if i%2 == 1 {
			target4, target6 = []byte(netsim.C4), []byte(netsim.C6)
		}
		pl := pattern(c.Seed+uint64(i), n)
		n0 := tap.Len()
		// some requests arrive with a damaged ICMP checksum: the stack need not answer
		// them, but whatever it emits must verify
		damage := (c.Seed>>(2*uint(i%16)))&3 == 0
		spoil := func(m []byte) []byte {
			if damage && len(m) >= 4 {
				m[2] ^= byte(0x5a + i)
				m[3] ^= byte(c.Seed>>8) | 1
				evid.Label("echo:request-with-damaged-checksum")
			}
			return m
		}
		if c.V6 {
			tap.Inject(0x86dd, codec.BuildIPv6(codec.IPv6Hdr{Src: []byte(netsim.B6), Dst: target6, NextHeader: codec.ProtoICMPv6}, spoil(codec.BuildICMPv6Echo([]byte(netsim.B6), target6, 128, uint16(i), 7, pl))))
		} else {
			tap.Inject(0x0800, codec.BuildIPv4(codec.IPv4Hdr{Src: []byte(netsim.B4), Dst: target4, Proto: codec.ProtoICMP}, spoil(codec.BuildICMPv4Echo(8, uint16(i), 7, pl))))
		}
		f, _, ok := tap.Scan(n0, time.Second, func(f netsim.Frame) bool { return f.Pkt.L4Kind == "icmp4" || f.Pkt.L4Kind == "icmp6" })
		if ok {
			want := target4
			if c.V6 {
				want = target6
			}
			if f.Pkt.OK() && !bytes.Equal(f.Pkt.Src, want) {
				return evid.Failf("echo-source", "echo reply for a request to %v is sourced from %v", want, f.Pkt.Src)
			}
		}
	}
	return judgeFrames(fc, "tap", tap.Trace(), [][]byte{[]byte(netsim.A4), []byte(netsim.C4), []byte(netsim.A6), []byte(netsim.C6)})
}

func scStray(c Case, fc *frameCtx) *evid.Failure {
	env := rawpeer.NewEnv(rawpeer.EnvCfg{V6: c.V6, MTU: c.MTU})
	defer env.Close()
	p := env.Peer(81, 50001, uint32(c.Seed))
	for i, n := range c.Sizes {
		fl := []uint8{codec.SYN, codec.ACK, codec.FIN | codec.ACK, codec.SYN | codec.ACK, codec.PSH | codec.ACK, 0}[i%6]
		p.Send(codec.TCPSeg{Seq: uint32(c.Seed) + uint32(i), Ack: uint32(i * 77), Flags: fl, Wnd: 100, Payload: make([]byte, n%50)})
	}
	if f := judgeFrames(fc, "tap", env.Tap.Trace(), [][]byte{[]byte(env.StackAddr())}); f != nil {
		return f
	}
	for _, f := range env.Tap.Trace() {
		if f.Pkt.L4Kind == "tcp" && (f.Pkt.SrcPort != 81 || f.Pkt.DstPort != 50001 || !bytes.Equal(f.Pkt.Dst, []byte(env.PeerAddr()))) {
			return evid.Failf("rst-addressing", "reset does not mirror the addressing of the segment it answers: %s", f.Pkt)
		}
	}
	return nil
}

// scFD: real Ethernet frames from the repository's fd-based endpoint. The
// harness answers ARP; traffic to an on-link host and to a host behind a
// gateway must go to the respective resolved MAC.
func scFD(c Case, fc *frameCtx) *evid.Failure {
	gw := tcpip.Address("\x0a\x00\x00\x63")
	far := tcpip.Address("\xc0\xa8\x07\x07")
	routes := []tcpip.Route{
		{Destination: tcpip.Address("\x0a\x00\x00\x00"), Mask: tcpip.AddressMask("\xff\xff\xff\x00"), NIC: 1},
		{Destination: tcpip.Address("\x00\x00\x00\x00"), Mask: tcpip.AddressMask("\x00\x00\x00\x00"), Gateway: gw, NIC: 1},
	}
	fd, err := netsim.NewFD(uint32(c.MTU), []tcpip.Address{netsim.A4}, []tcpip.Address{netsim.A6}, routes)
	if err != nil {
		return nil
	}
	defer fd.Close()
	macOf := map[string][]byte{string(netsim.B4): {2, 0, 0, 0, 0, 0xb4}, string(gw): {2, 0, 0, 0, 0, 0x63}}
	s, e := netsim.NewSock(fd.Stack, udp.ProtocolNumber, ipv4.ProtocolNumber)
	if e != nil {
		return nil
	}
	defer s.EP.Close()
	s.EP.Bind(tcpip.FullAddress{Port: 4000}, nil)
	dsts := []tcpip.Address{netsim.B4, far}
	expectMAC := [][]byte{macOf[string(netsim.B4)], macOf[string(gw)]}
	for i, n := range c.Sizes {
		if i == 1 && (c.Seed>>7)&3 == 0 {
			// neighbour churn: a station changes its MAC, then more neighbours are learned than
			// the neighbour table holds (it recycles its slots): the next datagram for the first
			// neighbour must still go to that neighbour's MAC (after a fresh resolution)
			x := tcpip.Address("\x0a\x00\x00\x58")
			fd.Stack.AddLinkAddress(1, x, tcpip.LinkAddress("\x02\x00\x00\x00\x58\x01"))
			fd.Stack.AddLinkAddress(1, x, tcpip.LinkAddress("\x02\x00\x00\x00\x58\x02"))
			for k := 0; k < 520; k++ {
				a := tcpip.Address([]byte{10, 0, byte(1 + k/250), byte(1 + k%250)})
				fd.Stack.AddLinkAddress(1, a, tcpip.LinkAddress([]byte{2, 0, 1, byte(k >> 8), byte(k), 0xcc}))
			}
			evid.Label("fd:neighbour-table-wrapped")
		}
		dst := dsts[i%2]
		pl := pattern(c.Seed+uint64(i), n)
		// UDP Write returns ErrWouldBlock-like results while resolving: retry briefly
		deadline := time.Now().Add(1500 * time.Millisecond)
		delivered := false
		for time.Now().Before(deadline) && !delivered {
			_, ch, werr := s.EP.Write(tcpip.SlicePayload(pl), tcpip.WriteOptions{To: &tcpip.FullAddress{Addr: dst, Port: 5000}})
			if werr == tcpip.ErrWouldBlock && ch != nil {
				// answer ARP requests until resolved
				for {
					ef, ok := fd.Read(300 * time.Millisecond)
					if !ok {
						break
					}
					fc.note(ef.Pkt, "eth")
					if !ef.Pkt.OK() {
						return evid.Failf("malformed:eth:"+ef.Pkt.L3, "Ethernet frame from the fd-based endpoint does not decode: %v", ef.Pkt.Errs)
					}
					if ef.Pkt.L3 == "arp" && ef.Pkt.ARPOp == codec.ARPRequest {
						if !bytes.Equal(ef.Pkt.EthDst, []byte{0xff, 0xff, 0xff, 0xff, 0xff, 0xff}) || !bytes.Equal(ef.Pkt.EthSrc, fd.StackMAC) || !bytes.Equal(ef.Pkt.ARPSHA, fd.StackMAC) {
							return evid.Failf("arp-request-framing", "ARP request is not a broadcast from the NIC's MAC: dst %x src %x sha %x", ef.Pkt.EthDst, ef.Pkt.EthSrc, ef.Pkt.ARPSHA)
						}
						if m, ok := macOf[string(ef.Pkt.ARPTPA)]; ok {
							fd.Write(codec.BuildEth(fd.StackMAC, m, codec.EtherARP, codec.BuildARP(codec.ARPReply, m, ef.Pkt.ARPTPA, fd.StackMAC, []byte(netsim.A4))))
							break
						}
					}
				}
				select {
				case <-ch:
				case <-time.After(300 * time.Millisecond):
				}
				continue
			}
			if werr != nil {
				break
			}
			// the datagram must appear with the right MACs
			ef, ok := fd.ReadMatch(time.Second, func(e netsim.EthFrame) bool { return e.Pkt.L4Kind == "udp" })
			if !ok {
				break
			}
			fc.note(ef.Pkt, "eth")
			if !ef.Pkt.OK() {
				return evid.Failf("malformed:eth:udp", "Ethernet frame from the fd-based endpoint does not decode: %v", ef.Pkt.Errs)
			}
			if !bytes.Equal(ef.Pkt.EthSrc, fd.StackMAC) {
				return evid.Failf("eth-source", "frame leaves the NIC with source MAC %x, the NIC's is %x", ef.Pkt.EthSrc, fd.StackMAC)
			}
			if !bytes.Equal(ef.Pkt.EthDst, expectMAC[i%2]) {
				return evid.Failf("eth-destination", "datagram for %v went to MAC %x; the next hop's resolved MAC is %x", []byte(dst), ef.Pkt.EthDst, expectMAC[i%2])
			}
			if !bytes.Equal(ef.Pkt.Dst, []byte(dst)) || !bytes.Equal(ef.Pkt.Src, []byte(netsim.A4)) || !bytes.Equal(ef.Pkt.Payload, pl) {
				return evid.Failf("udp-addressing", "datagram for %v emitted as %s", []byte(dst), ef.Pkt)
			}
			delivered = true
			if i%2 == 1 {
				evid.Label("fd:via-gateway")
			} else {
				evid.Label("fd:on-link")
			}
		}
	}
	// echo replies through the fd-based endpoint, IPv4 and IPv6: the request arrives cut into
	// the endpoint's receive buffers (128, 256, 256, 512, ... bytes), so a reply that hands the
	// received data back goes down to the link as several views
	for i, n := range c.Sizes {
		for _, extra := range []int{0, 61 + int(c.Seed>>9)%12, 300 + int(c.Seed>>13)%200} {
			sz := n + extra
			if sz > c.MTU-48 {
				sz = c.MTU - 48
			}
			pl := pattern(c.Seed^uint64(i*131+extra), sz)
			v6 := (i+extra)%2 == 1
			var l3 string
			if v6 {
				l3 = "ipv6"
				fd.Write(codec.BuildEth(fd.StackMAC, fd.PeerMAC, codec.EtherIPv6, codec.BuildIPv6(codec.IPv6Hdr{Src: []byte(netsim.B6), Dst: []byte(netsim.A6), NextHeader: codec.ProtoICMPv6, HopLimit: 64},
					codec.BuildICMPv6Echo([]byte(netsim.B6), []byte(netsim.A6), 128, uint16(i), uint16(extra), pl))))
			} else {
				l3 = "ipv4"
				fd.Write(codec.BuildEth(fd.StackMAC, fd.PeerMAC, codec.EtherIPv4, codec.BuildIPv4(codec.IPv4Hdr{Src: []byte(netsim.B4), Dst: []byte(netsim.A4), Proto: codec.ProtoICMP, TTL: 64},
					codec.BuildICMPv4Echo(8, uint16(i), uint16(extra), pl))))
			}
			ef, ok := fd.ReadMatch(time.Second, func(e netsim.EthFrame) bool { return e.Pkt.L4Kind == "icmp4" || e.Pkt.L4Kind == "icmp6" })
			if !ok {
				evid.Label("fd:echo-unanswered")
				continue
			}
			fc.note(ef.Pkt, "eth")
			if !ef.Pkt.OK() {
				return evid.Failf("malformed:eth:"+l3+":"+ef.Pkt.L4Kind, "echo reply (request with %d data bytes) from the fd-based endpoint does not decode: %v", sz, ef.Pkt.Errs)
			}
			if !bytes.Equal(ef.Pkt.EthSrc, fd.StackMAC) || !bytes.Equal(ef.Pkt.EthDst, fd.PeerMAC) {
				return evid.Failf("eth-destination", "echo reply for a request from MAC %x left the NIC (%x) as %x > %x", fd.PeerMAC, fd.StackMAC, ef.Pkt.EthSrc, ef.Pkt.EthDst)
			}
			evid.Label("fd:echo-reply-" + l3 + ":" + lenClass(sz))
		}
	}
	// the ARP reply the stack gives
	fd.Write(codec.BuildEth([]byte{0xff, 0xff, 0xff, 0xff, 0xff, 0xff}, fd.PeerMAC, codec.EtherARP, codec.BuildARP(codec.ARPRequest, fd.PeerMAC, []byte(netsim.C4), make([]byte, 6), []byte(netsim.A4))))
	if ef, ok := fd.ReadMatch(time.Second, func(e netsim.EthFrame) bool { return e.Pkt.L3 == "arp" && e.Pkt.ARPOp == codec.ARPReply }); ok {
		fc.note(ef.Pkt, "eth")
		if !ef.Pkt.OK() || !bytes.Equal(ef.Pkt.EthDst, fd.PeerMAC) || !bytes.Equal(ef.Pkt.EthSrc, fd.StackMAC) || !bytes.Equal(ef.Pkt.ARPSHA, fd.StackMAC) || !bytes.Equal(ef.Pkt.ARPSPA, []byte(netsim.A4)) || !bytes.Equal(ef.Pkt.ARPTHA, fd.PeerMAC) || !bytes.Equal(ef.Pkt.ARPTPA, []byte(netsim.C4)) {
			return evid.Failf("arp-reply-fields", "ARP reply is wrong: %s eth %x>%x errs %v", ef.Pkt, ef.Pkt.EthSrc, ef.Pkt.EthDst, ef.Pkt.Errs)
		}
	}
	return nil
}

// scRoutes: two NICs with several addresses and an ordered route table; the
// source address and the emitting interface are those of the first matching
// route entry.
func scRoutes(c Case, fc *frameCtx) *evid.Failure {
	t1, t2 := netsim.NewTap(1500), netsim.NewTap(1500)
	s := stack.New([]string{ipv4.ProtocolName, ipv6.ProtocolName}, []string{tcp.ProtocolName, udp.ProtocolName}, stack.Options{})
	s.CreateNIC(1, stack.RegisterLinkEndpoint(t1))
	s.CreateNIC(2, stack.RegisterLinkEndpoint(t2))
	defer netsim.ReleaseStack(s, t1, t2)
	n1a, n2a := tcpip.Address("\x0a\x00\x00\x01"), tcpip.Address("\x0a\x01\x00\x01")
	s.AddAddress(1, ipv4.ProtocolNumber, n1a)
	s.AddAddress(2, ipv4.ProtocolNumber, n2a)
	a6 := func(hi byte, lo byte) tcpip.Address {
		b := make([]byte, 16)
		b[0], b[1], b[3], b[15] = 0xfd, 0x00, hi, lo
		return tcpip.Address(b)
	}
	m6 := func(n int) tcpip.AddressMask {
		b := make([]byte, 16)
		for i := 0; i < n; i++ {
			b[i] = 0xff
		}
		return tcpip.AddressMask(b)
	}
	n1a6, n2a6 := a6(1, 1), a6(2, 1)
	s.AddAddress(1, ipv6.ProtocolNumber, n1a6)
	s.AddAddress(2, ipv6.ProtocolNumber, n2a6)
	// overlapping prefixes: the more specific entry is listed first and wins; the default goes through NIC 1.
	// The table is dual-family: the IPv4 rows (with their default) come first, the IPv6 rows after
	// them send everything but fd00:1::/32 through NIC 2 - a row only matches addresses of its family
	s.SetRouteTable([]tcpip.Route{
		{Destination: tcpip.Address("\x0a\x01\x02\x00"), Mask: tcpip.AddressMask("\xff\xff\xff\x00"), NIC: 1},
		{Destination: tcpip.Address("\x0a\x01\x00\x00"), Mask: tcpip.AddressMask("\xff\xff\x00\x00"), NIC: 2},
		{Destination: tcpip.Address("\x00\x00\x00\x00"), Mask: tcpip.AddressMask("\x00\x00\x00\x00"), NIC: 1},
		{Destination: a6(1, 0), Mask: m6(4), NIC: 1},
		{Destination: tcpip.Address(make([]byte, 16)), Mask: m6(0), NIC: 2},
	})
	type exp struct {
		dst tcpip.Address
		tap *netsim.Tap
		src tcpip.Address
	}
	exps := []exp{
		{tcpip.Address("\x0a\x01\x02\x09"), t1, n1a}, // first entry
		{tcpip.Address("\x0a\x01\x09\x09"), t2, n2a}, // second entry
		{tcpip.Address("\x08\x08\x08\x08"), t1, n1a}, // default
	}
	net := tcpip.NetworkProtocolNumber(ipv4.ProtocolNumber)
	if c.V6 {
		net = ipv6.ProtocolNumber
		exps = []exp{
			{a6(1, 9), t1, n1a6}, // fd00:1::/32
			{a6(2, 9), t2, n2a6}, // IPv6 default
			{tcpip.Address("\x20\x01\x0d\xb8" + string(make([]byte, 11)) + "\x09"), t2, n2a6}, // IPv6 default
		}
		evid.Label("routes:ipv6-through-a-dual-family-table")
	}
	sock, e := netsim.NewSock(s, udp.ProtocolNumber, net)
	if e != nil {
		return nil
	}
	defer sock.EP.Close()
	for i, n := range c.Sizes {
		x := exps[(i+c.NIC)%len(exps)]
		b1, b2 := t1.Len(), t2.Len()
		if _, _, werr := sock.EP.Write(tcpip.SlicePayload(pattern(c.Seed, n)), tcpip.WriteOptions{To: &tcpip.FullAddress{Addr: x.dst, Port: 9}}); werr != nil {
			continue
		}
		other := t2
		bo := b2
		bx := b1
		if x.tap == t2 {
			other, bo, bx = t1, b1, b2
		}
		if other.Len() != bo || x.tap.Len() != bx+1 {
			return evid.Failf("route-interface", "datagram for %v must leave through the interface of the first matching route entry; NIC1 emitted %d, NIC2 emitted %d frames", []byte(x.dst), t1.Len()-b1, t2.Len()-b2)
		}
		k := x.tap.Trace()[bx].Pkt
		if !bytes.Equal(k.Src, []byte(x.src)) {
			return evid.Failf("route-source", "datagram for %v is sourced from %v, the selected interface's address is %v", []byte(x.dst), k.Src, []byte(x.src))
		}
		evid.Label(fmt.Sprintf("routes:entry-%d", (i+c.NIC)%len(exps)))
	}
	if f := judgeFrames(fc, "tap", t1.Trace(), [][]byte{[]byte(n1a), []byte(n1a6)}); f != nil {
		return f
	}
	return judgeFrames(fc, "tap", t2.Trace(), [][]byte{[]byte(n2a), []byte(n2a6)})
}

func genCase(rt *rapid.T) Case {
	var c Case
	c.Kind = rapid.SampledFrom([]string{"tcp-pair", "tcp-raw", "tcp-raw", "udp", "udp", "echo", "stray", "fd", "routes"}).Draw(rt, "kind")
	c.V6 = rapid.Bool().Draw(rt, "v6")
	c.MTU = rapid.SampledFrom([]int{1280, 1500, 9000, 65535}).Draw(rt, "mtu")
	c.SACK = rapid.Bool().Draw(rt, "sack")
	c.Seed = rapid.Uint64().Draw(rt, "seed")
	c.NIC = rapid.IntRange(0, 2).Draw(rt, "nic")
	n := rapid.IntRange(1, 6).Draw(rt, "nsizes")
	max := 3000
	switch c.Kind {
	case "udp":
		max = 65507
		c.Zero = rapid.Bool().Draw(rt, "zero")
		c.Dual = c.V6 && rapid.Bool().Draw(rt, "dual")
		for i := 0; i < n; i++ {
			c.UDPDst = append(c.UDPDst, rapid.OneOf(rapid.Just(0), rapid.IntRange(0, 26)).Draw(rt, "udp-dst"))
		}
	case "echo":
		max = c.MTU - 48
		if max > 8000 {
			max = 8000
		}
	case "fd":
		c.MTU = 1500
		max = 1400
	case "tcp-pair":
		max = 20000
		c.Loss = rapid.SampledFrom([]int{0, 0, 50, 150}).Draw(rt, "loss")
	}
	for i := 0; i < n; i++ {
		c.Sizes = append(c.Sizes, rapid.OneOf(rapid.IntRange(0, 3), rapid.IntRange(0, 100), rapid.IntRange(0, max)).Draw(rt, "size"))
	}
	if c.Kind == "tcp-raw" {
		var o []byte
		if rapid.Bool().Draw(rt, "mss") {
			o = append(o, codec.OptMSS(uint16(rapid.IntRange(1, 65535).Draw(rt, "mssv")))...)
		}
		if rapid.Bool().Draw(rt, "ws") {
			o = append(o, codec.OptNOP()...)
			o = append(o, codec.OptWS(uint8(rapid.IntRange(0, 14).Draw(rt, "wsv")))...)
		}
		if rapid.Bool().Draw(rt, "ts") {
			o = append(o, codec.OptNOP()...)
			o = append(o, codec.OptNOP()...)
			o = append(o, codec.OptTS(rapid.Uint32().Draw(rt, "tsv"), 0)...)
		}
		if rapid.Bool().Draw(rt, "sackperm") {
			o = append(o, codec.OptNOP()...)
			o = append(o, codec.OptNOP()...)
			o = append(o, codec.OptSACKPerm()...)
		}
		if o == nil {
			o = []byte{}
		}
		c.Opts = o
	}
	return c
}

func TestFrames(t *testing.T) {
	evid.Run(t, evid.Spec[Case]{Name: "frames", Gen: genCase, Run: runCase})
}
