package c06

import (
	"testing"

	"verifharness/evid"
)

func TestMain(m *testing.M) { evid.Main(m, "C06") }
