package c12

import (
	"bytes"
	"fmt"
	"sync"
	"testing"
	"time"

	tcpip "github.com/brewlin/net-protocol/protocol"
	"pgregory.net/rapid"
	"verifharness/evid"
	"verifharness/netsim"
)

// ---------------------------------------------------------------------------
// Part 2: operations waiting for resolution.
//
// Waiters (UDP Write with an explicit destination, UDP Write on a connected
// endpoint, TCP Connect) are started toward a destination whose next hop (the
// destination itself, or the gateway of the matching route) is unknown. The
// harness plays the neighbour: it answers the k-th request or never.
//
// Oracle (property statement):
//   - no TCP/UDP frame for the destination is on the tap before the answer
//     for the next hop was injected (trace index, not clock); if no answer is
//     ever given there is none at all;
//   - every request is for the next hop, well-formed, sent to ff:ff:ff:ff:ff:ff,
//     at least `timeout` after the previous one, at most `attempts` of them,
//     and exactly `attempts` when nobody answers;
//   - unanswered: every waiter fails with ErrNoLinkAddress, not earlier than
//     attempts x timeout after the first request;
//   - answered: every waiter's frame is sent to the learned link address.
// Deadlines for "eventually" are generous and a miss is re-run twice before
// it is reported.

type Waiter struct {
	Kind    string `json:"kind"` // "udp" | "udpc" (connected) | "tcp"
	DelayMs int    `json:"delay_ms"`
}

type WaitCase struct {
	V6            bool     `json:"v6"`
	Real          bool     `json:"real"` // real constants: 1 s x 3
	TimeoutMs     int      `json:"timeout_ms"`
	Attempts      int      `json:"attempts"`
	Gateway       bool     `json:"gateway"`
	Waiters       []Waiter `json:"waiters"`
	AnswerAfter   int      `json:"answer_after"` // 0 = never, k = after the k-th request
	AnswerDelayMs int      `json:"answer_delay_ms"`
	AnswerForm    string   `json:"answer_form"` // "reply" | "request" (a request from the neighbour addressed to the stack)
	Decoy         bool     `json:"decoy"`       // replies for other addresses are injected first
	// Refuse: the link endpoint refuses these resolution requests (1-based, in
	// order of attempt) with a transient transmit error; a refused request
	// counts as an attempt, the next one is due one timeout later. The request
	// after which the neighbour answers is never refused.
	Refuse []int `json:"refuse,omitempty"`
	// NAFlags (IPv6): flags of the neighbour advertisement that answers: 0
	// solicited|override, 1 solicited only (proxy / anycast advertisers, RFC 4861
	// 7.2.4), 2 router|solicited|override, 3 router|solicited. An entry under
	// resolution takes the link address from any of them (RFC 4861 7.2.5).
	NAFlags int `json:"na_flags,omitempty"`
	// HostOctet > 0 (IPv4, on-link): the neighbour is 10.0.1.<HostOctet> - in the /16 the
	// interface is on, .255 and .0 are ordinary hosts that need resolving like any other
	HostOctet int `json:"host_octet,omitempty"`
}

type waitResult struct {
	idx      int
	n        uintptr
	err      *tcpip.Error
	timedOut bool
	blocked  int
	end      time.Time
}

func runWait(c WaitCase) *evid.Failure {
	missedOnce := false
	for try := 0; ; try++ {
		f, missed := runWaitOnce(c)
		if !missed {
			if missedOnce {
				evid.Unconfirmed()
			}
			return f
		}
		missedOnce = true
		evid.Label("wait:deadline-rerun")
		evid.Note("deadline missed (try %d), re-running %+v: %s: %.1200s", try, c, f.Sig, f.Msg)
		if try == 2 {
			return f
		}
	}
}

func runWaitOnce(c WaitCase) (fail *evid.Failure, missed bool) {
	timeout := time.Duration(c.TimeoutMs) * time.Millisecond
	attempts := c.Attempts
	if c.Real {
		timeout, attempts = time.Second, 3
	}
	e := newEnv(envCfg{V6: c.V6, NOwn: 1, Scaled: !c.Real, Age: time.Hour, Timeout: timeout, Attempts: attempts, Gateway: c.Gateway})
	defer e.close()
	e.naFlags = []byte{0x60, 0x40, 0xe0, 0xc0}[((c.NAFlags%4)+4)%4]
	if c.V6 && c.NAFlags%4 != 0 {
		evid.Label(fmt.Sprintf("wait:na-flags-%#x", e.naFlags))
	}
	if len(c.Refuse) > 0 {
		var rmu sync.Mutex
		nreq := 0
		e.tap.Refuse = func(f netsim.Frame) *tcpip.Error {
			if _, ok := e.asRequest(f); !ok {
				return nil
			}
			rmu.Lock()
			defer rmu.Unlock()
			nreq++
			for _, k := range c.Refuse {
				if k == nreq && k != c.AnswerAfter {
					evid.Label("wait:request-refused-by-link")
					return tcpip.ErrNoBufferSpace
				}
			}
			return nil
		}
	}
	dest := peerIP(c.V6, 5)
	if !c.V6 && !c.Gateway && c.HostOctet > 0 {
		dest = []byte{10, 0, 1, byte(c.HostOctet)}
		evid.Label(fmt.Sprintf("wait:neighbour-10.0.1.%d", byte(c.HostOctet)))
	}
	hop := dest
	if c.Gateway {
		if c.V6 {
			dest, hop = offLink6, gateway6
		} else {
			dest, hop = offLink4, gateway4
		}
	}
	hopMAC := peerMAC(100, 1)
	slack := 5 * time.Second
	if c.Real {
		slack = 10 * time.Second
	}
	budget := time.Duration(attempts) * timeout
	t0 := time.Now()
	deadline := t0.Add(budget + slack + time.Duration(maxDelay(c))*time.Millisecond)

	results := make(chan waitResult, len(c.Waiters))
	var socks []*netsim.Sock
	var smu sync.Mutex
	defer func() {
		smu.Lock()
		for _, s := range socks {
			s.EP.Close()
		}
		smu.Unlock()
	}()
	payloadOf := func(i int) []byte { return []byte(fmt.Sprintf("c12-waiter-%02d", i)) }
	for i, w := range c.Waiters {
		i, w := i, w
		go func() {
			time.Sleep(time.Duration(w.DelayMs) * time.Millisecond)
			res := waitResult{idx: i}
			trans := protoUDP
			if w.Kind == "tcp" {
				trans = protoTCP
			}
			sock, err := netsim.NewSock(e.s, trans, e.netProto())
			if err != nil {
				res.err = err
				res.end = time.Now()
				results <- res
				return
			}
			smu.Lock()
			socks = append(socks, sock)
			smu.Unlock()
			switch w.Kind {
			case "tcp":
				cerr, ok := sock.Connect(tcpip.FullAddress{Addr: tcpip.Address(dest), Port: uint16(8000 + i)}, time.Until(deadline))
				res.err, res.timedOut = cerr, !ok
			default:
				opts := tcpip.WriteOptions{}
				to := tcpip.FullAddress{Addr: tcpip.Address(dest), Port: uint16(9000 + i)}
				if w.Kind == "udpc" {
					if cerr := sock.EP.Connect(to); cerr != nil {
						res.err = cerr
						break
					}
				} else {
					opts.To = &to
				}
				for {
					n, ch, werr := sock.EP.Write(tcpip.SlicePayload(payloadOf(i)), opts)
					if werr == tcpip.ErrWouldBlock {
						res.blocked++
						if time.Now().After(deadline) {
							res.timedOut = true
							break
						}
						if ch == nil {
							time.Sleep(time.Millisecond)
							continue
						}
						select {
						case <-ch:
						case <-time.After(time.Until(deadline)):
						}
						continue
					}
					res.n, res.err = n, werr
					break
				}
			}
			res.end = time.Now()
			results <- res
		}()
	}

	isReqForHop := func(f netsim.Frame) bool {
		ri, ok := e.asRequest(f)
		return ok && bytes.Equal(ri.target, hop)
	}
	isDataOf := func(i int) func(f netsim.Frame) bool {
		return func(f netsim.Frame) bool {
			p := f.Pkt
			if p == nil || !bytes.Equal(p.Dst, dest) {
				return false
			}
			if c.Waiters[i].Kind == "tcp" {
				return p.L4Kind == "tcp" && p.DstPort == uint16(8000+i)
			}
			return p.L4Kind == "udp" && p.DstPort == uint16(9000+i) && bytes.Equal(p.Payload, payloadOf(i))
		}
	}
	got := make([]*waitResult, len(c.Waiters))
	dump := func() string {
		out := traceString(e.tap.Trace(), t0)
		for {
			select {
			case rr := <-results:
				r := rr
				got[r.idx] = &r
				continue
			default:
			}
			break
		}
		for i, r := range got {
			if r != nil {
				out += fmt.Sprintf("  waiter %d (%s) finished +%v: n=%d err=%v timedOut=%v blocked %d times\n", i, c.Waiters[i].Kind, r.end.Sub(t0).Round(100*time.Microsecond), r.n, r.err, r.timedOut, r.blocked)
			} else {
				out += fmt.Sprintf("  waiter %d (%s) has not finished\n", i, c.Waiters[i].Kind)
			}
		}
		return out
	}

	answered := false
	nBefore := -1
	collect := func(only func(w Waiter) bool) bool { // false = deadline missed
		for {
			need := false
			for i, w := range c.Waiters {
				if got[i] == nil && only(w) {
					need = true
				}
			}
			if !need {
				return true
			}
			select {
			case rr := <-results:
				r := rr
				got[r.idx] = &r
			case <-time.After(time.Until(deadline) + 500*time.Millisecond):
				return false
			}
		}
	}
	if c.AnswerAfter > 0 {
		from := 0
		var firstReq netsim.Frame
		for k := 0; k < c.AnswerAfter; k++ {
			f, next, ok := e.tap.Scan(from, time.Until(deadline), isReqForHop)
			if !ok {
				return evid.Failf("deadline:request", "request #%d for the next hop %x not seen within %v\n%s", k+1, hop, time.Since(t0), dump()), true
			}
			if k == 0 {
				firstReq = f
			}
			from = next
		}
		time.Sleep(time.Duration(c.AnswerDelayMs) * time.Millisecond)
		if c.Decoy {
			e.injectReply(peerIP(c.V6, 7), peerMAC(7, 0))
			if c.Gateway {
				e.injectReply(dest, peerMAC(8, 0)) // the far destination is not the next hop
			}
		}
		nBefore = e.tap.Len()
		if c.AnswerForm == "request" {
			e.injectRequestToUs(hop, hopMAC)
		} else {
			e.injectReply(hop, hopMAC)
		}
		answered = true
		// If the harness was scheduled so late that the retry budget may have
		// been spent before the answer went in, waiters may legitimately have
		// failed: only the safety part is judged then.
		late := time.Since(firstReq.T) >= budget
		if late {
			evid.Label("wait:answer-came-too-late")
			time.Sleep(timeout)
		} else {
			for i := range c.Waiters {
				if _, _, ok := e.tap.Scan(0, time.Until(deadline), isDataOf(i)); !ok {
					return evid.Failf("deadline:data-frame", "waiter %d (%s) put nothing on the wire within %v although the next hop %x was answered (after request #%d) within the retry budget\n%s",
						i, c.Waiters[i].Kind, time.Since(t0), hop, c.AnswerAfter, dump()), true
				}
			}
			if !collect(func(w Waiter) bool { return w.Kind != "tcp" }) {
				return evid.Failf("deadline:write", "a UDP Write did not return within %v after the answer\n%s", time.Since(t0), dump()), true
			}
			for i, r := range got {
				if r == nil {
					continue
				}
				if c.Waiters[i].Kind == "tcp" {
					// the SYN is out (seen above); the handshake itself has no peer
					if r.err == tcpip.ErrNoLinkAddress {
						return evid.Failf("connect-after-answer", "waiter %d (tcp): Connect failed with ErrNoLinkAddress although the next hop was answered within the retry budget\n%s", i, dump()), false
					}
					continue
				}
				if r.timedOut {
					return evid.Failf("deadline:write", "waiter %d: Write still reports ErrWouldBlock at the deadline although the next hop was answered\n%s", i, dump()), true
				}
				if r.err != nil || int(r.n) != len(payloadOf(i)) {
					return evid.Failf("write-after-answer", "waiter %d (%s): Write = (%d, %v) after the next hop was answered within the retry budget, want (%d, nil)\n%s", i, c.Waiters[i].Kind, r.n, r.err, len(payloadOf(i)), dump()), false
				}
			}
		}
	} else {
		if !collect(func(Waiter) bool { return true }) {
			return evid.Failf("deadline:failure", "not every waiter finished within %v although nobody answers\n%s", time.Since(t0), dump()), true
		}
		for i, r := range got {
			if r.timedOut {
				return evid.Failf("deadline:failure", "waiter %d (%s) still waits at the deadline (%v) although nobody answers (budget %d x %v)\n%s", i, c.Waiters[i].Kind, time.Since(t0), attempts, timeout, dump()), true
			}
			if r.err != tcpip.ErrNoLinkAddress {
				return evid.Failf("wrong-error", "waiter %d (%s): result %v (n=%d) with the next hop never answered, want ErrNoLinkAddress\n%s", i, c.Waiters[i].Kind, r.err, r.n, dump()), false
			}
		}
		// A further request would come one timeout after the last one.
		time.Sleep(timeout + timeout/2)
	}

	// Whole-trace judgement.
	trace := e.tap.Trace()
	var reqs []netsim.Frame
	for _, f := range trace {
		if ri, ok := e.asRequest(f); ok {
			if !bytes.Equal(ri.target, hop) {
				return evid.Failf("request-wrong-target", "resolution request for %x; the next hop is %x (destination %x)\n%s", ri.target, hop, dest, dump()), false
			}
			if len(ri.errs) > 0 {
				return evid.Failf("request-fields", "resolution request is wrong: %v\n%s", ri.errs, dump()), false
			}
			if !isBroadcast(f) {
				return evid.Failf("request-not-broadcast", "resolution request sent to link address %x, want ff:ff:ff:ff:ff:ff\n%s", []byte(f.Remote), dump()), false
			}
			reqs = append(reqs, f)
			continue
		}
		p := f.Pkt
		if p != nil && (p.L4Kind == "tcp" || p.L4Kind == "udp") && bytes.Equal(p.Dst, dest) {
			if !answered {
				return evid.Failf("sent-unresolved", "frame #%d for %x is on the wire although its next hop %x was never resolved\n%s", f.Seq, dest, hop, dump()), false
			}
			if f.Seq < nBefore {
				return evid.Failf("sent-before-resolution", "frame #%d for %x is on the wire before the answer for its next hop %x was injected (after frame #%d)\n%s", f.Seq, dest, hop, nBefore-1, dump()), false
			}
			if !bytes.Equal([]byte(f.Remote), hopMAC) {
				return evid.Failf("wrong-link-address", "frame #%d for %x sent to link address %x, the next hop %x answered with %x\n%s", f.Seq, dest, []byte(f.Remote), hop, hopMAC, dump()), false
			}
		}
	}
	for i := 1; i < len(reqs); i++ {
		if gap := reqs[i].T.Sub(reqs[i-1].T); gap < timeout {
			return evid.Failf("request-too-early", "request #%d follows the previous one after %v, less than the resolution timeout %v\n%s", i+1, gap, timeout, dump()), false
		}
	}
	if len(reqs) > attempts {
		return evid.Failf("too-many-requests", "%d requests for %x, the retry budget is %d\n%s", len(reqs), hop, attempts, dump()), false
	}
	if !answered {
		if len(reqs) != attempts {
			return evid.Failf("request-count", "%d requests for %x with nobody answering, want exactly %d\n%s", len(reqs), hop, attempts, dump()), false
		}
		for i, r := range got {
			if d := r.end.Sub(reqs[0].T); d < budget {
				return evid.Failf("failed-early", "waiter %d (%s) failed %v after the first request, before the retry budget %d x %v was spent\n%s", i, c.Waiters[i].Kind, d, attempts, timeout, dump()), false
			}
		}
	}

	// Evidence.
	kinds := map[string]bool{}
	for _, w := range c.Waiters {
		kinds[w.Kind] = true
	}
	for k := range kinds {
		evid.Label("wait:kind-" + k)
	}
	evid.Label(fmt.Sprintf("wait:answer-after-%d-of-%d", c.AnswerAfter, attempts))
	if c.Gateway {
		evid.Label("wait:via-gateway")
	}
	if c.Real {
		evid.Label("wait:real-constants")
	}
	if len(c.Waiters) > 1 {
		evid.Label("wait:several-waiters")
	}
	if c.V6 {
		evid.Label("wait:ndp")
	} else {
		evid.Label("wait:arp")
	}
	if len(reqs) >= 2 {
		evid.NonTrivialKey("wait", fmt.Sprintf("%+v", c))
		if c.Real {
			evid.Sample("wait-real-constants", c)
		} else if evid.ShardIdx == 0 {
			evid.Sample("wait", c)
		}
	}
	return nil, false
}

func maxDelay(c WaitCase) int {
	m := c.AnswerDelayMs
	for _, w := range c.Waiters {
		if w.DelayMs > m {
			m = w.DelayMs
		}
	}
	return m
}

func genWait(rt *rapid.T) WaitCase {
	c := WaitCase{
		V6:        rapid.Bool().Draw(rt, "v6"),
		TimeoutMs: rapid.SampledFrom([]int{10, 20, 40}).Draw(rt, "timeout_ms"),
		Attempts:  rapid.SampledFrom([]int{3, 3, 3, 1, 2, 4}).Draw(rt, "attempts"),
		Gateway:   rapid.IntRange(0, 2).Draw(rt, "gateway") == 0,
		HostOctet: rapid.SampledFrom([]int{0, 0, 0, 255, 255, 256, 254, 128}).Draw(rt, "host-octet"),
		Decoy:     rapid.Bool().Draw(rt, "decoy"),
	}
	c.AnswerAfter = rapid.IntRange(0, c.Attempts).Draw(rt, "answer_after")
	c.AnswerDelayMs = rapid.IntRange(0, c.TimeoutMs/4).Draw(rt, "answer_delay")
	c.AnswerForm = rapid.SampledFrom([]string{"reply", "reply", "request"}).Draw(rt, "answer_form")
	n := rapid.IntRange(1, 4).Draw(rt, "n_waiters")
	for i := 0; i < n; i++ {
		w := Waiter{Kind: rapid.SampledFrom([]string{"udp", "udpc", "tcp"}).Draw(rt, "kind")}
		if i > 0 {
			w.DelayMs = rapid.IntRange(0, c.TimeoutMs*c.Attempts*5/4).Draw(rt, "delay")
		}
		c.Waiters = append(c.Waiters, w)
	}
	c.NAFlags = rapid.SampledFrom([]int{0, 0, 1, 1, 2, 3}).Draw(rt, "na_flags")
	if rapid.IntRange(0, 2).Draw(rt, "refuse") == 0 {
		for k := 1; k <= c.Attempts; k++ {
			if k != c.AnswerAfter && rapid.Bool().Draw(rt, "refuse_k") {
				c.Refuse = append(c.Refuse, k)
			}
		}
	}
	return c
}

func TestWait(t *testing.T) {
	evid.Run(t, evid.Spec[WaitCase]{Name: "wait", Gen: genWait, Run: runWait})
}

// TestWaitReal runs a few cases with the stack's real constants (1 s x 3):
// all of them concurrently, each on its own stack.
func TestWaitReal(t *testing.T) {
	if evid.ReplayMode() {
		t.Skip()
	}
	var all []WaitCase
	kindSets := [][]Waiter{
		{{Kind: "udp"}},
		{{Kind: "tcp"}},
		{{Kind: "udpc"}, {Kind: "tcp", DelayMs: 300}},
		{{Kind: "tcp"}, {Kind: "udp", DelayMs: 1500}, {Kind: "udp", DelayMs: 2500}},
	}
	for _, v6 := range []bool{false, true} {
		for _, after := range []int{0, 3, 2, 1} {
			for ki, ws := range kindSets {
				for _, gw := range []bool{false, true} {
					form := "reply"
					if (ki+after)%3 == 2 {
						form = "request"
					}
					all = append(all, WaitCase{V6: v6, Real: true, TimeoutMs: 1000, Attempts: 3, Gateway: gw, Waiters: ws,
						AnswerAfter: after, AnswerDelayMs: 100 * ki, AnswerForm: form, Decoy: ki%2 == 1})
				}
			}
		}
	}
	var pick []WaitCase
	if evid.Thorough() {
		pick = all
	} else {
		// one unanswered and one late-answered case per family, rotated by the seed
		s := int(evid.Seed)
		for _, v6 := range []bool{false, true} {
			for _, after := range []int{0, 3} {
				var cands []WaitCase
				for _, c := range all {
					if c.V6 == v6 && c.AnswerAfter == after {
						cands = append(cands, c)
					}
				}
				pick = append(pick, cands[(s+len(pick)*3)%len(cands)])
			}
		}
	}
	var wg sync.WaitGroup
	fails := make([]*evid.Failure, len(pick))
	for i := range pick {
		if i%evid.NShards != evid.ShardIdx {
			continue
		}
		wg.Add(1)
		go func(i int) {
			defer wg.Done()
			fails[i] = evid.Guard(func() *evid.Failure { return runWait(pick[i]) })
			evid.Eval(1)
		}(i)
	}
	wg.Wait()
	for i, f := range fails {
		if evid.Direct(t, "wait", f, pick[i]) {
			return
		}
	}
}
