package c12

import (
	"bytes"
	"fmt"
	"sync"
	"sync/atomic"
	"testing"
	"time"

	"github.com/brewlin/net-protocol/pkg/sleep"
	tcpip "github.com/brewlin/net-protocol/protocol"
	"pgregory.net/rapid"
	"verifharness/evid"
	"verifharness/netsim"
)

// ---------------------------------------------------------------------------
// Part 3: neighbour-cache histories with scaled timers (hook H4).
//
// Reference model (property statement): get(k) reports a link address only if
// the latest completed add(k, v) / reply / request-addressed-to-the-stack for
// exactly k gave exactly that v and did so within the age limit. One-sided
// timing (DESIGN 2.4): "must still be known" is asserted only while the
// harness-measured upper bound of the entry's age is below age/3 and fewer
// than 500 other entries were created since (ring of 512); "must be gone" only
// when the lower bound of its age exceeds 3 x age. In between either outcome is
// accepted, but a reported value must always be the right one.

const (
	floodBase  = 1000 // key indexes >= floodBase are flood keys
	ringMargin = 500
)

type COp struct {
	Op  string `json:"op"` // add | reply | request | get | wait | sleep-short | sleep-expire | flood | train | train-udp
	Key int    `json:"key,omitempty"`
	Ver int    `json:"ver,omitempty"`
	N   int    `json:"n,omitempty"` // flood: number of fresh neighbours; wait: >0 = flood this many while waiting; train: one lookup every age/N
}

type CacheCase struct {
	V6        bool  `json:"v6"`
	AgeMs     int   `json:"age_ms"`
	TimeoutMs int   `json:"timeout_ms"`
	Attempts  int   `json:"attempts"`
	Ops       []COp `json:"ops"`
}

type pending struct {
	ch    <-chan struct{}
	waker *sleep.Waker
}

type kstate struct {
	touched    bool
	hasAdd     bool
	addInEpoch bool // an add happened since birth was last set by an epoch change
	lastIsAdd  bool // the latest operation on this key was an add
	val        []byte
	addEnd     time.Time // completion of the latest add
	birth      time.Time // lower bound of the creation time of the entry that holds the key now
	allocMark  int       // entries created (upper bound) when birth was set
	resolving  bool      // a resolution may be in flight
	pend       []pending
}

type cacheRun struct {
	c        CacheCase
	e        *env
	age      time.Duration
	timeout  time.Duration
	keys     map[int]*kstate
	allocs   int
	floodN   int
	lastLong time.Time // start of the latest sleep-expire
	t0       time.Time
	nt       map[string]bool
}

func (r *cacheRun) ip(k int) []byte { return peerIP(r.c.V6, k) }

func (r *cacheRun) st(k int, before time.Time) *kstate {
	s := r.keys[k]
	if s == nil {
		s = &kstate{}
		r.keys[k] = s
	}
	if !s.touched || (!r.lastLong.IsZero() && s.birth.Before(r.lastLong)) {
		// first operation on the key, or the first one after a sleep of more
		// than 3 x age: whatever entry existed has expired and is replaced.
		if s.touched {
			s.resolving = false
		}
		s.addInEpoch = false
		s.touched = true
		s.birth = before
		s.allocMark = r.allocs
	}
	return s
}

func (r *cacheRun) doAdd(i int, op COp) *evid.Failure {
	k, v := op.Key, peerMAC(op.Key, op.Ver)
	before := time.Now()
	s := r.st(k, before)
	if s.lastIsAdd && !bytes.Equal(s.val, v) {
		// a ready (or expired) entry is replaced by a new one
		s.birth, s.allocMark = before, r.allocs
		r.nt["overwrite"] = true
	}
	r.allocs++
	switch op.Op {
	case "add", "flood":
		r.e.s.AddLinkAddress(1, tcpip.Address(r.ip(k)), tcpip.LinkAddress(v))
	case "reply":
		r.e.injectReply(r.ip(k), v)
	case "request":
		r.e.injectRequestToUs(r.ip(k), v)
	}
	s.hasAdd, s.addInEpoch, s.lastIsAdd, s.val, s.addEnd = true, true, true, v, time.Now()
	s.resolving = false
	// Whoever waited for this address must have been notified by now.
	for _, p := range s.pend {
		select {
		case <-p.ch:
		default:
			return evid.Failf("waiter-not-notified", "op %d: %s(%x, %x) completed but the channel returned by an earlier GetLinkAddress for that address is still open", i, op.Op, r.ip(k), v)
		}
		if !p.waker.IsAsserted() {
			return evid.Failf("waker-not-asserted", "op %d: %s(%x, %x) completed but the waker given to an earlier GetLinkAddress for that address was not asserted", i, op.Op, r.ip(k), v)
		}
	}
	s.pend = nil
	return nil
}

// doGet performs one lookup and judges it. It returns the channel when the
// lookup has to wait.
func (r *cacheRun) doGet(i int, k int) (<-chan struct{}, *tcpip.Error, int, *evid.Failure) {
	return r.doLookup(i, k, nil)
}

// doLookup is one lookup of k: GetLinkAddress, or (via != nil) an unconnected
// UDP Write to k, whose answer is the link address the datagram was sent to.
func (r *cacheRun) doLookup(i int, k int, via *netsim.Sock) (<-chan struct{}, *tcpip.Error, int, *evid.Failure) {
	before := time.Now()
	s := r.st(k, before)
	nBefore := r.e.tap.Len()
	var w *sleep.Waker
	r.allocs++
	var la tcpip.LinkAddress
	var ch <-chan struct{}
	var err *tcpip.Error
	if via == nil {
		w = &sleep.Waker{}
		la, ch, err = r.e.s.GetLinkAddress(1, tcpip.Address(r.ip(k)), tcpip.Address(r.e.own[0]), r.e.netProto(), w)
	} else {
		payload := []byte(fmt.Sprintf("c12-train-%d-%d", i, nBefore))
		_, ch, err = via.EP.Write(tcpip.SlicePayload(payload), tcpip.WriteOptions{To: &tcpip.FullAddress{Addr: tcpip.Address(r.ip(k)), Port: 9999}})
		if err == nil {
			// the datagram went out synchronously: where to?
			found := false
			for _, f := range r.e.tap.Trace()[nBefore:] {
				if p := f.Pkt; p != nil && p.L4Kind == "udp" && bytes.Equal(p.Dst, r.ip(k)) && bytes.Equal(p.Payload, payload) {
					la, found = f.Remote, true
				}
			}
			if !found {
				return nil, err, nBefore, evid.Failf("write-without-frame", "op %d: UDP Write to %x returned success but no such datagram is on the tap", i, r.ip(k))
			}
		}
	}
	after := time.Now()
	what := "get"
	if via != nil {
		what = "UDP Write, i.e. a datagram sent to the link address returned by the lookup for"
	}
	wasLastAdd := s.lastIsAdd
	s.lastIsAdd = false
	if err == nil {
		if !s.hasAdd {
			return nil, err, nBefore, evid.Failf("reports-unlearned", "op %d: get(%x) reports %x although nothing ever gave a mapping for that address", i, r.ip(k), []byte(la))
		}
		if !bytes.Equal([]byte(la), s.val) {
			return nil, err, nBefore, evid.Failf("wrong-mapping", "op %d: get(%x) reports %x, the latest completed add/reply for that address gave %x", i, r.ip(k), []byte(la), s.val)
		}
		if old := before.Sub(s.addEnd); old > 3*r.age {
			return nil, err, nBefore, evid.Failf("reported-after-expiry", "op %d: "+what+"(%x) reports %x although the latest add/reply for it completed %v ago (age limit %v)", i, r.ip(k), []byte(la), old, r.age)
		}
		r.nt["hit"] = true
		return nil, nil, nBefore, nil
	}
	if err != tcpip.ErrWouldBlock && err != tcpip.ErrNoLinkAddress {
		return nil, err, nBefore, evid.Failf("lookup-error", "op %d: get(%x) = %v", i, r.ip(k), err)
	}
	if s.hasAdd {
		upper := after.Sub(s.birth)
		if s.addInEpoch && upper < r.age/3 && r.allocs-s.allocMark <= ringMargin {
			return nil, err, nBefore, evid.Failf("lost-mapping", "op %d: get(%x) = %v although %x was given for it at most %v ago (age limit %v) and at most %d other entries were created since (ring of 512)",
				i, r.ip(k), err, s.val, upper, r.age, r.allocs-s.allocMark)
		}
		if before.Sub(s.addEnd) > 3*r.age {
			r.nt["expiry"] = true
			// the first lookup after the expiry starts a new resolution (later
			// ones may find that one failed)
			if wasLastAdd && err != tcpip.ErrWouldBlock {
				return nil, err, nBefore, evid.Failf("no-new-resolution", "op %d: get(%x) = %v after the entry expired, want a new resolution (ErrWouldBlock)", i, r.ip(k), err)
			}
		}
		if r.allocs-s.allocMark > 512 {
			r.nt["overflow"] = true
		}
	}
	if err == tcpip.ErrWouldBlock {
		if ch == nil {
			return nil, err, nBefore, evid.Failf("no-channel", "op %d: get(%x) = ErrWouldBlock without a notification channel", i, r.ip(k))
		}
		if w != nil {
			s.pend = append(s.pend, pending{ch, w})
		}
	}
	return ch, err, nBefore, nil
}

func (r *cacheRun) requestsFor(k int, from int) []netsim.Frame {
	var out []netsim.Frame
	for _, f := range r.e.tap.Trace()[from:] {
		if ri, ok := r.e.asRequest(f); ok && bytes.Equal(ri.target, r.ip(k)) {
			out = append(out, f)
		}
	}
	return out
}

func runCache(c CacheCase) *evid.Failure {
	missedOnce := false
	for try := 0; ; try++ {
		f, missed := runCacheOnce(c)
		if !missed {
			if missedOnce {
				evid.Unconfirmed()
			}
			return f
		}
		missedOnce = true
		evid.Label("cache:deadline-rerun")
		evid.Note("deadline missed (try %d), re-running: %s: %.600s", try, f.Sig, f.Msg)
		if try == 2 {
			return f
		}
	}
}

func runCacheOnce(c CacheCase) (*evid.Failure, bool) {
	r := &cacheRun{c: c, age: time.Duration(c.AgeMs) * time.Millisecond, timeout: time.Duration(c.TimeoutMs) * time.Millisecond,
		keys: map[int]*kstate{}, nt: map[string]bool{}, t0: time.Now()}
	r.e = newEnv(envCfg{V6: c.V6, NOwn: 1, Scaled: true, Age: r.age, Timeout: r.timeout, Attempts: c.Attempts})
	defer r.e.close()
	budget := time.Duration(c.Attempts) * r.timeout
	for i, op := range c.Ops {
		switch op.Op {
		case "add", "reply", "request":
			if f := r.doAdd(i, op); f != nil {
				return f, false
			}
		case "flood":
			for j := 0; j < op.N; j++ {
				if f := r.doAdd(i, COp{Op: "flood", Key: floodBase + r.floodN}); f != nil {
					return f, false
				}
				r.floodN++
			}
			if op.N > 512 {
				r.nt["overflow"] = true
			}
		case "sleep-short":
			time.Sleep(r.age / 10)
		case "sleep-expire":
			r.lastLong = time.Now()
			time.Sleep(3*r.age + r.age/4)
			r.nt["expiry-sleep"] = true
		case "train", "train-udp":
			// Learn k, then look it up again and again at intervals well below
			// the age limit, across and well beyond its expiry. However often it
			// is looked up, a lookup later than 3 x age after the (only) add must
			// not report the mapping (doLookup: reported-after-expiry) and the
			// first miss after a hit must start a resolution.
			k := op.Key
			kind := "add"
			if op.Ver%2 == 1 {
				kind = "reply"
			}
			if f := r.doAdd(i, COp{Op: kind, Key: k, Ver: op.Ver}); f != nil {
				return f, false
			}
			var via *netsim.Sock
			if op.Op == "train-udp" {
				sock, serr := netsim.NewSock(r.e.s, protoUDP, r.e.netProto())
				if serr != nil {
					return evid.Failf("harness", "NewSock: %v", serr), false
				}
				via = sock
			}
			gap := r.age / time.Duration(op.N)
			prevHit, hits, misses := false, 0, 0
			beyond := 0
			for j := 0; beyond < 3 && j < 400; j++ {
				time.Sleep(gap)
				old := time.Since(r.keys[k].addEnd)
				_, err, nBefore, f := r.doLookup(i, k, via)
				if f != nil {
					if via != nil {
						via.EP.Close()
					}
					f.Msg = fmt.Sprintf("lookup #%d of a train (one every %v, %d hits so far): %s", j+1, gap, hits, f.Msg)
					return f, false
				}
				if err == nil {
					hits++
					prevHit = true
				} else {
					misses++
					if err == tcpip.ErrWouldBlock {
						if prevHit {
							if _, _, ok := r.e.tap.Scan(nBefore, 5*time.Second, func(f netsim.Frame) bool {
								ri, ok := r.e.asRequest(f)
								return ok && bytes.Equal(ri.target, r.ip(k))
							}); !ok {
								if via != nil {
									via.EP.Close()
								}
								return evid.Failf("deadline:no-request", "op %d: lookup #%d of a train for %x missed right after a hit, but no request for it appeared within 5 s\n%s", i, j+1, r.ip(k), traceString(r.e.tap.Trace(), r.t0)), true
							}
							r.nt["train-miss-starts-resolution"] = true
						}
						r.keys[k].resolving = true
					}
					prevHit = false
				}
				if old > 3*r.age {
					beyond++
				}
			}
			if via != nil {
				via.EP.Close()
				r.nt["hit-train-udp"] = true
			}
			if hits >= 2 && misses >= 1 {
				r.nt["hit-train-across-expiry"] = true
			}
		case "get":
			k := op.Key
			s0 := r.keys[k]
			fresh := s0 == nil || !s0.resolving && (s0.lastIsAdd || (!r.lastLong.IsZero() && s0.birth.Before(r.lastLong)))
			_, err, nBefore, f := r.doGet(i, k)
			if f != nil {
				return f, false
			}
			s := r.keys[k]
			if err == tcpip.ErrWouldBlock {
				if fresh {
					// nothing could be in flight: this lookup must start a resolution
					if _, _, ok := r.e.tap.Scan(nBefore, 5*time.Second, func(f netsim.Frame) bool {
						ri, ok := r.e.asRequest(f)
						return ok && bytes.Equal(ri.target, r.ip(k))
					}); !ok {
						return evid.Failf("deadline:no-request", "op %d: get(%x) = ErrWouldBlock with no resolution in flight, but no request for it appeared within 5 s\n%s", i, r.ip(k), traceString(r.e.tap.Trace(), r.t0)), true
					}
				}
				s.resolving = true
			}
		case "wait":
			k := op.Key
			s0 := r.keys[k]
			fresh := s0 == nil || !s0.resolving && (s0.lastIsAdd || (!r.lastLong.IsZero() && s0.birth.Before(r.lastLong)))
			// pristine: no earlier resolution goroutine for this address can still be around
			pristine := s0 == nil || (!r.lastLong.IsZero() && s0.birth.Before(r.lastLong))
			tGet := time.Now()
			ch, err, nBefore, f := r.doGet(i, k)
			if f != nil {
				return f, false
			}
			if err != tcpip.ErrWouldBlock {
				continue
			}
			s := r.keys[k]
			s.resolving = true
			evicted := false
			if op.N > 0 {
				// other neighbours push the waiting entry out of the ring
				for j := 0; j < op.N; j++ {
					if f := r.doAdd(i, COp{Op: "flood", Key: floodBase + r.floodN}); f != nil {
						return f, false
					}
					r.floodN++
				}
				evicted = true
				r.nt["evicted-while-waiting"] = true
			}
			select {
			case <-ch:
			case <-time.After(budget + 5*time.Second):
				return evid.Failf("deadline:waiter-stuck", "op %d: the channel returned by get(%x) was not closed within %v although nobody answers (budget %d x %v)\n%s",
					i, r.ip(k), budget+5*time.Second, c.Attempts, r.timeout, traceString(r.e.tap.Trace(), r.t0)), true
			}
			tClosed := time.Now()
			s.pend = nil
			s.resolving = false
			_, err2, _, f := r.doGet(i, k)
			if f != nil {
				return f, false
			}
			if err2 == tcpip.ErrWouldBlock {
				s.resolving = true
			}
			if fresh && !evicted && tClosed.Sub(tGet) < r.age {
				// the entry was created by this lookup and cannot have expired:
				// the resolution ran to its end
				reqs := r.requestsFor(k, nBefore)
				if err2 != tcpip.ErrNoLinkAddress && time.Since(tGet) < r.age {
					return evid.Failf("no-failure", "op %d: after the unanswered resolution of %x ended, get = %v, want ErrNoLinkAddress", i, r.ip(k), err2), false
				}
				if err2 == tcpip.ErrNoLinkAddress && pristine {
					if len(reqs) != c.Attempts {
						return evid.Failf("request-count", "op %d: unanswered resolution of %x failed after %d requests, want exactly %d\n%s", i, r.ip(k), len(reqs), c.Attempts, traceString(r.e.tap.Trace(), r.t0)), false
					}
					for j := 1; j < len(reqs); j++ {
						if gap := reqs[j].T.Sub(reqs[j-1].T); gap < r.timeout {
							return evid.Failf("request-too-early", "op %d: request #%d for %x follows the previous one after %v < timeout %v", i, j+1, r.ip(k), gap, r.timeout), false
						}
					}
					if d := tClosed.Sub(reqs[0].T); d < budget {
						return evid.Failf("failed-early", "op %d: resolution of %x gave up %v after its first request, budget %d x %v", i, r.ip(k), d, c.Attempts, r.timeout), false
					}
					for _, q := range reqs {
						if !isBroadcast(q) {
							return evid.Failf("request-not-broadcast", "op %d: request for %x sent to %x", i, r.ip(k), []byte(q.Remote)), false
						}
					}
					if c.Attempts >= 2 {
						r.nt["retries"] = true
					}
				}
			}
		default:
			panic("unknown op " + op.Op)
		}
	}
	// No request may name an address nobody looked up; all well-formed.
	for _, f := range r.e.tap.Trace() {
		if ri, ok := r.e.asRequest(f); ok {
			found := false
			for k, s := range r.keys {
				if s.touched && bytes.Equal(r.ip(k), ri.target) {
					found = true
				}
			}
			if !found {
				return evid.Failf("spurious-request", "request for %x which no operation named", ri.target), false
			}
			if len(ri.errs) > 0 {
				return evid.Failf("request-fields", "resolution request for %x is wrong: %v", ri.target, ri.errs), false
			}
		}
	}
	nontrivial := false
	for k := range r.nt {
		evid.Label("cache:" + k)
		if k == "overwrite" || k == "overflow" || k == "expiry" || k == "retries" || k == "evicted-while-waiting" || k == "hit-train-across-expiry" {
			nontrivial = true
		}
	}
	if nontrivial {
		evid.NonTrivialKey("cache", fmt.Sprintf("%+v", c))
		if evid.ShardIdx == 0 {
			evid.Sample("cache", shorten(c))
		}
	}
	return nil, false
}

func shorten(c CacheCase) CacheCase {
	if len(c.Ops) > 30 {
		c.Ops = c.Ops[:30]
	}
	return c
}

func genCacheOps(rt *rapid.T, n int, allowSleep bool) []COp {
	var ops []COp
	flooded := 0
	sleeps := 0
	trainAt := -1
	if allowSleep && rapid.IntRange(0, 2).Draw(rt, "train") != 0 {
		trainAt = rapid.IntRange(0, n-1).Draw(rt, "train_at")
	}
	for i := 0; i < n; i++ {
		if i == trainAt {
			ops = append(ops, COp{
				Op:  rapid.SampledFrom([]string{"train", "train", "train-udp"}).Draw(rt, "train_kind"),
				Key: rapid.IntRange(0, 3).Draw(rt, "key"),
				Ver: rapid.IntRange(0, 2).Draw(rt, "ver"),
				N:   rapid.SampledFrom([]int{4, 4, 6, 3}).Draw(rt, "train_div"), // one lookup every age/N
			})
			continue
		}
		kind := rapid.SampledFrom([]string{"add", "add", "reply", "request", "get", "get", "get", "get", "wait", "sleep-short", "sleep-expire", "flood", "flood-get"}).Draw(rt, "op")
		op := COp{Op: kind, Key: rapid.IntRange(0, 3).Draw(rt, "key")}
		switch kind {
		case "add", "reply", "request":
			op.Ver = rapid.IntRange(0, 2).Draw(rt, "ver")
		case "wait":
			if flooded < 1500 && rapid.IntRange(0, 3).Draw(rt, "wait_flood") == 0 {
				op.N = rapid.SampledFrom([]int{511, 512, 520}).Draw(rt, "wait_n")
				flooded += op.N
			}
		case "sleep-short":
			if !allowSleep {
				continue
			}
		case "sleep-expire":
			if !allowSleep || sleeps >= 1 {
				continue
			}
			sleeps++
		case "flood":
			if flooded >= 1500 {
				continue
			}
			op.Key = 0
			op.N = rapid.SampledFrom([]int{3, 100, 400, 505, 511, 512, 513, 600}).Draw(rt, "flood_n")
			flooded += op.N
		case "flood-get":
			op.Op = "get"
			if flooded == 0 {
				continue
			}
			// recent flood keys more often than old ones
			back := rapid.OneOf(rapid.IntRange(1, 20), rapid.IntRange(1, flooded+3)).Draw(rt, "back")
			op.Key = floodBase + flooded + 2 - back
			if op.Key < floodBase {
				op.Key = floodBase
			}
		}
		ops = append(ops, op)
	}
	return ops
}

func genCache(rt *rapid.T) CacheCase {
	c := CacheCase{
		V6:        rapid.Bool().Draw(rt, "v6"),
		AgeMs:     rapid.SampledFrom([]int{60, 90}).Draw(rt, "age_ms"),
		TimeoutMs: rapid.SampledFrom([]int{3, 6}).Draw(rt, "timeout_ms"),
		Attempts:  rapid.SampledFrom([]int{3, 3, 2}).Draw(rt, "attempts"),
	}
	c.Ops = genCacheOps(rt, rapid.IntRange(2, 24).Draw(rt, "n_ops"), rapid.IntRange(0, 1).Draw(rt, "sleeps") == 0)
	return c
}

func TestCache(t *testing.T) {
	evid.Run(t, evid.Spec[CacheCase]{Name: "cache", Gen: genCache, Run: runCache})
}

// ---------------------------------------------------------------------------
// Racing variant: the same operations from several goroutines on shared
// addresses, with resolution timers firing in between. Judged afterwards from
// the recorded intervals (a logical clock orders starts and ends):
//   - a reported value was given for exactly that address by an add that
//     started before the lookup ended;
//   - it is not stale: no add of a different value completed before the lookup
//     started and after every add of the reported value had completed;
//   - it is not expired: some add of the reported value completed less than
//     3 x age before the lookup started.

type RaceCase struct {
	V6        bool    `json:"v6"`
	AgeMs     int     `json:"age_ms"`
	TimeoutMs int     `json:"timeout_ms"`
	Attempts  int     `json:"attempts"`
	Workers   [][]COp `json:"workers"`
}

type rec struct {
	worker     int
	op         string
	key        int
	val        []byte // add: value given; get: value reported (nil = none)
	start, end int64
	tStart     time.Time
	tEnd       time.Time
}

func runRace(c RaceCase) *evid.Failure {
	missedOnce := false
	for try := 0; ; try++ {
		f, missed := runRaceOnce(c)
		if !missed {
			if missedOnce {
				evid.Unconfirmed()
			}
			return f
		}
		missedOnce = true
		evid.Label("race:deadline-rerun")
		evid.Note("deadline missed (try %d), re-running: %s: %.600s", try, f.Sig, f.Msg)
		if try == 2 {
			return f
		}
	}
}

func runRaceOnce(c RaceCase) (*evid.Failure, bool) {
	age := time.Duration(c.AgeMs) * time.Millisecond
	timeout := time.Duration(c.TimeoutMs) * time.Millisecond
	e := newEnv(envCfg{V6: c.V6, NOwn: 1, Scaled: true, Age: age, Timeout: timeout, Attempts: c.Attempts})
	defer e.close()
	var clock int64
	var mu sync.Mutex
	var recs []rec
	var stuck atomic.Value
	var wg sync.WaitGroup
	for wi, ops := range c.Workers {
		wi, ops := wi, ops
		wg.Add(1)
		go func() {
			defer wg.Done()
			var mine []rec
			floodN := 0
			add := func(kind string, k int, v []byte) {
				rc := rec{worker: wi, op: "add", key: k, val: v, tStart: time.Now()}
				rc.start = atomic.AddInt64(&clock, 1)
				switch kind {
				case "reply":
					e.injectReply(peerIP(c.V6, k), v)
				case "request":
					e.injectRequestToUs(peerIP(c.V6, k), v)
				default:
					e.s.AddLinkAddress(1, tcpip.Address(peerIP(c.V6, k)), tcpip.LinkAddress(v))
				}
				rc.end = atomic.AddInt64(&clock, 1)
				rc.tEnd = time.Now()
				mine = append(mine, rc)
			}
			get := func(k int) (<-chan struct{}, *tcpip.Error) {
				rc := rec{worker: wi, op: "get", key: k, tStart: time.Now()}
				rc.start = atomic.AddInt64(&clock, 1)
				la, ch, err := e.s.GetLinkAddress(1, tcpip.Address(peerIP(c.V6, k)), tcpip.Address(e.own[0]), e.netProto(), &sleep.Waker{})
				rc.end = atomic.AddInt64(&clock, 1)
				rc.tEnd = time.Now()
				if err == nil {
					rc.val = []byte(la)
				}
				mine = append(mine, rc)
				return ch, err
			}
			for _, op := range ops {
				switch op.Op {
				case "add", "reply", "request":
					add(op.Op, op.Key, peerMAC(op.Key, op.Ver))
				case "flood":
					for j := 0; j < op.N; j++ {
						k := floodBase + wi*10000 + floodN
						floodN++
						add("add", k, peerMAC(k, 0))
					}
				case "get":
					get(op.Key)
				case "wait":
					ch, err := get(op.Key)
					if err == tcpip.ErrWouldBlock && ch != nil {
						select {
						case <-ch:
						case <-time.After(time.Duration(c.Attempts)*timeout + 10*time.Second):
							stuck.Store(fmt.Sprintf("worker %d: the channel returned by get(%x) was not closed within the retry budget + 10 s", wi, peerIP(c.V6, op.Key)))
							return
						}
						get(op.Key)
					}
				case "sleep-short":
					time.Sleep(age / 10)
				case "sleep-expire":
					time.Sleep(3*age + age/4)
				}
			}
			mu.Lock()
			recs = append(recs, mine...)
			mu.Unlock()
		}()
	}
	wg.Wait()
	if s := stuck.Load(); s != nil {
		return evid.Failf("deadline:waiter-stuck", "%s", s.(string)), true
	}
	adds := map[int][]rec{}
	for _, rc := range recs {
		if rc.op == "add" {
			adds[rc.key] = append(adds[rc.key], rc)
		}
	}
	hits, contended := 0, 0
	for _, g := range recs {
		if g.op != "get" || g.val == nil {
			continue
		}
		hits++
		var same []rec
		for _, a := range adds[g.key] {
			if bytes.Equal(a.val, g.val) && a.start < g.end {
				same = append(same, a)
			}
		}
		if len(same) == 0 {
			return evid.Failf("race:wrong-mapping", "worker %d: get(%x) reports %x which no add/reply that started before the lookup ended gave for that address (values given: %s)", g.worker, peerIP(c.V6, g.key), g.val, valsOf(adds[g.key])), false
		}
		lastSameEnd := int64(0)
		fresh := false
		for _, a := range same {
			if a.end > lastSameEnd {
				lastSameEnd = a.end
			}
			if g.tStart.Sub(a.tEnd) <= 3*age {
				fresh = true
			}
		}
		if !fresh {
			return evid.Failf("race:reported-after-expiry", "worker %d: get(%x) reports %x although every add of that value completed more than 3 x %v before the lookup started", g.worker, peerIP(c.V6, g.key), g.val, age), false
		}
		for _, a := range adds[g.key] {
			if bytes.Equal(a.val, g.val) {
				continue
			}
			if a.end < g.start && a.start > lastSameEnd {
				return evid.Failf("race:stale-mapping", "worker %d: get(%x) reports %x although add(%x) by worker %d started after every add of %x had completed and itself completed before the lookup started",
					g.worker, peerIP(c.V6, g.key), g.val, a.val, a.worker, g.val), false
			}
			if a.start < g.end && a.end > g.start {
				contended++
			}
		}
	}
	for _, f := range e.tap.Trace() {
		if ri, ok := e.asRequest(f); ok && len(ri.errs) > 0 {
			return evid.Failf("request-fields", "resolution request for %x is wrong: %v", ri.target, ri.errs), false
		}
	}
	evid.LabelN("race:hits", int64(hits))
	evid.LabelN("race:lookups-overlapping-an-overwrite", int64(contended))
	if len(c.Workers) >= 2 {
		evid.NonTrivialKey("race", fmt.Sprintf("%+v", c))
		if evid.ShardIdx == 0 && contended > 0 {
			evid.Sample("race", c)
		}
	}
	return nil, false
}

func valsOf(rs []rec) string {
	out := ""
	for _, r := range rs {
		out += fmt.Sprintf("%x ", r.val)
	}
	return out
}

func genRace(rt *rapid.T) RaceCase {
	c := RaceCase{
		V6:        rapid.Bool().Draw(rt, "v6"),
		AgeMs:     rapid.SampledFrom([]int{30, 60}).Draw(rt, "age_ms"),
		TimeoutMs: rapid.SampledFrom([]int{1, 3}).Draw(rt, "timeout_ms"),
		Attempts:  rapid.SampledFrom([]int{3, 2}).Draw(rt, "attempts"),
	}
	nw := rapid.IntRange(2, 4).Draw(rt, "workers")
	for w := 0; w < nw; w++ {
		n := rapid.IntRange(3, 30).Draw(rt, "n_ops")
		var ops []COp
		flooded := 0
		for i := 0; i < n; i++ {
			kind := rapid.SampledFrom([]string{"add", "add", "reply", "request", "get", "get", "get", "wait", "sleep-short", "flood", "sleep-expire"}).Draw(rt, "op")
			op := COp{Op: kind, Key: rapid.IntRange(0, 2).Draw(rt, "key"), Ver: rapid.IntRange(0, 2).Draw(rt, "ver")}
			if kind == "flood" {
				if flooded > 700 {
					continue
				}
				op.N = rapid.SampledFrom([]int{50, 300, 520}).Draw(rt, "flood_n")
				flooded += op.N
			}
			if kind == "sleep-expire" && (w != 0 || rapid.IntRange(0, 1).Draw(rt, "really") != 0) {
				continue
			}
			ops = append(ops, op)
		}
		c.Workers = append(c.Workers, ops)
	}
	return c
}

func TestCacheRace(t *testing.T) {
	evid.Run(t, evid.Spec[RaceCase]{Name: "race", Gen: genRace, Run: runRace})
}
