package c12

import (
	"bytes"
	"encoding/binary"
	"fmt"
	"testing"
	"time"

	tcpip "github.com/brewlin/net-protocol/protocol"
	"pgregory.net/rapid"
	"verifharness/codec"
	"verifharness/evid"
	"verifharness/netsim"
)

// ---------------------------------------------------------------------------
// Part 1: request / reply fields and learning.
//
// A case is a short sequence of injected ARP packets (or NDP messages) and
// lookups against one fresh stack. Reference model (RFC 826, RFC 4861 7.2 and
// the property statement):
//   - a well-formed request whose target is an address of the NIC draws
//     exactly one reply (fields below); everything else draws nothing;
//   - afterwards the requester's mapping must be known; a well-formed reply
//     addressed to the stack must be learned as well;
//   - other well-formed messages may or may not be learned; malformed ones
//     must not change what lookups report;
//   - a lookup never reports a value that the latest relevant message for
//     exactly that address did not carry.

type AMsg struct {
	Kind string `json:"kind"` // "arp" | "ns" | "na" | "lookup"
	Note string `json:"note,omitempty"`
	Eth  string `json:"eth,omitempty"` // link-layer source of the injected frame

	// ARP
	Op    uint16 `json:"op,omitempty"`
	Htype uint16 `json:"htype,omitempty"`
	Ptype uint16 `json:"ptype,omitempty"`
	Hlen  uint8  `json:"hlen,omitempty"`
	Plen  uint8  `json:"plen,omitempty"`
	SHA   string `json:"sha,omitempty"`
	SPA   string `json:"spa,omitempty"`
	THA   string `json:"tha,omitempty"`
	TPA   string `json:"tpa,omitempty"`
	Len   int    `json:"len,omitempty"` // bytes injected (28 = exact; less = truncated; more = padded)

	// NDP
	Src     string `json:"src,omitempty"`
	Dst     string `json:"dst,omitempty"`
	Target  string `json:"target,omitempty"`
	OptType uint8  `json:"opt_type,omitempty"` // 0 = no option
	OptLL   string `json:"opt_ll,omitempty"`
	Flags   uint8  `json:"flags,omitempty"`
	ICMPLen int    `json:"icmp_len,omitempty"` // ICMPv6 message bytes injected (0 = natural length)

	// lookup
	Key string `json:"key,omitempty"`
}

type AnsCase struct {
	V6   bool   `json:"v6"`
	NOwn int    `json:"n_own"`
	Msgs []AMsg `json:"msgs"`
}

// keyModel is what the reference knows about one neighbour address.
type keyModel struct {
	must    bool     // some value must be known
	allowed [][]byte // values a lookup may report
}

func runAnswer(c AnsCase) *evid.Failure {
	e := newEnv(envCfg{V6: c.V6, NOwn: c.NOwn, Scaled: true, Age: time.Hour, Timeout: 5 * time.Millisecond, Attempts: 1})
	defer e.close()
	model := map[string]*keyModel{}
	km := func(k []byte) *keyModel {
		m := model[string(k)]
		if m == nil {
			m = &keyModel{}
			model[string(k)] = m
		}
		return m
	}
	learnMust := func(k []byte, vals ...[]byte) {
		m := km(k)
		m.must = true
		m.allowed = append([][]byte(nil), vals...)
	}
	learnMay := func(k []byte, v []byte) {
		m := km(k)
		m.allowed = append(m.allowed, v)
	}
	lookedUp := map[string]bool{}
	t0 := time.Now()
	classes := map[string]bool{}

	lookup := func(i int, key []byte) *evid.Failure {
		la, _, err := e.get(key)
		m := model[string(key)]
		if err == nil {
			if m == nil || len(m.allowed) == 0 {
				return evid.Failf("reports-unlearned", "step %d: GetLinkAddress(%x) reports %x although no message or call ever gave a mapping for that address\n%s", i, key, []byte(la), traceString(e.tap.Trace(), t0))
			}
			if !inSet(m.allowed, []byte(la)) {
				return evid.Failf("wrong-mapping", "step %d: GetLinkAddress(%x) reports %x; the messages for that address carried %x", i, key, []byte(la), m.allowed)
			}
			return nil
		}
		lookedUp[string(key)] = true
		if m != nil && m.must {
			return evid.Failf("not-learned", "step %d: GetLinkAddress(%x) = %v (a new resolution) although the mapping %x was given by a request addressed to the stack / a reply to it", i, key, err, m.allowed)
		}
		if err != tcpip.ErrWouldBlock && err != tcpip.ErrNoLinkAddress {
			return evid.Failf("lookup-error", "step %d: GetLinkAddress(%x) = %v", i, key, err)
		}
		return nil
	}

	for i, m := range c.Msgs {
		before := e.tap.Len()
		var expectReply bool
		var check func(f netsim.Frame) []string
		switch m.Kind {
		case "lookup":
			if f := lookup(i, unhx(m.Key)); f != nil {
				return f
			}
			continue
		case "arp":
			sha, spa, tha, tpa := unhx(m.SHA), unhx(m.SPA), unhx(m.THA), unhx(m.TPA)
			eth := unhx(m.Eth)
			b := codec.BuildARP(m.Op, sha, spa, tha, tpa)
			binary.BigEndian.PutUint16(b[0:], m.Htype)
			binary.BigEndian.PutUint16(b[2:], m.Ptype)
			b[4], b[5] = m.Hlen, m.Plen
			if m.Len < len(b) {
				b = b[:m.Len]
			} else {
				b = append(b, make([]byte, m.Len-len(b))...)
			}
			valid := m.Len >= 28 && m.Htype == 1 && m.Ptype == 0x0800 && m.Hlen == 6 && m.Plen == 4
			forUs := inSet(e.own4, tpa)
			expectReply = valid && m.Op == codec.ARPRequest && forUs
			switch {
			case expectReply:
				classes["arp:request-own"] = true
				learnMust(spa, sha)
			case valid && m.Op == codec.ARPReply && forUs:
				classes["arp:reply-to-us"] = true
				learnMust(spa, sha)
			case valid && (m.Op == codec.ARPRequest || m.Op == codec.ARPReply):
				classes["arp:not-for-us"] = true
				learnMay(spa, sha)
			case !valid:
				classes["arp:malformed"] = true
			default:
				classes["arp:other-op"] = true
			}
			check = func(f netsim.Frame) []string {
				var errs []string
				p := f.Pkt
				if f.Proto != protoARP || p.L3 != "arp" || len(p.ARPSHA) != 6 {
					return []string{fmt.Sprintf("not an ARP packet: proto %#x %v", uint16(f.Proto), p.Errs)}
				}
				errs = append(errs, p.Errs...)
				if p.ARPOp != codec.ARPReply {
					errs = append(errs, fmt.Sprintf("op %d, want 2 (reply)", p.ARPOp))
				}
				if !bytes.Equal(p.ARPSHA, nicMAC) {
					errs = append(errs, fmt.Sprintf("sender hardware address %x, want the NIC's %x", p.ARPSHA, nicMAC))
				}
				if !bytes.Equal(p.ARPSPA, tpa) {
					errs = append(errs, fmt.Sprintf("sender protocol address %v, want the requested target %v", p.ARPSPA, tpa))
				}
				if !bytes.Equal(p.ARPTHA, sha) {
					errs = append(errs, fmt.Sprintf("target hardware address %x, want the requester's %x", p.ARPTHA, sha))
				}
				if !bytes.Equal(p.ARPTPA, spa) {
					errs = append(errs, fmt.Sprintf("target protocol address %v, want the requester's %v", p.ARPTPA, spa))
				}
				if !bytes.Equal([]byte(f.Remote), eth) && !bytes.Equal([]byte(f.Remote), sha) {
					errs = append(errs, fmt.Sprintf("sent to link address %x, want the requester's %x", []byte(f.Remote), sha))
				}
				if len(f.Raw) != 28 {
					errs = append(errs, fmt.Sprintf("%d bytes, want 28", len(f.Raw)))
				}
				return errs
			}
			e.tap.InjectFrom(protoARP, tcpip.LinkAddress(eth), b)
		case "ns", "na":
			src, dst, tgt, eth := unhx(m.Src), unhx(m.Dst), unhx(m.Target), unhx(m.Eth)
			body := make([]byte, 4+16)
			body[0] = m.Flags
			copy(body[4:], tgt)
			var optLL []byte
			if m.OptType != 0 {
				optLL = unhx(m.OptLL)
				body = append(body, m.OptType, 1)
				body = append(body, optLL...)
			}
			typ := uint8(135)
			if m.Kind == "na" {
				typ = 136
			}
			full := 4 + len(body)
			if m.ICMPLen > 0 && m.ICMPLen < full {
				body = body[:m.ICMPLen-4]
			}
			icmp := codec.BuildICMPv6(src, dst, typ, 0, body)
			pkt := codec.BuildIPv6(codec.IPv6Hdr{Src: src, Dst: dst, NextHeader: codec.ProtoICMPv6, HopLimit: 255}, icmp)
			truncated := len(icmp) < 24
			forUs := inSet(e.own6, tgt)
			lls := [][]byte{eth}
			if optLL != nil && !bytes.Equal(optLL, eth) {
				lls = append(lls, optLL)
			}
			if m.Kind == "ns" {
				expectReply = !truncated && forUs
				switch {
				case expectReply:
					classes["ndp:solicit-own"] = true
					learnMust(src, lls...)
				case truncated:
					classes["ndp:truncated"] = true
				default:
					classes["ndp:solicit-foreign"] = true
					for _, ll := range lls {
						learnMay(src, ll)
					}
				}
			} else {
				switch {
				case len(icmp) >= 32 && m.OptType == 2 && inSet(e.own6, dst):
					classes["ndp:advert-to-us"] = true
					learnMust(tgt, lls...)
					if !bytes.Equal(src, tgt) {
						for _, ll := range lls {
							learnMay(src, ll)
						}
					}
				case truncated:
					classes["ndp:truncated"] = true
				default:
					classes["ndp:advert-other"] = true
					for _, ll := range lls {
						learnMay(tgt, ll)
						learnMay(src, ll)
					}
				}
			}
			check = func(f netsim.Frame) []string {
				var errs []string
				p := f.Pkt
				if f.Proto != protoIPv6 || p.L4Kind != "icmp6" || len(p.ICMPBody) < 20 {
					return []string{fmt.Sprintf("not an ICMPv6 neighbour message: proto %#x %v", uint16(f.Proto), p.Errs)}
				}
				errs = append(errs, p.Errs...) // checksum, hop limit 255, option structure
				if p.ICMPType != 136 || p.ICMPCode != 0 {
					errs = append(errs, fmt.Sprintf("type/code %d/%d, want 136/0 (neighbour advertisement)", p.ICMPType, p.ICMPCode))
				}
				if !bytes.Equal(p.ICMPBody[4:20], tgt) {
					errs = append(errs, fmt.Sprintf("target %x, want the solicited target %x", p.ICMPBody[4:20], tgt))
				}
				if !bytes.Equal(p.Src, tgt) {
					errs = append(errs, fmt.Sprintf("source address %x, want the solicited target %x", p.Src, tgt))
				}
				if !bytes.Equal(p.Dst, src) {
					errs = append(errs, fmt.Sprintf("destination address %x, want the requester %x", p.Dst, src))
				}
				if p.ICMPBody[0]&0x40 == 0 {
					errs = append(errs, "solicited flag not set in the answer to a unicast-sourced solicitation")
				}
				if ll, ok := ndpOption(p.ICMPBody[20:], 2); !ok || !bytes.Equal(ll, nicMAC) {
					errs = append(errs, fmt.Sprintf("target link-layer address option %x (present %v), want the NIC's %x", ll, ok, nicMAC))
				}
				if !inSet(lls, []byte(f.Remote)) {
					errs = append(errs, fmt.Sprintf("sent to link address %x, want the requester's %x", []byte(f.Remote), lls))
				}
				return errs
			}
			e.tap.InjectFrom(protoIPv6, tcpip.LinkAddress(eth), pkt)
		default:
			panic("unknown message kind " + m.Kind)
		}

		// What did the message draw? Resolution requests started by earlier
		// lookups are emitted asynchronously and are judged separately.
		var replies []netsim.Frame
		for _, f := range e.tap.Trace()[before:] {
			if ri, ok := e.asRequest(f); ok {
				if !lookedUp[string(ri.target)] {
					return evid.Failf("spurious-request", "step %d: the stack emitted a resolution request for %x that nobody looked up\n%s", i, ri.target, traceString(e.tap.Trace(), t0))
				}
				continue
			}
			replies = append(replies, f)
		}
		want := 0
		if expectReply {
			want = 1
		}
		if len(replies) != want {
			sig := "reply-missing"
			if len(replies) > want {
				sig = "reply-unexpected"
			}
			return evid.Failf(sig, "step %d (%s %s): %d frame(s) emitted in response, want %d (a reply is due iff the message is a well-formed request whose target is an address of the NIC)\nmessage: %+v\n%s",
				i, m.Kind, m.Note, len(replies), want, m, traceString(replies, t0))
		}
		if expectReply {
			if errs := check(replies[0]); len(errs) > 0 {
				return evid.Failf("reply-fields", "step %d (%s %s): reply is wrong: %v\nmessage: %+v\nreply: to=%x %s", i, m.Kind, m.Note, errs, m, []byte(replies[0].Remote), replies[0].Pkt.String())
			}
		}
	}
	// Final sweep: every address the model knows, in the order of first
	// mention, plus one that was never mentioned.
	seen := map[string]bool{}
	for i, m := range c.Msgs {
		for _, k := range []string{m.SPA, m.Src, m.Target, m.Key} {
			if k == "" || seen[k] {
				continue
			}
			seen[k] = true
			if kb := unhx(k); len(kb) == len(e.own[0]) {
				if f := lookup(1000+i, kb); f != nil {
					return f
				}
			}
		}
	}
	never := peerIP(c.V6, 59999)
	if f := lookup(2000, never); f != nil {
		return f
	}
	// Requests seen at the very end must all be for looked-up addresses.
	for _, f := range e.tap.Trace() {
		if ri, ok := e.asRequest(f); ok {
			if !lookedUp[string(ri.target)] {
				return evid.Failf("spurious-request", "the stack emitted a resolution request for %x that nobody looked up", ri.target)
			}
			if len(ri.errs) > 0 {
				return evid.Failf("request-fields", "resolution request for %x is wrong: %v", ri.target, ri.errs)
			}
			if !isBroadcast(f) {
				return evid.Failf("request-not-broadcast", "resolution request for %x sent to link address %x, want ff:ff:ff:ff:ff:ff", ri.target, []byte(f.Remote))
			}
		}
	}
	nc := 0
	for k := range classes {
		evid.Label("answer:" + k)
		nc++
	}
	if len(c.Msgs) >= 2 || nc > 0 {
		evid.NonTrivialKey("answer", fmt.Sprintf("%+v", c))
	}
	if (classes["arp:request-own"] || classes["ndp:solicit-own"]) && evid.ShardIdx == 0 && len(c.Msgs) > 1 {
		evid.Sample("answer", c)
	}
	return nil
}

// --- generator

func genARPMsg(rt *rapid.T, nOwn int) AMsg {
	peer := rapid.IntRange(0, 3).Draw(rt, "peer")
	ver := rapid.IntRange(0, 2).Draw(rt, "ver")
	m := AMsg{Kind: "arp", Htype: 1, Ptype: 0x0800, Hlen: 6, Plen: 4, Len: 28}
	sha := peerMAC(peer, ver)
	spa := peerIP(false, peer)
	targets := [][]byte{ownPool4[0], ownPool4[rapid.IntRange(0, nOwn-1).Draw(rt, "own")], unassign4, peerIP(false, (peer+1)%4), ownPool4[2], zero4, {10, 0, 0, 255}}
	form := rapid.SampledFrom([]string{"request", "request", "request", "reply", "reply", "grat-request", "grat-reply", "probe", "other-op", "malformed", "malformed", "padded", "odd-sender"}).Draw(rt, "form")
	m.Note = form
	m.Op = codec.ARPRequest
	tha := zeroMAC
	tpa := rapid.SampledFrom(targets).Draw(rt, "tpa")
	switch form {
	case "reply":
		m.Op = codec.ARPReply
		tha = nicMAC
		if rapid.IntRange(0, 3).Draw(rt, "reply_foreign") == 0 {
			tha = peerMAC(9, 0)
		}
	case "grat-request":
		tpa = spa
	case "grat-reply":
		m.Op = codec.ARPReply
		tpa = spa
		tha = bcastMAC
	case "probe": // RFC 5227: sender protocol address 0
		spa = zero4
	case "other-op":
		m.Op = rapid.SampledFrom([]uint16{0, 3, 4, 8, 0x0100, 0x0101, 0x0201, 0xffff}).Draw(rt, "op")
	case "malformed":
		switch rapid.IntRange(0, 5).Draw(rt, "mal") {
		case 0:
			m.Htype = rapid.SampledFrom([]uint16{0, 6, 0x0100, 0x0101, 0xffff}).Draw(rt, "htype")
		case 1:
			m.Ptype = rapid.SampledFrom([]uint16{0, 0x0806, 0x86dd, 0x0008, 0x0801}).Draw(rt, "ptype")
		case 2:
			m.Hlen = rapid.SampledFrom([]uint8{0, 5, 7, 8, 16, 255}).Draw(rt, "hlen")
		case 3:
			m.Plen = rapid.SampledFrom([]uint8{0, 3, 5, 16, 255}).Draw(rt, "plen")
		case 4:
			m.Len = rapid.IntRange(8, 27).Draw(rt, "short")
		case 5:
			m.Hlen, m.Plen = 4, 6 // swapped
		}
		if rapid.Bool().Draw(rt, "mal_reply") {
			m.Op = codec.ARPReply
			tha = nicMAC
		}
	case "padded":
		m.Len = rapid.SampledFrom([]int{29, 46, 60, 100}).Draw(rt, "padded")
	case "odd-sender":
		sha = rapid.SampledFrom([][]byte{bcastMAC, zeroMAC, nicMAC, {0x01, 0x00, 0x5e, 0, 0, 1}}).Draw(rt, "odd_sha")
	}
	m.SHA, m.SPA, m.THA, m.TPA = hx(sha), hx(spa), hx(tha), hx(tpa)
	m.Eth = m.SHA
	if rapid.IntRange(0, 9).Draw(rt, "eth_differs") == 0 {
		m.Eth = hx(peerMAC(peer, 7))
	}
	return m
}

func genNDPMsg(rt *rapid.T, nOwn int) AMsg {
	peer := rapid.IntRange(0, 3).Draw(rt, "peer")
	ver := rapid.IntRange(0, 2).Draw(rt, "ver")
	mac := peerMAC(peer, ver)
	src := peerIP(true, peer)
	own := ownPool6[rapid.IntRange(0, nOwn-1).Draw(rt, "own")]
	form := rapid.SampledFrom([]string{"solicit", "solicit", "solicit", "solicit-unicast", "advert", "advert", "advert-unsolicited", "truncated", "no-option", "foreign-target"}).Draw(rt, "form")
	m := AMsg{Note: form, Eth: hx(mac), Src: hx(src)}
	switch form {
	case "solicit", "solicit-unicast", "foreign-target", "no-option", "truncated":
		m.Kind = "ns"
		tgt := own
		if form == "foreign-target" {
			tgt = rapid.SampledFrom([][]byte{unassign6, peerIP(true, (peer+1)%4), ownPool6[2], make([]byte, 16)}).Draw(rt, "tgt")
		}
		m.Target = hx(tgt)
		// The message must arrive at an address the NIC listens on: the
		// solicited-node group of one of its addresses or a unicast address.
		dst := solicitedNode(own)
		if form == "solicit-unicast" || rapid.IntRange(0, 3).Draw(rt, "unicast") == 0 {
			dst = own
		}
		m.Dst = hx(dst)
		if form != "no-option" {
			m.OptType, m.OptLL = 1, hx(mac)
		}
		if form == "truncated" {
			m.ICMPLen = rapid.IntRange(4, 23).Draw(rt, "icmp_len")
			if rapid.Bool().Draw(rt, "trunc_na") {
				m.Kind = "na"
				m.Dst = hx(own)
			}
		}
	default:
		m.Kind = "na"
		m.Target = hx(src)
		m.Dst = hx(own)
		m.Flags = 0x60
		m.OptType, m.OptLL = 2, hx(mac)
		if form == "advert-unsolicited" {
			m.Flags = 0x20
			switch rapid.IntRange(0, 2).Draw(rt, "na_variant") {
			case 0:
				m.Target = hx(peerIP(true, (peer+1)%4)) // proxy: target differs from the source
			case 1:
				m.OptType, m.OptLL = 0, "" // no target link-layer option (24 bytes)
			}
		}
	}
	if m.OptType != 0 && rapid.IntRange(0, 9).Draw(rt, "eth_differs") == 0 {
		m.Eth = hx(peerMAC(peer, 7))
	}
	return m
}

func genAnswer(rt *rapid.T) AnsCase {
	c := AnsCase{V6: rapid.Bool().Draw(rt, "v6"), NOwn: rapid.IntRange(1, 2).Draw(rt, "n_own")}
	n := rapid.IntRange(1, 7).Draw(rt, "n")
	for i := 0; i < n; i++ {
		if rapid.IntRange(0, 4).Draw(rt, "is_lookup") == 0 {
			k := rapid.IntRange(0, 4).Draw(rt, "key")
			c.Msgs = append(c.Msgs, AMsg{Kind: "lookup", Key: hx(peerIP(c.V6, k))})
			continue
		}
		if c.V6 {
			c.Msgs = append(c.Msgs, genNDPMsg(rt, c.NOwn))
		} else {
			c.Msgs = append(c.Msgs, genARPMsg(rt, c.NOwn))
		}
	}
	return c
}

func TestAnswer(t *testing.T) {
	evid.Run(t, evid.Spec[AnsCase]{Name: "answer", Gen: genAnswer, Run: runAnswer})
}

// TestAnswerEnum visits a small ARP field domain completely: every
// combination of opcode, target class, hardware/protocol type, size fields and
// packet length, one packet per fresh stack.
func TestAnswerEnum(t *testing.T) {
	if evid.ReplayMode() {
		t.Skip()
	}
	ops := []uint16{0, 1, 2, 3, 0x0101}
	targets := [][]byte{ownPool4[0], ownPool4[1], unassign4, ownPool4[2], zero4}
	htypes := []uint16{1, 6, 0x0100}
	ptypes := []uint16{0x0800, 0x0806, 0x86dd}
	hlens := []uint8{6, 5, 8}
	plens := []uint8{4, 3, 16}
	lens := []int{27, 28, 29, 46}
	idx := 0
	var n int64
	for _, op := range ops {
		for _, tpa := range targets {
			for _, ht := range htypes {
				for _, pt := range ptypes {
					for _, hl := range hlens {
						for _, pl := range plens {
							for _, ln := range lens {
								idx++
								if idx%evid.NShards != evid.ShardIdx {
									continue
								}
								sha, spa := peerMAC(1, 0), peerIP(false, 1)
								c := AnsCase{NOwn: 2, Msgs: []AMsg{{Kind: "arp", Note: "enum", Op: op, Htype: ht, Ptype: pt, Hlen: hl, Plen: pl, Len: ln,
									SHA: hx(sha), SPA: hx(spa), THA: hx(zeroMAC), TPA: hx(tpa), Eth: hx(sha)}}}
								f := evid.Guard(func() *evid.Failure { return runAnswer(c) })
								evid.Eval(1)
								n++
								if evid.Direct(t, "answer", f, c) {
									return
								}
							}
						}
					}
				}
			}
		}
	}
	evid.Exhaustive(fmt.Sprintf("single ARP packet: op in %v x target in {own0, own1, unassigned, foreign, 0.0.0.0} x htype in %v x ptype in %#x x hlen in %v x plen in %v x length in %v", ops, htypes, ptypes, hlens, plens, lens))
}
