package c12

import (
	"bytes"
	"encoding/hex"
	"fmt"
	"time"

	"github.com/brewlin/net-protocol/pkg/sleep"
	tcpip "github.com/brewlin/net-protocol/protocol"
	"github.com/brewlin/net-protocol/stack"
	"verifharness/codec"
	"verifharness/netsim"
)

// Protocol numbers (EtherTypes), written out so that nothing is taken from the
// repository's header package.
const (
	protoIPv4 = tcpip.NetworkProtocolNumber(0x0800)
	protoARP  = tcpip.NetworkProtocolNumber(0x0806)
	protoIPv6 = tcpip.NetworkProtocolNumber(0x86dd)

	protoTCP = tcpip.TransportProtocolNumber(6)
	protoUDP = tcpip.TransportProtocolNumber(17)
)

var (
	nicMAC    = []byte{0x02, 0x00, 0x00, 0x00, 0x00, 0x01}
	bcastMAC  = []byte{0xff, 0xff, 0xff, 0xff, 0xff, 0xff}
	zeroMAC   = []byte{0, 0, 0, 0, 0, 0}
	zero4     = []byte{0, 0, 0, 0}
	gateway4  = []byte{10, 0, 0, 254}
	gateway6  = v6(0xfd00, 0xfe)
	offLink4  = []byte{192, 168, 7, 9}
	offLink6  = append([]byte{0x20, 0x01, 0x0d, 0xb8}, append(make([]byte, 11), 0x09)...)
	ownPool4  = [][]byte{{10, 0, 0, 1}, {10, 0, 0, 17}, {10, 0, 0, 33}}
	ownPool6  = [][]byte{v6(0xfd00, 0x01), v6(0xfd00, 0x11), v6(0xfd00, 0x21)}
	unassign4 = []byte{10, 0, 0, 77}
	unassign6 = v6(0xfd00, 0x77)
)

// v6 returns prefix:: ... :low (prefix in the first two bytes, low in the last two).
func v6(prefix uint16, low uint16) []byte {
	b := make([]byte, 16)
	b[0], b[1] = byte(prefix>>8), byte(prefix)
	b[14], b[15] = byte(low>>8), byte(low)
	return b
}

// peerIP is the i-th neighbour address (i < 60000) and peerMAC its ver-th link address.
func peerIP(v6fam bool, i int) []byte {
	if v6fam {
		b := v6(0xfd00, 0)
		b[12] = 0x01
		b[13] = byte(i >> 16)
		b[14] = byte(i >> 8)
		b[15] = byte(i)
		return b
	}
	return []byte{10, 0, byte(1 + i/250), byte(1 + i%250)}
}

// peerMAC: the key index is part of the value, so that a value reported for
// another key is recognisable.
func peerMAC(i, ver int) []byte {
	return []byte{0x06, byte(ver), byte(i >> 16), byte(i >> 8), byte(i), 0xa5}
}

// solicitedNode is RFC 4291 2.7.1: ff02::1:ffXX:XXXX.
func solicitedNode(a []byte) []byte {
	b := []byte{0xff, 0x02, 0, 0, 0, 0, 0, 0, 0, 0, 0, 0x01, 0xff, 0, 0, 0}
	copy(b[13:], a[13:16])
	return b
}

func hx(b []byte) string { return hex.EncodeToString(b) }
func unhx(s string) []byte {
	b, err := hex.DecodeString(s)
	if err != nil {
		panic("bad hex in case: " + s)
	}
	return b
}

func inSet(set [][]byte, a []byte) bool {
	for _, x := range set {
		if bytes.Equal(x, a) {
			return true
		}
	}
	return false
}

// env is one stack on a resolution-requiring tap.
type env struct {
	naFlags byte // flags byte of injected neighbour advertisements (0 = solicited|override)
	tap  *netsim.Tap
	s    *stack.Stack
	v6   bool
	own  [][]byte // own addresses of the family under test
	own4 [][]byte
	own6 [][]byte
}

type envCfg struct {
	V6       bool
	NOwn     int
	Scaled   bool
	Age      time.Duration
	Timeout  time.Duration
	Attempts int
	Gateway  bool
}

func newEnv(c envCfg) *env {
	tap := netsim.NewTap(1500)
	tap.Caps = stack.CapabilityResolutionRequired
	tap.Addr = tcpip.LinkAddress(nicMAC)
	if c.NOwn < 1 {
		c.NOwn = 1
	}
	e := &env{tap: tap, v6: c.V6}
	var a4, a6 []tcpip.Address
	for i := 0; i < c.NOwn; i++ {
		e.own4 = append(e.own4, ownPool4[i])
		e.own6 = append(e.own6, ownPool6[i])
		a4 = append(a4, tcpip.Address(ownPool4[i]))
		a6 = append(a6, tcpip.Address(ownPool6[i]))
	}
	// A node listens on the solicited-node group of each of its addresses
	// (RFC 4861 7.2.1); this stack needs the group added as an address.
	for i := 0; i < c.NOwn; i++ {
		sn := tcpip.Address(solicitedNode(ownPool6[i]))
		dup := false
		for _, x := range a6 {
			if x == sn {
				dup = true
			}
		}
		if !dup {
			a6 = append(a6, sn)
		}
	}
	e.s = netsim.NewStack(tap, netsim.StackCfg{Addrs4: a4, Addrs6: a6, ARP: true})
	if c.Scaled {
		e.s.VerifSetLinkAddrCacheParams(c.Age, c.Timeout, c.Attempts)
	}
	if c.Gateway {
		e.s.SetRouteTable([]tcpip.Route{
			{Destination: tcpip.Address("\x0a\x00\x00\x00"), Mask: tcpip.AddressMask("\xff\xff\x00\x00"), NIC: 1},
			{Destination: tcpip.Address("\x00\x00\x00\x00"), Mask: tcpip.AddressMask("\x00\x00\x00\x00"), Gateway: tcpip.Address(gateway4), NIC: 1},
			{Destination: tcpip.Address(v6(0xfd00, 0)), Mask: tcpip.AddressMask("\xff\xff" + string(make([]byte, 14))), NIC: 1},
			{Destination: tcpip.Address(make([]byte, 16)), Mask: tcpip.AddressMask(make([]byte, 16)), Gateway: tcpip.Address(gateway6), NIC: 1},
		})
	}
	if c.V6 {
		e.own = e.own6
	} else {
		e.own = e.own4
	}
	return e
}

// close releases what a stack keeps alive for ever otherwise: one goroutine per
// IPv4 address, and the stack itself through the repository's global link
// endpoint registry (tap -> dispatcher -> stack). Called when a case is over.
func (e *env) close() {
	for _, a := range e.own4 {
		e.s.RemoveAddress(1, tcpip.Address(a))
	}
	e.tap.Attach(nil)
}

func (e *env) netProto() tcpip.NetworkProtocolNumber {
	if e.v6 {
		return protoIPv6
	}
	return protoIPv4
}

// get is Stack.GetLinkAddress for the family under test.
func (e *env) get(key []byte) (tcpip.LinkAddress, <-chan struct{}, *tcpip.Error) {
	return e.s.GetLinkAddress(1, tcpip.Address(key), tcpip.Address(e.own[0]), e.netProto(), &sleep.Waker{})
}

// injectReply injects the family's "reply" (ARP reply / neighbour
// advertisement) saying ip is at mac, addressed to the stack's first address.
func (e *env) injectReply(ip, mac []byte) {
	if e.v6 {
		body := make([]byte, 4+16+8)
		body[0] = 0x60 // solicited, override
		if e.naFlags != 0 {
			body[0] = e.naFlags
		}
		copy(body[4:], ip)
		body[20], body[21] = 2, 1
		copy(body[22:], mac)
		icmp := codec.BuildICMPv6(ip, e.own[0], 136, 0, body)
		e.tap.InjectFrom(protoIPv6, tcpip.LinkAddress(mac), codec.BuildIPv6(codec.IPv6Hdr{Src: ip, Dst: e.own[0], NextHeader: codec.ProtoICMPv6, HopLimit: 255}, icmp))
		return
	}
	e.tap.InjectFrom(protoARP, tcpip.LinkAddress(mac), codec.BuildARP(codec.ARPReply, mac, ip, nicMAC, e.own[0]))
}

// injectRequestToUs injects a request (ARP request / neighbour solicitation)
// from ip/mac for the stack's first address.
func (e *env) injectRequestToUs(ip, mac []byte) {
	if e.v6 {
		body := make([]byte, 4+16+8)
		copy(body[4:], e.own[0])
		body[20], body[21] = 1, 1
		copy(body[22:], mac)
		dst := solicitedNode(e.own[0])
		icmp := codec.BuildICMPv6(ip, dst, 135, 0, body)
		e.tap.InjectFrom(protoIPv6, tcpip.LinkAddress(mac), codec.BuildIPv6(codec.IPv6Hdr{Src: ip, Dst: dst, NextHeader: codec.ProtoICMPv6, HopLimit: 255}, icmp))
		return
	}
	e.tap.InjectFrom(protoARP, tcpip.LinkAddress(mac), codec.BuildARP(codec.ARPRequest, mac, ip, zeroMAC, e.own[0]))
}

// reqInfo describes an emitted resolution request (ARP request or neighbour
// solicitation) as decoded by the independent codec.
type reqInfo struct {
	target []byte
	errs   []string
}

// asRequest classifies f; ok=false if f is not a resolution request.
func (e *env) asRequest(f netsim.Frame) (reqInfo, bool) {
	p := f.Pkt
	if f.Proto == protoARP && p != nil && p.L3 == "arp" && len(p.ARPTPA) == 4 && p.ARPOp == codec.ARPRequest {
		ri := reqInfo{target: p.ARPTPA, errs: append([]string(nil), p.Errs...)}
		if len(f.Raw) != 28 {
			ri.errs = append(ri.errs, fmt.Sprintf("ARP request of %d bytes", len(f.Raw)))
		}
		if !bytes.Equal(p.ARPSHA, nicMAC) {
			ri.errs = append(ri.errs, fmt.Sprintf("sender hardware address %x is not the NIC's %x", p.ARPSHA, nicMAC))
		}
		if !inSet(e.own4, p.ARPSPA) {
			ri.errs = append(ri.errs, fmt.Sprintf("sender protocol address %v is not an address of the NIC", p.ARPSPA))
		}
		return ri, true
	}
	if f.Proto == protoIPv6 && p != nil && p.L4Kind == "icmp6" && p.ICMPType == 135 && len(p.ICMPBody) >= 20 {
		tgt := p.ICMPBody[4:20]
		ri := reqInfo{target: tgt, errs: append([]string(nil), p.Errs...)}
		if p.ICMPCode != 0 {
			ri.errs = append(ri.errs, "code != 0")
		}
		if !inSet(e.own6, p.Src) {
			ri.errs = append(ri.errs, fmt.Sprintf("source %x is not an address of the NIC", p.Src))
		}
		if !bytes.Equal(p.Dst, solicitedNode(tgt)) && !bytes.Equal(p.Dst, tgt) {
			ri.errs = append(ri.errs, fmt.Sprintf("destination %x is neither the solicited-node group of the target nor the target", p.Dst))
		}
		if ll, ok := ndpOption(p.ICMPBody[20:], 1); !ok || !bytes.Equal(ll, nicMAC) {
			ri.errs = append(ri.errs, fmt.Sprintf("source link-layer address option %x (present %v) is not the NIC's MAC", ll, ok))
		}
		return ri, true
	}
	return reqInfo{}, false
}

// ndpOption finds the first option of the given type (RFC 4861 4.6) and
// returns its first 6 value bytes.
func ndpOption(opts []byte, typ byte) ([]byte, bool) {
	for len(opts) >= 8 {
		l := int(opts[1]) * 8
		if l == 0 || l > len(opts) {
			return nil, false
		}
		if opts[0] == typ {
			return opts[2:8], true
		}
		opts = opts[l:]
	}
	return nil, false
}

func isBroadcast(f netsim.Frame) bool { return bytes.Equal([]byte(f.Remote), bcastMAC) }

func traceString(fs []netsim.Frame, t0 time.Time) string {
	out := ""
	for i, f := range fs {
		if i >= 40 {
			out += fmt.Sprintf("  ... %d more\n", len(fs)-i)
			break
		}
		ref := ""
		if f.Refused {
			ref = " [REFUSED by the link: transmit error returned to the stack]"
		}
		out += fmt.Sprintf("  #%d +%v to=%x %s%s\n", f.Seq, f.T.Sub(t0).Round(100*time.Microsecond), []byte(f.Remote), f.Pkt.String(), ref)
	}
	return out
}
