package c14

import (
	"fmt"
	"sort"
	"testing"

	"github.com/brewlin/net-protocol/pkg/seqnum"
	"verifharness/evid"
)

// Distance sweeps over the exported seqnum API (first half of C14).
//
// For a base point a and a distance d the sweep point is (a, w = a+d mod 2^32).
// At every point the following calls are compared with the reference:
//
//	cmp   (4): a.LessThan(w) w.LessThan(a) a.LessThanEq(w) w.LessThanEq(a)      [d = 2^31 excluded]
//	arith (6): a.Add(d) a.Size(w) a.UpdateForward(d)  and from w back to a with 2^32-d
//	R1 (2/L) : w.InRange(a, a+L)  w.InWindow(a, L)            value swept through a fixed range
//	R3 (2/L) : a.InRange(w, w+L)  a.InWindow(w, L)            fixed value, range start swept
//	RK (2/k) : (a+k).InRange(a, w)  (a+k).InWindow(a, d)      fixed value, range end / size swept
var (
	sweepLs = [...]uint64{0, 1, 2, 1 << 16, half - 1, half, half + 1, mask}
	sweepKs = [...]uint64{0, 1, half - 1, half, mask}
)

const (
	evalsCmp     = 4
	evalsArith   = 6
	evalsPerL    = 2
	evalsPerK    = 2
	evalsPerStep = evalsCmp + evalsArith + 2*evalsPerL*len(sweepLs) + evalsPerK*len(sweepKs)
)

type sweepStats struct {
	points   int64 // sweep points visited
	evals    int64 // calls compared with the reference
	nt       int64 // of those, non-trivial by the rule of plan.json
	exclCmp  int64 // LessThan/LessThanEq calls not made because d == 2^31
	ntPoints int64 // points with a and w in different halves
}

// sweep visits d = lo, lo+stride, ... < hi from base point a. It returns the
// first call that disagrees with the reference (nil if none).
func sweep(a uint32, lo, hi, stride uint64, st *sweepStats) *Case {
	av := seqnum.Value(a)
	topA := a >> 31
	var bL [len(sweepLs)]uint32
	var ntL [len(sweepLs)]bool
	for i, L := range sweepLs {
		bL[i] = uint32((uint64(a) + L) % mod)
		ntL[i] = bL[i]>>31 != topA
	}
	var vK [len(sweepKs)]uint32
	var ntK [len(sweepKs)]bool
	for i, k := range sweepKs {
		vK[i] = uint32((uint64(a) + k) % mod)
		ntK[i] = vK[i]>>31 != topA
	}
	var points, nCmp, nExcl, ntC, ntF, ntB, ntR, ntP int64
	var bad *Case
loop:
	for d := lo; d < hi; d += stride {
		points++
		d32 := uint32(d)
		wU := uint64(a) + d // on the integer line
		w := uint32(wU % mod)
		wv := seqnum.Value(w)
		back := (mod - d) % mod // distance from w forward to a
		back32 := uint32(back)
		c1 := w>>31 != topA

		if d != half {
			isFwd := d >= 1 && d <= half-1
			isBack := back >= 1 && back <= half-1
			if av.LessThan(wv) != isFwd {
				bad = &Case{Fn: "LessThan", V: a, W: w}
				break loop
			}
			if wv.LessThan(av) != isBack {
				bad = &Case{Fn: "LessThan", V: w, W: a}
				break loop
			}
			if av.LessThanEq(wv) != (d <= half-1) {
				bad = &Case{Fn: "LessThanEq", V: a, W: w}
				break loop
			}
			if wv.LessThanEq(av) != (back <= half-1) {
				bad = &Case{Fn: "LessThanEq", V: w, W: a}
				break loop
			}
			nCmp++
			if c1 {
				ntC++
			}
		} else {
			nExcl++
		}

		if uint32(av.Add(seqnum.Size(d32))) != w {
			bad = &Case{Fn: "Add", V: a, S: d32}
			break loop
		}
		if uint32(wv.Add(seqnum.Size(back32))) != a {
			bad = &Case{Fn: "Add", V: w, S: back32}
			break loop
		}
		if uint64(av.Size(wv)) != d {
			bad = &Case{Fn: "Size", V: a, W: w}
			break loop
		}
		if uint64(wv.Size(av)) != back {
			bad = &Case{Fn: "Size", V: w, W: a}
			break loop
		}
		u := av
		u.UpdateForward(seqnum.Size(d32))
		if uint32(u) != w {
			bad = &Case{Fn: "UpdateForward", V: a, S: d32}
			break loop
		}
		u = wv
		u.UpdateForward(seqnum.Size(back32))
		if uint32(u) != a {
			bad = &Case{Fn: "UpdateForward", V: w, S: back32}
			break loop
		}
		if wU>>31 != uint64(topA) {
			ntF++
		}
		if (uint64(w)+back)>>31 != uint64(w>>31) {
			ntB++
		}

		for i, L := range sweepLs {
			in := d < L
			if wv.InRange(av, seqnum.Value(bL[i])) != in {
				bad = &Case{Fn: "InRange", V: w, W: a, X: bL[i]}
				break loop
			}
			if wv.InWindow(av, seqnum.Size(L)) != in {
				bad = &Case{Fn: "InWindow", V: w, W: a, S: uint32(L)}
				break loop
			}
			if c1 || ntL[i] {
				ntR++
			}
			in3 := back < L
			e3 := uint32((uint64(w) + L) % mod)
			if av.InRange(wv, seqnum.Value(e3)) != in3 {
				bad = &Case{Fn: "InRange", V: a, W: w, X: e3}
				break loop
			}
			if av.InWindow(wv, seqnum.Size(L)) != in3 {
				bad = &Case{Fn: "InWindow", V: a, W: w, S: uint32(L)}
				break loop
			}
			if c1 || e3>>31 != w>>31 {
				ntR++
			}
		}
		for i, k := range sweepKs {
			in := k < d
			if seqnum.Value(vK[i]).InRange(av, wv) != in {
				bad = &Case{Fn: "InRange", V: vK[i], W: a, X: w}
				break loop
			}
			if seqnum.Value(vK[i]).InWindow(av, seqnum.Size(d32)) != in {
				bad = &Case{Fn: "InWindow", V: vK[i], W: a, S: d32}
				break loop
			}
			if c1 || ntK[i] {
				ntR++
			}
		}
		if c1 {
			ntP++
		}
	}
	st.points += points
	st.ntPoints += ntP
	if bad != nil {
		// the failing point is not counted as completely evaluated
		points--
	}
	st.evals += nCmp*evalsCmp + points*int64(evalsPerStep-evalsCmp)
	st.nt += ntC*evalsCmp + (ntF+ntB)*(evalsArith/2) + ntR*2
	st.exclCmp += nExcl * evalsCmp
	return bad
}

type segment struct {
	lo, hi, stride uint64 // d = lo, lo+stride, ... < hi
	exhaustive     bool
}

func splitmix(x *uint64) uint64 {
	*x += 0x9e3779b97f4a7c15
	z := *x
	z = (z ^ (z >> 30)) * 0xbf58476d1ce4e5b9
	z = (z ^ (z >> 27)) * 0x94d049bb133111eb
	return z ^ (z >> 31)
}

// basePoints: the six boundary points plus seed-derived ones.
func basePoints() (fixed, random []uint32) {
	fixed = []uint32{0, 1, uint32(half - 1), uint32(half), uint32(half + 1), uint32(mask)}
	st := uint64(evid.Seed)*0x100000001b3 + 0xc14
	nRandom := 3
	for len(random) < nRandom {
		r := uint32(splitmix(&st))
		dup := false
		for _, f := range append(append([]uint32(nil), fixed...), random...) {
			if f == r {
				dup = true
			}
		}
		if !dup {
			random = append(random, r)
		}
	}
	return fixed, random
}

const (
	quickWindow  = uint64(1) << 16 // half-width of the exhaustive windows at d = 0, 2^31, 2^32
	quickWindowW = uint64(1) << 12 // half-width of the windows where w = a+d passes 0 and 2^31
	quickStride  = uint64(257)     // prime stride between the windows
)

// segments returns the disjoint d-segments visited from base point a.
func segments(a uint32) []segment {
	if evid.Thorough() {
		return []segment{{0, mod, 1, true}}
	}
	type iv struct{ lo, hi uint64 }
	clip := func(c uint64, hw uint64) iv {
		lo, hi := uint64(0), c+hw+1
		if c > hw {
			lo = c - hw
		}
		if hi > mod {
			hi = mod
		}
		return iv{lo, hi}
	}
	ws := []iv{
		clip(0, quickWindow), clip(half, quickWindow), clip(mod, quickWindow),
		clip((mod-uint64(a))%mod, quickWindowW),      // w passes 0
		clip((mod+half-uint64(a))%mod, quickWindowW), // w passes 2^31
	}
	sort.Slice(ws, func(i, j int) bool { return ws[i].lo < ws[j].lo })
	var merged []iv
	for _, w := range ws {
		if n := len(merged); n > 0 && w.lo <= merged[n-1].hi {
			if w.hi > merged[n-1].hi {
				merged[n-1].hi = w.hi
			}
			continue
		}
		merged = append(merged, w)
	}
	phase := uint64(evid.Seed) * 2654435761 % quickStride
	var out []segment
	prev := uint64(0)
	for _, w := range merged {
		if w.lo > prev+phase {
			out = append(out, segment{prev + phase, w.lo, quickStride, false})
		}
		out = append(out, segment{w.lo, w.hi, 1, true})
		prev = w.hi
	}
	if prev+phase < mod {
		out = append(out, segment{prev + phase, mod, quickStride, false})
	}
	return out
}

// shardPart returns this process's contiguous share of a segment.
func shardPart(s segment) (lo, hi uint64) {
	n := (s.hi - s.lo + s.stride - 1) / s.stride
	i0 := n * uint64(evid.ShardIdx) / uint64(evid.NShards)
	i1 := n * uint64(evid.ShardIdx+1) / uint64(evid.NShards)
	lo = s.lo + i0*s.stride
	hi = s.lo + i1*s.stride
	if hi > s.hi {
		hi = s.hi
	}
	return lo, hi
}

// TestAPISweep enumerates distances from each base point.
func TestAPISweep(t *testing.T) {
	if evid.ReplayMode() {
		t.Skip("replays of sweep failures are hosted by the api-* Specs in TestAPIRandom*")
	}
	fixed, random := basePoints()
	bases := append(append([]uint32(nil), fixed...), random...)
	// Operand tuples reachable twice (d=0 makes forward and backward calls
	// coincide; R1/RK coincide where d in Ks and L in Ls; a base point that is
	// itself the w of another base point repeats that point's calls in the
	// other direction). A generous bound is subtracted from the distinct count.
	dupBound := int64(evalsPerStep*(len(bases)+1) + 2*len(sweepLs)*len(sweepKs))
	failures := 0
	var total sweepStats
	for _, a := range bases {
		var st sweepStats
		complete := true
		var exh []string
		for _, sg := range segments(a) {
			lo, hi := shardPart(sg)
			bad := sweep(a, lo, hi, sg.stride, &st)
			if sg.exhaustive {
				exh = append(exh, fmt.Sprintf("[%#x,%#x)", sg.lo, sg.hi))
			}
			if bad != nil {
				complete = false
				f, inDom := decide(*bad)
				if f == nil || !inDom {
					t.Fatalf("harness inconsistency: sweep flagged %s but decide() accepts it", *bad)
				}
				if evid.Direct(t, checkOf(bad.Fn), f, *bad) {
					failures++
				}
				break
			}
		}
		nt := st.nt - dupBound
		if nt < 0 {
			nt = 0
		}
		evid.Eval(st.evals)
		evid.DistinctByConstruction(nt)
		evid.LabelN("sweep/points", st.points)
		evid.LabelN("sweep/points_a_and_w_in_different_halves", st.ntPoints)
		evid.LabelN(fmt.Sprintf("sweep/points_from_base_%#x", a), st.points)
		for i := int64(0); i < st.exclCmp; i++ {
			evid.Exclude("LessThan/LessThanEq at distance exactly 2^31 (RFC 1982: undefined)")
		}
		total.points += st.points
		total.evals += st.evals
		if complete {
			evid.Exhaustive(fmt.Sprintf("LessThan, LessThanEq (both directions, d=2^31 excluded), Add, Size, UpdateForward (both directions), "+
				"InRange/InWindow (sizes L in %v, offsets k in %v): every distance d in %v from base point a=%#x "+
				"[enumerated by %d processes; complete only when every shard of TestAPISweep exited 0]",
				sweepLs, sweepKs, exh, a, evid.NShards))
		}
		if failures >= 3 {
			break
		}
	}
	if evid.ShardIdx == 0 {
		evid.Sample("sweep-plan", map[string]any{"base_points_fixed": fixed, "base_points_seeded": random,
			"segments_of_last_base": fmt.Sprint(segments(bases[len(bases)-1])), "calls_per_point": evalsPerStep,
			"sizes_L": sweepLs, "offsets_k": sweepKs})
		for _, pt := range [][2]uint32{{uint32(mask), 1}, {uint32(half - 1), uint32(half + 1)}, {random[0], uint32(half - 1)}} {
			a, d := pt[0], pt[1]
			w := refAdd(a, d)
			evid.Sample("sweep-point", map[string]any{"a": a, "d": d, "w": w, "calls": []string{
				Case{Fn: "LessThan", V: a, W: w}.String(), Case{Fn: "LessThanEq", V: w, W: a}.String(),
				Case{Fn: "Add", V: a, S: d}.String(), Case{Fn: "Size", V: w, W: a}.String(),
				Case{Fn: "InRange", V: w, W: a, X: refAdd(a, uint32(half+1))}.String(),
				Case{Fn: "InWindow", V: a, W: w, S: uint32(mask)}.String(),
				Case{Fn: "InRange", V: refAdd(a, 1), W: a, X: w}.String(), "... 52 calls in all"}})
		}
		// Not asserted, only recorded: what the implementation answers at the excluded distance.
		a, w := seqnum.Value(0), seqnum.Value(uint32(half))
		evid.Note("not checked (undefined in RFC 1982): Value(0).LessThan(2^31)=%v, Value(2^31).LessThan(0)=%v",
			a.LessThan(w), w.LessThan(a))
	}
	t.Logf("shard %d/%d: %d points, %d calls compared", evid.ShardIdx, evid.NShards, total.points, total.evals)
}
