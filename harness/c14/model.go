// Package c14 checks property C14: sequence-space arithmetic of pkg/seqnum is
// correct modulo 2^32, wherever a connection starts.
//
// This file is the reference model. Everything here is computed in
// uint64/int64 from the serial-number-arithmetic definitions of the property
// statement; nothing calls the repository.
package c14

import (
	"fmt"

	"github.com/brewlin/net-protocol/pkg/seqnum"
	"verifharness/evid"
)

const (
	mod  = uint64(1) << 32
	mask = mod - 1
	half = uint64(1) << 31
)

// fwd is the forward distance from v to w on the 2^32 circle.
func fwd(v, w uint32) uint64 { return (uint64(w) + mod - uint64(v)) % mod }

// refLess: v precedes w exactly when the forward distance from v to w is
// between 1 and 2^31-1. Distance exactly 2^31 is undefined (RFC 1982).
func refLess(v, w uint32) (ans, defined bool) {
	d := fwd(v, w)
	return d >= 1 && d <= half-1, d != half
}

func refLessEq(v, w uint32) (ans, defined bool) {
	d := fwd(v, w)
	return d <= half-1, d != half
}

func refAdd(v, s uint32) uint32 { return uint32((uint64(v) + uint64(s)) % mod) }

// refSize is the number of sequence numbers in [v, w).
func refSize(v, w uint32) uint32 { return uint32(fwd(v, w)) }

// refInRange: v is in [a,b) exactly when its distance from a is less than b's.
func refInRange(v, a, b uint32) bool { return fwd(a, v) < fwd(a, b) }

func refInWindow(v, first, size uint32) bool { return fwd(first, v) < uint64(size) }

// refOverlap unrolls [a,a+b) on the integer line and compares it with the
// three images of [x,x+y) that can reach it. ans: the windows share a sequence
// number. inDomain: both windows are non-empty and some arc shorter than 2^31
// covers both (the only domain in which "overlap" is defined in serial
// arithmetic, and the domain of the one caller, receiver.acceptable).
func refOverlap(a, b, x, y uint32) (ans, inDomain bool) {
	alo, ahi := int64(a), int64(a)+int64(b)
	for k := int64(-1); k <= 1; k++ {
		xlo := int64(x) + k*int64(mod)
		xhi := xlo + int64(y)
		lo, hi := alo, ahi
		if xlo > lo {
			lo = xlo
		}
		if xhi < hi {
			hi = xhi
		}
		if lo < hi {
			ans = true
		}
		hlo, hhi := alo, ahi
		if xlo < hlo {
			hlo = xlo
		}
		if xhi > hhi {
			hhi = xhi
		}
		if hhi-hlo <= int64(half)-1 {
			inDomain = true
		}
	}
	if b == 0 || y == 0 {
		inDomain = false
	}
	return ans, inDomain
}

// Case is one call of one exported seqnum function. It is the replay format of
// every api-* check.
//
//	LessThan, LessThanEq, Size : V (receiver), W
//	Add, UpdateForward         : V (receiver), S
//	InRange                    : V (receiver), W = a, X = b
//	InWindow                   : V (receiver), W = first, S = size
//	Overlap                    : V = a, S = b, W = x, T = y
type Case struct {
	Fn string `json:"fn"`
	V  uint32 `json:"v"`
	W  uint32 `json:"w"`
	X  uint32 `json:"x"`
	S  uint32 `json:"s"`
	T  uint32 `json:"t"`
}

func (c Case) String() string {
	switch c.Fn {
	case "LessThan", "LessThanEq", "Size":
		return fmt.Sprintf("Value(%#x).%s(%#x)", c.V, c.Fn, c.W)
	case "Add", "UpdateForward":
		return fmt.Sprintf("Value(%#x).%s(%#x)", c.V, c.Fn, c.S)
	case "InRange":
		return fmt.Sprintf("Value(%#x).InRange(%#x, %#x)", c.V, c.W, c.X)
	case "InWindow":
		return fmt.Sprintf("Value(%#x).InWindow(%#x, %#x)", c.V, c.W, c.S)
	case "Overlap":
		return fmt.Sprintf("Overlap(%#x, %#x, %#x, %#x)", c.V, c.S, c.W, c.T)
	}
	return fmt.Sprintf("%+v", struct {
		Fn            string
		V, W, X, S, T uint32
	}{c.Fn, c.V, c.W, c.X, c.S, c.T})
}

// Spec (check) names. The scenario half of C14 adds its own names.
const (
	checkPair    = "api-pair"    // LessThan LessThanEq Add Size UpdateForward
	checkRange   = "api-range"   // InRange InWindow
	checkOverlap = "api-overlap" // Overlap
)

func checkOf(fn string) string {
	switch fn {
	case "InRange", "InWindow":
		return checkRange
	case "Overlap":
		return checkOverlap
	}
	return checkPair
}

// sameHalf reports whether all points lie in one half [0,2^31) or [2^31,2^32)
// of the space, i.e. whether plain unsigned and plain signed comparison of the
// raw numbers would both agree with serial arithmetic.
func sameHalf(p ...uint32) bool {
	for _, q := range p[1:] {
		if q>>31 != p[0]>>31 {
			return false
		}
	}
	return true
}

// crossesArith: the integer-line sum v+s leaves v's half (passes 2^31 or 2^32).
func crossesArith(v, s uint32) bool { return (uint64(v)+uint64(s))>>31 != uint64(v)>>31 }

// nonTrivial is the rule stated in plan.json.
func nonTrivial(c Case) bool {
	switch c.Fn {
	case "LessThan", "LessThanEq":
		return !sameHalf(c.V, c.W)
	case "Size":
		return crossesArith(c.V, refSize(c.V, c.W))
	case "Add", "UpdateForward":
		return crossesArith(c.V, c.S)
	case "InRange":
		return !sameHalf(c.V, c.W, c.X)
	case "InWindow":
		return !sameHalf(c.V, c.W, refAdd(c.W, c.S))
	case "Overlap":
		return !sameHalf(c.V, refAdd(c.V, c.S), c.W, refAdd(c.W, c.T))
	}
	return false
}

// decide runs one case against the repository and the reference. It is a pure
// function of c. A nil result with ok=false means the case lies outside the
// checked domain (counted as an exclusion by the caller).
func decide(c Case) (f *evid.Failure, inDomain bool) {
	v, w := seqnum.Value(c.V), seqnum.Value(c.W)
	sig := "seqnum." + c.Fn
	boolCase := func(got, want bool, why string) *evid.Failure {
		if got != want {
			return evid.Failf(sig, "%s = %v, serial-number arithmetic says %v (%s)", c, got, want, why)
		}
		return nil
	}
	switch c.Fn {
	case "LessThan":
		want, def := refLess(c.V, c.W)
		if !def {
			return nil, false
		}
		return boolCase(v.LessThan(w), want, fmt.Sprintf("forward distance v->w = %d", fwd(c.V, c.W))), true
	case "LessThanEq":
		want, def := refLessEq(c.V, c.W)
		if !def {
			return nil, false
		}
		return boolCase(v.LessThanEq(w), want, fmt.Sprintf("forward distance v->w = %d", fwd(c.V, c.W))), true
	case "Size":
		if got, want := uint32(v.Size(w)), refSize(c.V, c.W); got != want {
			return evid.Failf(sig, "%s = %#x, want (w-v) mod 2^32 = %#x", c, got, want), true
		}
		return nil, true
	case "Add":
		if got, want := uint32(v.Add(seqnum.Size(c.S))), refAdd(c.V, c.S); got != want {
			return evid.Failf(sig, "%s = %#x, want (v+s) mod 2^32 = %#x", c, got, want), true
		}
		return nil, true
	case "UpdateForward":
		u := v
		u.UpdateForward(seqnum.Size(c.S))
		if got, want := uint32(u), refAdd(c.V, c.S); got != want {
			return evid.Failf(sig, "%s left %#x, want (v+s) mod 2^32 = %#x", c, got, want), true
		}
		return nil, true
	case "InRange":
		return boolCase(v.InRange(w, seqnum.Value(c.X)), refInRange(c.V, c.W, c.X),
			fmt.Sprintf("distance a->v = %d, a->b = %d", fwd(c.W, c.V), fwd(c.W, c.X))), true
	case "InWindow":
		return boolCase(v.InWindow(w, seqnum.Size(c.S)), refInWindow(c.V, c.W, c.S),
			fmt.Sprintf("distance first->v = %d, size = %d", fwd(c.W, c.V), c.S)), true
	case "Overlap":
		want, dom := refOverlap(c.V, c.S, c.W, c.T)
		if !dom {
			return nil, false
		}
		return boolCase(seqnum.Overlap(v, seqnum.Size(c.S), w, seqnum.Size(c.T)), want,
			fmt.Sprintf("x is %d after a, a is %d after x", fwd(c.V, c.W), fwd(c.W, c.V))), true
	}
	return evid.Failf("harness:bad-case", "unknown function %q", c.Fn), true
}
