package c14

import (
	"fmt"
	"testing"

	"pgregory.net/rapid"
	"verifharness/evid"
)

// rapid-driven checks of the exported seqnum API with boundary-biased operands.
// They also host the replays of failures found by TestAPISweep.

var boundaries = []uint64{0, half, mod, 1 << 30, 3 << 30, 1 << 16}

// genValue: a 32-bit value, biased to the neighbourhood of 0, 2^31 and 2^32.
func genValue(rt *rapid.T, label string) uint32 {
	switch rapid.IntRange(0, 3).Draw(rt, label+"_kind") {
	case 0:
		return rapid.Uint32().Draw(rt, label)
	case 1:
		b := rapid.SampledFrom(boundaries[:3]).Draw(rt, label+"_b")
		d := rapid.Int64Range(-3, 3).Draw(rt, label+"_d")
		return uint32((int64(b) + d + int64(mod)) % int64(mod))
	case 2:
		b := rapid.SampledFrom(boundaries).Draw(rt, label+"_b")
		d := rapid.Int64Range(-70000, 70000).Draw(rt, label+"_d")
		return uint32((int64(b) + d + int64(mod)) % int64(mod))
	default:
		b := rapid.SampledFrom(boundaries[:3]).Draw(rt, label+"_b")
		d := rapid.Int64Range(-(1<<24), 1<<24).Draw(rt, label+"_d")
		return uint32((int64(b) + d + int64(mod)) % int64(mod))
	}
}

// genDist: a distance / size in [0, 2^32), biased to 0, 2^31 and 2^32-1.
func genDist(rt *rapid.T, label string) uint32 {
	switch rapid.IntRange(0, 5).Draw(rt, label+"_kind") {
	case 0:
		return rapid.Uint32().Draw(rt, label)
	case 1:
		return rapid.Uint32Range(0, 4).Draw(rt, label)
	case 2:
		return uint32(int64(half) + rapid.Int64Range(-4, 4).Draw(rt, label))
	case 3:
		return uint32(int64(mod) - rapid.Int64Range(1, 5).Draw(rt, label))
	case 4:
		return rapid.Uint32Range(0, 1<<17).Draw(rt, label)
	default:
		return uint32(int64(half) + rapid.Int64Range(-(1<<17), 1<<17).Draw(rt, label))
	}
}

func add32(v uint32, d int64) uint32 {
	return uint32(((int64(v)+d)%int64(mod) + int64(mod)) % int64(mod))
}

// ---- api-pair -------------------------------------------------------------

func genPair(rt *rapid.T) Case {
	fn := rapid.SampledFrom([]string{"LessThan", "LessThanEq", "Add", "Size", "UpdateForward"}).Draw(rt, "fn")
	v := genValue(rt, "v")
	d := genDist(rt, "d")
	if rapid.Bool().Draw(rt, "land_on_boundary") {
		// choose v so that v+d lands next to a boundary
		b := rapid.SampledFrom(boundaries[:3]).Draw(rt, "target")
		v = add32(uint32(b%mod), -int64(d)+rapid.Int64Range(-2, 2).Draw(rt, "off"))
	}
	c := Case{Fn: fn, V: v}
	switch fn {
	case "Add", "UpdateForward":
		c.S = d
	default:
		c.W = add32(v, int64(d))
		if rapid.Bool().Draw(rt, "swap") {
			c.V, c.W = c.W, c.V
		}
	}
	if (fn == "LessThan" || fn == "LessThanEq") && fwd(c.V, c.W) == half {
		evid.Exclude("LessThan/LessThanEq at distance exactly 2^31 (RFC 1982: undefined)")
		rt.Skip("distance exactly 2^31")
	}
	return c
}

func runCase(sampleClass string) func(c Case) *evid.Failure {
	return func(c Case) *evid.Failure {
		f, inDom := decide(c)
		if !inDom {
			// only reachable from replay / corpus files: generators stay inside the domain
			evid.Exclude("replayed case outside the checked domain: " + c.Fn)
			return nil
		}
		label(c)
		if nonTrivial(c) {
			evid.NonTrivialKey(c.Fn, c.V, c.W, c.X, c.S, c.T)
			if evid.ShardIdx == 0 {
				evid.Sample(sampleClass, map[string]any{"call": c.String(), "case": c})
			}
		}
		return f
	}
}

// label records the class histogram of a generated case (reference side only).
func label(c Case) {
	tf := func(b bool) string {
		if b {
			return "true"
		}
		return "false"
	}
	arc := func(start uint32, length uint64) string { // which boundaries [start, start+length] passes
		end := uint64(start) + length
		z := end >= mod
		h := (uint64(start) < half && end >= half) || end >= mod+half
		switch {
		case z && h:
			return "passes0and2^31"
		case z:
			return "passes0"
		case h:
			return "passes2^31"
		}
		return "passes-none"
	}
	switch c.Fn {
	case "LessThan", "LessThanEq":
		d := fwd(c.V, c.W)
		var want bool
		if c.Fn == "LessThan" {
			want, _ = refLess(c.V, c.W)
		} else {
			want, _ = refLessEq(c.V, c.W)
		}
		short := arc(c.V, d)
		if d > half {
			short = arc(c.W, mod-d)
		}
		evid.Label(c.Fn + "/" + tf(want) + "/short-arc-" + short)
		if d == 0 || d == 1 || d == mask || d == half-1 || d == half+1 {
			evid.Label(c.Fn + "/edge-distance")
		}
	case "Add", "UpdateForward":
		evid.Label(c.Fn + "/" + arc(c.V, uint64(c.S)))
	case "Size":
		evid.Label(c.Fn + "/" + arc(c.V, fwd(c.V, c.W)))
	case "InRange", "InWindow":
		var L uint64
		var want bool
		if c.Fn == "InRange" {
			L, want = fwd(c.W, c.X), refInRange(c.V, c.W, c.X)
		} else {
			L, want = uint64(c.S), refInWindow(c.V, c.W, c.S)
		}
		evid.Label(c.Fn + "/" + tf(want) + "/range-" + arc(c.W, L))
		dv := fwd(c.W, c.V)
		switch {
		case L == 0:
			evid.Label(c.Fn + "/empty-range")
		case dv == 0:
			evid.Label(c.Fn + "/v-is-first")
		case dv == L-1:
			evid.Label(c.Fn + "/v-is-last")
		case dv == L:
			evid.Label(c.Fn + "/v-is-one-past-end")
		case dv == mask:
			evid.Label(c.Fn + "/v-is-one-before-first")
		}
		if L >= half {
			evid.Label(c.Fn + "/range-length>=2^31")
		}
	case "Overlap":
		want, _ := refOverlap(c.V, c.S, c.W, c.T)
		ax, xa := fwd(c.V, c.W), fwd(c.W, c.V)
		// hull start: the window that comes first on the short side
		start, hull := c.V, ax+uint64(c.T)
		if uint64(c.S) > hull {
			hull = uint64(c.S)
		}
		if xa < ax {
			start, hull = c.W, xa+uint64(c.S)
			if uint64(c.T) > hull {
				hull = uint64(c.T)
			}
		}
		evid.Label("Overlap/" + tf(want) + "/hull-" + arc(start, hull))
		switch {
		case ax == uint64(c.S) || xa == uint64(c.T):
			evid.Label("Overlap/touching-not-overlapping")
		case ax+1 == uint64(c.S) || xa+1 == uint64(c.T):
			evid.Label("Overlap/overlap-by-exactly-1")
		case ax == 0 && c.S == c.T:
			evid.Label("Overlap/identical")
		case (ax < uint64(c.S) && ax+uint64(c.T) <= uint64(c.S)) || (xa < uint64(c.T) && xa+uint64(c.S) <= uint64(c.T)):
			evid.Label("Overlap/nested")
		}
		if hull >= half-4 {
			evid.Label("Overlap/hull-within-4-of-2^31")
		}
	}
}

func TestAPIRandomPair(t *testing.T) {
	evid.Run(t, evid.Spec[Case]{Name: checkPair, Gen: genPair, Run: runCase("random-pair")})
}

// ---- api-range ------------------------------------------------------------

func genRange(rt *rapid.T) Case {
	fn := rapid.SampledFrom([]string{"InRange", "InWindow"}).Draw(rt, "fn")
	a := genValue(rt, "a")
	L := genDist(rt, "len")
	switch rapid.IntRange(0, 3).Draw(rt, "place") {
	case 0: // the range end lands next to a boundary
		b := rapid.SampledFrom(boundaries[:3]).Draw(rt, "target")
		a = add32(uint32(b%mod), -int64(L)+rapid.Int64Range(-2, 2).Draw(rt, "off"))
	case 1: // a boundary lies strictly inside the range
		if L >= 2 {
			b := rapid.SampledFrom(boundaries[:3]).Draw(rt, "target")
			a = add32(uint32(b%mod), -rapid.Int64Range(1, int64(L)-1).Draw(rt, "inside"))
		}
	}
	var dv uint32
	switch rapid.IntRange(0, 3).Draw(rt, "vplace") {
	case 0:
		dv = genDist(rt, "dv")
	case 1: // around the end of the range
		dv = add32(L, rapid.Int64Range(-3, 3).Draw(rt, "dv_end"))
	case 2: // around the start of the range
		dv = add32(0, rapid.Int64Range(-3, 3).Draw(rt, "dv_start"))
	default: // v itself next to a boundary
		v := genValue(rt, "v")
		dv = uint32(fwd(a, v))
	}
	c := Case{Fn: fn, V: add32(a, int64(dv)), W: a}
	if fn == "InRange" {
		c.X = add32(a, int64(L))
	} else {
		c.S = L
	}
	return c
}

func TestAPIRandomRange(t *testing.T) {
	evid.Run(t, evid.Spec[Case]{Name: checkRange, Gen: genRange, Run: runCase("random-range")})
}

// ---- api-overlap ----------------------------------------------------------

// genOverlap lays two non-empty windows out inside an arc [p, p+H) with
// H <= 2^31-1 (offsets o1,o2 from p) and then places p so that one of the
// interesting points sits next to 0 / 2^31 / 2^32.
func genOverlap(rt *rapid.T) Case {
	maxH := int64(half) - 1
	var H int64
	switch rapid.IntRange(0, 3).Draw(rt, "hull_kind") {
	case 0:
		H = rapid.Int64Range(1, 16).Draw(rt, "hull")
	case 1:
		H = maxH - rapid.Int64Range(0, 16).Draw(rt, "hull_below_max")
	case 2:
		H = rapid.Int64Range(1, 1<<17).Draw(rt, "hull")
	default:
		H = rapid.Int64Range(1, maxH).Draw(rt, "hull")
	}
	// sz draws a length in [1, max], biased to the ends.
	sz := func(label string, max int64) int64 {
		switch rapid.IntRange(0, 3).Draw(rt, label+"_kind") {
		case 0:
			return rapid.Int64Range(1, min64(max, 4)).Draw(rt, label)
		case 1:
			return max - rapid.Int64Range(0, min64(max-1, 4)).Draw(rt, label)
		default:
			return rapid.Int64Range(1, max).Draw(rt, label)
		}
	}
	// first window: offset o1, length b
	o1 := int64(0)
	if H > 1 && rapid.Bool().Draw(rt, "first_not_at_hull_start") {
		o1 = rapid.Int64Range(0, H-1).Draw(rt, "o1")
	}
	b := sz("b", H-o1)
	// second window relative to the first
	var o2, y int64
	rel := rapid.SampledFrom([]string{"touch-after", "overlap1-after", "touch-before", "overlap1-before",
		"same-start", "nested", "gap-after", "gap-before", "free"}).Draw(rt, "relation")
	fallback := false
	switch rel {
	case "touch-after": // x == a+b
		o2 = o1 + b
		if o2 > H-1 {
			fallback = true
		} else {
			y = sz("y", H-o2)
		}
	case "overlap1-after": // x == a+b-1
		o2 = o1 + b - 1
		y = sz("y", H-o2)
	case "touch-before": // x+y == a
		if o1 < 1 {
			fallback = true
		} else {
			y = sz("y", o1)
			o2 = o1 - y
		}
	case "overlap1-before": // x+y == a+1
		y = sz("y", o1+1)
		o2 = o1 + 1 - y
	case "same-start":
		o2 = o1
		y = sz("y", H-o2)
	case "nested":
		o2 = o1 + rapid.Int64Range(0, b-1).Draw(rt, "nest_off")
		y = sz("y", o1+b-o2)
	case "gap-after":
		if o1+b+1 > H-1 {
			fallback = true
		} else {
			o2 = rapid.Int64Range(o1+b+1, H-1).Draw(rt, "o2")
			y = sz("y", H-o2)
		}
	case "gap-before":
		if o1 < 2 {
			fallback = true
		} else {
			o2 = rapid.Int64Range(0, o1-2).Draw(rt, "o2")
			y = sz("y", o1-1-o2)
		}
	default:
		fallback = true
	}
	if fallback {
		o2 = rapid.Int64Range(0, H-1).Draw(rt, "o2_free")
		y = sz("y_free", H-o2)
	}
	// place p: one of the four end points (or the hull middle) next to a boundary, or anywhere
	var p uint32
	if rapid.IntRange(0, 4).Draw(rt, "p_kind") == 0 {
		p = genValue(rt, "p")
	} else {
		anchor := rapid.SampledFrom([]int64{o1, o1 + b, o2, o2 + y, o1 + b - 1, o2 + y - 1, H / 2}).Draw(rt, "anchor")
		bd := rapid.SampledFrom(boundaries[:3]).Draw(rt, "target")
		p = add32(uint32(bd%mod), -anchor+rapid.Int64Range(-2, 2).Draw(rt, "off"))
	}
	c := Case{Fn: "Overlap", V: add32(p, o1), S: uint32(b), W: add32(p, o2), T: uint32(y)}
	if rapid.Bool().Draw(rt, "swap") {
		c.V, c.S, c.W, c.T = c.W, c.T, c.V, c.S
	}
	if _, dom := refOverlap(c.V, c.S, c.W, c.T); !dom {
		panic(fmt.Sprintf("generator bug: %s outside the domain (H=%d o1=%d b=%d o2=%d y=%d)", c, H, o1, b, o2, y))
	}
	return c
}

func min64(a, b int64) int64 {
	if a < b {
		return a
	}
	return b
}

func TestAPIRandomOverlap(t *testing.T) {
	evid.Run(t, evid.Spec[Case]{Name: checkOverlap, Gen: genOverlap, Run: runCase("random-overlap")})
}

// TestOverlapReferenceSelfCheck compares the unrolled reference for Overlap
// with brute-force set intersection on small windows around the boundaries
// (harness self-test: no repository code involved, nothing counted).
func TestOverlapReferenceSelfCheck(t *testing.T) {
	if evid.ReplayMode() {
		t.Skip()
	}
	for _, bd := range []uint32{0, uint32(half)} {
		for da := int64(-6); da <= 6; da++ {
			for dx := int64(-6); dx <= 6; dx++ {
				for b := uint32(0); b <= 5; b++ {
					for y := uint32(0); y <= 5; y++ {
						a, x := add32(bd, da), add32(bd, dx)
						brute := false
						for i := uint32(0); i < b; i++ {
							for j := uint32(0); j < y; j++ {
								if a+i == x+j { // uint32 wraps: set membership mod 2^32
									brute = true
								}
							}
						}
						got, dom := refOverlap(a, b, x, y)
						if got != brute || dom != (b > 0 && y > 0) {
							t.Fatalf("reference self-check: refOverlap(%#x,%d,%#x,%d)=(%v,%v), brute force %v", a, b, x, y, got, dom, brute)
						}
					}
				}
			}
		}
	}
}
