package c08

import (
	"fmt"
	"testing"

	"verifharness/evid"
)

// blockFrag is the fragment made of blocks i..j of a datagram of `total` bytes.
func blockFrag(d, i, j, total int, split []int) Frag {
	last := 8*(j+1) - 1
	if last > total-1 {
		last = total - 1
	}
	return Frag{D: d, First: 8 * i, Last: last, Split: split}
}

// universe lists every contiguous block range of an n-block datagram: all
// fragments of all cuts, all unions of adjacent fragments and all sub-ranges
// (at the 8-byte granularity fragments have).
func universe(d, n, total int, split []int) []Frag {
	var u []Frag
	for i := 0; i < n; i++ {
		for j := i; j < n; j++ {
			u = append(u, blockFrag(d, i, j, total, split))
		}
	}
	return u
}

type tally struct {
	evals, nt                                             int64
	ooo, dup, overlap, inter, finalFirst, again, lateDups int64
	h0, h1, h2                                            int64
	sampled                                               int
}

func (ta *tally) add(fc facts, st seqStats) {
	ta.evals++
	if fc.nontrivial() {
		ta.nt++
	}
	b := func(x bool, c *int64) {
		if x {
			*c++
		}
	}
	b(fc.outOfOrder, &ta.ooo)
	b(fc.dup, &ta.dup)
	b(fc.overlap, &ta.overlap)
	b(fc.interleave, &ta.inter)
	b(fc.finalFirst, &ta.finalFirst)
	b(st.secondSets > 0, &ta.again)
	b(st.lateDups > 0, &ta.lateDups)
	b(st.handed == 0, &ta.h0)
	b(st.handed == 1, &ta.h1)
	b(st.handed >= 2, &ta.h2)
}

func (ta *tally) flush(name string) {
	evid.Eval(ta.evals)
	evid.DistinctByConstruction(ta.nt)
	evid.LabelN(name+":cases", ta.evals)
	evid.LabelN(name+":out_of_order", ta.ooo)
	evid.LabelN(name+":duplicate", ta.dup)
	evid.LabelN(name+":overlap", ta.overlap)
	evid.LabelN(name+":interleaved", ta.inter)
	evid.LabelN(name+":final_fragment_first", ta.finalFirst)
	evid.LabelN(name+":same_datagram_handed_up_again", ta.again)
	evid.LabelN(name+":arrivals_after_hand_up", ta.lateDups)
	evid.LabelN(name+":handed_up_0", ta.h0)
	evid.LabelN(name+":handed_up_1", ta.h1)
	evid.LabelN(name+":handed_up_2+", ta.h2)
}

// sweep runs every sequence of exactly `length` arrivals over the universe u
// (every shorter sequence is a prefix of one of them, and every arrival of a
// sequence is judged). It is sharded by the first two arrivals.
func sweep(t *testing.T, ta *tally, dg []Dgram, u []Frag, length int, sampleClass string) bool {
	data := contents(dg)
	seq := make([]Frag, length)
	idx := make([]int, length)
	var rec func(pos int) bool
	rec = func(pos int) bool {
		if pos == length {
			f, st := guardedSeq(dg, data, seq)
			fc := classify(dg, seq)
			ta.add(fc, st)
			if f != nil {
				c := Case{Dgrams: dg, Seq: append([]Frag(nil), seq...)}
				if evid.Direct(t, "l1", f, c) {
					return false
				}
			}
			if fc.overlap && fc.outOfOrder && st.handed > 0 && ta.sampled < 2 && ta.evals%9973 == 1 {
				ta.sampled++
				evid.Sample(sampleClass, Case{Dgrams: dg, Seq: append([]Frag(nil), seq...)})
			}
			return true
		}
		for k := range u {
			idx[pos] = k
			if pos == 1 || (length == 1 && pos == 0) {
				first := idx[0]*len(u) + k
				if length == 1 {
					first = k
				}
				if first%evid.NShards != evid.ShardIdx {
					continue
				}
			}
			seq[pos] = u[k]
			if !rec(pos + 1) {
				return false
			}
		}
		return true
	}
	return rec(0)
}

// guardedSeq is execSeq with a panic of the code under test turned into a
// failure of the case (evid.Run does the same for generated cases).
func guardedSeq(dg []Dgram, data [][]byte, seq []Frag) (f *evid.Failure, st seqStats) {
	f = evid.Guard(func() *evid.Failure {
		var g *evid.Failure
		g, st = execSeq(dg, data, seq, "", 0, 0, 0)
		return g
	})
	return f, st
}

type combo struct {
	tail  int   // length of the last block
	split []int // view chunking of every fragment
}

var combos = []combo{{8, nil}, {8, []int{3}}, {5, nil}, {5, []int{3, 6}}}

// TestL1Exhaustive: one datagram of n blocks; every sequence of L arrivals
// drawn (with repetition) from all its block ranges. This contains, for every
// cut of the datagram, every arrival order with duplicates and with agreeing
// overlaps as long as the sequence is not longer than L.
func TestL1Exhaustive(t *testing.T) {
	if evid.ReplayMode() {
		t.Skip("replays of check l1 are hosted by TestL1Random")
	}
	maxN := evid.Pick(4, 5)
	for n := 1; n <= maxN; n++ {
		length := seqLen(n)
		ta := &tally{}
		for _, cb := range combos {
			total := 8*(n-1) + cb.tail
			dg := []Dgram{{ID: 0xc0080000 + uint32(n), Total: total, Seed: uint32(100 + n)}}
			u := universe(0, n, total, cb.split)
			if !sweep(t, ta, dg, u, length, "exhaustive-1-datagram") {
				ta.flush("exh1")
				return
			}
		}
		ta.flush("exh1")
		evid.Exhaustive(fmt.Sprintf("level 1, one datagram of %d block(s) (last block 8 or 5 bytes; fragments as 1 view or chunked): every sequence of <=%d arrivals over all %d contiguous block ranges (all cuts, orders, duplicates, agreeing overlaps)", n, length, n*(n+1)/2))
	}
}

// seqLen is the sequence length swept for an n-block datagram.
func seqLen(n int) int {
	if evid.Thorough() {
		return []int{0, 4, 7, 7, 6, 6}[n]
	}
	return []int{0, 4, 7, 6, 5}[n]
}

// TestL1ExhaustiveCuts: every cut of an n-block datagram, with up to D extra
// copies of its fragments, in every distinct arrival order - the sequences too
// long for TestL1Exhaustive.
func TestL1ExhaustiveCuts(t *testing.T) {
	if evid.ReplayMode() {
		t.Skip("replays of check l1 are hosted by TestL1Random")
	}
	maxN := evid.Pick(4, 5)
	maxDup := evid.Pick(2, 3)
	ta := &tally{}
	caseNo := 0
	for n := 2; n <= maxN; n++ {
		for _, cb := range combos[1:3] {
			total := 8*(n-1) + cb.tail
			dg := []Dgram{{ID: 0xc0081000 + uint32(n), Total: total, Seed: uint32(200 + n)}}
			data := contents(dg)
			for mask := 0; mask < 1<<(n-1); mask++ { // bit b set: cut after block b
				var cut []Frag
				start := 0
				for b := 0; b < n; b++ {
					if b == n-1 || mask&(1<<b) != 0 {
						cut = append(cut, blockFrag(0, start, b, total, cb.split))
						start = b + 1
					}
				}
				k := len(cut)
				// multiplicities: 1 + extra copies, extras summing to <= maxDup
				mult := make([]int, k)
				var multRec func(i, left int) bool
				multRec = func(i, left int) bool {
					if i == k {
						tot := 0
						for _, m := range mult {
							tot += m
						}
						if tot <= seqLen(n) {
							return true // already inside TestL1Exhaustive's sweep
						}
						return permute(t, ta, dg, data, cut, mult, tot, &caseNo)
					}
					for e := 0; e <= left; e++ {
						mult[i] = 1 + e
						if !multRec(i+1, left-e) {
							return false
						}
					}
					return true
				}
				if !multRec(0, maxDup) {
					ta.flush("exhcuts")
					return
				}
			}
		}
	}
	ta.flush("exhcuts")
	evid.Exhaustive(fmt.Sprintf("level 1, one datagram of <=%d blocks: every cut, every multiset with <=%d extra copies of its fragments, every distinct arrival order (sequences longer than the all-ranges sweep)", maxN, maxDup))
}

// permute runs every distinct permutation of the multiset cut^mult.
func permute(t *testing.T, ta *tally, dg []Dgram, data [][]byte, cut []Frag, mult []int, tot int, caseNo *int) bool {
	left := append([]int(nil), mult...)
	seq := make([]Frag, 0, tot)
	var rec func() bool
	rec = func() bool {
		if len(seq) == tot {
			*caseNo++
			if *caseNo%evid.NShards != evid.ShardIdx {
				return true
			}
			f, st := guardedSeq(dg, data, seq)
			fc := classify(dg, seq)
			ta.add(fc, st)
			if f != nil {
				if evid.Direct(t, "l1", f, Case{Dgrams: dg, Seq: append([]Frag(nil), seq...)}) {
					return false
				}
			}
			return true
		}
		for i := range cut {
			if left[i] == 0 {
				continue
			}
			left[i]--
			seq = append(seq, cut[i])
			ok := rec()
			seq = seq[:len(seq)-1]
			left[i]++
			if !ok {
				return false
			}
		}
		return true
	}
	return rec()
}

// TestL1ExhaustiveTwo: two datagrams with different keys; every sequence of L
// arrivals over the block ranges of both (every interleaving, with duplicates
// and overlaps).
func TestL1ExhaustiveTwo(t *testing.T) {
	if evid.ReplayMode() {
		t.Skip("replays of check l1 are hosted by TestL1Random")
	}
	type scope struct{ n, length int }
	scopes := evid.Pick([]scope{{2, 6}, {3, 5}}, []scope{{2, 8}, {3, 6}})
	for _, sc := range scopes {
		ta := &tally{}
		for v := 0; v < 2; v++ {
			t0, t1 := 8*sc.n, 8*(sc.n-1)+5
			var s0, s1 []int
			if v == 1 {
				t0, t1 = t1, t0
				s0 = []int{3}
			}
			// keys that differ in one low bit / only in the upper half
			dg := []Dgram{{ID: 0x00110011, Total: t0, Seed: 301}, {ID: 0x00110010 + uint32(v)*0x10000001, Total: t1, Seed: 302}}
			u := append(universe(0, sc.n, t0, s0), universe(1, sc.n, t1, s1)...)
			if !sweep(t, ta, dg, u, sc.length, "exhaustive-2-datagrams") {
				ta.flush("exh2")
				return
			}
		}
		ta.flush("exh2")
		evid.Exhaustive(fmt.Sprintf("level 1, two datagrams of %d blocks with different keys: every sequence of <=%d arrivals over the block ranges of both (all interleavings)", sc.n, sc.length))
	}
}
