package c08

import (
	"bytes"
	"fmt"
	"testing"

	"github.com/brewlin/net-protocol/pkg/buffer"
	"github.com/brewlin/net-protocol/pkg/waiter"
	tcpip "github.com/brewlin/net-protocol/protocol"
	"github.com/brewlin/net-protocol/protocol/header"
	"github.com/brewlin/net-protocol/protocol/link/channel"
	"github.com/brewlin/net-protocol/protocol/network/hash"
	"github.com/brewlin/net-protocol/protocol/network/ipv4"
	"github.com/brewlin/net-protocol/protocol/transport/udp"
	"github.com/brewlin/net-protocol/stack"
	"pgregory.net/rapid"
	"verifharness/evid"
)

// Level 2: fragments are injected as IPv4 packets into a NIC with the
// repository's channel link endpoint and travel through ipv4.HandlePacket
// (fragment detection, offset/last computation, key function, Process) to UDP
// sockets bound to the NIC's addresses.

var (
	locals  = [][4]byte{{10, 0, 0, 1}, {10, 0, 0, 2}, {10, 1, 0, 1}}
	remotes = [][4]byte{{10, 0, 0, 100}, {10, 0, 0, 101}, {11, 0, 0, 100}, {10, 0, 1, 100}}
)

const (
	l2SPort = 0x1234
	l2DPort = 0x5678
	udpNum  = 17
)

type L2Dgram struct {
	Src   int    `json:"src"` // index into remotes
	Dst   int    `json:"dst"` // index into locals
	Proto uint8  `json:"proto"`
	ID    uint16 `json:"id"`
	Total int    `json:"total"` // UDP header + data (>= 9)
	Seed  uint32 `json:"seed"`
}

type L2Frag struct {
	D        int   `json:"d"`
	First    int   `json:"first"`
	Last     int   `json:"last"`
	Split    []int `json:"split,omitempty"` // chunking of the fragment's payload into views
	Opt      int   `json:"opt,omitempty"`   // IPv4 option words
	Pad      int   `json:"pad,omitempty"`   // link-layer padding after the IP datagram
	HdrAlone bool  `json:"hdr_alone,omitempty"`
	TTL      uint8 `json:"ttl,omitempty"`
	TOS      uint8 `json:"tos,omitempty"`
	// XFlags: further bits of the IPv4 flags field carried by the fragment next to MF:
	// 1 = DF (a source that fragments itself and forbids further fragmentation, RFC 791),
	// 2 = the reserved bit. Neither changes which fragment is the last one.
	XFlags int `json:"xflags,omitempty"`
}

type L2Case struct {
	Dgrams []L2Dgram `json:"dgrams"`
	Seq    []L2Frag  `json:"seq"`
}

// l2Content is the transport-layer datagram: a UDP header followed by the
// seeded content (for the non-UDP protocols the same bytes, never to be seen).
func l2Content(d L2Dgram) []byte {
	b := content(d.Seed, d.Total)
	copy(b, udpHeader(l2SPort, l2DPort, d.Total))
	return b
}

func (f L2Frag) frag() Frag { return Frag{D: f.D, First: f.First, Last: f.Last} }

// packet builds the views of one fragment as a link endpoint would deliver it:
// the IP header at the start of the first view, and (as every link endpoint of
// the repository guarantees) at least the first 8 payload bytes contiguous.
func l2Packet(d L2Dgram, data []byte, f L2Frag) buffer.VectorisedView {
	pl := append([]byte(nil), data[f.First:f.Last+1]...)
	ttl := f.TTL
	if ttl == 0 {
		ttl = 64
	}
	hdr := ipv4Header(remotes[d.Src], locals[d.Dst], d.Proto, d.ID, f.First, f.Last != d.Total-1, ttl, f.TOS, f.Opt, len(pl))
	if f.XFlags&3 != 0 {
		if f.XFlags&1 != 0 {
			hdr[6] |= 0x40
		}
		if f.XFlags&2 != 0 {
			hdr[6] |= 0x80
		}
		hdr[10], hdr[11] = 0, 0
		ck := ^onesSum(hdr)
		hdr[10], hdr[11] = byte(ck>>8), byte(ck)
	}
	parts := chunk(pl, f.Split)
	for len(parts) > 1 && len(parts[0]) < 8 {
		parts = append([][]byte{append(append([]byte(nil), parts[0]...), parts[1]...)}, parts[2:]...)
	}
	var views []buffer.View
	if f.HdrAlone {
		views = append(views, buffer.View(hdr))
	} else {
		parts[0] = append(hdr, parts[0]...)
	}
	for _, p := range parts {
		views = append(views, buffer.View(p))
	}
	if f.Pad > 0 {
		pad := bytes.Repeat([]byte{0xee}, f.Pad)
		if f.Pad%2 == 0 {
			views = append(views, buffer.View(pad))
		} else {
			views[len(views)-1] = append(views[len(views)-1], pad...)
		}
	}
	size := 0
	for _, v := range views {
		size += len(v)
	}
	return buffer.NewVectorisedView(size, views)
}

func validateL2(c L2Case) error {
	for i, d := range c.Dgrams {
		if d.Src < 0 || d.Src >= len(remotes) || d.Dst < 0 || d.Dst >= len(locals) || d.Total < 9 || d.Total > 65000 || d.Proto == 1 {
			return fmt.Errorf("datagram %d out of domain", i)
		}
		for j := 0; j < i; j++ {
			e := c.Dgrams[j]
			if d.Src == e.Src && d.Dst == e.Dst && d.Proto == e.Proto && d.ID == e.ID {
				return fmt.Errorf("datagrams %d and %d are the same datagram", i, j)
			}
			if d.Seed == e.Seed {
				return fmt.Errorf("datagrams %d and %d share the content", i, j)
			}
		}
	}
	for i, f := range c.Seq {
		if f.D < 0 || f.D >= len(c.Dgrams) || f.Opt < 0 || f.Opt > 10 || f.Pad < 0 || f.Pad > 64 {
			return fmt.Errorf("fragment %d out of domain", i)
		}
		if err := consistent(f.frag(), c.Dgrams[f.D].Total); err != nil {
			return err
		}
	}
	return nil
}

var (
	l2Stack *stack.Stack
	l2Link  *channel.Endpoint
)

// l2Setup: the stack and its NIC are kept from case to case (a stack cannot be
// torn down, and its link endpoint stays registered for ever); everything the
// property talks about is fresh in every case: the local addresses are added
// anew, which creates new IPv4 endpoints - each with its own, empty
// Fragmentation - and new sockets are bound.
func l2Setup() (*stack.Stack, *channel.Endpoint, []tcpip.Endpoint, error) {
	if l2Stack == nil {
		l2Stack = stack.New([]string{ipv4.ProtocolName}, []string{udp.ProtocolName}, stack.Options{})
		var linkID tcpip.LinkEndpointID
		linkID, l2Link = channel.New(4, 65536, "")
		if err := l2Stack.CreateNIC(1, linkID); err != nil {
			return nil, nil, nil, fmt.Errorf("CreateNIC: %v", err)
		}
		l2Stack.SetRouteTable([]tcpip.Route{{Destination: "\x00\x00\x00\x00", Mask: "\x00\x00\x00\x00", NIC: 1}})
	}
	s := l2Stack
	var socks []tcpip.Endpoint
	for i, a := range locals {
		addr := tcpip.Address(a[:])
		if err := s.AddAddress(1, ipv4.ProtocolNumber, addr); err != nil {
			l2Teardown(s, socks, i)
			return nil, nil, nil, fmt.Errorf("AddAddress: %v", err)
		}
		ep, err := s.NewEndpoint(udp.ProtocolNumber, ipv4.ProtocolNumber, &waiter.Queue{})
		if err != nil {
			l2Teardown(s, socks, i+1)
			return nil, nil, nil, fmt.Errorf("NewEndpoint: %v", err)
		}
		socks = append(socks, ep)
		if err := ep.Bind(tcpip.FullAddress{NIC: 1, Addr: addr, Port: l2DPort}, nil); err != nil {
			l2Teardown(s, socks, i+1)
			return nil, nil, nil, fmt.Errorf("Bind: %v", err)
		}
	}
	return s, l2Link, socks, nil
}

func l2Teardown(s *stack.Stack, socks []tcpip.Endpoint, addrs int) {
	for _, ep := range socks {
		ep.Close()
	}
	for i := 0; i < addrs; i++ {
		s.RemoveAddress(1, tcpip.Address(locals[i][:])) // closes the IPv4 endpoint (and its echo goroutine)
	}
}

type l2Read struct {
	sock   int
	data   []byte
	sender tcpip.FullAddress
}

func runL2(c L2Case) *evid.Failure {
	if validateL2(c) != nil {
		evid.Label("invalid_case_skipped")
		return nil
	}
	s, link, socks, err := l2Setup()
	if err != nil {
		// a previous case died inside the stack (a panic in HandlePacket leaves
		// the NIC's reference to the IPv4 endpoint behind): start from a new stack
		l2Stack = nil
		if s, link, socks, err = l2Setup(); err != nil {
			return evid.Failf("l2-harness", "%v", err)
		}
	}
	defer l2Teardown(s, socks, len(locals))

	data := make([][]byte, len(c.Dgrams))
	ms := make([]*dmodel, len(c.Dgrams))
	for i, d := range c.Dgrams {
		data[i] = l2Content(d)
		ms[i] = newDModel(d.Total)
	}
	drain := func() []l2Read {
		var out []l2Read
		for i, ep := range socks {
			for {
				var from tcpip.FullAddress
				v, _, err := ep.Read(&from)
				if err != nil {
					break
				}
				out = append(out, l2Read{i, append([]byte(nil), v...), from})
			}
		}
		return out
	}
	var st seqStats
	for step, f := range c.Seq {
		d := c.Dgrams[f.D]
		m := ms[f.D]
		if m.deliveries > 0 {
			st.lateDups++
		}
		m.arrive(f.frag())
		link.Inject(ipv4.ProtocolNumber, l2Packet(d, data[f.D], f))
		reads := drain()
		where := fmt.Sprintf("step %d (datagram %d %v->%v proto %d id %#x, fragment [%d,%d] more=%v)", step, f.D,
			remotes[d.Src], locals[d.Dst], d.Proto, d.ID, f.First, f.Last, f.Last != d.Total-1)
		describe := func(r l2Read) string {
			return fmt.Sprintf("socket %v got %d bytes %s from %v:%d; %s", locals[r.sock], len(r.data), hexHead(r.data), []byte(r.sender.Addr), r.sender.Port, l2Blame(r.data, data))
		}
		if d.Proto != udpNum && len(reads) > 0 {
			return evid.Failf("l2-foreign", "%s: a fragment of a non-UDP datagram made a UDP socket readable: %s", where, describe(reads[0]))
		}
		if len(reads) > 1 {
			return evid.Failf("l2-multiple", "%s: one arrival handed up %d datagrams: %s | %s", where, len(reads), describe(reads[0]), describe(reads[1]))
		}
		handed := len(reads) == 1
		exact := false
		if handed {
			r := reads[0]
			exact = r.sock == d.Dst && bytes.Equal(r.data, data[f.D][8:]) &&
				r.sender.Addr == tcpip.Address(remotes[d.Src][:]) && r.sender.Port == l2SPort
			st.handed++
			if m.deliveries > 0 {
				st.secondSets++
			}
		}
		if sig, msg := m.judge(handed, exact, rules{live: d.Proto == udpNum}); sig != "" {
			detail := ""
			if handed {
				detail = "; " + describe(reads[0]) + fmt.Sprintf("; want %d bytes %s on socket %v", len(data[f.D])-8, hexHead(data[f.D][8:]), locals[d.Dst])
			}
			return evid.Failf("l2-"+sig, "%s: %s%s", where, msg, detail)
		}
	}
	// classification
	dg := make([]Dgram, len(c.Dgrams))
	seq := make([]Frag, len(c.Seq))
	for i, d := range c.Dgrams {
		dg[i] = Dgram{Total: d.Total}
	}
	opt, pad := false, false
	for i, f := range c.Seq {
		seq[i] = f.frag()
		opt = opt || f.Opt > 0
		pad = pad || f.Pad > 0
	}
	fc := classify(dg, seq)
	if fc.nontrivial() {
		evid.NonTrivialKey("l2", fmt.Sprint(c.Dgrams), fmt.Sprint(c.Seq))
	}
	labelFacts("l2", len(dg), len(seq), fc, st)
	if opt {
		evid.Label("l2:ip_options")
	}
	if pad {
		evid.Label("l2:link_padding")
	}
	for i := 1; i < len(c.Dgrams); i++ {
		a, b := c.Dgrams[0], c.Dgrams[i]
		switch {
		case a.Src != b.Src && a.Dst == b.Dst && a.Proto == b.Proto && a.ID == b.ID:
			evid.Label("l2:differ_only_in_source")
		case a.Src == b.Src && a.Dst != b.Dst && a.Proto == b.Proto && a.ID == b.ID:
			evid.Label("l2:differ_only_in_destination")
		case a.Src == b.Src && a.Dst == b.Dst && a.Proto != b.Proto && a.ID == b.ID:
			evid.Label("l2:differ_only_in_protocol")
		case a.Src == b.Src && a.Dst == b.Dst && a.Proto == b.Proto && a.ID != b.ID:
			evid.Label("l2:differ_only_in_identification")
		}
	}
	if fc.interleave && len(c.Dgrams) > 1 {
		evid.Sample("l2/interleaved", c)
	}
	return nil
}

func l2Blame(got []byte, data [][]byte) string {
	s := "blocks:"
	for off := 0; off < len(got) && off < 8*24; off += 8 {
		end := off + 8
		if end > len(got) {
			end = len(got)
		}
		who := "?"
	search:
		for d := range data {
			for o := 0; o+(end-off) <= len(data[d]); o += 8 {
				if bytes.Equal(got[off:end], data[d][o:o+(end-off)]) {
					who = fmt.Sprintf("d%d@%d", d, o)
					break search
				}
			}
		}
		s += " " + who
	}
	return s
}

func genL2(rt *rapid.T) L2Case {
	n := rapid.SampledFrom([]int{1, 2, 2, 2, 3, 4}).Draw(rt, "ndatagrams")
	base := L2Dgram{
		Src:   rapid.IntRange(0, len(remotes)-1).Draw(rt, "src"),
		Dst:   rapid.IntRange(0, len(locals)-1).Draw(rt, "dst"),
		Proto: udpNum,
		ID:    rapid.OneOf(rapid.Uint16(), rapid.SampledFrom([]uint16{0, 1, 0xffff, 17, 6})).Draw(rt, "id"),
		Seed:  1,
	}
	total := rapid.OneOf(rapid.IntRange(9, 48), rapid.IntRange(9, 600), rapid.IntRange(9, 4000), rapid.SampledFrom([]int{16, 17, 24, 1480, 2968, 20000, 32776, 40000, 65000})).Draw(rt, "total")
	base.Total = total
	dgs := []L2Dgram{base}
	for len(dgs) < n {
		d := dgs[rapid.IntRange(0, len(dgs)-1).Draw(rt, "from")]
		if len(dgs) == 1 || rapid.IntRange(0, 2).Draw(rt, "frombase") > 0 {
			d = base
		}
		switch rapid.SampledFrom([]string{"src", "dst", "proto", "id"}).Draw(rt, "field") {
		case "src":
			d.Src = (d.Src + rapid.IntRange(1, len(remotes)-1).Draw(rt, "dsrc")) % len(remotes)
		case "dst":
			d.Dst = (d.Dst + rapid.IntRange(1, len(locals)-1).Draw(rt, "ddst")) % len(locals)
		case "proto":
			if d.Proto == udpNum {
				d.Proto = rapid.SampledFrom([]uint8{6, 253, 16, 145}).Draw(rt, "proto")
			} else {
				d.Proto = udpNum
			}
		case "id":
			switch rapid.IntRange(0, 2).Draw(rt, "idkind") {
			case 0:
				d.ID++
			case 1:
				d.ID ^= 1 << uint(rapid.IntRange(0, 15).Draw(rt, "idbit"))
			default:
				d.ID = d.ID<<8 | d.ID>>8
			}
		}
		d.Seed = uint32(len(dgs) + 1)
		if rapid.IntRange(0, 2).Draw(rt, "othersize") == 0 {
			d.Total = rapid.IntRange(9, 600).Draw(rt, "total2")
		}
		same := false
		for _, e := range dgs {
			same = same || (d.Src == e.Src && d.Dst == e.Dst && d.Proto == e.Proto && d.ID == e.ID)
		}
		if !same {
			dgs = append(dgs, d)
		}
	}
	// arrivals: like level 1; datagrams of equal size often share the cut, so
	// that a mixed-up reassembly has a plausible length
	lists := make([][]Frag, len(dgs))
	for i, d := range dgs {
		if i > 0 && d.Total == dgs[0].Total && rapid.Bool().Draw(rt, "samecut") {
			perm := rapid.Permutation(lists[0]).Draw(rt, "perm")
			for _, f := range perm {
				f.D = i
				lists[i] = append(lists[i], f)
			}
			continue
		}
		lists[i] = genFrags(rt, i, d.Total, true)
	}
	var c L2Case
	c.Dgrams = dgs
	for _, f := range merge(rt, lists) {
		lf := L2Frag{D: f.D, First: f.First, Last: f.Last, Split: f.Split}
		if rapid.IntRange(0, 5).Draw(rt, "hasopt") == 0 {
			lf.Opt = rapid.IntRange(1, 10).Draw(rt, "opt")
		}
		if rapid.IntRange(0, 4).Draw(rt, "haspad") == 0 {
			lf.Pad = rapid.IntRange(1, 40).Draw(rt, "pad")
		}
		lf.HdrAlone = rapid.IntRange(0, 3).Draw(rt, "hdralone") == 0
		if rapid.IntRange(0, 3).Draw(rt, "ttltos") == 0 {
			lf.TTL = uint8(rapid.IntRange(1, 255).Draw(rt, "ttl"))
			lf.TOS = uint8(rapid.IntRange(0, 255).Draw(rt, "tos"))
			lf.XFlags = rapid.SampledFrom([]int{0, 0, 1, 1, 2, 3}).Draw(rt, "xflags")
		}
		c.Seq = append(c.Seq, lf)
	}
	return c
}

// TestL2Stack hosts check "l2".
func TestL2Stack(t *testing.T) {
	evid.Run(t, evid.Spec[L2Case]{Name: "l2", Gen: genL2, Run: runL2})
}

// ---------------------------------------------------------------------------
// Key function + Process: the IPv4 endpoint keeps one Fragmentation per local
// address, so at level 2 two datagrams that differ only in the destination can
// never meet in one reassembly queue whatever the key function does. This
// check therefore feeds the keys hash.IPv4FragmentHash computes for headers
// differing in exactly one field (one bit of it) into ONE Fragmentation and
// applies the level-1 oracle to the interleaved arrivals.

type KeyDgram struct {
	Src   [4]byte `json:"src"`
	Dst   [4]byte `json:"dst"`
	Proto uint8   `json:"proto"`
	ID    uint16  `json:"id"`
	Total int     `json:"total"`
}

type KeyCase struct {
	Dgrams []KeyDgram `json:"dgrams"`
	Seq    []Frag     `json:"seq"`
}

func runKey(c KeyCase) *evid.Failure {
	dg := make([]Dgram, len(c.Dgrams))
	for i, d := range c.Dgrams {
		for j := 0; j < i; j++ {
			if d.Src == c.Dgrams[j].Src && d.Dst == c.Dgrams[j].Dst && d.Proto == c.Dgrams[j].Proto && d.ID == c.Dgrams[j].ID {
				evid.Label("invalid_case_skipped")
				return nil
			}
		}
		if d.Total < 1 || d.Total > 65535 {
			evid.Label("invalid_case_skipped")
			return nil
		}
		h := ipv4Header(d.Src, d.Dst, d.Proto, d.ID, 0, true, 64, 0, 0, 8)
		dg[i] = Dgram{ID: hash.IPv4FragmentHash(header.IPv4(h)), Total: d.Total, Seed: uint32(i + 1)}
	}
	for _, f := range c.Seq {
		if f.D < 0 || f.D >= len(dg) || consistent(f, dg[f.D].Total) != nil {
			evid.Label("invalid_case_skipped")
			return nil
		}
	}
	f, st := execSeq(dg, contents(dg), c.Seq, "", 0, 0, 0)
	if f != nil {
		keys := ""
		for i, d := range c.Dgrams {
			keys += fmt.Sprintf(" d%d{%v->%v proto %d id %#x}=key %#x", i, d.Src, d.Dst, d.Proto, d.ID, dg[i].ID)
		}
		return evid.Failf("key-"+f.Sig, "%s; keys:%s", f.Msg, keys)
	}
	fc := classify(dg, c.Seq)
	evid.NonTrivialKey("key", fmt.Sprint(c.Dgrams), fmt.Sprint(c.Seq))
	labelFacts("key", len(dg), len(c.Seq), fc, st)
	a, b := c.Dgrams[0], c.Dgrams[len(c.Dgrams)-1]
	switch {
	case a.Src != b.Src:
		evid.Label("key:differ_in_source")
	case a.Dst != b.Dst:
		evid.Label("key:differ_in_destination")
	case a.Proto != b.Proto:
		evid.Label("key:differ_in_protocol")
	case a.ID != b.ID:
		evid.Label("key:differ_in_identification")
	}
	evid.Sample("key", c)
	return nil
}

func genKey(rt *rapid.T) KeyCase {
	quad := func(name string) [4]byte {
		var a [4]byte
		v := rapid.Uint32().Draw(rt, name)
		a[0], a[1], a[2], a[3] = byte(v>>24), byte(v>>16), byte(v>>8), byte(v)
		return a
	}
	base := KeyDgram{Src: quad("src"), Dst: quad("dst"), Proto: rapid.SampledFrom([]uint8{17, 6, 1, 0, 255}).Draw(rt, "proto"), ID: rapid.Uint16().Draw(rt, "id")}
	nb := rapid.IntRange(2, 6).Draw(rt, "blocks")
	base.Total = 8*(nb-1) + rapid.IntRange(1, 8).Draw(rt, "tail")
	other := base
	switch rapid.SampledFrom([]string{"src", "dst", "proto", "id"}).Draw(rt, "field") {
	case "src":
		bit := rapid.IntRange(0, 31).Draw(rt, "bit")
		other.Src[bit/8] ^= 1 << uint(bit%8)
	case "dst":
		bit := rapid.IntRange(0, 31).Draw(rt, "bit")
		other.Dst[bit/8] ^= 1 << uint(bit%8)
	case "proto":
		other.Proto ^= 1 << uint(rapid.IntRange(0, 7).Draw(rt, "bit"))
	case "id":
		other.ID ^= 1 << uint(rapid.IntRange(0, 15).Draw(rt, "bit"))
	}
	// both datagrams are cut alike and their fragments alternate, so that a
	// shared reassembly queue cannot go unnoticed
	cut := cutFrags(0, nb, base.Total, genCut(rt, nb, 6))
	if len(cut) < 2 {
		cut = cutFrags(0, nb, base.Total, []int{0})
	}
	l0 := rapid.Permutation(cut).Draw(rt, "perm0")
	l1 := rapid.Permutation(cut).Draw(rt, "perm1")
	for i := range l1 {
		l1[i].D = 1
	}
	var seq []Frag
	for i := range l0 {
		seq = append(seq, l0[i], l1[i])
	}
	return KeyCase{Dgrams: []KeyDgram{base, other}, Seq: seq}
}

// TestL2Key hosts check "l2key".
func TestL2Key(t *testing.T) {
	evid.Run(t, evid.Spec[KeyCase]{Name: "l2key", Gen: genKey, Run: runKey})
}
