// Package c08 checks property C08: IPv4 reassembly returns exactly the original
// datagram.
//
// This file is the reference side: how cases are described, what a consistent
// fragment is, the content every datagram carries, and the model that decides
// - from the property statement alone - at which arrivals a datagram may, must
// or must not be handed up. Nothing in here calls the repository.
package c08

import (
	"fmt"
)

// Dgram is one original datagram (the payload of the IP datagram, i.e. what the
// transport layer is to receive).
type Dgram struct {
	ID    uint32 `json:"id"`    // reassembly key given to Process (level 1) / IPv4 identification (level 2)
	Total int    `json:"total"` // length in bytes
	Seed  uint32 `json:"seed"`  // content seed: byte i is content(Seed, i)
}

// Frag is one arriving fragment of datagram D: bytes [First, Last] of it.
// MF is derived: more = Last != Total-1.
type Frag struct {
	D     int   `json:"d"`
	First int   `json:"first"`
	Last  int   `json:"last"`
	Split []int `json:"split,omitempty"` // lengths of the leading views the fragment's bytes are chunked into (rest: one view)
}

// mix is splitmix64's finaliser.
func mix(x uint64) uint64 {
	x += 0x9e3779b97f4a7c15
	x = (x ^ (x >> 30)) * 0xbf58476d1ce4e5b9
	x = (x ^ (x >> 27)) * 0x94d049bb133111eb
	return x ^ (x >> 31)
}

// content returns the bytes of a datagram. Different seeds give streams that
// differ in (almost) every 8-byte block, and within one datagram every block
// differs from every other, so a block taken from the wrong place or from the
// wrong datagram cannot go unnoticed.
func content(seed uint32, total int) []byte {
	b := make([]byte, total)
	for i := 0; i < total; i += 8 {
		w := mix(uint64(seed)<<32 | uint64(i/8))
		for k := 0; k < 8 && i+k < total; k++ {
			b[i+k] = byte(w >> (8 * k))
		}
	}
	return b
}

// consistent reports whether f is a fragment a correct sender could have cut
// from a datagram of the given length: non-empty, starting on an 8-byte
// boundary, inside the datagram, non-final fragments a multiple of 8 long, no
// 16-bit overflow of the last-byte offset.
func consistent(f Frag, total int) error {
	switch {
	case total < 1 || total > 65535:
		return fmt.Errorf("total %d out of range", total)
	case f.First < 0 || f.First%8 != 0:
		return fmt.Errorf("first %d not on an 8-byte boundary", f.First)
	case f.Last < f.First:
		return fmt.Errorf("empty fragment [%d,%d]", f.First, f.Last)
	case f.Last > total-1:
		return fmt.Errorf("fragment [%d,%d] beyond datagram of %d bytes", f.First, f.Last, total)
	case f.Last != total-1 && (f.Last+1)%8 != 0:
		return fmt.Errorf("non-final fragment [%d,%d] not a multiple of 8 long", f.First, f.Last)
	case f.Last > 0xfffe:
		return fmt.Errorf("last %d overflows", f.Last)
	}
	return nil
}

// chunk cuts b (already a private copy) into views according to split.
func chunk(b []byte, split []int) [][]byte {
	var out [][]byte
	for _, n := range split {
		if n <= 0 || n >= len(b) {
			continue
		}
		out = append(out, b[:n:n])
		b = b[n:]
	}
	return append(out, b)
}

// dmodel is what the property statement lets us know about one datagram while
// its fragments arrive one after the other.
type dmodel struct {
	total      int
	nblocks    int
	cum        []bool // blocks covered by anything received so far
	cumFinal   bool   // a fragment with MF=0 received so far
	cur        []bool // same, counting only arrivals after the last hand-up
	curFinal   bool
	wasCum     bool  // the cumulative set was complete before the current arrival
	cover      []int // how many arrivals covered each block (a hand-up needs one of each)
	deliveries int
	arrivals   int
}

func newDModel(total int) *dmodel {
	n := (total + 7) / 8
	return &dmodel{total: total, nblocks: n, cum: make([]bool, n), cur: make([]bool, n), cover: make([]int, n)}
}

func full(cov []bool, final bool) bool {
	if !final {
		return false
	}
	for _, c := range cov {
		if !c {
			return false
		}
	}
	return true
}

// arrive records a fragment. Because fragments are consistent, a fragment
// covers whole 8-byte blocks (the last block of the datagram may be short, and
// exactly the fragments with MF=0 cover it).
func (m *dmodel) arrive(f Frag) {
	m.wasCum = full(m.cum, m.cumFinal)
	for b := f.First / 8; b <= f.Last/8; b++ {
		m.cum[b], m.cur[b] = true, true
		m.cover[b]++
	}
	if f.Last == m.total-1 {
		m.cumFinal, m.curFinal = true, true
	}
	m.arrivals++
}

// Verdict flags for judge.
type rules struct {
	live bool // the arrival that first completes the cumulative set must hand the datagram up
}

// judge decides one arrival of a sequential (single goroutine) delivery:
// handed says whether the implementation handed the datagram up at this
// arrival, exact whether the bytes were the original's.
//
//   - "only once a complete set (including the last fragment) has been
//     received": a hand-up needs the arrivals so far to cover [0,total) and to
//     include an MF=0 fragment;
//   - "byte-for-byte the original";
//   - one hand-up per complete set: the number of hand-ups never exceeds the
//     number of disjoint complete sets the arrivals so far can contain
//     (maxSets), so a single set is handed up exactly once and a late
//     duplicate alone never causes another hand-up;
//   - (live) every prefix of a history is a history: the arrival that first
//     completes the set must hand the datagram up.
func (m *dmodel) judge(handed, exact bool, r rules) (sig, msg string) {
	cumOK := full(m.cum, m.cumFinal)
	if handed {
		m.deliveries++
		switch {
		case !cumOK:
			return "premature", "handed up before a complete set (covering [0,total) and including the MF=0 fragment) was received"
		case !exact:
			return "wrong-bytes", "handed-up payload differs from the original datagram"
		case m.deliveries > m.maxSets():
			return "redelivery", fmt.Sprintf("hand-up number %d although the arrivals so far contain at most %d disjoint complete set(s)", m.deliveries, m.maxSets())
		}
		for i := range m.cur {
			m.cur[i] = false
		}
		m.curFinal = false
		return "", ""
	}
	if r.live && cumOK && !m.wasCum {
		return "missing", "the set became complete (all bytes covered, MF=0 fragment received) but nothing was handed up"
	}
	return "", ""
}

// maxSets is an upper bound on how many disjoint complete sets the arrivals so
// far contain: every complete set needs its own fragment over every block.
func (m *dmodel) maxSets() int {
	min := -1
	for _, c := range m.cover {
		if min < 0 || c < min {
			min = c
		}
	}
	if min < 0 {
		return 0
	}
	return min
}

// classify computes the non-triviality facts of a sequence (see plan.json).
type facts struct {
	outOfOrder bool // >=3 fragments of one datagram not in offset order
	dup        bool // an identical fragment arrived twice
	overlap    bool // two different fragments of one datagram share bytes
	interleave bool // fragments of >=2 datagrams alternate
	finalFirst bool // some datagram's first arrival carried MF=0 while others were outstanding
}

func classify(dg []Dgram, seq []Frag) facts {
	var fc facts
	per := make([][]Frag, len(dg))
	switches := 0
	for i, f := range seq {
		per[f.D] = append(per[f.D], f)
		if i > 0 && seq[i-1].D != f.D {
			switches++
		}
	}
	fc.interleave = switches >= 2
	for d, fs := range per {
		if len(fs) >= 3 {
			for i := 1; i < len(fs); i++ {
				if fs[i].First < fs[i-1].First {
					fc.outOfOrder = true
				}
			}
		}
		if len(fs) > 1 && fs[0].Last == dg[d].Total-1 && fs[0].First > 0 {
			fc.finalFirst = true
		}
		for i := range fs {
			for j := 0; j < i; j++ {
				if fs[i].First == fs[j].First && fs[i].Last == fs[j].Last {
					fc.dup = true
				} else if fs[i].First <= fs[j].Last && fs[j].First <= fs[i].Last {
					fc.overlap = true
				}
			}
		}
	}
	return fc
}

func (fc facts) nontrivial() bool {
	return fc.outOfOrder || fc.dup || fc.overlap || fc.interleave
}
