package c08

import (
	"bytes"
	"fmt"
	"time"

	"github.com/brewlin/net-protocol/pkg/buffer"
	"github.com/brewlin/net-protocol/protocol/network/fragmentation"
	"verifharness/evid"
)

// Case is one level-1 history: fragments handed to Fragmentation.Process one
// after the other from a single goroutine.
type Case struct {
	Dgrams []Dgram `json:"dgrams"`
	Seq    []Frag  `json:"seq"`
	// Mode: "" (1 h timeout, default memory limits: everything the statement
	// promises is demanded), "pressure" (tiny memory limits High/Low: only
	// "nothing wrong is handed up" is demanded), "expire" (1 ms timeout and a
	// 5 ms pause before Seq[SleepAt]: nothing may be handed up unless the
	// arrivals after the pause are a complete set by themselves), "keep" (the
	// same schedule with a 1 h timeout: the pause changes nothing).
	Mode    string `json:"mode,omitempty"`
	High    int    `json:"high,omitempty"`
	Low     int    `json:"low,omitempty"`
	SleepAt int    `json:"sleep_at,omitempty"`
}

const (
	defHigh = 4 << 20 // the limits the IPv4 endpoint uses
	defLow  = 3 << 20
)

// validate returns a reason if the case is outside the generated domain
// (possible only for hand-written replay files).
func validate(dg []Dgram, seq []Frag) error {
	for i := range dg {
		for j := 0; j < i; j++ {
			if dg[i].ID == dg[j].ID && !reuseOK(dg, seq, j, i) {
				return fmt.Errorf("datagrams %d and %d share the key", i, j)
			}
			if dg[i].Seed == dg[j].Seed {
				return fmt.Errorf("datagrams %d and %d share the content seed", i, j)
			}
		}
	}
	for i, f := range seq {
		if f.D < 0 || f.D >= len(dg) {
			return fmt.Errorf("fragment %d: no datagram %d", i, f.D)
		}
		if err := consistent(f, dg[f.D].Total); err != nil {
			return fmt.Errorf("fragment %d: %v", i, err)
		}
	}
	return nil
}

// reuseOK: a later datagram may reuse the key of an earlier one (the 16-bit
// identification wraps around) if the earlier one is over and done with: each
// of its fragments arrived exactly once, they form a complete set, and all of
// them arrived before the first fragment of the later datagram. Then nothing of
// the earlier datagram can be left in a reassembly queue.
func reuseOK(dg []Dgram, seq []Frag, early, late int) bool {
	m := newDModel(dg[early].Total)
	seenLate := false
	for _, f := range seq {
		switch f.D {
		case late:
			seenLate = true
		case early:
			if seenLate || f.D < 0 || consistent(f, dg[early].Total) != nil {
				return false
			}
			m.arrive(f)
		}
	}
	for _, c := range m.cover {
		if c != 1 {
			return false
		}
	}
	return m.cumFinal
}

func mkVV(data []byte, f Frag) buffer.VectorisedView {
	// every fragment gets its own copy: the reassembler keeps references to the
	// views it is given (as HandlePacket's caller hands over ownership too)
	own := append([]byte(nil), data[f.First:f.Last+1]...)
	parts := chunk(own, f.Split)
	views := make([]buffer.View, len(parts))
	for i, p := range parts {
		views[i] = buffer.View(p)
	}
	return buffer.NewVectorisedView(len(own), views)
}

type seqStats struct {
	handed     int
	secondSets int // hand-ups after the first of the same datagram
	lateDups   int // arrivals for a datagram that was already handed up
}

// execSeq runs one sequential history against a fresh Fragmentation and judges
// every arrival.
func execSeq(dg []Dgram, data [][]byte, seq []Frag, mode string, high, low, sleepAt int) (*evid.Failure, seqStats) {
	var st seqStats
	timeout := time.Hour
	r := rules{live: true}
	switch mode {
	case "":
		high, low = defHigh, defLow
	case "keep":
		high, low = defHigh, defLow
	case "expire":
		high, low = defHigh, defLow
		timeout = time.Millisecond
		r.live = false
	case "pressure":
		r.live = false
	}
	fr := fragmentation.NewFragmentation(high, low, timeout)
	ms := make([]*dmodel, len(dg))
	fresh := make([]*dmodel, len(dg)) // expire mode: the arrivals after the pause only
	for i := range dg {
		ms[i] = newDModel(dg[i].Total)
		fresh[i] = newDModel(dg[i].Total)
	}
	for step, f := range seq {
		if (mode == "expire" || mode == "keep") && step == sleepAt {
			time.Sleep(5 * time.Millisecond)
		}
		d := dg[f.D]
		m := ms[f.D]
		if m.deliveries > 0 {
			st.lateDups++
		}
		m.arrive(f)
		if step >= sleepAt {
			fresh[f.D].arrive(f)
		}
		res, done := fr.Process(d.ID, uint16(f.First), uint16(f.Last), f.Last != d.Total-1, mkVV(data[f.D], f))
		exact := false
		var got []byte
		if done {
			got = res.ToView()
			exact = res.Size() == len(got) && bytes.Equal(got, data[f.D])
			st.handed++
			if m.deliveries > 0 {
				st.secondSets++
			}
		}
		sig, msg := m.judge(done, exact, r)
		if sig == "" && mode == "expire" {
			// Everything before the pause is older than the timeout when anything
			// after it arrives (load can only lengthen the pause). So a hand-up
			// needs a complete set among the arrivals after the pause alone; and a
			// fragment that is a complete datagram by itself must be handed up
			// whatever happened before (this needs no second arrival in time, so
			// it is load-proof too).
			whole := f.First == 0 && f.Last == d.Total-1
			switch {
			case done && !full(fresh[f.D].cum, fresh[f.D].cumFinal):
				sig, msg = "stale-combined", "fragments older than the reassembly timeout (1 ms, 5 ms pause) were combined with newer ones"
			case !done && whole:
				sig, msg = "missing", "a fragment that is the complete datagram arrived (after stale fragments had expired) and nothing was handed up"
			}
		}
		if sig != "" {
			detail := ""
			if done && !exact {
				detail = fmt.Sprintf("; got %d bytes %s want %d bytes %s; %s", len(got), hexHead(got), len(data[f.D]), hexHead(data[f.D]), blame(got, dg, data))
			}
			return evid.Failf("l1-"+sig, "step %d (datagram %d id %#x, fragment [%d,%d] more=%v): %s%s", step, f.D, d.ID, f.First, f.Last, f.Last != d.Total-1, msg, detail), st
		}
	}
	return nil, st
}

func hexHead(b []byte) string {
	if len(b) > 48 {
		return fmt.Sprintf("%x…", b[:48])
	}
	return fmt.Sprintf("%x", b)
}

// blame says, block by block, where the handed-up bytes come from.
func blame(got []byte, dg []Dgram, data [][]byte) string {
	s := "blocks:"
	for off := 0; off < len(got) && off < 8*24; off += 8 {
		end := off + 8
		if end > len(got) {
			end = len(got)
		}
		who := "?"
	search:
		for d := range dg {
			for o := 0; o < len(data[d]); o += 8 {
				e := o + (end - off)
				if e <= len(data[d]) && bytes.Equal(got[off:end], data[d][o:e]) {
					who = fmt.Sprintf("d%d@%d", d, o)
					break search
				}
			}
		}
		s += " " + who
	}
	return s
}

func contents(dg []Dgram) [][]byte {
	out := make([][]byte, len(dg))
	for i, d := range dg {
		out[i] = content(d.Seed, d.Total)
	}
	return out
}

// runCase is the Spec runner of all sequential level-1 checks.
func runCase(c Case) *evid.Failure {
	if err := validate(c.Dgrams, c.Seq); err != nil {
		evid.Label("invalid_case_skipped")
		return nil
	}
	if c.Mode != "" && keyReused(c.Dgrams) {
		// with evictions or an expired timeout the earlier datagram may leave
		// fragments behind, which the later one would rightly be combined with
		evid.Label("invalid_case_skipped")
		return nil
	}
	if c.Mode == "expire" || c.Mode == "keep" {
		if c.SleepAt <= 0 || c.SleepAt >= len(c.Seq) || !firstPartIncomplete(c) {
			evid.Label("invalid_case_skipped")
			return nil
		}
	}
	f, st := execSeq(c.Dgrams, contents(c.Dgrams), c.Seq, c.Mode, c.High, c.Low, c.SleepAt)
	fc := classify(c.Dgrams, c.Seq)
	record(c, fc, st)
	return f
}

// firstPartIncomplete: the arrivals before the pause contain no complete set
// of any datagram (whether a complete set arriving within the 1 ms timeout is
// handed up would depend on the machine's load).
func firstPartIncomplete(c Case) bool {
	ms := make([]*dmodel, len(c.Dgrams))
	for i := range ms {
		ms[i] = newDModel(c.Dgrams[i].Total)
	}
	for _, f := range c.Seq[:c.SleepAt] {
		ms[f.D].arrive(f)
	}
	for _, m := range ms {
		if full(m.cum, m.cumFinal) {
			return false
		}
	}
	return true
}

func keyReused(dg []Dgram) bool {
	for i := range dg {
		for j := 0; j < i; j++ {
			if dg[i].ID == dg[j].ID {
				return true
			}
		}
	}
	return false
}

func record(c Case, fc facts, st seqStats) {
	name := "l1"
	if c.Mode != "" {
		name = "l1-" + c.Mode
	}
	if keyReused(c.Dgrams) {
		evid.Label(name + ":key_reused_by_later_datagram")
	}
	if fc.nontrivial() || c.Mode == "expire" || c.Mode == "keep" {
		evid.NonTrivialKey(name, fmt.Sprint(c.Dgrams), fmt.Sprint(c.Seq), c.High, c.Low, c.SleepAt)
	}
	labelFacts(name, len(c.Dgrams), len(c.Seq), fc, st)
	switch {
	case fc.overlap && fc.interleave:
		evid.Sample(name+"/overlap+interleave", c)
	case st.secondSets > 0:
		evid.Sample(name+"/second-set", c)
	case fc.finalFirst:
		evid.Sample(name+"/final-first", c)
	}
}

func labelFacts(name string, ndg, nseq int, fc facts, st seqStats) {
	evid.Label(name + ":cases")
	if fc.outOfOrder {
		evid.Label(name + ":out_of_order")
	}
	if fc.dup {
		evid.Label(name + ":duplicate")
	}
	if fc.overlap {
		evid.Label(name + ":overlap")
	}
	if fc.interleave {
		evid.Label(name + ":interleaved")
	}
	if fc.finalFirst {
		evid.Label(name + ":final_fragment_first")
	}
	switch {
	case st.handed == 0:
		evid.Label(name + ":handed_up_0")
	case st.handed == 1:
		evid.Label(name + ":handed_up_1")
	default:
		evid.Label(name + ":handed_up_2+")
	}
	if st.secondSets > 0 {
		evid.Label(name + ":same_datagram_handed_up_again")
	}
	if st.lateDups > 0 {
		evid.Label(name + ":arrivals_after_hand_up")
	}
	if ndg >= 2 {
		evid.Label(fmt.Sprintf("%s:datagrams_%d", name, ndg))
	}
	switch {
	case nseq > 40:
		evid.Label(name + ":arrivals>40")
	case nseq > 10:
		evid.Label(name + ":arrivals_11-40")
	}
}
