package c08

import (
	"bytes"
	"fmt"
	"testing"

	"github.com/brewlin/net-protocol/pkg/buffer"
	"github.com/brewlin/net-protocol/protocol/network/fragmentation"
	"pgregory.net/rapid"
	"verifharness/evid"
)

// Many: one datagram cut into many small fragments (more hole records than
// the reassembler's initial capacity), arriving in an order that keeps many
// holes open, with duplicates sprinkled in.
type Many struct {
	Blocks int    `json:"blocks"` // 8-byte blocks, one fragment per block (last one may be shorter)
	Tail   int    `json:"tail"`   // length of the last block (1..8)
	Seq    []int  `json:"seq"`    // arrival sequence of block indices (duplicates allowed)
	Seed   uint32 `json:"seed"`
}

func runMany(c Many) *evid.Failure {
	total := (c.Blocks-1)*8 + c.Tail
	data := content(c.Seed, total)
	f := fragmentation.NewFragmentation(defHigh, defLow, 3600e9)
	seen := make([]bool, c.Blocks)
	nseen := 0
	handed := 0
	dups := 0
	maxHoles := 0
	for step, b := range c.Seq {
		first := b * 8
		last := first + 7
		if b == c.Blocks-1 {
			last = first + c.Tail - 1
		}
		more := b != c.Blocks-1
		vv := buffer.NewViewFromBytes(data[first : last+1]).ToVectorisedView()
		res, done := f.Process(9, uint16(first), uint16(last), more, vv)
		if seen[b] {
			dups++
		} else {
			seen[b] = true
			nseen++
		}
		// open holes between received blocks (a measure of how hard the case is)
		h := 0
		for i := 0; i+1 < c.Blocks; i++ {
			if seen[i] != seen[i+1] {
				h++
			}
		}
		if h/2+1 > maxHoles {
			maxHoles = h/2 + 1
		}
		complete := nseen == c.Blocks
		if done && !complete {
			return evid.Failf("premature", "step %d (block %d): datagram handed up (%d bytes) although only %d of %d fragments have arrived", step, b, res.Size(), nseen, c.Blocks)
		}
		if done {
			handed++
			if !bytes.Equal(res.ToView(), data) {
				return evid.Failf("wrong-bytes", "step %d: reassembled datagram differs from the original (%d vs %d bytes)", step, res.Size(), total)
			}
			// a new set starts after a hand-up
			for i := range seen {
				seen[i] = false
			}
			nseen = 0
		} else if complete {
			return evid.Failf("missing", "step %d (block %d): every one of the %d fragments has arrived (with %d duplicates on the way) and nothing was handed up", step, b, c.Blocks, dups)
		}
	}
	evid.Label(fmt.Sprintf("many:max-open-holes>=%d", (maxHoles/8)*8))
	if dups > 0 && maxHoles >= 8 {
		evid.NonTrivialKey("many", fmt.Sprintf("%+v", c))
		evid.Sample("many", c)
	}
	_ = handed
	return nil
}

func genMany(rt *rapid.T) Many {
	var c Many
	c.Blocks = rapid.IntRange(17, 48).Draw(rt, "blocks")
	c.Tail = rapid.IntRange(1, 8).Draw(rt, "tail")
	c.Seed = rapid.Uint32().Draw(rt, "seed")
	// base order: one of several hole-rich orders
	var order []int
	switch rapid.IntRange(0, 3).Draw(rt, "order") {
	case 0: // evens, then odds
		for i := 0; i < c.Blocks; i += 2 {
			order = append(order, i)
		}
		for i := 1; i < c.Blocks; i += 2 {
			order = append(order, i)
		}
	case 1: // from the middle outwards with a gap at the front
		for i := 2; i < c.Blocks-4; i++ {
			order = append(order, i)
		}
		order = append(order, 0, 1)
		for i := c.Blocks - 4; i < c.Blocks; i++ {
			if i >= 2 {
				order = append(order, i)
			}
		}
	case 2: // every third, three passes
		for p := 0; p < 3; p++ {
			for i := p; i < c.Blocks; i += 3 {
				order = append(order, i)
			}
		}
	default:
		order = rapid.Permutation(seqInts(c.Blocks)).Draw(rt, "perm")
	}
	// sprinkle duplicates of already delivered blocks
	nd := rapid.IntRange(1, 6).Draw(rt, "ndup")
	for i := 0; i < nd; i++ {
		pos := rapid.IntRange(1, len(order)-1).Draw(rt, "duppos")
		src := rapid.IntRange(0, pos-1).Draw(rt, "dupsrc")
		d := order[src]
		order = append(order[:pos], append([]int{d}, order[pos:]...)...)
	}
	c.Seq = order
	return c
}

func TestL1Many(t *testing.T) {
	evid.Run(t, evid.Spec[Many]{Name: "l1many", Gen: genMany, Run: runMany})
}
