package c08

import (
	"bytes"
	"fmt"
	"runtime"
	"runtime/debug"
	"strings"
	"sync"
	"testing"
	"time"

	"github.com/brewlin/net-protocol/protocol/network/fragmentation"
	"pgregory.net/rapid"
	"verifharness/evid"
)

// ConcCase: the arrivals are dealt to several goroutines ("lanes") which call
// Process concurrently on one Fragmentation; every lane keeps its own order.
type ConcCase struct {
	Dgrams []Dgram  `json:"dgrams"`
	Lanes  [][]Frag `json:"lanes"`
	Reps   int      `json:"reps"` // the schedule is not ours: the same case is run Reps times
}

type laneResult struct {
	handed  []int // per datagram
	inexact string
	panicked,
	site, stack string
}

func repoSite() string {
	pcs := make([]uintptr, 64)
	n := runtime.Callers(3, pcs)
	fr := runtime.CallersFrames(pcs[:n])
	for {
		f, more := fr.Next()
		if strings.Contains(f.Function, "brewlin/net-protocol") {
			return f.Function[strings.LastIndex(f.Function, "/")+1:]
		}
		if !more {
			return "harness"
		}
	}
}

func runConc(c ConcCase) *evid.Failure {
	var all []Frag
	for _, l := range c.Lanes {
		all = append(all, l...)
	}
	if validate(c.Dgrams, all) != nil || len(c.Lanes) < 2 {
		evid.Label("invalid_case_skipped")
		return nil
	}
	data := contents(c.Dgrams)
	// what the arrivals, taken together, allow
	ms := make([]*dmodel, len(c.Dgrams))
	for i := range ms {
		ms[i] = newDModel(c.Dgrams[i].Total)
	}
	for _, f := range all {
		ms[f.D].arrive(f)
	}
	reps := c.Reps
	if reps < 1 {
		reps = 1
	}
	multi := false
	for rep := 0; rep < reps; rep++ {
		fr := fragmentation.NewFragmentation(defHigh, defLow, time.Hour)
		res := make([]laneResult, len(c.Lanes))
		var wg sync.WaitGroup
		start := make(chan struct{})
		for li := range c.Lanes {
			wg.Add(1)
			go func(li int) {
				defer wg.Done()
				r := &res[li]
				r.handed = make([]int, len(c.Dgrams))
				defer func() {
					if p := recover(); p != nil {
						r.panicked = fmt.Sprint(p)
						r.site = repoSite()
						r.stack = string(debug.Stack())
					}
				}()
				<-start
				for _, f := range c.Lanes[li] {
					d := c.Dgrams[f.D]
					vv, done := fr.Process(d.ID, uint16(f.First), uint16(f.Last), f.Last != d.Total-1, mkVV(data[f.D], f))
					if done {
						r.handed[f.D]++
						got := vv.ToView()
						if (vv.Size() != len(got) || !bytes.Equal(got, data[f.D])) && r.inexact == "" {
							r.inexact = fmt.Sprintf("datagram %d (id %#x) handed up at fragment [%d,%d]: got %d bytes %s want %d bytes %s; %s",
								f.D, d.ID, f.First, f.Last, len(got), hexHead(got), len(data[f.D]), hexHead(data[f.D]), blame(got, c.Dgrams, data))
						}
					}
				}
			}(li)
		}
		close(start)
		wg.Wait()
		total := make([]int, len(c.Dgrams))
		for li, r := range res {
			if r.panicked != "" {
				return evid.Failf("l1c-panic:"+r.site, "rep %d lane %d: panic: %s\n%s", rep, li, r.panicked, r.stack)
			}
			if r.inexact != "" {
				return evid.Failf("l1c-wrong-bytes", "rep %d lane %d: %s", rep, li, r.inexact)
			}
			for d, n := range r.handed {
				total[d] += n
			}
		}
		for d, m := range ms {
			complete := full(m.cum, m.cumFinal)
			switch {
			case !complete && total[d] > 0:
				return evid.Failf("l1c-premature", "rep %d: datagram %d handed up %d time(s) although its arrivals never form a complete set", rep, d, total[d])
			case complete && total[d] == 0:
				return evid.Failf("l1c-missing", "rep %d: datagram %d: a complete set was delivered (each fragment at least once) but nothing was handed up", rep, d)
			case total[d] > m.maxSets():
				return evid.Failf("l1c-redelivery", "rep %d: datagram %d handed up %d times; the arrivals contain at most %d disjoint complete set(s)", rep, d, total[d], m.maxSets())
			}
			if total[d] > 1 {
				multi = true
			}
		}
	}
	fc := classify(c.Dgrams, all)
	evid.NonTrivialKey("l1c", fmt.Sprint(c.Dgrams), fmt.Sprint(c.Lanes))
	evid.Label(fmt.Sprintf("l1c:lanes_%d", len(c.Lanes)))
	if fc.dup || fc.overlap {
		evid.Label("l1c:duplicates_or_overlaps")
	} else {
		evid.Label("l1c:each_fragment_once")
	}
	if multi {
		evid.Label("l1c:same_datagram_handed_up_again")
	}
	if len(c.Dgrams) > 1 {
		evid.Label("l1c:several_datagrams")
	}
	evid.LabelN("l1c:executions", int64(reps))
	evid.Sample("l1c", c)
	return nil
}

func genConc(rt *rapid.T) ConcCase {
	n := rapid.SampledFrom([]int{1, 1, 2, 3, 4}).Draw(rt, "ndatagrams")
	dg := genDgrams(rt, n, 1)
	lanes := rapid.IntRange(2, 8).Draw(rt, "lanes")
	c := ConcCase{Dgrams: dg, Lanes: make([][]Frag, lanes), Reps: rapid.SampledFrom([]int{1, 4, 16}).Draw(rt, "reps")}
	for i := range dg {
		if dg[i].Total > 4000 {
			dg[i].Total = 1 + dg[i].Total%4000
		}
	}
	switch rapid.SampledFrom([]string{"deal", "deal", "copies", "once"}).Draw(rt, "style") {
	case "copies":
		// every lane delivers a whole copy of every datagram's cut, in its own order
		for i := range dg {
			nb := (dg[i].Total + 7) / 8
			cut := cutFrags(i, nb, dg[i].Total, genCut(rt, nb, 6))
			for l := range c.Lanes {
				c.Lanes[l] = append(c.Lanes[l], rapid.Permutation(cut).Draw(rt, "perm")...)
			}
		}
	case "once":
		// every fragment of a cut exactly once, dealt over the lanes
		var pool []Frag
		for i := range dg {
			nb := (dg[i].Total + 7) / 8
			pool = append(pool, cutFrags(i, nb, dg[i].Total, genCut(rt, nb, 12))...)
		}
		pool = rapid.Permutation(pool).Draw(rt, "perm")
		for k, f := range pool {
			c.Lanes[k%lanes] = append(c.Lanes[k%lanes], f)
		}
	default:
		lists := make([][]Frag, n)
		for i := range dg {
			lists[i] = genFrags(rt, i, dg[i].Total, true)
		}
		for _, f := range merge(rt, lists) {
			l := rapid.IntRange(0, lanes-1).Draw(rt, "lane")
			c.Lanes[l] = append(c.Lanes[l], f)
		}
	}
	return c
}

// TestL1Concurrent hosts check "l1conc" (run under the race detector).
func TestL1Concurrent(t *testing.T) {
	evid.Run(t, evid.Spec[ConcCase]{Name: "l1conc", Gen: genConc, Run: runConc})
}
