package c08

import "encoding/binary"

// RFC 791 / RFC 768 encoders written for this check; nothing from the
// repository's header package is used to build what is injected.

// onesSum is the RFC 1071 one's complement sum of b.
func onesSum(b []byte) uint16 {
	var s uint32
	for i := 0; i+1 < len(b); i += 2 {
		s += uint32(b[i])<<8 | uint32(b[i+1])
	}
	if len(b)%2 == 1 {
		s += uint32(b[len(b)-1]) << 8
	}
	for s>>16 != 0 {
		s = s&0xffff + s>>16
	}
	return uint16(s)
}

// ipv4Header builds the header of one fragment: RFC 791 section 3.1. offBytes
// must be a multiple of 8; optWords 32-bit words of options (NOP ... EOL) are
// appended.
func ipv4Header(src, dst [4]byte, proto uint8, id uint16, offBytes int, more bool, ttl, tos uint8, optWords, payloadLen int) []byte {
	hl := 20 + 4*optWords
	h := make([]byte, hl)
	h[0] = 4<<4 | uint8(hl/4)
	h[1] = tos
	binary.BigEndian.PutUint16(h[2:], uint16(hl+payloadLen))
	binary.BigEndian.PutUint16(h[4:], id)
	fo := uint16(offBytes / 8)
	if more {
		fo |= 1 << 13 // MF
	}
	binary.BigEndian.PutUint16(h[6:], fo)
	h[8] = ttl
	h[9] = proto
	copy(h[12:16], src[:])
	copy(h[16:20], dst[:])
	for i := 20; i < hl; i++ {
		h[i] = 1 // NOP
	}
	if hl > 20 {
		h[hl-1] = 0 // EOL
	}
	binary.BigEndian.PutUint16(h[10:], ^onesSum(h))
	return h
}

// udpHeader: RFC 768; checksum 0 = "no checksum" (legal over IPv4).
func udpHeader(sport, dport uint16, length int) []byte {
	u := make([]byte, 8)
	binary.BigEndian.PutUint16(u[0:], sport)
	binary.BigEndian.PutUint16(u[2:], dport)
	binary.BigEndian.PutUint16(u[4:], uint16(length))
	return u
}
