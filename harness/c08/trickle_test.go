package c08

import (
	"bytes"
	"fmt"
	"testing"
	"time"

	"github.com/brewlin/net-protocol/pkg/buffer"
	"github.com/brewlin/net-protocol/protocol/network/fragmentation"
	"pgregory.net/rapid"
	"verifharness/evid"
)

// Trickle: the fragments of one datagram arrive one by one with pauses that
// are each shorter than the reassembly timeout while the first fragment is
// older than the timeout when the completing one arrives. The statement's
// "fragments older than the reassembly timeout are not combined with newer
// ones" is about the age of the oldest fragment, not about idle time.
type Trickle struct {
	Blocks    int    `json:"blocks"`     // 8-byte blocks, one fragment each (>= 3)
	Order     []int  `json:"order"`      // arrival order (a permutation of the blocks)
	GapMs     int    `json:"gap_ms"`     // pause between consecutive arrivals
	TimeoutMs int    `json:"timeout_ms"` // reassembly timeout
	Seed      uint32 `json:"seed"`
}

func runTrickle(c Trickle) *evid.Failure {
	total := c.Blocks * 8
	data := content(c.Seed, total)
	T := time.Duration(c.TimeoutMs) * time.Millisecond
	f := fragmentation.NewFragmentation(defHigh, defLow, T)
	var firstAfter, firstBefore time.Time
	for i, b := range c.Order {
		if i > 0 {
			time.Sleep(time.Duration(c.GapMs) * time.Millisecond)
		}
		first, last := uint16(b*8), uint16(b*8+7)
		more := b != c.Blocks-1
		vv := buffer.NewViewFromBytes(data[b*8 : b*8+8]).ToVectorisedView()
		before := time.Now()
		res, done := f.Process(7, first, last, more, vv)
		after := time.Now()
		if i == 0 {
			firstBefore, firstAfter = before, after
		}
		if i < len(c.Order)-1 {
			if done {
				return evid.Failf("premature", "datagram handed up after %d of %d fragments", i+1, c.Blocks)
			}
			continue
		}
		// completing fragment: age of the first fragment, bracketed by harness timestamps
		minAge := before.Sub(firstAfter) // the reassembler was created before firstAfter and judged after `before`
		maxAge := after.Sub(firstBefore)
		switch {
		case minAge > T:
			if done {
				return evid.Failf("stale-combined", "a fragment received at least %v before (reassembly timeout %v, pauses of %d ms between arrivals) was combined with new ones: %d bytes handed up", minAge, T, c.GapMs, res.Size())
			}
			evid.Label("trickle:older-than-timeout")
			evid.NonTrivialKey("trickle", fmt.Sprintf("%+v", c))
			evid.Sample("trickle", c)
		case maxAge < T:
			if !done {
				return evid.Failf("missing", "all %d fragments arrived within %v (reassembly timeout %v) and nothing was handed up", c.Blocks, maxAge, T)
			}
			if !bytes.Equal(res.ToView(), data) {
				return evid.Failf("wrong-bytes", "reassembled datagram differs from the original")
			}
			evid.Label("trickle:within-timeout")
			evid.NonTrivialKey("trickle", fmt.Sprintf("%+v", c))
		default:
			evid.Label("trickle:indeterminate-timing")
		}
	}
	return nil
}

func genTrickle(rt *rapid.T) Trickle {
	var c Trickle
	c.Blocks = rapid.IntRange(3, 5).Draw(rt, "blocks")
	c.Order = rapid.Permutation(seqInts(c.Blocks)).Draw(rt, "order")
	c.Seed = rapid.Uint32().Draw(rt, "seed")
	if rapid.IntRange(0, 3).Draw(rt, "slow") != 0 {
		// slow trickle: every pause below the timeout, the total above it
		c.TimeoutMs = rapid.SampledFrom([]int{30, 40, 60}).Draw(rt, "timeout")
		c.GapMs = c.TimeoutMs * 2 / 3
	} else {
		// prompt arrival with a long timeout
		c.TimeoutMs = 2000
		c.GapMs = rapid.IntRange(0, 3).Draw(rt, "gap")
	}
	return c
}

func seqInts(n int) []int {
	s := make([]int, n)
	for i := range s {
		s[i] = i
	}
	return s
}

func TestL1Trickle(t *testing.T) {
	evid.Run(t, evid.Spec[Trickle]{Name: "l1trickle", Gen: genTrickle, Run: runTrickle})
}
