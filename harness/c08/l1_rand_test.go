package c08

import (
	"sort"
	"testing"

	"pgregory.net/rapid"
	"verifharness/evid"
)

// genTotal draws a datagram length: small, medium, up to 4000, around block
// boundaries, and (rarely) the largest payloads an IPv4 datagram can carry.
func genTotal(rt *rapid.T, min int) int {
	t := rapid.OneOf(
		rapid.IntRange(1, 40), rapid.IntRange(1, 40),
		rapid.IntRange(1, 600), rapid.IntRange(1, 600),
		rapid.IntRange(1, 4000), rapid.IntRange(1, 4000),
		rapid.SampledFrom([]int{8, 9, 15, 16, 17, 1480, 1481, 2960, 3992, 3993, 4000}),
		rapid.SampledFrom([]int{65515, 65512, 65505, 32768, 32769}),
	).Draw(rt, "total")
	if t < min {
		t = min
	}
	return t
}

func genSplit(rt *rapid.T, n int) []int {
	if n < 2 || rapid.IntRange(0, 2).Draw(rt, "chunked") > 0 {
		return nil
	}
	var s []int
	for k := rapid.IntRange(1, 3).Draw(rt, "nsplit"); k > 0 && n > 1; k-- {
		c := rapid.IntRange(1, n-1).Draw(rt, "chunk")
		if c > 16 && rapid.Bool().Draw(rt, "smallchunk") {
			c = 1 + c%16
		}
		s = append(s, c)
		n -= c
	}
	return s
}

// genCut draws a cut of an nb-block datagram: the sorted block indices after
// which the datagram is cut (at most maxFr fragments).
func genCut(rt *rapid.T, nb, maxFr int) []int {
	if nb <= 1 {
		return nil
	}
	max := nb - 1
	if max > maxFr-1 {
		max = maxFr - 1
	}
	k := rapid.IntRange(0, max).Draw(rt, "ncuts")
	if nb >= 3 && k == 0 && rapid.Bool().Draw(rt, "forcecut") {
		k = 1
	}
	seen := map[int]bool{}
	var cuts []int
	for i := 0; i < k; i++ {
		c := rapid.IntRange(0, nb-2).Draw(rt, "cut")
		if !seen[c] {
			seen[c] = true
			cuts = append(cuts, c)
		}
	}
	sort.Ints(cuts)
	return cuts
}

func cutFrags(d, nb, total int, cuts []int) []Frag {
	var fs []Frag
	start := 0
	for _, c := range cuts {
		fs = append(fs, blockFrag(d, start, c, total, nil))
		start = c + 1
	}
	return append(fs, blockFrag(d, start, nb-1, total, nil))
}

// genFrags draws the arrivals of one datagram, in arrival order: a cut, plus
// duplicates, unions of adjacent fragments, sub-ranges, arbitrary block ranges,
// a second cut; sometimes with one fragment withheld (incomplete set).
func genFrags(rt *rapid.T, d, total int, allowDrop bool) []Frag {
	nb := (total + 7) / 8
	maxFr := 12
	if total > 4000 {
		maxFr = 4
	}
	cuts := genCut(rt, nb, maxFr)
	fs := cutFrags(d, nb, total, cuts)
	base := len(fs)
	extras := rapid.IntRange(0, 5).Draw(rt, "extras")
	if rapid.IntRange(0, 2).Draw(rt, "plain") == 0 {
		extras = 0
	}
	for e := 0; e < extras; e++ {
		switch rapid.SampledFrom([]string{"dup", "dup", "union", "sub", "range", "cut2", "dupall"}).Draw(rt, "extra") {
		case "dup":
			fs = append(fs, fs[rapid.IntRange(0, len(fs)-1).Draw(rt, "which")])
		case "union":
			if base >= 2 {
				i := rapid.IntRange(0, base-2).Draw(rt, "ui")
				j := rapid.IntRange(i+1, base-1).Draw(rt, "uj")
				fs = append(fs, Frag{D: d, First: fs[i].First, Last: fs[j].Last})
			}
		case "sub":
			f := fs[rapid.IntRange(0, base-1).Draw(rt, "which")]
			bi, bj := f.First/8, f.Last/8
			i := rapid.IntRange(bi, bj).Draw(rt, "si")
			j := rapid.IntRange(i, bj).Draw(rt, "sj")
			fs = append(fs, blockFrag(d, i, j, total, nil))
		case "range":
			i := rapid.IntRange(0, nb-1).Draw(rt, "ri")
			j := rapid.IntRange(i, nb-1).Draw(rt, "rj")
			fs = append(fs, blockFrag(d, i, j, total, nil))
		case "cut2":
			if total <= 4000 {
				fs = append(fs, cutFrags(d, nb, total, genCut(rt, nb, 6))...)
			}
		case "dupall":
			if total <= 4000 {
				fs = append(fs, fs[:base]...)
			}
		}
	}
	if allowDrop && rapid.IntRange(0, 6).Draw(rt, "drop") == 0 {
		i := rapid.IntRange(0, len(fs)-1).Draw(rt, "dropwhich")
		fs = append(fs[:i:i], fs[i+1:]...)
	}
	if len(fs) == 0 {
		return fs
	}
	// arrival order
	switch rapid.SampledFrom([]string{"perm", "perm", "perm", "asis", "reverse", "finalfirst"}).Draw(rt, "order") {
	case "perm":
		fs = rapid.Permutation(fs).Draw(rt, "perm")
	case "reverse":
		for i, j := 0, len(fs)-1; i < j; i, j = i+1, j-1 {
			fs[i], fs[j] = fs[j], fs[i]
		}
	case "finalfirst":
		fs = rapid.Permutation(fs).Draw(rt, "perm")
		for i, f := range fs {
			if f.Last == total-1 {
				fs[0], fs[i] = fs[i], fs[0]
				break
			}
		}
	}
	out := make([]Frag, len(fs))
	for i, f := range fs {
		f.Split = genSplit(rt, f.Last-f.First+1)
		out[i] = f
	}
	return out
}

// genIDs draws n distinct reassembly keys, often close to each other.
func genIDs(rt *rapid.T, n int) []uint32 {
	base := rapid.OneOf(rapid.Uint32(), rapid.SampledFrom([]uint32{0, 1, 0xffffffff, 0x00010000, 0x00110006})).Draw(rt, "id0")
	ids := []uint32{base}
	for len(ids) < n {
		var c uint32
		switch rapid.IntRange(0, 4).Draw(rt, "idkind") {
		case 0:
			c = base + uint32(len(ids))
		case 1:
			c = base ^ (1 << uint(rapid.IntRange(0, 31).Draw(rt, "bit")))
		case 2:
			c = base<<16 | base>>16
		default:
			c = rapid.Uint32().Draw(rt, "id")
		}
		dup := false
		for _, x := range ids {
			dup = dup || x == c
		}
		if !dup {
			ids = append(ids, c)
		}
	}
	return ids
}

// merge interleaves the per-datagram arrival lists, keeping each list's order.
func merge(rt *rapid.T, lists [][]Frag) []Frag {
	style := rapid.SampledFrom([]string{"random", "random", "random", "roundrobin", "sequential"}).Draw(rt, "merge")
	pos := make([]int, len(lists))
	var out []Frag
	rr := 0
	for {
		var live []int
		for i := range lists {
			if pos[i] < len(lists[i]) {
				live = append(live, i)
			}
		}
		if len(live) == 0 {
			return out
		}
		var pick int
		switch style {
		case "sequential":
			pick = live[0]
		case "roundrobin":
			pick = live[rr%len(live)]
			rr++
		default:
			pick = live[rapid.IntRange(0, len(live)-1).Draw(rt, "next")]
		}
		out = append(out, lists[pick][pos[pick]])
		pos[pick]++
	}
}

func genDgrams(rt *rapid.T, n, minTotal int) []Dgram {
	ids := genIDs(rt, n)
	dg := make([]Dgram, n)
	for i := range dg {
		dg[i] = Dgram{ID: ids[i], Total: genTotal(rt, minTotal), Seed: uint32(i + 1)}
		if i > 0 && dg[i].Total > 4000 {
			dg[i].Total = 1 + dg[i].Total%4000
		}
		if i > 0 && rapid.IntRange(0, 3).Draw(rt, "samesize") == 0 {
			dg[i].Total = dg[0].Total // same size and cut positions: only the key tells them apart
		}
	}
	return dg
}

func genCase(rt *rapid.T) Case { return genCaseOpt(rt, true) }

func genCaseOpt(rt *rapid.T, allowReuse bool) Case {
	n := rapid.SampledFrom([]int{1, 1, 2, 2, 3, 4}).Draw(rt, "ndatagrams")
	dg := genDgrams(rt, n, 1)
	lists := make([][]Frag, n)
	reuse := allowReuse && rapid.IntRange(0, 5).Draw(rt, "reuse") == 0
	for i := range dg {
		if reuse && i == 0 {
			// datagram 0 arrives cleanly (a cut, each fragment once, any order), so
			// that its key can be used again by a later datagram
			nb := (dg[0].Total + 7) / 8
			lists[0] = rapid.Permutation(cutFrags(0, nb, dg[0].Total, genCut(rt, nb, 12))).Draw(rt, "perm")
			continue
		}
		lists[i] = genFrags(rt, i, dg[i].Total, true)
	}
	seq := merge(rt, lists)
	if reuse {
		later := Dgram{ID: dg[0].ID, Total: genTotal(rt, 1), Seed: uint32(n + 1)}
		if later.Total > 4000 || rapid.Bool().Draw(rt, "reusesamesize") {
			later.Total = dg[0].Total
		}
		dg = append(dg, later)
		seq = append(seq, genFrags(rt, n, later.Total, true)...)
	}
	return Case{Dgrams: dg, Seq: seq}
}

// TestL1Random hosts check "l1" (also the replays of the enumerators).
func TestL1Random(t *testing.T) {
	evid.Run(t, evid.Spec[Case]{Name: "l1", Gen: genCase, Run: runCase})
}

func genPressure(rt *rapid.T) Case {
	c := genCaseOpt(rt, false)
	sum := 0
	for _, f := range c.Seq {
		sum += f.Last - f.First + 1
	}
	c.Mode = "pressure"
	c.High = rapid.OneOf(rapid.IntRange(0, 64), rapid.IntRange(0, sum+8), rapid.IntRange(0, sum/2+8)).Draw(rt, "high")
	c.Low = rapid.IntRange(0, c.High).Draw(rt, "low")
	return c
}

// TestL1Pressure: tiny memory limits, so reassemblers are evicted under the
// arrivals' feet; the oracle only demands that nothing wrong is handed up.
func TestL1Pressure(t *testing.T) {
	evid.Run(t, evid.Spec[Case]{Name: "l1pressure", Gen: genPressure, Run: runCase})
}

// genTimeout draws a history in two parts separated by a pause: neither part
// contains a complete set, both together do.
func genTimeout(rt *rapid.T) Case {
	n := rapid.SampledFrom([]int{1, 1, 2}).Draw(rt, "ndatagrams")
	dg := genDgrams(rt, n, 9)
	var p1, p2 [][]Frag
	for i := range dg {
		if dg[i].Total > 4000 {
			dg[i].Total = 9 + dg[i].Total%3990
		}
		fs := genFrags(rt, i, dg[i].Total, false)
		nb := (dg[i].Total + 7) / 8
		// w1 is missing from part 1, w2 from part 2
		w1 := rapid.IntRange(0, nb-1).Draw(rt, "w1")
		w2 := rapid.IntRange(0, nb-2).Draw(rt, "w2")
		if w2 >= w1 {
			w2++
		}
		var a, b []Frag
		for _, f := range fs {
			c1 := f.First/8 <= w1 && w1 <= f.Last/8
			c2 := f.First/8 <= w2 && w2 <= f.Last/8
			switch {
			case c1 && c2:
				// would complete either part: cut it between the two witnesses
				lo, hi := w1, w2
				if lo > hi {
					lo, hi = hi, lo
				}
				left := blockFrag(i, f.First/8, lo, dg[i].Total, nil)
				right := Frag{D: i, First: 8 * (lo + 1), Last: f.Last}
				for _, g := range []Frag{left, right} {
					if g.First/8 <= w1 && w1 <= g.Last/8 {
						b = append(b, g)
					} else {
						a = append(a, g)
					}
				}
			case c1:
				b = append(b, f)
			case c2:
				a = append(a, f)
			case rapid.Bool().Draw(rt, "part"):
				a = append(a, f)
			default:
				b = append(b, f)
			}
		}
		p1 = append(p1, a)
		p2 = append(p2, b)
	}
	first := merge(rt, p1)
	second := merge(rt, p2)
	// sometimes a fragment that is a whole datagram arrives after the pause:
	// first thing, or somewhere among the fresh fragments
	if rapid.IntRange(0, 3).Draw(rt, "whole") == 0 {
		d := rapid.IntRange(0, n-1).Draw(rt, "wholeof")
		w := Frag{D: d, First: 0, Last: dg[d].Total - 1}
		at := 0
		if rapid.Bool().Draw(rt, "wholelater") {
			at = rapid.IntRange(0, len(second)).Draw(rt, "wholeat")
		}
		second = append(second[:at:at], append([]Frag{w}, second[at:]...)...)
	}
	return Case{Dgrams: dg, Seq: append(append([]Frag(nil), first...), second...), SleepAt: len(first),
		Mode: rapid.SampledFrom([]string{"expire", "keep"}).Draw(rt, "mode")}
}

// TestL1Timeout: 1 ms timeout + 5 ms pause (nothing may be handed up) against
// 1 h timeout with the same pause (everything must be). Machine load can only
// lengthen the pause, so both directions are load-proof.
func TestL1Timeout(t *testing.T) {
	evid.Run(t, evid.Spec[Case]{Name: "l1timeout", Gen: genTimeout, Run: runCase})
}
