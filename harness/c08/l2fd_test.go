package c08

import (
	"bytes"
	"fmt"
	"testing"
	"time"

	tcpip "github.com/brewlin/net-protocol/protocol"
	"github.com/brewlin/net-protocol/protocol/network/ipv4"
	"github.com/brewlin/net-protocol/protocol/transport/udp"
	"pgregory.net/rapid"

	"verifharness/codec"
	"verifharness/evid"
	"verifharness/netsim"
)

// Level 2 over the repository's fd-based link endpoint (a SOCK_SEQPACKET
// socketpair): the endpoint reads every frame into the same set of receive
// buffers, so a fragment that is kept by reference instead of being copied
// changes under the reassembler's hands when the next frame arrives. A UDP
// datagram is cut at 8-byte boundaries, the fragments arrive in a generated
// order with unrelated frames (other datagrams, of other sizes) in between, and
// the bound socket must read exactly the original payload, once.
type FDCase struct {
	N     int    `json:"n"`     // UDP payload bytes
	Cuts  []int  `json:"cuts"`  // fragment boundaries in 8-byte blocks of the UDP datagram (ascending, inside)
	Order []int  `json:"order"` // arrival order of the fragments (indices; a repeated index is a duplicate)
	Noise []int  `json:"noise"` // payload size of an unrelated datagram sent after the k-th arriving fragment (0 = none)
	Seed  uint64 `json:"seed"`
	ID    uint16 `json:"id"`
}

func fdPattern(seed uint64, n int) []byte {
	b := make([]byte, n)
	x := seed*2862933555777941757 + 3037000493
	for i := range b {
		x = x*6364136223846793005 + 1442695040888963407
		b[i] = byte(x >> 56)
	}
	return b
}

func runL2FD(c FDCase) *evid.Failure {
	if c.N < 1 || c.N > 8000 {
		return nil
	}
	fd, err := netsim.NewFD(1500, []tcpip.Address{netsim.A4}, nil, nil)
	if err != nil {
		evid.Label("fd_unavailable")
		return nil
	}
	defer fd.Close()
	s, e := netsim.NewSock(fd.Stack, udp.ProtocolNumber, ipv4.ProtocolNumber)
	if e != nil {
		return nil
	}
	defer s.EP.Close()
	s.EP.Bind(tcpip.FullAddress{Port: 4000}, nil)
	other, e := netsim.NewSock(fd.Stack, udp.ProtocolNumber, ipv4.ProtocolNumber)
	if e != nil {
		return nil
	}
	defer other.EP.Close()
	other.EP.Bind(tcpip.FullAddress{Port: 4001}, nil)

	src, dst := []byte(netsim.B4), []byte(netsim.A4)
	payload := fdPattern(c.Seed, c.N)
	l4 := codec.BuildUDP(src, dst, 5000, 4000, payload, true)
	// fragment boundaries in bytes
	bounds := []int{0}
	for _, k := range c.Cuts {
		if b := k * 8; b > bounds[len(bounds)-1] && b < len(l4) && b-bounds[len(bounds)-1] <= 1480 {
			bounds = append(bounds, b)
		}
	}
	bounds = append(bounds, len(l4))
	for i := 1; i < len(bounds); i++ {
		if bounds[i]-bounds[i-1] > 1480 {
			evid.Label("fd_outside:fragment-larger-than-mtu")
			return nil
		}
	}
	nfrag := len(bounds) - 1
	if nfrag < 2 {
		evid.Label("fd_outside:not-fragmented")
		return nil
	}
	evid.Journal("l2fd", c)
	seen := make([]bool, nfrag)
	arrivals := 0
	inOrder := true
	last := -1
	for k, idx := range c.Order {
		if idx < 0 || idx >= nfrag {
			continue
		}
		if idx < last {
			inOrder = false
		}
		last = idx
		seen[idx] = true
		arrivals++
		p := codec.BuildIPv4(codec.IPv4Hdr{Src: src, Dst: dst, Proto: codec.ProtoUDP, ID: c.ID, TTL: 64, MF: idx < nfrag-1, FragOff: bounds[idx]}, l4[bounds[idx]:bounds[idx+1]])
		fd.Write(codec.BuildEth(fd.StackMAC, fd.PeerMAC, codec.EtherIPv4, p))
		if k < len(c.Noise) && c.Noise[k] > 0 && c.Noise[k] <= 1400 {
			np := codec.BuildIPv4(codec.IPv4Hdr{Src: src, Dst: dst, Proto: codec.ProtoUDP, ID: c.ID + 100 + uint16(k), TTL: 64}, codec.BuildUDP(src, dst, 5001, 4001, bytes.Repeat([]byte{0xEE}, c.Noise[k]), true))
			fd.Write(codec.BuildEth(fd.StackMAC, fd.PeerMAC, codec.EtherIPv4, np))
		}
	}
	complete := true
	for _, ok := range seen {
		complete = complete && ok
	}
	var from tcpip.FullAddress
	got, rerr, ok := s.Read(evid.Pick(1500*time.Millisecond, 3*time.Second), &from)
	switch {
	case !complete:
		if ok && rerr == nil {
			return evid.Failf("l2fd-premature", "a datagram of %d bytes was delivered although fragment(s) never arrived (%d fragments, order %v)", len(got), nfrag, c.Order)
		}
		evid.Label("fd_incomplete_set")
		return nil
	case !ok || rerr != nil:
		return evid.Failf("l2fd-missing", "all %d fragments of a %d-byte datagram arrived through the fd-based endpoint (order %v, unrelated frames after arrivals %v) but nothing was delivered to the bound socket (%v)", nfrag, c.N, c.Order, c.Noise, rerr)
	case !bytes.Equal(got, payload):
		return evid.Failf("l2fd-wrong-bytes", "%d fragments (order %v, unrelated frames after arrivals %v): delivered %d bytes, original %d bytes; %s", nfrag, c.Order, c.Noise, len(got), c.N, l2Blame(got, [][]byte{payload}))
	}
	if extra, _, ok2 := s.Read(30*time.Millisecond, &from); ok2 && extra != nil && arrivals == nfrag {
		return evid.Failf("l2fd-duplicate", "every fragment arrived once, yet a second datagram (%d bytes) was delivered", len(extra))
	}
	evid.Label(fmt.Sprintf("fd_fragments_%d", nfrag))
	if !inOrder {
		evid.Label("fd_out_of_order")
	}
	if !inOrder || arrivals > nfrag {
		evid.NonTrivialKey("l2fd", fmt.Sprintf("%+v", c))
		if nfrag <= 3 {
			evid.Sample("l2fd", c)
		}
	}
	return nil
}

func genL2FD(rt *rapid.T) FDCase {
	var c FDCase
	c.N = rapid.OneOf(rapid.IntRange(9, 200), rapid.IntRange(200, 3000), rapid.IntRange(3000, 7000)).Draw(rt, "n")
	c.Seed = rapid.Uint64().Draw(rt, "seed")
	c.ID = uint16(rapid.IntRange(0, 65535).Draw(rt, "id"))
	blocks := (c.N + 8 + 7) / 8
	// cuts: at most 1480 bytes (185 blocks) apart, sometimes much closer
	pos := 0
	for pos < blocks {
		step := rapid.OneOf(rapid.IntRange(1, 6), rapid.IntRange(1, 185), rapid.Just(185)).Draw(rt, "step")
		pos += step
		if pos < blocks {
			c.Cuts = append(c.Cuts, pos)
		}
		if len(c.Cuts) >= 7 {
			break
		}
	}
	n := len(c.Cuts) + 1
	idx := make([]int, n)
	for i := range idx {
		idx[i] = i
	}
	c.Order = rapid.Permutation(idx).Draw(rt, "order")
	if rapid.IntRange(0, 3).Draw(rt, "dup") == 0 {
		c.Order = append(c.Order, rapid.IntRange(0, n-1).Draw(rt, "dupidx"))
	}
	if rapid.IntRange(0, 9).Draw(rt, "drop") == 0 && len(c.Order) > 1 {
		c.Order = c.Order[:len(c.Order)-1]
	}
	for range c.Order {
		c.Noise = append(c.Noise, rapid.SampledFrom([]int{0, 0, 1, 60, 300, 1400}).Draw(rt, "noise"))
	}
	return c
}

func TestL2FD(t *testing.T) {
	evid.Run(t, evid.Spec[FDCase]{Name: "l2fd", Gen: genL2FD, Run: runL2FD})
}
