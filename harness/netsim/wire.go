package netsim

import (
	"crypto/sha256"
	"encoding/binary"
	"fmt"
	"sync"
	"time"

	"github.com/brewlin/net-protocol/pkg/buffer"
	tcpip "github.com/brewlin/net-protocol/protocol"
	"verifharness/codec"
)

// Rule is one content-keyed fault: it applies to the packets whose class key
// equals Key (see Classify), skipping the first Skip matches and then acting on
// the next Count matches.
type Rule struct {
	Dir    int    `json:"dir"`    // 0: A->B, 1: B->A
	Key    string `json:"key"`    // class key, e.g. "DATA@1460", "ACK@2921", "SYN", "FIN", "WUPD0"
	Skip   int    `json:"skip"`   // matches to let pass first
	Count  int    `json:"count"`  // matches to act on
	Action string `json:"action"` // drop | dup | hold | replay | refuse (the sending link endpoint returns a transmit error; Key is then a coarse kind: SYN SYNACK RST FIN DATA ACK ANY)
	N      int    `json:"n"`      // dup: extra copies; hold/replay: number of later packets (same direction) to wait for

	seen, fired int
}

// Program is the fault program of one case.
type Program struct {
	Rules []Rule `json:"rules"`
	// Background faults, per mille, decided by a hash of (Seed, dir, class key,
	// occurrence); at most Budget background faults are applied in total.
	DropPM int    `json:"drop_pm"`
	DupPM  int    `json:"dup_pm"`
	HoldPM int    `json:"hold_pm"`
	Budget int    `json:"budget"`
	Seed   uint64 `json:"seed"`
}

// Event is one packet seen by the wire with what was done to it.
type Event struct {
	T      time.Time
	Dir    int
	Key    string
	Pkt    *codec.Packet
	Action string // "", drop, dup, hold, replay, bgdrop, bgdup, bghold
}

type held struct {
	f       Frame
	release int // deliver when the direction's packet counter reaches this
	again   bool
}

type dirState struct {
	iss     uint32
	haveISS bool
	lastAck uint32
	lastWnd uint16
	haveAck bool
	count   int
	occ     map[string]int
	held    []held
	q       []Frame
}

// Wire joins two taps.
type Wire struct {
	taps [2]*Tap
	prog Program
	mu   sync.Mutex
	cond *sync.Cond
	ds   [2]dirState
	ev   []Event
	bg   int
	stop bool
	wg   sync.WaitGroup
	// Chunk, if non-nil, decides how a packet is split into views on delivery.
	Chunk        func(b []byte) [][]byte
	lastActivity time.Time
}

// NewWire connects a and b with the given fault program and starts the pumps.
func NewWire(a, b *Tap, prog Program) *Wire {
	prog.Rules = append([]Rule(nil), prog.Rules...)
	for i := range prog.Rules {
		prog.Rules[i].seen, prog.Rules[i].fired = 0, 0
	}
	w := &Wire{taps: [2]*Tap{a, b}, prog: prog, lastActivity: time.Now()}
	w.cond = sync.NewCond(&w.mu)
	for i := range w.ds {
		w.ds[i].occ = map[string]int{}
	}
	a.Forward = func(f Frame) { w.enqueue(0, f) }
	b.Forward = func(f Frame) { w.enqueue(1, f) }
	for _, r := range prog.Rules {
		if r.Action == "refuse" {
			a.Refuse = func(f Frame) *tcpip.Error { return w.refuse(0, f) }
			b.Refuse = func(f Frame) *tcpip.Error { return w.refuse(1, f) }
			break
		}
	}
	w.wg.Add(2)
	go w.pump(0)
	go w.pump(1)
	return w
}

func (w *Wire) enqueue(dir int, f Frame) {
	w.mu.Lock()
	w.ds[dir].q = append(w.ds[dir].q, f)
	w.lastActivity = time.Now()
	w.cond.Broadcast()
	w.mu.Unlock()
}

// refuse decides, synchronously inside WritePacket, whether the sending link
// endpoint refuses the frame with a transmit error (rules with Action
// "refuse"). Their Key is the coarse kind of the segment: SYN, SYNACK, RST,
// FIN, DATA, ACK or ANY (the content keys of the other actions need the
// pump's state).
func (w *Wire) refuse(dir int, f Frame) *tcpip.Error {
	p := f.Pkt
	if p == nil || p.L4Kind != "tcp" {
		return nil
	}
	kind := "ACK"
	switch {
	case p.Flags&codec.SYN != 0 && p.Flags&codec.ACK != 0:
		kind = "SYNACK"
	case p.Flags&codec.SYN != 0:
		kind = "SYN"
	case p.Flags&codec.RST != 0:
		kind = "RST"
	case len(p.Payload) > 0:
		kind = "DATA"
	case p.Flags&codec.FIN != 0:
		kind = "FIN"
	}
	w.mu.Lock()
	defer w.mu.Unlock()
	for i := range w.prog.Rules {
		r := &w.prog.Rules[i]
		if r.Action != "refuse" || r.Dir != dir || (r.Key != kind && r.Key != "ANY") {
			continue
		}
		r.seen++
		if r.seen > r.Skip && r.fired < r.Count {
			r.fired++
			w.ev = append(w.ev, Event{T: f.T, Dir: dir, Key: kind, Pkt: f.Pkt, Action: "refuse"})
			return tcpip.ErrNoBufferSpace
		}
	}
	return nil
}

// Stop ends the pumps (packets still queued are discarded).
func (w *Wire) Stop() {
	w.mu.Lock()
	w.stop = true
	w.cond.Broadcast()
	w.mu.Unlock()
	w.wg.Wait()
	w.taps[0].Forward = nil
	w.taps[1].Forward = nil
	w.taps[0].Refuse = nil
	w.taps[1].Refuse = nil
}

// Events returns what the wire saw so far.
func (w *Wire) Events() []Event {
	w.mu.Lock()
	defer w.mu.Unlock()
	return append([]Event(nil), w.ev...)
}

// SilentFor reports for how long nothing was put on the wire by either side.
func (w *Wire) SilentFor() time.Duration {
	w.mu.Lock()
	defer w.mu.Unlock()
	return time.Since(w.lastActivity)
}

// PendingFaults reports whether packets are still held back by the wire.
func (w *Wire) PendingFaults() bool {
	w.mu.Lock()
	defer w.mu.Unlock()
	return len(w.ds[0].held) > 0 || len(w.ds[1].held) > 0 || len(w.ds[0].q) > 0 || len(w.ds[1].q) > 0
}

// Classify computes the class key of a TCP packet in direction dir, relative
// to the initial sequence numbers the wire has observed. Must hold w.mu.
func (w *Wire) classify(dir int, p *codec.Packet) string {
	if p.L4Kind != "tcp" {
		return "OTHER"
	}
	me, peer := &w.ds[dir], &w.ds[1-dir]
	fl := p.Flags
	if fl&codec.SYN != 0 {
		me.iss, me.haveISS = p.Seq, true
		if fl&codec.ACK != 0 {
			return "SYNACK"
		}
		return "SYN"
	}
	if fl&codec.RST != 0 {
		return "RST"
	}
	rel := p.Seq - me.iss - 1
	key := ""
	switch {
	case len(p.Payload) > 0 && fl&codec.FIN != 0:
		key = fmt.Sprintf("DATAFIN@%d", rel)
	case len(p.Payload) > 0:
		key = fmt.Sprintf("DATA@%d", rel)
	case fl&codec.FIN != 0:
		key = "FIN"
	default:
		arel := p.Ack - peer.iss - 1
		switch {
		case me.haveAck && p.Ack == me.lastAck && me.lastWnd == 0 && p.Wnd > 0:
			key = "WUPD0"
		case me.haveAck && p.Ack == me.lastAck && p.Wnd > me.lastWnd:
			key = fmt.Sprintf("WUPD@%d", arel)
		default:
			key = fmt.Sprintf("ACK@%d", arel)
		}
	}
	if fl&codec.ACK != 0 {
		me.lastAck, me.lastWnd, me.haveAck = p.Ack, p.Wnd, true
	}
	return key
}

func (w *Wire) bgDecision(dir int, key string, occ int) string {
	if w.prog.DropPM+w.prog.DupPM+w.prog.HoldPM == 0 || w.bg >= w.prog.Budget {
		return ""
	}
	h := sha256.New()
	var b [8]byte
	binary.BigEndian.PutUint64(b[:], w.prog.Seed)
	h.Write(b[:])
	fmt.Fprintf(h, "%d|%s|%d", dir, key, occ)
	x := int(binary.BigEndian.Uint32(h.Sum(nil)[:4]) % 1000)
	switch {
	case x < w.prog.DropPM:
		return "bgdrop"
	case x < w.prog.DropPM+w.prog.DupPM:
		return "bgdup"
	case x < w.prog.DropPM+w.prog.DupPM+w.prog.HoldPM:
		return "bghold"
	}
	return ""
}

func (w *Wire) pump(dir int) {
	defer w.wg.Done()
	d := &w.ds[dir]
	for {
		w.mu.Lock()
		for len(d.q) == 0 && !w.stop {
			// release held packets if the direction has been idle for a while:
			// every fault is finite, so held packets are eventually delivered.
			if len(d.held) > 0 {
				w.mu.Unlock()
				time.Sleep(20 * time.Millisecond)
				w.mu.Lock()
				if len(d.q) == 0 && len(d.held) > 0 {
					h := d.held[0]
					d.held = d.held[1:]
					w.mu.Unlock()
					w.deliver(dir, h.f)
					w.mu.Lock()
				}
				continue
			}
			w.cond.Wait()
		}
		if w.stop {
			w.mu.Unlock()
			return
		}
		f := d.q[0]
		d.q = d.q[1:]
		d.count++
		key := w.classify(dir, f.Pkt)
		d.occ[key]++
		action, n := "", 0
		for i := range w.prog.Rules {
			r := &w.prog.Rules[i]
			if r.Dir != dir || r.Key != key || r.Action == "refuse" {
				continue
			}
			r.seen++
			if r.seen > r.Skip && r.fired < r.Count {
				r.fired++
				action, n = r.Action, r.N
				break
			}
		}
		if action == "" {
			action = w.bgDecision(dir, key, d.occ[key])
			if action != "" {
				w.bg++
				n = 2
			}
		}
		w.ev = append(w.ev, Event{T: f.T, Dir: dir, Key: key, Pkt: f.Pkt, Action: action})
		var out []Frame
		switch action {
		case "drop", "bgdrop":
		case "dup", "bgdup":
			if n < 1 {
				n = 1
			}
			for i := 0; i <= n; i++ {
				out = append(out, f)
			}
		case "hold", "bghold":
			if n < 1 {
				n = 1
			}
			d.held = append(d.held, held{f: f, release: d.count + n})
		case "replay":
			if n < 1 {
				n = 1
			}
			out = append(out, f)
			d.held = append(d.held, held{f: f, release: d.count + n, again: true})
		default:
			out = append(out, f)
		}
		// release held packets that are due
		var keep []held
		for _, h := range d.held {
			if h.release <= d.count {
				out = append(out, h.f)
			} else {
				keep = append(keep, h)
			}
		}
		d.held = keep
		w.mu.Unlock()
		for _, o := range out {
			w.deliver(dir, o)
		}
	}
}

func (w *Wire) deliver(dir int, f Frame) {
	dst := w.taps[1-dir]
	chunks := [][]byte{f.Raw}
	if w.Chunk != nil {
		chunks = w.Chunk(f.Raw)
	}
	dst.mu.Lock()
	disp := dst.disp
	dst.mu.Unlock()
	if disp == nil {
		return
	}
	chunks = dst.pad(tcpip.NetworkProtocolNumber(f.Proto), chunks)
	views := make([]buffer.View, 0, len(chunks))
	size := 0
	for _, c := range chunks {
		views = append(views, buffer.NewViewFromBytes(c))
		size += len(c)
	}
	disp.DeliverNetworkPacket(dst, "", "", tcpip.NetworkProtocolNumber(f.Proto), buffer.NewVectorisedView(size, views))
}

// Fired reports how many times each rule acted.
func (w *Wire) Fired() []int {
	w.mu.Lock()
	defer w.mu.Unlock()
	out := make([]int, len(w.prog.Rules))
	for i, r := range w.prog.Rules {
		out[i] = r.fired
	}
	return out
}

// BackgroundFaults reports how many background faults were applied.
func (w *Wire) BackgroundFaults() int {
	w.mu.Lock()
	defer w.mu.Unlock()
	return w.bg
}
