package netsim

import (
	"fmt"
	"sync"
	"syscall"
	"time"

	tcpip "github.com/brewlin/net-protocol/protocol"
	"github.com/brewlin/net-protocol/protocol/link/fdbased"
	"github.com/brewlin/net-protocol/protocol/network/arp"
	"github.com/brewlin/net-protocol/protocol/network/ipv4"
	"github.com/brewlin/net-protocol/protocol/network/ipv6"
	"github.com/brewlin/net-protocol/protocol/transport/tcp"
	"github.com/brewlin/net-protocol/protocol/transport/udp"
	"github.com/brewlin/net-protocol/stack"
	"verifharness/codec"
)

// FD is a SOCK_SEQPACKET socketpair with the repository's own fd-based link
// endpoint on one end and the harness on the other: real Ethernet framing,
// real readv chunking, real dispatch goroutine.
type FD struct {
	Stack    *stack.Stack
	StackMAC []byte
	PeerMAC  []byte
	fd       int // harness end
	stackFD  int
	mu       sync.Mutex
	Closed   chan *tcpip.Error // receives when the endpoint's dispatch loop ends
	ended    chan struct{}     // closed when the dispatch loop has ended
	EthTrace []EthFrame
}

// EthFrame is one Ethernet frame emitted by the stack.
type EthFrame struct {
	T   time.Time
	Raw []byte
	Pkt *codec.Packet
}

// NewFD builds a stack (IPv4, IPv6, ARP, TCP, UDP) on an fd-based NIC.
func NewFD(mtu uint32, addrs4, addrs6 []tcpip.Address, routes []tcpip.Route) (*FD, error) {
	fds, err := syscall.Socketpair(syscall.AF_UNIX, syscall.SOCK_SEQPACKET, 0)
	if err != nil {
		return nil, err
	}
	f := &FD{fd: fds[1], stackFD: fds[0], StackMAC: []byte{2, 0, 0, 0, 0, 1}, PeerMAC: []byte{2, 0, 0, 0, 0, 2}, Closed: make(chan *tcpip.Error, 1), ended: make(chan struct{})}
	syscall.SetNonblock(f.fd, true)
	// the endpoint's readv loop (rawfile.BlockingReadv) is written for a non-blocking
	// descriptor, as every user of fdbased.New sets it up: on a blocking one the
	// dispatch goroutine sits in a raw system call and holds its P, which stalls a
	// stop-the-world of the Go runtime
	syscall.SetNonblock(fds[0], true)
	var once sync.Once
	id := fdbased.New(&fdbased.Options{FD: fds[0], MTU: mtu, Address: tcpip.LinkAddress(f.StackMAC), ResolutionRequired: true,
		CloseFunc: func(e *tcpip.Error) {
			select {
			case f.Closed <- e:
			default:
			}
			once.Do(func() { close(f.ended) })
		}})
	s := stack.New([]string{ipv4.ProtocolName, ipv6.ProtocolName, arp.ProtocolName}, []string{tcp.ProtocolName, udp.ProtocolName}, stack.Options{})
	if e := s.CreateNIC(1, id); e != nil {
		return nil, fmt.Errorf("CreateNIC: %v", e)
	}
	for _, a := range addrs4 {
		s.AddAddress(1, ipv4.ProtocolNumber, a)
	}
	for _, a := range addrs6 {
		s.AddAddress(1, ipv6.ProtocolNumber, a)
	}
	s.AddAddress(1, arp.ProtocolNumber, arp.ProtocolAddress)
	if routes == nil {
		routes = []tcpip.Route{
			{Destination: tcpip.Address("\x00\x00\x00\x00"), Mask: tcpip.AddressMask("\x00\x00\x00\x00"), NIC: 1},
			{Destination: tcpip.Address(make([]byte, 16)), Mask: tcpip.AddressMask(make([]byte, 16)), NIC: 1},
		}
	}
	s.SetRouteTable(routes)
	f.Stack = s
	return f, nil
}

// Write sends one raw Ethernet frame to the stack.
func (f *FD) Write(frame []byte) error {
	for i := 0; i < 200; i++ {
		_, err := syscall.Write(f.fd, frame)
		if err == syscall.EAGAIN {
			time.Sleep(200 * time.Microsecond)
			continue
		}
		return err
	}
	return syscall.EAGAIN
}

// WriteNet wraps a network-layer packet in Ethernet (peer MAC -> stack MAC).
func (f *FD) WriteNet(etherType uint16, pkt []byte) error {
	return f.Write(codec.BuildEth(f.StackMAC, f.PeerMAC, etherType, pkt))
}

// Read returns the next frame emitted by the stack, waiting up to d.
func (f *FD) Read(d time.Duration) (EthFrame, bool) {
	buf := make([]byte, 70000)
	deadline := time.Now().Add(d)
	for {
		n, err := syscall.Read(f.fd, buf)
		if err == nil && n > 0 {
			raw := append([]byte(nil), buf[:n]...)
			ef := EthFrame{T: time.Now(), Raw: raw, Pkt: codec.DecodeEth(raw, codec.DecodeOpts{})}
			f.mu.Lock()
			f.EthTrace = append(f.EthTrace, ef)
			f.mu.Unlock()
			return ef, true
		}
		if time.Now().After(deadline) {
			return EthFrame{}, false
		}
		time.Sleep(100 * time.Microsecond)
	}
}

// ReadMatch reads frames until pred matches or d elapses.
func (f *FD) ReadMatch(d time.Duration, pred func(EthFrame) bool) (EthFrame, bool) {
	deadline := time.Now().Add(d)
	for {
		rem := time.Until(deadline)
		if rem < 0 {
			rem = 0
		}
		ef, ok := f.Read(rem)
		if !ok {
			return EthFrame{}, false
		}
		if pred(ef) {
			return ef, true
		}
	}
}

// Close closes the harness end, waits for the dispatch loop to end (it reads
// end-of-file) and only then closes the stack's end, so that the descriptor
// number is not reused under a loop that still reads from it.
func (f *FD) Close() {
	syscall.Close(f.fd)
	select {
	case <-f.ended:
	case <-time.After(2 * time.Second):
	}
	syscall.Close(f.stackFD)
	ReleaseStack(f.Stack)
}
