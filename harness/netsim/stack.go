package netsim

import (
	"fmt"
	"reflect"

	tcpip "github.com/brewlin/net-protocol/protocol"
	"github.com/brewlin/net-protocol/protocol/network/arp"
	"github.com/brewlin/net-protocol/protocol/network/ipv4"
	"github.com/brewlin/net-protocol/protocol/network/ipv6"
	"github.com/brewlin/net-protocol/protocol/transport/ping"
	"github.com/brewlin/net-protocol/protocol/transport/tcp"
	"github.com/brewlin/net-protocol/protocol/transport/udp"
	"github.com/brewlin/net-protocol/stack"
)

// Addresses used throughout the harness.
var (
	A4 = tcpip.Address("\x0a\x00\x00\x01")
	B4 = tcpip.Address("\x0a\x00\x00\x02")
	C4 = tcpip.Address("\x0a\x00\x00\x03")
	A6 = tcpip.Address("\xfd\x00\x00\x00\x00\x00\x00\x00\x00\x00\x00\x00\x00\x00\x00\x01")
	B6 = tcpip.Address("\xfd\x00\x00\x00\x00\x00\x00\x00\x00\x00\x00\x00\x00\x00\x00\x02")
	C6 = tcpip.Address("\xfd\x00\x00\x00\x00\x00\x00\x00\x00\x00\x00\x00\x00\x00\x00\x03")
)

// StackCfg configures NewStack.
type StackCfg struct {
	Addrs4, Addrs6 []tcpip.Address
	ARP            bool // register ARP and its protocol address on the NIC
	SACK           *bool
	CC             string // "", "reno", "cubic"
	RcvBuf, SndBuf int    // defaults for new TCP endpoints (0 = stack default)
	Ping           bool   // register the ping4 / ping6 transport protocols (ping sockets)
}

// NewStack builds a stack with one NIC (id 1) backed by tap and default routes.
func NewStack(tap *Tap, cfg StackCfg) *stack.Stack {
	nets := []string{ipv4.ProtocolName, ipv6.ProtocolName}
	if cfg.ARP {
		nets = append(nets, arp.ProtocolName)
	}
	trans := []string{tcp.ProtocolName, udp.ProtocolName}
	if cfg.Ping {
		trans = append(trans, ping.ProtocolName4, ping.ProtocolName6)
	}
	s := stack.New(nets, trans, stack.Options{})
	if err := s.CreateNIC(1, stack.RegisterLinkEndpoint(tap)); err != nil {
		panic(fmt.Sprint("CreateNIC: ", err))
	}
	for _, a := range cfg.Addrs4 {
		if err := s.AddAddress(1, ipv4.ProtocolNumber, a); err != nil {
			panic(fmt.Sprint("AddAddress: ", err))
		}
	}
	for _, a := range cfg.Addrs6 {
		if err := s.AddAddress(1, ipv6.ProtocolNumber, a); err != nil {
			panic(fmt.Sprint("AddAddress6: ", err))
		}
	}
	if cfg.ARP {
		if err := s.AddAddress(1, arp.ProtocolNumber, arp.ProtocolAddress); err != nil {
			panic(fmt.Sprint("AddAddress arp: ", err))
		}
	}
	s.SetRouteTable([]tcpip.Route{
		{Destination: tcpip.Address("\x00\x00\x00\x00"), Mask: tcpip.AddressMask("\x00\x00\x00\x00"), NIC: 1},
		{Destination: tcpip.Address(make([]byte, 16)), Mask: tcpip.AddressMask(make([]byte, 16)), NIC: 1},
	})
	if cfg.SACK != nil {
		if err := s.SetTransportProtocolOption(tcp.ProtocolNumber, tcp.SACKEnabled(*cfg.SACK)); err != nil {
			panic(fmt.Sprint("SACKEnabled: ", err))
		}
	}
	if cfg.CC != "" {
		if err := s.SetTransportProtocolOption(tcp.ProtocolNumber, tcp.CongestionControlOption(cfg.CC)); err != nil {
			panic(fmt.Sprint("CongestionControlOption: ", err))
		}
	}
	if cfg.RcvBuf > 0 {
		min := 4096
		if cfg.RcvBuf < min {
			min = cfg.RcvBuf
		}
		max := 4 << 20
		if cfg.RcvBuf > max {
			max = cfg.RcvBuf
		}
		if err := s.SetTransportProtocolOption(tcp.ProtocolNumber, tcp.ReceiveBufferSizeOption{Min: min, Default: cfg.RcvBuf, Max: max}); err != nil {
			panic(fmt.Sprint("ReceiveBufferSizeOption: ", err))
		}
	}
	if cfg.SndBuf > 0 {
		min := 4096
		if cfg.SndBuf < min {
			min = cfg.SndBuf
		}
		max := 4 << 20
		if cfg.SndBuf > max {
			max = cfg.SndBuf
		}
		if err := s.SetTransportProtocolOption(tcp.ProtocolNumber, tcp.SendBufferSizeOption{Min: min, Default: cfg.SndBuf, Max: max}); err != nil {
			panic(fmt.Sprint("SendBufferSizeOption: ", err))
		}
	}
	return s
}

// StatsString renders the non-zero counters of a stack.
func StatsString(s *stack.Stack) string {
	out := ""
	var walk func(prefix string, v reflect.Value)
	walk = func(prefix string, v reflect.Value) {
		for i := 0; i < v.NumField(); i++ {
			f := v.Field(i)
			name := prefix + v.Type().Field(i).Name
			switch f.Kind() {
			case reflect.Ptr:
				if c, ok := f.Interface().(*tcpip.StatCounter); ok && c != nil && c.Value() != 0 {
					out += fmt.Sprintf("%s=%d ", name, c.Value())
				}
			case reflect.Struct:
				walk(name+".", f)
			}
		}
	}
	walk("", reflect.ValueOf(s.Stats()))
	return out
}

// ReleaseStack lets a finished case's stack be collected: every IPv4 address
// is removed (which ends the per-address echo replier goroutine that would
// otherwise keep the stack alive) and the taps are released.
func ReleaseStack(s *stack.Stack, taps ...*Tap) {
	if s != nil {
		for id, info := range s.NICInfo() {
			for _, pa := range info.ProtocolAddresses {
				if pa.Protocol == ipv4.ProtocolNumber {
					s.RemoveAddress(id, pa.Address)
				}
			}
		}
	}
	for _, t := range taps {
		if t != nil {
			t.Release()
		}
	}
}
