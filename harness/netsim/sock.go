package netsim

import (
	"time"

	"github.com/brewlin/net-protocol/pkg/waiter"
	tcpip "github.com/brewlin/net-protocol/protocol"
	"github.com/brewlin/net-protocol/stack"
)

// Sock couples an endpoint with its wait queue and offers blocking helpers
// that follow the register-then-retry pattern the waiter package documents.
type Sock struct {
	EP tcpip.Endpoint
	WQ *waiter.Queue
}

func NewSock(s *stack.Stack, trans tcpip.TransportProtocolNumber, net tcpip.NetworkProtocolNumber) (*Sock, *tcpip.Error) {
	wq := &waiter.Queue{}
	ep, err := s.NewEndpoint(trans, net, wq)
	if err != nil {
		return nil, err
	}
	return &Sock{EP: ep, WQ: wq}, nil
}

// waitFor registers for mask, runs try until it does not return
// ErrWouldBlock, waiting for a notification between attempts.
// ok=false means the deadline passed while still blocked.
func (s *Sock) waitFor(mask waiter.EventMask, d time.Duration, try func() *tcpip.Error) (err *tcpip.Error, ok bool) {
	we, ch := waiter.NewChannelEntry(nil)
	s.WQ.EventRegister(&we, mask)
	defer s.WQ.EventUnregister(&we)
	deadline := time.NewTimer(d)
	defer deadline.Stop()
	for {
		err = try()
		if err != tcpip.ErrWouldBlock {
			return err, true
		}
		select {
		case <-ch:
		case <-deadline.C:
			// one last attempt: a notification may have been lost by the code under test, not by us
			err = try()
			return err, err != tcpip.ErrWouldBlock
		}
	}
}

// Connect starts a connection and waits until it completes or fails.
// ok=false: still in progress after d.
func (s *Sock) Connect(addr tcpip.FullAddress, d time.Duration) (*tcpip.Error, bool) {
	return s.ConnectNotify(addr, d, nil)
}

// ConnectNotify is Connect; started (if non-nil) runs right after the
// non-blocking Connect call returned.
func (s *Sock) ConnectNotify(addr tcpip.FullAddress, d time.Duration, started func()) (*tcpip.Error, bool) {
	we, ch := waiter.NewChannelEntry(nil)
	s.WQ.EventRegister(&we, waiter.EventOut)
	defer s.WQ.EventUnregister(&we)
	err := s.EP.Connect(addr)
	if started != nil {
		started()
	}
	if err != tcpip.ErrConnectStarted {
		return err, true
	}
	select {
	case <-ch:
		return s.EP.GetSockOpt(tcpip.ErrorOption{}), true
	case <-time.After(d):
		return nil, false
	}
}

// Accept waits for a connection.
func (s *Sock) Accept(d time.Duration) (*Sock, *tcpip.Error, bool) {
	var ns *Sock
	err, ok := s.waitFor(waiter.EventIn, d, func() *tcpip.Error {
		ep, wq, e := s.EP.Accept()
		if e == nil {
			ns = &Sock{EP: ep, WQ: wq}
		}
		return e
	})
	return ns, err, ok
}

// Read waits for data; returns the view read.
func (s *Sock) Read(d time.Duration, from *tcpip.FullAddress) ([]byte, *tcpip.Error, bool) {
	var v []byte
	err, ok := s.waitFor(waiter.EventIn, d, func() *tcpip.Error {
		b, _, e := s.EP.Read(from)
		if e == nil {
			v = b
		}
		return e
	})
	return v, err, ok
}

// Write writes all of b (honouring partial writes); returns bytes accepted.
// progress, if non-nil, is called with the number of bytes accepted by each call.
func (s *Sock) Write(b []byte, d time.Duration) (int, *tcpip.Error, bool) {
	return s.WriteProgress(b, d, nil)
}

func (s *Sock) WriteProgress(b []byte, d time.Duration, progress func(n int)) (int, *tcpip.Error, bool) {
	we, ch := waiter.NewChannelEntry(nil)
	s.WQ.EventRegister(&we, waiter.EventOut)
	defer s.WQ.EventUnregister(&we)
	deadline := time.NewTimer(d)
	defer deadline.Stop()
	total := 0
	expired := false
	for len(b) > 0 {
		n, _, err := s.EP.Write(tcpip.SlicePayload(b), tcpip.WriteOptions{})
		if n > 0 {
			total += int(n)
			b = b[n:]
			if progress != nil {
				progress(int(n))
			}
		}
		if err != nil && err != tcpip.ErrWouldBlock {
			return total, err, true
		}
		if len(b) == 0 {
			break
		}
		if err == tcpip.ErrWouldBlock || n == 0 {
			if expired {
				return total, nil, false
			}
			select {
			case <-ch:
			case <-deadline.C:
				expired = true // one more attempt, then give up
			}
		}
	}
	return total, nil, true
}
