// Package netsim provides the harness-side network: a link endpoint that
// records (and independently decodes) everything the stack emits, injection of
// arbitrary frames, stack construction helpers, blocking socket helpers and a
// two-stack wire with content-keyed fault programs.
package netsim

import (
	"sync"
	"time"

	"github.com/brewlin/net-protocol/pkg/buffer"
	tcpip "github.com/brewlin/net-protocol/protocol"
	"github.com/brewlin/net-protocol/stack"
	"verifharness/codec"
)

// Frame is one packet the stack handed to the link endpoint.
type Frame struct {
	T      time.Time
	Proto  tcpip.NetworkProtocolNumber
	Raw    []byte        // network-layer bytes (header + payload)
	Pkt    *codec.Packet // independent decoding of Raw
	Remote tcpip.LinkAddress
	Local  tcpip.LinkAddress
	Seq    int // index in the tap's trace
	// Refused: the link endpoint returned an error for this frame (transmit
	// fault injected through Tap.Refuse); it was not transmitted
	Refused bool
}

// Tap is a stack.LinkEndpoint owned by the harness.
type Tap struct {
	MTUv    uint32
	Caps    stack.LinkEndpointCapabilities
	Addr    tcpip.LinkAddress
	HdrLen  uint16
	Forward func(f Frame) // called synchronously on the emitting goroutine (may be nil)
	// Refuse, when set, is asked about every frame before it is transmitted; a
	// non-nil error is returned to the stack from WritePacket (a transient
	// transmit fault of the device) and the frame is recorded as Refused
	Refuse func(f Frame) *tcpip.Error
	// PadIn > 0: every IPv4 / IPv6 packet handed to the stack (Inject*, and the wire
	// between two stacks) carries that many trailing bytes beyond the datagram, as a
	// link that pads short frames or appends a trailer does; with PadMin > 0 packets
	// are padded up to that length instead (Ethernet: 46)
	PadIn  int
	PadMin int

	mu    sync.Mutex
	cond  *sync.Cond
	disp  stack.NetworkDispatcher
	trace []Frame
	read  int // cursor for Next
}

func NewTap(mtu uint32) *Tap {
	t := &Tap{MTUv: mtu}
	t.cond = sync.NewCond(&t.mu)
	return t
}

func (t *Tap) MTU() uint32                                  { return t.MTUv }
func (t *Tap) Capabilities() stack.LinkEndpointCapabilities { return t.Caps }
func (t *Tap) MaxHeaderLength() uint16                      { return t.HdrLen }
func (t *Tap) LinkAddress() tcpip.LinkAddress               { return t.Addr }
func (t *Tap) Attach(d stack.NetworkDispatcher) {
	t.mu.Lock()
	t.disp = d
	t.mu.Unlock()
}
func (t *Tap) IsAttached() bool {
	t.mu.Lock()
	defer t.mu.Unlock()
	return t.disp != nil
}

// WritePacket implements stack.LinkEndpoint. It never blocks.
func (t *Tap) WritePacket(r *stack.Route, hdr buffer.Prependable, payload buffer.VectorisedView, p tcpip.NetworkProtocolNumber) *tcpip.Error {
	now := time.Now()
	h := hdr.View()
	b := make([]byte, 0, len(h)+payload.Size())
	b = append(b, h...)
	for _, v := range payload.Views() {
		b = append(b, v...)
	}
	f := Frame{T: now, Proto: p, Raw: b}
	if r != nil {
		f.Remote = r.RemoteLinkAddress
		f.Local = r.LocalLinkAddress
	}
	f.Pkt = codec.DecodeNet(uint16(p), b, codec.DecodeOpts{L4ChecksumOffload: t.Caps&stack.CapabilityChecksumOffload != 0})
	t.mu.Lock()
	refuse := t.Refuse
	t.mu.Unlock()
	var rerr *tcpip.Error
	if refuse != nil {
		if rerr = refuse(f); rerr != nil {
			f.Refused = true
		}
	}
	t.mu.Lock()
	f.Seq = len(t.trace)
	t.trace = append(t.trace, f)
	fw := t.Forward
	t.cond.Broadcast()
	t.mu.Unlock()
	if rerr != nil {
		return rerr
	}
	if fw != nil {
		fw(f)
	}
	return nil
}

// Release drops everything the tap references (dispatcher, trace, forwarding)
// so that the stack behind it can be collected: the repository keeps every
// registered link endpoint in a process-global table for good.
func (t *Tap) Release() {
	t.mu.Lock()
	t.disp = nil
	t.trace = nil
	t.read = 0
	t.Forward = nil
	t.cond.Broadcast()
	t.mu.Unlock()
}

// SetForward replaces the synchronous forwarding callback.
func (t *Tap) SetForward(f func(Frame)) {
	t.mu.Lock()
	t.Forward = f
	t.mu.Unlock()
}

// Inject delivers a network-layer packet to the stack as one view.
func (t *Tap) Inject(proto tcpip.NetworkProtocolNumber, b []byte) {
	t.InjectViews(proto, "", [][]byte{b})
}

// InjectFrom is Inject with a remote link address.
func (t *Tap) InjectFrom(proto tcpip.NetworkProtocolNumber, remote tcpip.LinkAddress, b []byte) {
	t.InjectViews(proto, remote, [][]byte{b})
}

// InjectViews delivers a packet split into the given chunks (each chunk is
// copied, so the stack owns what it receives).
func (t *Tap) InjectViews(proto tcpip.NetworkProtocolNumber, remote tcpip.LinkAddress, chunks [][]byte) {
	t.mu.Lock()
	d := t.disp
	t.mu.Unlock()
	if d == nil {
		return
	}
	chunks = t.pad(proto, chunks)
	views := make([]buffer.View, 0, len(chunks))
	size := 0
	for _, c := range chunks {
		views = append(views, buffer.NewViewFromBytes(c))
		size += len(c)
	}
	d.DeliverNetworkPacket(t, remote, t.Addr, proto, buffer.NewVectorisedView(size, views))
}

// pad appends the link's trailing bytes to the last chunk (see PadIn).
func (t *Tap) pad(proto tcpip.NetworkProtocolNumber, chunks [][]byte) [][]byte {
	if (t.PadIn <= 0 && t.PadMin <= 0) || len(chunks) == 0 || (proto != 0x0800 && proto != 0x86dd) {
		return chunks
	}
	total := 0
	for _, c := range chunks {
		total += len(c)
	}
	n := t.PadIn
	if t.PadMin > 0 {
		n = t.PadMin - total
	}
	if n <= 0 {
		return chunks
	}
	out := append([][]byte(nil), chunks...)
	last := append([]byte(nil), out[len(out)-1]...)
	for i := 0; i < n; i++ {
		last = append(last, 0xee)
	}
	out[len(out)-1] = last
	return out
}

// Split cuts b at the given offsets (ascending, within bounds; others ignored).
func Split(b []byte, cuts []int) [][]byte {
	var out [][]byte
	prev := 0
	for _, c := range cuts {
		if c <= prev || c >= len(b) {
			continue
		}
		out = append(out, b[prev:c])
		prev = c
	}
	return append(out, b[prev:])
}

// Trace returns a copy of everything emitted so far.
func (t *Tap) Trace() []Frame {
	t.mu.Lock()
	defer t.mu.Unlock()
	return append([]Frame(nil), t.trace...)
}

// Len returns the number of frames emitted so far.
func (t *Tap) Len() int {
	t.mu.Lock()
	defer t.mu.Unlock()
	return len(t.trace)
}

// Next returns the next not yet consumed frame, waiting up to d for it.
func (t *Tap) Next(d time.Duration) (Frame, bool) {
	deadline := time.Now().Add(d)
	t.mu.Lock()
	defer t.mu.Unlock()
	for t.read >= len(t.trace) {
		rem := time.Until(deadline)
		if rem <= 0 {
			return Frame{}, false
		}
		tm := time.AfterFunc(rem, func() {
			t.mu.Lock()
			t.cond.Broadcast()
			t.mu.Unlock()
		})
		t.cond.Wait()
		tm.Stop()
	}
	f := t.trace[t.read]
	t.read++
	return f, true
}

// NextMatch consumes frames until one satisfies pred (returned) or d elapses.
func (t *Tap) NextMatch(d time.Duration, pred func(Frame) bool) (Frame, bool) {
	deadline := time.Now().Add(d)
	for {
		rem := time.Until(deadline)
		if rem < 0 {
			rem = 0
		}
		f, ok := t.Next(rem)
		if !ok {
			return Frame{}, false
		}
		if pred(f) {
			return f, true
		}
	}
}

// Scan waits up to d for a frame with index >= from that satisfies pred and
// returns it with the index to continue from. It does not touch the cursor
// used by Next, so several observers can share a tap.
func (t *Tap) Scan(from int, d time.Duration, pred func(Frame) bool) (Frame, int, bool) {
	deadline := time.Now().Add(d)
	t.mu.Lock()
	defer t.mu.Unlock()
	i := from
	for {
		for ; i < len(t.trace); i++ {
			if pred(t.trace[i]) {
				return t.trace[i], i + 1, true
			}
		}
		rem := time.Until(deadline)
		if rem <= 0 {
			return Frame{}, i, false
		}
		tm := time.AfterFunc(rem, func() {
			t.mu.Lock()
			t.cond.Broadcast()
			t.mu.Unlock()
		})
		t.cond.Wait()
		tm.Stop()
	}
}

// Drain consumes everything emitted so far and returns it.
func (t *Tap) Drain() []Frame {
	t.mu.Lock()
	defer t.mu.Unlock()
	out := append([]Frame(nil), t.trace[t.read:]...)
	t.read = len(t.trace)
	return out
}

// Quiesce waits until nothing has been emitted for `quiet`, at most `max`.
// It returns true if quiescence was reached.
func (t *Tap) Quiesce(quiet, max time.Duration) bool {
	deadline := time.Now().Add(max)
	for {
		t.mu.Lock()
		n := len(t.trace)
		var last time.Time
		if n > 0 {
			last = t.trace[n-1].T
		}
		t.mu.Unlock()
		if n == 0 || time.Since(last) >= quiet {
			// make sure at least `quiet` passed since we started looking, too
			time.Sleep(quiet / 4)
			t.mu.Lock()
			same := len(t.trace) == n
			t.mu.Unlock()
			if same && (n == 0 || time.Since(last) >= quiet) {
				return true
			}
		}
		if time.Now().After(deadline) {
			return false
		}
		time.Sleep(quiet / 4)
	}
}
