package netsim

import (
	"encoding/binary"
	"fmt"
	"sync"
	"time"

	"github.com/brewlin/net-protocol/pkg/rand"
	tcpip "github.com/brewlin/net-protocol/protocol"
	"github.com/brewlin/net-protocol/protocol/network/ipv4"
	"github.com/brewlin/net-protocol/protocol/network/ipv6"
	"github.com/brewlin/net-protocol/protocol/transport/tcp"
	"github.com/brewlin/net-protocol/stack"
	"verifharness/codec"
)

// issHook serves 4-byte reads of pkg/rand (hook H2) with a chosen value while
// armed. One case at a time per process.
var issHook struct {
	mu    sync.Mutex
	armed bool
	val   uint32
	used  int
}

func init() {
	rand.SetVerifSource(func(b []byte) bool {
		if len(b) != 4 {
			return false
		}
		issHook.mu.Lock()
		defer issHook.mu.Unlock()
		if !issHook.armed {
			return false
		}
		// handshake.resetState assembles the ISS little-endian
		binary.LittleEndian.PutUint32(b, issHook.val)
		issHook.used++
		return true
	})
}

var placeMu sync.Mutex

// ArmISS makes every 4-byte random read return v until DisarmISS.
func ArmISS(v uint32) {
	issHook.mu.Lock()
	issHook.armed, issHook.val, issHook.used = true, v, 0
	issHook.mu.Unlock()
}

// PlaceISSBegin / PlaceISSEnd bracket the short window in which one endpoint
// chooses its ISS (serialised: the hook is process-global).
func PlaceISSBegin(v uint32) {
	placeMu.Lock()
	ArmISS(v)
}

func PlaceISSEnd() {
	DisarmISS()
	placeMu.Unlock()
}

func DisarmISS() {
	issHook.mu.Lock()
	issHook.armed = false
	issHook.mu.Unlock()
}

// PairCfg configures two stacks joined by a Wire.
type PairCfg struct {
	V6     bool   `json:"v6"`
	SACK   bool   `json:"sack"`
	CC     string `json:"cc"` // "reno" | "cubic"
	MTU    int    `json:"mtu"`
	SndBuf int    `json:"sndbuf"`
	RcvBuf int    `json:"rcvbuf"`
	// ISS placement: 0 random; otherwise the active opener's ISS is set to
	// ActiveISS and (if PlacePassive) the passive side's to PassiveISS.
	PlaceActive  bool   `json:"place_active"`
	ActiveISS    uint32 `json:"active_iss"`
	PlacePassive bool   `json:"place_passive"`
	PassiveISS   uint32 `json:"passive_iss"`
	Chunk        int    `json:"chunk"` // 0: single view; k>0: split delivered packets into k-byte views
	// Pad: 0 none; 46: the link pads short frames to the Ethernet minimum; other k>0: k trailing bytes on every packet
	Pad int `json:"pad,omitempty"`
	// KeepaliveMs > 0: both endpoints run TCP keep-alive with that idle time and probe
	// interval and a budget of 4 unanswered probes; a healthy idle connection must survive it
	KeepaliveMs int     `json:"keepalive_ms,omitempty"`
	// BindAddr: the client binds to its specific local address (not only to the
	// port) before it connects
	BindAddr bool `json:"bind_addr,omitempty"`
	// DualListener (IPv4 pairs): the listener is an IPv6 socket with v6only off, bound
	// to the wildcard address; the IPv4 client reaches it through the dual-stack path
	DualListener bool `json:"dual_listener,omitempty"`
	Prog        Program `json:"prog"`
}

// Pair is two stacks, A (active opener) and B (listener).
type Pair struct {
	Cfg          PairCfg
	SA, SB       *stack.Stack
	TA, TB       *Tap
	W            *Wire
	L            *Sock // listener on B
	C, S         *Sock // client on A, accepted on B
	AddrA, AddrB tcpip.Address
	Net          tcpip.NetworkProtocolNumber
	// Observed initial sequence numbers (from the wire).
	ISSA, ISSB    uint32
	PassivePlaced bool
}

const PairPort = 80
const PairClientPort = 40000

func NewPair(cfg PairCfg) *Pair {
	p := &Pair{Cfg: cfg}
	mtu := uint32(cfg.MTU)
	if mtu == 0 {
		mtu = 1500
	}
	p.TA, p.TB = NewTap(mtu), NewTap(mtu)
	for _, t := range []*Tap{p.TA, p.TB} {
		if cfg.Pad == 46 {
			t.PadMin = 46
		} else if cfg.Pad > 0 {
			t.PadIn = cfg.Pad
		}
	}
	sack := cfg.SACK
	sc := StackCfg{Addrs4: nil, SACK: &sack, CC: cfg.CC, RcvBuf: cfg.RcvBuf, SndBuf: cfg.SndBuf}
	ca, cb := sc, sc
	ca.Addrs4, ca.Addrs6 = []tcpip.Address{A4}, []tcpip.Address{A6}
	cb.Addrs4, cb.Addrs6 = []tcpip.Address{B4}, []tcpip.Address{B6}
	p.SA = NewStack(p.TA, ca)
	p.SB = NewStack(p.TB, cb)
	p.AddrA, p.AddrB, p.Net = A4, B4, ipv4.ProtocolNumber
	if cfg.V6 {
		p.AddrA, p.AddrB, p.Net = A6, B6, ipv6.ProtocolNumber
	}
	p.W = NewWire(p.TA, p.TB, cfg.Prog)
	if cfg.Chunk > 0 {
		k := cfg.Chunk
		p.W.Chunk = func(b []byte) [][]byte { return ChunkLikeLink(b, k) }
	}
	return p
}

// Establish opens the listener, connects and accepts. It returns "" on
// success, otherwise a description (not necessarily a violation).
func (p *Pair) Establish(d time.Duration) string {
	var err *tcpip.Error
	lnet := p.Net
	if p.Cfg.DualListener && !p.Cfg.V6 {
		lnet = ipv6.ProtocolNumber
	}
	p.L, err = NewSock(p.SB, tcp.ProtocolNumber, lnet)
	if err != nil {
		return "listener: " + err.String()
	}
	if lnet != p.Net {
		if err = p.L.EP.SetSockOpt(tcpip.V6OnlyOption(0)); err != nil {
			return "listener v6only off: " + err.String()
		}
	}
	if err = p.L.EP.Bind(tcpip.FullAddress{Port: PairPort}, nil); err != nil {
		return "bind: " + err.String()
	}
	if err = p.L.EP.Listen(8); err != nil {
		return "listen: " + err.String()
	}
	p.C, err = NewSock(p.SA, tcp.ProtocolNumber, p.Net)
	if err != nil {
		return "client: " + err.String()
	}
	bindTo := tcpip.FullAddress{Port: PairClientPort}
	if p.Cfg.BindAddr {
		bindTo.Addr = p.AddrA
	}
	if err = p.C.EP.Bind(bindTo, nil); err != nil {
		return "client bind: " + err.String()
	}
	active := p.Cfg.ActiveISS
	if p.Cfg.PlacePassive {
		// The listener's ISS is a SYN cookie that is linear in the peer's ISS.
		// Probe with a forged SYN injected at B (A answers the SYN-ACK with a
		// RST because it has no socket yet, which clears B's half-open state),
		// then choose the real ISS so that the cookie lands on the target.
		probe := uint32(0x1000)
		// the cookie also encodes the MSS class of the SYN: use the MSS the real SYN will carry
		probeMSS := int(p.TA.MTUv) - 40
		if p.Cfg.V6 {
			probeMSS = int(p.TA.MTUv) - 60
		}
		if probeMSS > 65535 {
			probeMSS = 65535
		}
		n0 := p.TB.Len()
		fw := p.TB.Forward
		p.TB.SetForward(nil)
		inj := func(seg []byte) {
			if p.Cfg.V6 {
				p.TB.Inject(ipv6.ProtocolNumber, codec.BuildIPv6(codec.IPv6Hdr{Src: []byte(p.AddrA), Dst: []byte(p.AddrB), NextHeader: codec.ProtoTCP}, seg))
			} else {
				p.TB.Inject(ipv4.ProtocolNumber, codec.BuildIPv4(codec.IPv4Hdr{Src: []byte(p.AddrA), Dst: []byte(p.AddrB), Proto: codec.ProtoTCP}, seg))
			}
		}
		seg := codec.BuildTCP([]byte(p.AddrA), []byte(p.AddrB), codec.TCPSeg{SrcPort: PairClientPort, DstPort: PairPort, Seq: probe, Flags: codec.SYN, Wnd: 65535, Opts: codec.OptMSS(uint16(probeMSS))})
		inj(seg)
		deadline := time.Now().Add(2 * time.Second)
		found := false
		var s1 uint32
		for time.Now().Before(deadline) && !found {
			tr := p.TB.Trace()
			for _, f := range tr[n0:] {
				if f.Pkt.L4Kind == "tcp" && f.Pkt.Flags&(codec.SYN|codec.ACK) == codec.SYN|codec.ACK {
					s1, found = f.Pkt.Seq, true
					break
				}
			}
			if !found {
				time.Sleep(time.Millisecond)
			}
		}
		if found {
			// clear B's half-open endpoint with a reset in its window
			inj(codec.BuildTCP([]byte(p.AddrA), []byte(p.AddrB), codec.TCPSeg{SrcPort: PairClientPort, DstPort: PairPort, Seq: probe + 1, Flags: codec.RST}))
			time.Sleep(20 * time.Millisecond)
			active = probe + (p.Cfg.PassiveISS - s1)
		}
		p.TB.SetForward(fw)
	}
	placing := p.Cfg.PlaceActive || p.Cfg.PlacePassive
	if placing {
		// the hook is process-global: serialise the short window in which the
		// SYN's sequence number is chosen
		placeMu.Lock()
		ArmISS(active)
	}
	n0 := p.TA.Len()
	cerr, ok := p.C.ConnectNotify(tcpip.FullAddress{Addr: p.AddrB, Port: PairPort}, d, func() {
		if !placing {
			return
		}
		deadline := time.Now().Add(2 * time.Second)
		for time.Now().Before(deadline) {
			seen := false
			for _, f := range p.TA.Trace()[n0:] {
				if f.Pkt.L4Kind == "tcp" && f.Pkt.Flags&codec.SYN != 0 {
					seen = true
				}
			}
			if seen {
				break
			}
			time.Sleep(200 * time.Microsecond)
		}
		DisarmISS()
		placeMu.Unlock()
	})
	if !ok {
		return "connect: still in progress at deadline"
	}
	if cerr != nil {
		return "connect: " + cerr.String()
	}
	s, aerr, ok := p.L.Accept(d)
	if !ok {
		return "accept: nothing at deadline"
	}
	if aerr != nil {
		return "accept: " + aerr.String()
	}
	p.S = s
	if p.Cfg.KeepaliveMs > 0 {
		d := time.Duration(p.Cfg.KeepaliveMs) * time.Millisecond
		for _, ep := range []tcpip.Endpoint{p.C.EP, p.S.EP} {
			ep.SetSockOpt(tcpip.KeepaliveIdleOption(d))
			ep.SetSockOpt(tcpip.KeepaliveIntervalOption(d))
			ep.SetSockOpt(tcpip.KeepaliveCountOption(4))
			ep.SetSockOpt(tcpip.KeepaliveEnabledOption(1))
		}
	}
	for _, e := range p.W.Events() {
		if e.Pkt.L4Kind != "tcp" {
			continue
		}
		if e.Key == "SYN" && e.Dir == 0 {
			p.ISSA = e.Pkt.Seq
		}
		if e.Key == "SYNACK" && e.Dir == 1 {
			p.ISSB = e.Pkt.Seq
		}
	}
	p.PassivePlaced = p.Cfg.PlacePassive && p.ISSB == p.Cfg.PassiveISS
	return ""
}

// Close releases everything.
func (p *Pair) Close() {
	for _, s := range []*Sock{p.C, p.S, p.L} {
		if s != nil {
			s.EP.Close()
		}
	}
	// let the resets / FINs drain so protocol goroutines can exit
	time.Sleep(2 * time.Millisecond)
	p.W.Stop()
	ReleaseStack(p.SA, p.TA)
	ReleaseStack(p.SB, p.TB)
}

// TraceTail renders the last n wire events.
func (p *Pair) TraceTail(n int) string {
	all := p.W.Events()
	var t0 time.Time
	if len(all) > 0 {
		t0 = all[0].T
	}
	// exchanges that repeat unchanged (keep-alive probes and their answers, window
	// probes) are folded: a line identical to one of the previous four is counted
	type line struct {
		id, text string
		rep      int
	}
	var ls []line
	for _, e := range all {
		k := e.Pkt
		id := fmt.Sprintf("%d|%s|%s|%d|%d|%d|%d|%d", e.Dir, e.Key, e.Action, k.Flags, k.Seq, k.Ack, k.Wnd, len(k.Payload))
		folded := false
		for j := len(ls) - 1; j >= 0 && j >= len(ls)-4; j-- {
			if ls[j].id == id {
				ls[j].rep++
				folded = true
				break
			}
		}
		if !folded {
			ls = append(ls, line{id: id, text: fmt.Sprintf("  +%7.1fms %s %-12s %-6s %s", float64(e.T.Sub(t0).Microseconds())/1000, []string{"A>B", "B>A"}[e.Dir], e.Key, e.Action, e.Pkt)})
		}
	}
	if len(ls) > n {
		ls = ls[len(ls)-n:]
	}
	s := ""
	for _, l := range ls {
		s += l.text
		if l.rep > 0 {
			s += fmt.Sprintf("   [and %d more like it]", l.rep)
		}
		s += "\n"
	}
	return s
}

// ChunkLikeLink splits a network-layer packet the way a link endpoint may hand
// it to the stack: mode 1 = the fd-based endpoint's buffer sizes (minus the
// 14-byte Ethernet header in the first), mode k>1 = 114 bytes then k-byte views.
func ChunkLikeLink(b []byte, mode int) [][]byte {
	if mode <= 0 || len(b) <= 114 {
		return [][]byte{b}
	}
	out := [][]byte{b[:114]}
	b = b[114:]
	sizes := []int{256, 256, 512, 1024, 2048, 4096, 8192, 16384, 32768}
	for i := 0; len(b) > 0; i++ {
		k := mode
		if mode == 1 {
			k = sizes[len(sizes)-1]
			if i < len(sizes) {
				k = sizes[i]
			}
		}
		if k > len(b) {
			k = len(b)
		}
		out = append(out, b[:k])
		b = b[k:]
	}
	return out
}
