package c15

import (
	"bytes"
	"fmt"
	"reflect"
	"testing"

	"github.com/brewlin/net-protocol/pkg/seqnum"
	"github.com/brewlin/net-protocol/protocol/header"
	"pgregory.net/rapid"
	"verifharness/evid"
)

// OptCase: the items are encoded one after the other the way
// protocol/transport/tcp does it (offset += EncodeX(..., options[offset:]))
// into an option buffer of Size bytes that sits at Off inside a poisoned
// buffer; Pad quad-aligns with AddTCPOptionPadding when the buffer has room
// for it (its documented precondition). The written prefix is then parsed as
// a s[:n:n] slice in front of two different kinds of junk.
type OptCase struct {
	Items []OptItem `json:"items"`
	Size  int       `json:"size"`
	Pad   bool      `json:"pad"`
	IsAck bool      `json:"isack"`
	Off   int       `json:"off"`
}

func callOptEncoder(it OptItem, b []byte) int {
	switch it.K {
	case "mss":
		return header.EncodeMSSOption(it.A, b)
	case "ws":
		return header.EncodeWSOption(int(it.A), b)
	case "ts":
		return header.EncodeTSOption(it.A, it.B, b)
	case "sackperm":
		return header.EncodeSACKPermittedOption(b)
	case "sack":
		var bl []header.SACKBlock
		for i := 0; i+1 < len(it.Blk); i += 2 {
			bl = append(bl, header.SACKBlock{Start: seqnum.Value(it.Blk[i]), End: seqnum.Value(it.Blk[i+1])})
		}
		return header.EncodeSACKBlocks(bl, b)
	case "nop":
		return header.EncodeNOP(b)
	}
	// "unk" / "eol": an option of a foreign implementation, written by the harness itself
	w, _ := refEncodeOpt(it, len(b))
	return copy(b, w)
}

func optItemValid(it OptItem) bool {
	switch it.K {
	case "mss":
		return it.A >= 1 && it.A <= 0xffff // 0 is excluded, see plan.json assumptions
	case "ws":
		return it.A <= 0xff
	case "ts", "sackperm", "nop":
		return true
	case "sack":
		return len(it.Blk)%2 == 0 && len(it.Blk) <= 12
	case "unk":
		k := it.A
		return k >= 6 && k <= 255 && k != 8 && len(it.P) <= 38
	case "eol":
		return len(it.P) <= 40
	}
	return false
}

// junkFill writes one of two junk patterns behind the parsed slice. Pattern 1
// looks like more, well-formed, options; pattern 0 is all ones.
func junkFill(b []byte, which int) {
	if which == 0 {
		for i := range b {
			b[i] = 0xff
		}
		return
	}
	p := []byte{8, 10, 1, 2, 3, 4, 5, 6, 7, 8, 2, 4, 0x12, 0x34, 3, 3, 7, 4, 2, 5, 10, 9, 9, 9, 9, 8, 8, 8, 8}
	for i := range b {
		b[i] = p[i%len(p)]
	}
}

func sackU32(bl []header.SACKBlock) []uint32 {
	var out []uint32
	for _, b := range bl {
		out = append(out, uint32(b.Start), uint32(b.End))
	}
	return out
}

func eqU32(a, b []uint32) bool {
	if len(a) != len(b) {
		return false
	}
	for i := range a {
		if a[i] != b[i] {
			return false
		}
	}
	return true
}

func runOpts(c OptCase) (nOpts int, f *evid.Failure) {
	if c.Size < 0 || c.Size > 128 || c.Off < 0 || c.Off > 16 || len(c.Items) > 40 {
		evid.Exclude("malformed-case")
		return 0, nil
	}
	once := map[string]bool{}
	for _, it := range c.Items {
		if !optItemValid(it) || (it.K != "nop" && it.K != "unk" && once[it.K]) {
			evid.Exclude("malformed-case")
			return 0, nil
		}
		once[it.K] = true
	}
	const junkLen = 32
	buf := poisoned(c.Off + c.Size + junkLen)
	end := c.Off + c.Size
	opt := buf[c.Off:end:end]
	offset := 0
	var exp []byte
	var written []OptItem
	var nblocks []int
	f = evid.Guard(func() *evid.Failure {
		for _, it := range c.Items {
			want, nb := refEncodeOpt(it, c.Size-offset)
			n := callOptEncoder(it, opt[offset:])
			if n != len(want) {
				return evid.Failf("optenc:"+it.K+":ret", "Encode of %s %+v into %d free bytes returned %d, want %d", it.K, it, c.Size-offset, n, len(want))
			}
			offset += n
			exp = append(exp, want...)
			if n > 0 {
				written = append(written, it)
				nblocks = append(nblocks, nb)
				if it.K != "nop" {
					nOpts++
				}
			}
		}
		if c.Pad {
			if p := -offset & 3; offset+p <= c.Size {
				n := header.AddTCPOptionPadding(opt, offset)
				if n != p {
					return evid.Failf("optenc:pad:ret", "AddTCPOptionPadding(offset %d) returned %d, want %d", offset, n, p)
				}
				for i := 0; i < p; i++ {
					exp = append(exp, 1)
				}
				offset += p
			}
		}
		return nil
	})
	if f != nil {
		return nOpts, f
	}
	if !bytes.Equal(opt[:offset], exp) {
		return nOpts, evid.Failf("optenc:bytes", "encoders wrote % x, RFC layout of the same options is % x", opt[:offset], exp)
	}
	if i := poisonIntact(buf, c.Off, c.Off+offset); i >= 0 {
		return nOpts, evid.Failf("optenc:oob", "byte %d of a %d byte option buffer changed although the encoders reported %d bytes written", i-c.Off, c.Size, offset)
	}
	// After EOL the rest of the list is not options: nothing there may be recovered.
	syn, seg := refExpect(written, nblocks, c.IsAck)
	s := buf[c.Off : c.Off+offset : c.Off+offset]
	for j := 0; j < 2; j++ {
		junkFill(buf[c.Off+offset:], j)
		var gs header.TCPSynOptions
		var go_ header.TCPOptions
		if f := evid.Guard(func() *evid.Failure {
			gs = header.ParseSynOptions(s, c.IsAck)
			go_ = header.ParseTCPOptions(s)
			return nil
		}); f != nil {
			return nOpts, f
		}
		if !bytes.Equal(s, exp) {
			return nOpts, evid.Failf("optparse:mutates", "a parser modified its input")
		}
		switch {
		case gs.MSS != syn.MSS:
			return nOpts, evid.Failf("optparse:syn:MSS", "ParseSynOptions(% x).MSS=%d want %d", exp, gs.MSS, syn.MSS)
		case gs.WS != syn.WS:
			return nOpts, evid.Failf("optparse:syn:WS", "ParseSynOptions(% x).WS=%d want %d", exp, gs.WS, syn.WS)
		case gs.TS != syn.TS || gs.TSVal != syn.TSVal || gs.TSEcr != syn.TSEcr:
			return nOpts, evid.Failf("optparse:syn:TS", "ParseSynOptions(% x, isAck=%v) TS=%v,%d,%d want %v,%d,%d", exp, c.IsAck, gs.TS, gs.TSVal, gs.TSEcr, syn.TS, syn.TSVal, syn.TSEcr)
		case gs.SACKPermitted != syn.SACKPerm:
			return nOpts, evid.Failf("optparse:syn:SACKPermitted", "ParseSynOptions(% x).SACKPermitted=%v want %v", exp, gs.SACKPermitted, syn.SACKPerm)
		case go_.TS != seg.TS || go_.TSVal != seg.TSVal || go_.TSEcr != seg.TSEcr:
			return nOpts, evid.Failf("optparse:tcp:TS", "ParseTCPOptions(% x) TS=%v,%d,%d want %v,%d,%d", exp, go_.TS, go_.TSVal, go_.TSEcr, seg.TS, seg.TSVal, seg.TSEcr)
		case !eqU32(sackU32(go_.SACKBlocks), seg.Blocks):
			return nOpts, evid.Failf("optparse:tcp:SACK", "ParseTCPOptions(% x) SACK blocks %v want %v", exp, sackU32(go_.SACKBlocks), seg.Blocks)
		}
	}
	// The same through a TCP header: Options() / ParsedOptions().
	if offset%4 == 0 && offset <= 40 {
		h := make([]byte, 20+offset)
		header.TCP(h).Encode(&header.TCPFields{DataOffset: uint8(20 + offset)})
		copy(h[20:], exp)
		var po header.TCPOptions
		if f := evid.Guard(func() *evid.Failure { po = header.TCP(h).ParsedOptions(); return nil }); f != nil {
			return nOpts, f
		}
		if po.TS != seg.TS || po.TSVal != seg.TSVal || po.TSEcr != seg.TSEcr || !eqU32(sackU32(po.SACKBlocks), seg.Blocks) {
			return nOpts, evid.Failf("optparse:tcp:ParsedOptions", "TCP.ParsedOptions() over % x = %+v, want TS=%v,%d,%d blocks %v", exp, po, seg.TS, seg.TSVal, seg.TSEcr, seg.Blocks)
		}
	}
	return nOpts, nil
}

func optsNeeded(items []OptItem) int {
	n := 0
	for _, it := range items {
		w, _ := refEncodeOpt(it, 1<<20)
		n += len(w)
	}
	return n
}

func labelOpts(c OptCase, n int) {
	if n >= 2 {
		evid.NonTrivialKey(fmt.Sprint(c.Items), c.Size, c.Pad, c.IsAck)
	}
	need := optsNeeded(c.Items)
	switch {
	case c.Size < need:
		evid.Label("opts:buffer<needed")
	case c.Size == need:
		evid.Label("opts:buffer=needed")
	default:
		evid.Label("opts:buffer>needed")
	}
	if l := len(c.Items); l > 0 && c.Items[l-1].K == "sack" && !c.Pad && c.Size >= need {
		evid.Label("opts:sack-last-unpadded")
	}
	for _, it := range c.Items {
		if it.K == "sack" {
			evid.Label(fmt.Sprintf("opts:sack-blocks=%d", len(it.Blk)/2))
		}
		if it.K == "unk" || it.K == "eol" {
			evid.Label("opts:with-" + it.K)
		}
	}
}

// TestOptsEnum: every ordering of every subset of {MSS, WS, TS,
// SACK-permitted, SACK with 1..4 blocks} (with and without the NOP NOP
// prefixes the stack uses), each with EVERY buffer size from 0 to needed+2,
// padded and not; plus every MSS, every WS shift and every buffer size for
// every SACK block count 0..6.
func TestOptsEnum(t *testing.T) {
	if evid.ReplayMode() {
		t.Skip("replays of check opts are hosted by TestOptsRandom")
	}
	var ctr, evals, nts int64
	run := func(c OptCase) bool {
		ctr++
		if ctr%int64(evid.NShards) != int64(evid.ShardIdx) {
			return true
		}
		n, f := runOpts(c)
		evals++
		if n >= 2 {
			nts++
		}
		return !evid.Direct(t, "opts", f, c)
	}
	defer func() {
		evid.Eval(evals)
		evid.DistinctByConstruction(nts)
		evid.LabelN("opts:enumerated", evals)
	}()
	blocks := []uint32{0xffffffff, 1, 0x80000000, 0x7fffffff, 0x01020304, 0xfffefdfc, 10, 20, 0, 0xffffffff, 0xdeadbeef, 0xfeedface}
	base := []OptItem{{K: "mss", A: 0xfedc}, {K: "ws", A: 14}, {K: "ts", A: 0x81828384, B: 0xf1f2f3f4}, {K: "sackperm"}}
	var perm func(cur []OptItem, used int, k int, emit func([]OptItem) bool) bool
	all := func(sack int) []OptItem {
		a := append([]OptItem(nil), base...)
		if sack > 0 {
			a = append(a, OptItem{K: "sack", Blk: blocks[:2*sack]})
		}
		return a
	}
	var pool []OptItem
	perm = func(cur []OptItem, used int, k int, emit func([]OptItem) bool) bool {
		if !emit(cur) {
			return false
		}
		for i := range pool {
			if used&(1<<uint(i)) == 0 {
				if !perm(append(cur, pool[i]), used|1<<uint(i), k+1, emit) {
					return false
				}
			}
		}
		return true
	}
	for sack := 0; sack <= 4; sack++ {
		pool = all(sack)
		ok := perm(nil, 0, 0, func(items []OptItem) bool {
			if sack > 0 {
				// sequences without the SACK option were enumerated for sack == 0
				has := false
				for _, it := range items {
					has = has || it.K == "sack"
				}
				if !has {
					return true
				}
			}
			for _, nops := range []int{0, 2} {
				seq := items
				if nops > 0 {
					seq = nil
					for _, it := range items {
						if it.K == "ts" || it.K == "sack" {
							seq = append(seq, OptItem{K: "nop"}, OptItem{K: "nop"})
						}
						seq = append(seq, it)
					}
					if len(seq) == len(items) {
						continue
					}
				}
				need := optsNeeded(seq)
				for size := 0; size <= need+2; size++ {
					for _, pad := range []bool{false, true} {
						if !run(OptCase{Items: append([]OptItem(nil), seq...), Size: size, Pad: pad, IsAck: size%2 == 0, Off: 3}) {
							return false
						}
					}
				}
			}
			return true
		})
		if !ok {
			return
		}
	}
	evid.Exhaustive("TCP options: every ordering of every subset of {MSS, WS, TS, SACK-permitted, SACK(1..4 blocks)} x every buffer size 0..needed+2 x padding")
	for mss := uint32(1); mss <= 0xffff; mss++ {
		if !run(OptCase{Items: []OptItem{{K: "mss", A: mss}, {K: "sackperm"}}, Size: 4 + int(mss%4), Pad: mss&4 != 0, IsAck: mss&8 != 0, Off: 1}) {
			return
		}
	}
	evid.Exhaustive("EncodeMSSOption/ParseSynOptions: every MSS 1..65535")
	for ws := uint32(0); ws <= 0xff; ws++ {
		for size := 0; size <= 6; size++ {
			if !run(OptCase{Items: []OptItem{{K: "ws", A: ws}, {K: "mss", A: 1460}}, Size: size, Pad: true, Off: 2}) {
				return
			}
		}
	}
	evid.Exhaustive("EncodeWSOption/ParseSynOptions: every shift count 0..255 (received as min(shift,14))")
	for nb := 0; nb <= 6; nb++ {
		for size := 0; size <= 60; size++ {
			for pre := 0; pre < 3; pre++ {
				var items []OptItem
				for i := 0; i < pre; i++ {
					items = append(items, OptItem{K: "nop"})
				}
				items = append(items, OptItem{K: "sack", Blk: blocks[:2*nb]}, OptItem{K: "ts", A: 7, B: 9})
				if !run(OptCase{Items: items, Size: size, Pad: size%3 == 0, Off: 5}) {
					return
				}
			}
		}
	}
	evid.Exhaustive("EncodeSACKBlocks: 0..6 blocks x every buffer size 0..60 x 0..2 leading NOPs")
}

func genOptItems(rt *rapid.T) []OptItem {
	u32 := rapid.OneOf(rapid.SampledFrom([]uint32{0, 1, 0x7fffffff, 0x80000000, 0xffffffff, 0xfffffffe, 0x00ff00ff, 0x01000000}), rapid.Uint32())
	kinds := []string{"mss", "ws", "ts", "sackperm", "sack"}
	perm := rapid.Permutation(kinds).Draw(rt, "order")
	var items []OptItem
	for _, k := range perm {
		if rapid.IntRange(0, 9).Draw(rt, "nops?") < 3 {
			for i := rapid.IntRange(1, 3).Draw(rt, "nops"); i > 0; i-- {
				items = append(items, OptItem{K: "nop"})
			}
		}
		if rapid.IntRange(0, 9).Draw(rt, "unk?") == 0 {
			kind := rapid.SampledFrom([]uint32{6, 7, 9, 19, 28, 30, 34, 253, 254, 255}).Draw(rt, "unkKind")
			items = append(items, OptItem{K: "unk", A: kind, P: rapid.SliceOfN(rapid.Byte(), 0, 6).Draw(rt, "unkPayload")})
		}
		if !rapid.Bool().Draw(rt, "has-"+k) {
			continue
		}
		switch k {
		case "mss":
			items = append(items, OptItem{K: k, A: rapid.OneOf(rapid.SampledFrom([]uint32{1, 255, 256, 536, 1460, 0xff00, 0xffff}), rapid.Uint32Range(1, 0xffff)).Draw(rt, "mss")})
		case "ws":
			items = append(items, OptItem{K: k, A: rapid.OneOf(rapid.Uint32Range(0, 14), rapid.Uint32Range(0, 255)).Draw(rt, "ws")})
		case "ts":
			items = append(items, OptItem{K: k, A: u32.Draw(rt, "tsval"), B: u32.Draw(rt, "tsecr")})
		case "sackperm":
			items = append(items, OptItem{K: k})
		case "sack":
			n := rapid.SampledFrom([]int{0, 1, 1, 2, 2, 3, 3, 4, 4, 4, 5, 6}).Draw(rt, "nblocks")
			it := OptItem{K: k}
			for i := 0; i < 2*n; i++ {
				it.Blk = append(it.Blk, u32.Draw(rt, "edge"))
			}
			items = append(items, it)
		}
	}
	if rapid.IntRange(0, 9).Draw(rt, "eol?") == 0 {
		items = append(items, OptItem{K: "eol", P: rapid.SliceOfN(rapid.Byte(), 0, 7).Draw(rt, "afterEOL")})
	}
	return items
}

func genOpts(rt *rapid.T) OptCase {
	c := OptCase{Items: genOptItems(rt)}
	need := optsNeeded(c.Items)
	c.Size = need + rapid.SampledFrom([]int{0, 0, 0, 1, 2, 3, 4, 8, -1, -2, -3, -4, -7, -8, -9, -10, -11, -18}).Draw(rt, "sizeDelta")
	if c.Size < 0 {
		c.Size = 0
	}
	c.Pad = rapid.Bool().Draw(rt, "pad")
	c.IsAck = rapid.Bool().Draw(rt, "isAck")
	c.Off = rapid.IntRange(0, 8).Draw(rt, "off")
	return c
}

func TestOptsRandom(t *testing.T) {
	evid.Run(t, evid.Spec[OptCase]{Name: "opts", Gen: genOpts, Run: func(c OptCase) *evid.Failure {
		n, f := runOpts(c)
		labelOpts(c, n)
		if n >= 2 {
			evid.Sample("opts", c)
		}
		return f
	}})
}

// ---------------------------------------------------- parsers on any bytes

// ParseCase: arbitrary bytes. Every prefix B[:n] is parsed three ways - as
// B[:n:n] (the rest of B is the junk behind it), in front of all-ones junk
// and as an exact private copy - and the three results must agree and no
// call may panic.
type ParseCase struct {
	B []byte `json:"b"`
}

func parseBoth(s []byte) (r [3]any, f *evid.Failure) {
	f = evid.Guard(func() *evid.Failure {
		r[0] = header.ParseSynOptions(s, false)
		r[1] = header.ParseSynOptions(s, true)
		r[2] = header.ParseTCPOptions(s)
		return nil
	})
	return
}

func runParse(c ParseCase) *evid.Failure {
	if len(c.B) > 256 {
		evid.Exclude("malformed-case")
		return nil
	}
	full := append([]byte(nil), c.B...)
	ones := make([]byte, len(c.B)+16)
	for n := 0; n <= len(c.B); n++ {
		a, f := parseBoth(full[:n:n])
		if f != nil {
			return f
		}
		copy(ones, c.B[:n])
		for i := n; i < len(ones); i++ {
			ones[i] = 0xff
		}
		b, f := parseBoth(ones[:n:n])
		if f != nil {
			return f
		}
		x, f := parseBoth(append(make([]byte, 0, n), c.B[:n]...))
		if f != nil {
			return f
		}
		for k, nm := range []string{"ParseSynOptions(isAck=false)", "ParseSynOptions(isAck=true)", "ParseTCPOptions"} {
			if !reflect.DeepEqual(a[k], x[k]) || !reflect.DeepEqual(b[k], x[k]) {
				return evid.Failf("optparse:junk-dependent", "%s(% x) = %+v alone, %+v in front of % x, %+v in front of ff..", nm, c.B[:n], x[k], a[k], c.B[n:], b[k])
			}
		}
		if !bytes.Equal(full, c.B) {
			return evid.Failf("optparse:mutates", "a parser modified its input")
		}
	}
	return nil
}

func genParse(rt *rapid.T) ParseCase {
	switch rapid.IntRange(0, 3).Draw(rt, "shape") {
	case 0:
		return ParseCase{B: rapid.SliceOfN(rapid.Byte(), 0, 48).Draw(rt, "bytes")}
	case 1:
		// option-shaped: kind from the interesting set, length near the right one
		var b []byte
		for i := rapid.IntRange(1, 8).Draw(rt, "n"); i > 0; i-- {
			k := rapid.SampledFrom([]byte{0, 1, 1, 2, 3, 4, 5, 5, 5, 8, 8, 9, 254}).Draw(rt, "kind")
			b = append(b, k)
			if k < 2 {
				continue
			}
			l := rapid.SampledFrom([]byte{0, 1, 2, 3, 4, 9, 10, 11, 18, 26, 34, 35, 42, 255}).Draw(rt, "len")
			b = append(b, l)
			b = append(b, rapid.SliceOfN(rapid.Byte(), 0, 34).Draw(rt, "payload")...)
		}
		return ParseCase{B: b}
	default:
		// a well-formed sequence with a few bytes corrupted
		items := genOptItems(rt)
		var b []byte
		for _, it := range items {
			w, _ := refEncodeOpt(it, 1<<20)
			b = append(b, w...)
		}
		for i := rapid.IntRange(0, 3).Draw(rt, "flips"); i > 0 && len(b) > 0; i-- {
			b[rapid.IntRange(0, len(b)-1).Draw(rt, "pos")] = rapid.Byte().Draw(rt, "byte")
		}
		return ParseCase{B: b}
	}
}

func TestOptParseRandom(t *testing.T) {
	evid.Run(t, evid.Spec[ParseCase]{Name: "optparse", Gen: genParse, Run: func(c ParseCase) *evid.Failure {
		if len(c.B) >= 2 {
			evid.NonTrivialKey(c.B)
		}
		evid.Eval(int64(len(c.B))) // one evaluation per prefix (evid.Run adds the last)
		return runParse(c)
	}})
}

// TestOptParseSeeds replays a fixed seed corpus of byte strings (the inputs
// of the repository's own table test, truncated options, zero and oversized
// lengths, a maximal SACK option) and every 1 and 2 byte input.
func TestOptParseSeeds(t *testing.T) {
	if evid.ReplayMode() {
		t.Skip("replays of check optparse are hosted by TestOptParseRandom")
	}
	if evid.ShardIdx != 0 {
		return
	}
	seeds := [][]byte{
		{}, {0}, {1}, {2}, {5}, {8}, {5, 0}, {5, 1}, {5, 2}, {5, 3}, {5, 10}, {5, 255}, {8, 10}, {8, 0}, {2, 4}, {2, 4, 0}, {2, 4, 0, 0}, {3, 3}, {4, 2}, {4, 0},
		{1, 1, 8, 10, 0, 0, 0, 1, 0, 0, 0, 2}, {1, 1, 8, 10, 0, 0, 0, 1, 0, 0, 0}, {8, 11, 0, 0, 0, 1, 0, 0, 0, 2, 0},
		{1, 1, 5, 10, 0, 0, 0, 1, 0, 0, 0, 10}, {1, 1, 5, 18, 0, 0, 0, 1, 0, 0, 0, 10, 0, 0, 0, 20, 0, 0, 0, 30},
		{1, 1, 5, 11, 0, 0, 0, 1, 0, 0, 0, 10, 0}, {5, 10, 0, 0, 0, 1, 0, 0, 0}, {9, 0, 1, 1}, {9, 1, 1, 1}, {9, 2, 9, 200},
		{2, 4, 5, 180, 3, 3, 200, 4, 2, 8, 10, 1, 2, 3, 4, 5, 6, 7, 8, 0, 2, 4, 0, 1},
		append([]byte{5, 250}, make([]byte, 248)...), append([]byte{5, 34}, make([]byte, 32)...),
	}
	var n int64
	for _, s := range seeds {
		n += int64(len(s)) + 1
		if evid.Direct(t, "optparse", runParse(ParseCase{B: s}), ParseCase{B: s}) {
			return
		}
	}
	for a := 0; a < 256; a++ {
		for b := 0; b < 256; b++ {
			s := []byte{byte(a), byte(b)}
			n += 3
			if evid.Direct(t, "optparse", runParse(ParseCase{B: s}), ParseCase{B: s}) {
				return
			}
		}
	}
	evid.Eval(n)
	evid.DistinctByConstruction(65536)
	evid.LabelN("optparse:seeds+all-2-byte-inputs", n)
	evid.Exhaustive("option parsers: every 1 and 2 byte input, in front of junk")
}
