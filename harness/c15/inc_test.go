package c15

import (
	"bytes"
	"fmt"
	"testing"

	tcpip "github.com/brewlin/net-protocol/protocol"
	"github.com/brewlin/net-protocol/protocol/header"
	"pgregory.net/rapid"
	"verifharness/evid"
)

// IncCase exercises one incremental checksum helper against the one-shot
// RFC 1071 sum over the concatenated bytes.
//
//	pseudo      PseudoHeaderChecksum(Proto, Src, Dst)          = sum(Src | Dst | 0 Proto)
//	tcpcalc     TCP(Hdr|Payload).CalculateChecksum(Partial,Len) = sum(Len | Hdr[:dataOffset]) from Partial
//	udpcalc     UDP(Hdr|Payload).CalculateChecksum(Partial,Len) = sum(Len | Hdr[:8]) from Partial
//	ip4calc     IPv4(Hdr|Payload).CalculateChecksum()          = sum(Hdr[:IHL]); storing its complement verifies
//	ip4partial  IPv4.EncodePartial(Partial, Len): total length written, checksum = ^sum(Len) from Partial, nothing else
//	            touched; Full: Partial is the sum of the header without those two fields, the header must verify
//	tcppartial  TCP.EncodePartial(Partial, Len, Seq, Ack, Flags, Wnd): the four fields at their RFC positions,
//	            checksum = ^sum(Len | 0 Flags | Seq | Ack | Wnd) from Partial, nothing else touched; Full: Partial is
//	            the sum of pseudo-header (without length), the other header fields, options and payload: the
//	            segment must verify at a receiver
//	tcppacket / udppacket   the stack's own sequence (pseudo-header sum, then payload, then CalculateChecksum,
//	            SetChecksum(^x)): the packet must verify at a receiver following RFC 1071 / 9293 / 768 / 8200 §8.1
type IncCase struct {
	Op      string `json:"op"`
	Hdr     []byte `json:"hdr,omitempty"`
	Payload []byte `json:"payload,omitempty"`
	Src     []byte `json:"src,omitempty"`
	Dst     []byte `json:"dst,omitempty"`
	Proto   uint8  `json:"proto,omitempty"`
	Partial uint16 `json:"partial,omitempty"`
	Len     uint16 `json:"len,omitempty"`
	Seq     uint32 `json:"seq,omitempty"`
	Ack     uint32 `json:"ack,omitempty"`
	Flags   uint8  `json:"flags,omitempty"`
	Wnd     uint16 `json:"wnd,omitempty"`
	Full    bool   `json:"full,omitempty"`
}

func be16b(v uint16) []byte { return []byte{byte(v >> 8), byte(v)} }
func be32b(v uint32) []byte { return []byte{byte(v >> 24), byte(v >> 16), byte(v >> 8), byte(v)} }

func cat(parts ...[]byte) []byte {
	var out []byte
	for _, p := range parts {
		out = append(out, p...)
	}
	return out
}

func addrOK(a []byte) bool { return len(a) == 4 || len(a) == 16 }

// hdrLenOK: a header of 20..60 bytes, multiple of 4.
func hdrLenOK(n int) bool { return n >= 20 && n <= 60 && n%4 == 0 }

func diffOutside(a, b []byte, keep ...[2]int) int {
	for i := range a {
		in := false
		for _, k := range keep {
			in = in || (i >= k[0] && i < k[1])
		}
		if !in && a[i] != b[i] {
			return i
		}
	}
	return -1
}

func runInc(c IncCase) (nt bool, f *evid.Failure) {
	if len(c.Payload) > 4096 || len(c.Hdr) > 60 {
		evid.Exclude("malformed-case")
		return false, nil
	}
	bad := func() (bool, *evid.Failure) { evid.Exclude("malformed-case"); return false, nil }
	carry := func(b []byte, init uint16) bool { return refSumRaw(b, init) > 0xffff }
	odd := len(c.Payload)%2 == 1
	switch c.Op {
	case "pseudo":
		if !addrOK(c.Src) || len(c.Dst) != len(c.Src) {
			return bad()
		}
		var got uint16
		if f := evid.Guard(func() *evid.Failure {
			got = header.PseudoHeaderChecksum(tcpip.TransportProtocolNumber(c.Proto), tcpip.Address(c.Src), tcpip.Address(c.Dst))
			return nil
		}); f != nil {
			return false, f
		}
		all := cat(c.Src, c.Dst, []byte{0, c.Proto})
		if want := ref1071(all, 0); got != want {
			return true, evid.Failf("inc:pseudo", "PseudoHeaderChecksum(%d, % x, % x) = %#04x, sum over the concatenation is %#04x", c.Proto, c.Src, c.Dst, got, want)
		}
		return carry(all, 0), nil

	case "tcpcalc", "udpcalc":
		hl := 8
		if c.Op == "tcpcalc" {
			hl = len(c.Hdr)
			if !hdrLenOK(hl) || int(c.Hdr[12]>>4)*4 != hl {
				return bad()
			}
		} else if len(c.Hdr) != 8 {
			return bad()
		}
		b := cat(c.Hdr, c.Payload)
		b = b[:len(b):len(b)]
		var got uint16
		if f := evid.Guard(func() *evid.Failure {
			if c.Op == "tcpcalc" {
				got = header.TCP(b).CalculateChecksum(c.Partial, c.Len)
			} else {
				got = header.UDP(b).CalculateChecksum(c.Partial, c.Len)
			}
			return nil
		}); f != nil {
			return false, f
		}
		all := cat(be16b(c.Len), c.Hdr)
		if want := ref1071(all, c.Partial); got != want {
			return true, evid.Failf("inc:"+c.Op, "%s: CalculateChecksum(partial %#04x, length %d) over header % x = %#04x, one-shot sum is %#04x", c.Op, c.Partial, c.Len, c.Hdr, got, want)
		}
		return carry(all, c.Partial), nil

	case "ip4calc":
		hl := len(c.Hdr)
		if !hdrLenOK(hl) || c.Hdr[0] != 0x40|byte(hl/4) {
			return bad()
		}
		b := cat(c.Hdr, c.Payload)
		b = b[:len(b):len(b)]
		var got uint16
		if f := evid.Guard(func() *evid.Failure { got = header.IPv4(b).CalculateChecksum(); return nil }); f != nil {
			return false, f
		}
		if want := ref1071(c.Hdr, 0); got != want {
			return true, evid.Failf("inc:ip4calc", "IPv4.CalculateChecksum() over % x = %#04x, RFC 1071 sum of the %d header bytes is %#04x", c.Hdr, got, hl, want)
		}
		// the way protocol/network/ipv4 fills the field in
		if f := evid.Guard(func() *evid.Failure {
			header.IPv4(b).SetChecksum(0)
			header.IPv4(b).SetChecksum(^header.IPv4(b).CalculateChecksum())
			return nil
		}); f != nil {
			return false, f
		}
		if v := ref1071(b[:hl], 0); v != 0xffff {
			return true, evid.Failf("inc:ip4calc-verify", "IPv4 header % x with SetChecksum(^CalculateChecksum()) sums to %#04x at a receiver, not 0xffff", b[:hl], v)
		}
		return carry(c.Hdr, 0), nil

	case "ip4partial":
		hl := len(c.Hdr)
		if !hdrLenOK(hl) || c.Hdr[0] != 0x40|byte(hl/4) {
			return bad()
		}
		b := cat(c.Hdr, c.Payload)
		b = b[:len(b):len(b)]
		before := append([]byte(nil), b...)
		partial := c.Partial
		if c.Full {
			z := append([]byte(nil), c.Hdr...)
			z[2], z[3], z[10], z[11] = 0, 0, 0, 0
			partial = ref1071(z, 0)
		}
		if f := evid.Guard(func() *evid.Failure { header.IPv4(b).EncodePartial(partial, c.Len); return nil }); f != nil {
			return false, f
		}
		if i := diffOutside(before, b, [2]int{2, 4}, [2]int{10, 12}); i >= 0 {
			return true, evid.Failf("inc:ip4partial-touch", "IPv4.EncodePartial changed byte %d (%#x -> %#x); only total length and checksum may change", i, before[i], b[i])
		}
		r := refIPv4(b)
		wantCk := ^ref1071(be16b(c.Len), partial)
		if r.vals[2] != uint64(c.Len) || r.vals[8] != uint64(wantCk) {
			return true, evid.Failf("inc:ip4partial", "IPv4.EncodePartial(partial %#04x, length %d): total length %d checksum %#04x on the wire, want %d and %#04x", partial, c.Len, r.vals[2], r.vals[8], c.Len, wantCk)
		}
		if c.Full {
			if v := ref1071(b[:hl], 0); v != 0xffff {
				return true, evid.Failf("inc:ip4partial-verify", "IPv4 header % x completed by EncodePartial sums to %#04x at a receiver, not 0xffff", b[:hl], v)
			}
		}
		return carry(be16b(c.Len), partial), nil

	case "tcppartial":
		hl := len(c.Hdr)
		if !hdrLenOK(hl) || int(c.Hdr[12]>>4)*4 != hl || (c.Full && (!addrOK(c.Src) || len(c.Dst) != len(c.Src))) {
			return bad()
		}
		b := cat(c.Hdr, c.Payload)
		b = b[:len(b):len(b)]
		before := append([]byte(nil), b...)
		partial, length := c.Partial, c.Len
		if c.Full {
			// everything the call does not cover: pseudo-header without length, ports, offset byte (the
			// flags byte of that word is covered by the call), urgent pointer, options, payload
			length = uint16(hl + len(c.Payload))
			partial = ref1071(cat(c.Src, c.Dst, []byte{0, 6}, c.Hdr[0:4], []byte{c.Hdr[12], 0}, c.Hdr[18:20], c.Hdr[20:], c.Payload), 0)
		}
		if f := evid.Guard(func() *evid.Failure {
			header.TCP(b).EncodePartial(partial, length, c.Seq, c.Ack, c.Flags, c.Wnd)
			return nil
		}); f != nil {
			return false, f
		}
		if i := diffOutside(before, b, [2]int{4, 12}, [2]int{13, 18}); i >= 0 {
			return true, evid.Failf("inc:tcppartial-touch", "TCP.EncodePartial changed byte %d (%#x -> %#x); only seq, ack, flags, window and checksum may change", i, before[i], b[i])
		}
		r := refTCP(b)
		covered := cat(be16b(length), []byte{0, c.Flags}, be32b(c.Seq), be32b(c.Ack), be16b(c.Wnd))
		wantCk := ^ref1071(covered, partial)
		if r.vals[2] != uint64(c.Seq) || r.vals[3] != uint64(c.Ack) || r.vals[5] != uint64(c.Flags) || r.vals[6] != uint64(c.Wnd) {
			return true, evid.Failf("inc:tcppartial-fields", "TCP.EncodePartial(seq %#x ack %#x flags %#x wnd %#x): on the wire %#x %#x %#x %#x", c.Seq, c.Ack, c.Flags, c.Wnd, r.vals[2], r.vals[3], r.vals[5], r.vals[6])
		}
		if r.vals[7] != uint64(wantCk) {
			return true, evid.Failf("inc:tcppartial", "TCP.EncodePartial(partial %#04x, length %d, %#x, %#x, %#x, %#x): checksum %#04x on the wire, one-shot complement is %#04x", partial, length, c.Seq, c.Ack, c.Flags, c.Wnd, r.vals[7], wantCk)
		}
		if c.Full {
			if v := ref1071(cat(c.Src, c.Dst, []byte{0, 6}, be16b(length), b), 0); v != 0xffff {
				return true, evid.Failf("inc:tcppartial-verify", "segment % x completed by EncodePartial sums (with its pseudo-header) to %#04x at a receiver, not 0xffff", b, v)
			}
		}
		return carry(covered, partial) || odd, nil

	case "tcppacket", "udppacket":
		hl, proto := 8, uint8(17)
		if c.Op == "tcppacket" {
			hl, proto = len(c.Hdr), 6
			if !hdrLenOK(hl) || int(c.Hdr[12]>>4)*4 != hl {
				return bad()
			}
		} else if len(c.Hdr) != 8 {
			return bad()
		}
		if !addrOK(c.Src) || len(c.Dst) != len(c.Src) {
			return bad()
		}
		b := cat(c.Hdr, c.Payload)
		b = b[:len(b):len(b)]
		length := uint16(len(b))
		var stored uint16
		if f := evid.Guard(func() *evid.Failure {
			xsum := header.PseudoHeaderChecksum(tcpip.TransportProtocolNumber(proto), tcpip.Address(c.Src), tcpip.Address(c.Dst))
			xsum = header.Checksum(b[hl:], xsum)
			if proto == 6 {
				header.TCP(b).SetChecksum(0)
				stored = ^header.TCP(b).CalculateChecksum(xsum, length)
				header.TCP(b).SetChecksum(stored)
			} else {
				header.UDP(b).SetChecksum(0)
				stored = ^header.UDP(b).CalculateChecksum(xsum, length)
				header.UDP(b).SetChecksum(stored)
			}
			return nil
		}); f != nil {
			return false, f
		}
		ph := cat(c.Src, c.Dst, []byte{0, proto}, be16b(length))
		z := append([]byte(nil), b...)
		ck := 16
		if proto == 17 {
			ck = 6
		}
		z[ck], z[ck+1] = 0, 0
		if want := ^ref1071(cat(ph, z), 0); stored != want {
			return true, evid.Failf("inc:"+c.Op, "%s: checksum computed the stack's way is %#04x, complement of the one-shot sum over pseudo-header, header and %d payload bytes is %#04x", c.Op, stored, len(c.Payload), want)
		}
		if v := ref1071(cat(ph, b), 0); v != 0xffff {
			return true, evid.Failf("inc:"+c.Op+"-verify", "%s: packet sums to %#04x at a receiver, not 0xffff", c.Op, v)
		}
		return true, nil
	}
	return bad()
}

func incHdr(kind string, n int, bg int, r *sm64) []byte {
	h := make([]byte, n)
	for i := range h {
		switch bg {
		case 1:
			h[i] = 0xff
		case 2:
			h[i] = byte(r.next())
		}
	}
	switch kind {
	case "tcp":
		h[12] = h[12]&0x0f | byte(n/4)<<4
	case "ip4":
		h[0] = 0x40 | byte(n/4)
	}
	return h
}

// TestIncSweep: for each helper all 2^16 partial checksums and all 2^16
// lengths (and window sizes, and flag bytes) on three header backgrounds;
// every protocol number for the pseudo-header; every header length.
func TestIncSweep(t *testing.T) {
	if evid.ReplayMode() {
		t.Skip("replays of check inc are hosted by TestIncRandom")
	}
	var ctr, evals, nts int64
	defer func() {
		evid.Eval(evals)
		evid.DistinctByConstruction(nts)
		evid.LabelN("inc:enumerated", evals)
	}()
	run := func(c IncCase) bool {
		ctr++
		if ctr%int64(evid.NShards) != int64(evid.ShardIdx) {
			return true
		}
		nt, f := runInc(c)
		evals++
		if nt {
			nts++
		}
		return !evid.Direct(t, "inc", f, c)
	}
	r := newSM("inc")
	hls := []int{20, 60, 32}
	for v := 0; v < 1<<16; v++ {
		for bg := 0; bg < 3; bg++ {
			x := uint16(r.next())
			y := r.next()
			pay := []byte{byte(y), byte(y >> 8), byte(y >> 16)}[:bg]
			other := []uint16{0, 0xffff, x}[bg]
			tcp, ip4, udp := incHdr("tcp", hls[bg], bg, r), incHdr("ip4", hls[bg], bg, r), incHdr("udp", 8, bg, r)
			cases := []IncCase{
				{Op: "tcpcalc", Hdr: tcp, Payload: pay, Partial: uint16(v), Len: other},
				{Op: "tcpcalc", Hdr: tcp, Payload: pay, Partial: other, Len: uint16(v)},
				{Op: "udpcalc", Hdr: udp, Payload: pay, Partial: uint16(v), Len: other},
				{Op: "udpcalc", Hdr: udp, Payload: pay, Partial: other, Len: uint16(v)},
				{Op: "ip4partial", Hdr: ip4, Payload: pay, Partial: uint16(v), Len: other},
				{Op: "ip4partial", Hdr: ip4, Payload: pay, Partial: other, Len: uint16(v)},
				{Op: "ip4partial", Hdr: ip4, Payload: pay, Len: uint16(v), Full: true},
				{Op: "tcppartial", Hdr: tcp, Payload: pay, Partial: uint16(v), Len: other, Seq: uint32(y), Ack: uint32(y >> 32), Flags: byte(x), Wnd: other},
				{Op: "tcppartial", Hdr: tcp, Payload: pay, Partial: other, Len: uint16(v), Seq: ^uint32(y), Ack: uint32(y >> 24), Flags: byte(x >> 8), Wnd: x},
				{Op: "tcppartial", Hdr: tcp, Payload: pay, Partial: other, Len: x, Seq: uint32(y >> 16), Ack: uint32(y), Flags: byte(v >> 8), Wnd: uint16(v)},
			}
			for _, c := range cases {
				if !run(c) {
					return
				}
			}
		}
	}
	evid.Exhaustive("TCP/UDP.CalculateChecksum, IPv4/TCP.EncodePartial: all 65536 partial checksums and all 65536 lengths (TCP: and all window values) x 3 backgrounds")
	for p := 0; p < 256; p++ {
		for _, al := range []int{4, 16} {
			for bg := 0; bg < 3; bg++ {
				a, b := incHdr("", al, bg, r), incHdr("", al, (bg+p)%3, r)
				if !run(IncCase{Op: "pseudo", Proto: uint8(p), Src: a, Dst: b}) {
					return
				}
				// flags byte sweep of TCP.EncodePartial and full packets with every payload length 0..255
				tcp := incHdr("tcp", 20+4*(p%11), bg, r)
				pay := incHdr("", p, bg, r)
				if !run(IncCase{Op: "tcppartial", Hdr: tcp, Payload: pay, Src: a, Dst: b, Seq: uint32(r.next()), Ack: uint32(r.next()), Flags: uint8(p), Wnd: uint16(r.next()), Full: true}) ||
					!run(IncCase{Op: "tcppacket", Hdr: tcp, Payload: pay, Src: a, Dst: b}) ||
					!run(IncCase{Op: "udppacket", Hdr: incHdr("", 8, bg, r), Payload: pay, Src: a, Dst: b}) {
					return
				}
			}
		}
	}
	evid.Exhaustive("PseudoHeaderChecksum: all 256 protocol numbers x IPv4/IPv6 x 3 address backgrounds; packets with every payload length 0..255")
	for hl := 20; hl <= 60; hl += 4 {
		for bg := 0; bg < 3; bg++ {
			for rep := 0; rep < 64; rep++ {
				if !run(IncCase{Op: "ip4calc", Hdr: incHdr("ip4", hl, bg, r), Payload: incHdr("", rep%5, 2, r)}) {
					return
				}
			}
		}
	}
}

func genInc(rt *rapid.T) IncCase {
	u16 := rapid.OneOf(rapid.SampledFrom([]uint16{0, 1, 0xff, 0x100, 0x7fff, 0x8000, 0xfffe, 0xffff}), rapid.Uint16())
	u32 := rapid.OneOf(rapid.SampledFrom([]uint32{0, 1, 0xffff, 0x10000, 0x7fffffff, 0x80000000, 0xffffffff}), rapid.Uint32())
	el := rapid.OneOf(rapid.SampledFrom([]byte{0, 0xff, 0xff}), rapid.Byte())
	c := IncCase{Op: rapid.SampledFrom([]string{"pseudo", "tcpcalc", "udpcalc", "ip4calc", "ip4partial", "tcppartial", "tcppartial", "tcppacket", "udppacket"}).Draw(rt, "op")}
	al := rapid.SampledFrom([]int{4, 16}).Draw(rt, "addrLen")
	c.Src = rapid.SliceOfN(el, al, al).Draw(rt, "src")
	c.Dst = rapid.SliceOfN(el, al, al).Draw(rt, "dst")
	c.Proto = rapid.Byte().Draw(rt, "proto")
	hl := 8
	switch c.Op {
	case "tcpcalc", "tcppartial", "tcppacket", "ip4calc", "ip4partial":
		hl = 20 + 4*rapid.IntRange(0, 10).Draw(rt, "hdrWords")
	}
	c.Hdr = rapid.SliceOfN(el, hl, hl).Draw(rt, "hdr")
	switch c.Op {
	case "tcpcalc", "tcppartial", "tcppacket":
		c.Hdr[12] = c.Hdr[12]&0x0f | byte(hl/4)<<4
	case "ip4calc", "ip4partial":
		c.Hdr[0] = 0x40 | byte(hl/4)
	}
	c.Payload = rapid.SliceOfN(el, 0, rapid.SampledFrom([]int{0, 1, 7, 64, 300}).Draw(rt, "maxPayload")).Draw(rt, "payload")
	c.Partial, c.Len, c.Wnd = u16.Draw(rt, "partial"), u16.Draw(rt, "len"), u16.Draw(rt, "wnd")
	c.Seq, c.Ack, c.Flags = u32.Draw(rt, "seq"), u32.Draw(rt, "ack"), rapid.Byte().Draw(rt, "flags")
	c.Full = rapid.Bool().Draw(rt, "full")
	return c
}

func TestIncRandom(t *testing.T) {
	evid.Run(t, evid.Spec[IncCase]{Name: "inc", Gen: genInc, Run: func(c IncCase) *evid.Failure {
		nt, f := runInc(c)
		if nt {
			evid.NonTrivialKey(fmt.Sprintf("%+v", c))
		}
		evid.Label("inc:random:" + c.Op)
		if len(c.Payload)%2 == 1 && bytes.HasSuffix([]byte(c.Op), []byte("packet")) {
			evid.Label("inc:odd-payload-packet")
		}
		return f
	}})
}
