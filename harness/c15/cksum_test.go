package c15

import (
	"bytes"
	"fmt"
	"testing"

	"github.com/brewlin/net-protocol/protocol/header"
	"pgregory.net/rapid"
	"verifharness/evid"
)

// CkCase: one buffer (a pattern of N bytes, or explicit Data) and an initial
// value. Checksum must equal the RFC 1071 sum; storing the complemented sum in
// the 16-bit word at even offset At must make the buffer verify to 0xffff.
type CkCase struct {
	Kind string `json:"kind"` // zeros ones ramp down ff00 00ff last lasthi random raw
	N    int    `json:"n"`
	Seed uint64 `json:"seed,omitempty"`
	Data []byte `json:"data,omitempty"` // Kind raw
	Init uint16 `json:"init"`
	At   int    `json:"at"` // checksum field position for the verification part, forced even and in range
}

var ckKinds = []string{"zeros", "ones", "ramp", "down", "ff00", "00ff", "last", "lasthi", "random"}

func ckData(c CkCase) []byte {
	if c.Kind == "raw" {
		return append([]byte(nil), c.Data...)
	}
	b := make([]byte, c.N)
	switch c.Kind {
	case "ones":
		for i := range b {
			b[i] = 0xff
		}
	case "ramp":
		for i := range b {
			b[i] = byte(i)
		}
	case "down":
		for i := range b {
			b[i] = byte(255 - i%251)
		}
	case "ff00":
		for i := range b {
			if i%2 == 0 {
				b[i] = 0xff
			}
		}
	case "00ff":
		for i := range b {
			if i%2 == 1 {
				b[i] = 0xff
			}
		}
	case "last": // only the last byte set: the odd-tail rule decides where it lands
		if c.N > 0 {
			b[c.N-1] = byte(c.Seed) | 1
		}
	case "lasthi": // all ones except that the last byte is 0x80
		for i := range b {
			b[i] = 0xff
		}
		if c.N > 0 {
			b[c.N-1] = 0x80
		}
	case "random":
		r := sm64(c.Seed)
		for i := 0; i < len(b); i += 8 {
			x := r.next()
			for j := i; j < i+8 && j < len(b); j++ {
				b[j] = byte(x)
				x >>= 8
			}
		}
	}
	return b
}

func runCk(c CkCase) (nt bool, f *evid.Failure) {
	if c.N < 0 || c.N > 1<<16 || len(c.Data) > 1<<16 {
		evid.Exclude("malformed-case")
		return false, nil
	}
	data := ckData(c)
	n := len(data)
	// the buffer under test is a s[:n:n] slice in front of junk
	full := append(append(make([]byte, 0, n+9), data...), 0xff, 0xee, 0xdd, 0xcc, 0xbb, 0xaa, 0x99, 0x88, 0x77)
	s := full[:n:n]
	var got uint16
	if f := evid.Guard(func() *evid.Failure { got = header.Checksum(s, c.Init); return nil }); f != nil {
		return false, f
	}
	raw := refSumRaw(data, c.Init)
	want := refFold(raw)
	nt = n%2 == 1 || raw > 0xffff
	if got != want {
		return nt, evid.Failf("cksum:value", "Checksum(%d bytes [%s], initial %#04x) = %#04x, RFC 1071 sum is %#04x", n, c.Kind, c.Init, got, want)
	}
	if !bytes.Equal(s, data) {
		return nt, evid.Failf("cksum:mutates", "Checksum modified its input")
	}
	if n >= 2 {
		at := c.At
		if at < 0 {
			at = -at
		}
		at = at % (n / 2) * 2
		s[at], s[at+1] = 0, 0
		c1 := ^header.Checksum(s, c.Init)
		s[at], s[at+1] = byte(c1>>8), byte(c1)
		if v := header.Checksum(s, c.Init); v != 0xffff {
			return nt, evid.Failf("cksum:verify", "%d bytes [%s], initial %#04x: with the complemented sum %#04x stored at offset %d the packet sums to %#04x, not 0xffff", n, c.Kind, c.Init, c1, at, v)
		}
		if v := ref1071(s, c.Init); v != 0xffff {
			return nt, evid.Failf("cksum:verify-ref", "%d bytes [%s], initial %#04x: a receiver following RFC 1071 sums the packet carrying %#04x at offset %d to %#04x, not 0xffff", n, c.Kind, c.Init, c1, at, v)
		}
	}
	return nt, nil
}

// TestChecksumSweep: every length 0..2048 (thorough: 0..8192) x 9 contents x
// 8 initial values; all 2^16 initial values for every buffer of 0..4 bytes
// over the alphabet {00, 01, 80, ff} (thorough: 0..5 bytes); sampled lengths
// up to 65535.
func TestChecksumSweep(t *testing.T) {
	if evid.ReplayMode() {
		t.Skip("replays of check cksum are hosted by TestChecksumRandom")
	}
	var ctr, evals, nts int64
	defer func() {
		evid.Eval(evals)
		evid.DistinctByConstruction(nts)
	}()
	rnd := newSM("cksum")
	run := func(c CkCase) bool {
		ctr++
		if ctr%int64(evid.NShards) != int64(evid.ShardIdx) {
			return true
		}
		nt, f := runCk(c)
		evals++
		if nt {
			nts++
		}
		return !evid.Direct(t, "cksum", f, c)
	}
	maxLen := evid.Pick(2048, 8192)
	for n := 0; n <= maxLen; n++ {
		for _, k := range ckKinds {
			seed := rnd.next()
			inits := []uint16{0, 1, 0xfffe, 0xffff, 0x8000, 0x00ff, 0xff00, uint16(rnd.next())}
			for _, in := range inits {
				if !run(CkCase{Kind: k, N: n, Seed: seed, Init: in, At: int(seed >> 40)}) {
					return
				}
			}
		}
	}
	evid.LabelN("cksum:all-lengths", evals)
	evid.Exhaustive(fmt.Sprintf("Checksum: every length 0..%d x %d contents x 8 initial values", maxLen, len(ckKinds)))
	// lengths up to 65535, sampled
	lens := []int{4095, 4096, 4097, 16383, 16384, 16385, 32767, 32768, 32769, 65534, 65535}
	for i := 0; i < evid.Pick(24, 200); i++ {
		lens = append(lens, int(rnd.next()%65536))
	}
	e0 := evals
	for _, n := range lens {
		for _, k := range ckKinds {
			seed := rnd.next()
			for _, in := range []uint16{0, 0xffff, uint16(rnd.next())} {
				if !run(CkCase{Kind: k, N: n, Seed: seed, Init: in, At: int(seed >> 40)}) {
					return
				}
			}
		}
	}
	evid.LabelN("cksum:long-buffers", evals-e0)

	// all initial values x all short buffers (fast path: the runner is called only to report)
	alpha := []byte{0x00, 0x01, 0x80, 0xff}
	maxShort := evid.Pick(4, 5)
	var fast, fastNT int64
	for n := 0; n <= maxShort; n++ {
		combos := 1
		for i := 0; i < n; i++ {
			combos *= len(alpha)
		}
		for ci := 0; ci < combos; ci++ {
			ctr++
			if ctr%int64(evid.NShards) != int64(evid.ShardIdx) {
				continue
			}
			buf := make([]byte, n, n+4)
			x := ci
			for i := 0; i < n; i++ {
				buf[i] = alpha[x%len(alpha)]
				x /= len(alpha)
			}
			junk := buf[:n+4]
			junk[n], junk[n+1], junk[n+2], junk[n+3] = 0xff, 0xff, 0xff, 0xff
			s := buf[:n:n]
			for in := 0; in < 1<<16; in++ {
				raw := refSumRaw(s, uint16(in))
				if header.Checksum(s, uint16(in)) != refFold(raw) {
					c := CkCase{Kind: "raw", Data: append([]byte(nil), s...), Init: uint16(in)}
					_, f := runCk(c)
					if f == nil {
						f = evid.Failf("cksum:value", "Checksum(% x, %#04x) differs from the RFC 1071 sum (fast path only)", s, in)
					}
					evid.Direct(t, "cksum", f, c)
					return
				}
				fast++
				if n%2 == 1 || raw > 0xffff {
					fastNT++
				}
			}
		}
	}
	evals += fast
	nts += fastNT
	evid.LabelN("cksum:all-initial-values-short-buffers", fast)
	evid.Exhaustive(fmt.Sprintf("Checksum: all 65536 initial values x every buffer of 0..%d bytes over {00,01,80,ff}", maxShort))
}

func genCk(rt *rapid.T) CkCase {
	c := CkCase{Init: rapid.OneOf(rapid.SampledFrom([]uint16{0, 1, 0xfffe, 0xffff, 0x8000}), rapid.Uint16()).Draw(rt, "init"),
		At: rapid.IntRange(0, 1<<15).Draw(rt, "at")}
	if rapid.Bool().Draw(rt, "raw") {
		c.Kind = "raw"
		el := rapid.OneOf(rapid.SampledFrom([]byte{0, 0xff, 0xff, 0x80, 1}), rapid.Byte())
		c.Data = rapid.SliceOfN(el, 0, 96).Draw(rt, "data")
		return c
	}
	c.Kind = rapid.SampledFrom(ckKinds).Draw(rt, "kind")
	c.N = rapid.OneOf(rapid.IntRange(0, 64), rapid.IntRange(0, 4096), rapid.IntRange(0, 65535), rapid.SampledFrom([]int{65535, 65534, 32769})).Draw(rt, "n")
	c.Seed = rapid.Uint64().Draw(rt, "seed")
	return c
}

func TestChecksumRandom(t *testing.T) {
	evid.Run(t, evid.Spec[CkCase]{Name: "cksum", Gen: genCk, Run: func(c CkCase) *evid.Failure {
		nt, f := runCk(c)
		if nt {
			evid.NonTrivialKey(c.Kind, c.N, c.Seed, c.Data, c.Init)
		}
		evid.Label("cksum:random:" + c.Kind)
		return f
	}})
}

// --------------------------------------------------------- ChecksumCombine

type CombCase struct {
	A uint16 `json:"a"`
	B uint16 `json:"b"`
}

func runComb(c CombCase) *evid.Failure {
	got := header.ChecksumCombine(c.A, c.B)
	if want := refFold(uint64(c.A) + uint64(c.B)); got != want {
		return evid.Failf("combine:value", "ChecksumCombine(%#04x, %#04x) = %#04x, one's-complement sum is %#04x", c.A, c.B, got, want)
	}
	return nil
}

// TestCombineSweep: quick: all 2^16 a x 64 b (2^22 pairs: boundaries and
// enumerator-random); thorough: all 2^32 pairs, sharded by a.
func TestCombineSweep(t *testing.T) {
	if evid.ReplayMode() {
		t.Skip("replays of check combine are hosted by TestCombineRandom")
	}
	var bs []uint16
	if evid.Thorough() {
		bs = make([]uint16, 1<<16)
		for i := range bs {
			bs[i] = uint16(i)
		}
	} else {
		bs = []uint16{0, 1, 2, 0xff, 0x100, 0x7fff, 0x8000, 0x8001, 0xfffd, 0xfffe, 0xffff, 0x00ff, 0xff00, 0x5555, 0xaaaa, 0x1234}
		r := newSM("combine")
		for len(bs) < 64 {
			bs = append(bs, uint16(r.next()))
		}
	}
	var n, nts int64
	for a := evid.ShardIdx; a < 1<<16; a += evid.NShards {
		for _, b := range bs {
			v := uint32(a) + uint32(b)
			want := uint16(v&0xffff + v>>16) // v <= 0x1fffe: one fold suffices, checked against refFold below
			if got := header.ChecksumCombine(uint16(a), b); got != want || want != refFold(uint64(v)) {
				c := CombCase{uint16(a), b}
				evid.Direct(t, "combine", runComb(c), c)
				evid.Eval(n)
				return
			}
			n++
			if v > 0xffff {
				nts++
			}
		}
	}
	evid.Eval(n)
	evid.DistinctByConstruction(nts)
	evid.LabelN("combine:pairs", n)
	if evid.Thorough() {
		evid.Exhaustive("ChecksumCombine: all 2^32 argument pairs")
	} else {
		evid.Exhaustive("ChecksumCombine: all 65536 first arguments x 64 second arguments (2^22 pairs)")
	}
}

func TestCombineRandom(t *testing.T) {
	u16 := rapid.OneOf(rapid.SampledFrom([]uint16{0, 1, 0x7fff, 0x8000, 0xfffe, 0xffff}), rapid.Uint16())
	evid.Run(t, evid.Spec[CombCase]{Name: "combine",
		Gen: func(rt *rapid.T) CombCase { return CombCase{u16.Draw(rt, "a"), u16.Draw(rt, "b")} },
		Run: func(c CombCase) *evid.Failure {
			if uint32(c.A)+uint32(c.B) > 0xffff {
				evid.NonTrivialKey(c.A, c.B)
			}
			return runComb(c)
		}})
}
