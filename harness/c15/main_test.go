package c15

import (
	"runtime/debug"
	"testing"

	"verifharness/evid"
)

func TestMain(m *testing.M) {
	// the sweeps allocate one small scratch buffer per case; collect less often
	debug.SetGCPercent(800)
	evid.Main(m, "C15")
}

// sm64 is splitmix64: the enumerators' deterministic source of "random"
// backgrounds (seeded from VERIF_SEED and a salt; cases are stored in full,
// so replays never depend on it).
type sm64 uint64

func (s *sm64) next() uint64 {
	*s += 0x9e3779b97f4a7c15
	z := uint64(*s)
	z = (z ^ z>>30) * 0xbf58476d1ce4e5b9
	z = (z ^ z>>27) * 0x94d049bb133111eb
	return z ^ z>>31
}

func newSM(salt string) *sm64 {
	s := sm64(uint64(evid.Seed)*0x2545f4914f6cdd1d + 0x1234567)
	for i := 0; i < len(salt); i++ {
		s = sm64(uint64(s)*1099511628211 ^ uint64(salt[i]))
	}
	s.next()
	return &s
}

// poisonAt is the position dependent fill of every scratch buffer.
func poisonAt(i int) byte { return byte(0xa5 ^ (i * 29)) }

func poisoned(n int) []byte {
	b := make([]byte, n)
	for i := range b {
		b[i] = poisonAt(i)
	}
	return b
}

// poisonIntact reports the first index outside [lo,hi) whose poison changed.
func poisonIntact(b []byte, lo, hi int) int {
	for i := range b {
		if (i < lo || i >= hi) && b[i] != poisonAt(i) {
			return i
		}
	}
	return -1
}
