// Package c15 checks property C15: header encode/decode round trips and the
// Internet checksum.
//
// This file holds the INDEPENDENT reference: byte-level decoders written from
// the RFC layouts (RFC 894 Ethernet, RFC 826 ARP, RFC 791 IPv4, RFC 8200 IPv6
// and its fragment header, RFC 792 / RFC 4443 ICMP, RFC 768 UDP, RFC 9293 TCP,
// RFC 7323 / RFC 2018 TCP options, RFC 1035 DNS) and the RFC 1071 sum. Nothing
// here imports the repository under test.
package c15

import "fmt"

// ---------------------------------------------------------------- RFC 1071

// refSumRaw is the unfolded sum init + sum of big-endian 16-bit words, an odd
// trailing byte being padded on the right with a zero byte (RFC 1071 §4.1).
func refSumRaw(b []byte, init uint16) uint64 {
	s := uint64(init)
	n := len(b)
	for i := 0; i+1 < n; i += 2 {
		s += uint64(b[i])<<8 | uint64(b[i+1])
	}
	if n%2 == 1 {
		s += uint64(b[n-1]) << 8
	}
	return s
}

// refFold folds the carries back in (end-around carry) until 16 bits remain.
func refFold(s uint64) uint16 {
	for s>>16 != 0 {
		s = (s & 0xffff) + (s >> 16)
	}
	return uint16(s)
}

// ref1071 is the 16-bit one's-complement sum (not complemented).
func ref1071(b []byte, init uint16) uint16 { return refFold(refSumRaw(b, init)) }

// ------------------------------------------------------------ byte helpers

func rbe16(b []byte) uint64 { return uint64(b[0])<<8 | uint64(b[1]) }
func rbe32(b []byte) uint64 {
	return uint64(b[0])<<24 | uint64(b[1])<<16 | uint64(b[2])<<8 | uint64(b[3])
}
func rbe48(b []byte) uint64 { return rbe16(b)<<32 | rbe32(b[2:]) }
func rbe64(b []byte) uint64 { return rbe32(b)<<32 | rbe32(b[4:]) }

// refDecoded is what a reference decoder returns: the field values in the
// order of the header's field table, a complaint about fixed bits that every
// encoding must have (version nibbles, ARP constants), and a complaint about
// reserved bits that must be zero when the header was built in zeroed memory.
type refDecoded struct {
	vals     []uint64
	fixed    string
	reserved string
}

// Ethernet II (RFC 894): dst(6) src(6) ethertype(2).
func refEth(b []byte) refDecoded {
	return refDecoded{vals: []uint64{rbe48(b[0:]), rbe48(b[6:]), rbe16(b[12:])}}
}

// ARP for IPv4 over Ethernet (RFC 826): htype(2)=1 ptype(2)=0x0800 hlen(1)=6
// plen(1)=4 op(2) sha(6) spa(4) tha(6) tpa(4).
func refARP(b []byte) refDecoded {
	d := refDecoded{vals: []uint64{rbe16(b[6:]), rbe48(b[8:]), rbe32(b[14:]), rbe48(b[18:]), rbe32(b[24:])}}
	if rbe16(b[0:]) != 1 || rbe16(b[2:]) != 0x0800 || b[4] != 6 || b[5] != 4 {
		d.fixed = fmt.Sprintf("htype/ptype/hlen/plen = %d/%#x/%d/%d, want 1/0x800/6/4", rbe16(b[0:]), rbe16(b[2:]), b[4], b[5])
	}
	return d
}

// IPv4 (RFC 791 §3.1). Values are returned in the encoder's units: IHL in
// bytes, fragment offset in bytes.
func refIPv4(b []byte) refDecoded {
	w := rbe16(b[6:])
	d := refDecoded{vals: []uint64{
		uint64(b[0]&0x0f) * 4, // IHL
		uint64(b[1]),          // TOS
		rbe16(b[2:]),          // total length
		rbe16(b[4:]),          // identification
		w >> 13,               // flags
		(w & 0x1fff) * 8,      // fragment offset
		uint64(b[8]),          // TTL
		uint64(b[9]),          // protocol
		rbe16(b[10:]),         // header checksum
		rbe32(b[12:]),         // source
		rbe32(b[16:]),         // destination
	}}
	if b[0]>>4 != 4 {
		d.fixed = fmt.Sprintf("version nibble %d, want 4", b[0]>>4)
	}
	return d
}

// IPv6 (RFC 8200 §3): version(4) traffic class(8) flow label(20) payload
// length(16) next header(8) hop limit(8) src(128) dst(128).
func refIPv6(b []byte) refDecoded {
	d := refDecoded{vals: []uint64{
		uint64(b[0]&0x0f)<<4 | uint64(b[1]>>4),
		uint64(b[1]&0x0f)<<16 | uint64(b[2])<<8 | uint64(b[3]),
		rbe16(b[4:]),
		uint64(b[6]),
		uint64(b[7]),
		rbe64(b[8:]), rbe64(b[16:]),
		rbe64(b[24:]), rbe64(b[32:]),
	}}
	if b[0]>>4 != 6 {
		d.fixed = fmt.Sprintf("version nibble %d, want 6", b[0]>>4)
	}
	return d
}

// IPv6 fragment header (RFC 8200 §4.5): next header(8) reserved(8) fragment
// offset(13) res(2) M(1) identification(32). Offset in 8-octet units.
func refIPv6Frag(b []byte) refDecoded {
	d := refDecoded{vals: []uint64{uint64(b[0]), rbe16(b[2:]) >> 3, uint64(b[3] & 1), rbe32(b[4:])}}
	if b[1] != 0 || b[3]&0x06 != 0 {
		d.reserved = fmt.Sprintf("reserved byte %#x, res bits %#x, want 0", b[1], b[3]&0x06)
	}
	return d
}

// ICMPv4 (RFC 792) and ICMPv6 (RFC 4443 §2.1): type(8) code(8) checksum(16).
func refICMP(b []byte) refDecoded {
	return refDecoded{vals: []uint64{uint64(b[0]), uint64(b[1]), rbe16(b[2:])}}
}

// UDP (RFC 768): source port, destination port, length, checksum.
func refUDP(b []byte) refDecoded {
	return refDecoded{vals: []uint64{rbe16(b[0:]), rbe16(b[2:]), rbe16(b[4:]), rbe16(b[6:])}}
}

// TCP (RFC 9293 §3.1): sport dport seq ack, data offset(4) rsrvd(4), control
// bits(8), window, checksum, urgent pointer. Data offset returned in bytes.
func refTCP(b []byte) refDecoded {
	d := refDecoded{vals: []uint64{
		rbe16(b[0:]), rbe16(b[2:]), rbe32(b[4:]), rbe32(b[8:]),
		uint64(b[12]>>4) * 4, uint64(b[13]), rbe16(b[14:]), rbe16(b[16:]), rbe16(b[18:]),
	}}
	if b[12]&0x0f != 0 {
		d.reserved = fmt.Sprintf("reserved nibble %#x, want 0", b[12]&0x0f)
	}
	return d
}

// ------------------------------------------------------------- TCP options

// OptItem is one element of a TCP option sequence.
//
//	mss      A = MSS (16 bit)                    kind 2 len 4  (RFC 9293 §3.2)
//	ws       A = shift count (8 bit)             kind 3 len 3  (RFC 7323 §2)
//	ts       A = TSval, B = TSecr                kind 8 len 10 (RFC 7323 §3)
//	sackperm                                     kind 4 len 2  (RFC 2018 §2)
//	sack     Blk = start,end,start,end,...       kind 5 len 2+8n (RFC 2018 §3)
//	nop                                          kind 1
//	unk      A = kind, P = payload               kind A len 2+len(P), written by the harness (an option of another implementation)
//	eol      P = bytes following the EOL octet   kind 0, written by the harness
type OptItem struct {
	K   string   `json:"k"`
	A   uint32   `json:"a,omitempty"`
	B   uint32   `json:"b,omitempty"`
	Blk []uint32 `json:"blk,omitempty"`
	P   []byte   `json:"p,omitempty"`
}

func put32(b []byte, v uint32) []byte {
	return append(b, byte(v>>24), byte(v>>16), byte(v>>8), byte(v))
}

// refEncodeOpt returns the bytes of the option if it fits in space bytes, nil
// otherwise ("returns without encoding anything"). For SACK it returns as many
// leading blocks as fit, at most 4 (40 bytes of option space, RFC 2018 §3),
// together with their number.
func refEncodeOpt(it OptItem, space int) (out []byte, nblocks int) {
	switch it.K {
	case "mss":
		if space < 4 {
			return nil, 0
		}
		return []byte{2, 4, byte(it.A >> 8), byte(it.A)}, 0
	case "ws":
		if space < 3 {
			return nil, 0
		}
		return []byte{3, 3, byte(it.A)}, 0
	case "ts":
		if space < 10 {
			return nil, 0
		}
		return put32(put32([]byte{8, 10}, it.A), it.B), 0
	case "sackperm":
		if space < 2 {
			return nil, 0
		}
		return []byte{4, 2}, 0
	case "sack":
		n := len(it.Blk) / 2
		if n > 4 {
			n = 4
		}
		fit := 0
		if space >= 2 {
			fit = (space - 2) / 8
		}
		if fit < n {
			n = fit
		}
		if n == 0 {
			return nil, 0
		}
		out = []byte{5, byte(2 + 8*n)}
		for i := 0; i < n; i++ {
			out = put32(put32(out, it.Blk[2*i]), it.Blk[2*i+1])
		}
		return out, n
	case "nop":
		if space < 1 {
			return nil, 0
		}
		return []byte{1}, 0
	case "unk":
		if space < 2+len(it.P) {
			return nil, 0
		}
		return append([]byte{byte(it.A), byte(2 + len(it.P))}, it.P...), 0
	case "eol":
		if space < 1+len(it.P) {
			return nil, 0
		}
		return append([]byte{0}, it.P...), 0
	}
	return nil, 0
}

// refSyn / refSeg are what a receiver must recover from a SYN segment's and a
// non-SYN segment's options.
type refSyn struct {
	MSS      uint16 // 536 when absent (RFC 9293 §3.7.1 / RFC 1122 4.2.2.6)
	WS       int    // -1 when absent; values above 14 are used as 14 (RFC 7323 §2.3)
	TS       bool
	TSVal    uint32
	TSEcr    uint32 // only valid when the segment carries ACK (RFC 7323 §3.2)
	SACKPerm bool
}

type refSeg struct {
	TS     bool
	TSVal  uint32
	TSEcr  uint32
	Blocks []uint32
}

// refExpect derives both from the list of options actually written, in order.
// Everything after an EOL item is ignored (RFC 9293 §3.1: end of option list).
func refExpect(written []OptItem, nblocks []int, isAck bool) (refSyn, refSeg) {
	syn := refSyn{MSS: 536, WS: -1}
	var seg refSeg
	for i, it := range written {
		switch it.K {
		case "mss":
			syn.MSS = uint16(it.A)
		case "ws":
			syn.WS = int(it.A & 0xff)
			if syn.WS > 14 {
				syn.WS = 14
			}
		case "ts":
			syn.TS, syn.TSVal = true, it.A
			if isAck {
				syn.TSEcr = it.B
			}
			seg.TS, seg.TSVal, seg.TSEcr = true, it.A, it.B
		case "sackperm":
			syn.SACKPerm = true
		case "sack":
			seg.Blocks = append([]uint32(nil), it.Blk[:2*nblocks[i]]...)
		case "eol":
			return syn, seg
		}
	}
	return syn, seg
}

// --------------------------------------------------------------------- DNS

// refDNSQuery is a decoded RFC 1035 §4.1 message holding exactly one
// question and nothing else.
type refDNSQuery struct {
	ID, Flags, QD, AN, NS, AR uint16
	Labels                    []string
	NameLen                   int // octets of QNAME including the root octet
	QType, QClass             uint16
	Err                       string
}

func refDecodeDNSQuery(b []byte) refDNSQuery {
	var q refDNSQuery
	if len(b) < 12 {
		q.Err = fmt.Sprintf("message of %d octets is shorter than the 12 octet header", len(b))
		return q
	}
	q.ID, q.Flags = uint16(rbe16(b[0:])), uint16(rbe16(b[2:]))
	q.QD, q.AN, q.NS, q.AR = uint16(rbe16(b[4:])), uint16(rbe16(b[6:])), uint16(rbe16(b[8:])), uint16(rbe16(b[10:]))
	i := 12
	for {
		if i >= len(b) {
			q.Err = "QNAME runs off the end of the message"
			return q
		}
		l := int(b[i])
		i++
		if l == 0 {
			break
		}
		if l > 63 {
			q.Err = fmt.Sprintf("label length octet %#x (compression pointer or reserved) in a question", l)
			return q
		}
		if i+l > len(b) {
			q.Err = "label runs off the end of the message"
			return q
		}
		q.Labels = append(q.Labels, string(b[i:i+l]))
		i += l
	}
	q.NameLen = i - 12
	if i+4 != len(b) {
		q.Err = fmt.Sprintf("%d octets after QNAME, want exactly 4 (QTYPE, QCLASS)", len(b)-i)
		return q
	}
	q.QType, q.QClass = uint16(rbe16(b[i:])), uint16(rbe16(b[i+2:]))
	return q
}
