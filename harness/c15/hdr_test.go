package c15

import (
	"fmt"
	"sort"
	"testing"

	"pgregory.net/rapid"
	"verifharness/evid"
)

// HdrCase: encode V with header H's encoder into a slice placed at Off inside
// a poisoned buffer, optionally call one setter with SV afterwards, then read
// everything back through the getters and through the reference decoder.
type HdrCase struct {
	H     string   `json:"h"`
	V     []uint64 `json:"v"`
	Set   string   `json:"set,omitempty"`
	SV    []uint64 `json:"sv,omitempty"`
	Pre   int      `json:"pre"`   // header bytes before encoding: 0 zero, 1 0xff, 2 poison pattern
	Slack int      `json:"slack"` // bytes of the slice handed over beyond the header (0: exact)
	Off   int      `json:"off"`
}

func runHdr(c HdrCase) *evid.Failure {
	d := hdrByName[c.H]
	if d == nil || len(c.V) != len(d.fields) || c.Off < 0 || c.Off > 64 || c.Slack < 0 || c.Slack > 64 {
		evid.Exclude("malformed-case")
		return nil
	}
	for i, f := range d.fields {
		if !f.in(c.V[i]) {
			evid.Exclude("out-of-domain-case")
			return nil
		}
	}
	var set *setDef
	want := c.V
	if c.Set != "" {
		set = d.setter(c.Set)
		if set == nil || len(c.SV) != len(set.f) {
			evid.Exclude("malformed-case")
			return nil
		}
		want = append([]uint64(nil), c.V...)
		for j, fi := range set.f {
			if !d.fields[fi].in(c.SV[j]) {
				evid.Exclude("out-of-domain-case")
				return nil
			}
			want[fi] = c.SV[j]
		}
	}
	span := d.size
	if d.span != nil {
		span = d.span(c.V)
	}
	end := c.Off + span + c.Slack
	buf := poisoned(end + 8)
	switch c.Pre {
	case 0:
		clear(buf[c.Off : c.Off+d.size])
	case 1:
		for i := c.Off; i < c.Off+d.size; i++ {
			buf[i] = 0xff
		}
	}
	b := buf[c.Off:end:end]
	if f := evid.Guard(func() *evid.Failure {
		d.encode(b, c.V)
		if set != nil {
			set.apply(b, c.SV)
		}
		got := d.get(b)
		for i := range want {
			if got[i] != want[i] && got[i] != noGetter {
				return evid.Failf("rt:"+d.name+"."+d.fields[i].name, "%s: getter of %s returns %#x after encoding %#x (fields %v)",
					d.name, d.fields[i].name, got[i], want[i], fieldNames(d))
			}
		}
		if d.extra != nil {
			return d.extra(b, want)
		}
		return nil
	}); f != nil {
		return f
	}
	r := d.ref(buf[c.Off : c.Off+d.size])
	for i := range want {
		if r.vals[i] != want[i] {
			return evid.Failf("ref:"+d.name+"."+d.fields[i].name, "%s: the bytes % x carry %s=%#x at the RFC position, encoded %#x",
				d.name, buf[c.Off:c.Off+d.size], d.fields[i].name, r.vals[i], want[i])
		}
	}
	if r.fixed != "" {
		return evid.Failf("layout:"+d.name, "%s: %s (bytes % x)", d.name, r.fixed, buf[c.Off:c.Off+d.size])
	}
	if c.Pre == 0 && r.reserved != "" {
		return evid.Failf("reserved:"+d.name, "%s built in zeroed memory: %s (bytes % x)", d.name, r.reserved, buf[c.Off:c.Off+d.size])
	}
	if i := poisonIntact(buf, c.Off, c.Off+d.size); i >= 0 {
		return evid.Failf("oob:"+d.name, "%s: byte at %+d relative to the header start changed from %#x to %#x (header is %d bytes)",
			d.name, i-c.Off, poisonAt(i), buf[i], d.size)
	}
	return nil
}

func fieldNames(d *hdrDef) []string {
	var s []string
	for _, f := range d.fields {
		s = append(s, f.name)
	}
	return s
}

// boundaries returns boundary values of the field's domain: ends, single
// bits, all-but-one bit, 2^k-1, byte patterns.
func boundaries(f fdef) []uint64 {
	n := f.n()
	bits := 64
	if n != 0 {
		bits = 0
		for (n-1)>>uint(bits) != 0 {
			bits++
		}
	}
	mask := ^uint64(0)
	if bits < 64 {
		mask = 1<<uint(bits) - 1
	}
	ks := []uint64{0, 1, 2, n - 1, n - 2, n - 3, n / 2, n/2 - 1, n/2 + 1, 0x5555555555555555 & mask, 0xaaaaaaaaaaaaaaaa & mask,
		0x00ff00ff00ff00ff & mask, 0xff00ff00ff00ff00 & mask, 0x0123456789abcdef & mask, 0xfedcba9876543210 & mask}
	for i := 0; i < bits; i++ {
		ks = append(ks, 1<<uint(i), 1<<uint(i)-1, mask&^(1<<uint(i)), 1<<uint(i)+1)
	}
	for i := 0; i < bits; i += 8 {
		ks = append(ks, 0xff<<uint(i)&mask, 0x80<<uint(i)&mask, 0x01<<uint(i)&mask, mask&^(0xff<<uint(i)))
	}
	seen := map[uint64]bool{}
	var out []uint64
	for _, k := range ks {
		if n != 0 && k >= n {
			continue
		}
		if !seen[k] {
			seen[k] = true
			out = append(out, f.at(k))
		}
	}
	sort.Slice(out, func(i, j int) bool { return out[i] < out[j] })
	return out
}

// domainSet is what a sweep visits for one field: the whole domain for fields
// of at most 16 bits (and, in the thorough tier, 20 bits), otherwise boundary
// values plus enumerator-random ones.
func domainSet(f fdef, salt string) (vals []uint64, complete bool) {
	n := f.n()
	if f.small() || (n != 0 && n <= 1<<20 && evid.Thorough()) {
		vals = make([]uint64, n)
		for k := range vals {
			vals[k] = f.at(uint64(k))
		}
		return vals, true
	}
	vals = boundaries(f)
	if n != 0 && n <= 1<<20 {
		for k := uint64(0); k < n; k += 17 {
			vals = append(vals, f.at(k))
		}
		return vals, false
	}
	r := newSM("dom:" + salt)
	for i := 0; i < evid.Pick(1024, 16384); i++ {
		vals = append(vals, f.at(r.next()))
	}
	return vals, false
}

// fewBoundaries thins a boundary list that is going to be multiplied with a
// set of n values: lowest, highest and a few in between.
func fewBoundaries(b []uint64, n int) []uint64 {
	keep := 24
	if n > 4096 {
		keep = 4
	}
	if len(b) <= keep {
		return b
	}
	out := append([]uint64(nil), b[:keep/2]...)
	out[keep/2-1] = b[len(b)/2]
	return append(out, b[len(b)-keep/2:]...)
}

type hdrSweeper struct {
	t      *testing.T
	ctr    uint64
	failed bool
}

// sweep runs the product of sets over the fields fs (through Encode, or
// through setter set after an Encode of the background) on three backgrounds
// and two buffer variants each. distinct says whether the visited cases are
// new by construction.
func (s *hdrSweeper) sweep(d *hdrDef, set *setDef, fs []int, sets [][]uint64, distinct bool, what string) {
	if s.failed {
		return
	}
	mode := "Encode"
	if set != nil {
		mode = set.name
	}
	rnd := newSM("bg:" + d.name + mode + what)
	nf := len(d.fields)
	v := make([]uint64, nf)
	tup := make([]uint64, len(fs))
	var evals, nts int64
	total := 1
	for _, x := range sets {
		total *= len(x)
	}
	for it := 0; it < total; it++ {
		k := it
		nt, allLo, allHi := false, true, true
		for j := len(fs) - 1; j >= 0; j-- {
			tup[j] = sets[j][k%len(sets[j])]
			k /= len(sets[j])
			f := d.fields[fs[j]]
			nt = nt || f.nontrivial(tup[j])
			allLo = allLo && tup[j] == f.lo
			allHi = allHi && tup[j] == f.hi
		}
		for bg := 0; bg < 3; bg++ {
			// the random background is drawn for every case, whichever shard runs it
			for i, f := range d.fields {
				switch bg {
				case 0:
					v[i] = f.lo
				case 1:
					v[i] = f.hi
				default:
					v[i] = f.at(rnd.next())
				}
			}
			s.ctr++
			if s.ctr%uint64(evid.NShards) != uint64(evid.ShardIdx) {
				continue
			}
			c := HdrCase{H: d.name, V: v, Off: 4}
			if set == nil {
				for j, fi := range fs {
					v[fi] = tup[j]
				}
			} else {
				c.Set, c.SV = set.name, tup
			}
			for variant := 0; variant < 2; variant++ {
				if variant == 0 {
					c.Pre, c.Slack = 0, 16 // zeroed header inside a longer slice: stray writes land in poison
				} else {
					c.Pre, c.Slack = 1+bg/2, 0 // dirty header, exact slice: stray accesses panic, un-cleared bits show
				}
				evals++
				if evid.Direct(s.t, "hdr", runHdr(c), c) {
					s.failed = true
					evid.Eval(evals)
					return
				}
			}
			// the all-lo / all-hi tuples on the matching background are the same case in every sweep: not counted
			if nt && distinct && !(bg == 0 && allLo) && !(bg == 1 && allHi) {
				nts++
				if nts%40000 == 1 {
					cc := c
					cc.V = append([]uint64(nil), v...)
					cc.SV = append([]uint64(nil), c.SV...)
					evid.Sample("sweep:"+d.name, cc)
				}
			}
		}
	}
	evid.Eval(evals)
	evid.DistinctByConstruction(nts)
	evid.LabelN("hdr:"+d.name+":"+mode, evals)
}

// TestHdrSweep: per header, every field of at most 16 bits exhaustively (and
// the pairs of fields that share a byte or a word jointly), wider fields on
// boundary and random values; through Encode and through every setter; over
// the backgrounds all-lowest, all-highest and random.
func TestHdrSweep(t *testing.T) {
	if evid.ReplayMode() {
		t.Skip("replays of check hdr are hosted by TestHdrRandom")
	}
	s := &hdrSweeper{t: t}
	for _, d := range hdrList {
		inFullPair := map[int]bool{}
		for _, p := range d.pairs {
			a, b := d.fields[p[0]], d.fields[p[1]]
			if a.small() && b.small() && a.n()*b.n() <= 1<<17 {
				sa, _ := domainSet(a, "")
				sb, _ := domainSet(b, "")
				s.sweep(d, nil, p[:], [][]uint64{sa, sb}, true, "pair")
				inFullPair[p[0]], inFullPair[p[1]] = true, true
				if evid.ShardIdx == 0 {
					evid.Exhaustive(fmt.Sprintf("%s.Encode: all %d value pairs of (%s, %s) x 3 backgrounds", d.name, len(sa)*len(sb), a.name, b.name))
				}
			} else {
				sa, _ := domainSet(a, "")
				if !a.small() {
					sa = boundaries(a)
				}
				s.sweep(d, nil, p[:], [][]uint64{sa, boundaries(b)}, false, "bpair")
			}
		}
		for i, f := range d.fields {
			if inFullPair[i] {
				continue
			}
			vs, complete := domainSet(f, d.name+f.name)
			s.sweep(d, nil, []int{i}, [][]uint64{vs}, true, f.name)
			if complete && evid.ShardIdx == 0 {
				evid.Exhaustive(fmt.Sprintf("%s.Encode: all %d values of %s x 3 backgrounds", d.name, len(vs), f.name))
			}
		}
		for si := range d.setters {
			set := &d.setters[si]
			if len(set.f) == 2 {
				a, b := d.fields[set.f[0]], d.fields[set.f[1]]
				if a.small() && b.small() && a.n()*b.n() <= 1<<17 {
					sa, _ := domainSet(a, "")
					sb, _ := domainSet(b, "")
					s.sweep(d, set, set.f, [][]uint64{sa, sb}, true, "pair")
					if evid.ShardIdx == 0 {
						evid.Exhaustive(fmt.Sprintf("%s.%s: all %d argument pairs x 3 backgrounds", d.name, set.name, len(sa)*len(sb)))
					}
					continue
				}
				// too large for the product: each argument swept with the other on boundary values
				sa, ca := domainSet(a, d.name+set.name+a.name)
				sb, cb := domainSet(b, d.name+set.name+b.name)
				bb, ba := boundaries(b), boundaries(a)
				bb, ba = fewBoundaries(bb, len(sa)), fewBoundaries(ba, len(sb))
				s.sweep(d, set, set.f, [][]uint64{sa, bb}, false, "a")
				s.sweep(d, set, set.f, [][]uint64{ba, sb}, false, "b")
				if ca && cb && evid.ShardIdx == 0 {
					evid.Exhaustive(fmt.Sprintf("%s.%s: every value of each argument (other argument on boundary values)", d.name, set.name))
				}
				continue
			}
			f := d.fields[set.f[0]]
			vs, complete := domainSet(f, d.name+set.name)
			s.sweep(d, set, set.f, [][]uint64{vs}, true, f.name)
			if complete && evid.ShardIdx == 0 {
				evid.Exhaustive(fmt.Sprintf("%s.%s: all %d values x 3 backgrounds", d.name, set.name, len(vs)))
			}
		}
	}
}

func genField(rt *rapid.T, f fdef, label string) uint64 {
	n := f.n()
	switch rapid.IntRange(0, 3).Draw(rt, label+"?") {
	case 0:
		return rapid.SampledFrom(boundaries(f)).Draw(rt, label)
	case 1:
		// one random byte set, rest zero or ones
		k := rapid.Uint64().Draw(rt, label)
		sh := uint(rapid.IntRange(0, 7).Draw(rt, label+"sh")) * 8
		k = (k & 0xff) << sh
		if rapid.Bool().Draw(rt, label+"inv") {
			k = ^k
		}
		return f.at(k)
	}
	if n == 0 {
		return rapid.Uint64().Draw(rt, label)
	}
	return f.at(rapid.Uint64Range(0, n-1).Draw(rt, label))
}

func genHdr(rt *rapid.T) HdrCase {
	d := hdrList[rapid.IntRange(0, len(hdrList)-1).Draw(rt, "hdr")]
	c := HdrCase{H: d.name}
	for _, f := range d.fields {
		c.V = append(c.V, genField(rt, f, f.name))
	}
	if len(d.setters) > 0 && rapid.IntRange(0, 2).Draw(rt, "useSetter") == 0 {
		set := d.setters[rapid.IntRange(0, len(d.setters)-1).Draw(rt, "setter")]
		c.Set = set.name
		for _, fi := range set.f {
			c.SV = append(c.SV, genField(rt, d.fields[fi], "set."+d.fields[fi].name))
		}
	}
	c.Pre = rapid.IntRange(0, 2).Draw(rt, "pre")
	c.Slack = rapid.SampledFrom([]int{0, 0, 1, 3, 16, 40}).Draw(rt, "slack")
	c.Off = rapid.IntRange(0, 9).Draw(rt, "off")
	return c
}

func TestHdrRandom(t *testing.T) {
	evid.Run(t, evid.Spec[HdrCase]{Name: "hdr", Gen: genHdr, Run: func(c HdrCase) *evid.Failure {
		f := runHdr(c)
		if d := hdrByName[c.H]; d != nil && len(c.V) == len(d.fields) {
			nt := false
			for i, fd := range d.fields {
				nt = nt || (fd.in(c.V[i]) && fd.nontrivial(c.V[i]))
			}
			if nt {
				evid.NonTrivialKey(c.H, fmt.Sprint(c.V), c.Set, fmt.Sprint(c.SV))
			}
			evid.Label("random:" + c.H)
			if c.Set != "" {
				evid.Label("random:setter")
			}
			evid.Sample("random:"+c.H, c)
		}
		return f
	}})
}
