package c15

import (
	"fmt"

	tcpip "github.com/brewlin/net-protocol/protocol"
	"github.com/brewlin/net-protocol/protocol/header"
	"verifharness/evid"
)

// fdef is the value domain of one header field in the ENCODER's units:
// {lo, lo+step, ..., hi}.
type fdef struct {
	name         string
	lo, hi, step uint64
}

func ub(name string, bits int) fdef {
	if bits == 64 {
		return fdef{name, 0, ^uint64(0), 1}
	}
	return fdef{name, 0, 1<<uint(bits) - 1, 1}
}

// n is the number of values (0 stands for 2^64).
func (f fdef) n() uint64        { return (f.hi-f.lo)/f.step + 1 }
func (f fdef) small() bool      { return (f.hi-f.lo)/f.step < 1<<16 }
func (f fdef) in(v uint64) bool { return v >= f.lo && v <= f.hi && (v-f.lo)%f.step == 0 }
func (f fdef) at(k uint64) uint64 {
	if n := f.n(); n != 0 {
		k %= n
	}
	return f.lo + k*f.step
}
func (f fdef) idx(v uint64) uint64 { return (v - f.lo) / f.step }

// nontrivial: a value with a non-zero high byte or at a field boundary (for
// fields of at most 8 bits: top bit set or at a boundary).
func (f fdef) nontrivial(v uint64) bool {
	if v == f.lo || v == f.hi {
		return true
	}
	if n := f.n(); n != 0 && n <= 256 {
		return f.idx(v) >= n/2
	}
	return f.idx(v) >= 256
}

// bs renders v as n big-endian bytes; val is its inverse.
func bs(v uint64, n int) string {
	b := make([]byte, n)
	for i := n - 1; i >= 0; i-- {
		b[i] = byte(v)
		v >>= 8
	}
	return string(b)
}

func val[S ~string | ~[]byte](s S) uint64 {
	var v uint64
	for i := 0; i < len(s); i++ {
		v = v<<8 | uint64(s[i])
	}
	return v
}

type setDef struct {
	name  string
	f     []int // indices of the fields the setter writes
	apply func(b []byte, sv []uint64)
}

type hdrDef struct {
	name    string
	size    int // bytes owned by the header proper (what Encode may write)
	fields  []fdef
	span    func(v []uint64) int // length of the slice handed over (IHL / data offset); default size
	encode  func(b []byte, v []uint64)
	get     func(b []byte) []uint64
	extra   func(b []byte, want []uint64) *evid.Failure
	ref     func(b []byte) refDecoded
	setters []setDef
	pairs   [][2]int // fields sharing a byte or word: swept jointly
}

func b2u(b bool) uint64 {
	if b {
		return 1
	}
	return 0
}

func ip6(hi, lo uint64) tcpip.Address { return tcpip.Address(bs(hi, 8) + bs(lo, 8)) }

var hdrList = []*hdrDef{
	{
		name: "eth", size: 14,
		fields: []fdef{ub("Dst", 48), ub("Src", 48), ub("Type", 16)},
		encode: func(b []byte, v []uint64) {
			header.Ethernet(b).Encode(&header.EthernetFields{
				DstAddr: tcpip.LinkAddress(bs(v[0], 6)), SrcAddr: tcpip.LinkAddress(bs(v[1], 6)),
				Type: tcpip.NetworkProtocolNumber(v[2])})
		},
		get: func(b []byte) []uint64 {
			e := header.Ethernet(b)
			return []uint64{val(e.DestinationAddress()), val(e.SourceAddress()), uint64(e.Type())}
		},
		ref: refEth,
	},
	{
		name: "arp", size: 28,
		fields: []fdef{ub("Op", 16), ub("SHA", 48), ub("SPA", 32), ub("THA", 48), ub("TPA", 32)},
		// There is no ARP.Encode: this is how protocol/network/arp builds a packet.
		encode: func(b []byte, v []uint64) {
			a := header.ARP(b)
			a.SetIpv4OverEthernet()
			a.SetOp(header.ARPOp(v[0]))
			copy(a.HardwareAddressSender(), bs(v[1], 6))
			copy(a.ProtocolAddressSender(), bs(v[2], 4))
			copy(a.HardwareAddressTarget(), bs(v[3], 6))
			copy(a.ProtocolAddressTarget(), bs(v[4], 4))
		},
		get: func(b []byte) []uint64 {
			a := header.ARP(b)
			return []uint64{uint64(a.Op()), val(a.HardwareAddressSender()), val(a.ProtocolAddressSender()),
				val(a.HardwareAddressTarget()), val(a.ProtocolAddressTarget())}
		},
		extra: func(b []byte, want []uint64) *evid.Failure {
			if !header.ARP(b).IsValid() {
				return evid.Failf("rt:arp.IsValid", "IsValid() false for a packet built with SetIpv4OverEthernet")
			}
			return nil
		},
		ref: refARP,
		setters: []setDef{
			{"SetOp", []int{0}, func(b []byte, sv []uint64) { header.ARP(b).SetOp(header.ARPOp(sv[0])) }},
		},
	},
	{
		name: "ipv4", size: 20,
		fields: []fdef{
			{"IHL", 20, 60, 4}, ub("TOS", 8), ub("TotalLength", 16), ub("ID", 16), ub("Flags", 3),
			{"FragmentOffset", 0, 0xfff8, 8}, ub("TTL", 8), ub("Protocol", 8), ub("Checksum", 16),
			ub("Src", 32), ub("Dst", 32)},
		span: func(v []uint64) int { return int(v[0]) },
		encode: func(b []byte, v []uint64) {
			header.IPv4(b).Encode(&header.IPv4Fields{
				IHL: uint8(v[0]), TOS: uint8(v[1]), TotalLength: uint16(v[2]), ID: uint16(v[3]), Flags: uint8(v[4]),
				FragmentOffset: uint16(v[5]), TTL: uint8(v[6]), Protocol: uint8(v[7]), Checksum: uint16(v[8]),
				SrcAddr: tcpip.Address(bs(v[9], 4)), DstAddr: tcpip.Address(bs(v[10], 4))})
		},
		get: func(b []byte) []uint64 {
			h := header.IPv4(b)
			tos, _ := h.TOS()
			return []uint64{uint64(h.HeaderLength()), uint64(tos), uint64(h.TotalLength()), uint64(h.ID()), uint64(h.Flags()),
				uint64(h.FragmentOffset()), uint64(h.TTL()), uint64(h.Protocol()), uint64(h.Checksum()),
				val(h.SourceAddress()), val(h.DestinationAddress())}
		},
		extra: func(b []byte, w []uint64) *evid.Failure {
			h := header.IPv4(b)
			if g := header.IPVersion(b); g != 4 {
				return evid.Failf("rt:ipv4.IPVersion", "IPVersion()=%d want 4", g)
			}
			if g := uint64(h.TransportProtocol()); g != w[7] {
				return evid.Failf("rt:ipv4.TransportProtocol", "TransportProtocol()=%d want %d", g, w[7])
			}
			if w[2] >= w[0] {
				if g := uint64(h.PayloadLength()); g != w[2]-w[0] {
					return evid.Failf("rt:ipv4.PayloadLength", "PayloadLength()=%d want %d-%d", g, w[2], w[0])
				}
			}
			return nil
		},
		ref: refIPv4,
		setters: []setDef{
			{"SetTOS", []int{1}, func(b []byte, sv []uint64) { header.IPv4(b).SetTOS(uint8(sv[0]), 0) }},
			{"SetTotalLength", []int{2}, func(b []byte, sv []uint64) { header.IPv4(b).SetTotalLength(uint16(sv[0])) }},
			{"SetChecksum", []int{8}, func(b []byte, sv []uint64) { header.IPv4(b).SetChecksum(uint16(sv[0])) }},
			{"SetFlagsFragmentOffset", []int{4, 5}, func(b []byte, sv []uint64) {
				header.IPv4(b).SetFlagsFragmentOffset(uint8(sv[0]), uint16(sv[1]))
			}},
			{"SetSourceAddress", []int{9}, func(b []byte, sv []uint64) { header.IPv4(b).SetSourceAddress(tcpip.Address(bs(sv[0], 4))) }},
			{"SetDestinationAddress", []int{10}, func(b []byte, sv []uint64) {
				header.IPv4(b).SetDestinationAddress(tcpip.Address(bs(sv[0], 4)))
			}},
		},
		pairs: [][2]int{{4, 5}, {0, 1}, {6, 7}},
	},
	{
		name: "ipv6", size: 40,
		fields: []fdef{ub("TrafficClass", 8), ub("FlowLabel", 20), ub("PayloadLength", 16), ub("NextHeader", 8), ub("HopLimit", 8),
			ub("SrcHi", 64), ub("SrcLo", 64), ub("DstHi", 64), ub("DstLo", 64)},
		encode: func(b []byte, v []uint64) {
			header.IPv6(b).Encode(&header.IPv6Fields{
				TrafficClass: uint8(v[0]), FlowLabel: uint32(v[1]), PayloadLength: uint16(v[2]), NextHeader: uint8(v[3]),
				HopLimit: uint8(v[4]), SrcAddr: ip6(v[5], v[6]), DstAddr: ip6(v[7], v[8])})
		},
		get: func(b []byte) []uint64 {
			h := header.IPv6(b)
			tc, fl := h.TOS()
			s, d := h.SourceAddress(), h.DestinationAddress()
			if len(s) != 16 || len(d) != 16 {
				panic(fmt.Sprintf("address getters returned %d and %d bytes", len(s), len(d)))
			}
			return []uint64{uint64(tc), uint64(fl), uint64(h.PayloadLength()), uint64(h.NextHeader()), uint64(h.HopLimit()),
				val(s[:8]), val(s[8:]), val(d[:8]), val(d[8:])}
		},
		extra: func(b []byte, w []uint64) *evid.Failure {
			if g := header.IPVersion(b); g != 6 {
				return evid.Failf("rt:ipv6.IPVersion", "IPVersion()=%d want 6", g)
			}
			if g := uint64(header.IPv6(b).TransportProtocol()); g != w[3] {
				return evid.Failf("rt:ipv6.TransportProtocol", "TransportProtocol()=%d want %d", g, w[3])
			}
			return nil
		},
		ref: refIPv6,
		setters: []setDef{
			{"SetTOS", []int{0, 1}, func(b []byte, sv []uint64) { header.IPv6(b).SetTOS(uint8(sv[0]), uint32(sv[1])) }},
			{"SetPayloadLength", []int{2}, func(b []byte, sv []uint64) { header.IPv6(b).SetPayloadLength(uint16(sv[0])) }},
			{"SetNextHeader", []int{3}, func(b []byte, sv []uint64) { header.IPv6(b).SetNextHeader(uint8(sv[0])) }},
			{"SetSourceAddress", []int{5, 6}, func(b []byte, sv []uint64) { header.IPv6(b).SetSourceAddress(ip6(sv[0], sv[1])) }},
			{"SetDestinationAddress", []int{7, 8}, func(b []byte, sv []uint64) { header.IPv6(b).SetDestinationAddress(ip6(sv[0], sv[1])) }},
		},
		pairs: [][2]int{{0, 1}, {3, 4}},
	},
	{
		name: "ipv6frag", size: 8,
		fields: []fdef{ub("NextHeader", 8), ub("FragmentOffset", 13), ub("M", 1), ub("ID", 32)},
		encode: func(b []byte, v []uint64) {
			header.IPv6Fragment(b).Encode(&header.IPv6FragmentFields{
				NextHeader: uint8(v[0]), FragmentOffset: uint16(v[1]), M: v[2] != 0, Identification: uint32(v[3])})
		},
		get: func(b []byte) []uint64 {
			h := header.IPv6Fragment(b)
			return []uint64{uint64(h.NextHeader()), uint64(h.FragmentOffset()), b2u(h.More()), uint64(h.ID())}
		},
		extra: func(b []byte, w []uint64) *evid.Failure {
			h := header.IPv6Fragment(b)
			if g := uint64(h.TransportProtocol()); g != w[0] {
				return evid.Failf("rt:ipv6frag.TransportProtocol", "TransportProtocol()=%d want %d", g, w[0])
			}
			if !h.IsValid() {
				return evid.Failf("rt:ipv6frag.IsValid", "IsValid() false on an 8 byte header")
			}
			return nil
		},
		ref:   refIPv6Frag,
		pairs: [][2]int{{1, 2}},
	},
	{
		name: "icmpv4", size: 4,
		fields: []fdef{ub("Type", 8), ub("Code", 8), ub("Checksum", 16)},
		encode: func(b []byte, v []uint64) {
			h := header.ICMPv4(b)
			h.SetType(header.ICMPv4Type(v[0]))
			h.SetCode(byte(v[1]))
			h.SetChecksum(uint16(v[2]))
		},
		get: func(b []byte) []uint64 {
			h := header.ICMPv4(b)
			return []uint64{uint64(h.Type()), uint64(h.Code()), uint64(h.Checksum())}
		},
		ref: refICMP,
		setters: []setDef{
			{"SetType", []int{0}, func(b []byte, sv []uint64) { header.ICMPv4(b).SetType(header.ICMPv4Type(sv[0])) }},
			{"SetCode", []int{1}, func(b []byte, sv []uint64) { header.ICMPv4(b).SetCode(byte(sv[0])) }},
			{"SetChecksum", []int{2}, func(b []byte, sv []uint64) { header.ICMPv4(b).SetChecksum(uint16(sv[0])) }},
		},
		pairs: [][2]int{{0, 1}},
	},
	{
		name: "icmpv6", size: 4,
		fields: []fdef{ub("Type", 8), ub("Code", 8), ub("Checksum", 16)},
		encode: func(b []byte, v []uint64) {
			h := header.ICMPv6(b)
			h.SetType(header.ICMPv6Type(v[0]))
			h.SetCode(byte(v[1]))
			h.SetChecksum(uint16(v[2]))
		},
		get: func(b []byte) []uint64 {
			h := header.ICMPv6(b)
			return []uint64{uint64(h.Type()), uint64(h.Code()), uint64(h.Checksum())}
		},
		ref: refICMP,
		setters: []setDef{
			{"SetType", []int{0}, func(b []byte, sv []uint64) { header.ICMPv6(b).SetType(header.ICMPv6Type(sv[0])) }},
			{"SetCode", []int{1}, func(b []byte, sv []uint64) { header.ICMPv6(b).SetCode(byte(sv[0])) }},
			{"SetChecksum", []int{2}, func(b []byte, sv []uint64) { header.ICMPv6(b).SetChecksum(uint16(sv[0])) }},
		},
		pairs: [][2]int{{0, 1}},
	},
	{
		name: "udp", size: 8,
		fields: []fdef{ub("SrcPort", 16), ub("DstPort", 16), ub("Length", 16), ub("Checksum", 16)},
		encode: func(b []byte, v []uint64) {
			header.UDP(b).Encode(&header.UDPFields{SrcPort: uint16(v[0]), DstPort: uint16(v[1]), Length: uint16(v[2]), Checksum: uint16(v[3])})
		},
		get: func(b []byte) []uint64 {
			h := header.UDP(b)
			return []uint64{uint64(h.SourcePort()), uint64(h.DestinationPort()), uint64(h.Length()), uint64(h.Checksum())}
		},
		ref: refUDP,
		setters: []setDef{
			{"SetSourcePort", []int{0}, func(b []byte, sv []uint64) { header.UDP(b).SetSourcePort(uint16(sv[0])) }},
			{"SetDestinationPort", []int{1}, func(b []byte, sv []uint64) { header.UDP(b).SetDestinationPort(uint16(sv[0])) }},
			{"SetChecksum", []int{3}, func(b []byte, sv []uint64) { header.UDP(b).SetChecksum(uint16(sv[0])) }},
		},
	},
	{
		name: "tcp", size: 20,
		fields: []fdef{ub("SrcPort", 16), ub("DstPort", 16), ub("SeqNum", 32), ub("AckNum", 32), {"DataOffset", 20, 60, 4},
			ub("Flags", 8), ub("WindowSize", 16), ub("Checksum", 16), ub("UrgentPointer", 16)},
		span: func(v []uint64) int { return int(v[4]) },
		encode: func(b []byte, v []uint64) {
			header.TCP(b).Encode(&header.TCPFields{SrcPort: uint16(v[0]), DstPort: uint16(v[1]), SeqNum: uint32(v[2]), AckNum: uint32(v[3]),
				DataOffset: uint8(v[4]), Flags: uint8(v[5]), WindowSize: uint16(v[6]), Checksum: uint16(v[7]), UrgentPointer: uint16(v[8])})
		},
		get: func(b []byte) []uint64 {
			h := header.TCP(b)
			// There is no getter for the urgent pointer: it is read back by the reference decoder only.
			return []uint64{uint64(h.SourcePort()), uint64(h.DestinationPort()), uint64(h.SequenceNumber()), uint64(h.AckNumber()),
				uint64(h.DataOffset()), uint64(h.Flags()), uint64(h.WindowSize()), uint64(h.Checksum()), noGetter}
		},
		extra: func(b []byte, w []uint64) *evid.Failure {
			h := header.TCP(b)
			// Options() is the part of the header after the fixed 20 bytes, Payload() what follows the header.
			o := h.Options()
			if len(o) != int(w[4])-20 || (len(o) > 0 && &o[0] != &b[20]) {
				return evid.Failf("rt:tcp.Options", "Options() has %d bytes, want b[20:%d]", len(o), w[4])
			}
			p := h.Payload()
			if len(p) != len(b)-int(w[4]) || (len(p) > 0 && &p[0] != &b[w[4]]) {
				return evid.Failf("rt:tcp.Payload", "Payload() has %d bytes, want b[%d:] of %d", len(p), w[4], len(b))
			}
			return nil
		},
		ref: refTCP,
		setters: []setDef{
			{"SetSourcePort", []int{0}, func(b []byte, sv []uint64) { header.TCP(b).SetSourcePort(uint16(sv[0])) }},
			{"SetDestinationPort", []int{1}, func(b []byte, sv []uint64) { header.TCP(b).SetDestinationPort(uint16(sv[0])) }},
			{"SetChecksum", []int{7}, func(b []byte, sv []uint64) { header.TCP(b).SetChecksum(uint16(sv[0])) }},
		},
		pairs: [][2]int{{4, 5}},
	},
}

// noGetter marks a field the API cannot read back.
const noGetter = ^uint64(0) - 0x5151

var hdrByName = func() map[string]*hdrDef {
	m := map[string]*hdrDef{}
	for _, d := range hdrList {
		m[d.name] = d
	}
	return m
}()

func (d *hdrDef) setter(name string) *setDef {
	for i := range d.setters {
		if d.setters[i].name == name {
			return &d.setters[i]
		}
	}
	return nil
}
