package c15

import (
	"bytes"
	"fmt"
	"strings"
	"testing"

	"github.com/brewlin/net-protocol/protocol/header"
	"pgregory.net/rapid"
	"verifharness/evid"
)

// DNSCase: a query built the way protocol/application/dns does it
// (make 12 bytes, Setheader, SetCount, SetQuestion).
type DNSCase struct {
	ID     uint16    `json:"id"`
	Counts [4]uint16 `json:"counts"` // QD AN NS AR
	Name   string    `json:"name"`   // RFC 1035 host name: labels of 1..63 octets, at most 253 in total, no trailing dot
	QType  uint16    `json:"qtype"`
	QClass uint16    `json:"qclass"`
	Off    int       `json:"off"`
	// Name2: if valid, a second question is added with another SetQuestion call (QDCOUNT says how
	// many questions follow the header, RFC 1035 4.1.2): the message must then be the
	// one-question message followed by the second question, octet for octet
	Name2 string `json:"name2,omitempty"`
}

func validName(s string) bool {
	if len(s) < 1 || len(s) > 253 {
		return false
	}
	for _, l := range strings.Split(s, ".") {
		if len(l) < 1 || len(l) > 63 {
			return false
		}
	}
	return true
}

func runDNS(c DNSCase) *evid.Failure {
	if !validName(c.Name) || c.Off < 0 || c.Off > 16 {
		evid.Exclude("malformed-case")
		return nil
	}
	buf := poisoned(c.Off + 12 + 24)
	clear(buf[c.Off : c.Off+12])
	var msg []byte
	var id, qd, an, ns, ar uint16
	var dlen int
	if f := evid.Guard(func() *evid.Failure {
		// capacity limited to the header, as with make([]byte, 12): SetQuestion appends
		h := header.DNS(buf[c.Off : c.Off+12 : c.Off+12])
		h.Setheader(c.ID)
		h.SetCount(c.Counts[0], c.Counts[1], c.Counts[2], c.Counts[3])
		h.SetQuestion(c.Name, c.QType, c.QClass)
		msg = []byte(h)
		id, qd, an, ns, ar = h.GetId(), h.GetQDCount(), h.GetANCount(), h.GetNSCount(), h.GetARCount()
		dlen = h.GetDomainLen()
		return nil
	}); f != nil {
		return f
	}
	labels := strings.Split(c.Name, ".")
	wantLen := len(c.Name) + 2 // one length octet per label replaces the dots, plus first length and root octets
	switch {
	case id != c.ID:
		return evid.Failf("rt:dns.ID", "GetId()=%#x after Setheader(%#x)", id, c.ID)
	case qd != c.Counts[0] || an != c.Counts[1] || ns != c.Counts[2] || ar != c.Counts[3]:
		return evid.Failf("rt:dns.Counts", "Get{QD,AN,NS,AR}Count()=%d,%d,%d,%d after SetCount(%v)", qd, an, ns, ar, c.Counts)
	case dlen != wantLen:
		return evid.Failf("rt:dns.DomainLen", "GetDomainLen()=%d for %q, QNAME has %d octets", dlen, c.Name, wantLen)
	}
	q := refDecodeDNSQuery(msg)
	switch {
	case q.Err != "":
		return evid.Failf("ref:dns.layout", "query for %q is not an RFC 1035 message with one question: %s (% x)", c.Name, q.Err, msg)
	case q.ID != c.ID:
		return evid.Failf("ref:dns.ID", "ID on the wire %#x, set %#x", q.ID, c.ID)
	case q.Flags != 0x0100:
		return evid.Failf("ref:dns.Flags", "flags word %#04x, a standard recursive query is 0x0100 (QR=0 OPCODE=0 RD=1)", q.Flags)
	case q.QD != c.Counts[0] || q.AN != c.Counts[1] || q.NS != c.Counts[2] || q.AR != c.Counts[3]:
		return evid.Failf("ref:dns.Counts", "counts on the wire %d,%d,%d,%d, set %v", q.QD, q.AN, q.NS, q.AR, c.Counts)
	case strings.Join(q.Labels, ".") != c.Name || len(q.Labels) != len(labels) || q.NameLen != wantLen:
		return evid.Failf("ref:dns.QNAME", "QNAME on the wire %q (%d octets), asked %q", q.Labels, q.NameLen, c.Name)
	case q.QType != c.QType || q.QClass != c.QClass:
		return evid.Failf("ref:dns.Question", "QTYPE/QCLASS on the wire %d/%d, set %d/%d", q.QType, q.QClass, c.QType, c.QClass)
	}
	if i := poisonIntact(buf, c.Off, c.Off+12); i >= 0 {
		return evid.Failf("oob:dns", "byte at %+d relative to the 12 byte header (capacity 12) changed", i-c.Off)
	}
	if validName(c.Name2) {
		var msg2 []byte
		if f := evid.Guard(func() *evid.Failure {
			h := header.DNS(append([]byte(nil), msg...))
			h.SetQuestion(c.Name2, c.QClass, c.QType)
			msg2 = []byte(h)
			return nil
		}); f != nil {
			return f
		}
		want := append([]byte(nil), msg...)
		for _, l := range strings.Split(c.Name2, ".") {
			want = append(want, byte(len(l)))
			want = append(want, l...)
		}
		want = append(want, 0, byte(c.QClass>>8), byte(c.QClass), byte(c.QType>>8), byte(c.QType))
		if !bytes.Equal(msg2, want) {
			return evid.Failf("ref:dns.second-question", "after a second SetQuestion(%q) the message is % x, want the one-question message followed by the second question: % x", c.Name2, msg2, want)
		}
		evid.Label("dns_two_questions")
	}
	return nil
}

// TestDNSSweep: every value of every 16-bit field of the query (ID, the four
// counts, QTYPE, QCLASS) on three backgrounds; every single-label length
// 1..63; every two-label split of total length up to 64; maximal names.
func TestDNSSweep(t *testing.T) {
	if evid.ReplayMode() {
		t.Skip("replays of check dns are hosted by TestDNSRandom")
	}
	var ctr, evals, nts int64
	failed := false
	run := func(c DNSCase, nt bool) bool {
		ctr++
		if ctr%int64(evid.NShards) != int64(evid.ShardIdx) {
			return true
		}
		evals++
		if nt {
			nts++
		}
		if evid.Direct(t, "dns", runDNS(c), c) {
			failed = true
		}
		return !failed
	}
	defer func() {
		evid.Eval(evals)
		evid.DistinctByConstruction(nts)
		evid.LabelN("dns:enumerated", evals)
	}()
	rnd := newSM("dns")
	names := []string{"a", "www.example.com", strings.Repeat("x", 63) + "." + strings.Repeat("y", 63) + "." + strings.Repeat("z", 63) + "." + strings.Repeat("w", 61)}
	for field := 0; field < 7; field++ {
		for v := 0; v < 1<<16; v++ {
			for bg := 0; bg < 3; bg++ {
				var x [7]uint16
				switch bg {
				case 1:
					x = [7]uint16{0xffff, 0xffff, 0xffff, 0xffff, 0xffff, 0xffff, 0xffff}
				case 2:
					r := rnd.next()
					r2 := rnd.next()
					x = [7]uint16{uint16(r), uint16(r >> 16), uint16(r >> 32), uint16(r >> 48), uint16(r2), uint16(r2 >> 16), uint16(r2 >> 32)}
				}
				x[field] = uint16(v)
				c := DNSCase{ID: x[0], Counts: [4]uint16{x[1], x[2], x[3], x[4]}, QType: x[5], QClass: x[6], Name: names[bg], Off: 4}
				nt := (v >= 256) && !(bg == 1 && v == 0xffff)
				if !run(c, nt || (v == 0 && bg != 0)) {
					return
				}
			}
		}
	}
	evid.Exhaustive("DNS query: all 65536 values of each of ID, QDCOUNT, ANCOUNT, NSCOUNT, ARCOUNT, QTYPE, QCLASS x 3 backgrounds")
	for l := 1; l <= 63; l++ {
		if !run(DNSCase{ID: uint16(l), Counts: [4]uint16{1}, Name: strings.Repeat("k", l), QType: 1, QClass: 1, Off: 2, Name2: "second.example"}, true) {
			return
		}
		for l2 := 1; l2 <= 63; l2++ {
			if !run(DNSCase{ID: uint16(l2), Counts: [4]uint16{1}, Name: strings.Repeat("p", l) + "." + strings.Repeat("q", l2), QType: 28, QClass: 1, Off: 2}, true) {
				return
			}
		}
	}
	evid.Exhaustive("DNS query: every label length 1..63 alone and every pair of label lengths")
	// total lengths around the 253 limit, built from 1-octet labels and from maximal labels
	for total := 240; total <= 253; total++ {
		n := strings.Repeat("a.", total/2)
		n = n[:len(n)-1]
		for len(n) < total {
			n += "b"
		}
		if validName(n) && !run(DNSCase{ID: 0xabcd, Counts: [4]uint16{1}, Name: n, QType: 255, QClass: 255, Off: 1}, true) {
			return
		}
	}
}

func genDNS(rt *rapid.T) DNSCase {
	u16 := rapid.OneOf(rapid.SampledFrom([]uint16{0, 1, 0xff, 0x100, 0x7fff, 0x8000, 0xfffe, 0xffff}), rapid.Uint16())
	// letters, digits, hyphen, underscore; plus (rarely) any printable ASCII octet other than the separator
	// (the name is stored in the replay file as a JSON string)
	ldh := rapid.SampledFrom([]byte("abcdefghijklmnopqrstuvwxyzABCXYZ0123456789-_"))
	oct := rapid.OneOf(ldh, ldh, ldh, rapid.ByteRange(0x21, 0x7e).Filter(func(b byte) bool { return b != '.' }))
	var name string
	nl := rapid.IntRange(1, 8).Draw(rt, "labels")
	for i := 0; i < nl; i++ {
		maxl := 253 - len(name) - 1
		if i == 0 {
			maxl = 253
		}
		if maxl < 1 {
			break
		}
		if maxl > 63 {
			maxl = 63
		}
		l := rapid.OneOf(rapid.IntRange(1, min(maxl, 12)), rapid.IntRange(1, maxl), rapid.Just(maxl)).Draw(rt, "len")
		lab := rapid.SliceOfN(oct, l, l).Draw(rt, "label")
		if i > 0 {
			name += "."
		}
		name += string(lab)
	}
	return DNSCase{ID: u16.Draw(rt, "id"),
		Counts: [4]uint16{u16.Draw(rt, "qd"), u16.Draw(rt, "an"), u16.Draw(rt, "ns"), u16.Draw(rt, "ar")},
		Name:   name, QType: u16.Draw(rt, "qtype"), QClass: u16.Draw(rt, "qclass"), Off: rapid.IntRange(0, 8).Draw(rt, "off"),
		Name2: rapid.SampledFrom([]string{"", "", "b.example", "x", strings.Repeat("y", 63) + ".z", name}).Draw(rt, "name2")}
}

func TestDNSRandom(t *testing.T) {
	evid.Run(t, evid.Spec[DNSCase]{Name: "dns", Gen: genDNS, Run: func(c DNSCase) *evid.Failure {
		if validName(c.Name) {
			nl := strings.Count(c.Name, ".") + 1
			if nl >= 2 || len(c.Name) >= 32 {
				evid.NonTrivialKey(c.Name, c.ID, fmt.Sprint(c.Counts), c.QType, c.QClass)
			}
			evid.Label(fmt.Sprintf("dns:labels=%d", min(nl, 5)))
			if len(c.Name) > 200 {
				evid.Label("dns:name>200")
			}
			evid.Sample("dns", c)
		}
		return runDNS(c)
	}})
}
