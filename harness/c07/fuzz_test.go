package c07

import (
	"bytes"
	"encoding/binary"
	"encoding/hex"
	"fmt"
	"os"
	"os/exec"
	"path/filepath"
	"runtime"
	"strconv"
	"strings"
	"testing"
	"time"

	"pgregory.net/rapid"
	"verifharness/codec"
	"verifharness/evid"
)

// Coverage-guided campaign (thorough tier only). The native fuzzer owns the
// bytes; decodeFuzz turns them into a barrage (the same Case the rapid
// barrage uses, so every crasher is a barrage replay file), optionally
// repairing lengths and checksums so that mutated packets get past the
// validity gates instead of dying there. The oracle is the barrage's: no
// panic, no wedge, and the three liveness probes.
//
// Record format, repeated up to 40 times:
//   byte 0  bits 0-1 EtherType (IPv4, IPv6, ARP, 0x1234); bit 2 repair IP
//           lengths + IPv4 header checksum; bit 3 repair the transport
//           checksum; bit 4 TCP seq/ack relative to the live connection;
//           bits 5-7 delivery chunking
//   byte 1-2 big-endian length n (clamped to what is left and to 2000)
//   n bytes  the network-layer packet

var fuzzChunks = []int{0, 0, 1, 1, 8, 100, 0, 1}
var fuzzProtos = []uint16{codec.EtherIPv4, codec.EtherIPv6, codec.EtherARP, 0x1234}

func decodeFuzz(data []byte) Case {
	var c Case
	for len(data) >= 3 && len(c.Frames) < 40 {
		h := data[0]
		n := int(binary.BigEndian.Uint16(data[1:3]))
		data = data[3:]
		if n > 2000 {
			n = 2000
		}
		if n > len(data) {
			n = len(data)
		}
		b := append([]byte(nil), data[:n]...)
		data = data[n:]
		p := fuzzProtos[h&3]
		if h&4 != 0 {
			repairIP(p, b)
		}
		if h&8 != 0 {
			repairL4(p, b)
		}
		c.Frames = append(c.Frames, Frame{P: p, B: hex.EncodeToString(b), Rel: h&16 != 0, Chunk: fuzzChunks[h>>5]})
	}
	return c
}

func encodeFuzz(c Case) []byte {
	var out []byte
	for _, f := range c.Frames {
		b, _ := hex.DecodeString(f.B)
		if len(b) > 2000 {
			b = b[:2000]
		}
		h := byte(3)
		for i, p := range fuzzProtos {
			if p == f.P {
				h = byte(i)
			}
		}
		if f.Rel {
			h |= 16
		}
		for i, ch := range fuzzChunks {
			if ch == f.Chunk {
				h |= byte(i) << 5
				break
			}
		}
		out = append(out, h, byte(len(b)>>8), byte(len(b)))
		out = append(out, b...)
	}
	return out
}

func repairIP(p uint16, b []byte) {
	switch p {
	case codec.EtherIPv4:
		if len(b) < 20 {
			return
		}
		ihl := int(b[0]&0xf) * 4
		if ihl < 20 || ihl > len(b) {
			return
		}
		binary.BigEndian.PutUint16(b[2:], uint16(len(b)))
		b[10], b[11] = 0, 0
		binary.BigEndian.PutUint16(b[10:], ^codec.Sum1071(b[:ihl], 0))
	case codec.EtherIPv6:
		if len(b) < 40 {
			return
		}
		binary.BigEndian.PutUint16(b[4:], uint16(len(b)-40))
	}
}

// repairL4 recomputes the TCP/UDP/ICMP checksum of an unfragmented packet.
func repairL4(p uint16, b []byte) {
	var src, dst, l4 []byte
	var proto uint8
	switch p {
	case codec.EtherIPv4:
		if len(b) < 20 {
			return
		}
		ihl := int(b[0]&0xf) * 4
		if ihl < 20 || ihl > len(b) {
			return
		}
		src, dst, proto, l4 = b[12:16], b[16:20], b[9], b[ihl:]
	case codec.EtherIPv6:
		if len(b) < 40 {
			return
		}
		src, dst, proto, l4 = b[8:24], b[24:40], b[6], b[40:]
	default:
		return
	}
	pseudo := func() uint16 {
		ph := append(append([]byte(nil), src...), dst...)
		if len(src) == 4 {
			ph = append(ph, 0, proto, byte(len(l4)>>8), byte(len(l4)))
		} else {
			ph = append(ph, 0, 0, byte(len(l4)>>8), byte(len(l4)), 0, 0, 0, proto)
		}
		return codec.Sum1071(ph, 0)
	}
	put := func(off int, init uint16) {
		if len(l4) < off+2 {
			return
		}
		l4[off], l4[off+1] = 0, 0
		binary.BigEndian.PutUint16(l4[off:], ^codec.Sum1071(l4, init))
	}
	switch proto {
	case codec.ProtoTCP:
		put(16, pseudo())
	case codec.ProtoUDP:
		if len(l4) >= 8 {
			binary.BigEndian.PutUint16(l4[4:], uint16(len(l4)))
		}
		put(6, pseudo())
	case codec.ProtoICMP:
		if len(src) == 4 {
			put(2, 0)
		}
	case codec.ProtoICMPv6:
		if len(src) == 16 {
			put(2, pseudo())
		}
	}
}

// fragSets are complete IPv4 fragment sets (UDP to the bound socket, an echo
// request, a data segment of the live connection) cut at several offsets, in
// order and reversed: the engine starts from datagrams that do reassemble.
func fragSets() []Case {
	var out []Case
	pl := make([]byte, 40)
	for i := range pl {
		pl[i] = byte(i)
	}
	l4s := []struct {
		proto uint8
		b     []byte
		rel   bool
	}{
		{codec.ProtoUDP, codec.BuildUDP(b4, a4, 4000, portUDP, pl, true), false},
		{codec.ProtoICMP, codec.BuildICMPv4Echo(8, 7, 9, pl), false},
		{codec.ProtoTCP, codec.BuildTCP(b4, a4, codec.TCPSeg{SrcPort: 50000, DstPort: portListen, Flags: codec.ACK | codec.PSH, Wnd: 1000, Payload: pl}), false},
	}
	for li, l := range l4s {
		for _, cut := range [][]int{{8}, {16}, {8, 24}, {24, 32, 40}} {
			var frs []Frame
			prev := 0
			cuts := append(append([]int(nil), cut...), len(l.b))
			for _, c := range cuts {
				if c > len(l.b) {
					c = len(l.b)
				}
				if c <= prev {
					continue
				}
				b := codec.BuildIPv4(codec.IPv4Hdr{Src: b4, Dst: a4, Proto: l.proto, ID: uint16(100 + li), MF: c < len(l.b), FragOff: prev}, l.b[prev:c])
				frs = append(frs, Frame{P: codec.EtherIPv4, B: hex.EncodeToString(b), Chunk: []int{0, 1, 8}[len(frs)%3]})
				prev = c
			}
			out = append(out, Case{Frames: frs})
			rev := make([]Frame, len(frs))
			for i, f := range frs {
				rev[len(frs)-1-i] = f
			}
			out = append(out, Case{Frames: rev})
		}
	}
	return out
}

func fuzzSeeds() [][]byte {
	var out [][]byte
	for _, c := range fragSets() {
		out = append(out, encodeFuzz(c))
	}
	g := rapid.Custom(genCase)
	for i := 0; i < 48; i++ {
		c := g.Example(i)
		if len(c.Frames) > 6 {
			c.Frames = c.Frames[:6]
		}
		out = append(out, encodeFuzz(c))
	}
	return out
}

var fuzzIter int

func FuzzInbound(f *testing.F) {
	for _, s := range fuzzSeeds() {
		f.Add(s)
	}
	f.Fuzz(func(t *testing.T, data []byte) {
		c := decodeFuzz(data)
		if len(c.Frames) == 0 {
			return
		}
		evid.Eval(1)
		if fuzzIter++; fuzzIter%100 == 0 {
			evid.Flush() // a worker may be killed at the end of the campaign
		}
		if fl := runMut(c); fl != nil {
			if evid.KnownSig(fl.Sig) {
				return
			}
			t.Fatalf("%s: %s", fl.Sig, fl.Msg)
		}
	})
}

// TestFuzzCampaign runs FuzzInbound under the native coverage-guided engine in
// a child process (all cores), then absorbs the children's counters and
// re-decides every crasher in this process through the barrage path, so that a
// violation is reported with an ordinary barrage replay file.
func TestFuzzCampaign(t *testing.T) {
	if evid.ReplayMode() || !evid.Thorough() {
		t.Skip()
	}
	if evid.ShardIdx != 0 {
		t.Skip()
	}
	secs := 600
	if v, err := strconv.Atoi(os.Getenv("C07_FUZZ_SECONDS")); err == nil && v > 0 {
		secs = v
	}
	base := filepath.Dir(os.Getenv("VERIF_EVID_OUT"))
	if base == "" || base == "." {
		base = os.TempDir()
	}
	dir, err := os.MkdirTemp(base, "c07fuzz")
	if err != nil {
		evid.Inconclusive("fuzz campaign: %v", err)
		return
	}
	defer os.RemoveAll(dir)
	os.MkdirAll(filepath.Join(dir, "evid"), 0o755)
	cmd := exec.Command(os.Args[0], "-test.run=^$", "-test.fuzz=^FuzzInbound$", "-test.fuzztime="+fmt.Sprint(secs)+"s",
		"-test.fuzzcachedir="+filepath.Join(dir, "cache"), "-test.parallel="+fmt.Sprint(runtime.NumCPU()), "-test.timeout=0",
		// goroutine scheduling makes coverage noisy: do not spend the budget minimising "interesting" inputs
		"-test.fuzzminimizetime=3x")
	cmd.Dir = dir
	cmd.Env = append(os.Environ(), "VERIF_EVID_OUT="+filepath.Join(dir, "evid", "w.json"), "VERIF_EVID_PERPID=1")
	var out bytes.Buffer
	cmd.Stdout, cmd.Stderr = &out, &out
	t0 := time.Now()
	runErr := cmd.Run()
	log := out.String()
	files, _ := filepath.Glob(filepath.Join(dir, "evid", "w.json.*"))
	for _, p := range files {
		if !strings.HasSuffix(p, ".journal") && !strings.HasSuffix(p, ".tmp") {
			evid.Absorb(p)
		}
	}
	if !strings.Contains(log, "fuzz: elapsed") {
		evid.Inconclusive("fuzz campaign did not start: %v\n%s", runErr, tailStr(log, 2000))
		return
	}
	if strings.Contains(log, "without coverage guidance") {
		evid.Note("fuzz campaign ran WITHOUT coverage guidance (binary not instrumented)")
	}
	for _, ln := range strings.Split(log, "\n") {
		if strings.HasPrefix(ln, "fuzz: elapsed") {
			evid.LabelN("fuzz:progress-lines", 1)
		}
	}
	if i := strings.LastIndex(log, "fuzz: elapsed"); i >= 0 {
		evid.Note("fuzz campaign %.0fs: %s", time.Since(t0).Seconds(), strings.SplitN(log[i:], "\n", 2)[0])
	}
	crashers, _ := filepath.Glob(filepath.Join(dir, "testdata", "fuzz", "FuzzInbound", "*"))
	if runErr == nil && len(crashers) == 0 {
		return
	}
	for _, p := range crashers {
		data, ok := readCorpusFile(p)
		if !ok {
			evid.Note("fuzz crasher %s could not be decoded", filepath.Base(p))
			continue
		}
		c := decodeFuzz(data)
		evid.Label("fuzz:crashers-rechecked")
		var fl *evid.Failure
		for try := 0; try < 3 && fl == nil; try++ {
			fl = runMut(c) // journalled: if the stack dies here, the driver replays the journal
		}
		if fl == nil {
			evid.Label("fuzz:crasher-not-reproduced")
			evid.Note("fuzz crasher did not reproduce in 3 fresh runs: %s", tailStr(log, 600))
			continue
		}
		// shrink: drop frames while the same failure persists (the engine's minimiser is off)
		for i := 0; i < len(c.Frames) && len(c.Frames) > 1; {
			d := Case{Frames: append(append([]Frame(nil), c.Frames[:i]...), c.Frames[i+1:]...)}
			if f2 := runMut(d); f2 != nil && f2.Sig == fl.Sig {
				c, fl = d, f2
			} else {
				i++
			}
		}
		evid.Direct(t, "barrage", fl, c)
	}
	if len(crashers) == 0 {
		// a failing seed-corpus entry is reported by name only: re-decide the seeds here
		found := false
		for _, sd := range fuzzSeeds() {
			c := decodeFuzz(sd)
			if fl := runMut(c); fl != nil && !evid.KnownSig(fl.Sig) {
				evid.Label("fuzz:seed-corpus-entry-fails")
				evid.Direct(t, "barrage", fl, c)
				found = true
				break
			}
		}
		if !found {
			evid.Inconclusive("fuzz campaign failed without a crasher file and no seed fails here: %v\n%s", runErr, tailStr(log, 2000))
		}
	}
}

func tailStr(s string, n int) string {
	if len(s) > n {
		return s[len(s)-n:]
	}
	return s
}

// readCorpusFile decodes the "go test fuzz v1" file of a single []byte argument.
func readCorpusFile(p string) ([]byte, bool) {
	b, err := os.ReadFile(p)
	if err != nil {
		return nil, false
	}
	lines := strings.Split(strings.TrimSpace(string(b)), "\n")
	if len(lines) < 2 || !strings.HasPrefix(lines[0], "go test fuzz v1") {
		return nil, false
	}
	ln := strings.TrimSpace(lines[1])
	if !strings.HasPrefix(ln, "[]byte(") || !strings.HasSuffix(ln, ")") {
		return nil, false
	}
	s, err := strconv.Unquote(ln[len("[]byte(") : len(ln)-1])
	if err != nil {
		return nil, false
	}
	return []byte(s), true
}
