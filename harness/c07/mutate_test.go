package c07

import (
	"encoding/binary"
	"encoding/hex"
	"fmt"
	"os"
	"runtime"
	"strings"
	"testing"
	"time"

	"pgregory.net/rapid"
	"verifharness/codec"
	"verifharness/evid"
	"verifharness/netsim"
)

var (
	a4, b4 = []byte(netsim.A4), []byte(netsim.B4)
	a6, b6 = []byte(netsim.A6), []byte(netsim.B6)
)

// template builds one valid frame aimed at a live target and returns the
// offsets of the fields parsers trust.
var lastTemplate string

func template(rt *rapid.T) (Frame, []int) {
	kind := rapid.SampledFrom([]string{"tcp-syn", "tcp-est", "tcp-est", "tcp-est6", "udp", "udp6", "udp-conn", "echo4", "echo6", "icmp4-err", "icmp6-err", "ndp", "arp", "frag4", "frag6", "noise", "jumbo"}).Draw(rt, "template")
	lastTemplate = kind
	v4 := func(proto uint8, l4 []byte) []byte {
		return codec.BuildIPv4(codec.IPv4Hdr{Src: b4, Dst: a4, Proto: proto, ID: uint16(rapid.IntRange(0, 3).Draw(rt, "ipid"))}, l4)
	}
	v6 := func(nh uint8, l4 []byte) []byte {
		return codec.BuildIPv6(codec.IPv6Hdr{Src: b6, Dst: a6, NextHeader: nh}, l4)
	}
	payload := func() []byte {
		n := rapid.OneOf(rapid.IntRange(0, 4), rapid.IntRange(0, 64), rapid.IntRange(0, 1400)).Draw(rt, "plen")
		b := make([]byte, n)
		for i := range b {
			b[i] = byte(i)
		}
		return b
	}
	ipv4Fields := []int{0, 2, 3, 4, 5, 6, 7, 8, 9, 12, 16, 19}
	tcpFields := func(o int) []int {
		return []int{o, o + 2, o + 4, o + 7, o + 8, o + 11, o + 12, o + 13, o + 14, o + 15, o + 20, o + 21, o + 22, o + 23, o + 24, o + 25}
	}
	opts := func() []byte {
		// (the live connection negotiated timestamps: a segment without the option stops at the
		// RFC 7323 gate, so most segments aimed at it carry one)
		switch rapid.IntRange(0, 5).Draw(rt, "optsel") {
		case 0:
			return nil
		case 4:
			return append(append(append(codec.OptNOP(), codec.OptNOP()...), codec.OptTS(5, 0)...), append(append(codec.OptNOP(), codec.OptNOP()...), codec.OptSACK([][2]uint32{{uint32(rapid.IntRange(0, 700).Draw(rt, "sack-l")), uint32(rapid.IntRange(0, 700).Draw(rt, "sack-r"))}})...)...)
		case 1, 5:
			return append(append(codec.OptNOP(), codec.OptNOP()...), codec.OptTS(5, 0)...)
		case 2:
			return append(append(codec.OptNOP(), codec.OptNOP()...), codec.OptSACK([][2]uint32{{100, 200}, {300, 400}})...)
		}
		n := rapid.IntRange(1, 40).Draw(rt, "rawoptlen")
		b := make([]byte, n)
		for i := range b {
			b[i] = byte(rapid.SampledFrom([]int{0, 1, 2, 3, 4, 5, 8, 5, 8, 255, 10, 34, 40}).Draw(rt, "optbyte"))
		}
		return b
	}
	switch kind {
	case "jumbo":
		// one very large TCP segment or UDP datagram in a single frame (a jumbo link, or what
		// reassembly hands up): larger than the small socket buffers
		n := rapid.SampledFrom([]int{4076, 4077, 8172, 8173, 9000, 20000, 65000}).Draw(rt, "jumbo-len")
		pl := make([]byte, n)
		switch rapid.IntRange(0, 2).Draw(rt, "jumbo-kind") {
		case 0:
			seg := codec.BuildTCP(b4, a4, codec.TCPSeg{SrcPort: uint16(52000 + rapid.IntRange(0, 3).Draw(rt, "sport")), DstPort: portListen, Seq: rapid.Uint32().Draw(rt, "seq"), Flags: uint8(rapid.SampledFrom([]int{codec.SYN, codec.ACK, codec.ACK | codec.PSH}).Draw(rt, "jflags")), Wnd: 1000, Payload: pl})
			return Frame{P: codec.EtherIPv4, B: hex.EncodeToString(v4(codec.ProtoTCP, seg))}, append(ipv4Fields, tcpFields(20)...)
		case 1:
			s := codec.TCPSeg{SrcPort: 50000, DstPort: portListen, Seq: uint32(rapid.SampledFrom([]int{0, 1, 100, 70000}).Draw(rt, "relseq")), Flags: codec.ACK | codec.PSH, Wnd: 1000, Payload: pl}
			return Frame{P: codec.EtherIPv4, B: hex.EncodeToString(v4(codec.ProtoTCP, codec.BuildTCP(b4, a4, s))), Rel: true}, append(ipv4Fields, tcpFields(20)...)
		default:
			return Frame{P: codec.EtherIPv4, B: hex.EncodeToString(v4(codec.ProtoUDP, codec.BuildUDP(b4, a4, 4000, portUDP, pl, true)))}, append(ipv4Fields, 20, 22, 24, 25, 26)
		}
	case "tcp-syn":
		seg := codec.BuildTCP(b4, a4, codec.TCPSeg{SrcPort: uint16(52000 + rapid.IntRange(0, 3).Draw(rt, "sport")), DstPort: portListen, Seq: rapid.Uint32().Draw(rt, "seq"), Flags: codec.SYN, Wnd: 1000, Opts: opts()})
		return Frame{P: codec.EtherIPv4, B: hex.EncodeToString(v4(codec.ProtoTCP, seg))}, append(ipv4Fields, tcpFields(20)...)
	case "tcp-est", "tcp-est6":
		fl := uint8(rapid.SampledFrom([]int{codec.ACK, codec.ACK | codec.PSH, codec.ACK | codec.FIN, codec.RST, codec.RST | codec.ACK, codec.SYN, codec.SYN | codec.ACK, codec.ACK | codec.URG, 0, 63}).Draw(rt, "flags"))
		seq := uint32(rapid.SampledFrom([]int{0, 0, 0, 1, -1, 100, 65535, 70000, 1 << 30}).Draw(rt, "relseq"))
		ack := uint32(rapid.SampledFrom([]int{0, 0, 0, 1, -1, 100, 1 << 30}).Draw(rt, "relack"))
		s := codec.TCPSeg{SrcPort: 50000, DstPort: portListen, Seq: seq, Ack: ack, Flags: fl, Wnd: uint16(rapid.SampledFrom([]int{0, 1, 65535}).Draw(rt, "wnd")), Opts: opts(), Payload: payload()}
		if kind == "tcp-est" {
			return Frame{P: codec.EtherIPv4, B: hex.EncodeToString(v4(codec.ProtoTCP, codec.BuildTCP(b4, a4, s))), Rel: true}, append(ipv4Fields, tcpFields(20)...)
		}
		// the established connection is IPv4; an IPv6 twin exercises the v6 path to the listener
		return Frame{P: codec.EtherIPv6, B: hex.EncodeToString(v6(codec.ProtoTCP, codec.BuildTCP(b6, a6, s)))}, append([]int{0, 4, 5, 6, 7, 8, 24}, tcpFields(40)...)
	case "udp":
		return Frame{P: codec.EtherIPv4, B: hex.EncodeToString(v4(codec.ProtoUDP, codec.BuildUDP(b4, a4, 4000, portUDP, payload(), rapid.Bool().Draw(rt, "cksum"))))}, append(ipv4Fields, 20, 22, 24, 25, 26)
	case "udp6":
		return Frame{P: codec.EtherIPv6, B: hex.EncodeToString(v6(codec.ProtoUDP, codec.BuildUDP(b6, a6, 4000, portUDP, payload(), true)))}, []int{0, 4, 5, 6, 7, 40, 42, 44, 45, 46}
	case "udp-conn":
		return Frame{P: codec.EtherIPv4, B: hex.EncodeToString(v4(codec.ProtoUDP, codec.BuildUDP(b4, a4, 7000, portUDPc, payload(), true)))}, append(ipv4Fields, 20, 22, 24, 25)
	case "echo4":
		return Frame{P: codec.EtherIPv4, B: hex.EncodeToString(v4(codec.ProtoICMP, codec.BuildICMPv4Echo(8, 1, 2, payload())))}, append(ipv4Fields, 20, 21, 24, 26)
	case "echo6":
		return Frame{P: codec.EtherIPv6, B: hex.EncodeToString(v6(codec.ProtoICMPv6, codec.BuildICMPv6Echo(b6, a6, 128, 1, 2, payload())))}, []int{0, 4, 5, 6, 7, 40, 41, 44, 46}
	case "icmp4-err":
		// destination unreachable / fragmentation needed quoting a segment of the live connection (as sent by the stack)
		inner := codec.BuildIPv4(codec.IPv4Hdr{Src: a4, Dst: b4, Proto: codec.ProtoTCP}, codec.BuildTCP(a4, b4, codec.TCPSeg{SrcPort: portListen, DstPort: 50000, Flags: codec.ACK}))
		n := rapid.OneOf(rapid.Just(len(inner)), rapid.Just(28), rapid.IntRange(0, len(inner))).Draw(rt, "quote")
		// next-hop MTU: boundary values around the header sizes as well as ordinary ones
		mtu := rapid.OneOf(rapid.SampledFrom([]int{0, 1, 19, 20, 21, 40, 41, 48, 52, 53, 68, 296, 552, 576, 1280, 1499, 1500, 65535}), rapid.IntRange(0, 65535)).Draw(rt, "nexthop-mtu")
		body := append([]byte{0, 0, byte(mtu >> 8), byte(mtu)}, inner[:n]...)
		m := make([]byte, 4+len(body))
		m[0], m[1] = 3, byte(rapid.SampledFrom([]int{0, 1, 3, 4, 4, 4, 13}).Draw(rt, "code"))
		copy(m[4:], body)
		binary.BigEndian.PutUint16(m[2:], ^codec.Sum1071(m, 0))
		return Frame{P: codec.EtherIPv4, B: hex.EncodeToString(v4(codec.ProtoICMP, m))}, append(ipv4Fields, 20, 21, 24, 26, 27, 28, 30, 31, 37, 48, 50)
	case "icmp6-err":
		// an error message quoting a packet of the live connection, of the UDP socket, or a fragment of one
		// (quoted next header 44: the fragment header is parsed before the transport header), cut anywhere -
		// in particular within the first bytes behind the quoted IPv6 header
		tcpq := codec.BuildTCP(a6, b6, codec.TCPSeg{SrcPort: portListen, DstPort: 50000, Flags: codec.ACK})
		udpq := codec.BuildUDP(a6, b6, portUDP, 4000, []byte("quoted"), true)
		nh := rapid.SampledFrom([]int{codec.ProtoTCP, codec.ProtoTCP, codec.ProtoUDP, 44, 44, 44, 0, 60}).Draw(rt, "quoted-next-header")
		l4 := tcpq
		switch nh {
		case codec.ProtoUDP:
			l4 = udpq
		case 44:
			fh := make([]byte, 8)
			fh[0] = uint8(rapid.SampledFrom([]int{codec.ProtoTCP, codec.ProtoTCP, codec.ProtoUDP, 44}).Draw(rt, "quoted-frag-next"))
			if fh[0] == codec.ProtoUDP {
				l4 = udpq
			}
			binary.BigEndian.PutUint16(fh[2:], uint16(rapid.SampledFrom([]int{0, 0, 0, 1, 8, 9, 0xfff9}).Draw(rt, "quoted-frag-off")))
			binary.BigEndian.PutUint32(fh[4:], uint32(rapid.IntRange(0, 2).Draw(rt, "quoted-frag-id")))
			l4 = append(fh, l4...)
		}
		inner := codec.BuildIPv6(codec.IPv6Hdr{Src: a6, Dst: b6, NextHeader: uint8(nh)}, l4)
		n := rapid.OneOf(rapid.IntRange(0, len(inner)), rapid.IntRange(40, 52), rapid.Just(len(inner))).Draw(rt, "quote")
		if n > len(inner) {
			n = len(inner)
		}
		mtu := rapid.OneOf(rapid.SampledFrom([]int{0, 1, 39, 40, 41, 60, 61, 72, 1279, 1280, 1500, 65535}), rapid.IntRange(0, 70000)).Draw(rt, "mtu6")
		body := append([]byte{byte(mtu >> 24), byte(mtu >> 16), byte(mtu >> 8), byte(mtu)}, inner[:n]...)
		typ := uint8(rapid.SampledFrom([]int{1, 1, 2, 2, 3, 4}).Draw(rt, "type6"))
		code := uint8(rapid.SampledFrom([]int{0, 0, 1, 3, 4, 4}).Draw(rt, "code6"))
		return Frame{P: codec.EtherIPv6, B: hex.EncodeToString(v6(codec.ProtoICMPv6, codec.BuildICMPv6(b6, a6, typ, code, body)))}, []int{0, 4, 5, 6, 40, 41, 44, 46, 48, 52, 54, 88, 90, 91}
	case "ndp":
		typ := uint8(rapid.SampledFrom([]int{133, 134, 135, 135, 136, 137}).Draw(rt, "ndptype"))
		body := make([]byte, 4+16)
		copy(body[4:], a6)
		if rapid.Bool().Draw(rt, "lladdr") {
			body = append(body, 1, 1, 2, 0, 0, 0, 0, 2)
		}
		p := codec.BuildIPv6(codec.IPv6Hdr{Src: b6, Dst: a6, NextHeader: codec.ProtoICMPv6, HopLimit: 255}, codec.BuildICMPv6(b6, a6, typ, 0, body))
		return Frame{P: codec.EtherIPv6, B: hex.EncodeToString(p)}, []int{4, 5, 6, 7, 40, 41, 44, 48, 64, 65}
	case "arp":
		op := uint16(rapid.IntRange(0, 3).Draw(rt, "arpop"))
		return Frame{P: codec.EtherARP, B: hex.EncodeToString(codec.BuildARP(op, []byte{2, 0, 0, 0, 0, 2}, b4, make([]byte, 6), a4))}, []int{0, 1, 2, 3, 4, 5, 6, 7, 14, 24}
	case "frag4":
		off := rapid.SampledFrom([]int{0, 8, 16, 24, 1480, 65528}).Draw(rt, "fragoff")
		pl := make([]byte, rapid.SampledFrom([]int{0, 1, 8, 16, 24, 1480}).Draw(rt, "fraglen"))
		p := codec.BuildIPv4(codec.IPv4Hdr{Src: b4, Dst: a4, Proto: uint8(rapid.SampledFrom([]int{17, 6, 1}).Draw(rt, "fragproto")), ID: uint16(rapid.IntRange(0, 2).Draw(rt, "fragid")), MF: rapid.Bool().Draw(rt, "mf"), FragOff: off}, pl)
		return Frame{P: codec.EtherIPv4, B: hex.EncodeToString(p)}, ipv4Fields
	case "frag6":
		fh := make([]byte, 8)
		fh[0] = uint8(rapid.SampledFrom([]int{17, 6, 58, 44}).Draw(rt, "f6next"))
		binary.BigEndian.PutUint16(fh[2:], uint16(rapid.SampledFrom([]int{0, 1, 8, 9, 0xfff9}).Draw(rt, "f6off")))
		binary.BigEndian.PutUint32(fh[4:], uint32(rapid.IntRange(0, 2).Draw(rt, "f6id")))
		p := codec.BuildIPv6(codec.IPv6Hdr{Src: b6, Dst: a6, NextHeader: 44}, append(fh, payload()...))
		return Frame{P: codec.EtherIPv6, B: hex.EncodeToString(p)}, []int{4, 5, 6, 40, 41, 42, 43}
	}
	n := rapid.IntRange(0, 120).Draw(rt, "noiselen")
	b := make([]byte, n)
	for i := range b {
		b[i] = rapid.Byte().Draw(rt, "noise")
	}
	return Frame{P: uint16(rapid.SampledFrom([]int{codec.EtherIPv4, codec.EtherIPv6, codec.EtherARP, 0x1234}).Draw(rt, "noiseproto")), B: hex.EncodeToString(b)}, nil
}

func genFrame(rt *rapid.T) Frame {
	f, fields := template(rt)
	f.K = lastTemplate
	b, _ := hex.DecodeString(f.B)
	nm := rapid.SampledFrom([]int{0, 1, 1, 1, 2, 3}).Draw(rt, "nmut")
	for i := 0; i < nm && len(b) > 0; i++ {
		switch rapid.IntRange(0, 5).Draw(rt, "mut") {
		case 0, 1, 2: // a field the parsers trust
			off := rapid.IntRange(0, len(b)-1).Draw(rt, "anyoff")
			if len(fields) > 0 && rapid.IntRange(0, 4).Draw(rt, "usefield") != 0 {
				off = rapid.SampledFrom(fields).Draw(rt, "field")
			}
			if off < len(b) {
				b[off] = byte(rapid.SampledFrom([]int{0, 1, 2, 4, 5, 6, 15, 16, 0x20, 0x40, 0x45, 0x4f, 0x50, 0x5f, 0x7f, 0x80, 0xf0, 0xff}).Draw(rt, "val"))
			}
		case 3: // truncate
			b = b[:rapid.IntRange(0, len(b)).Draw(rt, "trunc")]
		case 4: // trailing junk
			b = append(b, make([]byte, rapid.SampledFrom([]int{1, 7, 60}).Draw(rt, "junk"))...)
		case 5: // random byte
			b[rapid.IntRange(0, len(b)-1).Draw(rt, "roff")] = rapid.Byte().Draw(rt, "rval")
		}
	}
	f.B = hex.EncodeToString(b)
	f.Chunk = rapid.SampledFrom([]int{0, 0, 1, 1, 8, 100}).Draw(rt, "chunk")
	// floods: the same frame back to back (queues inside the stack overflow)
	f.Rep = rapid.SampledFrom([]int{0, 0, 0, 0, 0, 0, 0, 0, 1, 11, 30, 64}).Draw(rt, "rep")
	return f
}

// genHoles: a run of valid out-of-order data segments of the live connection
// (SACK negotiated), each leaving a separate hole in front of it: the
// receiver's reassembly queue and its SACK block list grow with every one of
// them (more holes than a SACK option or the block array can hold).
func genHoles(rt *rapid.T) []Frame {
	n := rapid.IntRange(2, 14).Draw(rt, "nholes")
	space := rapid.SampledFrom([]int{2, 2, 300, 3000}).Draw(rt, "hole-spacing")
	ks := rapid.Permutation([]int{1, 2, 3, 4, 5, 6, 7, 8, 9, 10, 11, 12, 13, 14}).Draw(rt, "hole-order")[:n]
	var out []Frame
	for _, k := range ks {
		pl := make([]byte, 1+rapid.IntRange(0, space-2).Draw(rt, "hole-len"))
		s := codec.TCPSeg{SrcPort: 50000, DstPort: portListen, Seq: uint32(k * space), Flags: codec.ACK | codec.PSH, Wnd: 65535, Opts: append(append(codec.OptNOP(), codec.OptNOP()...), codec.OptTS(5, 0)...), Payload: pl}
		p := codec.BuildIPv4(codec.IPv4Hdr{Src: b4, Dst: a4, Proto: codec.ProtoTCP}, codec.BuildTCP(b4, a4, s))
		out = append(out, Frame{P: codec.EtherIPv4, B: hex.EncodeToString(p), Rel: true, K: "tcp-holes"})
	}
	return out
}

func genCase(rt *rapid.T) Case {
	n := rapid.IntRange(1, 40).Draw(rt, "nframes")
	var c Case
	for i := 0; i < n; i++ {
		if rapid.IntRange(0, 9).Draw(rt, "holes") == 1 {
			c.Frames = append(c.Frames, genHoles(rt)...)
			continue
		}
		c.Frames = append(c.Frames, genFrame(rt))
	}
	c.SmallBuf = evid.Hash64("smallbuf", fmt.Sprintf("%v", c.Frames))%4 == 0
	// linger (see Case.LingerMs) mostly when something was aimed at the live connection
	aimed := false
	for _, f := range c.Frames {
		if f.Rel || f.K == "icmp4-err" || f.K == "icmp6-err" {
			aimed = true
		}
	}
	// (decided by a hash of the frames: rapid's integer draws are biased towards
	// small values and would linger in a third of the cases)
	if h := evid.Hash64(fmt.Sprintf("%v", c.Frames)) % 80; h < map[bool]uint64{true: 5, false: 1}[aimed] {
		c.LingerMs = 1500
	}
	return c
}

// runMut runs the barrage under a watchdog: a delivering goroutine that never
// comes back (a leaked lock inside the stack) is a violation too, not a hang
// of the check. The longest legitimate duration is the probes' deadlines
// (3 x 3 x 1.5 s); a timeout is confirmed by a second run before it counts.
func runMut(c Case) *evid.Failure {
	for attempt := 0; ; attempt++ {
		done := make(chan *evid.Failure, 1)
		go func() { done <- evid.Guard(func() *evid.Failure { return runMutOnce(c) }) }()
		select {
		case f := <-done:
			return f
		case <-time.After(45 * time.Second):
			if attempt == 0 {
				continue
			}
			buf := make([]byte, 1<<20)
			n := runtime.Stack(buf, true)
			return evid.Failf("liveness:wedged", "the barrage or the liveness probes did not return within 45 s (twice): a goroutine delivering a frame is blocked inside the stack\n%s", wedgedIn(string(buf[:n])))
		}
	}
}

// guarded runs fn (injections, probes) on its own goroutine and reports a
// wedge if it does not come back.
func guarded(fn func() *evid.Failure) *evid.Failure {
	done := make(chan *evid.Failure, 1)
	go func() { done <- evid.Guard(fn) }()
	select {
	case f := <-done:
		return f
	case <-time.After(60 * time.Second):
		buf := make([]byte, 1<<20)
		n := runtime.Stack(buf, true)
		return evid.Failf("liveness:wedged", "delivery of a frame (or a liveness probe) did not return within 60 s: a goroutine is blocked inside the stack\n%s", wedgedIn(string(buf[:n])))
	}
}

// wedgedIn extracts the goroutines that are blocked inside the repository.
func wedgedIn(dump string) string {
	out := ""
	for _, g := range strings.Split(dump, "\n\n") {
		if strings.Contains(g, "brewlin/net-protocol") && (strings.Contains(g, "[sync.Mutex.Lock") || strings.Contains(g, "[semacquire") || strings.Contains(g, "[sync.RWMutex")) {
			lines := strings.Split(g, "\n")
			if len(lines) > 14 {
				lines = lines[:14]
			}
			out += strings.Join(lines, "\n") + "\n\n"
			if len(out) > 5000 {
				break
			}
		}
	}
	return out
}

func runMutOnce(c Case) *evid.Failure {
	evid.Journal("barrage", c)
	w, err := NewWorld()
	if err != nil {
		evid.Label("world-setup-failed")
		return nil
	}
	defer w.Close()
	if c.SmallBuf {
		w.Shrink()
		evid.Label("barrage:small-receive-buffers")
	}
	st := w.Env.Stack.Stats() // the counters are shared pointers: read the values now
	b0, b1, b2 := st.IP.PacketsDelivered.Value(), st.TCP.ValidSegmentsReceived.Value(), st.UDP.PacketsReceived.Value()
	for _, f := range c.Frames {
		w.Inject(f)
	}
	if c.LingerMs > 0 {
		if c.LingerMs > 3000 {
			c.LingerMs = 3000
		}
		time.Sleep(time.Duration(c.LingerMs) * time.Millisecond)
		evid.Label("barrage:lingered-before-probes")
	}
	reached := st.IP.PacketsDelivered.Value() > b0 || st.TCP.ValidSegmentsReceived.Value() > b1 || st.UDP.PacketsReceived.Value() > b2
	// let queues filled by floods drain: the probes ask whether the stack serves
	// afterwards, and a probe dropped by a still-full queue costs a 1.5 s retry
	w.Env.Tap.Quiesce(2*time.Millisecond, 300*time.Millisecond)
	fail := w.Probe()
	evid.LabelN("frames", int64(len(c.Frames)))
	if reached && fail == nil {
		evid.NonTrivialKey(fmt.Sprintf("%+v", c))
		if len(c.Frames) <= 3 {
			evid.Sample("barrage", c)
		}
	}
	return fail
}

func TestBarrage(t *testing.T) {
	if os.Getenv("C07_FUZZ_UNIT") != "" && !evid.ReplayMode() {
		t.Skip() // hosted by the fuzz unit only to replay what the campaign found
	}
	evid.Run(t, evid.Spec[Case]{Name: "barrage", Gen: genCase, Run: runMut})
}
