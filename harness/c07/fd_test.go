package c07

import (
	"bytes"
	"encoding/hex"
	"fmt"
	"runtime"
	"strconv"
	"strings"
	"testing"
	"time"

	tcpip "github.com/brewlin/net-protocol/protocol"
	"github.com/brewlin/net-protocol/protocol/network/ipv4"
	"github.com/brewlin/net-protocol/protocol/transport/udp"
	"pgregory.net/rapid"
	"verifharness/codec"
	"verifharness/evid"
	"verifharness/netsim"
)

// FDCase is a barrage of raw Ethernet frames written to the repository's own
// fd-based link endpoint (real readv chunking, real dispatch goroutine).
type FDCase struct {
	Frames []string `json:"frames"` // hex of whole Ethernet frames (may be shorter than an Ethernet header)
}

// runFD runs the barrage under the same watchdog as the tap barrage: a
// write that blocks for good (the dispatch goroutine is wedged inside the
// stack) or a Close that never returns is a violation, not a hang of the check.
func runFD(c FDCase) *evid.Failure {
	for attempt := 0; ; attempt++ {
		done := make(chan *evid.Failure, 1)
		go func() { done <- evid.Guard(func() *evid.Failure { return runFDOnce(c) }) }()
		select {
		case f := <-done:
			return f
		case <-time.After(45 * time.Second):
			if attempt == 0 {
				continue
			}
			buf := make([]byte, 1<<20)
			n := runtime.Stack(buf, true)
			return evid.Failf("liveness:wedged", "the fd barrage or its liveness probes did not return within 45 s (twice): a goroutine is blocked inside the stack\n%s", wedgedIn(string(buf[:n])))
		}
	}
}

func runFDOnce(c FDCase) *evid.Failure {
	evid.Journal("fd-barrage", c)
	fd, err := netsim.NewFD(1500, []tcpip.Address{netsim.A4}, []tcpip.Address{netsim.A6}, nil)
	if err != nil {
		evid.Label("fd-setup-failed")
		return nil
	}
	defer fd.Close()
	// neighbour resolution gives up after 3 x 5 ms here (hook H4), so that a barrage can
	// contain "resolution failed, then the neighbour speaks" within milliseconds
	fd.Stack.VerifSetLinkAddrCacheParams(time.Minute, 5*time.Millisecond, 3)
	fd.Stack.AddLinkAddress(1, netsim.B4, tcpip.LinkAddress(fd.PeerMAC))
	// a UDP echo service on port 7: answering a datagram from a never-seen neighbour makes the
	// stack resolve that neighbour
	echoStop := make(chan struct{})
	defer close(echoStop)
	if es, e := netsim.NewSock(fd.Stack, udp.ProtocolNumber, ipv4.ProtocolNumber); e == nil && es.EP.Bind(tcpip.FullAddress{Port: 7}, nil) == nil {
		go func() {
			defer es.EP.Close()
			for {
				select {
				case <-echoStop:
					return
				default:
				}
				var from tcpip.FullAddress
				if v, err, ok := es.Read(20*time.Millisecond, &from); ok && err == nil {
					es.EP.Write(tcpip.SlicePayload(v), tcpip.WriteOptions{To: &from})
				}
			}
		}()
	}
	for _, h := range c.Frames {
		if strings.HasPrefix(h, "!sleep") {
			ms, _ := strconv.Atoi(h[len("!sleep"):])
			if ms > 100 {
				ms = 100
			}
			time.Sleep(time.Duration(ms) * time.Millisecond)
			continue
		}
		b, _ := hex.DecodeString(h)
		if len(b) == 0 {
			continue // a zero-length write on a SEQPACKET socket reads as end-of-file: not a frame
		}
		fd.Write(b)
	}
	// liveness: ARP request and echo request are still answered
	ok := false
	for try := 0; try < 3 && !ok; try++ {
		fd.Write(codec.BuildEth([]byte{0xff, 0xff, 0xff, 0xff, 0xff, 0xff}, fd.PeerMAC, codec.EtherARP, codec.BuildARP(codec.ARPRequest, fd.PeerMAC, b4, make([]byte, 6), a4)))
		_, ok = fd.ReadMatch(time.Second, func(e netsim.EthFrame) bool {
			return e.Pkt.L3 == "arp" && e.Pkt.ARPOp == codec.ARPReply && bytes.Equal(e.Pkt.ARPSPA, a4) && bytes.Equal(e.Pkt.ARPSHA, fd.StackMAC)
		})
	}
	if !ok {
		select {
		case e := <-fd.Closed:
			return evid.Failf("liveness:fd-dispatch-ended", "after the barrage the fd-based endpoint's dispatch loop has ended (error %v): the interface no longer receives anything", e)
		default:
		}
		return evid.Failf("liveness:fd-arp", "after the barrage an ARP request on the fd-based interface is no longer answered")
	}
	ok = false
	for try := 0; try < 3 && !ok; try++ {
		pl := []byte("fd-liveness")
		id := uint16(0x4400 + try)
		fd.WriteNet(codec.EtherIPv4, codec.BuildIPv4(codec.IPv4Hdr{Src: b4, Dst: a4, Proto: codec.ProtoICMP, ID: 1}, codec.BuildICMPv4Echo(8, id, 1, pl)))
		_, ok = fd.ReadMatch(time.Second, func(e netsim.EthFrame) bool {
			return e.Pkt.L4Kind == "icmp4" && e.Pkt.ICMPType == 0 && e.Pkt.ICMPID == id && bytes.Equal(e.Pkt.Payload, pl)
		})
	}
	if !ok {
		return evid.Failf("liveness:fd-echo", "after the barrage an echo request on the fd-based interface is no longer answered")
	}
	runts := 0
	for _, h := range c.Frames {
		if len(h) <= 28 {
			runts++
		}
	}
	if len(c.Frames) > 0 {
		evid.NonTrivialKey(fmt.Sprintf("%v", c.Frames))
		evid.Sample("fd-barrage", c)
	}
	if runts > 0 {
		evid.Label("fd:runt-frames")
	}
	return nil
}

func genFD(rt *rapid.T) FDCase {
	var c FDCase
	n := rapid.IntRange(1, 12).Draw(rt, "nframes")
	mac := []byte{2, 0, 0, 0, 0, 1}
	peer := []byte{2, 0, 0, 0, 0, 2}
	for i := 0; i < n; i++ {
		var b []byte
		switch rapid.IntRange(0, 5).Draw(rt, "kind") {
		case 5: // a never-seen neighbour talks to the echo service, stays silent while the stack
			// tries to resolve it, and announces itself once resolution has failed (or is under way)
			k := byte(rapid.IntRange(70, 73).Draw(rt, "stranger"))
			ip, m := []byte{10, 0, 0, k}, []byte{2, 0, 0, 0, 7, k}
			dg := codec.BuildIPv4(codec.IPv4Hdr{Src: ip, Dst: a4, Proto: codec.ProtoUDP, ID: uint16(i)}, codec.BuildUDP(ip, a4, 4000, 7, []byte("who is there"), true))
			c.Frames = append(c.Frames, hex.EncodeToString(codec.BuildEth(mac, m, codec.EtherIPv4, dg)))
			c.Frames = append(c.Frames, fmt.Sprintf("!sleep%d", rapid.SampledFrom([]int{0, 3, 12, 25, 25}).Draw(rt, "silence")))
			op := uint16(rapid.SampledFrom([]int{codec.ARPReply, codec.ARPReply, codec.ARPRequest}).Draw(rt, "arpop"))
			b = codec.BuildEth(mac, m, codec.EtherARP, codec.BuildARP(op, m, ip, mac, a4))
		case 0: // runt
			b = make([]byte, rapid.IntRange(1, 15).Draw(rt, "runtlen"))
		case 1: // header only / header plus a little
			b = codec.BuildEth(mac, peer, uint16(rapid.SampledFrom([]int{codec.EtherIPv4, codec.EtherIPv6, codec.EtherARP, 0}).Draw(rt, "et")), make([]byte, rapid.IntRange(0, 30).Draw(rt, "extra")))
		case 2: // a mutated network-layer frame from the barrage generator
			f := genFrame(rt)
			p, _ := hex.DecodeString(f.B)
			b = codec.BuildEth(mac, peer, f.P, p)
		case 3: // noise
			b = make([]byte, rapid.IntRange(1, 200).Draw(rt, "noiselen"))
			for j := range b {
				b[j] = rapid.Byte().Draw(rt, "nb")
			}
		case 4: // long frame (several readv buffers)
			b = codec.BuildEth(mac, peer, codec.EtherIPv4, make([]byte, rapid.SampledFrom([]int{114, 115, 370, 1500, 3000}).Draw(rt, "long")))
		}
		c.Frames = append(c.Frames, hex.EncodeToString(b))
	}
	return c
}

func TestFDBarrage(t *testing.T) {
	evid.Run(t, evid.Spec[FDCase]{Name: "fd-barrage", Gen: genFD, Run: runFD})
}
