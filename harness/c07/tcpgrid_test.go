package c07

import (
	"encoding/hex"
	"fmt"
	"testing"
	"time"

	"verifharness/codec"
	"verifharness/evid"
	"verifharness/rawpeer"
)

// TestTCPGrid enumerates single TCP segments over flags x sequence offset x
// acknowledgement offset x data-offset nibble x payload length, aimed at an
// established connection and at the listener, and probes liveness regularly.
func TestTCPGrid(t *testing.T) {
	if evid.ReplayMode() {
		t.Skip("replays are hosted by TestBarrage")
	}
	flagSet := []int{0, codec.SYN, codec.ACK, codec.SYN | codec.ACK, codec.FIN, codec.FIN | codec.ACK, codec.RST, codec.RST | codec.ACK, codec.PSH | codec.ACK, codec.URG | codec.ACK, codec.SYN | codec.FIN, 63}
	if evid.Thorough() {
		flagSet = nil
		for f := 0; f < 64; f++ {
			flagSet = append(flagSet, f)
		}
	}
	seqOffs := []uint32{0xffffffff, 0, 1, 65535}
	ackOffs := []uint32{0xffffffff, 0, 1, 1 << 31}
	lens := []int{0, 1, 8}
	w, err := NewWorld()
	if err != nil {
		t.Fatal("world setup failed")
	}
	defer func() { w.Close() }()
	var evals int64
	n := 0
	for fi, fl := range flagSet {
		if fi%evid.NShards != evid.ShardIdx {
			continue
		}
		for _, target := range []string{"est", "listener"} {
			for _, so := range seqOffs {
				for _, ao := range ackOffs {
					for nib := 0; nib < 16; nib++ {
						for _, ln := range lens {
							d := uint8(nib)
							s := codec.TCPSeg{SrcPort: 50000, DstPort: portListen, Seq: so, Ack: ao, Flags: uint8(fl), Wnd: 1000, Payload: make([]byte, ln), DataOffOverride: &d}
							rel := true
							if target == "listener" {
								s.SrcPort = uint16(53000 + n%500)
								rel = false
							}
							b := codec.BuildIPv4(codec.IPv4Hdr{Src: b4, Dst: a4, Proto: codec.ProtoTCP, ID: uint16(n)}, codec.BuildTCP(b4, a4, s))
							fr := Frame{P: codec.EtherIPv4, B: hex.EncodeToString(b), Rel: rel}
							c := Case{Frames: []Frame{fr}}
							evid.Journal("barrage", c)
							f := guarded(func() *evid.Failure { w.Inject(fr); return nil })
							evals++
							n++
							if f == nil && n%3000 == 0 {
								f = guarded(w.Probe)
							}
							if f != nil {
								evid.Direct(t, "barrage", f, c)
								evid.Eval(evals)
								return
							}
							// a reset (or anything else) may have killed the established connection: keep a live one
							if target == "est" && fl&codec.RST != 0 && n%8 == 0 {
								w.reconnect()
							}
						}
					}
				}
			}
		}
		if w2, err := NewWorld(); err == nil {
			if f := w.Probe(); f != nil {
				evid.Direct(t, "barrage", f, Case{})
				return
			}
			w.Close()
			w = w2
		}
	}
	time.Sleep(time.Millisecond)
	if f := w.Probe(); f != nil {
		evid.Direct(t, "barrage", f, Case{})
	}
	evid.Eval(evals)
	evid.DistinctByConstruction(evals)
	evid.Exhaustive(fmt.Sprintf("single TCP segments: %d flag combinations x 4 seq offsets x 4 ack offsets x 16 data-offset nibbles x 3 lengths x {established connection, listener}", len(flagSet)))
}

// reconnect replaces the established connection by a fresh one (new peer
// port is not needed: the old 4-tuple is dead or alive, a new peer object on
// the same port would clash), so a new port is used and Rel frames follow it.
func (w *World) reconnect() {
	w.nextPort++
	p := w.Env.Peer(portListen, 50000, 2000+uint32(w.nextPort))
	_ = p
	// the grid always addresses peer port 50000: re-establishing that exact 4-tuple is only
	// possible once the old endpoint is gone; try, and keep the old peer state otherwise
	np := rawpeer.NewPeerFor(w.Env.Tap, false, w.Env.StackAddr(), w.Env.PeerAddr(), portListen, 50000, 7000+uint32(w.nextPort)*1000)
	np.Wnd = 65535
	if np.Connect(rawpeer.SynOpts{MSS: 1460, WS: 2, TS: true, SACKPerm: true}, 50*time.Millisecond) {
		if ep, _, err := w.L.EP.Accept(); err == nil {
			if w.Conn != nil {
				w.Conn.EP.Close()
			}
			w.Conn.EP = ep
		}
		w.Peer = np
	}
}
