package c07

import (
	"testing"

	"verifharness/evid"
)

func TestMain(m *testing.M) { evid.Main(m, "C07") }
