// Package c07 decides property C07: whatever sequence of frames arrives, the
// stack does not panic, deadlock or corrupt itself; afterwards it still
// answers an echo request, completes a new TCP connection and delivers a UDP
// datagram correctly.
package c07

import (
	"bytes"
	"encoding/binary"
	"encoding/hex"
	"fmt"
	"time"

	tcpip "github.com/brewlin/net-protocol/protocol"
	"github.com/brewlin/net-protocol/protocol/transport/udp"
	"verifharness/codec"
	"verifharness/evid"
	"verifharness/netsim"
	"verifharness/rawpeer"
)

// Frame is one injected frame, stored as the exact bytes that were sent.
type Frame struct {
	P     uint16 `json:"p"`             // EtherType
	B     string `json:"b"`             // hex of the network-layer packet
	Chunk int    `json:"chunk"`         // netsim.ChunkLikeLink mode
	Rel   bool   `json:"rel"`           // TCP seq/ack are relative to the live connection (patched at run time)
	Rep   int    `json:"rep,omitempty"` // the frame is injected 1+Rep times back to back (floods)
	K     string `json:"k,omitempty"`   // template the frame was mutated from (informational)
}

type Case struct {
	Frames []Frame `json:"frames"`
	// LingerMs: wait this long between the barrage and the probes, so that what
	// the frames did to a connection with data in flight meets its timers (the
	// live connection has unacknowledged data outstanding: retransmission timer)
	LingerMs int `json:"linger_ms,omitempty"`
	// SmallBuf: the listener, the live connection and the UDP sockets run with
	// 4 KiB receive buffers, so that single large (jumbo / reassembled) segments
	// and short floods already overflow the queues inside the stack
	SmallBuf bool `json:"small_buf,omitempty"`
}

// World is one stack with live targets.
type World struct {
	Env      *rawpeer.Env
	L        *netsim.Sock // TCP listener :80
	Conn     *netsim.Sock // accepted endpoint of the established connection
	Peer     *rawpeer.Peer
	UDPBound *netsim.Sock // :53
	UDPConn  *netsim.Sock // :5353 connected to B4:7000
	nextPort uint16
	before   string
}

const (
	portListen = 80
	portUDP    = 53
	portUDPc   = 5353
)

func NewWorld() (*World, error) {
	env := rawpeer.NewEnv(rawpeer.EnvCfg{MTU: 1500, SACK: true})
	w := &World{Env: env, nextPort: 51000}
	l, s, p, err := env.Passive(portListen, 50000, 1000, rawpeer.SynOpts{MSS: 1460, WS: 2, TS: true, SACKPerm: true}, 65535)
	if err != nil {
		return nil, fmt.Errorf("establish: %v", err)
	}
	w.L, w.Conn, w.Peer = l, s, p
	// data in flight on the live connection: the scripted peer never acknowledges
	// it, so the connection keeps a retransmission timer running
	s.EP.Write(tcpip.SlicePayload(bytes.Repeat([]byte("unacknowledged "), 40)), tcpip.WriteOptions{})
	ub, e := netsim.NewSock(env.Stack, udp.ProtocolNumber, 0x86dd) // dual-stack socket
	if e != nil {
		return nil, fmt.Errorf("udp: %v", e)
	}
	if e := ub.EP.Bind(tcpip.FullAddress{Port: portUDP}, nil); e != nil {
		return nil, fmt.Errorf("udp bind: %v", e)
	}
	w.UDPBound = ub
	uc, e := netsim.NewSock(env.Stack, udp.ProtocolNumber, 0x0800)
	if e != nil {
		return nil, fmt.Errorf("udp: %v", e)
	}
	if e := uc.EP.Bind(tcpip.FullAddress{Port: portUDPc}, nil); e != nil {
		return nil, fmt.Errorf("udp bind2: %v", e)
	}
	if e := uc.EP.Connect(tcpip.FullAddress{Addr: netsim.B4, Port: 7000}); e != nil {
		return nil, fmt.Errorf("udp connect: %v", e)
	}
	w.UDPConn = uc
	w.before = netsim.StatsString(env.Stack)
	return w, nil
}

// Shrink gives every socket of the world a 4 KiB receive buffer.
func (w *World) Shrink() {
	for _, s := range []*netsim.Sock{w.L, w.Conn, w.UDPBound, w.UDPConn} {
		if s != nil {
			s.EP.SetSockOpt(tcpip.ReceiveBufferSizeOption(4096))
		}
	}
}

func (w *World) Close() {
	for _, s := range []*netsim.Sock{w.Conn, w.L, w.UDPBound, w.UDPConn} {
		if s != nil {
			s.EP.Close()
		}
	}
	w.Env.Close()
}

// Inject delivers one frame (patching relative sequence numbers).
func (w *World) Inject(f Frame) {
	b, err := hex.DecodeString(f.B)
	if err != nil {
		return
	}
	if f.Rel {
		b = append([]byte(nil), b...)
		off := -1
		if f.P == codec.EtherIPv4 && len(b) >= 20 {
			ihl := int(b[0]&0xf) * 4
			if ihl >= 20 && b[9] == codec.ProtoTCP {
				off = ihl
			}
		} else if f.P == codec.EtherIPv6 && len(b) >= 40 && b[6] == codec.ProtoTCP {
			off = 40
		}
		if off >= 0 && len(b) >= off+12 {
			binary.BigEndian.PutUint32(b[off+4:], binary.BigEndian.Uint32(b[off+4:])+w.Peer.ISS+1)
			binary.BigEndian.PutUint32(b[off+8:], binary.BigEndian.Uint32(b[off+8:])+w.Peer.IRS+1)
		}
	}
	if len(b) == 0 {
		w.Env.Tap.InjectViews(tcpip.NetworkProtocolNumber(f.P), "", [][]byte{})
		return
	}
	for i := 0; i <= f.Rep && i <= 64; i++ {
		w.Env.Tap.InjectViews(tcpip.NetworkProtocolNumber(f.P), "", netsim.ChunkLikeLink(b, f.Chunk))
	}
}

// Probe checks that the stack still serves: echo, a fresh TCP connection, a
// UDP datagram. Each probe is tried up to three times (queues may be busy
// with the barrage) before it counts.
func (w *World) Probe() *evid.Failure {
	tap := w.Env.Tap
	a4, b4 := []byte(netsim.A4), []byte(netsim.B4)
	// 1. echo
	ok := false
	for try := 0; try < 3 && !ok; try++ {
		id, seq := uint16(0x7000+try), w.nextPort
		n0 := tap.Len()
		pl := []byte("liveness-probe")
		tap.Inject(0x0800, codec.BuildIPv4(codec.IPv4Hdr{Src: b4, Dst: a4, Proto: codec.ProtoICMP, ID: 9}, codec.BuildICMPv4Echo(8, id, seq, pl)))
		_, _, ok = tap.Scan(n0, 1500*time.Millisecond, func(f netsim.Frame) bool {
			k := f.Pkt
			return k.L4Kind == "icmp4" && k.ICMPType == 0 && k.ICMPID == id && k.ICMPSeq == seq && bytes.Equal(k.Payload, pl) && k.OK()
		})
	}
	if !ok {
		return evid.Failf("liveness:echo", "after the barrage an ICMP echo request to the stack's address is no longer answered")
	}
	// 2. fresh TCP connection on the listener
	ok = false
	for try := 0; try < 3 && !ok; try++ {
		w.nextPort++
		port := w.nextPort
		p := w.Env.Peer(portListen, port, 0x10000000+uint32(port))
		if !p.Connect(rawpeer.SynOpts{MSS: 1460, WS: -1}, 1500*time.Millisecond) {
			continue
		}
		deadline := time.Now().Add(1500 * time.Millisecond)
		for time.Now().Before(deadline) && !ok {
			ep, _, err := w.L.EP.Accept()
			if err != nil {
				time.Sleep(time.Millisecond)
				continue
			}
			if ra, _ := ep.GetRemoteAddress(); ra.Port == port {
				ok = true
			}
			ep.Close()
		}
	}
	if !ok {
		return evid.Failf("liveness:tcp", "after the barrage a new three-way handshake on the listener does not produce a connection")
	}
	// 3. UDP datagram to the bound socket
	ok = false
	for try := 0; try < 3 && !ok; try++ {
		for { // drain what the barrage left
			if _, _, err := w.UDPBound.EP.Read(nil); err != nil {
				break
			}
		}
		pl := []byte(fmt.Sprintf("udp-liveness-%d", try))
		tap.Inject(0x0800, codec.BuildIPv4(codec.IPv4Hdr{Src: b4, Dst: a4, Proto: codec.ProtoUDP, ID: 10}, codec.BuildUDP(b4, a4, 4444, portUDP, pl, true)))
		var from tcpip.FullAddress
		v, err, got := w.UDPBound.Read(1500*time.Millisecond, &from)
		if got && err == nil {
			if !bytes.Equal(v, pl) || from.Port != 4444 {
				return evid.Failf("liveness:udp-corrupt", "after the barrage a UDP datagram is delivered as %q from port %d, sent %q from port 4444", v, from.Port, pl)
			}
			ok = true
		}
	}
	if !ok {
		return evid.Failf("liveness:udp", "after the barrage a UDP datagram to the bound socket is no longer delivered")
	}
	return nil
}

// Reached reports whether the barrage got past the first validity gates, from
// the stack's own counters.
func (w *World) Reached() string { return netsim.StatsString(w.Env.Stack) }

// RunCase runs a barrage and the probes in a fresh world.
func RunCase(c Case) *evid.Failure {
	w, err := NewWorld()
	if err != nil {
		evid.Label("world-setup-failed")
		return nil
	}
	defer w.Close()
	for _, f := range c.Frames {
		w.Inject(f)
	}
	// give asynchronous consumers (TCP goroutines, echo replier) a moment to chew
	time.Sleep(500 * time.Microsecond)
	return w.Probe()
}
