package c07

import (
	"encoding/hex"
	"fmt"
	"testing"

	"verifharness/codec"
	"verifharness/evid"
)

// TestFragGrid enumerates every sequence of up to 3 IPv4 fragments over a
// small grid of offsets, lengths, MF flags and two identifications, including
// inconsistent and contradictory ones, and probes liveness regularly.
func TestFragGrid(t *testing.T) {
	if evid.ReplayMode() {
		t.Skip("replays are hosted by TestBarrage")
	}
	type fr struct {
		off, ln int
		mf      bool
		id      int
	}
	var alpha []fr
	for _, off := range []int{0, 8, 16, 65528} {
		for _, ln := range []int{0, 1, 8, 16} {
			for _, mf := range []bool{false, true} {
				for id := 0; id < 2; id++ {
					alpha = append(alpha, fr{off, ln, mf, id})
				}
			}
		}
	}
	mk := func(f fr, base int) Frame {
		pl := make([]byte, f.ln)
		for i := range pl {
			pl[i] = byte(f.off + i)
		}
		// protocol UDP to the bound socket: a reassembled datagram reaches the transport layer
		b := codec.BuildIPv4(codec.IPv4Hdr{Src: b4, Dst: a4, Proto: codec.ProtoUDP, ID: uint16(base + f.id), MF: f.mf, FragOff: f.off}, pl)
		return Frame{P: codec.EtherIPv4, B: hex.EncodeToString(b)}
	}
	var w *World
	inWorld := 0
	newWorld := func() bool {
		if w != nil {
			w.Close()
		}
		var err error
		w, err = NewWorld()
		inWorld = 0
		return err == nil
	}
	if !newWorld() {
		t.Fatal("world setup failed")
	}
	defer func() { w.Close() }()
	var evals, nts int64
	run := func(seq []fr) bool {
		base := (inWorld * 2) % 65000
		c := Case{}
		for _, f := range seq {
			c.Frames = append(c.Frames, mk(f, base))
		}
		evid.Journal("barrage", c)
		f := guarded(func() *evid.Failure {
			for _, x := range c.Frames {
				w.Inject(x)
			}
			return nil
		})
		evals++
		inWorld++
		if len(seq) >= 2 {
			nts++
		}
		if f == nil && inWorld%4000 == 0 {
			f = guarded(w.Probe)
		}
		if f != nil {
			evid.Direct(t, "barrage", f, c)
			return false
		}
		if inWorld >= 30000 {
			if f := w.Probe(); f != nil {
				evid.Direct(t, "barrage", f, c)
				return false
			}
			if !newWorld() {
				return false
			}
		}
		return true
	}
	maxLen := 3
	idx := 0
	var rec func(seq []fr) bool
	rec = func(seq []fr) bool {
		if len(seq) > 0 {
			if !run(seq) {
				return false
			}
		}
		if len(seq) == maxLen {
			return true
		}
		for _, a := range alpha {
			if len(seq) == 0 {
				idx++
				if idx%evid.NShards != evid.ShardIdx {
					continue
				}
			}
			if !rec(append(seq, a)) {
				return false
			}
		}
		return true
	}
	ok := rec(nil)
	if ok {
		if f := w.Probe(); f != nil {
			evid.Direct(t, "barrage", f, Case{})
		}
		evid.Exhaustive(fmt.Sprintf("all sequences of <=%d IPv4 fragments over offsets {0,8,16,65528} x lengths {0,1,8,16} x MF x 2 ids (%d-letter alphabet)", maxLen, len(alpha)))
	}
	evid.Eval(evals)
	evid.DistinctByConstruction(nts)
}
